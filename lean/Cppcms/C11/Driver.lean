import Cppcms.Common
import Cppcms.C11.Model
/-!
Line-protocol driver for C11 (`NumOps` instance: `F64.ops`, doubles as bit patterns).

Value trees travel as blank-separated words:
`u` undefined · `n` null · `t` / `f` · `d <16 hex digits>` · `s <hex>` ·
`a <count> item…` · `o <count> (<hex key> value)…`

* `parse <full 0|1> <hex text>`      → `ok <consumed bytes> <tree>` | `fail`
* `load <full> <hex text> <tree>`    → `<0|1> <tree>`: `value::load` on a target holding `<tree>`
* `write <readable 0|1> <tree>`      → `<hex text> <rt>` | `throw`; `<rt>` = what parsing the text back gives:
                                        `exact` | `approx` (same shape, numbers differ) | `fail` | `neq` | `fail2` | `neq2`
* `api <count> (<hex key> <tree>)…`    → `<tree>`: object assembled with `v[key] = child`
* `num <hex text>`                   → `ok <bits> <consumed>` | `fail`   (`is >> double`, classic locale)
* `fmt <bits>`                       → `<hex text>`                       (`os << setprecision(P) << x`)
* `tojson <hex>`                     → `<hex text>`                       (`to_json`)
* `get <type> <lo> <hi> <bits>`      → `ok <int>` | `throw`               (integer extraction)
* `J shape <tree>`                   → `1`/`0`: strings valid UTF-8, keys unique, depth ≤ json_max_depth
-/
open Cppcms Cppcms.C11

abbrev V := Value Nat

def hex16 (n : Nat) : String :=
  String.ofList ((List.range 16).map fun i => hexChar (n / 16 ^ (15 - i) % 16))

def parseHexNat (s : String) : Option Nat :=
  s.toList.foldl (fun acc c => match acc, hexDigit c with
    | some a, some d => some (a * 16 + d)
    | _, _ => none) (some 0)

mutual
partial def showV : V → List String
  | .undef => ["u"]
  | .null => ["n"]
  | .bool true => ["t"]
  | .bool false => ["f"]
  | .num x => ["d", hex16 x]
  | .str s => ["s", toHex s]
  | .arr items => ["a", toString items.length] ++ items.flatMap showV
  | .obj ms => ["o", toString ms.length] ++ ms.flatMap fun (k, v) => toHex k :: showV v
end

def showValue (v : V) : String := " ".intercalate (showV v)

/-- read one tree from the word list (fuel = number of words) -/
def readV : Nat → List String → Option (V × List String)
  | 0, _ => none
  | fuel + 1, ws =>
    match ws with
    | "u" :: r => some (.undef, r)
    | "n" :: r => some (.null, r)
    | "t" :: r => some (.bool true, r)
    | "f" :: r => some (.bool false, r)
    | "d" :: h :: r => (parseHexNat h).map fun x => (.num x, r)
    | "s" :: h :: r => (parseHex h).map fun s => (.str s, r)
    | "a" :: n :: r =>
      match n.toNat? with
      | none => none
      | some k =>
        let rec items : Nat → List String → List V → Option (List V × List String)
          | 0, r, acc => some (acc.reverse, r)
          | j + 1, r, acc =>
            match readV fuel r with
            | some (v, r') => items j r' (v :: acc)
            | none => none
        (items k r []).map fun (l, r') => (.arr l, r')
    | "o" :: n :: r =>
      match n.toNat? with
      | none => none
      | some k =>
        let rec mems : Nat → List String → List (Bytes × V) → Option (List (Bytes × V) × List String)
          | 0, r, acc => some (acc, r)
          | j + 1, r, acc =>
            match r with
            | kh :: r1 =>
              match parseHex kh, readV fuel r1 with
              | some key, some (v, r') => mems j r' (if mapHasKey key acc then acc else mapInsert key v acc)
              | _, _ => none
            | [] => none
        (mems k r []).map fun (l, r') => (.obj l, r')
    | _ => none

def readTree (ws : List String) : Option V :=
  match readV (ws.length + 1) ws with
  | some (v, []) => some v
  | _ => none

/-! judge predicates (Boolean forms of `Spec.AllStringsUtf8`, `Spec.KeysUnique`, `Spec.depth`;
`Lemmas.lean` proves the correspondence for the ones the theorems use) -/
mutual
partial def shapeOk : V → Bool
  | .str s => utf8Valid s
  | .arr items => items.all shapeOk
  | .obj ms => ms.all (fun kv => utf8Valid kv.1 && shapeOk kv.2) && nodup (ms.map Prod.fst)
  | _ => true
partial def nodup : List Bytes → Bool
  | [] => true
  | k :: r => !r.contains k && nodup r
end

partial def depthV : V → Nat
  | .arr items => items.foldl (fun a v => max a (depthV v)) 0 + 1
  | .obj ms => ms.foldl (fun a kv => max a (depthV kv.2)) 0 + 1
  | _ => 0

mutual
partial def beqV : V → V → Bool
  | .undef, .undef => true
  | .null, .null => true
  | .bool a, .bool b => a == b
  | .num a, .num b => a == b
  | .str a, .str b => a == b
  | .arr a, .arr b => a.length == b.length && (a.zip b).all fun (x, y) => beqV x y
  | .obj a, .obj b => a.length == b.length && (a.zip b).all fun (x, y) => x.1 == y.1 && beqV x.2 y.2
  | _, _ => false
/-- same tree up to the values of numbers -/
partial def shapeEq : V → V → Bool
  | .num _, .num _ => true
  | .arr a, .arr b => a.length == b.length && (a.zip b).all fun (x, y) => shapeEq x y
  | .obj a, .obj b => a.length == b.length && (a.zip b).all fun (x, y) => x.1 == y.1 && shapeEq x.2 y.2
  | a, b => beqV a b
end

/-- the round trip `save` → `load` → `save` → `load` in the model -/
def rtCode (readable : Bool) (v : V) (t : Bytes) : String :=
  match parse F64.ops t with
  | none => "fail"
  | some v1 =>
    if !shapeEq v v1 then "neq"
    else
      match save F64.ops readable v1 with
      | none => "fail2"
      | some t1 =>
        match parse F64.ops t1 with
        | none => "fail2"
        | some v2 => if !beqV v1 v2 then "neq2" else if beqV v v1 then "exact" else "approx"

def step (_ : Unit) (line : String) : Unit × String :=
  let r : String :=
    match words line with
    | ["parse", full, h] =>
      match parseHex h with
      | some inp =>
        match parseStream F64.ops (full == "1") inp with
        | some (v, rest) => s!"ok {inp.length - rest.length} {showValue v}"
        | none => "fail"
      | none => "bad-op"
    | "load" :: full :: h :: tree =>
      match parseHex h, readTree tree with
      | some inp, some tgt =>
        let (ok, v) := load F64.ops tgt (full == "1") inp
        s!"{boolStr ok} {showValue v}"
      | _, _ => "bad-op"
    | "write" :: mode :: tree =>
      match readTree tree with
      | some v =>
        -- written to a stream with an en_US-style numpunct ('.' decimal point, ',' groups of 3)
        match saveTo F64.ops ⟨46, 44, [3]⟩ (mode == "1") v with
        | some t => toHex t ++ " " ++ rtCode (mode == "1") v t
        | none => "throw"
      | none => "bad-op"
    | "api" :: n :: rest =>
      -- object built member by member with `v[key] = child` (a later assignment to the same key wins)
      match n.toNat? with
      | some k =>
        let rec go : Nat → List String → List (Bytes × V) → Option (List (Bytes × V))
          | 0, [], acc => some acc
          | 0, _, _ => none
          | j + 1, ws, acc =>
            match ws with
            | kh :: r1 =>
              match parseHex kh, readV (r1.length + 1) r1 with
              | some key, some (v, r') => go j r' (mapInsert key v acc)
              | _, _ => none
            | [] => none
        match go k rest [] with
        | some ms => showValue (.obj ms)
        | none => "bad-op"
      | none => "bad-op"
    | ["num", h] =>
      match parseHex h with
      | some inp =>
        match parseNumber F64.ops inp with
        | some (x, rest) => s!"ok {hex16 x} {inp.length - rest.length}"
        | none => "fail"
      | none => "bad-op"
    | ["fmt", b] =>
      match parseHexNat b with
      | some x => toHex (F64.print x)
      | none => "bad-op"
    | ["tojson", h] =>
      match parseHex h with
      | some s => toHex (escapeString s)
      | none => "bad-op"
    | ["get", _, lo, hi, b] =>
      match lo.toInt?, hi.toInt?, parseHexNat b with
      | some lo, some hi, some x =>
        match getInt lo hi x with
        | some n => s!"ok {n}"
        | none => "throw"
      | _, _, _ => "bad-op"
    | "J" :: "shape" :: tree =>
      match readTree tree with
      | some v => boolStr (shapeOk v && decide (depthV v ≤ Gen.jsonMaxDepth))
      | none => "bad-op"
    | _ => "bad-op"
  ((), r)

def main : IO Unit := lineLoop () step
