import Cppcms.C11.Model
import Cppcms.C11.Spec
namespace Cppcms.C11.Props
open Cppcms Cppcms.C11 Cppcms.C11.Spec

/-- `value::load`: on failure the target keeps its content, on success it holds the parsed tree. -/
theorem failed_parse_leaves_target {N} (ops : NumOps N) (target : Value N) (full : Bool) (inp : Bytes) :
    ((load ops target full inp).1 = false → (load ops target full inp).2 = target) ∧
    (∀ v rest, parseStream ops full inp = some (v, rest) → load ops target full inp = (true, v)) := by
  unfold load
  cases h : parseStream ops full inp with
  | none => simp
  | some p => simp

end Cppcms.C11.Props
