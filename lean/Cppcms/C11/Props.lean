import Cppcms.C11.Depth
/-!
# C11 — property theorems

"JSON parsing accepts exactly well-formed documents; serialization round-trips."

Model: `Model.lean` (tokenizer, `parse_stream` machine, writer; constants and tables from
`Gen.lean`, regenerated from `src/json.cpp` on every run).  Specification: `Spec.lean`
(RFC 3629, RFC 8259 grammar, predicates on trees; imports neither `Gen` nor `Model`).

All theorems are for every `NumOps` instance (the numeric conversions of libc/libstdc++ are
parameters); hypotheses about them (`NumLaw`, `NumIdem`) are explicit.  The counterexample
theorems instantiate `NumOps` with `F64.ops`, the exact binary64 arithmetic the driver uses
(compared bit-for-bit with glibc/libstdc++ by the correspondence run).
-/
namespace Cppcms.C11.Props
open Cppcms Cppcms.C11 Cppcms.C11.Spec

/-! ## The key order of `json::object` -/

/-- **key_order_is_bytewise_lexicographic.**  `string_key::operator<`, as translated from
`cppcms/string_key.h` on every run (`Gen.keyLess`, the comparator of `std::map<string_key,value>`;
`mapLt` in the model), is the bytewise lexicographic order on **all** byte strings — NUL is a byte
like any other: `a < b` iff `a` is a proper prefix of `b` or the first differing byte is smaller
(`Spec.BytesLt`).  It is a strict total order, and the equivalence the map derives from it
("neither is less") holds iff the two keys are identical; `operator==` is length + `memcmp`.
`accepts_rfc8259` (distinct member names never collide), `KeysUnique`/`KeysSorted` in
`parse_total`, and the round-trip theorems rest on this fact: the model's map operations
(`mapHasKey`, `mapInsert`, defined from `mapLt`) are thereby the specification's. -/
theorem key_order_is_bytewise_lexicographic :
    (∀ a b : Bytes, mapLt a b = true ↔ BytesLt a b) ∧
    (∀ a : Bytes, mapLt a a = false) ∧
    (∀ a b c : Bytes, mapLt a b = true → mapLt b c = true → mapLt a c = true) ∧
    (∀ a b : Bytes, a ≠ b → mapLt a b = true ∨ mapLt b a = true) ∧
    (∀ a b : Bytes, mapEquiv a b = true ↔ a = b) ∧
    Gen.keyEqIsLengthAndMemcmp = true := by
  refine ⟨fun a b => by rw [mapLt_eq]; exact keyLt_iff_bytesLt a b, fun a => by rw [mapLt_eq]; exact keyLt_irrefl a,
    fun a b c h1 h2 => by rw [mapLt_eq] at *; exact keyLt_trans a b c h1 h2,
    fun a b h => by rw [mapLt_eq, mapLt_eq]; exact keyLt_total a b h,
    fun a b => by rw [mapEquiv_eq]; simp, rfl⟩

/-- keys that agree up to an embedded NUL and differ after it are different keys, in order -/
example : mapLt [97, 0, 98] [97, 0, 99] = true ∧ mapEquiv [97, 0, 98] [97, 0, 99] = false ∧
    mapLt [0, 120] [0, 121] = true ∧ mapLt [107] [107, 0] = true ∧ mapLt [107, 0] [107, 0, 0] = true ∧
    mapLt [127] [128] = true := by decide +kernel

/-- `{"a\u0000b":1,"a\u0000c":2}` is accepted with two members -/
example : (parse F64.ops [123, 34, 97, 92, 117, 48, 48, 48, 48, 98, 34, 58, 49, 44, 34, 97, 92, 117, 48, 48, 48, 48, 99, 34, 58, 50, 125]).isSome = true := by
  decide +kernel

/-! ## Parsing -/

/-- **parse_total.**  `parseStream` is a total function (the tokenizer and the machine are
structural recursions: every loop iteration consumes a token or stops), and on every byte
string it either fails or yields a tree whose strings and keys are valid UTF-8 (RFC 3629),
whose object keys are unique (and in `std::map` order), which holds no undefined member, and
whose nesting depth is at most 512 — for both `full` modes. -/
theorem parse_total {N} (ops : NumOps N) (full : Bool) (inp : Bytes) :
    match parseStream ops full inp with
    | none => True
    | some (v, _) => AllStringsUtf8 v ∧ KeysUnique v ∧ KeysSorted v ∧ NoUndefined v ∧ depth v ≤ 512 := by
  cases h : parseStream ops full inp with
  | none => trivial
  | some p =>
    obtain ⟨v, rest⟩ := p
    obtain ⟨hg, hd⟩ := parseStream_good ops full inp v rest h
    exact ⟨forall_mono (fun _ h => h.1) v hg, forall_mono (fun _ h => h.2.1) v hg,
      forall_mono (fun _ h => h.2.2.1) v hg, forall_mono (fun _ h => h.2.2.2) v hg, hd⟩

/-- **accepts_rfc8259.**  Every document of the RFC 8259 grammar (`Spec.Doc`: any
insignificant whitespace, all escape forms, `\u` escapes with properly paired surrogates,
unescaped multi-byte UTF-8, unique keys, numbers whose exact decimal the conversion accepts,
i.e. finite) whose tree is within the depth bound is accepted, consumed completely, and
yields exactly the tree the grammar assigns to it. -/
theorem accepts_rfc8259 {N} (ops : NumOps N) (text : Bytes) (v : Value N)
    (h : Doc ops text v) (hd : depth v ≤ 512) : parse ops text = some v := by
  simp [parse, parse_doc ops h hd]

/-- **failed_parse_leaves_target.**  `value::load`: when it returns false the target keeps its
content; when parsing succeeds the target is the parsed tree (`out.swap(result)` happens on
the success path only; the translator checks that `out` is mentioned nowhere else). -/
theorem failed_parse_leaves_target {N} (ops : NumOps N) (target : Value N) (full : Bool) (inp : Bytes) :
    ((load ops target full inp).1 = false → (load ops target full inp).2 = target) ∧
    (∀ v rest, parseStream ops full inp = some (v, rest) → load ops target full inp = (true, v)) ∧
    ((load ops target full inp).1 = false ↔ parseStream ops full inp = none) := by
  unfold load
  cases h : parseStream ops full inp with
  | none => simp
  | some p => obtain ⟨v, r⟩ := p; simp

/-- **depth_bound_exact.**  `n` nested arrays `[[…]]` parse iff `1 ≤ n ≤ 512`
(`json_max_depth`, read from the source by the translator), and then to the expected tree. -/
theorem depth_bound_exact {N} (ops : NumOps N) (n : Nat) :
    parse ops (nestText n) = if 1 ≤ n ∧ n ≤ 512 then some (nestVal (n - 1)) else none := by
  by_cases h : 1 ≤ n ∧ n ≤ 512
  · rw [if_pos h]
    obtain ⟨m, rfl⟩ : ∃ m, n = m + 1 := ⟨n - 1, by omega⟩
    refine accepts_rfc8259 ops _ _ ⟨[], _, [], ws_nil, ws_nil, val_nest ops m, by simp⟩ ?_
    rw [depth_nestVal]; omega
  · rw [if_neg h]
    by_cases h0 : n = 0
    · subst h0; exact parse_empty ops
    · have : parseStream ops true (nestText n) = none := parse_too_deep ops true n (by omega) _
      simp [parse, this]

/-! ## Serialization -/

/-- The statement of the property at full strength: *any* tree without undefined members,
written in either form, parses back.  It is **false** of the code (three counterexamples
below), so the theorem proved is `write_parse_roundtrip_partial`. -/
def FullRoundtrip {N} (ops : NumOps N) : Prop :=
  ∀ (v : Value N) (readable : Bool), NoUndefined v → KeysSorted v → depth v ≤ 512 →
    ∃ text, save ops readable v = some text ∧ (parse ops text).isSome

/-- **write_parse_roundtrip_partial.**  For a tree that holds no undefined member, whose
strings and keys are valid UTF-8 (`StringsUtf8`), whose numbers lie in a set `fin` on which the
external conversions satisfy `NumLaw` (`NumsFinite`; for binary64 `fin` = finite and not within
1.5 ulp of `DBL_MAX`), whose objects are in `std::map` order (representation invariant) and
which is at most 512 deep, writing in compact or readable form produces a text that parses
back to the same tree with every number `x` replaced by `rt x` (its value after one trip
through text). -/
theorem write_parse_roundtrip_partial {N} (ops : NumOps N) (fin : N → Prop) (rt : N → N)
    (hlaw : NumLaw ops fin rt) (v : Value N)
    (hu : NoUndefined v) (hs : AllStringsUtf8 v) (hf : NumsFinite fin v) (hk : KeysSorted v) (hd : depth v ≤ 512)
    (readable : Bool) :
    ∃ text, save ops readable v = some text ∧ parse ops text = some (mapNum rt v) := by
  have hw : Forall (WNode fin) v := by
    have := forall_and v hu (forall_and v hs (forall_and v hf hk))
    exact forall_mono (fun _ h => ⟨h.1, h.2.1, h.2.2.1, h.2.2.2⟩) v this
  obtain ⟨t, w, e, hv, hws⟩ := wv ops fin rt hlaw v hw (if readable then some 0 else none)
  refine ⟨t ++ w, e, ?_⟩
  exact accepts_rfc8259 ops _ _ ⟨[], t, w, ws_nil, hws, hv, by simp⟩ (by rw [depth_mapNum]; exact hd)

/-- **write_parse_roundtrip_second.**  "Exactly from the second round on": under `NumIdem`
(a second trip through text changes no number) the tree obtained by the first round is
reproduced exactly by every further round. -/
theorem write_parse_roundtrip_second {N} (ops : NumOps N) (fin : N → Prop) (rt : N → N)
    (hlaw : NumLaw ops fin rt) (hid : NumIdem fin rt) (v : Value N)
    (hu : NoUndefined v) (hs : AllStringsUtf8 v) (hf : NumsFinite fin v) (hk : KeysSorted v) (hd : depth v ≤ 512)
    (readable : Bool) :
    ∃ t1 w t2, save ops readable v = some t1 ∧ parse ops t1 = some w ∧
      save ops readable w = some t2 ∧ parse ops t2 = some w := by
  obtain ⟨t1, e1, p1⟩ := write_parse_roundtrip_partial ops fin rt hlaw v hu hs hf hk hd readable
  -- what the parser guarantees about its result
  have hgood : AllStringsUtf8 (mapNum rt v) ∧ KeysSorted (mapNum rt v) ∧ NoUndefined (mapNum rt v) ∧ depth (mapNum rt v) ≤ 512 := by
    have := parse_total ops true t1
    unfold parse at p1
    cases h : parseStream ops true t1 with
    | none => rw [h] at p1; simp at p1
    | some p =>
      obtain ⟨v', r⟩ := p
      rw [h] at p1 this
      simp only [Option.map_some, Option.some.injEq] at p1
      subst p1
      exact ⟨this.1, this.2.2.1, this.2.2.2.1, this.2.2.2.2⟩
  -- every number of the result is a fixed point of `rt`
  have hfix : Forall (FixNode fin rt) (mapNum rt v) := fixed_mapNum fin rt hid v hf
  have hf' : NumsFinite (fun x => fin x ∧ rt x = x) (mapNum rt v) :=
    forall_mono (fun u h => by cases u <;> first | exact h | trivial) _ hfix
  have hlaw' : NumLaw ops (fun x => fin x ∧ rt x = x) rt := fun x hx => hlaw x hx.1
  obtain ⟨t2, e2, p2⟩ := write_parse_roundtrip_partial ops _ rt hlaw' (mapNum rt v) hgood.2.2.1 hgood.1 hf' hgood.2.1
    hgood.2.2.2 readable
  rw [mapNum_fixed fin rt _ hfix] at p2
  exact ⟨t1, mapNum rt v, t2, e1, p1, e2, p2⟩

/-- **save_locale_independent.**  "Regardless of the stream's locale": whatever `numpunct`
(decimal point, thousands separator, grouping) the output stream carries, `value::write`
produces the text of the classic locale — because the source imbues `"C"` unconditionally
around `write_value` (`Gen.writeImbue`, `Gen.writeImbueUnconditional`, regenerated every run).
All round-trip theorems therefore hold for `saveTo ops loc` with any `loc`. -/
theorem save_locale_independent {N} (ops : NumOps N) (loc : StreamLocale) (readable : Bool) (v : Value N) :
    saveTo ops loc readable v = save ops readable v := by
  have : effectiveLocale loc = StreamLocale.classic := by
    simp [effectiveLocale, Gen.writeImbueUnconditional, Gen.writeImbue]
  simp [saveTo, this]

/-! ### the full statement is false: three counterexamples (known findings) -/

theorem parse_of_err {N} (ops : NumOps N) (inp r : Bytes) (h : next ops inp = (.err, r)) : parse ops inp = none := by
  simp only [parse, parseStream, tokens_stop ops inp .err r h rfl, run, start_running, if_true]
  simp [step, Cfg.start, Tok.scalar?, Cfg.fail]

/-- **roundtrip_counterexample_invalid_utf8** (known finding `json-writer-invalid-utf8`).  For
every `NumOps`: the string member `"\xFF"` is written raw, and the text is rejected by the
final `utf8::validate` of `parse_string`. -/
theorem roundtrip_counterexample_invalid_utf8 {N} (ops : NumOps N) :
    NoUndefined (.str [255] : Value N) ∧ save ops false (.str [255]) = some [34, 255, 34] ∧
    parse ops [34, 255, 34] = none := by
  refine ⟨by simp [NoUndefined, Forall, DefinedNode], rfl, ?_⟩
  apply parse_of_err ops _ []
  have : parseString [255, 34] = none := by decide
  simp [next, nextAux_false_cons, Gen.tokPunct, Gen.tokBlank, Gen.tokNewline, Gen.tokQuote, this]

/-- **roundtrip_counterexample_nonfinite** (known finding `json-writer-nonfinite`).  With the
exact binary64 instance: a number member holding +inf is written as `inf`, which is not JSON
and is rejected. -/
theorem roundtrip_counterexample_nonfinite :
    NoUndefined (.num 0x7FF0000000000000 : Value Nat) ∧
    save F64.ops false (.num 0x7FF0000000000000) = some [105, 110, 102] ∧
    parse F64.ops [105, 110, 102] = none := by
  refine ⟨by simp [NoUndefined, Forall, DefinedNode], rfl, ?_⟩
  have : (parse F64.ops [105, 110, 102]).isNone = true := by decide +kernel
  simpa using this

/-- **roundtrip_counterexample_dbl_max** (known finding `json-writer-dbl-max`, found by this
check).  `DBL_MAX` = 0x7FEFFFFFFFFFFFFF is finite, but `digits10+1 = 16` significant digits
round it up to `1.797693134862316e+308`, which exceeds the double range: `num_get` reports
overflow and the text is rejected. -/
theorem roundtrip_counterexample_dbl_max :
    F64.isFinite 0x7FEFFFFFFFFFFFFF = true ∧
    save F64.ops false (.num 0x7FEFFFFFFFFFFFFF) =
      some [49, 46, 55, 57, 55, 54, 57, 51, 49, 51, 52, 56, 54, 50, 51, 49, 54, 101, 43, 51, 48, 56] ∧
    parse F64.ops [49, 46, 55, 57, 55, 54, 57, 51, 49, 51, 52, 56, 54, 50, 51, 49, 54, 101, 43, 51, 48, 56] = none := by
  refine ⟨by decide +kernel, ?_, ?_⟩
  · have : F64.print 0x7FEFFFFFFFFFFFFF =
        [49, 46, 55, 57, 55, 54, 57, 51, 49, 51, 52, 56, 54, 50, 51, 49, 54, 101, 43, 51, 48, 56] := by decide +kernel
    simp [save, writeValue, F64.ops, this]
  · have : (parse F64.ops [49, 46, 55, 57, 55, 54, 57, 51, 49, 51, 52, 56, 54, 50, 51, 49, 54, 101, 43, 51, 48, 56]).isNone = true := by
      decide +kernel
    simpa using this

/-- the full statement fails for the faithful model with exact binary64 numbers -/
theorem full_roundtrip_false : ¬ FullRoundtrip F64.ops := by
  intro h
  obtain ⟨text, e, hp⟩ := h (.num 0x7FF0000000000000) false roundtrip_counterexample_nonfinite.1
    (by simp [KeysSorted, Forall, SortedNode]) (by simp [depth])
  rw [roundtrip_counterexample_nonfinite.2.1] at e
  simp only [Option.some.injEq] at e
  subst e
  rw [roundtrip_counterexample_nonfinite.2.2] at hp
  simp at hp

mutual
theorem writeValue_undef {N} (ops : NumOps N) : ∀ (v : Value N) (tabs : Option Nat), ¬ NoUndefined v → writeValue ops tabs v = none
  | .undef, _, _ => rfl
  | .null, _, h => absurd (by simp [NoUndefined, Forall, DefinedNode]) h
  | .bool _, _, h => absurd (by simp [NoUndefined, Forall, DefinedNode]) h
  | .num _, _, h => absurd (by simp [NoUndefined, Forall, DefinedNode]) h
  | .str _, _, h => absurd (by simp [NoUndefined, Forall, DefinedNode]) h
  | .arr items, tabs, h => by
    have : ¬ ForallL DefinedNode items := by intro hl; exact h (by simp [NoUndefined, Forall, DefinedNode, hl])
    simp [writeValue, writeItems_undef ops items _ this]
  | .obj ms, tabs, h => by
    have : ¬ ForallM DefinedNode ms := by intro hl; exact h (by simp [NoUndefined, Forall, DefinedNode, hl])
    simp [writeValue, writeMembers_undef ops ms _ this]
theorem writeItems_undef {N} (ops : NumOps N) : ∀ (l : List (Value N)) (tabs : Option Nat), ¬ ForallL DefinedNode l → writeItems ops tabs l = none
  | [], _, h => absurd (by simp [ForallL]) h
  | v :: rest, tabs, h => by
    by_cases hv : NoUndefined v
    · have : ¬ ForallL DefinedNode rest := by intro hl; exact h (by simp only [ForallL]; exact ⟨hv, hl⟩)
      rw [writeItems, writeItems_undef ops rest tabs this]
      cases writeValue ops tabs v <;> rfl
    · rw [writeItems, writeValue_undef ops v tabs hv]
theorem writeMembers_undef {N} (ops : NumOps N) : ∀ (l : List (Bytes × Value N)) (tabs : Option Nat), ¬ ForallM DefinedNode l → writeMembers ops tabs l = none
  | [], _, h => absurd (by simp [ForallM]) h
  | (k, v) :: rest, tabs, h => by
    by_cases hv : NoUndefined v
    · have : ¬ ForallM DefinedNode rest := by intro hl; exact h (by simp only [ForallM]; exact ⟨hv, hl⟩)
      rw [writeMembers, writeMembers_undef ops rest tabs this]
      cases writeValue ops tabs v <;> rfl
    · rw [writeMembers, writeValue_undef ops v tabs hv]
end

/-- **write_undefined_throws.**  A tree with an undefined member anywhere cannot be written
(`write_value` throws `bad_value_cast`), in either form. -/
theorem write_undefined_throws {N} (ops : NumOps N) (v : Value N) (readable : Bool) (h : ¬ NoUndefined v) :
    save ops readable v = none :=
  writeValue_undef ops v _ h

/-! ## Typed extraction -/

/-- **int_extraction_exact_or_throws.**  `traits<integer>::get` modelled as "the exact integer
value of the double if it has one within `[lo, hi]`, otherwise throw": the result is exactly
the value of the double (`Spec.DblIsInt`: `(-1)^s · mant · 2^e = n` on the IEEE 754 fields)
and in range; and it throws only when no such integer exists.  (Partial: that the C++
`static_cast` + compare-back behaves like this for out-of-range values is undefined
behaviour, observed differentially only.) -/
theorem int_extraction_exact_or_throws (lo hi : Int) (bits : Nat) :
    match getInt lo hi bits with
    | some n => lo ≤ n ∧ n ≤ hi ∧ DblIsInt bits n
    | none => ¬ ∃ n, lo ≤ n ∧ n ≤ hi ∧ DblIsInt bits n := by
  unfold getInt
  cases h : F64.toInt? bits with
  | none =>
    simp only
    rintro ⟨n, _, _, hn⟩
    rw [((toInt_spec bits n).mpr hn)] at h; cases h
  | some n =>
    by_cases hr : lo ≤ n ∧ n ≤ hi
    · have e : (if (decide (lo ≤ n) && decide (n ≤ hi)) = true then some n else none) = some n := by simp [hr]
      simp only [e]
      exact ⟨hr.1, hr.2, (toInt_spec bits n).mp h⟩
    · have e : (if (decide (lo ≤ n) && decide (n ≤ hi)) = true then some n else none) = none := by
        simp only [Bool.and_eq_true, decide_eq_true_eq, hr, if_false]
      simp only [e]
      rintro ⟨n', h1, h2, hn'⟩
      have := (toInt_spec bits n').mpr hn'
      rw [h] at this
      simp only [Option.some.injEq] at this
      subst this
      exact hr ⟨h1, h2⟩

/-! ## Non-vacuity: instances meeting the hypotheses -/

/-- 1.0 -/
def one : Nat := 0x3FF0000000000000

theorem number_one : Number [49] ⟨false, 1, 0⟩ := by
  have := Number.mk false [49] [] none (Or.inr ⟨⟨by simp, by intro b hb; simp at hb; subst hb; unfold IsDigit; decide⟩, by simp⟩)
    (Or.inl rfl) (by intro e sg ep h; cases h)
  simpa [minusText, fracText, expText, expVal, natOf] using this

theorem ofDec_one : F64.ops.ofDec ⟨false, 1, 0⟩ = some one := by decide +kernel

/-- a document with whitespace, an escape, a surrogate pair, a nested array and a number:
`{ "k\n" : [true, 1], "\ud83d\ude00" : null }` is in the grammar … -/
example : ∃ v, Doc F64.ops
    ([123, 32] ++ ([34, 107, 92, 110, 34] ++ [32] ++ 58 :: ([32] ++ (91 :: ([] ++ ([116, 114, 117, 101] ++ [] ++ 44 :: ([32] ++ [49])) ++ [] ++ [93]))) ++
      [] ++ 44 :: ([32] ++ ([34, 92, 117, 100, 56, 51, 100, 92, 117, 100, 101, 48, 48, 34] ++ [32] ++ 58 :: ([32] ++ [110, 117, 108, 108])))) ++ [32, 125] ++ [10]) v ∧
    depth v ≤ 512 := by
  have ws1 : Ws [32] := by intro b hb; simp at hb; subst hb; left; rfl
  have ws10 : Ws [10] := by intro b hb; simp at hb; subst hb; right; right; left; rfl
  have k1 : StringLex [34, 107, 92, 110, 34] [107, 10] :=
    ⟨[107, 92, 110], rfl, Chars.plain [107] _ _ (Utf8Char.u1 107 (by decide)) (by decide) (by decide)
      (by intro b h; simp at h; subst h; decide)
      (Chars.esc 110 10 [] [] (by unfold SimpleEsc; decide) Chars.nil)⟩
  have k2 : StringLex [34, 92, 117, 100, 56, 51, 100, 92, 117, 100, 101, 48, 48, 34] (encodeUtf8 0x1F600) :=
    ⟨[92, 117, 100, 56, 51, 100, 92, 117, 100, 101, 48, 48], rfl, by
      have := Chars.pair 100 56 51 100 100 101 48 48 [] [] (by decide) (by decide) (by decide) (by decide) (by decide) (by decide)
        (by decide) (by decide) (by decide) (by decide) (by decide) (by decide) Chars.nil
      have e : 0x10000 + (hex4Val 100 56 51 100 - 0xD800) * 0x400 + (hex4Val 100 101 48 48 - 0xDC00) = 0x1F600 := by decide
      rw [e] at this
      simpa using this⟩
  have varr : Val F64.ops (91 :: ([] ++ ([116, 114, 117, 101] ++ [] ++ 44 :: ([32] ++ [49])) ++ [] ++ [93])) (.arr [.bool true, .num one]) :=
    Val.arr [] _ [] _ ws_nil ws_nil
      (Elems.cons _ [] [32] [49] _ _ Val.tru ws_nil ws1 (Elems.one _ _ (Val.num [49] _ one number_one ofDec_one)))
  have hm := Members.cons _ [107, 10] [32] [32] _ [] [32] _ _ _ k1 ws1 ws1 varr ws_nil ws1
      (Members.one _ (encodeUtf8 0x1F600) [32] [32] _ _ k2 ws1 ws1 (Val.null (ops := F64.ops)))
  refine ⟨_, ⟨[], _, [10], ws_nil, ws10, Val.obj [32] _ [32] _ ws1 ws1 hm (by decide), by simp⟩, ?_⟩
  decide +kernel

/-- … a tree and number set meeting the hypotheses of the round-trip theorems (`NumLaw`,
`NumIdem` for the set `{1.0}`) -/
theorem numLaw_one : NumLaw F64.ops (fun x => x = one) id := by
  intro x hx
  subst hx
  refine ⟨⟨false, 1, 0⟩, ?_, ofDec_one⟩
  have : F64.ops.print one = [49] := by decide +kernel
  rw [this]; exact number_one

example : ∃ text, save F64.ops true (.obj [([97], .arr [.num one, .str [120, 10, 195, 169], .null])]) = some text ∧
    parse F64.ops text = some (.obj [([97], .arr [.num one, .str [120, 10, 195, 169], .null])]) := by
  have h := write_parse_roundtrip_partial F64.ops (fun x => x = one) id numLaw_one
    (.obj [([97], .arr [.num one, .str [120, 10, 195, 169], .null])])
    (by simp [NoUndefined, Forall, ForallM, ForallL, DefinedNode])
    (by
      have u1 : Utf8 [97] := by simpa using Utf8.cons [97] [] (Utf8Char.u1 97 (by decide)) Utf8.nil
      have u2 : Utf8 [120, 10, 195, 169] := by
        have := Utf8.cons [120] _ (Utf8Char.u1 120 (by decide)) (Utf8.cons [10] _ (Utf8Char.u1 10 (by decide))
          (Utf8.cons [195, 169] [] (Utf8Char.u2 195 169 (by decide) (by decide) (by unfold Tail; decide)) Utf8.nil))
        simpa using this
      simp [AllStringsUtf8, Forall, ForallM, ForallL, StrNode, keys, u1, u2])
    (by simp [NumsFinite, Forall, ForallM, ForallL, FinNode])
    (by simp [KeysSorted, Forall, ForallM, ForallL, SortedNode, keys])
    (by decide +kernel) true
  simpa [mapNum, mapNumM, mapNumL] using h

example : NumIdem (fun x => x = one) id := fun x hx => ⟨hx, rfl⟩

/-! ### the parser accepts a superset of RFC 8259 (allowed by the property; recorded, not alarmed on) -/

/-- `[1,]`, `01`, `1.`, `-.5`, a `//` comment: accepted by the model exactly as by the code -/
example : (parse F64.ops [91, 49, 44, 93]).isSome = true ∧ (parse F64.ops [48, 49]).isSome = true ∧
    (parse F64.ops [49, 46]).isSome = true ∧ (parse F64.ops [45, 46, 53]).isSome = true ∧
    (parse F64.ops [47, 47, 120, 10, 49]).isSome = true ∧ (parse F64.ops [43, 49]).isSome = false := by
  decide +kernel

/-- `int_extraction_exact_or_throws` is not vacuous: 127.0 as `signed char`, 128.0 throws -/
example : getInt (-128) 127 0x405FC00000000000 = some 127 ∧ getInt (-128) 127 0x4060000000000000 = none := by
  decide +kernel

end Cppcms.C11.Props
