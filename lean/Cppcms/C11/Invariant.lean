import Cppcms.C11.MapUtf8
/-! Helper lemmas for C11, part 4: the invariant of the `parse_stream` machine (zipper). -/
namespace Cppcms.C11
open Cppcms Spec

def GoodNode {N} (v : Value N) : Prop := StrNode v ∧ KeyNode v ∧ SortedNode v ∧ DefinedNode v
def Good {N} (v : Value N) : Prop := Forall GoodNode v

def ContInv {N} (lvl : Nat) : Cont N → Prop
  | .undef => True
  | .arr r => ∀ v ∈ r, Good v ∧ depth v + lvl ≤ 512
  | .obj ms => (∀ kv ∈ ms, Utf8 kv.1 ∧ Good kv.2 ∧ depth kv.2 + lvl ≤ 512) ∧ (keys ms).Nodup ∧
      (keys ms).Pairwise (fun a b => keyLt a b = true)

def SlotOk {N} (k : Bytes) : List (Frame N) → Prop
  | [] => True
  | p :: _ => match p.cont with
    | .obj ms => k ∉ keys ms
    | _ => True

def StackInv {N} : List (Frame N) → Prop
  | [] => True
  | f :: more => ContInv (more.length + 1) f.cont ∧ Utf8 f.key ∧ SlotOk f.key more ∧ StackInv more

def IsObj {N} (c : Cont N) : Prop := ∃ ms, c = .obj ms
def IsArr {N} (c : Cont N) : Prop := ∃ r, c = .arr r

/-- the kind of container on top of the stack that a state presupposes -/
def TopKind {N} (st : St) (stack : List (Frame N)) : Prop :=
  match st with
  | .objKey | .objColon | .objValue | .objCloseComma => ∃ f more, stack = f :: more ∧ IsObj f.cont
  | .arrValue | .arrCloseComma => ∃ f more, stack = f :: more ∧ IsArr f.cont
  | .done => stack = []
  | _ => True

/-- every return state on the stack fits the entry below it -/
def RetOk {N} : List (Frame N) → Prop
  | [] => True
  | f :: more => TopKind f.ret more ∧ RetOk more

/-- the result is only meaningful once the machine is done -/
def ResInv {N} (st : St) (result : Value N) : Prop := st = .done → Good result ∧ depth result ≤ 512

def CfgInv {N} (c : Cfg N) : Prop :=
  StackInv c.stack ∧ Utf8 c.key ∧ ResInv c.st c.result ∧ TopKind c.st c.stack ∧ RetOk c.stack

theorem resInv_of_ne {N} {st : St} (result : Value N) (h : st ≠ .done) : ResInv st result := fun e => absurd e h

def TokOk {N} : Tok N → Prop
  | .str s => Utf8 s
  | _ => True

theorem close_good {N} (lvl : Nat) (cont : Cont N) (h : ContInv lvl cont) (hl : 1 ≤ lvl) (hu : lvl ≤ 512)
    (hk : IsArr cont ∨ IsObj cont) :
    Good cont.close ∧ depth cont.close + (lvl - 1) ≤ 512 := by
  cases cont with
  | undef => rcases hk with ⟨_, h⟩ | ⟨_, h⟩ <;> cases h
  | arr r =>
    simp only [ContInv] at h
    constructor
    · simp only [Cont.close, Good]
      rw [forall_arr]
      refine ⟨by simp [GoodNode, StrNode, KeyNode, SortedNode, DefinedNode], ?_⟩
      intro v hv; exact (h v (by simpa using hv)).1
    · simp only [Cont.close, depth]
      have : depthL r.reverse ≤ 512 - lvl := by
        rw [depthL_le]; intro v hv; have := (h v (by simpa using hv)).2; omega
      omega
  | obj ms =>
    simp only [ContInv] at h
    constructor
    · simp only [Cont.close, Good]
      rw [forall_obj]
      refine ⟨⟨?_, h.2.1, h.2.2, trivial⟩, fun kv hkv => (h.1 kv hkv).2.1⟩
      intro k hk
      simp only [keys, List.mem_map] at hk
      obtain ⟨kv, hkv, rfl⟩ := hk
      exact (h.1 kv hkv).1
    · simp only [Cont.close, depth]
      have : depthM ms ≤ 512 - lvl := by
        rw [depthM_le]; intro kv hkv; have := (h.1 kv hkv).2.2; omega
      omega

theorem plug_inv {N} (lvl : Nat) (cont : Cont N) (v : Value N) (k : Bytes) (h : ContInv lvl cont)
    (hv : Good v) (hd : depth v + lvl ≤ 512) (hk : Utf8 k) (hs : ∀ ms, cont = .obj ms → k ∉ keys ms) :
    ContInv lvl (cont.plug v k) := by
  cases cont with
  | undef => simp [Cont.plug, ContInv]
  | arr r =>
    simp only [Cont.plug, ContInv, List.mem_cons] at h ⊢
    intro w hw
    rcases hw with rfl | hw
    · exact ⟨hv, hd⟩
    · exact h w hw
  | obj ms =>
    simp only [Cont.plug, ContInv, mapInsert_eq] at h ⊢
    refine ⟨?_, nodup_insertKV k v ms (hs ms rfl) h.2.1, sorted_insertKV k v ms h.2.2⟩
    intro kv hkv
    rcases mem_insertKV k v ms kv hkv with rfl | hkv'
    · exact ⟨hk, hv, hd⟩
    · exact h.1 kv hkv'

theorem plug_isObj {N} (cont : Cont N) (v : Value N) (k : Bytes) : IsObj cont → IsObj (cont.plug v k) := by
  rintro ⟨ms, rfl⟩; exact ⟨_, rfl⟩

theorem plug_isArr {N} (cont : Cont N) (v : Value N) (k : Bytes) : IsArr cont → IsArr (cont.plug v k) := by
  rintro ⟨r, rfl⟩; exact ⟨_, rfl⟩

/-- replacing the top entry's container by one of the same kind keeps `TopKind` -/
theorem topKind_replace {N} (st : St) (p : Frame N) (more : List (Frame N)) (cont' : Cont N)
    (ho : IsObj p.cont → IsObj cont') (ha : IsArr p.cont → IsArr cont')
    (h : TopKind st (p :: more)) : TopKind st ({ p with cont := cont' } :: more) := by
  cases st <;> simp only [TopKind] at h ⊢
  all_goals first
    | trivial
    | (obtain ⟨f, m, e, hk⟩ := h
       simp only [List.cons.injEq] at e
       obtain ⟨rfl, rfl⟩ := e
       first
         | exact ⟨_, _, rfl, ho hk⟩
         | exact ⟨_, _, rfl, ha hk⟩)
    | (simp at h)

theorem scalar_good {N} (t : Tok N) (v : Value N) (h : t.scalar? = some v) (ht : TokOk t) :
    Good v ∧ depth v = 0 := by
  cases t <;> simp [Tok.scalar?] at h <;> subst h <;>
    simp_all [Good, Forall, GoodNode, StrNode, KeyNode, SortedNode, DefinedNode, depth, TokOk]

theorem guard_le {n : Nat} (h : Gen.depthGuard n = true) : n ≤ 512 := by
  unfold Gen.depthGuard Gen.jsonMaxDepth at h
  exact of_decide_eq_true h

theorem fail_inv {N} (c : Cfg N) (h : CfgInv c) : CfgInv c.fail :=
  ⟨h.1, h.2.1, resInv_of_ne _ (by simp [Cfg.fail]), trivial, h.2.2.2.2⟩

theorem pop_inv {N} (c : Cfg N) (h : CfgInv c) (hg : c.stack.length ≤ 512)
    (hk : ∀ f more, c.stack = f :: more → IsArr f.cont ∨ IsObj f.cont) : CfgInv c.pop := by
  unfold Cfg.pop
  split
  · exact fail_inv c h
  · rename_i f hs
    obtain ⟨h1, h2, h3, h5, h6⟩ := h
    rw [hs] at h1 h6
    simp only [StackInv, List.length_nil] at h1
    simp only [RetOk] at h6
    have := close_good 1 f.cont h1.1 (by omega) (by omega) (hk f [] hs)
    exact ⟨by simp [StackInv], h2, fun _ => ⟨this.1, by simpa using this.2⟩, h6.1, by simp [RetOk]⟩
  · rename_i f p more hs
    obtain ⟨h1, h2, h3, h5, h6⟩ := h
    rw [hs] at h1 hg h6
    simp only [StackInv, List.length_cons] at h1 hg
    simp only [RetOk] at h6
    obtain ⟨hf, hfk, hslot, hp, hpk, hpslot, hmore⟩ := h1
    have hc := close_good (more.length + 1 + 1) f.cont hf (by omega) (by omega) (hk f (p :: more) hs)
    have hnd : f.ret ≠ .done := by
      intro e; have := h6.1; rw [e] at this; simp [TopKind] at this
    refine ⟨?_, h2, resInv_of_ne _ hnd, ?_, ?_⟩
    · simp only [StackInv]
      refine ⟨?_, hpk, hpslot, hmore⟩
      apply plug_inv _ _ _ _ hp hc.1 (by have := hc.2; omega) hfk
      intro ms hms
      simp only [SlotOk, hms] at hslot
      exact hslot
    · exact topKind_replace _ _ _ _ (plug_isObj _ _ _) (plug_isArr _ _ _) h6.1
    · simp only [RetOk]; exact h6.2

theorem put_inv {N} (c : Cfg N) (v : Value N) (st' : St) (h : CfgInv c) (hg : c.stack.length ≤ 512)
    (hv : Good v) (hd : depth v = 0) (hst : TopKind st' c.stack) (hnd : st' ≠ .done)
    (hs : ∀ f more ms, c.stack = f :: more → f.cont = .obj ms → c.key ∉ keys ms) : CfgInv (c.put v st') := by
  unfold Cfg.put
  split
  · rename_i he
    rw [he] at hst
    exact fail_inv c h
  · rename_i f more hstk
    obtain ⟨h1, h2, h3, h5, h6⟩ := h
    rw [hstk] at h1 hg h6 hst
    simp only [StackInv] at h1
    simp only [List.length_cons] at hg
    simp only [RetOk] at h6
    refine ⟨?_, h2, resInv_of_ne _ hnd, ?_, ?_⟩
    · simp only [StackInv]
      refine ⟨?_, h1.2.1, h1.2.2.1, h1.2.2.2⟩
      exact plug_inv _ _ _ _ h1.1 hv (by omega) h2 (fun ms hms => hs f more ms hstk hms)
    · exact topKind_replace _ _ _ _ (plug_isObj _ _ _) (plug_isArr _ _ _) hst
    · simp only [RetOk]; exact h6

theorem push_inv {N} (c : Cfg N) (ret : St) (k : Bytes) (cont : Cont N) (st' : St) (h : CfgInv c)
    (hc : (cont = .arr [] ∧ st' = .arrValue) ∨ (cont = .obj [] ∧ st' = .objKey))
    (hk : Utf8 k) (hret : TopKind ret c.stack)
    (hs : ∀ f more ms, c.stack = f :: more → f.cont = .obj ms → k ∉ keys ms) :
    CfgInv (c.push ⟨ret, k, cont⟩ st') := by
  obtain ⟨h1, h2, h3, h5, h6⟩ := h
  refine ⟨?_, h2, resInv_of_ne _ (by rcases hc with ⟨_, rfl⟩ | ⟨_, rfl⟩ <;> simp [Cfg.push]), ?_, ?_⟩
  · simp only [Cfg.push, StackInv]
    refine ⟨?_, hk, ?_, h1⟩
    · rcases hc with ⟨rfl, _⟩ | ⟨rfl, _⟩ <;> simp [ContInv, keys]
    · cases hst : c.stack with
      | nil => simp [SlotOk]
      | cons f more =>
        simp only [SlotOk]
        split
        · rename_i ms hms; exact hs f more ms hst hms
        · trivial
  · rcases hc with ⟨rfl, rfl⟩ | ⟨rfl, rfl⟩
    · exact ⟨_, _, rfl, ⟨_, rfl⟩⟩
    · exact ⟨_, _, rfl, ⟨_, rfl⟩⟩
  · simp only [Cfg.push, RetOk]; exact ⟨hret, h6⟩

theorem utf8_nil : Utf8 [] := Utf8.nil

theorem topObj_of {N} {stack : List (Frame N)} (h : ∃ f more, stack = f :: more ∧ IsObj f.cont) :
    ∀ f more, stack = f :: more → IsArr f.cont ∨ IsObj f.cont := by
  obtain ⟨f, more, rfl, hk⟩ := h
  intro f' more' e
  simp only [List.cons.injEq] at e
  obtain ⟨rfl, rfl⟩ := e
  exact Or.inr hk

theorem topArr_of {N} {stack : List (Frame N)} (h : ∃ f more, stack = f :: more ∧ IsArr f.cont) :
    ∀ f more, stack = f :: more → IsArr f.cont ∨ IsObj f.cont := by
  obtain ⟨f, more, rfl, hk⟩ := h
  intro f' more' e
  simp only [List.cons.injEq] at e
  obtain ⟨rfl, rfl⟩ := e
  exact Or.inl hk

theorem topArr_slot {N} {stack : List (Frame N)} (h : ∃ f more, stack = f :: more ∧ IsArr f.cont) (k : Bytes) :
    ∀ f more ms, stack = f :: more → f.cont = .obj ms → k ∉ keys ms := by
  obtain ⟨f, more, rfl, ⟨r, hr⟩⟩ := h
  intro f' more' ms e e2
  simp only [List.cons.injEq] at e
  obtain ⟨rfl, rfl⟩ := e
  rw [hr] at e2; cases e2

theorem step_inv {N} (c : Cfg N) (t : Tok N) (h : CfgInv c) (hr : c.running = true) (ht : TokOk t) :
    CfgInv (step c t) := by
  have hg : c.stack.length ≤ 512 := by
    simp only [Cfg.running, Bool.and_eq_true] at hr
    exact guard_le hr.2
  have hk := h.2.2.2.1
  unfold step
  split
  · -- init
    rename_i hst0
    split
    · exact fail_inv c h
    · rename_i f more hst
      have h1 := h.1
      have h6 := h.2.2.2.2
      rw [hst] at h1 h6
      simp only [StackInv] at h1
      simp only [RetOk] at h6
      split
      · exact ⟨by simp only [StackInv]; exact ⟨by simp [ContInv], h1.2.1, h1.2.2.1, h1.2.2.2⟩, h.2.1, resInv_of_ne _ (by simp),
          ⟨_, _, rfl, ⟨_, rfl⟩⟩, by simp only [RetOk]; exact h6⟩
      · exact ⟨by simp only [StackInv]; exact ⟨by simp [ContInv, keys], h1.2.1, h1.2.2.1, h1.2.2.2⟩, h.2.1, resInv_of_ne _ (by simp),
          ⟨_, _, rfl, ⟨_, rfl⟩⟩, by simp only [RetOk]; exact h6⟩
      · split
        · rename_i v hv
          have := scalar_good t v hv ht
          exact ⟨h1.2.2.2, h.2.1, fun _ => ⟨this.1, by show depth v ≤ 512; omega⟩, h6.1, h6.2⟩
        · exact fail_inv c h
  · -- objKey
    rename_i hst0
    rw [hst0] at hk
    split
    · exact pop_inv c h hg (topObj_of hk)
    · rename_i s
      exact ⟨h.1, ht, resInv_of_ne _ (by simp), hk, h.2.2.2.2⟩
    · exact fail_inv c h
  · -- objColon
    rename_i hst0
    rw [hst0] at hk
    split
    · exact ⟨h.1, h.2.1, resInv_of_ne _ (by simp), hk, h.2.2.2.2⟩
    · exact fail_inv c h
  · -- objValue
    rename_i hst0
    rw [hst0] at hk
    split
    · exact fail_inv c h
    · rename_i f more hst
      split
      · rename_i ms hms
        split
        · exact fail_inv c h
        · rename_i hkey
          have hk' : ∀ f' more' ms', c.stack = f' :: more' → f'.cont = .obj ms' → c.key ∉ keys ms' := by
            intro f' more' ms' e1 e2
            rw [hst] at e1
            simp only [List.cons.injEq] at e1
            obtain ⟨rfl, rfl⟩ := e1
            rw [hms] at e2
            simp only [Cont.obj.injEq] at e2
            subst e2
            intro hmem
            exact hkey (by rw [mapHasKey_eq]; exact (hasKey_iff _ _).mpr hmem)
          split
          · exact push_inv c _ _ _ _ h (Or.inl ⟨rfl, rfl⟩) h.2.1 hk hk'
          · exact push_inv c _ _ _ _ h (Or.inr ⟨rfl, rfl⟩) h.2.1 hk hk'
          · split
            · rename_i v hv
              have := scalar_good t v hv ht
              exact put_inv c v _ h hg this.1 this.2 hk (by simp) hk'
            · exact fail_inv c h
      · exact fail_inv c h
  · -- objCloseComma
    rename_i hst0
    rw [hst0] at hk
    split
    · exact ⟨h.1, h.2.1, resInv_of_ne _ (by simp), hk, h.2.2.2.2⟩
    · exact pop_inv c h hg (topObj_of hk)
    · exact fail_inv c h
  · -- arrValue
    rename_i hst0
    rw [hst0] at hk
    split
    · exact pop_inv c h hg (topArr_of hk)
    · exact push_inv c _ _ _ _ h (Or.inl ⟨rfl, rfl⟩) Utf8.nil hk (topArr_slot hk [])
    · exact push_inv c _ _ _ _ h (Or.inr ⟨rfl, rfl⟩) Utf8.nil hk (topArr_slot hk [])
    · split
      · rename_i v hv
        have := scalar_good t v hv ht
        exact put_inv c v _ h hg this.1 this.2 hk (by simp) (topArr_slot hk c.key)
      · exact fail_inv c h
  · -- arrCloseComma
    rename_i hst0
    rw [hst0] at hk
    split
    · exact pop_inv c h hg (topArr_of hk)
    · exact ⟨h.1, h.2.1, resInv_of_ne _ (by simp), hk, h.2.2.2.2⟩
    · exact fail_inv c h
  · exact h
  · exact h

theorem parseString_utf8 {inp s r : Bytes} (h : parseString inp = some (s, r)) : Utf8 s := by
  unfold parseString at h
  split at h
  · split at h
    · rename_i hv
      simp only [Option.some.injEq, Prod.mk.injEq] at h
      obtain ⟨rfl, _⟩ := h
      exact utf8Valid_sound _ hv
    · simp at h
  · simp at h

theorem kwTok_ok {N} (code : Nat) : TokOk (kwTok code : Tok N) := by
  cases code with
  | zero => simp [kwTok, TokOk]
  | succ n => cases n <;> simp [kwTok, TokOk]

theorem nextAux_tokOk {N} (ops : NumOps N) (b : Bool) (inp : Bytes) : TokOk (nextAux ops b inp).1 := by
  fun_induction nextAux ops b inp
  all_goals first
    | assumption
    | (simp only [TokOk]; done)
    | (simp only [TokOk]; exact parseString_utf8 (by assumption))
    | exact kwTok_ok _

theorem tokensAux_tokOk {N} (ops : NumOps N) : ∀ n inp, ∀ p ∈ tokensAux ops n inp, TokOk p.1 := by
  intro n
  induction n with
  | zero => intro inp p hp; simp [tokensAux] at hp
  | succ n ih =>
    intro inp p hp
    rw [tokensAux] at hp
    split at hp
    · simp only [List.mem_singleton] at hp; subst hp; exact nextAux_tokOk ops false inp
    · simp only [List.mem_cons] at hp
      rcases hp with rfl | hp
      · exact nextAux_tokOk ops false inp
      · exact ih _ p hp

theorem run_inv {N} (toks : List (Tok N × Bytes)) : ∀ (c : Cfg N) (pos : Bytes), CfgInv c → (∀ p ∈ toks, TokOk p.1) →
    CfgInv (run c pos toks).1 := by
  induction toks with
  | nil => intro c pos h _; simpa [run] using h
  | cons p toks ih =>
    intro c pos h ht
    obtain ⟨t, r⟩ := p
    simp only [run]
    split
    · rename_i hr
      exact ih _ _ (step_inv c t h hr (ht (t, r) (by simp))) (fun p hp => ht p (by simp [hp]))
    · exact h

theorem start_inv {N} : CfgInv (Cfg.start : Cfg N) := by
  refine ⟨?_, Utf8.nil, resInv_of_ne _ (by simp [Cfg.start]), trivial, ?_⟩
  · simp [Cfg.start, StackInv, ContInv, SlotOk, Utf8.nil]
  · simp [Cfg.start, RetOk, TopKind]

mutual
theorem forall_mono {N} {P Q : Value N → Prop} (hpq : ∀ v, P v → Q v) : ∀ v : Value N, Forall P v → Forall Q v
  | .undef, h => by simp only [Forall] at h ⊢; exact hpq _ h
  | .null, h => by simp only [Forall] at h ⊢; exact hpq _ h
  | .bool _, h => by simp only [Forall] at h ⊢; exact hpq _ h
  | .num _, h => by simp only [Forall] at h ⊢; exact hpq _ h
  | .str _, h => by simp only [Forall] at h ⊢; exact hpq _ h
  | .arr items, h => by simp only [Forall] at h ⊢; exact ⟨hpq _ h.1, forallL_mono hpq items h.2⟩
  | .obj ms, h => by simp only [Forall] at h ⊢; exact ⟨hpq _ h.1, forallM_mono hpq ms h.2⟩
theorem forallL_mono {N} {P Q : Value N → Prop} (hpq : ∀ v, P v → Q v) : ∀ l : List (Value N), ForallL P l → ForallL Q l
  | [], _ => by simp [ForallL]
  | v :: rest, h => by simp only [ForallL] at h ⊢; exact ⟨forall_mono hpq v h.1, forallL_mono hpq rest h.2⟩
theorem forallM_mono {N} {P Q : Value N → Prop} (hpq : ∀ v, P v → Q v) : ∀ l : List (Bytes × Value N), ForallM P l → ForallM Q l
  | [], _ => by simp [ForallM]
  | (_, v) :: rest, h => by simp only [ForallM] at h ⊢; exact ⟨forall_mono hpq v h.1, forallM_mono hpq rest h.2⟩
end

/-- what the machine guarantees about a successful parse -/
theorem parseStream_good {N} (ops : NumOps N) (full : Bool) (inp : Bytes) (v : Value N) (rest : Bytes)
    (h : parseStream ops full inp = some (v, rest)) : Good v ∧ depth v ≤ 512 := by
  unfold parseStream at h
  have hinv := run_inv (tokens ops inp) Cfg.start inp start_inv (tokensAux_tokOk ops _ inp)
  generalize run Cfg.start inp (tokens ops inp) = res at h hinv
  obtain ⟨c, pos, more⟩ := res
  simp only at h hinv
  split at h
  · rename_i hd
    have hdone : c.st = .done := by simpa using hd
    have := hinv.2.2.1 hdone
    split at h
    · split at h
      · simp only [Option.some.injEq, Prod.mk.injEq] at h; rw [← h.1]; exact this
      · simp at h
    · simp only [Option.some.injEq, Prod.mk.injEq] at h; rw [← h.1]; exact this
  · simp at h

end Cppcms.C11
