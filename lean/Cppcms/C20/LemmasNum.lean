import Cppcms.C20.Model
import Cppcms.C20.Spec
/-!
# C20 — the stream extraction of integers (`num_get`'s digit loop with its incremental overflow test)
accepts exactly the decimal numerals in range, and yields their value.
-/
namespace Cppcms.C20
open Cppcms

def valueFrom (r : Nat) (ds : Bytes) : Nat := ds.foldl (fun a c => a * 10 + (c.toNat - 48)) r

theorem valueFrom_ge (r : Nat) (ds : Bytes) : r ≤ valueFrom r ds := by
  induction ds generalizing r with
  | nil => simp [valueFrom]
  | cons c cs ih =>
    have := ih (r * 10 + (c.toNat - 48))
    simp only [valueFrom, List.foldl_cons] at this ⊢
    omega

theorem valueFrom_mono (r r' : Nat) (h : r ≤ r') (ds : Bytes) : valueFrom r ds ≤ valueFrom r' ds := by
  induction ds generalizing r r' with
  | nil => simpa [valueFrom]
  | cons c cs ih =>
    simp only [valueFrom, List.foldl_cons]
    exact ih _ _ (by omega)

/-- the loop on a string of digits: nothing is left, every digit is counted, and the overflow flag says exactly
whether the value exceeds `max`; without overflow the result is the value -/
theorem scanDigits_digits (max : Nat) (hmax : 9 ≤ max) (ds : Bytes) (hd : ds.all isDigit = true) (r : Nat) (o : Bool) (n : Nat)
    (hinv : o = false → r ≤ max) :
    ∃ r', scanDigits max ds r o n = (r', (o || decide (max < valueFrom r ds)), n + ds.length, []) ∧
      ((o || decide (max < valueFrom r ds)) = false → r' = valueFrom r ds) := by
  induction ds generalizing r o n with
  | nil =>
    refine ⟨r, ?_, ?_⟩
    · cases o with
      | true => simp [scanDigits, valueFrom]
      | false =>
        have := hinv rfl
        have h2 : ¬ max < r := by omega
        simp [scanDigits, valueFrom, h2]
    · intro _; simp [valueFrom]
  | cons c cs ih =>
    simp only [List.all_cons, Bool.and_eq_true] at hd
    obtain ⟨hc, hcs⟩ := hd
    have hd9 : c.toNat - 48 ≤ 9 := by
      simp only [isDigit, Bool.and_eq_true, decide_eq_true_eq] at hc; omega
    simp only [scanDigits, hc, if_true, List.length_cons]
    have hvf : valueFrom r (c :: cs) = valueFrom (r * 10 + (c.toNat - 48)) cs := by simp [valueFrom]
    by_cases hbig : r > max / 10
    · -- already too large: flag set, value certainly exceeds max
      simp only [hbig, if_true]
      obtain ⟨r', h1, _⟩ := ih hcs r true (n + 1) (by intro h; cases h)
      have hgt : max < valueFrom r (c :: cs) := by
        rw [hvf]
        have := valueFrom_ge (r * 10 + (c.toNat - 48)) cs
        omega
      refine ⟨r', ?_, ?_⟩
      · rw [h1]; simp [hgt]; omega
      · intro h; simp [hgt] at h
    · simp only [hbig, if_false]
      by_cases hov : r * 10 > max - (c.toNat - 48)
      · -- this digit overflows
        have hgt : max < valueFrom r (c :: cs) := by
          rw [hvf]
          have := valueFrom_ge (r * 10 + (c.toNat - 48)) cs
          omega
        obtain ⟨r', h1, _⟩ := ih hcs (r * 10 + (c.toNat - 48)) (o || decide (r * 10 > max - (c.toNat - 48))) (n + 1)
          (by intro h; simp [hov] at h)
        refine ⟨r', ?_, ?_⟩
        · rw [h1]; simp [hov, hgt]; omega
        · intro h; simp [hgt] at h
      · have hle : r * 10 + (c.toNat - 48) ≤ max := by omega
        obtain ⟨r', h1, h2⟩ := ih hcs (r * 10 + (c.toNat - 48)) (o || decide (r * 10 > max - (c.toNat - 48))) (n + 1)
          (by intro _; exact hle)
        refine ⟨r', ?_, ?_⟩
        · rw [h1, hvf]; simp [hov]; omega
        · intro h; rw [hvf] at h ⊢; apply h2; simpa [hov] using h

/-- a non-digit stops the loop and stays unread -/
theorem scanDigits_rest (max : Nat) (s : Bytes) (r : Nat) (o : Bool) (n : Nat) :
    (scanDigits max s r o n).2.2.2 = s.dropWhile isDigit ∧
    (scanDigits max s r o n).2.2.1 = n + (s.takeWhile isDigit).length := by
  induction s generalizing r o n with
  | nil => simp [scanDigits]
  | cons c cs ih =>
    by_cases hc : isDigit c = true
    · simp only [scanDigits, hc, if_true, List.dropWhile_cons, List.takeWhile_cons, List.length_cons]
      by_cases hbig : r > max / 10
      · simp only [hbig, if_true]; have := ih r true (n + 1); constructor
        · exact this.1
        · rw [this.2]; omega
      · simp only [hbig, if_false]
        have := ih (r * 10 + (c.toNat - 48)) (o || decide (r * 10 > max - (c.toNat - 48))) (n + 1)
        constructor
        · exact this.1
        · rw [this.2]; omega
    · simp [scanDigits, hc, List.dropWhile_cons, List.takeWhile_cons]

theorem dropWhile_nil_iff_all (s : Bytes) : s.dropWhile isDigit = [] ↔ s.all isDigit = true := by
  induction s with
  | nil => simp
  | cons c cs ih =>
    by_cases hc : isDigit c = true
    · simp [List.dropWhile_cons, hc, ih]
    · simp [List.dropWhile_cons, hc]

theorem isDigit_eq : isDigit = Spec.isDigit := rfl
theorem isSpace_eq : isSpace = Spec.isSpace := rfl
theorem valueFrom_zero (ds : Bytes) : valueFrom 0 ds = Spec.digitsValue ds := rfl
theorem decInt_eq : decInt = Spec.decInt := rfl

theorem numMax_ge (t : NumTy) (hb : 5 ≤ t.bits) (neg : Bool) : 9 ≤ numMax t neg := by
  have h1 : 2 ^ 4 ≤ 2 ^ (t.bits - 1) := Nat.pow_le_pow_right (by omega) (by omega)
  have h2 : 2 ^ 4 ≤ 2 ^ t.bits := Nat.pow_le_pow_right (by omega) (by omega)
  unfold numMax
  cases t.signed <;> cases neg <;> simp <;> omega

/-- the loop followed by the three tests (`no digit`, `overflow`, `not at eof`), for any continuation `f` -/
theorem scan_then (M : Nat) (hM : 9 ≤ M) (ds : Bytes) (f : Nat → Option Int) :
    (if ((scanDigits M ds 0 false 0).2.2.1 == 0 || (scanDigits M ds 0 false 0).2.1 ||
          !(scanDigits M ds 0 false 0).2.2.2.isEmpty) = true then none else f (scanDigits M ds 0 false 0).1) =
    if (ds.isEmpty || !ds.all isDigit) = true then none
    else if Spec.digitsValue ds ≤ M then f (Spec.digitsValue ds) else none := by
  by_cases hall : ds.all isDigit = true
  · obtain ⟨r', h1, h2⟩ := scanDigits_digits M hM ds hall 0 false 0 (by intro _; omega)
    rw [valueFrom_zero] at h1 h2
    rw [h1]
    cases ds with
    | nil => simp
    | cons c cs =>
      by_cases hov : M < Spec.digitsValue (c :: cs)
      · have hn : ¬ Spec.digitsValue (c :: cs) ≤ M := by omega
        simp [hov, hn, hall]
      · have hle : Spec.digitsValue (c :: cs) ≤ M := by omega
        have hr := h2 (by simp [hov])
        simp [hov, hle, hall, hr]
  · have hne : ds.dropWhile isDigit ≠ [] := fun h => hall ((dropWhile_nil_iff_all ds).1 h)
    have hrest := scanDigits_rest M ds 0 false 0
    rcases hsd : scanDigits M ds 0 false 0 with ⟨r, o, n, rest⟩
    rw [hsd] at hrest
    simp only at hrest
    have hre : rest.isEmpty = false := by
      rw [hrest.1]; cases h : ds.dropWhile isDigit with
      | nil => exact absurd h hne
      | cons _ _ => rfl
    simp [hre, hall]

/-- **`parameter >> value` + `eof()` accepts exactly the numerals in range and returns their value.** -/
theorem parseNum_eq_numeral (t : NumTy) (hb : 5 ≤ t.bits) (s : Bytes) :
    parseNum t s = Spec.numeral t.signed t.bits s := by
  unfold parseNum Spec.numeral
  rw [← isSpace_eq, ← isDigit_eq]
  dsimp only
  generalize s.dropWhile isSpace = s'
  generalize (s'.head? == some 45) = neg
  generalize (if (neg || s'.head? == some 43) = true then s'.drop 1 else s') = ds
  have key := scan_then (numMax t neg) (numMax_ge t hb neg) ds
    (fun r => if neg = true then (if t.signed = true then some (-(r : Int)) else some (((2 ^ t.bits - r) % 2 ^ t.bits : Nat) : Int))
              else some (r : Int))
  rw [key]
  obtain ⟨sg, bits⟩ := t
  cases sg <;> cases neg <;> simp [numMax]

end Cppcms.C20
