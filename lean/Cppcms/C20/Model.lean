import Cppcms.Common
import Cppcms.C20.Basic
import Cppcms.C20.Gen
/-!
# C20 — executable model of cppcms URL routing

Follows the C++ statement by statement:

* `booster::regex::match` (both overloads) on top of the engine parameter `Rx`
  (`booster/lib/regex/src/pcre_regex.cpp`), `booster::cmatch` (`regex_match.h`);
* `option::matches`, the four `option` subclasses and `url_dispatcher::dispatch`
  (`src/url_dispatcher.cpp`), `application::main` (`src/application.cpp`);
* `mount_point::match` (`src/mount_point.cpp`) and the scan of `applications_pool`;
* `url_mapper::real_assign`, `get_mapper_for_key`, `real_map`, `data::map`, `data::write`
  (`src/url_mapper.cpp`).

Source facts that may change with the code are taken from `Gen.lean` through `Quirks`.
-/
namespace Cppcms.C20
open Cppcms

/-- The facts about the current source that the behaviour depends on (see `Gen.lean`). -/
structure Quirks where
  /-- `option::matches` passes `path.c_str()` (strlen-terminated) to the engine -/
  pathCStr : Bool
  /-- `mount_point::match(std::string…)` passes `c_str()`s -/
  mountStrCStr : Bool
  /-- `regex::match(begin,end,marks)`: exec succeeded but answer `false` when this holds of `ovec[0] ovec[1] end-begin` -/
  spanRejectMarks : Int → Int → Int → Bool
  /-- the same for `regex::match(begin,end)` -/
  spanRejectNoMarks : Int → Int → Int → Bool

/-- the quirks of the source tree the check is running on -/
def Gen.quirks : Quirks :=
  { pathCStr := Gen.pathCStr, mountStrCStr := Gen.mountStrCStr,
    spanRejectMarks := Gen.spanRejectMarks, spanRejectNoMarks := Gen.spanRejectNoMarks }

/-! ## booster::regex on top of the engine -/

/-- `mark_count()+1` -/
def patSize (rx : Rx) (r : Regex) : Nat := (rx.info r.pat r.flags).getD 0 + 1

/-- `regex::match(begin,end,marks,flags)` + `cmatch::assign`: `none` = `false`. -/
def rxMatchMarks (rx : Rx) (q : Quirks) (r : Regex) (s : Bytes) : Option CMatch :=
  match rx.exec r.pat r.flags s with
  | none => none
  | some (sp0, gs) =>
    if q.spanRejectMarks sp0.1 sp0.2 s.length then none
    else
      -- marks.resize(pat_size,(-1,-1)); for(i<pat_size && i<res) marks[i]=ovec[i]
      let got := (sp0 :: gs).take (patSize rx r)
      some ⟨s, got ++ List.replicate (patSize rx r - got.length) (-1, -1)⟩

/-- `regex::match(begin,end,flags)` -/
def rxMatch (rx : Rx) (q : Quirks) (r : Regex) (s : Bytes) : Bool :=
  match rx.exec r.pat r.flags s with
  | none => false
  | some (sp0, _) => !q.spanRejectNoMarks sp0.1 sp0.2 s.length

/-! ## url_dispatcher -/

/-- `option::option(expr,method)`: `match_method_ == 1` -/
def methodLiteral (m : Bytes) : Bool := m.all fun c => Gen.methodCharLiteral c.toNat

/-- the method part of `option::matches`. `req = none`: `method == 0` (application without context).
`req` is a `char const *`, i.e. NUL-free by type. -/
def methodOk (rx : Rx) (q : Quirks) (filter : Option Bytes) (req : Option Bytes) : Bool :=
  match filter with
  | none => true
  | some m =>
    match req with
    | none => false
    | some r => if methodLiteral m then m == r else rxMatch rx q ⟨m, {}⟩ r

/-- `option::matches` : on success `match_` is set -/
def optMatches (rx : Rx) (q : Quirks) (re : Regex) (filter : Option Bytes) (req : Option Bytes) (path : Bytes) :
    Option CMatch :=
  if methodOk rx q filter req then rxMatchMarks rx q re (if q.pathCStr then cstr path else path) else none

/-! ### typed handlers of `url_dispatcher::map()` : `std::istream >> value` on a captured group

`url_binder::operator()` runs, per parameter and in order, `validate_encoding` (external, `rx.valid`) and
`parse_url_parameter`: `std::string` takes the bytes as they are; any other type is read with
`parameter >> value` and must consume the whole group (`!parameter || !parameter.eof()` ⇒ `false`).
For the integer types that is libstdc++'s `num_get::_M_extract_int` in base 10 (no grouping in the request locale's
`numpunct`): the stream sentry skips leading white space, one optional sign, then the digit loop below with its
incremental overflow test. -/

/-- `std::isspace` of `ctype<char>`: blank, `\t \n \v \f \r` -/
def isSpace (c : UInt8) : Bool := c == 32 || (9 ≤ c.toNat && c.toNat ≤ 13)

def isDigit (c : UInt8) : Bool := 48 ≤ c.toNat && c.toNat ≤ 57

structure NumTy where
  signed : Bool
  bits : Nat
deriving DecidableEq, Repr

def PType.num : PType → Option NumTy
  | .str => none
  | .i32 => some ⟨true, 32⟩
  | .u32 => some ⟨false, 32⟩
  | .i64 => some ⟨true, 64⟩
  | .u64 => some ⟨false, 64⟩

/-- the digit loop of `_M_extract_int`: `result`, `testoverflow`, number of digits, and what is left unread.
`if (result > max/10) overflow = true; else { result *= 10; overflow |= result > max - digit; result += digit; }` -/
def scanDigits (max : Nat) : Bytes → Nat → Bool → Nat → Nat × Bool × Nat × Bytes
  | [], r, o, n => (r, o, n, [])
  | c :: cs, r, o, n =>
    if isDigit c then
      let d := c.toNat - 48
      if r > max / 10 then scanDigits max cs r true (n + 1)
      else scanDigits max cs (r * 10 + d) (o || decide (r * 10 > max - d)) (n + 1)
    else (r, o, n, c :: cs)

/-- largest magnitude `_M_extract_int` accepts: `-min` for a negative signed number, else `max` -/
def numMax (t : NumTy) (neg : Bool) : Nat :=
  if t.signed then (if neg then 2 ^ (t.bits - 1) else 2 ^ (t.bits - 1) - 1) else 2 ^ t.bits - 1

/-- `parameter >> value` followed by the `eof()` test; `none` = `parse_url_parameter` returns `false` -/
def parseNum (t : NumTy) (s : Bytes) : Option Int :=
  let s := s.dropWhile isSpace
  let neg := s.head? == some 45
  let s := if s.head? == some 45 || s.head? == some 43 then s.drop 1 else s
  match scanDigits (numMax t neg) s 0 false 0 with
  | (r, o, n, rest) =>
    if n == 0 || o || !rest.isEmpty then none
    else if neg then (if t.signed then some (-(r : Int)) else some (((2 ^ t.bits - r) % 2 ^ t.bits : Nat) : Int))
    else some (r : Int)

/-- decimal text of a value, as the harness prints what the member function received -/
def decInt (v : Int) : Bytes :=
  let ds := (Nat.toDigits 10 v.natAbs).map fun c => UInt8.ofNat c.toNat
  if v < 0 then 45 :: ds else ds

/-- `url_dispatcher::parse<T>` : `none` = the handler declines -/
def convertParam (rx : Rx) (t : PType) (s : Bytes) : Option Bytes :=
  if !rx.valid s then none
  else match t.num with
    | none => some s
    | some nt => (parseNum nt s).map decInt

/-- the `CPPCMS_DEFANDPARSE` chain: parameters are converted in order, the first failure returns `false` -/
def convertAll (rx : Rx) (m : CMatch) : List (Int × PType) → Option (List (Option Bytes))
  | [] => some []
  | (g, t) :: rest =>
    match convertParam rx t (m.str g) with
    | none => none
    | some v => match convertAll rx m rest with
      | none => none
      | some vs => some (some v :: vs)

/-- what one call of `option::dispatch` did -/
inductive Attempt where
  /-- returned `false` without running anything -/
  | skip
  /-- ran a generic handler which returned `false` -/
  | reject (ev : Event)
  /-- returned `true` after these events -/
  | fire (evs : List Event)
deriving DecidableEq, Repr

def genRejects (rej : Option (Int × Bytes)) (m : CMatch) : Bool :=
  match rej with
  | none => false
  | some (g, v) => m.str g == v

/-- `base_handler<H>::dispatch` / `generic_option::dispatch` -/
def leafAttempt (rx : Rx) (q : Quirks) (req : Option Bytes) (l : Leaf) (url : Bytes) : Attempt :=
  match l.kind with
  | .gen rej =>
    if req.isNone then .skip            -- `if(!app) return false;`
    else match optMatches rx q l.re l.meth req url with
      | none => .skip
      | some m => if genRejects rej m then .reject (.rejected l.id m.all) else .fire [.ran l.id m.all]
  | .typed ps =>
    if req.isNone then .skip            -- `map()` registers a `generic_option`
    else match optMatches rx q l.re l.meth req url with
      | none => .skip
      | some m => match convertAll rx m ps with
        | none => .skip                 -- a parameter did not validate/convert: member not called, scan continues
        | some vals => .fire [.ran l.id vals]
  | .h0 => match optMatches rx q l.re none req url with
      | none => .skip
      | some _ => .fire [.ran l.id []]
  | .hN sel => match optMatches rx q l.re none req url with
      | none => .skip
      | some m => .fire [.ran l.id (sel.map fun n => some (m.str n))]
  | .rh => match optMatches rx q l.re none req url with
      | none => .skip
      | some m => .fire [.ran l.id m.all]

/-- `url_dispatcher::dispatch` of the application whose option vector is the first argument:
the returned flag and what the handlers observed, in order.  `mounted::dispatch` calls the child's
`application::main`, which answers 404 (`notFound`) when the child's own `dispatch` returns `false`,
and returns `true` in either case. -/
def dispatch (rx : Rx) (q : Quirks) (req : Option Bytes) : Opts → Bytes → Bool × List Event
  | .nil, _ => (false, [])
  | .leaf l rest, url =>
    match leafAttempt rx q req l url with
    | .skip => dispatch rx q req rest url
    | .reject ev => let r := dispatch rx q req rest url; (r.1, ev :: r.2)
    | .fire evs => (true, evs)
  | .mount re sel child rest, url =>
    match optMatches rx q re none req url with
    | none => dispatch rx q req rest url
    | some m =>
      let r := dispatch rx q req child (m.str sel)
      (true, if r.1 then r.2 else r.2 ++ [.notFound])

/-- `application::main(url)` of the root application -/
def appMain (rx : Rx) (q : Quirks) (req : Option Bytes) (o : Opts) (url : Bytes) : List Event :=
  let r := dispatch rx q req o url
  if r.1 then r.2 else r.2 ++ [.notFound]

/-! ## mount_point and applications_pool -/

/-- `mount_point::match(char const *h,char const *s,char const *p)`; the arguments are C strings -/
def mpMatchC (rx : Rx) (q : Quirks) (mp : MountPoint) (h s p : Bytes) : Option Bytes :=
  if mp.host.any (fun r => !rxMatch rx q r h) then none
  else if mp.selPath then
    if mp.script.any (fun r => !rxMatch rx q r s) then none
    else match mp.path with
      | none => some p
      | some r =>
        if mp.group = 0 then (if rxMatch rx q r p then some p else none)
        else (rxMatchMarks rx q r p).map (·.str mp.group)
  else
    if mp.path.any (fun r => !rxMatch rx q r p) then none
    else match mp.script with
      | none => some s
      | some r =>
        if mp.group = 0 then (if rxMatch rx q r s then some s else none)
        else (rxMatchMarks rx q r s).map (·.str mp.group)

/-- the `char const *` overload called with pointers to these byte strings -/
def mpMatchPtr (rx : Rx) (q : Quirks) (mp : MountPoint) (h s p : Bytes) : Option Bytes :=
  mpMatchC rx q mp (cstr h) (cstr s) (cstr p)

/-- the `std::string` overload -/
def mpMatchStr (rx : Rx) (q : Quirks) (mp : MountPoint) (h s p : Bytes) : Option Bytes :=
  if q.mountStrCStr then mpMatchC rx q mp (cstr h) (cstr s) (cstr p) else mpMatchC rx q mp h s p

/-- `applications_pool::get_application_specific_pool` over the synchronous/`mount(pool,mp,flags)` list:
index (in mount order) of the pool returned and the `match` string. Arguments are `char const *`. -/
def poolFind (rx : Rx) (q : Quirks) (h s p : Bytes) : List MountPoint → Nat → Option (Nat × Bytes)
  | [], _ => none
  | mp :: rest, i =>
    match mpMatchPtr rx q mp h s p with
    | some m => some (i, m)
    | none => poolFind rx q h s p rest (i + 1)

/-- a request through the pool: `context::on_headers_ready` + `app->main(matched)` -/
def poolRoute (rx : Rx) (q : Quirks) (apps : List (MountPoint × Opts)) (meth h s p : Bytes) : Option (Nat × List Event) :=
  match poolFind rx q h s p (apps.map (·.1)) 0 with
  | none => none
  | some (i, m) => some (i, appMain rx q (some meth) ((apps[i]?.map (·.2)).getD .nil) m)

/-! ### both lists of `applications_pool`

`mount(pool,mp,flags)` / `mount(factory,mp)` append to `apps`; `mount(intrusive_ptr<application>,mp)` (the classic
asynchronous application) appends to `legacy_async_apps`.  `get_application_specific_pool` scans **all of `apps`
first**, then `legacy_async_apps`; the second loop always runs to the end because it also erases pools whose
application has died (`flags()==-1`), and keeps the first hit through its `else if(!result)` guard.
A mount is `(legacyAsync, mount point)`; indexes are positions in overall mount order. -/

/-- first loop: returns at the first match -/
def poolScanApps (rx : Rx) (q : Quirks) (h s p : Bytes) : List (Nat × MountPoint) → Option (Nat × Bytes)
  | [] => none
  | (i, mp) :: rest =>
    match mpMatchPtr rx q mp h s p with
    | some m => some (i, m)
    | none => poolScanApps rx q h s p rest

/-- second loop: `dead` pools are erased; a live one is examined only while there is no result yet -/
def poolScanLegacy (rx : Rx) (q : Quirks) (h s p : Bytes) (dead : List Nat) :
    List (Nat × MountPoint) → Option (Nat × Bytes) → Option (Nat × Bytes)
  | [], result => result
  | (i, mp) :: rest, result =>
    if dead.contains i then poolScanLegacy rx q h s p dead rest result
    else match result with
      | some r => poolScanLegacy rx q h s p dead rest (some r)
      | none =>
        match mpMatchPtr rx q mp h s p with
        | none => poolScanLegacy rx q h s p dead rest none
        | some m => poolScanLegacy rx q h s p dead rest (some (i, m))

def mountsOf (legacy : Bool) (ms : List (Bool × MountPoint)) : List (Nat × MountPoint) :=
  ms.zipIdx.filterMap fun (am, i) => if am.1 == legacy then some (i, am.2) else none

/-- `applications_pool::get_application_specific_pool` -/
def poolFindAll (rx : Rx) (q : Quirks) (h s p : Bytes) (ms : List (Bool × MountPoint)) (dead : List Nat) : Option (Nat × Bytes) :=
  match poolScanApps rx q h s p (mountsOf false ms) with
  | some r => some r
  | none => poolScanLegacy rx q h s p dead (mountsOf true ms) none

/-- `rounds` times: route the request and let the application that got it die if it is a classic asynchronous one
(its pool then has `flags()==-1` and is purged by the next scan); the set of dead mounts afterwards -/
def poolKill (rx : Rx) (q : Quirks) (h s p : Bytes) (ms : List (Bool × MountPoint)) : Nat → List Nat → List Nat
  | 0, dead => dead
  | r + 1, dead =>
    match poolFindAll rx q h s p ms dead with
    | some (i, _) => if (ms[i]?.map (·.1)).getD false then poolKill rx q h s p ms r (i :: dead) else dead
    | none => dead

def poolRouteAll (rx : Rx) (q : Quirks) (apps : List (Bool × MountPoint × Opts)) (rounds : Nat) (meth h s p : Bytes) :
    Option (Nat × Bytes × List Event) :=
  let ms := apps.map fun a => (a.1, a.2.1)
  match poolFindAll rx q h s p ms (poolKill rx q h s p ms rounds []) with
  | none => none
  | some (i, m) => some (i, m, appMain rx q (some meth) ((apps[i]?.map (·.2.2)).getD .nil) m)

/-! ## url_mapper -/

/-- `atoi` on a non-empty string of ASCII digits as glibc computes it: `strtol` saturating at
`LONG_MAX`, then the conversion `long → int` (low 32 bits, two's complement). -/
def atoiDigits (ds : Bytes) : Int :=
  let v : Nat := ds.foldl (fun acc c => acc * 10 + (c.toNat - 48)) 0
  let l : Nat := if v ≥ 2 ^ 63 then 2 ^ 63 - 1 else v
  let lo : Nat := l % 2 ^ 32
  if lo ≥ 2 ^ 31 then Int.ofNat lo - 2 ^ 32 else Int.ofNat lo

structure TplAcc where
  parts : List Bytes := []
  indexes : List Int := []
  keys : List Bytes := []
  maxIdx : Int := 0

/-- what `real_assign` does with the text between `{` and `}` -/
def tplPlaceholder (a : TplAcc) (hkey : Bytes) : Except TplErr TplAcc :=
  if hkey.isEmpty then .error .emptyIndex
  else if hkey.any (fun c => Gen.tplNotDigit c.toNat) then
    .ok { a with indexes := a.indexes ++ [0], keys := a.keys ++ [hkey] }
  else
    let index := atoiDigits hkey
    if index = 0 then .error .zeroIndex
    else .ok { a with indexes := a.indexes ++ [index], keys := a.keys ++ [[]], maxIdx := max index a.maxIdx }

/-- the scanner of `url_mapper::real_assign`; `cur` is the text since `prev` (reversed),
`inBrace` = inside the inner `while` looking for the closing brace. -/
def tplScan (inBrace : Bool) (cur : Bytes) (a : TplAcc) : Bytes → Except TplErr TplAcc
  | [] => if inBrace then .error .unclosed else .ok { a with parts := a.parts ++ [cur.reverse] }
  | c :: cs =>
    if inBrace then
      if c.toNat = Gen.tplClose then
        match tplPlaceholder a cur.reverse with
        | .error e => .error e
        | .ok a' => tplScan false [] a' cs
      else tplScan true (c :: cur) a cs
    else if c.toNat = Gen.tplOpen then tplScan true [] { a with parts := a.parts ++ [cur.reverse] } cs
    else if c.toNat = Gen.tplClose then .error .strayClose
    else tplScan false (c :: cur) a cs

/-- `url_mapper::real_assign(key,url,child)` up to the `by_key` update: the entry and `max_index` -/
def parseTpl (url : Bytes) (isApp : Bool) : Except TplErr (Tpl × Nat) :=
  match tplScan false [] {} url with
  | .error e => .error e
  | .ok a =>
    if isApp && a.maxIdx != 1 then .error .appArity
    else .ok (⟨a.parts, a.indexes, a.keys⟩, a.maxIdx.toNat)

/-- `url_mapper::assign(key,url)`: key validation -/
def keyValid (key : Bytes) : Bool :=
  !(key.isEmpty || key.any (fun c => Gen.keyForbiddenChars.contains c.toNat)
    || Gen.keyForbiddenWords.contains (key.map (·.toNat)))

def assignChecked (key url : Bytes) : Except TplErr (Tpl × Nat) :=
  if keyValid key then parseTpl url false else .error .badKey

/-- `by_key.find(key) != end` -/
def MNode.hasKey : MNode → Bytes → Bool
  | .nil, _ => false
  | .url k _ _ rest, key => k == key || rest.hasKey key
  | .app k _ _ rest, key => k == key || rest.hasKey key

/-- `by_key[key].find(arity)` -/
def MNode.find : MNode → Bytes → Nat → Option (Tpl × Option MNode)
  | .nil, _, _ => none
  | .url k a t rest, key, n => if k == key && a == n then some (t, none) else rest.find key n
  | .app k t c rest, key, n => if k == key && n == 1 then some (t, some c) else rest.find key n

/-- `data::get_entry` -/
def getEntry (n : MNode) (key : Bytes) (arity : Nat) : Except MapErr (Tpl × Option MNode) :=
  if !n.hasKey key then .error .keyNotFound
  else match n.find key arity with
    | none => .error .badArity
    | some e => .ok e

/-- `d->by_key[key][max_index] = e` for an ordinary entry: overwrite or append -/
def MNode.setUrl : MNode → Bytes → Nat → Tpl → MNode
  | .nil, key, n, t => .url key n t .nil
  | .url k a t' rest, key, n, t => if k == key && a == n then .url k a t rest else .url k a t' (rest.setUrl key n t)
  | .app k t' c rest, key, n, t => .app k t' c (rest.setUrl key n t)

def MNode.append : MNode → MNode → MNode
  | .nil, m => m
  | .url k a t rest, m => .url k a t (rest.append m)
  | .app k t c rest, m => .app k t c (rest.append m)

/-- the tail of `real_assign(key,url,0)`: an ordinary key may not share its name with a mounted application -/
def MNode.assignUrl (n : MNode) (key : Bytes) (arity : Nat) (t : Tpl) : Except TplErr MNode :=
  match n.find key 1 with
  | some (_, some _) => .error .sharedKey
  | _ => .ok (n.setUrl key arity t)

/-- the tail of `real_assign(name,url,child)`: the key must be new -/
def MNode.mountApp (n : MNode) (name : Bytes) (t : Tpl) (child : MNode) : Except TplErr MNode :=
  if n.hasKey name then .error .sharedKey else .ok (n.append (.app name t child .nil))

/-- the entry with the smallest arity for `key` (`kp->second.begin()`) : its arity and child -/
def MNode.first : MNode → Bytes → Option (Nat × Option MNode)
  | .nil, _ => none
  | .url k a _ rest, key =>
    if k == key then
      match rest.first key with
      | some (a', c) => if a' < a then some (a', c) else some (a, none)
      | none => some (a, none)
    else rest.first key
  | .app k _ c rest, key =>
    if k == key then
      match rest.first key with
      | some (a', c') => if a' < 1 then some (a', c') else some (1, some c)
      | none => some (1, some c)
    else rest.first key

/-- `data::is_app` -/
def isApp (n : MNode) (key : Bytes) : Option MNode :=
  match n.first key with
  | some (_, some c) => some c
  | _ => none

/-- a mapper inside its tree: its `by_key` and the chain of `(parent's by_key, this_name)` up to the topmost -/
structure MPos where
  cur : MNode
  up : List (MNode × Bytes) := []
deriving DecidableEq, Repr

def MPos.parent (p : MPos) : Except MapErr MPos :=
  match p.up with
  | [] => .error .noParent
  | (n, _) :: rest => .ok ⟨n, rest⟩

def MPos.topmost (p : MPos) : MPos :=
  match p.up.getLast? with
  | none => p
  | some (n, _) => ⟨n, []⟩

/-- `data::child(name)` -/
def MPos.child (p : MPos) (name : Bytes) : Except MapErr MPos :=
  match getEntry p.cur name 1 with
  | .error e => .error e
  | .ok (_, none) => .error .notChild
  | .ok (_, some c) => .ok ⟨c, (p.cur, name) :: p.up⟩

/-- split at every `sep` (`"a/b/"` → `["a","b",""]`) -/
def splitOn (sep : UInt8) : Bytes → List Bytes
  | [] => [[]]
  | c :: cs =>
    if c == sep then [] :: splitOn sep cs
    else match splitOn sep cs with
      | [] => [[c]]
      | h :: t => (c :: h) :: t

/-- navigation through the leading `a/b/../` segments of a key -/
def walk (p : MPos) : List Bytes → Except MapErr MPos
  | [] => .ok p
  | seg :: rest =>
    if seg == [46] then walk p rest
    else if seg == [46, 46] then
      match p.parent with
      | .error e => .error e
      | .ok p' => walk p' rest
    else
      match p.child seg with
      | .error e => .error e
      | .ok p' => walk p' rest

/-- `url_mapper::get_mapper_for_key`: target mapper, `real_key`, keywords -/
def mapperForKey (p : MPos) (key : Bytes) : Except MapErr (MPos × Bytes × List Bytes) :=
  if key.isEmpty then .ok (p, [], [])
  else
    let (start, rest) := if key.head? == some 47 then (p.topmost, key.drop 1) else (p, key)
    let segs := splitOn 47 rest
    let last := segs.getLast?.getD []
    match walk start segs.dropLast with
    | .error e => .error e
    | .ok m =>
      let realKey := last.takeWhile (· ≠ 59)
      let kws := if last.contains 59 then splitOn 44 ((last.dropWhile (· ≠ 59)).drop 1) else []
      let step : Except MapErr (MPos × Bytes) :=
        if realKey == [46] then .ok (m, [])
        else if realKey == [46, 46] then
          match m.parent with
          | .error e => .error e
          | .ok m' => .ok (m', [])
        else .ok (m, realKey)
      match step with
      | .error e => .error e
      | .ok (m, rk) =>
        match isApp m.cur rk with
        | some c => .ok (⟨c, (m.cur, rk) :: m.up⟩, [], kws)
        | none => .ok (m, rk, kws)

def lookupKV (kv : List (Bytes × Bytes)) (k : Bytes) : Option Bytes :=
  (kv.find? (·.1 == k)).map (·.2)

/-- `data::write`: `overrides` are the keyword parameters of this call, `helpers` the topmost mapper's values -/
def writeTpl (t : Tpl) (params : List Bytes) (helpers overrides : List (Bytes × Bytes)) : Except MapErr Bytes :=
  let rec go (parts : List Bytes) (idx : List Int) (keys : List Bytes) (acc : Bytes) : Except MapErr Bytes :=
    match parts with
    | [] => .ok acc
    | part :: parts' =>
      match idx with
      | [] => go parts' [] (keys.drop 1) (acc ++ part)
      | i :: idx' =>
        if i = 0 then
          let k := keys.headD []
          let v := match lookupKV overrides k with
            | some v => v
            | none => (lookupKV helpers k).getD []
          go parts' idx' (keys.drop 1) (acc ++ part ++ v)
        else if i < 0 then .error .indexRange
        else match params[i.toNat - 1]? with
          | none => .error .indexRange
          | some v => go parts' idx' (keys.drop 1) (acc ++ part ++ v)
  go t.parts t.indexes t.keys []

/-- the `get_entry` calls of `data::map` from the addressed mapper up to the topmost (they all
happen before anything is written) -/
def collectUp : List (MNode × Bytes) → Except MapErr (List Tpl)
  | [] => .ok []
  | (n, name) :: rest =>
    match getEntry n name 1 with
    | .error e => .error e
    | .ok (t, _) =>
      match collectUp rest with
      | .error e => .error e
      | .ok ts => .ok (t :: ts)

/-- the nested `write`s: the URL so far becomes the single parameter of the parent's entry -/
def wrapUp (helpers overrides : List (Bytes × Bytes)) : List Tpl → Bytes → Except MapErr Bytes
  | [], u => .ok u
  | t :: ts, u =>
    match writeTpl t [u] helpers overrides with
    | .error e => .error e
    | .ok u' => wrapUp helpers overrides ts u'

structure MCtx where
  /-- `root()` of the topmost mapper -/
  root : Bytes := []
  /-- `set_value` helpers (kept in the topmost mapper) -/
  helpers : List (Bytes × Bytes) := []

/-- the URL below `root` produced by `data::map` -/
def mapRel (ctx : MCtx) (p : MPos) (key : Bytes) (params : List Bytes) (overrides : List (Bytes × Bytes)) : Except MapErr Bytes :=
  match getEntry p.cur key params.length with
  | .error e => .error e
  | .ok (t, _) =>
    match collectUp p.up with
    | .error e => .error e
    | .ok ts =>
      match writeTpl t params ctx.helpers overrides with
      | .error e => .error e
      | .ok u => wrapUp ctx.helpers overrides ts u

/-- later keywords with the same name overwrite earlier ones (`mappings[direct[i]] = …`) -/
def mkOverrides (kws : List Bytes) (vals : List Bytes) : List (Bytes × Bytes) :=
  (kws.zip vals).reverse

/-- `url_mapper::map(out,key,p1…pn)` with `misc.invalid_url_throws = true`; the key is a C string -/
def mapUrl (ctx : MCtx) (p : MPos) (key : Bytes) (params : List Bytes) : Except MapErr Bytes :=
  match mapperForKey p (cstr key) with
  | .error e => .error e
  | .ok (m, rk, kws) =>
    if params.length < kws.length then .error .tooManyKeywords
    else
      match mapRel ctx m rk (params.drop kws.length) (mkOverrides kws (params.take kws.length)) with
      | .error e => .error e
      | .ok u => .ok (ctx.root ++ u)

/-! ### `util::stackbuf<N>` — the buffer `real_map` builds the URL in when `misc.invalid_url_throws` is false (the default)

`N` bytes on the stack, then the heap with doubling capacity.  `std::ostream <<` reaches it through `sputn`/`sputc`; the
library's `xsputn` copies what fits and calls `overflow(next byte)` when the put area is full — i.e. a sequence of `sputc`s. -/

structure SBuf where
  /-- size of the current put area (`epptr()-pbase()`) -/
  cap : Nat
  /-- `[pbase(), pptr())` -/
  data : Bytes
  /-- `pbase() == on_stack_` -/
  onStack : Bool
deriving DecidableEq, Repr

def SBuf.init (N : Nat) : SBuf := ⟨N, [], true⟩

/-- `stackbuf::overflow(c)` (expressions from `Gen.lean`): grow, keep `current_size` bytes (`memcpy`/`realloc` + `pbump`),
then store the pending byte -/
def SBuf.overflow (N : Nat) (b : SBuf) (c : UInt8) : SBuf :=
  let cur := if b.onStack then Gen.sbStackCur N else b.data.length
  let new := if b.onStack then Gen.sbStackNew N else Gen.sbHeapNew cur
  let kept := b.data.take cur
  if Gen.sbStoreBumps && decide (kept.length < new) then ⟨new, kept ++ [c], false⟩
  else ⟨new, kept, false⟩        -- byte written behind the put pointer (or no room): not part of `[pbase,pptr)`

def SBuf.sputc (N : Nat) (b : SBuf) (c : UInt8) : SBuf :=
  if b.data.length < b.cap then { b with data := b.data ++ [c] } else b.overflow N c

def SBuf.write (N : Nat) (b : SBuf) (s : Bytes) : SBuf := s.foldl (SBuf.sputc N) b

def invalidUrlText : Bytes :=
  [47, 116, 104, 105, 115, 95, 105, 115, 95, 97, 110, 95, 105, 110, 118, 97, 108, 105, 100, 95, 117, 114, 108, 95, 103, 101, 110,
   101, 114, 97, 116, 101, 100, 95, 98, 121, 95, 117, 114, 108, 95, 109, 97, 112, 112, 101, 114]

/-- `url_mapper::map(out,key,…)` with `misc.invalid_url_throws = false`: everything is written into a `steal_buffer<>`
(= `stackbuf<128>`) and then `output << temp_buf.c_str()` (a C string); on any error the fixed text is written instead -/
def mapUrlNT (ctx : MCtx) (p : MPos) (key : Bytes) (params : List Bytes) : Bytes :=
  match mapUrl ctx p key params with
  | .ok u => cstr (SBuf.write Gen.sbDefaultSize (SBuf.init Gen.sbDefaultSize) u).data
  | .error _ => invalidUrlText

end Cppcms.C20
