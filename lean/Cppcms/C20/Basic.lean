import Cppcms.Common
/-!
# C20 — shared vocabulary for model and specification

Types only (plus the two byte-string helpers every definition needs): the regex engine
parameter `Rx`, `booster::regex` values, the application tree, events observed at the
handlers, mount points and the URL-mapper tree.  No behaviour of cppcms is defined here.
-/
namespace Cppcms.C20
open Cppcms

/-- A C string: the bytes before the first NUL (`std::string::c_str()` read by `strlen`). -/
def cstr (s : Bytes) : Bytes := s.takeWhile (· ≠ 0)

/-- `std::string(begin+a, begin+b)` -/
def sub (s : Bytes) (a b : Int) : Bytes := (s.drop a.toNat).take (b.toNat - a.toNat)

/-- compile flags of a `booster::regex`: `regex::icase` → `PCRE_CASELESS`, `regex::utf8` → `PCRE_UTF8`
(with `utf8` the engine refuses subjects that are not valid UTF-8: `PCRE_ERROR_BADUTF8`, i.e. no match) -/
structure RFlags where
  icase : Bool := false
  utf8 : Bool := false
deriving DecidableEq, Repr

/-- offsets pair as PCRE writes it into `ovector` (`(-1,-1)` = group did not participate) -/
abbrev Span := Int × Int

/-- Result of one successful `pcre_exec`: the pair for the whole match and the pairs of the
capture groups `1 .. rc-1` (`rc` = return value = highest group that participated + 1). -/
abbrev Raw := Span × List Span

/-- The external regex engine (libpcre), as seen through the two calls `booster::regex` makes.

* `info pat flags` — `pcre_compile(pat)` **and** `pcre_compile("(?:"+pat+")\\z")` both succeed;
  the value is `PCRE_INFO_CAPTURECOUNT` of `pat`.  `none`: `regex::assign` throws.
* `exec pat flags s` — `pcre_exec` of the compiled `(?:pat)\z` on `s` at offset 0 with
  `PCRE_ANCHORED` and an `ovector` large enough for all groups.
-/
structure Rx where
  info : Bytes → RFlags → Option Nat
  exec : Bytes → RFlags → Bytes → Option Raw
  /-- second external: `cppcms::encoding::valid(context().locale(), begin, end)` — "is this byte string valid text
  in the request's character encoding"; the subject of property C14, here a parameter.  Used by the typed handlers
  of `url_dispatcher::map()` on every captured parameter. -/
  valid : Bytes → Bool := fun _ => true

/-- A reported span is unset or lies inside the subject. -/
def spanOk (n : Nat) (sp : Span) : Prop := sp = (-1, -1) ∨ (0 ≤ sp.1 ∧ sp.1 ≤ sp.2 ∧ sp.2 ≤ (n : Int))

instance (n : Nat) (sp : Span) : Decidable (spanOk n sp) := by unfold spanOk; infer_instance

/-- Soundness hypothesis on the engine (what the PCRE documentation promises about `ovector`):
every reported span lies within the subject, and no more groups are reported than the pattern has. -/
structure RxSound (rx : Rx) : Prop where
  spans : ∀ pat ic s r, rx.exec pat ic s = some r → spanOk s.length r.1 ∧ ∀ sp ∈ r.2, spanOk s.length sp
  arity : ∀ pat ic s r, rx.exec pat ic s = some r → r.2.length ≤ (rx.info pat ic).getD 0

/-- A constructed `booster::regex`: pattern text and flags. -/
structure Regex where
  pat : Bytes
  flags : RFlags := {}
deriving DecidableEq, Repr

/-- `booster::cmatch` after a successful `regex_match`: the subject and one span per group 0..mark_count. -/
structure CMatch where
  subj : Bytes
  marks : List Span
deriving DecidableEq, Repr

/-- `match_results::operator[]` followed by `sub_match::str()`-relevant data: `none` = `matched == false`. -/
def CMatch.get (m : CMatch) (n : Int) : Option Bytes :=
  if n < 0 then none
  else match m.marks[n.toNat]? with
    | none => none
    | some sp => if sp.1 = -1 then none else some (sub m.subj sp.1 sp.2)

/-- conversion of `m[n]` to `std::string` (unmatched → empty) -/
def CMatch.str (m : CMatch) (n : Int) : Bytes := (m.get n).getD []

/-- all groups as the `rhandler` / `generic_handler` sees them (`m[i]` for `i < m.size()`) -/
def CMatch.all (m : CMatch) : List (Option Bytes) :=
  (List.range m.marks.length).map fun (i : Nat) => m.get (Int.ofNat i)

/-- parameter types of `url_dispatcher::map(…, &C::member, obj, g₁, g₂, …)` handlers that are modelled:
`std::string` (taken as is) and the four integer types read with `std::istream >>` -/
inductive PType where
  | str | i32 | u32 | i64 | u64
deriving DecidableEq, Repr

/-- What a handler registered with the dispatcher receives. -/
inductive Kind where
  /-- `assign(re, handler)` : no arguments -/
  | h0
  /-- `assign(re, handlerN, p1..pN)` : `m[p_i]` converted to `std::string` -/
  | hN (sel : List Int)
  /-- `assign_generic(re, rhandler)` : the whole `cmatch` -/
  | rh
  /-- `map_generic([method,] re, generic_handler)`: gets the `cmatch`; returns `false`
  ("parameters did not validate", the scan continues) iff group `rej.1` converts to `rej.2`. -/
  | gen (rej : Option (Int × Bytes))
  /-- `map([method,] re, &C::member, obj, g₁ … gₙ)`: group `gᵢ` is checked to be valid text and converted to the
  `i`-th parameter type; if any check or conversion fails the member is **not** called and the scan continues -/
  | typed (ps : List (Int × PType))
deriving DecidableEq, Repr

structure Leaf where
  id : Nat
  re : Regex
  /-- the `method` argument of `map_generic(method, re, h)` -/
  meth : Option Bytes := none
  kind : Kind
deriving DecidableEq, Repr

/-- An application = the option vector of its `url_dispatcher`, in registration order; a
`mounted` option owns the child application.  One inductive with two recursive positions
(child, rest of the vector) so that recursion and induction are structural. -/
inductive Opts where
  | nil
  | leaf (l : Leaf) (rest : Opts)
  | mount (re : Regex) (sel : Int) (child : Opts) (rest : Opts)
deriving DecidableEq, Repr

inductive Event where
  /-- handler `id` was executed with these arguments (`none` = unmatched group, only visible to `rh`/`gen`) -/
  | ran (id : Nat) (args : List (Option Bytes))
  /-- generic handler `id` was executed and returned `false` -/
  | rejected (id : Nat) (args : List (Option Bytes))
  /-- `application::main` of a (child or root) application found no option: 404 -/
  | notFound
deriving DecidableEq, Repr

/-- one option seen from its dispatcher -/
inductive Entry where
  | leaf (l : Leaf)
  | mount (re : Regex) (sel : Int) (child : Opts)
deriving DecidableEq, Repr

/-- the option vector of one application -/
def Opts.level : Opts → List Entry
  | .nil => []
  | .leaf l rest => .leaf l :: rest.level
  | .mount re sel child rest => .mount re sel child :: rest.level

def Opts.depth : Opts → Nat
  | .nil => 0
  | .leaf _ rest => rest.depth
  | .mount _ _ child rest => max (child.depth + 1) rest.depth

/-- `cppcms::mount_point` -/
structure MountPoint where
  host : Option Regex := none
  script : Option Regex := none
  path : Option Regex := none
  group : Int := 0
  /-- `selection_ == match_path_info` -/
  selPath : Bool := true
deriving DecidableEq, Repr

/-! ## URL mapper -/

/-- `url_mapper::data::entry` without the child pointer: `parts[0] idx[0] parts[1] … parts[n]`;
index 0 = keyword substitution `{key}` (the key is in `keys`), `k` = parameter `{k}` (an `int`: `atoi` of
a very long digit string can come out negative). -/
structure Tpl where
  parts : List Bytes
  indexes : List Int
  keys : List Bytes
deriving DecidableEq, Repr

/-- `by_key` of one mapper, flattened to an association list with unique `(key, arity)`;
`app` entries are the ones created by `url_mapper::mount` (arity is always 1) and own the child mapper. -/
inductive MNode where
  | nil
  | url (key : Bytes) (arity : Nat) (tpl : Tpl) (rest : MNode)
  | app (key : Bytes) (tpl : Tpl) (child : MNode) (rest : MNode)
deriving DecidableEq, Repr

inductive MapErr where
  | keyNotFound | badArity | notChild | indexRange | noParent | tooManyKeywords
deriving DecidableEq, Repr

inductive TplErr where
  | emptyIndex | zeroIndex | unclosed | strayClose | appArity | badKey | sharedKey
deriving DecidableEq, Repr

end Cppcms.C20
