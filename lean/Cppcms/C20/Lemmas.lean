import Cppcms.C20.Model
import Cppcms.C20.Spec
import Cppcms.C20.LemmasNum
/-!
# C20 — helper lemmas (wrapper, scan, tree)

Everything is proved for an arbitrary `q : Quirks` satisfying `Quirks.Fixed` (ranges instead of
C strings, both `regex::match` overloads test the span); `Props.lean` instantiates `q := Gen.quirks`,
so the hypotheses are re-established from the regenerated `Gen.lean` on every run.
-/
namespace Cppcms.C20
open Cppcms

/-- the source facts under which routing is whole-string -/
structure Quirks.Fixed (q : Quirks) : Prop where
  path : q.pathCStr = false
  mount : q.mountStrCStr = false
  marks : ∀ a b n, q.spanRejectMarks a b n = false ↔ (a = 0 ∧ b = n)
  noMarks : ∀ a b n, q.spanRejectNoMarks a b n = false ↔ (a = 0 ∧ b = n)

/-! ## the booster wrapper -/

/-- the `marks` vector built by `regex::match(begin,end,marks)` -/
def padMarks (rx : Rx) (r : Regex) (raw : Raw) : List Span :=
  let got := (raw.1 :: raw.2).take (patSize rx r)
  got ++ List.replicate (patSize rx r - got.length) (-1, -1)

theorem whole_eq_some {rx : Rx} {r : Regex} {s : Bytes} {raw : Raw} :
    Spec.whole rx r s = some raw ↔ rx.exec r.pat r.flags s = some raw ∧ raw.1 = ((0 : Int), (s.length : Int)) := by
  unfold Spec.whole
  cases h : rx.exec r.pat r.flags s with
  | none => simp
  | some raw' =>
    by_cases hs : raw'.1 = ((0 : Int), (s.length : Int))
    · simp only [hs, if_true, Option.some.injEq]
      constructor
      · intro e; subst e; exact ⟨rfl, hs⟩
      · intro e; exact e.1
    · simp only [hs, if_false, Option.some.injEq]
      constructor
      · intro e; cases e
      · intro e; rw [← e.1] at e; exact absurd e.2 hs

theorem span_eq_iff (sp : Span) (n : Int) : sp = ((0 : Int), n) ↔ (sp.1 = 0 ∧ sp.2 = n) := by
  cases sp; simp

theorem rxMatchMarks_eq (rx : Rx) {q : Quirks} (hq : q.Fixed) (r : Regex) (s : Bytes) :
    rxMatchMarks rx q r s = (Spec.whole rx r s).map fun raw => ⟨s, padMarks rx r raw⟩ := by
  unfold rxMatchMarks Spec.whole
  cases h : rx.exec r.pat r.flags s with
  | none => simp
  | some raw =>
    obtain ⟨sp0, gs⟩ := raw
    by_cases hs : sp0 = ((0 : Int), (s.length : Int))
    · subst hs
      simp [(hq.marks 0 (s.length : Int) (s.length : Int)).2 ⟨rfl, rfl⟩, padMarks]
    · have : q.spanRejectMarks sp0.1 sp0.2 s.length = true := by
        cases hb : q.spanRejectMarks sp0.1 sp0.2 s.length with
        | true => rfl
        | false => exact absurd ((span_eq_iff _ _).2 ((hq.marks _ _ _).1 hb)) hs
      simp [this, hs]

theorem rxMatch_eq (rx : Rx) {q : Quirks} (hq : q.Fixed) (r : Regex) (s : Bytes) :
    rxMatch rx q r s = (Spec.whole rx r s).isSome := by
  unfold rxMatch Spec.whole
  cases h : rx.exec r.pat r.flags s with
  | none => simp
  | some raw =>
    obtain ⟨sp0, gs⟩ := raw
    by_cases hs : sp0 = ((0 : Int), (s.length : Int))
    · subst hs
      simp [(hq.noMarks 0 (s.length : Int) (s.length : Int)).2 ⟨rfl, rfl⟩]
    · have : q.spanRejectNoMarks sp0.1 sp0.2 s.length = true := by
        cases hb : q.spanRejectNoMarks sp0.1 sp0.2 s.length with
        | true => rfl
        | false => exact absurd ((span_eq_iff _ _).2 ((hq.noMarks _ _ _).1 hb)) hs
      simp [this, hs]

theorem padMarks_length (rx : Rx) (r : Regex) (raw : Raw) : (padMarks rx r raw).length = patSize rx r := by
  unfold padMarks
  simp only [List.length_append, List.length_replicate, List.length_take]
  omega

theorem padMarks_getElem? (rx : Rx) (r : Regex) (raw : Raw) (h : raw.2.length + 1 ≤ patSize rx r) (n : Nat) :
    (padMarks rx r raw)[n]? =
      if n < raw.2.length + 1 then (raw.1 :: raw.2)[n]? else if n < patSize rx r then some (-1, -1) else none := by
  unfold padMarks
  have ht : (raw.1 :: raw.2).take (patSize rx r) = raw.1 :: raw.2 := List.take_of_length_le (by simpa using h)
  simp only [ht, List.length_cons]
  by_cases h1 : n < raw.2.length + 1
  · simp only [h1, if_true]
    rw [List.getElem?_append_left (by simpa using h1)]
  · simp only [h1, if_false]
    rw [List.getElem?_append_right (by simp; omega)]
    by_cases h2 : n < patSize rx r
    · simp only [h2, if_true, List.length_cons]
      rw [List.getElem?_replicate]
      simp; omega
    · simp only [h2, if_false, List.length_cons]
      rw [List.getElem?_replicate]
      simp; omega

/-- groups as the handler reads them from the `cmatch` = groups of the engine's answer -/
theorem cmatch_get_eq (rx : Rx) (r : Regex) (s : Bytes) (raw : Raw) (h : raw.2.length + 1 ≤ patSize rx r) (n : Int) :
    (CMatch.mk s (padMarks rx r raw)).get n = Spec.group s raw n := by
  unfold CMatch.get Spec.group
  by_cases hn : n < 0
  · simp [hn]
  · simp only [hn, if_false]
    rw [padMarks_getElem? rx r raw h]
    by_cases h1 : n.toNat < raw.2.length + 1
    · simp only [h1, if_true]
      rfl
    · simp only [h1, if_false]
      have : (raw.1 :: raw.2)[n.toNat]? = none := by
        apply List.getElem?_eq_none; simp; omega
      rw [this]
      by_cases h2 : n.toNat < patSize rx r <;> simp [h2]

theorem cmatch_str_eq (rx : Rx) (r : Regex) (s : Bytes) (raw : Raw) (h : raw.2.length + 1 ≤ patSize rx r) (n : Int) :
    (CMatch.mk s (padMarks rx r raw)).str n = Spec.groupStr s raw n := by
  unfold CMatch.str Spec.groupStr; rw [cmatch_get_eq rx r s raw h]

theorem cmatch_all_eq (rx : Rx) (r : Regex) (s : Bytes) (raw : Raw) (h : raw.2.length + 1 ≤ patSize rx r) :
    (CMatch.mk s (padMarks rx r raw)).all = Spec.groups rx r s raw := by
  unfold CMatch.all Spec.groups
  simp only [padMarks_length]
  have : patSize rx r = (rx.info r.pat r.flags).getD 0 + 1 := rfl
  rw [this]
  apply List.map_congr_left
  intro i _
  exact cmatch_get_eq rx r s raw h _

theorem arity_of_whole {rx : Rx} (hs : RxSound rx) {r : Regex} {s : Bytes} {raw : Raw}
    (h : Spec.whole rx r s = some raw) : raw.2.length + 1 ≤ patSize rx r := by
  have := hs.arity _ _ _ _ (whole_eq_some.1 h).1
  unfold patSize; omega

/-! ## method filter, option::matches -/

theorem methodLiteral_eq (m : Bytes) (h : ∀ c : Nat, Gen.methodCharLiteral c = (decide (65 ≤ c) && decide (c ≤ 90))) :
    methodLiteral m = m.all Spec.upperAZ := by
  unfold methodLiteral
  apply List.all_congr rfl
  intro c
  simp [h, Spec.upperAZ]

theorem methodOk_eq (rx : Rx) {q : Quirks} (hq : q.Fixed)
    (hm : ∀ c : Nat, Gen.methodCharLiteral c = (decide (65 ≤ c) && decide (c ≤ 90)))
    (filter req : Option Bytes) : methodOk rx q filter req = Spec.methodOk rx filter req := by
  unfold methodOk Spec.methodOk
  cases filter with
  | none => rfl
  | some m =>
    cases req with
    | none => rfl
    | some r => simp only [methodLiteral_eq m hm, rxMatch_eq rx hq]

theorem optMatches_eq (rx : Rx) {q : Quirks} (hq : q.Fixed)
    (hm : ∀ c : Nat, Gen.methodCharLiteral c = (decide (65 ≤ c) && decide (c ≤ 90)))
    (re : Regex) (filter req : Option Bytes) (path : Bytes) :
    optMatches rx q re filter req path =
      if Spec.methodOk rx filter req then (Spec.whole rx re path).map fun raw => ⟨path, padMarks rx re raw⟩ else none := by
  unfold optMatches
  rw [methodOk_eq rx hq hm, hq.path]
  simp [rxMatchMarks_eq rx hq]

/-! ## the scan -/

def Attempt.isFire : Attempt → Bool
  | .fire _ => true
  | _ => false

def Attempt.rejectEv : Attempt → Option Event
  | .reject ev => some ev
  | _ => none

def Attempt.fireEvs : Attempt → List Event
  | .fire evs => evs
  | _ => []

@[simp] theorem Attempt.isFire_skip : Attempt.isFire .skip = false := rfl
@[simp] theorem Attempt.isFire_reject (ev : Event) : Attempt.isFire (.reject ev) = false := rfl
@[simp] theorem Attempt.isFire_fire (evs : List Event) : Attempt.isFire (.fire evs) = true := rfl
@[simp] theorem Attempt.rejectEv_skip : Attempt.rejectEv .skip = none := rfl
@[simp] theorem Attempt.rejectEv_reject (ev : Event) : Attempt.rejectEv (.reject ev) = some ev := rfl
@[simp] theorem Attempt.rejectEv_fire (evs : List Event) : Attempt.rejectEv (.fire evs) = none := rfl
@[simp] theorem Attempt.fireEvs_fire (evs : List Event) : Attempt.fireEvs (.fire evs) = evs := rfl

/-- the loop of `url_dispatcher::dispatch` over the results of `option::dispatch` -/
def runAttempts : List Attempt → Bool × List Event
  | [] => (false, [])
  | .skip :: rest => runAttempts rest
  | .reject ev :: rest => let r := runAttempts rest; (r.1, ev :: r.2)
  | .fire evs :: _ => (true, evs)

/-- what `option::dispatch` of one entry does -/
def entryAttempt (rx : Rx) (q : Quirks) (req : Option Bytes) (url : Bytes) : Entry → Attempt
  | .leaf l => leafAttempt rx q req l url
  | .mount re sel child =>
    match optMatches rx q re none req url with
    | none => .skip
    | some m =>
      let r := dispatch rx q req child (m.str sel)
      .fire (if r.1 then r.2 else r.2 ++ [.notFound])

theorem dispatch_eq_run (rx : Rx) (q : Quirks) (req : Option Bytes) (o : Opts) (url : Bytes) :
    dispatch rx q req o url = runAttempts (o.level.map (entryAttempt rx q req url)) := by
  induction o with
  | nil => simp [dispatch, Opts.level, runAttempts]
  | leaf l rest ih =>
    simp only [dispatch, Opts.level, List.map_cons, entryAttempt]
    cases h : leafAttempt rx q req l url <;> simp [runAttempts, ih]
  | mount re sel child rest _ ih =>
    simp only [dispatch, Opts.level, List.map_cons, entryAttempt]
    cases h : optMatches rx q re none req url <;> simp [runAttempts, ih]

theorem runAttempts_find (as : List Attempt) :
    runAttempts as =
      match as.find? Attempt.isFire with
      | none => (false, as.filterMap Attempt.rejectEv)
      | some a => (true, (as.takeWhile fun a => !a.isFire).filterMap Attempt.rejectEv ++ a.fireEvs) := by
  induction as with
  | nil => simp [runAttempts]
  | cons a rest ih =>
    cases a with
    | skip =>
      simp only [runAttempts, List.find?_cons, Attempt.isFire_skip, ih]
      cases h : rest.find? Attempt.isFire <;> simp [List.filterMap_cons]
    | reject ev =>
      simp only [runAttempts, List.find?_cons, Attempt.isFire_reject, ih]
      cases h : rest.find? Attempt.isFire <;> simp [List.filterMap_cons]
    | fire evs =>
      simp [runAttempts, List.find?_cons]

/-! ## one option: model attempt = specification try -/

def tryToAttempt : Option (Bool × Event) → Attempt
  | none => .skip
  | some (true, ev) => .fire [ev]
  | some (false, ev) => .reject ev

/-- the byte class extracted from `option::option` is `A-Z` -/
def MethodClassAZ : Prop := ∀ c : Nat, Gen.methodCharLiteral c = (decide (65 ≤ c) && decide (c ≤ 90))

theorem convertParam_eq (rx : Rx) (t : PType) (s : Bytes) : convertParam rx t s = Spec.convert rx t s := by
  unfold convertParam Spec.convert
  cases hv : rx.valid s with
  | false => simp
  | true =>
    cases t with
    | str => simp [PType.num]
    | i32 => simp [PType.num, parseNum_eq_numeral ⟨true, 32⟩ (by decide), decInt_eq]
    | u32 => simp [PType.num, parseNum_eq_numeral ⟨false, 32⟩ (by decide), decInt_eq]
    | i64 => simp [PType.num, parseNum_eq_numeral ⟨true, 64⟩ (by decide), decInt_eq]
    | u64 => simp [PType.num, parseNum_eq_numeral ⟨false, 64⟩ (by decide), decInt_eq]

theorem convertAll_eq (rx : Rx) (r : Regex) (url : Bytes) (raw : Raw) (h : raw.2.length + 1 ≤ patSize rx r)
    (ps : List (Int × PType)) :
    convertAll rx ⟨url, padMarks rx r raw⟩ ps =
      ps.mapM fun gt => (Spec.convert rx gt.2 (Spec.groupStr url raw gt.1)).map some := by
  induction ps with
  | nil => rfl
  | cons gt rest ih =>
    obtain ⟨g, t⟩ := gt
    simp only [convertAll, List.mapM_cons, cmatch_str_eq rx r url raw h, convertParam_eq, ih]
    cases Spec.convert rx t (Spec.groupStr url raw g) with
    | none => rfl
    | some v =>
      cases (rest.mapM fun gt => (Spec.convert rx gt.2 (Spec.groupStr url raw gt.1)).map some) <;> rfl

theorem leafAttempt_eq (rx : Rx) {q : Quirks} (hq : q.Fixed) (hm : MethodClassAZ) (hs : RxSound rx)
    (req : Option Bytes) (l : Leaf) (url : Bytes) :
    leafAttempt rx q req l url = tryToAttempt (Spec.leafTry rx req l url) := by
  unfold leafAttempt Spec.leafTry
  cases hk : l.kind with
  | h0 =>
    simp only [optMatches_eq rx hq hm, Spec.methodOk, if_true]
    cases hw : Spec.whole rx l.re url <;> simp [tryToAttempt]
  | hN sel =>
    simp only [optMatches_eq rx hq hm, Spec.methodOk, if_true]
    cases hw : Spec.whole rx l.re url with
    | none => simp [tryToAttempt]
    | some raw =>
      have ha := arity_of_whole hs hw
      simp [tryToAttempt, cmatch_str_eq rx l.re url raw ha]
  | rh =>
    simp only [optMatches_eq rx hq hm, Spec.methodOk, if_true]
    cases hw : Spec.whole rx l.re url with
    | none => simp [tryToAttempt]
    | some raw =>
      have ha := arity_of_whole hs hw
      simp [tryToAttempt, cmatch_all_eq rx l.re url raw ha]
  | typed ps =>
    cases req with
    | none => simp [tryToAttempt]
    | some rq =>
      simp only [optMatches_eq rx hq hm, Option.isNone_some, Option.isSome_some, Bool.true_and]
      by_cases hmo : Spec.methodOk rx l.meth (some rq) = true
      · simp only [hmo, if_true]
        cases hw : Spec.whole rx l.re url with
        | none => simp [tryToAttempt]
        | some raw =>
          have ha := arity_of_whole hs hw
          simp only [Option.map_some, convertAll_eq rx l.re url raw ha, Option.bind_some]
          cases (ps.mapM fun gt => (Spec.convert rx gt.2 (Spec.groupStr url raw gt.1)).map some) <;> simp [tryToAttempt]
      · simp [hmo, tryToAttempt]
  | gen rej =>
    cases req with
    | none => simp [tryToAttempt]
    | some rq =>
      simp only [optMatches_eq rx hq hm, Option.isNone_some, Option.isSome_some, Bool.true_and]
      by_cases hmo : Spec.methodOk rx l.meth (some rq) = true
      · simp only [hmo, if_true]
        cases hw : Spec.whole rx l.re url with
        | none => simp [tryToAttempt]
        | some raw =>
          have ha := arity_of_whole hs hw
          cases rej with
          | none => simp [tryToAttempt, genRejects, cmatch_all_eq rx l.re url raw ha]
          | some gv =>
            obtain ⟨g, v⟩ := gv
            simp only [Option.map_some, genRejects, cmatch_str_eq rx l.re url raw ha, cmatch_all_eq rx l.re url raw ha]
            by_cases hv : (Spec.groupStr url raw g == v) = true <;> simp [hv, tryToAttempt]
      · simp [hmo, tryToAttempt]

/-- a mounted application, seen from the parent's scan, in specification terms -/
theorem mountAttempt_eq (rx : Rx) {q : Quirks} (hq : q.Fixed) (hm : MethodClassAZ) (hs : RxSound rx)
    (req : Option Bytes) (re : Regex) (sel : Int) (child : Opts) (url : Bytes) :
    entryAttempt rx q req url (.mount re sel child) =
      match Spec.whole rx re url with
      | none => .skip
      | some raw =>
        let r := dispatch rx q req child (Spec.groupStr url raw sel)
        .fire (if r.1 then r.2 else r.2 ++ [.notFound]) := by
  unfold entryAttempt
  simp only [optMatches_eq rx hq hm, Spec.methodOk, if_true]
  cases hw : Spec.whole rx re url with
  | none => simp
  | some raw =>
    have ha := arity_of_whole hs hw
    simp [cmatch_str_eq rx re url raw ha]

theorem depth_of_mem_level {o : Opts} {re : Regex} {sel : Int} {child : Opts}
    (h : Entry.mount re sel child ∈ o.level) : child.depth + 1 ≤ o.depth := by
  induction o with
  | nil => simp [Opts.level] at h
  | leaf l rest ih =>
    simp only [Opts.level, List.mem_cons] at h
    rcases h with h | h
    · cases h
    · simpa [Opts.depth] using ih h
  | mount re' sel' child' rest _ ih =>
    simp only [Opts.level, List.mem_cons] at h
    rcases h with h | h
    · cases h; simp [Opts.depth]; omega
    · have := ih h; simp [Opts.depth]; omega

theorem isFire_entryAttempt (rx : Rx) {q : Quirks} (hq : q.Fixed) (hm : MethodClassAZ) (hs : RxSound rx)
    (req : Option Bytes) (url : Bytes) (e : Entry) :
    (entryAttempt rx q req url e).isFire = Spec.takes rx req url e := by
  cases e with
  | leaf l =>
    simp only [entryAttempt, leafAttempt_eq rx hq hm hs, Spec.takes]
    cases h : Spec.leafTry rx req l url with
    | none => rfl
    | some t => obtain ⟨b, ev⟩ := t; cases b <;> rfl
  | mount re sel child =>
    rw [mountAttempt_eq rx hq hm hs]
    simp only [Spec.takes]
    cases h : Spec.whole rx re url <;> rfl

theorem rejectEv_entryAttempt (rx : Rx) {q : Quirks} (hq : q.Fixed) (hm : MethodClassAZ) (hs : RxSound rx)
    (req : Option Bytes) (url : Bytes) (e : Entry) :
    (entryAttempt rx q req url e).rejectEv = Spec.declined rx req url e := by
  cases e with
  | leaf l =>
    simp only [entryAttempt, leafAttempt_eq rx hq hm hs, Spec.declined]
    cases h : Spec.leafTry rx req l url with
    | none => rfl
    | some t => obtain ⟨b, ev⟩ := t; cases b <;> rfl
  | mount re sel child =>
    rw [mountAttempt_eq rx hq hm hs]
    simp only [Spec.declined]
    cases h : Spec.whole rx re url <;> rfl

theorem takeWhile_not_of_find?_none {α} (p : α → Bool) (l : List α) (h : l.find? p = none) :
    l.takeWhile (fun a => !p a) = l := by
  induction l with
  | nil => rfl
  | cons a l ih =>
    rw [List.find?_cons] at h
    cases hp : p a with
    | true => simp [hp] at h
    | false =>
      simp only [hp] at h
      simp [List.takeWhile_cons, hp, ih h]

/-- **Model = specification**, for nesting of any depth (`fuel` only has to exceed it). -/
theorem dispatch_eq_route (rx : Rx) {q : Quirks} (hq : q.Fixed) (hm : MethodClassAZ) (hs : RxSound rx)
    (req : Option Bytes) : ∀ (fuel : Nat) (o : Opts) (url : Bytes), o.depth < fuel →
      dispatch rx q req o url = Spec.route rx req fuel o url := by
  intro fuel
  induction fuel with
  | zero => intro o url h; omega
  | succ fuel ih =>
    intro o url hd
    rw [dispatch_eq_run, runAttempts_find]
    simp only [Spec.route, List.find?_map, List.takeWhile_map, List.filterMap_map]
    have hfire : (Attempt.isFire ∘ entryAttempt rx q req url) = Spec.takes rx req url :=
      funext fun e => isFire_entryAttempt rx hq hm hs req url e
    have hrej : (Attempt.rejectEv ∘ entryAttempt rx q req url) = Spec.declined rx req url :=
      funext fun e => rejectEv_entryAttempt rx hq hm hs req url e
    have hnot : ((fun a => !a.isFire) ∘ entryAttempt rx q req url) = fun e => !Spec.takes rx req url e :=
      funext fun e => by simp [isFire_entryAttempt rx hq hm hs req url e]
    rw [hfire, hrej, hnot]
    cases hf : o.level.find? (Spec.takes rx req url) with
    | none =>
      simp only [Option.map_none]
      rw [takeWhile_not_of_find?_none _ _ hf]
    | some e =>
      simp only [Option.map_some]
      have htake : Spec.takes rx req url e = true := List.find?_some hf
      have hmem : e ∈ o.level := List.mem_of_find?_eq_some hf
      cases e with
      | leaf l =>
        simp only [entryAttempt, leafAttempt_eq rx hq hm hs]
        simp only [Spec.takes] at htake
        cases ht : Spec.leafTry rx req l url with
        | none => simp [ht] at htake
        | some t =>
          obtain ⟨b, ev⟩ := t
          cases b with
          | false => simp [ht] at htake
          | true => simp [tryToAttempt]
      | mount re sel child =>
        rw [mountAttempt_eq rx hq hm hs]
        simp only [Spec.takes] at htake
        cases hw : Spec.whole rx re url with
        | none => simp [hw] at htake
        | some raw =>
          have hdc : child.depth < fuel := by
            have := depth_of_mem_level hmem; omega
          simp only [Attempt.fireEvs_fire, ih child _ hdc, hw]
          generalize Spec.route rx req fuel child (Spec.groupStr url raw sel) = r
          obtain ⟨b, evs⟩ := r
          cases b <;> simp

/-! ## mount points and the pool -/

theorem mpMatchC_eq (rx : Rx) {q : Quirks} (hq : q.Fixed) (hs : RxSound rx) (mp : MountPoint) (h s p : Bytes) :
    mpMatchC rx q mp h s p = Spec.mpMatch rx mp h s p := by
  obtain ⟨host, script, path, group, selPath⟩ := mp
  unfold mpMatchC Spec.mpMatch
  simp only [rxMatch_eq rx hq, rxMatchMarks_eq rx hq]
  cases host with
  | some hr =>
    cases hh : Spec.whole rx hr h with
    | none => simp [hh]
    | some rawh =>
      cases selPath <;> cases script with
      | none =>
        cases path with
        | none => simp [hh]
        | some pr =>
          cases hp : Spec.whole rx pr p with
          | none => by_cases hg : group = 0 <;> simp [hh, hp, hg]
          | some rawp =>
            have ha := arity_of_whole hs hp
            by_cases hg : group = 0 <;> simp [hh, hp, hg, cmatch_str_eq rx pr p rawp ha]
      | some sr =>
        cases hsw : Spec.whole rx sr s with
        | none =>
          cases path with
          | none => by_cases hg : group = 0 <;> simp [hh, hsw, hg]
          | some pr => cases hp : Spec.whole rx pr p <;> by_cases hg : group = 0 <;> simp [hh, hsw, hp, hg]
        | some raws =>
          have has := arity_of_whole hs hsw
          cases path with
          | none => by_cases hg : group = 0 <;> simp [hh, hsw, hg, cmatch_str_eq rx sr s raws has]
          | some pr =>
            cases hp : Spec.whole rx pr p with
            | none => by_cases hg : group = 0 <;> simp [hh, hsw, hp, hg]
            | some rawp =>
              have ha := arity_of_whole hs hp
              by_cases hg : group = 0 <;>
                simp [hh, hsw, hp, hg, cmatch_str_eq rx pr p rawp ha, cmatch_str_eq rx sr s raws has]
  | none =>
    cases selPath <;> cases script with
    | none =>
      cases path with
      | none => simp
      | some pr =>
        cases hp : Spec.whole rx pr p with
        | none => by_cases hg : group = 0 <;> simp [hp, hg]
        | some rawp =>
          have ha := arity_of_whole hs hp
          by_cases hg : group = 0 <;> simp [hp, hg, cmatch_str_eq rx pr p rawp ha]
    | some sr =>
      cases hsw : Spec.whole rx sr s with
      | none =>
        cases path with
        | none => by_cases hg : group = 0 <;> simp [hsw, hg]
        | some pr => cases hp : Spec.whole rx pr p <;> by_cases hg : group = 0 <;> simp [hsw, hp, hg]
      | some raws =>
        have has := arity_of_whole hs hsw
        cases path with
        | none => by_cases hg : group = 0 <;> simp [hsw, hg, cmatch_str_eq rx sr s raws has]
        | some pr =>
          cases hp : Spec.whole rx pr p with
          | none => by_cases hg : group = 0 <;> simp [hsw, hp, hg]
          | some rawp =>
            have ha := arity_of_whole hs hp
            by_cases hg : group = 0 <;>
              simp [hsw, hp, hg, cmatch_str_eq rx pr p rawp ha, cmatch_str_eq rx sr s raws has]

theorem poolFind_eq_aux (rx : Rx) (q : Quirks) (h s p : Bytes) (mps : List MountPoint) (i : Nat) :
    poolFind rx q h s p mps i =
      (mps.zipIdx i).findSome? fun (mp, j) => (mpMatchPtr rx q mp h s p).map fun m => (j, m) := by
  induction mps generalizing i with
  | nil => simp [poolFind]
  | cons mp rest ih =>
    simp only [poolFind, List.zipIdx_cons, List.findSome?_cons]
    cases hm : mpMatchPtr rx q mp h s p <;> simp [ih]

theorem poolScanApps_eq (rx : Rx) (q : Quirks) (h s p : Bytes) (l : List (Nat × MountPoint)) :
    poolScanApps rx q h s p l = l.findSome? fun im => (mpMatchPtr rx q im.2 h s p).map fun m => (im.1, m) := by
  induction l with
  | nil => rfl
  | cons im rest ih =>
    obtain ⟨i, mp⟩ := im
    simp only [poolScanApps, List.findSome?_cons]
    cases hm : mpMatchPtr rx q mp h s p <;> simp [ih]

theorem poolScanLegacy_eq (rx : Rx) (q : Quirks) (h s p : Bytes) (dead : List Nat) (l : List (Nat × MountPoint))
    (result : Option (Nat × Bytes)) :
    poolScanLegacy rx q h s p dead l result =
      result.or ((l.filter fun im => !dead.contains im.1).findSome? fun im => (mpMatchPtr rx q im.2 h s p).map fun m => (im.1, m)) := by
  induction l generalizing result with
  | nil => cases result <;> rfl
  | cons im rest ih =>
    obtain ⟨i, mp⟩ := im
    simp only [poolScanLegacy, List.filter_cons]
    by_cases hd : i ∈ dead
    · simp [hd, ih]
    · simp only [List.contains_eq_mem, hd, decide_false, Bool.false_eq_true, if_false, Bool.not_false, if_true, List.findSome?_cons]
      cases result with
      | some r => simp [ih]
      | none => cases hm : mpMatchPtr rx q mp h s p <;> simp [ih]

/-! ## the routing relation -/

/-- `x` is group `n` of the match, or what group `n` converts to -/
def FromGroup (rx : Rx) (url : Bytes) (raw : Raw) (x : Bytes) : Prop :=
  ∃ n, x = Spec.groupStr url raw n ∨ ∃ t, Spec.convert rx t (Spec.groupStr url raw n) = some x

theorem mem_of_mapM_some {α β} (f : α → Option β) :
    ∀ (l : List α) (vals : List β), l.mapM f = some vals → ∀ v ∈ vals, ∃ a ∈ l, f a = some v := by
  intro l
  induction l with
  | nil => intro vals h v hv; simp at h; subst h; cases hv
  | cons a rest ih =>
    intro vals h v hv
    simp only [List.mapM_cons] at h
    cases hfa : f a with
    | none => simp [hfa] at h
    | some b =>
      cases hr : rest.mapM f with
      | none => simp [hfa, hr] at h
      | some bs =>
        simp [hfa, hr] at h
        subst h
        simp only [List.mem_cons] at hv
        rcases hv with rfl | hv
        · exact ⟨a, by simp, hfa⟩
        · obtain ⟨a', ha', hf⟩ := ih bs hr v hv
          exact ⟨a', by simp [ha'], hf⟩

theorem leafTry_cases {rx : Rx} {req : Option Bytes} {l : Leaf} {url : Bytes} {b : Bool} {ev : Event}
    (h : Spec.leafTry rx req l url = some (b, ev)) :
    ∃ raw, Spec.whole rx l.re url = some raw ∧
      ((b = true ∧ ∃ a, ev = .ran l.id a ∧ ∀ x, some x ∈ a → FromGroup rx url raw x) ∨
       (b = false ∧ ∃ a, ev = .rejected l.id a ∧ ∀ x, some x ∈ a → FromGroup rx url raw x)) := by
  have hgroups : ∀ raw x, some x ∈ Spec.groups rx l.re url raw → FromGroup rx url raw x := by
    intro raw x hx
    simp only [Spec.groups, List.mem_map] at hx
    obtain ⟨i, _, hi⟩ := hx
    refine ⟨Int.ofNat i, .inl ?_⟩
    unfold Spec.groupStr
    rw [hi]; rfl
  unfold Spec.leafTry at h
  cases hk : l.kind with
  | h0 =>
    simp only [hk, Option.map_eq_some_iff] at h
    obtain ⟨raw, hw, he⟩ := h
    cases he
    exact ⟨raw, hw, .inl ⟨rfl, [], rfl, by simp⟩⟩
  | hN sel =>
    simp only [hk, Option.map_eq_some_iff] at h
    obtain ⟨raw, hw, he⟩ := h
    cases he
    refine ⟨raw, hw, .inl ⟨rfl, _, rfl, ?_⟩⟩
    intro x hx
    simp only [List.mem_map, Option.some.injEq] at hx
    obtain ⟨n, _, hn⟩ := hx
    exact ⟨n, .inl hn.symm⟩
  | typed ps =>
    simp only [hk] at h
    split at h
    · simp only [Option.bind_eq_some_iff, Option.map_eq_some_iff] at h
      obtain ⟨raw, hw, vals, hvals, he⟩ := h
      cases he
      refine ⟨raw, hw, .inl ⟨rfl, _, rfl, ?_⟩⟩
      intro x hx
      obtain ⟨gt, _, hgt⟩ := mem_of_mapM_some _ ps vals hvals (some x) hx
      simp only [Option.map_eq_some_iff, Option.some.injEq] at hgt
      obtain ⟨y, hy, rfl⟩ := hgt
      exact ⟨gt.1, .inr ⟨gt.2, hy⟩⟩
    · cases h
  | rh =>
    simp only [hk, Option.map_eq_some_iff] at h
    obtain ⟨raw, hw, he⟩ := h
    cases he
    exact ⟨raw, hw, .inl ⟨rfl, _, rfl, hgroups raw⟩⟩
  | gen rej =>
    simp only [hk] at h
    split at h
    · simp only [Option.map_eq_some_iff] at h
      obtain ⟨raw, hw, he⟩ := h
      refine ⟨raw, hw, ?_⟩
      cases rej with
      | none => cases he; exact .inl ⟨rfl, _, rfl, hgroups raw⟩
      | some gv =>
        obtain ⟨g, v⟩ := gv
        simp only at he
        split at he
        · cases he; exact .inr ⟨rfl, _, rfl, hgroups raw⟩
        · cases he; exact .inl ⟨rfl, _, rfl, hgroups raw⟩
    · cases h

theorem declined_is_rejected {rx : Rx} {req : Option Bytes} {url : Bytes} {es : List Entry} {ev : Event}
    (h : ev ∈ es.filterMap (Spec.declined rx req url)) : ∃ id a, ev = .rejected id a := by
  simp only [List.mem_filterMap] at h
  obtain ⟨e, _, he⟩ := h
  cases e with
  | mount re sel child => simp [Spec.declined] at he
  | leaf l =>
    simp only [Spec.declined] at he
    cases ht : Spec.leafTry rx req l url with
    | none => simp [ht] at he
    | some t =>
      obtain ⟨b, ev'⟩ := t
      cases b with
      | true => simp [ht] at he
      | false =>
        simp only [ht, Option.some.injEq] at he
        subst he
        obtain ⟨_, _, h1 | h1⟩ := leafTry_cases ht
        · cases h1.1
        · obtain ⟨_, a, ha, _⟩ := h1; exact ⟨_, a, ha⟩

/-- A handler runs iff the routing relation holds (specification side). -/
theorem ran_mem_route_iff (rx : Rx) (req : Option Bytes) (id : Nat) (args : List (Option Bytes)) :
    ∀ (fuel : Nat) (o : Opts) (url : Bytes), o.depth < fuel →
      (Event.ran id args ∈ (Spec.route rx req fuel o url).2 ↔ Spec.Reaches rx req o url id args) := by
  intro fuel
  induction fuel with
  | zero => intro o url h; omega
  | succ fuel ih =>
    intro o url hd
    have hbefore : ∀ es : List Entry, Event.ran id args ∉ es.filterMap (Spec.declined rx req url) := by
      intro es hmem
      obtain ⟨_, _, h⟩ := declined_is_rejected hmem
      cases h
    simp only [Spec.route]
    cases hf : o.level.find? (Spec.takes rx req url) with
    | none =>
      simp only
      constructor
      · intro h; exact absurd h (hbefore _)
      · intro h
        cases h with
        | atHandler h1 _ => rw [hf] at h1; cases h1
        | through h1 _ _ => rw [hf] at h1; cases h1
    | some e =>
      have htake : Spec.takes rx req url e = true := List.find?_some hf
      have hmem : e ∈ o.level := List.mem_of_find?_eq_some hf
      cases e with
      | leaf l =>
        simp only [Spec.takes] at htake
        cases ht : Spec.leafTry rx req l url with
        | none => simp [ht] at htake
        | some t =>
          obtain ⟨b, ev⟩ := t
          cases b with
          | false => simp [ht] at htake
          | true =>
            simp only [ht, List.mem_append, List.mem_singleton]
            constructor
            · intro h
              rcases h with h | h
              · exact absurd h (hbefore _)
              · subst h
                obtain ⟨_, _, h1 | h1⟩ := leafTry_cases ht
                · obtain ⟨_, a, ha, _⟩ := h1
                  cases ha
                  exact .atHandler hf ht
                · cases h1.1
            · intro h
              cases h with
              | atHandler h1 h2 =>
                rw [hf] at h1; cases h1
                rw [ht] at h2; cases h2
                exact .inr rfl
              | through h1 _ _ => rw [hf] at h1; cases h1
      | mount re sel child =>
        simp only [Spec.takes] at htake
        cases hw : Spec.whole rx re url with
        | none => simp [hw] at htake
        | some raw =>
          have hdc : child.depth < fuel := by
            have := depth_of_mem_level hmem; omega
          simp only [hw, List.mem_append]
          constructor
          · intro h
            rcases h with (h | h) | h
            · exact absurd h (hbefore _)
            · exact .through hf hw ((ih child _ hdc).1 h)
            · split at h <;> simp at h
          · intro h
            cases h with
            | atHandler h1 _ => rw [hf] at h1; cases h1
            | through h1 h2 h3 =>
              rw [hf] at h1; cases h1
              rw [hw] at h2; cases h2
              exact .inl (.inr ((ih child _ hdc).2 h3))

theorem sub_infix (s : Bytes) (a b : Int) : sub s a b <:+: s :=
  (List.take_prefix _ _).isInfix.trans (List.drop_suffix _ _).isInfix

theorem argOf_of_fromGroup {rx : Rx} {url : Bytes} {raw : Raw} {x : Bytes} (h : FromGroup rx url raw x) :
    Spec.ArgOf rx url x := by
  obtain ⟨n, h | ⟨t, ht⟩⟩ := h
  · exact ⟨_, (by
      unfold Spec.groupStr Spec.group
      by_cases hn : n < 0
      · simp [hn]
      · simp only [hn, if_false]
        cases (raw.1 :: raw.2)[n.toNat]? with
        | none => simp
        | some sp => by_cases h1 : sp.1 = -1 <;> simp [h1, sub_infix]), .inl h⟩
  · exact ⟨_, (by
      unfold Spec.groupStr Spec.group
      by_cases hn : n < 0
      · simp [hn]
      · simp only [hn, if_false]
        cases (raw.1 :: raw.2)[n.toNat]? with
        | none => simp
        | some sp => by_cases h1 : sp.1 = -1 <;> simp [h1, sub_infix]), .inr ⟨t, ht⟩⟩

theorem ArgOf.mono {rx : Rx} {u url x : Bytes} (h : Spec.ArgOf rx u x) (hu : u <:+: url) : Spec.ArgOf rx url x := by
  obtain ⟨s, hs, hx⟩ := h
  exact ⟨s, hs.trans hu, hx⟩

theorem groupStr_infix (s : Bytes) (raw : Raw) (n : Int) : Spec.groupStr s raw n <:+: s := by
  unfold Spec.groupStr Spec.group
  by_cases hn : n < 0
  · simp [hn]
  · simp only [hn, if_false]
    cases (raw.1 :: raw.2)[n.toNat]? with
    | none => simp
    | some sp => by_cases h1 : sp.1 = -1 <;> simp [h1, sub_infix]

/-- Every argument any handler at any depth sees is a contiguous piece of the request path. -/
theorem args_infix_route (rx : Rx) (req : Option Bytes) :
    ∀ (fuel : Nat) (o : Opts) (url : Bytes) (ev : Event), ev ∈ (Spec.route rx req fuel o url).2 →
      ∀ x, some x ∈ ev.args → Spec.ArgOf rx url x := by
  intro fuel
  induction fuel with
  | zero => intro o url ev h; simp [Spec.route] at h
  | succ fuel ih =>
    intro o url ev hev x hx
    have hbefore : ∀ es : List Entry, ev ∈ es.filterMap (Spec.declined rx req url) → Spec.ArgOf rx url x := by
      intro es hmem
      simp only [List.mem_filterMap] at hmem
      obtain ⟨e, _, he⟩ := hmem
      cases e with
      | mount re sel child => simp [Spec.declined] at he
      | leaf l =>
        simp only [Spec.declined] at he
        cases ht : Spec.leafTry rx req l url with
        | none => simp [ht] at he
        | some t =>
          obtain ⟨b, ev'⟩ := t
          cases b with
          | true => simp [ht] at he
          | false =>
            simp only [ht, Option.some.injEq] at he
            subst he
            obtain ⟨raw, _, h1 | h1⟩ := leafTry_cases ht
            · cases h1.1
            · obtain ⟨_, a, ha, hg⟩ := h1
              subst ha
              exact argOf_of_fromGroup (hg x hx)
    simp only [Spec.route] at hev
    cases hf : o.level.find? (Spec.takes rx req url) with
    | none => simp only [hf] at hev; exact hbefore _ hev
    | some e =>
      simp only [hf] at hev
      cases e with
      | leaf l =>
        simp only [List.mem_append] at hev
        rcases hev with hev | hev
        · exact hbefore _ hev
        · cases ht : Spec.leafTry rx req l url with
          | none => simp [ht] at hev
          | some t =>
            obtain ⟨b, ev'⟩ := t
            simp only [ht, List.mem_singleton] at hev
            subst hev
            obtain ⟨raw, _, h1 | h1⟩ := leafTry_cases ht
            · obtain ⟨_, a, ha, hg⟩ := h1
              subst ha
              exact argOf_of_fromGroup (hg x hx)
            · obtain ⟨_, a, ha, hg⟩ := h1
              subst ha
              exact argOf_of_fromGroup (hg x hx)
      | mount re sel child =>
        cases hw : Spec.whole rx re url with
        | none => simp only [hw] at hev; exact hbefore _ hev
        | some raw =>
          simp only [hw, List.mem_append] at hev
          rcases hev with (hev | hev) | hev
          · exact hbefore _ hev
          · exact ArgOf.mono (ih child _ ev hev x hx) (groupStr_infix _ _ _)
          · split at hev
            · simp at hev
            · simp only [List.mem_singleton] at hev
              subst hev
              simp [Event.args] at hx

end Cppcms.C20
