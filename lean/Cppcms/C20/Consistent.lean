import Cppcms.C20.Model
import Cppcms.C20.Spec
/-!
# C20 — `Consistent`: the decidable well-formedness under which URL generation and routing agree

A site is a chain of applications `cur, anc₀, anc₁, …, root` (dispatcher side: their option vectors;
mapper side: a position `MPos` whose `up` chain names the entry of each ancestor under which the
next application is mounted).  `Consistent` checks, **level by level and only locally**:

* innermost: the template of `key` instantiated with the parameters is routed by `cur` to handler `id`
  with exactly those parameters;
* every ancestor: its mount template wrapped around the URL so far is taken first (no earlier
  sibling takes or declines it) by the `mounted` option of the next application, whose selected
  group is the URL so far.

The theorem `mapper_dispatch_consistent` composes these local facts over any depth.
-/
namespace Cppcms.C20
open Cppcms

/-- `o`'s first taking option for `u` is the mount of `child`, handing it `uChild`; nothing declined before -/
def stepOk (rx : Rx) (req : Option Bytes) (o child : Opts) (u uChild : Bytes) : Bool :=
  match o.level.find? (Spec.takes rx req u) with
  | some (.mount re sel c) =>
    c == child &&
    (match Spec.whole rx re u with
     | some raw => Spec.groupStr u raw sel == uChild
     | none => false) &&
    ((o.level.takeWhile fun e => !Spec.takes rx req u e).filterMap (Spec.declined rx req u)).isEmpty
  | _ => false

def consistentUp (rx : Rx) (req : Option Bytes) (helpers overrides : List (Bytes × Bytes)) :
    List (MNode × Bytes) → List Opts → Opts → Bytes → Bool
  | [], [], _, _ => true
  | (n, name) :: up, o :: os, child, uChild =>
    match getEntry n name 1 with
    | .ok (t, _) =>
      match writeTpl t [uChild] helpers overrides with
      | .ok u => stepOk rx req o child u uChild && consistentUp rx req helpers overrides up os o u
      | .error _ => false
    | .error _ => false
  | _, _, _, _ => false

/-- `args` = what the handler is expected to receive -/
def Consistent (rx : Rx) (req : Option Bytes) (ctx : MCtx) (overrides : List (Bytes × Bytes)) (p : MPos) (cur : Opts) (ancestors : List Opts)
    (key : Bytes) (params : List Bytes) (id : Nat) (args : List (Option Bytes)) : Bool :=
  match getEntry p.cur key params.length with
  | .ok (t, _) =>
    match writeTpl t params ctx.helpers overrides with
    | .ok u =>
      Spec.route rx req (cur.depth + 1) cur u == (true, [.ran id args]) &&
      consistentUp rx req ctx.helpers overrides p.up ancestors cur u
    | .error _ => false
  | .error _ => false

/-- the outermost application of the chain -/
def rootOf (cur : Opts) (ancestors : List Opts) : Opts := (cur :: ancestors).getLast (by simp)

end Cppcms.C20
