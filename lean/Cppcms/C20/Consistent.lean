import Cppcms.C20.Model
import Cppcms.C20.Spec
/-!
# C20 — `Consistent`: the decidable well-formedness under which URL generation and routing agree

A site is a chain of applications `cur, anc₀, anc₁, …, root` (dispatcher side: their option vectors;
mapper side: a position `MPos` whose `up` chain names the entry of each ancestor under which the
next application is mounted).  `Consistent` checks, **level by level and only locally**:

* innermost: the template of `key` instantiated with the parameters (and keyword parameters) is
  taken by some option of `cur`;
* every ancestor: its mount template (which may itself contain keyword placeholders) wrapped around
  the URL so far is taken first by the `mounted` option of the next application, whose selected
  group is the URL so far;
* the events observed on the way down (declining generic handlers, then the handler) are `expected`.

The theorem `mapper_dispatch_consistent` composes these local facts over any depth.
-/
namespace Cppcms.C20
open Cppcms

/-- what generic handlers that ran and declined before the first taking option of `o` observed -/
def stepBefore (rx : Rx) (req : Option Bytes) (o : Opts) (u : Bytes) : List Event :=
  (o.level.takeWhile fun e => !Spec.takes rx req u e).filterMap (Spec.declined rx req u)

/-- `o`'s first taking option for `u` is the mount of `child`, handing it `uChild` -/
def stepOk (rx : Rx) (req : Option Bytes) (o child : Opts) (u uChild : Bytes) : Bool :=
  match o.level.find? (Spec.takes rx req u) with
  | some (.mount re sel c) =>
    c == child &&
    (match Spec.whole rx re u with
     | some raw => Spec.groupStr u raw sel == uChild
     | none => false)
  | _ => false

/-- walk up the ancestors: `evs` = what has been observed from `child` downwards when it is given `uChild` -/
def consistentUp (rx : Rx) (req : Option Bytes) (helpers overrides : List (Bytes × Bytes)) (expected : List Event) :
    List (MNode × Bytes) → List Opts → Opts → Bytes → List Event → Bool
  | [], [], _, _, evs => evs == expected
  | (n, name) :: up, o :: os, child, uChild, evs =>
    match getEntry n name 1 with
    | .ok (t, _) =>
      match writeTpl t [uChild] helpers overrides with
      | .ok u => stepOk rx req o child u uChild &&
                 consistentUp rx req helpers overrides expected up os o u (stepBefore rx req o u ++ evs)
      | .error _ => false
    | .error _ => false
  | _, _, _, _, _ => false

/-- `expected` = everything the handlers are expected to observe when the mapped URL is routed from the
root: normally `[.ran id args]`; declining generic handlers on the way (e.g. observers placed in front of
a mount, which see the groups of the ancestor's pattern) contribute their `.rejected` events in order. -/
def Consistent (rx : Rx) (req : Option Bytes) (ctx : MCtx) (overrides : List (Bytes × Bytes)) (p : MPos) (cur : Opts) (ancestors : List Opts)
    (key : Bytes) (params : List Bytes) (expected : List Event) : Bool :=
  match getEntry p.cur key params.length with
  | .ok (t, _) =>
    match writeTpl t params ctx.helpers overrides with
    | .ok u =>
      let r := Spec.route rx req (cur.depth + 1) cur u
      r.1 && consistentUp rx req ctx.helpers overrides expected p.up ancestors cur u r.2
    | .error _ => false
  | .error _ => false

/-- the outermost application of the chain -/
def rootOf (cur : Opts) (ancestors : List Opts) : Opts := (cur :: ancestors).getLast (by simp)

end Cppcms.C20
