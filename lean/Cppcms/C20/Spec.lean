import Cppcms.C20.Basic
/-!
# C20 — what routing is supposed to do (independent of `Model.lean` and of the source)

"A request is routed to the first mount point and then the first handler, in registration order,
whose host/script/path patterns and HTTP method match the **entire** respective string, with exactly
the captured groups as arguments, and to none (404) when nothing matches."

Written with `List.find?` over the option vector and a whole-string match predicate on the raw
engine answers; nothing here knows about C strings, `ovector` sizes or the order of tests inside
`mount_point::match`.  The judge evaluates these definitions on the implementation's outputs.
-/
namespace Cppcms.C20.Spec
open Cppcms Cppcms.C20

/-- the engine matched and the match is the entire subject -/
def whole (rx : Rx) (r : Regex) (s : Bytes) : Option Raw :=
  match rx.exec r.pat r.flags s with
  | none => none
  | some raw => if raw.1 = ((0 : Int), (s.length : Int)) then some raw else none

/-- capture group `n` of a match on `s` (`none`: did not participate / does not exist) -/
def group (s : Bytes) (raw : Raw) (n : Int) : Option Bytes :=
  if n < 0 then none
  else match (raw.1 :: raw.2)[n.toNat]? with
    | none => none
    | some sp => if sp.1 = -1 then none else some (sub s sp.1 sp.2)

def groupStr (s : Bytes) (raw : Raw) (n : Int) : Bytes := (group s raw n).getD []

/-- groups `0 .. mark_count` -/
def groups (rx : Rx) (r : Regex) (s : Bytes) (raw : Raw) : List (Option Bytes) :=
  (List.range ((rx.info r.pat r.flags).getD 0 + 1)).map fun (i : Nat) => group s raw (Int.ofNat i)

def upperAZ (c : UInt8) : Bool := 65 ≤ c.toNat && c.toNat ≤ 90

/-- method filter: absent, a literal (all `A-Z`) equal to the request method, or a regex matching all of it -/
def methodOk (rx : Rx) (filter req : Option Bytes) : Bool :=
  match filter, req with
  | none, _ => true
  | some _, none => false
  | some m, some r => if m.all upperAZ then m == r else (whole rx ⟨m, {}⟩ r).isSome

/-! ### what a typed parameter is supposed to be

An integer parameter is a decimal numeral: optional leading white space, one optional sign, at least one digit and
nothing else, whose value lies in the range of the type (for unsigned types a minus sign negates modulo `2^bits`,
as `strtoul` does, and the magnitude must fit). -/

def isSpace (c : UInt8) : Bool := c == 32 || (9 ≤ c.toNat && c.toNat ≤ 13)
def isDigit (c : UInt8) : Bool := 48 ≤ c.toNat && c.toNat ≤ 57
def digitsValue (ds : Bytes) : Nat := ds.foldl (fun a c => a * 10 + (c.toNat - 48)) 0

def numeral (signed : Bool) (bits : Nat) (s : Bytes) : Option Int :=
  let s := s.dropWhile isSpace
  let neg := s.head? == some 45
  let ds := if s.head? == some 45 || s.head? == some 43 then s.drop 1 else s
  if ds.isEmpty || !ds.all isDigit then none
  else
    let v := digitsValue ds
    if signed then
      (if neg then (if v ≤ 2 ^ (bits - 1) then some (-(v : Int)) else none)
       else (if v ≤ 2 ^ (bits - 1) - 1 then some (v : Int) else none))
    else if v ≤ 2 ^ bits - 1 then some (if neg then (((2 ^ bits - v) % 2 ^ bits : Nat) : Int) else (v : Int))
    else none

def decInt (v : Int) : Bytes :=
  let ds := (Nat.toDigits 10 v.natAbs).map fun c => UInt8.ofNat c.toNat
  if v < 0 then 45 :: ds else ds

/-- a captured group as a parameter of type `t`: it must be valid text, and for integer types a numeral in range -/
def convert (rx : Rx) (t : PType) (s : Bytes) : Option Bytes :=
  if rx.valid s then
    match t with
    | .str => some s
    | .i32 => (numeral true 32 s).map decInt
    | .u32 => (numeral false 32 s).map decInt
    | .i64 => (numeral true 64 s).map decInt
    | .u64 => (numeral false 64 s).map decInt
  else none

/-- Does handler `l` apply to `url`, and if so what does it observe and does it accept?
Generic handlers exist only for applications with a request context. -/
def leafTry (rx : Rx) (req : Option Bytes) (l : Leaf) (url : Bytes) : Option (Bool × Event) :=
  match l.kind with
  | .gen rej =>
    if req.isSome && methodOk rx l.meth req then
      (whole rx l.re url).map fun raw =>
        let args := groups rx l.re url raw
        match rej with
        | some (g, v) => if groupStr url raw g == v then (false, .rejected l.id args) else (true, .ran l.id args)
        | none => (true, .ran l.id args)
    else none
  | .typed ps =>
    -- applies only if the pattern matches the whole URL AND every selected group converts to its parameter type
    if req.isSome && methodOk rx l.meth req then
      (whole rx l.re url).bind fun raw =>
        (ps.mapM fun gt => (convert rx gt.2 (groupStr url raw gt.1)).map some).map fun vals => (true, .ran l.id vals)
    else none
  | .h0 => (whole rx l.re url).map fun _ => (true, .ran l.id [])
  | .hN sel => (whole rx l.re url).map fun raw => (true, .ran l.id (sel.map fun n => some (groupStr url raw n)))
  | .rh => (whole rx l.re url).map fun raw => (true, .ran l.id (groups rx l.re url raw))

/-- the option takes the request (so the scan stops at it) -/
def takes (rx : Rx) (req : Option Bytes) (url : Bytes) : Entry → Bool
  | .leaf l => match leafTry rx req l url with | some (true, _) => true | _ => false
  | .mount re _ _ => (whole rx re url).isSome

/-- a generic handler that ran and declined -/
def declined (rx : Rx) (req : Option Bytes) (url : Bytes) : Entry → Option Event
  | .leaf l => match leafTry rx req l url with | some (false, ev) => some ev | _ => none
  | .mount _ _ _ => none

/-- Routing inside an application tree: the first option (registration order) that takes the
request; a mounted application is entered with the selected group as its URL, and answers 404
itself when none of its options takes it.  `fuel` bounds the nesting depth only. -/
def route (rx : Rx) (req : Option Bytes) : Nat → Opts → Bytes → Bool × List Event
  | 0, _, _ => (false, [])
  | fuel + 1, o, url =>
    let es := o.level
    let before := (es.takeWhile fun e => !takes rx req url e).filterMap (declined rx req url)
    match es.find? (takes rx req url) with
    | none => (false, before)
    | some (.leaf l) =>
      (true, before ++ match leafTry rx req l url with | some (_, ev) => [ev] | none => [])
    | some (.mount re sel child) =>
      match whole rx re url with
      | none => (true, before)
      | some raw =>
        let r := route rx req fuel child (groupStr url raw sel)
        (true, before ++ r.2 ++ if r.1 then [] else [.notFound])

/-- The routing relation, stated without any scan: handler `id` is reached with `args` from `(o, url)`
iff a chain of mounted applications, each the **first** option of its level that takes the URL it is
given, leads (through the selected groups) to an application whose **first** taking option is that
handler. -/
inductive Reaches (rx : Rx) (req : Option Bytes) : Opts → Bytes → Nat → List (Option Bytes) → Prop where
  | atHandler {o : Opts} {url : Bytes} {l : Leaf} {args : List (Option Bytes)} :
      o.level.find? (takes rx req url) = some (.leaf l) →
      leafTry rx req l url = some (true, .ran l.id args) →
      Reaches rx req o url l.id args
  | through {o : Opts} {url : Bytes} {re : Regex} {sel : Int} {child : Opts} {raw : Raw} {id : Nat} {args : List (Option Bytes)} :
      o.level.find? (takes rx req url) = some (.mount re sel child) →
      whole rx re url = some raw →
      Reaches rx req child (groupStr url raw sel) id args →
      Reaches rx req o url id args

def _root_.Cppcms.C20.Event.args : Event → List (Option Bytes)
  | .ran _ a => a
  | .rejected _ a => a
  | .notFound => []

/-- `x` is a contiguous piece of `url`, or (typed handlers) the value that such a piece converts to -/
def ArgOf (rx : Rx) (url x : Bytes) : Prop :=
  ∃ s, s <:+: url ∧ (x = s ∨ ∃ t, convert rx t s = some x)

/-- `application::main` on the root -/
def main (rx : Rx) (req : Option Bytes) (o : Opts) (url : Bytes) : List Event :=
  let r := route rx req (o.depth + 1) o url
  if r.1 then r.2 else r.2 ++ [.notFound]

/-- a mount point accepts iff every configured pattern matches its whole string; the result is the
selected string, or group `group` of it -/
def mpMatch (rx : Rx) (mp : MountPoint) (h s p : Bytes) : Option Bytes :=
  let ok (r : Option Regex) (x : Bytes) : Bool := match r with | none => true | some r => (whole rx r x).isSome
  if ok mp.host h && ok mp.script s && ok mp.path p then
    let selRe := if mp.selPath then mp.path else mp.script
    let selStr := if mp.selPath then p else s
    match selRe with
    | none => some selStr
    | some r =>
      if mp.group = 0 then some selStr
      else (whole rx r selStr).map fun raw => groupStr selStr raw mp.group
  else none

/-- first mount point, in mount order, that accepts -/
def poolFind (rx : Rx) (mps : List MountPoint) (h s p : Bytes) : Option (Nat × Bytes) :=
  mps.zipIdx.findSome? fun (mp, i) => (mpMatch rx mp h s p).map fun m => (i, m)

def poolRoute (rx : Rx) (apps : List (MountPoint × Opts)) (meth h s p : Bytes) : Option (Nat × List Event) :=
  (poolFind rx (apps.map (·.1)) h s p).map fun (i, m) =>
    (i, main rx (some meth) ((apps[i]?.map (·.2)).getD .nil) m)

/-- The order in which mounted applications are considered: pools and factories in their mount order, **then**
the classic asynchronous applications (mounted as `intrusive_ptr`) in their mount order, those that have died
left out.  Entries are `(legacyAsync, mount point)`, numbered by overall mount order. -/
def scanOrder (ms : List (Bool × MountPoint)) (dead : List Nat) : List (Nat × MountPoint) :=
  (ms.zipIdx.filterMap fun (am, i) => if am.1 == false then some (i, am.2) else none) ++
  ((ms.zipIdx.filterMap fun (am, i) => if am.1 == true then some (i, am.2) else none).filter fun im => !dead.contains im.1)

/-- first mount point in `scanOrder` that accepts -/
def poolFindAll (rx : Rx) (ms : List (Bool × MountPoint)) (dead : List Nat) (h s p : Bytes) : Option (Nat × Bytes) :=
  (scanOrder ms dead).findSome? fun im => (mpMatch rx im.2 h s p).map fun m => (im.1, m)

def poolKill (rx : Rx) (ms : List (Bool × MountPoint)) (h s p : Bytes) : Nat → List Nat → List Nat
  | 0, dead => dead
  | r + 1, dead =>
    match poolFindAll rx ms dead h s p with
    | some (i, _) => if (ms[i]?.map (·.1)).getD false then poolKill rx ms h s p r (i :: dead) else dead
    | none => dead

def poolRouteAll (rx : Rx) (apps : List (Bool × MountPoint × Opts)) (rounds : Nat) (meth h s p : Bytes) :
    Option (Nat × Bytes × List Event) :=
  let ms := apps.map fun a => (a.1, a.2.1)
  (poolFindAll rx ms (poolKill rx ms h s p rounds []) h s p).map fun (i, m) =>
    (i, m, main rx (some meth) ((apps[i]?.map (·.2.2)).getD .nil) m)

end Cppcms.C20.Spec
