import Cppcms.Common
import Cppcms.C20.Model
import Cppcms.C20.Spec
import Cppcms.C20.Consistent
/-! Line-protocol driver for C20 (see `harness/c20.cpp` for the case grammar).
Ordinary lines evaluate the model (with the quirks of the current source, `Gen.quirks`) on the raw
engine answers shipped on the case line; `J <case> # <impl output>` lines evaluate the specification
(`Spec.lean`) on the same answers and compare with what the implementation printed. -/
open Cppcms Cppcms.C20

/-- the application tree as written on the case line -/
inductive Items where
  | nil
  | L (l : Leaf) (rest : Items)
  | U (key tpl : Bytes) (rest : Items)
  | C (re : Option Regex) (sel : Int) (name : Option Bytes) (tpl : Bytes) (child : Items) (rest : Items)

def parseRe (w : String) : Option (Option Regex) :=
  if w == "_" then some none
  else match w.toList with
    | 'r' :: h => (parseHex (String.ofList h)).map fun p => some ⟨p, {}⟩
    | 'i' :: h => (parseHex (String.ofList h)).map fun p => some ⟨p, { icase := true }⟩
    | 'u' :: h => (parseHex (String.ofList h)).map fun p => some ⟨p, { utf8 := true }⟩
    | 'v' :: h => (parseHex (String.ofList h)).map fun p => some ⟨p, { icase := true, utf8 := true }⟩
    | _ => none

def parseInt (w : String) : Option Int := w.toInt?

def parseSel (w : String) : Option (List Int) := (w.splitOn ",").mapM parseInt

def parsePType (w : String) : Option PType :=
  if w == "s" then some .str else if w == "i" then some .i32 else if w == "u" then some .u32
  else if w == "l" then some .i64 else if w == "q" then some .u64 else none

def parseTyped (w : String) : Option (List (Int × PType)) :=
  (w.splitOn ",").mapM fun p => match p.splitOn "." with
    | [g, t] => match parseInt g, parsePType t with
      | some g, some t => some (g, t)
      | _, _ => none
    | _ => none

def parseKind (w : String) : Option Kind :=
  if w == "h0" then some .h0
  else if w == "t" then some (.typed [])
  else if w == "rh" then some .rh
  else if w == "g" then some (.gen none)
  else match w.splitOn ":" with
    | ["hN", s] => (parseSel s).map .hN
    | ["t", s] => (parseTyped s).map .typed
    | ["g", g, v] => match parseInt g, parseHex v with
      | some g, some v => some (.gen (some (g, v)))
      | _, _ => none
    | _ => none

def parseOptHex (w : String) : Option (Option Bytes) :=
  if w == "_" then some none else (parseHex w).map some

/-- items up to the closing brace; `fuel` ≥ number of words -/
def parseItems : Nat → List String → Option (Items × List String)
  | 0, _ => none
  | _ + 1, "}" :: ws => some (.nil, ws)
  -- "W": this application generates a URL during its construction (before it is mounted): no effect on the tree
  | fuel + 1, "W" :: ws => parseItems fuel ws
  | fuel + 1, "L" :: id :: re :: meth :: kind :: ws =>
    match id.toNat?, parseRe re, parseOptHex meth, parseKind kind with
    | some id, some (some re), some meth, some kind =>
      (parseItems fuel ws).map fun (rest, ws') => (.L ⟨id, re, meth, kind⟩ rest, ws')
    | _, _, _, _ => none
  | fuel + 1, "U" :: key :: tpl :: ws =>
    match parseHex key, parseHex tpl with
    | some key, some tpl => (parseItems fuel ws).map fun (rest, ws') => (.U key tpl rest, ws')
    | _, _ => none
  | fuel + 1, "C" :: re :: sel :: name :: tpl :: "{" :: ws =>
    match parseRe re, parseInt sel, parseOptHex name, parseHex tpl with
    | some re, some sel, some name, some tpl =>
      match parseItems fuel ws with
      | some (child, ws') => (parseItems fuel ws').map fun (rest, ws'') => (.C re sel name tpl child rest, ws'')
      | none => none
    | _, _, _, _ => none
  | _, _ => none

/-- "CA": the child is given to its parent with `application::add(…)` instead of `attach(…)`: same routing -/
def parseTree (ws : List String) : Option Items :=
  match ws.map (fun w => if w == "CA" then "C" else w) with
  | "{" :: ws => match parseItems (ws.length + 1) ws with
    | some (t, []) => some t
    | _ => none
  | _ => none

def Items.opts : Items → Opts
  | .nil => .nil
  | .L l rest => .leaf l rest.opts
  | .U _ _ rest => rest.opts
  | .C (some re) sel _ _ child rest => .mount re sel child.opts rest.opts
  | .C none _ _ _ _ rest => rest.opts

/-- the mapper registrations in construction order (`acc` = `by_key` so far); `none`: some call threw -/
def Items.mnode (acc : MNode) : Items → Option MNode
  | .nil => some acc
  | .L _ rest => rest.mnode acc
  | .U key tpl rest =>
    let r := if key.isEmpty then parseTpl tpl false else assignChecked key tpl
    match r with
    | .error _ => none
    | .ok (t, ar) => match acc.assignUrl key ar t with
      | .error _ => none
      | .ok acc' => rest.mnode acc'
  | .C _ _ none _ child rest =>
    match child.mnode .nil with
    | none => none
    | some _ => rest.mnode acc
  | .C _ _ (some name) tpl child rest =>
    match child.mnode .nil with
    | none => none
    | some c => match parseTpl tpl true with
      | .error _ => none
      | .ok (t, _) => match acc.mountApp name t c with
        | .error _ => none
        | .ok acc' => rest.mnode acc'

/-- every `booster::regex` the constructors build (handlers, method filters, mounts) -/
def Items.regexes : Items → List Regex
  | .nil => []
  | .L l rest => l.re :: (match l.meth with | some m => [⟨m, {}⟩] | none => []) ++ rest.regexes
  | .U _ _ rest => rest.regexes
  | .C re _ _ _ child rest => (match re with | some r => [r] | none => []) ++ child.regexes ++ rest.regexes

/-- name of the `i`-th child application and its items -/
def Items.kid : Items → Nat → Option (Option Bytes × Items)
  | .nil, _ => none
  | .L _ rest, i => rest.kid i
  | .U _ _ rest, i => rest.kid i
  | .C _ _ name _ child rest, i => if i = 0 then some (name, child) else rest.kid (i - 1)

/-- descend from the root mapper along child indexes -/
def descend (items : Items) (p : MPos) : List Nat → Option MPos
  | [] => some p
  | i :: is =>
    match items.kid i with
    | some (some name, child) =>
      match p.child name with
      | .ok p' => descend child p' is
      | .error _ => none
    | _ => none

/-- the child application mounted in the mapper under `name` -/
def Items.byName : Items → Bytes → Option Items
  | .nil, _ => none
  | .L _ rest, n => rest.byName n
  | .U _ _ rest, n => rest.byName n
  | .C _ _ name _ child rest, n => if name == some n then some child else rest.byName n

/-- option vectors along a path of mapper names from the root: innermost first -/
def optsChain (items : Items) : List Bytes → List Opts → Option (List Opts)
  | [], acc => some (items.opts :: acc)
  | n :: ns, acc =>
    match items.byName n with
    | some child => optsChain child ns (items.opts :: acc)
    | none => none

/-! ### the oracle table -/

structure Oracle where
  infos : List (String × Option Nat) := []
  execs : List (String × String × Option Raw) := []
  valids : List (String × Bool) := []

def parseSpan (w : String) : Option Span :=
  match w.splitOn "." with
  | [a, b] => match a.toInt?, b.toInt? with
    | some a, some b => some (a, b)
    | _, _ => none
  | _ => none

def parseRaw (w : String) : Option (Option Raw) :=
  if w == "n" then some none
  else match (w.splitOn ",").mapM parseSpan with
    | some (sp :: gs) => some (some (sp, gs))
    | _ => none

def parseOracle : List String → Oracle → Option Oracle
  | [], o => some o
  | "I" :: t :: c :: ws, o =>
    if c == "x" then parseOracle ws { o with infos := (t, none) :: o.infos }
    else match c.toNat? with
      | some n => parseOracle ws { o with infos := (t, some n) :: o.infos }
      | none => none
  | "V" :: s :: b :: ws, o => parseOracle ws { o with valids := (s, b == "1") :: o.valids }
  | "O" :: t :: s :: r :: ws, o =>
    match parseRaw r with
    | some r => parseOracle ws { o with execs := (t, s, r) :: o.execs }
    | none => none
  | _, _ => none

def reTok (pat : Bytes) (f : RFlags) : String :=
  (match f.icase, f.utf8 with | false, false => "r" | true, false => "i" | false, true => "u" | true, true => "v") ++ toHex pat

/-- the engine, as recorded from libpcre by the harness for this case (unknown question = no match) -/
def Oracle.rx (o : Oracle) : Rx where
  info pat ic := match o.infos.find? (·.1 == reTok pat ic) with
    | some (_, r) => r
    | none => none
  exec pat ic s :=
    let t := reTok pat ic
    let h := toHex s
    match o.execs.find? (fun e => e.1 == t && e.2.1 == h) with
    | some (_, _, r) => r
    | none => none
  valid s := match o.valids.find? (·.1 == toHex s) with
    | some (_, b) => b
    | none => true

/-! ### printing -/

def optHex : Option Bytes → String
  | none => "~"
  | some b => toHex b

def argsStr (a : List (Option Bytes)) : String := ",".intercalate (a.map optHex)

def evStr : Event → String
  | .ran id a => s!"R{id}:{argsStr a}"
  | .rejected id a => s!"X{id}:{argsStr a}"
  | .notFound => "NF"

def evsStr (e : List Event) : String := if e.isEmpty then "-" else ";".intercalate (e.map evStr)

def sections (ws : List String) : List (List String) :=
  ws.foldr (fun w acc => if w == "|" then [] :: acc else match acc with
    | [] => [[w]]
    | h :: t => (w :: h) :: t) [[]]

def mapErrStr : MapErr → String
  | .keyNotFound => "keyNotFound" | .badArity => "badArity" | .notChild => "notChild"
  | .indexRange => "indexRange" | .noParent => "noParent" | .tooManyKeywords => "tooManyKeywords"

def tplErrStr : TplErr → String
  | .emptyIndex => "emptyIndex" | .zeroIndex => "zeroIndex" | .unclosed => "unclosed" | .strayClose => "strayClose"
  | .appArity => "appArity" | .badKey => "badKey" | .sharedKey => "sharedKey"

def mapStr : Except MapErr Bytes → String
  | .ok u => "ok:" ++ toHex u
  | .error e => "err:" ++ mapErrStr e

def regexesOk (rx : Rx) (rs : List Regex) : Bool := rs.all fun r => (rx.info r.pat r.flags).isSome

def parseMp (ws : List String) : Option (MountPoint × List String) :=
  match ws with
  | h :: s :: p :: g :: sel :: rest =>
    match parseRe h, parseRe s, parseRe p, parseInt g with
    | some h, some s, some p, some g => some (⟨h, s, p, g, sel == "1"⟩, rest)
    | _, _, _, _ => none
  | _ => none

def mpRegexes (mp : MountPoint) : List Regex := mp.host.toList ++ mp.script.toList ++ mp.path.toList

def parseKV : Nat → List String → Option (List (Bytes × Bytes) × List String)
  | 0, ws => some ([], ws)
  | n + 1, k :: v :: ws => match parseHex k, parseHex v, parseKV n ws with
    | some k, some v, some (kv, ws') => some ((k, v) :: kv, ws')
    | _, _, _ => none
  | _, _ => none

def parsePos (w : String) : Option (List Nat) :=
  if w == "-" then some [] else (w.splitOn ".").mapM String.toNat?

def mpOut (r : Option Bytes) : String :=
  match r with
  | some m => "1:" ++ toHex m
  | none => "0:-"

def markers : List Bytes := [[60, 49, 62], [60, 50, 62], [60, 51, 62], [60, 52, 62], [60, 53, 62], [60, 54, 62]]

/-- `spec = true`: answer from `Spec.lean`; otherwise from the model with the current source's quirks -/
def evalCase (spec : Bool) (ws : List String) : String :=
  let q := Gen.quirks
  match sections ws with
  | ["D", meth, url] :: tree :: rest =>
    match parseOptHex meth, parseHex url, parseTree tree, parseOracle (rest.headD []) {} with
    | some req, some url, some items, some o =>
      let rx := o.rx
      if !regexesOk rx items.regexes then "cfg-error"
      else
        let r := if spec then Spec.route rx req (items.opts.depth + 1) items.opts url else dispatch rx q req items.opts url
        if req.isNone && r.2.contains .notFound then "exc " ++ evsStr (r.2.filter (· != .notFound))
        else boolStr r.1 ++ " " ++ evsStr r.2
    | _, _, _, _ => "bad-op"
  | ("MP" :: ws) :: _ :: rest =>
    match parseMp ws, parseOracle (rest.headD []) {} with
    | some (mp, [h, s, p]), some o =>
      match parseHex h, parseHex s, parseHex p with
      | some h, some s, some p =>
        let rx := o.rx
        if !regexesOk rx (mpRegexes mp) then "cfg-error"
        else if spec then
          -- the `char const *` overload is by type a statement about the C strings
          "S:" ++ mpOut (Spec.mpMatch rx mp h s p) ++ " C:" ++ mpOut (Spec.mpMatch rx mp (cstr h) (cstr s) (cstr p))
        else "S:" ++ mpOut (mpMatchStr rx q mp h s p) ++ " C:" ++ mpOut (mpMatchPtr rx q mp h s p)
      | _, _, _ => "bad-op"
    | _, _ => "bad-op"
  | ["P", meth, h, s, p, k, rounds] :: rest =>
    match parseHex meth, parseHex h, parseHex s, parseHex p, k.toNat?, rounds.toNat? with
    | some meth, some h, some s, some p, some k, some rounds =>
      let apps := (rest.take k).mapM fun sec => match sec with
        | kind :: sec' => match parseMp sec' with
          | some (mp, tree) => (parseTree tree).bind fun t =>
              if kind == "A" then some (true, mp, t) else if kind == "S" then some (false, mp, t) else none
          | none => none
        | [] => none
      match apps, parseOracle ((rest.drop k).headD []) {} with
      | some apps, some o =>
        let rx := o.rx
        if !regexesOk rx (apps.flatMap fun a => mpRegexes a.2.1 ++ a.2.2.regexes) then "cfg-error"
        else
          let cfg := apps.map fun a => (a.1, a.2.1, a.2.2.opts)
          let r := if spec then Spec.poolRouteAll rx cfg rounds meth (cstr h) (cstr s) (cstr p)
                   else poolRouteAll rx q cfg rounds meth h s p
          match r with
          | none => "none"
          | some (i, m, evs) => s!"{i} {toHex m} {evsStr evs}"
      | _, _ => "bad-op"
    | _, _, _, _, _, _ => "bad-op"
  | ("T" :: isapp :: key :: tpl :: nh :: kvs) :: _ =>
    match parseHex key, parseHex tpl, nh.toNat? with
    | some key, some tpl, some nh =>
      match parseKV nh kvs with
      | some (helpers, []) =>
        let ctx : MCtx := { root := [], helpers := helpers.reverse }
        let node : Except TplErr MNode :=
          if isapp == "1" then
            match parseTpl tpl true with
            | .error e => .error e
            | .ok (t, _) => MNode.nil.mountApp key t (.url [] 0 ⟨[[67, 72]], [], []⟩ .nil)
          else match assignChecked key tpl with
            | .error e => .error e
            | .ok (t, ar) => MNode.nil.assignUrl key ar t
        match node with
        | .error e => "err:" ++ tplErrStr e
        | .ok n => "ok " ++ " ".intercalate ((List.range 7).map fun k => mapStr (mapUrl ctx ⟨n, []⟩ key (markers.take k)))
      | _ => "bad-op"
    | _, _, _ => "bad-op"
  | (kind :: ws) :: tree :: rest =>
    -- "Un"/"Rn": the same with misc.invalid_url_throws = false (the default configuration of cppcms)
    let nt := kind == "Un" || kind == "Rn"
    let kind := if kind == "Un" then "U" else if kind == "Rn" then "R" else kind
    if kind != "U" && kind != "R" then "bad-op"
    else
      let (meth, ws) := if kind == "R" then (ws.head?.bind parseHex, ws.drop 1) else (some [], ws)
      match meth, ws with
      | some meth, root :: nh :: ws =>
        match parseHex root, nh.toNat? with
        | some root, some nh =>
          match parseKV nh ws with
          | some (helpers, pos :: key :: np :: params) =>
            match parsePos pos, parseHex key, np.toNat?, params.mapM parseHex, parseTree tree, parseOracle (rest.headD []) {} with
            | some pos, some key, some np, some params, some items, some o =>
              let rx := o.rx
              if np != params.length then "bad-op"
              else if kind == "R" && !regexesOk rx items.regexes then "cfg-error"
              else match items.mnode .nil with
                | none => "cfg-error"
                | some n =>
                  match descend items ⟨n, []⟩ pos with
                  | none => "bad-op"
                  | some p =>
                    let ctx : MCtx := { root := root, helpers := helpers.reverse }
                    let m : Except MapErr Bytes := if nt then .ok (mapUrlNT ctx p key params) else mapUrl ctx p key params
                    if kind == "U" then mapStr m
                    else match m with
                      | .error _ => mapStr m
                      | .ok full =>
                        if root.isPrefixOf full then
                          let url := full.drop root.length
                          let evs := if spec then Spec.main rx (some meth) items.opts url else appMain rx q (some meth) items.opts url
                          mapStr m ++ " " ++ evsStr evs
                        else mapStr m
            | _, _, _, _, _, _ => "bad-op"
          | _ => "bad-op"
        | _, _ => "bad-op"
      | _, _ => "bad-op"
  | _ => "bad-op"

/-- expected events on a `JR` line: `<nev> { R|X <id> <nargs> <hex|~>… }` -/
def parseEvents : Nat → List String → Option (List Event × List String)
  | 0, ws => some ([], ws)
  | n + 1, tag :: id :: na :: ws =>
    match id.toNat?, na.toNat? with
    | some id, some na =>
      let args := (ws.take na).mapM fun w => if w == "~" then some none else (parseHex w).map some
      match args, parseEvents n (ws.drop na) with
      | some args, some (evs, rest) =>
        if tag == "R" then some (.ran id args :: evs, rest)
        else if tag == "X" then some (.rejected id args :: evs, rest)
        else none
      | _, _ => none
    | _, _ => none
  | _, _ => none

/-- `JR <expected events> <R case> # <impl output>`: if the site is `Consistent` for this key, these parameters and
these expected observations (the hypothesis of `mapper_dispatch_consistent`, evaluated on the recorded engine
answers), the implementation must have produced `root ++ u` and made the handlers observe exactly them.
Answers `1 c` (consistent, implementation agrees), `1 n` (not consistent: nothing claimed), `0 c` (violation). -/
def judgeR (expected : List Event) (ws : List String) (impl : String) : String :=
  match sections ws with
  | (rkind :: meth :: root :: nh :: ws) :: tree :: rest =>
    if rkind != "R" && rkind != "Rn" then "bad-op" else
    match parseHex meth, parseHex root, nh.toNat? with
    | some meth, some root, some nh =>
      match parseKV nh ws with
      | some (helpers, pos :: key :: np :: params) =>
        match parsePos pos, parseHex key, np.toNat?, params.mapM parseHex, parseTree tree, parseOracle (rest.headD []) {} with
        | some pos, some key, some _, some params, some items, some o =>
          let rx := o.rx
          match items.mnode .nil with
          | none => "1 n"
          | some n =>
            match descend items ⟨n, []⟩ pos with
            | none => "1 n"
            | some p =>
              let ctx : MCtx := { root := root, helpers := helpers.reverse }
              match mapperForKey p (cstr key) with
              | .ok (p', rk, kws) =>
                if params.length < kws.length then "1 n"
                else
                  let names := (p'.up.map (·.2)).reverse
                  match optsChain items names [] with
                  | some (cur :: anc) =>
                    let pos' := params.drop kws.length
                    let ov := mkOverrides kws (params.take kws.length)
                    if Consistent rx (some meth) ctx ov p' cur anc rk pos' expected then
                      match mapUrl ctx p key params with
                      | .ok full =>
                        -- in the default configuration the URL goes through `c_str()`: claim only for NUL-free URLs
                        if rkind == "Rn" && full.contains 0 then "1 n"
                        else
                          let expect := "ok:" ++ toHex full ++ " " ++ evsStr expected
                          if impl == expect then "1 c" else "0 c"
                      | .error _ => "0 c"
                    else "1 n"
                  | _ => "1 n"
              | .error _ => "1 n"
        | _, _, _, _, _, _ => "bad-op"
      | _ => "bad-op"
    | _, _, _ => "bad-op"
  | _ => "bad-op"

def step (_ : Unit) (line : String) : Unit × String :=
  let ws := words line
  let r : String :=
    match ws with
    | "JR" :: n :: rest =>
      match n.toNat? with
      | some n =>
        match parseEvents n rest with
        | some (expected, rest') =>
          let caseWs := rest'.takeWhile (· != "#")
          let impl := " ".intercalate ((rest'.dropWhile (· != "#")).drop 1)
          judgeR expected caseWs impl
        | none => "bad-op"
      | none => "bad-op"
    | "J" :: rest =>
      let caseWs := rest.takeWhile (· != "#")
      let impl := " ".intercalate ((rest.dropWhile (· != "#")).drop 1)
      boolStr (evalCase true caseWs == impl)
    | _ => evalCase false ws
  ((), r)

def main : IO Unit := lineLoop () step
