import Cppcms.C20.Lemmas
import Cppcms.C20.LemmasMapper
import Cppcms.C20.LemmasTpl
import Cppcms.C20.Example
/-!
# C20 — property theorems

"For any set of mounted applications and handlers, a request is routed to the first mount point
and then the first handler, in registration order, whose host/script/path patterns and HTTP method
match the **entire** respective string — never a mere prefix or substring — with exactly the
captured groups as arguments, and to none (404) when nothing matches.  A URL produced by the URL
mapper for a key and parameters, when routed from the root application, reaches the handler
registered for that key with those same parameters, across any depth of nested applications."

All statements are about the model instantiated with `Gen.quirks`, i.e. with the facts the
translator extracted from the **current** source (`Gen.lean`): if `option::matches` goes back to
`path.c_str()`, or a `regex::match` overload loses its span test, or the anchored pattern changes,
`wrapper_pins_source` and everything built on it stop type-checking.

The regex engine is the parameter `rx : Rx` everywhere.  Theorems that say "whole string" need no
hypothesis on it (the wrapper's own span test does the work); theorems that talk about the
*contents* of groups assume `RxSound rx`.

History: with `Gen.pathCStr = true` (source before /repo commit 3937457) the statements below held
only for NUL-free paths; `d13_counterexample_before_fix` keeps the witness.
-/
namespace Cppcms.C20.Props
open Cppcms Cppcms.C20

/-! ## what the source says (regenerated each run) -/

/-- `regex::assign` compiles `"(?:" + pattern + ")\z"`; both `regex::match` overloads run it with
`PCRE_ANCHORED` at offset 0 and answer `false` unless the reported match is `[0, end-begin)`;
`option::matches` and `mount_point::match(std::string…)` pass ranges (not C strings); literal
methods are exactly the all-`A-Z` strings. -/
theorem wrapper_pins_source :
    Gen.anchoredPre = [40, 63, 58] ∧ Gen.anchoredPost = [41, 92, 122] ∧
    Gen.execAnchoredMarks = true ∧ Gen.execAnchoredNoMarks = true ∧
    Gen.quirks.Fixed ∧ MethodClassAZ := by
  refine ⟨by decide, by decide, by decide, by decide, ⟨rfl, rfl, ?_, ?_⟩, ?_⟩
  · intro a b n; simp [Gen.quirks, Gen.spanRejectMarks]
  · intro a b n; simp [Gen.quirks, Gen.spanRejectNoMarks]
  · intro c; simp [Gen.methodCharLiteral]

theorem gen_fixed : Gen.quirks.Fixed := wrapper_pins_source.2.2.2.2.1
theorem gen_method : MethodClassAZ := wrapper_pins_source.2.2.2.2.2

/-! ## whole string, never a prefix -/

/-- **For every engine**: when `booster::regex_match` answers true — with or without a `cmatch` —
the engine's reported match is exactly `[0, |s|)`.  An engine answer that covers only a prefix
(`(*ACCEPT)`, `\K`, a `$` before a trailing newline, …) is refused by the wrapper. -/
theorem full_match_only (rx : Rx) (r : Regex) (s : Bytes) :
    (∀ m, rxMatchMarks rx Gen.quirks r s = some m →
        ∃ gs, rx.exec r.pat r.flags s = some (((0 : Int), (s.length : Int)), gs) ∧ m.subj = s) ∧
    (rxMatch rx Gen.quirks r s = true →
        ∃ gs, rx.exec r.pat r.flags s = some (((0 : Int), (s.length : Int)), gs)) := by
  constructor
  · intro m hm
    rw [rxMatchMarks_eq rx gen_fixed] at hm
    simp only [Option.map_eq_some_iff] at hm
    obtain ⟨raw, hw, rfl⟩ := hm
    obtain ⟨he, h0⟩ := whole_eq_some.1 hw
    exact ⟨raw.2, by rw [he, ← h0], rfl⟩
  · intro hm
    rw [rxMatch_eq rx gen_fixed, Option.isSome_iff_exists] at hm
    obtain ⟨raw, hw⟩ := hm
    obtain ⟨he, h0⟩ := whole_eq_some.1 hw
    exact ⟨raw.2, by rw [he, ← h0]⟩

/-- `option::matches` succeeds iff the method filter holds and the engine matched the **entire**
path — for every engine, every path (embedded NULs and newlines included) and every method. -/
theorem matches_is_whole_path (rx : Rx) (re : Regex) (filter req : Option Bytes) (path : Bytes) :
    (optMatches rx Gen.quirks re filter req path).isSome =
      (Spec.methodOk rx filter req && (Spec.whole rx re path).isSome) := by
  rw [optMatches_eq rx gen_fixed gen_method]
  cases Spec.methodOk rx filter req <;> simp

/-- Under `RxSound`: the `cmatch` a handler receives is about the whole path, and its group `n`
(for every `n`, also negative or too large) is the engine's group `n`; a participating group with
reported span `(a,b)` is literally `path[a..b)`. -/
theorem groups_exact (rx : Rx) (hs : RxSound rx) (re : Regex) (filter req : Option Bytes) (path : Bytes) (m : CMatch)
    (h : optMatches rx Gen.quirks re filter req path = some m) :
    m.subj = path ∧ ∃ raw, Spec.whole rx re path = some raw ∧ (∀ n, m.get n = Spec.group path raw n) ∧
      ∀ (n : Nat) (a b : Int), (raw.1 :: raw.2)[n]? = some (a, b) → a ≠ -1 →
        ∃ pre post, path = pre ++ sub path a b ++ post ∧ (pre.length : Int) = a ∧ ((sub path a b).length : Int) = b - a := by
  rw [optMatches_eq rx gen_fixed gen_method] at h
  split at h
  · simp only [Option.map_eq_some_iff] at h
    obtain ⟨raw, hw, rfl⟩ := h
    refine ⟨rfl, raw, hw, fun n => cmatch_get_eq rx re path raw (arity_of_whole hs hw) n, ?_⟩
    intro n a b hn ha
    have hsp := hs.spans _ _ _ _ (whole_eq_some.1 hw).1
    have hok : spanOk path.length (a, b) := by
      cases n with
      | zero => simp at hn; rw [← hn]; exact hsp.1
      | succ k => simp at hn; exact hsp.2 _ (List.mem_of_getElem? hn)
    rcases hok with h1 | ⟨h0, hab, hbl⟩
    · simp at h1; exact absurd h1.1 ha
    · simp only at h0 hab hbl
      refine ⟨path.take a.toNat, path.drop b.toNat, ?_, ?_, ?_⟩
      · unfold sub
        have h1 : (path.drop a.toNat).take (b.toNat - a.toNat) ++ path.drop b.toNat = path.drop a.toNat := by
          have : path.drop b.toNat = (path.drop a.toNat).drop (b.toNat - a.toNat) := by
            rw [List.drop_drop]; congr 1; omega
          rw [this, List.take_append_drop]
        rw [List.append_assoc, h1, List.take_append_drop]
      · simp only [List.length_take]; omega
      · unfold sub; simp only [List.length_take, List.length_drop]; omega
  · cases h

/-! ## first match, in registration order -/

/-- `url_dispatcher::dispatch` = the **first** option, in registration order, whose
`option::dispatch` returns true; what was observed before it are only generic handlers that ran and
declined; if there is none the result is `false` (→ 404).  Any engine. -/
theorem dispatch_is_first_match (rx : Rx) (req : Option Bytes) (o : Opts) (url : Bytes) :
    dispatch rx Gen.quirks req o url =
      match o.level.find? (fun e => (entryAttempt rx Gen.quirks req url e).isFire) with
      | none => (false, o.level.filterMap fun e => (entryAttempt rx Gen.quirks req url e).rejectEv)
      | some e =>
        (true, ((o.level.takeWhile fun e => !(entryAttempt rx Gen.quirks req url e).isFire).filterMap
                  fun e => (entryAttempt rx Gen.quirks req url e).rejectEv)
               ++ (entryAttempt rx Gen.quirks req url e).fireEvs) := by
  rw [dispatch_eq_run, runAttempts_find]
  simp only [List.find?_map, List.takeWhile_map, List.filterMap_map, Function.comp_def]
  cases o.level.find? (fun e => (entryAttempt rx Gen.quirks req url e).isFire) <;> rfl

/-- **Model = specification** for application trees of any depth: the dispatcher does what
`Spec.route` says — first option in registration order whose method filter holds and whose pattern
matches the entire URL, called with exactly the captured groups; a mounted application gets the
selected group and answers 404 itself. -/
theorem dispatch_eq_spec (rx : Rx) (hs : RxSound rx) (req : Option Bytes) (o : Opts) (url : Bytes) :
    dispatch rx Gen.quirks req o url = Spec.route rx req (o.depth + 1) o url :=
  dispatch_eq_route rx gen_fixed gen_method hs req (o.depth + 1) o url (by omega)

/-- Nested applications, any depth: handler `id` runs with `args` **iff** the routing relation
`Spec.Reaches` holds — a chain of mounts, each the first taking option of its level, each entered
with the selected group, ending in a level whose first taking option is that handler. -/
theorem mount_then_dispatch (rx : Rx) (hs : RxSound rx) (req : Option Bytes) (o : Opts) (url : Bytes)
    (id : Nat) (args : List (Option Bytes)) :
    Event.ran id args ∈ (dispatch rx Gen.quirks req o url).2 ↔ Spec.Reaches rx req o url id args := by
  rw [dispatch_eq_spec rx hs]
  exact ran_mem_route_iff rx req id args (o.depth + 1) o url (by omega)

/-- Every argument any handler, at any depth, is given is a contiguous substring of the request path — or, for the
integer parameters of typed `map()` handlers, the (decimal text of the) value that such a substring denotes
(`Spec.ArgOf`). -/
theorem args_infix_of_request (rx : Rx) (hs : RxSound rx) (req : Option Bytes) (o : Opts) (url : Bytes)
    (ev : Event) (hev : ev ∈ (dispatch rx Gen.quirks req o url).2) (x : Bytes) (hx : some x ∈ ev.args) :
    Spec.ArgOf rx url x := by
  rw [dispatch_eq_spec rx hs] at hev
  exact args_infix_route rx req _ o url ev hev x hx

/-! ## typed handlers of `url_dispatcher::map()` -/

/-- `parameter >> value` followed by the `eof()` test (libstdc++'s digit loop with its incremental overflow test,
after the sentry skipped white space and one sign was read) accepts **exactly** the decimal numerals in the range of
the type and yields their value — for every byte string, for `int`, `unsigned`, `long long`, `unsigned long long`. -/
theorem typed_integer_is_numeral (s : Bytes) :
    parseNum ⟨true, 32⟩ s = Spec.numeral true 32 s ∧ parseNum ⟨false, 32⟩ s = Spec.numeral false 32 s ∧
    parseNum ⟨true, 64⟩ s = Spec.numeral true 64 s ∧ parseNum ⟨false, 64⟩ s = Spec.numeral false 64 s :=
  ⟨parseNum_eq_numeral _ (by decide) s, parseNum_eq_numeral _ (by decide) s,
   parseNum_eq_numeral _ (by decide) s, parseNum_eq_numeral _ (by decide) s⟩

/-- one parameter: valid text (external `rx.valid`) and, for integer types, a numeral in range -/
theorem typed_param_eq_spec (rx : Rx) (t : PType) (s : Bytes) : convertParam rx t s = Spec.convert rx t s :=
  convertParam_eq rx t s

/-- **A typed handler takes the request iff its pattern matches the whole URL, its method filter holds AND every
selected group converts to its parameter type**; then the member is called with exactly the converted values.
Otherwise `option::dispatch` returns `false` without having called anything and the scan goes on to the next option
(with `dispatch_is_first_match` / `dispatch_eq_spec`: the first option that matches *and whose parameters convert*). -/
theorem typed_handler_applies_iff (rx : Rx) (hs : RxSound rx) (req : Option Bytes) (l : Leaf) (ps : List (Int × PType))
    (hk : l.kind = .typed ps) (url : Bytes) :
    leafAttempt rx Gen.quirks req l url =
      match req, Spec.whole rx l.re url with
      | some _, some raw =>
        if Spec.methodOk rx l.meth req then
          match ps.mapM fun gt => (Spec.convert rx gt.2 (Spec.groupStr url raw gt.1)).map some with
          | some vals => .fire [.ran l.id vals]
          | none => .skip
        else .skip
      | _, _ => .skip := by
  rw [leafAttempt_eq rx gen_fixed gen_method hs]
  unfold Spec.leafTry
  rw [hk]
  cases req with
  | none => simp [tryToAttempt]
  | some r =>
    cases hw : Spec.whole rx l.re url with
    | none => by_cases hm : Spec.methodOk rx l.meth (some r) = true <;> simp [hm, tryToAttempt]
    | some raw =>
      by_cases hm : Spec.methodOk rx l.meth (some r) = true
      · simp only [Option.isSome_some, Bool.true_and, hm, if_true, Option.bind_some]
        cases (ps.mapM fun gt => (Spec.convert rx gt.2 (Spec.groupStr url raw gt.1)).map some) <;> simp [tryToAttempt]
      · simp [hm, tryToAttempt]

/-- numerals: range ends of `int`, white space, signs, `unsigned` negation, junk -/
example :
    Spec.numeral true 32 [50, 49, 52, 55, 52, 56, 51, 54, 52, 55] = some 2147483647 ∧          -- "2147483647"
    Spec.numeral true 32 [50, 49, 52, 55, 52, 56, 51, 54, 52, 56] = none ∧                     -- "2147483648"
    Spec.numeral true 32 [45, 50, 49, 52, 55, 52, 56, 51, 54, 52, 56] = some (-2147483648) ∧   -- "-2147483648"
    Spec.numeral true 32 [32, 9, 48, 48, 55] = some 7 ∧                                       -- " \t007"
    Spec.numeral true 32 [55, 32] = none ∧ Spec.numeral true 32 [] = none ∧ Spec.numeral true 32 [43] = none ∧
    Spec.numeral true 32 [45, 43, 49] = none ∧ Spec.numeral true 32 [49, 97] = none ∧
    Spec.numeral false 32 [45, 49] = some 4294967295 ∧ Spec.numeral false 32 [45, 48] = some 0 ∧
    parseNum ⟨true, 32⟩ [50, 49, 52, 55, 52, 56, 51, 54, 52, 56] = none ∧ parseNum ⟨false, 32⟩ [45, 49] = some 4294967295 := by
  decide

/-- two handlers on one pattern: `/p/2147483648` does not fit `int`, so the `unsigned` one (registered later) gets it;
`/p/12` goes to the first -/
example :
    let rx : Rx := { info := fun _ _ => some 1,
                     exec := fun _ _ s => if s.take 3 = [47, 112, 47] then some ((0, s.length), [(3, s.length)]) else none }
    let o : Opts := .leaf ⟨1, ⟨[120], {}⟩, none, .typed [(1, .i32)]⟩ (.leaf ⟨2, ⟨[120], {}⟩, none, .typed [(1, .u32)]⟩ .nil)
    dispatch rx Gen.quirks (some [71]) o [47, 112, 47, 50, 49, 52, 55, 52, 56, 51, 54, 52, 56] =
      (true, [.ran 2 [some [50, 49, 52, 55, 52, 56, 51, 54, 52, 56]]]) ∧
    dispatch rx Gen.quirks (some [71]) o [47, 112, 47, 49, 50] = (true, [.ran 1 [some [49, 50]]]) ∧
    dispatch rx Gen.quirks none o [47, 112, 47, 49, 50] = (false, []) := by decide

/-! ## mount points and the pool -/

/-- `mount_point::match` = all configured patterns match their whole strings; the result is the
selected string or its group.  The `std::string` overload is about the strings as given (NULs
included), the `char const*` overload about the C strings. -/
theorem mpMatch_eq_spec (rx : Rx) (hs : RxSound rx) (mp : MountPoint) (h s p : Bytes) :
    mpMatchStr rx Gen.quirks mp h s p = Spec.mpMatch rx mp h s p ∧
    mpMatchPtr rx Gen.quirks mp h s p = Spec.mpMatch rx mp (cstr h) (cstr s) (cstr p) := by
  constructor
  · unfold mpMatchStr; rw [gen_fixed.mount]; simp [mpMatchC_eq rx gen_fixed hs]
  · unfold mpMatchPtr; exact mpMatchC_eq rx gen_fixed hs _ _ _ _

/-- `applications_pool::get_application_specific_pool` returns the **first** mount point, in mount
order, that matches (with its index and selected string); none → 404. -/
theorem pool_is_first_match (rx : Rx) (hs : RxSound rx) (mps : List MountPoint) (h s p : Bytes) :
    poolFind rx Gen.quirks h s p mps 0 = Spec.poolFind rx mps (cstr h) (cstr s) (cstr p) := by
  rw [poolFind_eq_aux]
  unfold Spec.poolFind
  congr 1
  funext ⟨mp, j⟩
  simp [(mpMatch_eq_spec rx hs mp h s p).2]

theorem poolRoute_eq_spec (rx : Rx) (hs : RxSound rx) (apps : List (MountPoint × Opts)) (meth h s p : Bytes) :
    poolRoute rx Gen.quirks apps meth h s p = Spec.poolRoute rx apps meth (cstr h) (cstr s) (cstr p) := by
  unfold poolRoute Spec.poolRoute
  rw [pool_is_first_match rx hs]
  cases Spec.poolFind rx (apps.map (·.1)) (cstr h) (cstr s) (cstr p) with
  | none => rfl
  | some im => obtain ⟨i, m⟩ := im; simp [appMain_eq_main rx gen_fixed gen_method hs]

/-- **Both lists of `applications_pool`.**  `get_application_specific_pool` returns the first accepting mount
point in `Spec.scanOrder`: all pools/factories (`mount(pool,…)`, `mount(factory,…)`) in their mount order, then the
classic asynchronous applications (`mount(intrusive_ptr<application>,…)`) in their mount order with the dead ones
left out — in particular, among overlapping asynchronous mounts the **first** registered wins, although the loop
over them runs to the end. -/
theorem pool_scan_order (rx : Rx) (hs : RxSound rx) (ms : List (Bool × MountPoint)) (dead : List Nat) (h s p : Bytes) :
    poolFindAll rx Gen.quirks h s p ms dead = Spec.poolFindAll rx ms dead (cstr h) (cstr s) (cstr p) := by
  have hmp : ∀ im : Nat × MountPoint, (mpMatchPtr rx Gen.quirks im.2 h s p).map (fun m => (im.1, m)) =
      (Spec.mpMatch rx im.2 (cstr h) (cstr s) (cstr p)).map fun m => (im.1, m) := by
    intro im; rw [(mpMatch_eq_spec rx hs im.2 h s p).2]
  unfold poolFindAll Spec.poolFindAll Spec.scanOrder
  rw [poolScanApps_eq, poolScanLegacy_eq, List.findSome?_append]
  simp only [hmp, mountsOf, Option.none_or]
  cases List.findSome? (fun im => Option.map (fun m => (im.fst, m)) (Spec.mpMatch rx im.snd (cstr h) (cstr s) (cstr p)))
      (List.filterMap (fun x => if (x.1.1 == false) = true then some (x.2, x.1.2) else none) ms.zipIdx) <;> rfl

/-- the same after any number of "the application that got the request dies" rounds, and with `application::main` -/
theorem poolRouteAll_eq_spec (rx : Rx) (hs : RxSound rx) (apps : List (Bool × MountPoint × Opts)) (rounds : Nat) (meth h s p : Bytes) :
    poolRouteAll rx Gen.quirks apps rounds meth h s p = Spec.poolRouteAll rx apps rounds meth (cstr h) (cstr s) (cstr p) := by
  have hkill : ∀ (ms : List (Bool × MountPoint)) (r : Nat) (dead : List Nat),
      poolKill rx Gen.quirks h s p ms r dead = Spec.poolKill rx ms (cstr h) (cstr s) (cstr p) r dead := by
    intro ms r
    induction r with
    | zero => intro dead; rfl
    | succ r ih =>
      intro dead
      simp only [poolKill, Spec.poolKill, pool_scan_order rx hs]
      cases Spec.poolFindAll rx ms dead (cstr h) (cstr s) (cstr p) with
      | none => rfl
      | some im => obtain ⟨i, m⟩ := im; simp only [ih]
  unfold poolRouteAll Spec.poolRouteAll
  simp only [hkill, pool_scan_order rx hs]
  cases Spec.poolFindAll rx (apps.map fun a => (a.1, a.2.1))
      (Spec.poolKill rx (apps.map fun a => (a.1, a.2.1)) (cstr h) (cstr s) (cstr p) rounds []) (cstr h) (cstr s) (cstr p) with
  | none => rfl
  | some im => obtain ⟨i, m⟩ := im; simp [appMain_eq_main rx gen_fixed gen_method hs]

/-- two overlapping classic asynchronous mounts and a catch-all pool: the pool wins although mounted last (its list is
scanned first); without it the first asynchronous mount wins; once that one has died, the second -/
example :
    let a1 : Bool × MountPoint := (true, ⟨none, none, some (Ex.re Ex.exPat_blogm), 1, true⟩)
    let a2 : Bool × MountPoint := (true, ⟨none, none, none, 0, true⟩)
    let s3 : Bool × MountPoint := (false, ⟨none, none, none, 0, true⟩)
    (poolFindAll Ex.exRx Gen.quirks [] [] Ex.profileUrl [a1, a2, s3] []).map (·.1) = some 2 ∧
    (poolFindAll Ex.exRx Gen.quirks [] [] Ex.profileUrl [a1, a2] []).map (·.1) = some 0 ∧
    (poolFindAll Ex.exRx Gen.quirks [] [] Ex.profileUrl [a1, a2] [0]).map (·.1) = some 1 ∧
    poolKill Ex.exRx Gen.quirks [] [] Ex.profileUrl [a1, a2] 2 [] = [1, 0] := by decide

/-! ## mapper templates -/

/-- a template without braces is one literal part, arity 0 -/
theorem parseTpl_literal (s : Bytes) (h : BraceFree s) : parseTpl s false = .ok (⟨[s], [], []⟩, 0) := by
  simpa [tplSrc] using parseTpl_src [] (by intro x hx; cases hx) s h

/-- `l₁{d₁}l₂{d₂}…tail` (digits 1..9, brace-free literals) parses to exactly those parts and indexes;
the arity is the largest index -/
theorem parseTpl_param (segs : List (Bytes × Nat)) (hs : SegsOk segs) (tail : Bytes) (ht : BraceFree tail) :
    parseTpl (tplSrc segs tail) false =
      .ok (⟨segs.map (·.1) ++ [tail], segs.map (fun ld => Int.ofNat ld.2), segs.map (fun _ => [])⟩,
           (segs.foldl (fun m ld => max (Int.ofNat ld.2) m) (0 : Int)).toNat) :=
  parseTpl_src segs hs tail ht

/-- malformed templates are rejected with the specific error, whatever follows -/
theorem parseTpl_errors (a : Bytes) (ha : BraceFree a) (rest : Bytes) (isApp : Bool) :
    parseTpl (a ++ [UInt8.ofNat Gen.tplOpen, UInt8.ofNat Gen.tplClose] ++ rest) isApp = .error .emptyIndex ∧
    parseTpl (a ++ [UInt8.ofNat Gen.tplOpen, 48, UInt8.ofNat Gen.tplClose] ++ rest) isApp = .error .zeroIndex ∧
    parseTpl (a ++ [UInt8.ofNat Gen.tplClose] ++ rest) isApp = .error .strayClose ∧
    ((∀ c ∈ rest, c.toNat ≠ Gen.tplClose) → parseTpl (a ++ [UInt8.ofNat Gen.tplOpen] ++ rest) isApp = .error .unclosed) ∧
    (∀ segs tail, SegsOk segs → BraceFree tail → segs.foldl (fun m ld => max (Int.ofNat ld.2) m) (0 : Int) ≠ 1 →
        parseTpl (tplSrc segs tail) true = .error .appArity) :=
  ⟨parseTpl_empty_index a ha rest isApp, parseTpl_zero_index a ha rest isApp, parseTpl_stray_close a ha rest isApp,
   fun h => parseTpl_unclosed a ha rest h isApp, fun segs tail hs ht hm => parseTpl_app_arity segs hs tail ht hm⟩

/-- parsing a template and instantiating it substitutes exactly the parameters: `{d}` ↦ `params[d-1]`,
literal text unchanged, for every template of the positional fragment and all parameter values -/
theorem writeTpl_parse_roundtrip (segs : List (Bytes × Nat)) (hs : SegsOk segs) (tail : Bytes) (ht : BraceFree tail)
    (params : List Bytes) (hb : ∀ ld ∈ segs, ld.2 ≤ params.length) (helpers overrides : List (Bytes × Bytes)) :
    ∃ t n, parseTpl (tplSrc segs tail) false = .ok (t, n) ∧
      writeTpl t params helpers overrides = .ok (tplInst params segs tail) :=
  ⟨_, _, parseTpl_src segs hs tail ht,
   writeTpl_src params helpers overrides segs (fun ld h => ⟨(hs ld h).2.1, hb ld h⟩) tail⟩

/-- `a{key}b` parses to a keyword placeholder, and instantiating it inserts the keyword parameter of the
call if given, else the `set_value` helper, else nothing — for all brace-free `a`, `b` and every key
that is non-empty, not all digits and has no `}` -/
theorem parseTpl_keyword_roundtrip (a : Bytes) (ha : BraceFree a) (k : Bytes) (hk : ∀ c ∈ k, c.toNat ≠ Gen.tplClose)
    (hnd : k.any (fun c => Gen.tplNotDigit c.toNat) = true) (b : Bytes) (hb : BraceFree b)
    (params : List Bytes) (helpers overrides : List (Bytes × Bytes)) :
    ∃ t, parseTpl (a ++ UInt8.ofNat Gen.tplOpen :: (k ++ UInt8.ofNat Gen.tplClose :: b)) false = .ok (t, 0) ∧
      writeTpl t params helpers overrides =
        .ok (a ++ (match lookupKV overrides k with
                   | some v => v
                   | none => (lookupKV helpers k).getD []) ++ b) :=
  ⟨_, parseTpl_keyword a ha k hk hnd b hb, writeTpl_keyword a k b params helpers overrides⟩

/-- `/{lang}/x` with `lang` given both as helper and as keyword parameter -/
example : ∃ t, parseTpl [47, 123, 108, 97, 110, 103, 125, 47, 120] false = .ok (t, 0) ∧
    writeTpl t [] [([108, 97, 110, 103], [101, 110])] [([108, 97, 110, 103], [104, 101])] = .ok [47, 104, 101, 47, 120] := by
  exact ⟨⟨[[47], [47, 120]], [0], [[108, 97, 110, 103]]⟩, by decide, by decide⟩

/-- **Templates, general grammar** (`l₁{p₁}…lₙ{pₙ}tail`, placeholders = digit strings of any length or keywords, mixed
freely): `real_assign` stores exactly the literals, the `atoi` values (0 for keywords) and the keys; the arity is the
largest index. -/
theorem parseTpl_general_grammar (segs : List (Bytes × Ph)) (hs : GSegsOk segs) (tail : Bytes) (ht : BraceFree tail) :
    parseTpl (tplPre segs ++ tail) false =
      .ok (⟨segs.map (·.1) ++ [tail], segs.map (·.2.index), segs.map (·.2.key)⟩,
           (segs.foldl (fun m lp => lp.2.bump m) (0 : Int)).toNat) :=
  parseTpl_general segs hs tail ht

/-- **Error ordering**: after any well-formed prefix the first malformed construct decides the error, whatever follows
(`{}` emptyIndex · all-digit placeholder with `atoi` 0 zeroIndex · `}` outside strayClose · never closed `{` unclosed). -/
theorem parseTpl_first_error_wins (segs : List (Bytes × Ph)) (hs : GSegsOk segs) (a : Bytes) (ha : BraceFree a) (rest : Bytes)
    (isApp : Bool) :
    parseTpl (tplPre segs ++ (a ++ bOpen :: bClose :: rest)) isApp = .error .emptyIndex ∧
    (∀ ds, ds ≠ [] → ds.any (fun c => Gen.tplNotDigit c.toNat) = false → atoiDigits ds = 0 →
        parseTpl (tplPre segs ++ (a ++ bOpen :: (ds ++ bClose :: rest))) isApp = .error .zeroIndex) ∧
    parseTpl (tplPre segs ++ (a ++ bClose :: rest)) isApp = .error .strayClose ∧
    ((∀ c ∈ rest, c.toNat ≠ Gen.tplClose) → parseTpl (tplPre segs ++ (a ++ bOpen :: rest)) isApp = .error .unclosed) :=
  parseTpl_error_order segs hs a ha rest isApp

/-- a digit string denoting a number below 2³¹ is read as that number (`{10}`, `{123}`); the glibc behaviour for longer
strings (saturation, truncation to `int`, possibly 0 or negative) is `atoiDigits` itself, tied by correspondence -/
theorem template_index_value (ds : Bytes) (h : ds.foldl (fun acc c => acc * 10 + (c.toNat - 48)) 0 < 2 ^ 31) :
    atoiDigits ds = Int.ofNat (ds.foldl (fun acc c => acc * 10 + (c.toNat - 48)) 0) :=
  atoiDigits_small ds h

/-- **Instantiation, general grammar**: each index placeholder ↦ its parameter, each keyword ↦ the call's keyword
parameter, else the `set_value` helper, else nothing; an index outside `1..#params` (also a negative one) ⇒ `indexRange`. -/
theorem writeTpl_general_grammar (params : List Bytes) (helpers overrides : List (Bytes × Bytes))
    (segs : List (Bytes × Ph)) (tail : Bytes) :
    writeTpl ⟨segs.map (·.1) ++ [tail], segs.map (·.2.index), segs.map (·.2.key)⟩ params helpers overrides =
      match instG params helpers overrides segs tail with
      | some r => .ok r
      | none => .error .indexRange :=
  writeTpl_general params helpers overrides segs tail

/-- `/{lang}/p{10}-{1}` : a mixed template with a two-digit index — well-formed, arity 10; instantiated with ten parameters -/
example :
    let segs : List (Bytes × Ph) := [([47], .kw [108, 97, 110, 103]), ([47, 112], .idx [49, 48]), ([45], .idx [49])]
    GSegsOk segs ∧ tplPre segs = [47, 123, 108, 97, 110, 103, 125, 47, 112, 123, 49, 48, 125, 45, 123, 49, 125] ∧
    parseTpl (tplPre segs ++ []) false = .ok (⟨[[47], [47, 112], [45], []], [0, 10, 1], [[108, 97, 110, 103], [], []]⟩, 10) ∧
    instG [[97], [98], [99], [100], [101], [102], [103], [104], [105], [106]] [([108, 97, 110, 103], [101, 110])] [] segs [] =
      some [47, 101, 110, 47, 112, 106, 45, 97] ∧
    instG [[97]] [] [] segs [] = none := by
  refine ⟨?_, by decide, by decide, by decide, by decide⟩
  intro lp h
  simp only [List.mem_cons, List.mem_nil_iff, or_false] at h
  rcases h with rfl | rfl | rfl
  · exact ⟨by intro c hc; revert c; decide, by decide, by intro c hc; revert c; decide⟩
  · exact ⟨by intro c hc; revert c; decide, by decide, by decide, by decide⟩
  · exact ⟨by intro c hc; revert c; decide, by decide, by decide, by decide⟩

/-- over-long digit strings: `{4294967296}` is index 0 (rejected), `{4294967297}` is index 1, `{99999999999999999999}` is −1 -/
example : atoiDigits [52, 50, 57, 52, 57, 54, 55, 50, 57, 54] = 0 ∧ atoiDigits [52, 50, 57, 52, 57, 54, 55, 50, 57, 55] = 1 ∧
    atoiDigits [57, 57, 57, 57, 57, 57, 57, 57, 57, 57, 57, 57, 57, 57, 57, 57, 57, 57, 57, 57] = -1 := by decide

/-- the mapper's syntax constants as extracted from the source: keys may not contain `/ ; ,`, may not be
`.` or `..`; placeholders are `{…}`; an index is a string of ASCII digits -/
theorem mapper_constants_pinned :
    Gen.keyForbiddenChars = [47, 59, 44] ∧ Gen.keyForbiddenWords = [[46, 46], [46]] ∧
    Gen.tplOpen = 123 ∧ Gen.tplClose = 125 ∧ (∀ c, Gen.tplNotDigit c = (decide (c < 48) || decide (57 < c))) :=
  ⟨by decide, by decide, by decide, by decide, fun _ => rfl⟩

/-- every key that `url_mapper::assign(key,url)` accepts (NUL-free: `map` takes a C string) is read by
`url_mapper::map` as exactly that key of the addressed mapper — no `/` navigation, no `..`, no keywords;
it denotes the child application's default entry iff it was mounted as an application. -/
theorem valid_key_addressable (p : MPos) (key : Bytes) (hv : keyValid key = true) (hnul : (0 : UInt8) ∉ key) :
    mapperForKey p (cstr key) =
      match isApp p.cur key with
      | some c => .ok (⟨c, (p.cur, key) :: p.up⟩, [], [])
      | none => .ok (p, key, []) := by
  have hc : cstr key = key := takeWhile_ne_of_not_mem 0 key hnul
  rw [hc]
  exact mapperForKey_valid p key hv (by decide) (by decide) (by decide) (by decide)

example : keyValid Ex.kProfile = true ∧ (0 : UInt8) ∉ Ex.kProfile := by decide

/-! ## URL generation and routing agree -/

/-- **mapper/dispatcher consistency, any depth.**  Let `key` (any key form: relative, `a/b`, `..`,
absolute, with keywords) resolve to mapper `p'`, entry `rk`, keywords `kws`.  If the site is
`Consistent` along the chain from `p'` up to the root (a decidable, purely local check per level,
in which the keyword parameters are substituted into the entry's template **and into every
ancestor's mount template**), then `url_mapper::map` produces `root ++ u`, and routing `u` from the
root application makes the handlers observe exactly `expected` — for `expected = [.ran id args]`:
exactly the handler `id` runs, with exactly `args`. -/
theorem mapper_dispatch_consistent (rx : Rx) (hs : RxSound rx) (req : Option Bytes) (ctx : MCtx) (p p' : MPos) (key rk : Bytes)
    (kws : List Bytes) (params : List Bytes) (cur : Opts) (anc : List Opts) (expected : List Event)
    (hkey : mapperForKey p (cstr key) = .ok (p', rk, kws)) (hk : kws.length ≤ params.length)
    (hc : Consistent rx req ctx (mkOverrides kws (params.take kws.length)) p' cur anc rk (params.drop kws.length) expected = true) :
    ∃ u, mapUrl ctx p key params = .ok (ctx.root ++ u) ∧
      appMain rx Gen.quirks req (rootOf cur anc) u = expected := by
  obtain ⟨u, hmap, hmain⟩ := consistent_spec rx req ctx _ p' cur anc rk _ expected hc
  refine ⟨u, ?_, ?_⟩
  · unfold mapUrl
    simp only [hkey]
    have : ¬ params.length < kws.length := by omega
    simp [this, hmap]
  · rw [appMain_eq_main rx gen_fixed gen_method hs]; exact hmain

/-- **`util::stackbuf` collects all bytes, in order**, however many there are and wherever the stack/heap and the
doubling boundaries fall (byte 129, 257, 513, … of a URL included), for every on-stack size ≥ 1. -/
theorem stackbuf_collects_all_bytes_in_order (N : Nat) (hN : 1 ≤ N) (s : Bytes) :
    (SBuf.write N (SBuf.init N) s).data = s := by
  have := SBuf.write_data N hN (by decide) s (SBuf.init N) (by simp [SBuf.init]) (by intro _; rfl) (by simpa [SBuf.init] using hN)
  simpa [SBuf.init] using this

/-- hence in the default configuration (`misc.invalid_url_throws = false`) `map` produces the same URL as in the throwing one,
cut at its first NUL (`output << temp_buf.c_str()`), and the fixed text on any error -/
theorem mapUrlNT_eq (ctx : MCtx) (p : MPos) (key : Bytes) (params : List Bytes) :
    mapUrlNT ctx p key params =
      match mapUrl ctx p key params with
      | .ok u => cstr u
      | .error _ => invalidUrlText := by
  unfold mapUrlNT
  cases mapUrl ctx p key params with
  | error e => rfl
  | ok u => simp only [stackbuf_collects_all_bytes_in_order Gen.sbDefaultSize (by decide) u]

/-- `mapper_dispatch_consistent` for the default (non-throwing) configuration -/
theorem mapper_dispatch_consistent_default_config (rx : Rx) (hs : RxSound rx) (req : Option Bytes) (ctx : MCtx) (p p' : MPos) (key rk : Bytes)
    (kws : List Bytes) (params : List Bytes) (cur : Opts) (anc : List Opts) (expected : List Event)
    (hkey : mapperForKey p (cstr key) = .ok (p', rk, kws)) (hk : kws.length ≤ params.length)
    (hc : Consistent rx req ctx (mkOverrides kws (params.take kws.length)) p' cur anc rk (params.drop kws.length) expected = true) :
    ∃ u, mapUrlNT ctx p key params = cstr (ctx.root ++ u) ∧
      appMain rx Gen.quirks req (rootOf cur anc) u = expected := by
  obtain ⟨u, h1, h2⟩ := mapper_dispatch_consistent rx hs req ctx p p' key rk kws params cur anc expected hkey hk hc
  exact ⟨u, by rw [mapUrlNT_eq, h1], h2⟩

/-- 300 bytes through a 4-byte buffer: seven doublings, nothing lost -/
example : (SBuf.write 4 (SBuf.init 4) (List.replicate 300 65 ++ [66])).data = List.replicate 300 65 ++ [66] ∧
    (SBuf.write 4 (SBuf.init 4) (List.replicate 300 65 ++ [66])).cap = 512 := by decide +kernel

/-! ## non-vacuity: a concrete engine and a depth-3 site meeting every hypothesis -/

section Examples
open Ex

theorem exRx_sound : RxSound exRx := by
  have htab : ∀ e ∈ exTable, (spanOk e.2.1.length e.2.2.1 ∧ ∀ sp ∈ e.2.2.2, spanOk e.2.1.length sp) ∧
      e.2.2.2.length ≤ ((exCounts.find? (·.1 == e.1)).map (·.2)).getD 0 := by decide
  have hfind : ∀ pat s r, exRx.exec pat {} s = some r → (pat, s, r) ∈ exTable := by
    intro pat s r h
    simp only [exRx, Option.map_eq_some_iff] at h
    obtain ⟨e, he, rfl⟩ := h
    have hm := List.mem_of_find?_eq_some he
    have hp := List.find?_some he
    simp only [Bool.and_eq_true, beq_iff_eq] at hp
    obtain ⟨h1, h2⟩ := hp
    obtain ⟨a, b, c⟩ := e
    simp only at h1 h2
    subst h1; subst h2
    exact hm
  constructor
  · intro pat ic s r h
    exact (htab _ (hfind pat s r h)).1
  · intro pat ic s r h
    exact (htab _ (hfind pat s r h)).2

/-- the engine reports a match of `/about` on `/aboutX` that covers only a prefix (as `(*ACCEPT)` would):
the wrapper refuses it, in both overloads -/
example : exRx.exec exPat_about {} aboutX = some ((0, 6), []) ∧
    rxMatchMarks exRx Gen.quirks (re exPat_about) aboutX = none ∧ rxMatch exRx Gen.quirks (re exPat_about) aboutX = false := by
  decide

/-- `groups_exact` / `matches_is_whole_path` on a real match with two groups -/
example : (optMatches exRx Gen.quirks (re exPat_profile) none none [47, 112, 114, 111, 102, 105, 108, 101, 47, 98, 111, 98, 47, 55]).map
    (fun m => (m.str 1, m.str 2, m.get 3, m.get (-1))) = some (bob, seven, none, none) := by decide

/-- the depth-3 site is `Consistent` for key `profile` of the innermost application -/
theorem ex_consistent : Consistent exRx (some GET) ctx [] usersPos usersOpts [blogOpts, rootOpts] kProfile [bob, seven]
    [.ran 3 [some bob, some seven]] = true := by decide

/-- … so the theorem applies: the mapped URL is `/root/blog/u/profile/bob/7` and it is routed, from
the root through two mounted applications, to handler 3 with `("bob","7")` -/
example : mapUrl ctx usersPos kProfile [bob, seven] = .ok (ctx.root ++ profileUrl) ∧
    appMain exRx Gen.quirks (some GET) rootOpts profileUrl = [.ran 3 [some bob, some seven]] := by
  obtain ⟨u, h1, h2⟩ := mapper_dispatch_consistent exRx exRx_sound (some GET) ctx usersPos usersPos kProfile kProfile [] [bob, seven]
    usersOpts [blogOpts, rootOpts] [.ran 3 [some bob, some seven]] (by decide) (by decide) ex_consistent
  have hu : u = profileUrl := by
    have : mapUrl ctx usersPos kProfile [bob, seven] = .ok (ctx.root ++ profileUrl) := by decide
    rw [this] at h1
    exact (List.append_cancel_left (Except.ok.inj h1)).symm
  subst hu
  exact ⟨h1, h2⟩

/-- `mount_then_dispatch`: the routing relation for that request, spelled out -/
example : Spec.Reaches exRx (some GET) rootOpts profileUrl 3 [some bob, some seven] :=
  (mount_then_dispatch exRx exRx_sound (some GET) rootOpts profileUrl 3 [some bob, some seven]).1 (by decide)

/-- first match: `/blog/post/42` goes to handler 2 (not to the later `users` mount), `/nope` to nobody -/
example : dispatch exRx Gen.quirks none rootOpts [47, 98, 108, 111, 103, 47, 112, 111, 115, 116, 47, 52, 50] =
    (true, [.ran 2 [some [52, 50]]]) ∧ dispatch exRx Gen.quirks none rootOpts [47, 110, 111, 112, 101] = (false, []) := by decide

/-- templates: `/profile/{1}/{2}` is in the positional fragment -/
example : SegsOk [([47, 112, 114, 111, 102, 105, 108, 101, 47], 1), ([47], 2)] ∧ BraceFree ([] : Bytes) ∧
    tplSrc [([47, 112, 114, 111, 102, 105, 108, 101, 47], 1), ([47], 2)] [] =
      [47, 112, 114, 111, 102, 105, 108, 101, 47, 123, 49, 125, 47, 123, 50, 125] := by
  refine ⟨?_, ?_, by decide⟩
  · intro ld h
    simp only [List.mem_cons, List.mem_nil_iff, or_false] at h
    rcases h with rfl | rfl
    · exact ⟨by intro c hc; revert c; decide, by decide, by decide⟩
    · exact ⟨by intro c hc; revert c; decide, by decide, by decide⟩
  · intro c hc; cases hc

/-- a mount point on path-info with a host pattern and group selection -/
example : mpMatchStr exRx Gen.quirks ⟨none, none, some (re exPat_blogm), 1, true⟩ [] [] profileUrl =
    some [47, 117, 47, 112, 114, 111, 102, 105, 108, 101, 47, 98, 111, 98, 47, 55] := by decide

end Examples

/-! ## the defect that was fixed (kept as a regression witness) -/

/-- D13: with `option::matches` passing `path.c_str()` (the source before /repo commit 3937457),
`dispatch("ab\0cd")` ran the handler registered for `ab` although the engine, asked about the
whole path, says no: the full-strength statement was false of that code. -/
theorem d13_counterexample_before_fix :
    let rx : Rx := { info := fun _ _ => some 0,
                     exec := fun _ _ s => if s = [97, 98] then some ((0, 2), []) else none }
    let qOld : Quirks := { Gen.quirks with pathCStr := true }
    let o : Opts := .leaf ⟨1, ⟨[97, 98], {}⟩, none, .h0⟩ .nil
    dispatch rx qOld none o [97, 98, 0, 99, 100] = (true, [.ran 1 []]) ∧
    Spec.route rx none 1 o [97, 98, 0, 99, 100] = (false, []) := by decide

end Cppcms.C20.Props
