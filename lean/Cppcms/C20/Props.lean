import Cppcms.C20.Model
import Cppcms.C20.Spec
namespace Cppcms.C20.Props
end Cppcms.C20.Props
