import Cppcms.C20.Lemmas
import Cppcms.C20.Consistent
/-!
# C20 — helper lemmas for the URL mapper: template parsing/instantiation and the
composition "map upwards, dispatch downwards".
-/
namespace Cppcms.C20
open Cppcms

/-! ## templates -/

/-- no `{` or `}` -/
def BraceFree (s : Bytes) : Prop := ∀ c ∈ s, c.toNat ≠ Gen.tplOpen ∧ c.toNat ≠ Gen.tplClose

/-- `{d}` for a decimal digit `d` -/
def paramTok (d : Nat) : Bytes := [UInt8.ofNat Gen.tplOpen, UInt8.ofNat (48 + d), UInt8.ofNat Gen.tplClose]

/-- source text of a template in the positional fragment: `l₁{d₁}l₂{d₂}…tail` -/
def tplSrc : List (Bytes × Nat) → Bytes → Bytes
  | [], tail => tail
  | (l, d) :: segs, tail => l ++ paramTok d ++ tplSrc segs tail

/-- the instantiation one expects: every `{d}` replaced by the `d`-th parameter -/
def tplInst (params : List Bytes) : List (Bytes × Nat) → Bytes → Bytes
  | [], tail => tail
  | (l, d) :: segs, tail => l ++ (params[d - 1]?).getD [] ++ tplInst params segs tail

def SegsOk (segs : List (Bytes × Nat)) : Prop := ∀ ld ∈ segs, BraceFree ld.1 ∧ 1 ≤ ld.2 ∧ ld.2 ≤ 9

theorem BraceFree.cons {c : UInt8} {s : Bytes} (h : BraceFree (c :: s)) :
    (c.toNat ≠ Gen.tplOpen ∧ c.toNat ≠ Gen.tplClose) ∧ BraceFree s :=
  ⟨h c (by simp), fun x hx => h x (by simp [hx])⟩

theorem tplScan_text (l : Bytes) (hl : BraceFree l) (cur : Bytes) (a : TplAcc) (rest : Bytes) :
    tplScan false cur a (l ++ rest) = tplScan false (l.reverse ++ cur) a rest := by
  induction l generalizing cur with
  | nil => simp
  | cons c cs ih =>
    obtain ⟨⟨h1, h2⟩, hcs⟩ := hl.cons
    simp only [List.cons_append, tplScan, Bool.false_eq_true, if_false, h1, h2]
    rw [ih hcs]
    simp

theorem tplScan_tail (l : Bytes) (hl : BraceFree l) (cur : Bytes) (a : TplAcc) :
    tplScan false cur a l = .ok { a with parts := a.parts ++ [cur.reverse ++ l] } := by
  have := tplScan_text l hl cur a []
  simp only [List.append_nil] at this
  rw [this]
  simp [tplScan]

theorem digit_facts (d : Nat) (h1 : 1 ≤ d) (h9 : d ≤ 9) :
    (UInt8.ofNat (48 + d)).toNat ≠ Gen.tplClose ∧
    Gen.tplNotDigit (UInt8.ofNat (48 + d)).toNat = false ∧
    atoiDigits [UInt8.ofNat (48 + d)] = Int.ofNat d := by
  have : d = 1 ∨ d = 2 ∨ d = 3 ∨ d = 4 ∨ d = 5 ∨ d = 6 ∨ d = 7 ∨ d = 8 ∨ d = 9 := by omega
  rcases this with rfl | rfl | rfl | rfl | rfl | rfl | rfl | rfl | rfl <;> decide

theorem tplScan_param (d : Nat) (h1 : 1 ≤ d) (h9 : d ≤ 9) (cur : Bytes) (a : TplAcc) (rest : Bytes) :
    tplScan false cur a (paramTok d ++ rest) =
      tplScan false [] { parts := a.parts ++ [cur.reverse], indexes := a.indexes ++ [Int.ofNat d],
                         keys := a.keys ++ [[]], maxIdx := max (Int.ofNat d) a.maxIdx } rest := by
  obtain ⟨hc, hnd, hat⟩ := digit_facts d h1 h9
  have ho : (UInt8.ofNat Gen.tplOpen).toNat = Gen.tplOpen := by decide
  have hcl : (UInt8.ofNat Gen.tplClose).toNat = Gen.tplClose := by decide
  have hd0 : Int.ofNat d ≠ 0 := by simp; omega
  simp only [paramTok, List.cons_append, List.nil_append, tplScan, Bool.false_eq_true, if_false, ho, if_true, hc, hcl,
    List.reverse_cons, List.reverse_nil, tplPlaceholder, List.isEmpty_cons, List.any_cons, hnd, List.any_nil, Bool.or_false, hat, hd0]

theorem tplScan_src (segs : List (Bytes × Nat)) (hs : SegsOk segs) (tail : Bytes) (ht : BraceFree tail)
    (cur : Bytes) (a : TplAcc) :
    tplScan false cur a (tplSrc segs tail) =
      .ok { parts := a.parts ++ (match segs with
                                 | [] => [cur.reverse ++ tail]
                                 | (l, _) :: rest => (cur.reverse ++ l) :: (rest.map (·.1) ++ [tail])),
            indexes := a.indexes ++ segs.map (fun ld => Int.ofNat ld.2),
            keys := a.keys ++ segs.map (fun _ => []),
            maxIdx := segs.foldl (fun m ld => max (Int.ofNat ld.2) m) a.maxIdx } := by
  induction segs generalizing cur a with
  | nil => simp [tplSrc, tplScan_tail tail ht]
  | cons ld rest ih =>
    obtain ⟨l, d⟩ := ld
    have hld := hs (l, d) (by simp)
    have hrest : SegsOk rest := fun x hx => hs x (by simp [hx])
    simp only [tplSrc, List.append_assoc]
    rw [tplScan_text l hld.1, tplScan_param d hld.2.1 hld.2.2, ih hrest]
    cases rest with
    | nil => simp
    | cons ld' rest' => obtain ⟨l', d'⟩ := ld'; simp

/-- **Parsing** a template of the positional fragment yields exactly its literal parts and indexes. -/
theorem parseTpl_src (segs : List (Bytes × Nat)) (hs : SegsOk segs) (tail : Bytes) (ht : BraceFree tail) :
    parseTpl (tplSrc segs tail) false =
      .ok (⟨segs.map (·.1) ++ [tail], segs.map (fun ld => Int.ofNat ld.2), segs.map (fun _ => [])⟩,
           (segs.foldl (fun m ld => max (Int.ofNat ld.2) m) (0 : Int)).toNat) := by
  unfold parseTpl
  rw [tplScan_src segs hs tail ht]
  cases segs with
  | nil => simp
  | cons ld rest => obtain ⟨l, d⟩ := ld; simp

theorem writeTpl_go_segs (params : List Bytes) (helpers overrides : List (Bytes × Bytes))
    (segs : List (Bytes × Nat)) (hb : ∀ ld ∈ segs, 1 ≤ ld.2 ∧ ld.2 ≤ params.length) (tail : Bytes) (acc : Bytes) :
    writeTpl.go params helpers overrides (segs.map (·.1) ++ [tail]) (segs.map fun ld => Int.ofNat ld.2)
        (segs.map fun _ => []) acc = .ok (acc ++ tplInst params segs tail) := by
  induction segs generalizing acc with
  | nil => simp [writeTpl.go, tplInst]
  | cons ld rest ih =>
    obtain ⟨l, d⟩ := ld
    have hd := hb (l, d) (by simp)
    have hrest : ∀ ld ∈ rest, 1 ≤ ld.2 ∧ ld.2 ≤ params.length := fun x hx => hb x (by simp [hx])
    have h0 : d ≠ 0 := by simp at hd; omega
    have hneg : ¬ ((d : Int) < 0) := by omega
    have hlt : d - 1 < params.length := by simp at hd; omega
    simp only [List.map_cons, List.cons_append, writeTpl.go, Int.ofNat_eq_natCast, Int.natCast_eq_zero, h0, if_false, hneg,
      Int.toNat_natCast, List.drop_one, List.tail_cons, List.getElem?_eq_getElem hlt]
    simp only [Int.ofNat_eq_natCast] at ih
    rw [ih hrest]
    simp [tplInst, List.getElem?_eq_getElem hlt]

/-- **Instantiating** a parsed template substitutes exactly the parameters. -/
theorem writeTpl_src (params : List Bytes) (helpers overrides : List (Bytes × Bytes))
    (segs : List (Bytes × Nat)) (hb : ∀ ld ∈ segs, 1 ≤ ld.2 ∧ ld.2 ≤ params.length) (tail : Bytes) :
    writeTpl ⟨segs.map (·.1) ++ [tail], segs.map (fun ld => Int.ofNat ld.2), segs.map (fun _ => [])⟩
        params helpers overrides = .ok (tplInst params segs tail) := by
  unfold writeTpl
  simpa using writeTpl_go_segs params helpers overrides segs hb tail []

/-! ## template errors -/

theorem parseTpl_empty_index (a : Bytes) (ha : BraceFree a) (rest : Bytes) (isApp : Bool) :
    parseTpl (a ++ [UInt8.ofNat Gen.tplOpen, UInt8.ofNat Gen.tplClose] ++ rest) isApp = .error .emptyIndex := by
  have ho : (UInt8.ofNat Gen.tplOpen).toNat = Gen.tplOpen := by decide
  have hcl : (UInt8.ofNat Gen.tplClose).toNat = Gen.tplClose := by decide
  unfold parseTpl
  rw [List.append_assoc, tplScan_text a ha]
  simp [tplScan, ho, hcl, tplPlaceholder]

theorem parseTpl_zero_index (a : Bytes) (ha : BraceFree a) (rest : Bytes) (isApp : Bool) :
    parseTpl (a ++ [UInt8.ofNat Gen.tplOpen, 48, UInt8.ofNat Gen.tplClose] ++ rest) isApp = .error .zeroIndex := by
  have ho : (UInt8.ofNat Gen.tplOpen).toNat = Gen.tplOpen := by decide
  have hcl : (UInt8.ofNat Gen.tplClose).toNat = Gen.tplClose := by decide
  have h0 : (48 : Nat) ≠ Gen.tplClose := by decide
  have hd : Gen.tplNotDigit 48 = false := by decide
  have hat : atoiDigits [48] = 0 := by decide
  unfold parseTpl
  rw [List.append_assoc, tplScan_text a ha]
  simp [tplScan, ho, hcl, h0, tplPlaceholder, hd, hat]

theorem parseTpl_stray_close (a : Bytes) (ha : BraceFree a) (rest : Bytes) (isApp : Bool) :
    parseTpl (a ++ [UInt8.ofNat Gen.tplClose] ++ rest) isApp = .error .strayClose := by
  have hcl : (UInt8.ofNat Gen.tplClose).toNat = Gen.tplClose := by decide
  have hco : Gen.tplClose ≠ Gen.tplOpen := by decide
  unfold parseTpl
  rw [List.append_assoc, tplScan_text a ha]
  simp [tplScan, hcl, hco]

theorem tplScan_inside_unclosed (b : Bytes) (hb : ∀ c ∈ b, c.toNat ≠ Gen.tplClose) (cur : Bytes) (acc : TplAcc) :
    tplScan true cur acc b = .error .unclosed := by
  induction b generalizing cur with
  | nil => simp [tplScan]
  | cons c cs ih =>
    have hc := hb c (by simp)
    simp only [tplScan, if_true, hc, if_false]
    exact ih (fun x hx => hb x (by simp [hx])) _

theorem parseTpl_unclosed (a : Bytes) (ha : BraceFree a) (b : Bytes) (hb : ∀ c ∈ b, c.toNat ≠ Gen.tplClose) (isApp : Bool) :
    parseTpl (a ++ [UInt8.ofNat Gen.tplOpen] ++ b) isApp = .error .unclosed := by
  have ho : (UInt8.ofNat Gen.tplOpen).toNat = Gen.tplOpen := by decide
  unfold parseTpl
  rw [List.append_assoc, tplScan_text a ha]
  simp [tplScan, ho, tplScan_inside_unclosed b hb]

/-- a mounted application's template must use exactly the parameter 1 -/
theorem parseTpl_app_arity (segs : List (Bytes × Nat)) (hs : SegsOk segs) (tail : Bytes) (ht : BraceFree tail)
    (hm : segs.foldl (fun m ld => max (Int.ofNat ld.2) m) (0 : Int) ≠ 1) :
    parseTpl (tplSrc segs tail) true = .error .appArity := by
  unfold parseTpl
  rw [tplScan_src segs hs tail ht]
  simp only [Int.ofNat_eq_natCast] at hm
  simp [hm]

/-! ## keyword placeholders `{key}` -/

theorem tplScan_inside (k : Bytes) (hk : ∀ c ∈ k, c.toNat ≠ Gen.tplClose) (cur : Bytes) (acc : TplAcc) (rest : Bytes) :
    tplScan true cur acc (k ++ UInt8.ofNat Gen.tplClose :: rest) =
      match tplPlaceholder acc (cur.reverse ++ k) with
      | .error e => .error e
      | .ok a' => tplScan false [] a' rest := by
  have hcl : (UInt8.ofNat Gen.tplClose).toNat = Gen.tplClose := by decide
  induction k generalizing cur with
  | nil =>
    simp only [List.nil_append, tplScan, if_true, hcl, List.append_nil]
    cases tplPlaceholder acc cur.reverse <;> rfl
  | cons c cs ih =>
    have hc := hk c (by simp)
    simp only [List.cons_append, tplScan, if_true, hc, if_false]
    rw [ih (fun x hx => hk x (by simp [hx]))]
    simp

/-- `a{key}b` : a keyword placeholder (non-empty, not all digits, no `}` inside; `{` inside is allowed) -/
theorem parseTpl_keyword (a : Bytes) (ha : BraceFree a) (k : Bytes) (hk : ∀ c ∈ k, c.toNat ≠ Gen.tplClose)
    (hnd : k.any (fun c => Gen.tplNotDigit c.toNat) = true) (b : Bytes) (hb : BraceFree b) :
    parseTpl (a ++ UInt8.ofNat Gen.tplOpen :: (k ++ UInt8.ofNat Gen.tplClose :: b)) false =
      .ok (⟨[a, b], [0], [k]⟩, 0) := by
  have ho : (UInt8.ofNat Gen.tplOpen).toNat = Gen.tplOpen := by decide
  have hne : k.isEmpty = false := by
    cases k with
    | nil => simp at hnd
    | cons c cs => rfl
  unfold parseTpl
  rw [tplScan_text a ha]
  simp only [tplScan, Bool.false_eq_true, if_false, ho, if_true]
  rw [tplScan_inside k hk]
  simp only [List.reverse_nil, List.nil_append, tplPlaceholder, hne, hnd, if_true, Bool.false_eq_true, if_false]
  rw [tplScan_tail b hb]
  simp

/-- instantiating `a{key}b`: the keyword parameter of this call wins over the `set_value` helper; unknown keys vanish -/
theorem writeTpl_keyword (a k b : Bytes) (params : List Bytes) (helpers overrides : List (Bytes × Bytes)) :
    writeTpl ⟨[a, b], [0], [k]⟩ params helpers overrides =
      .ok (a ++ (match lookupKV overrides k with
                 | some v => v
                 | none => (lookupKV helpers k).getD []) ++ b) := by
  simp only [writeTpl, writeTpl.go, if_true, List.headD_cons, List.nil_append, List.drop_one, List.tail_cons, List.append_nil]
  cases lookupKV overrides k <;> simp

/-! ## keys accepted by `assign` are addressable by `map` -/

theorem splitOn_no_sep (sep : UInt8) (s : Bytes) (h : sep ∉ s) : splitOn sep s = [s] := by
  induction s with
  | nil => rfl
  | cons c cs ih =>
    have hc : (c == sep) = false := by
      simp only [beq_eq_false_iff_ne, ne_eq]; intro e; exact h (by simp [e])
    have := ih (fun hm => h (by simp [hm]))
    simp [splitOn, hc, this]

theorem takeWhile_ne_of_not_mem (x : UInt8) (s : Bytes) (h : x ∉ s) : s.takeWhile (· ≠ x) = s := by
  induction s with
  | nil => rfl
  | cons c cs ih =>
    have hc : c ≠ x := fun e => h (by simp [e])
    have ih' := ih (fun hm => h (by simp [hm]))
    simp only [List.takeWhile_cons, ne_eq, hc, not_false_eq_true, decide_true, if_true]
    rw [ih']

/-- a key accepted by `url_mapper::assign(key,url)` (and free of NUL, `map` takes a C string) is read by
`get_mapper_for_key` as itself: no navigation, no keywords -/
theorem mapperForKey_valid (p : MPos) (key : Bytes) (hv : keyValid key = true)
    (hslash : (47 : Nat) ∈ Gen.keyForbiddenChars) (hsemi : (59 : Nat) ∈ Gen.keyForbiddenChars)
    (hdot : [46] ∈ Gen.keyForbiddenWords) (hdotdot : [46, 46] ∈ Gen.keyForbiddenWords) :
    mapperForKey p key =
      match isApp p.cur key with
      | some c => .ok (⟨c, (p.cur, key) :: p.up⟩, [], [])
      | none => .ok (p, key, []) := by
  unfold keyValid at hv
  simp only [Bool.not_eq_true', Bool.or_eq_false_iff] at hv
  obtain ⟨⟨hne, hchars⟩, hwords⟩ := hv
  have h47 : (47 : UInt8) ∉ key := by
    intro hm
    have : key.any (fun c => Gen.keyForbiddenChars.contains c.toNat) = true :=
      List.any_eq_true.2 ⟨47, hm, by simpa using hslash⟩
    rw [this] at hchars; cases hchars
  have h59 : (59 : UInt8) ∉ key := by
    intro hm
    have : key.any (fun c => Gen.keyForbiddenChars.contains c.toNat) = true :=
      List.any_eq_true.2 ⟨59, hm, by simpa using hsemi⟩
    rw [this] at hchars; cases hchars
  have hnd : key ≠ [46] := by
    intro e; subst e
    have : Gen.keyForbiddenWords.contains (([46] : Bytes).map (·.toNat)) = true := by simpa using hdot
    rw [this] at hwords; cases hwords
  have hndd : key ≠ [46, 46] := by
    intro e; subst e
    have : Gen.keyForbiddenWords.contains (([46, 46] : Bytes).map (·.toNat)) = true := by simpa using hdotdot
    rw [this] at hwords; cases hwords
  have hhead : (key.head? == some 47) = false := by
    cases key with
    | nil => rfl
    | cons c cs =>
      simp only [List.head?_cons, beq_eq_false_iff_ne, ne_eq, Option.some.injEq]
      intro e; exact h47 (by simp [e])
  unfold mapperForKey
  simp only [hne, Bool.false_eq_true, if_false, hhead, splitOn_no_sep 47 key h47, List.getLast?_singleton, Option.getD_some,
    List.dropLast_singleton, walk, takeWhile_ne_of_not_mem 59 key h59]
  have hc : key.contains 59 = false := by simpa using h59
  have h1 : (key == [46]) = false := by simpa using hnd
  have h2 : (key == [46, 46]) = false := by simpa using hndd
  simp only [hc, Bool.false_eq_true, if_false, h1, h2]
  cases isApp p.cur key <;> rfl

/-! ## the stack/heap buffer collects every byte -/

theorem SBuf.sputc_inv (N : Nat) (hN : 1 ≤ N) (hb : Gen.sbStoreBumps = true) (b : SBuf) (c : UInt8)
    (h1 : b.data.length ≤ b.cap) (h2 : b.onStack = true → b.cap = N) (h3 : 1 ≤ b.cap) :
    (b.sputc N c).data = b.data ++ [c] ∧ (b.sputc N c).data.length ≤ (b.sputc N c).cap ∧
      ((b.sputc N c).onStack = true → (b.sputc N c).cap = N) ∧ 1 ≤ (b.sputc N c).cap := by
  unfold SBuf.sputc
  by_cases hroom : b.data.length < b.cap
  · simp only [hroom, if_true, List.length_append, List.length_cons, List.length_nil]
    exact ⟨trivial, by omega, h2, h3⟩
  · have hfull : b.data.length = b.cap := by omega
    simp only [hroom, if_false]
    have hov : ∃ new, b.data.length < new ∧ b.overflow N c = ⟨new, b.data ++ [c], false⟩ := by
      cases hs : b.onStack with
      | true =>
        have hc := h2 hs
        have htake : b.data.take (Gen.sbStackCur N) = b.data := List.take_of_length_le (by simp [Gen.sbStackCur]; omega)
        have hlt : b.data.length < Gen.sbStackNew N := by simp [Gen.sbStackNew]; omega
        exact ⟨Gen.sbStackNew N, hlt, by simp [SBuf.overflow, hb, hs, htake, hlt]⟩
      | false =>
        have hlt : b.data.length < Gen.sbHeapNew b.data.length := by simp [Gen.sbHeapNew]; omega
        exact ⟨Gen.sbHeapNew b.data.length, hlt, by simp [SBuf.overflow, hb, hs, hlt]⟩
    obtain ⟨new, hlt, hov⟩ := hov
    rw [hov]
    refine ⟨rfl, ?_, ?_⟩
    · simp only [List.length_append, List.length_cons, List.length_nil]; omega
    · exact ⟨(by intro h; cases h), (by show 1 ≤ new; omega)⟩

theorem SBuf.write_data (N : Nat) (hN : 1 ≤ N) (hb : Gen.sbStoreBumps = true) (s : Bytes) (b : SBuf)
    (h1 : b.data.length ≤ b.cap) (h2 : b.onStack = true → b.cap = N) (h3 : 1 ≤ b.cap) :
    (b.write N s).data = b.data ++ s := by
  induction s generalizing b with
  | nil => simp [SBuf.write]
  | cons c cs ih =>
    obtain ⟨e, i1, i2, i3⟩ := SBuf.sputc_inv N hN hb b c h1 h2 h3
    have := ih (b.sputc N c) i1 i2 i3
    simp only [SBuf.write, List.foldl_cons] at this ⊢
    rw [this, e]; simp

/-! ## map upwards, dispatch downwards -/

theorem route_fuel_irrelevant (rx : Rx) (req : Option Bytes) :
    ∀ (f1 f2 : Nat) (o : Opts) (url : Bytes), o.depth < f1 → o.depth < f2 →
      Spec.route rx req f1 o url = Spec.route rx req f2 o url := by
  intro f1
  induction f1 with
  | zero => intro f2 o url h; omega
  | succ f1 ih =>
    intro f2 o url h1 h2
    cases f2 with
    | zero => omega
    | succ f2 =>
      cases hf : o.level.find? (Spec.takes rx req url) with
      | none => simp only [Spec.route, hf]
      | some e =>
        cases e with
        | leaf l => simp only [Spec.route, hf]
        | mount re sel child =>
          have hmem := List.mem_of_find?_eq_some hf
          have := depth_of_mem_level hmem
          cases hw : Spec.whole rx re url with
          | none => simp only [Spec.route, hf, hw]
          | some raw =>
            simp only [Spec.route, hf, hw]
            rw [ih f2 child _ (by omega) (by omega)]

/-- "routing `u` from `o` succeeds and what is observed is `evs`" — at any sufficient fuel -/
def RoutesTo (rx : Rx) (req : Option Bytes) (o : Opts) (u : Bytes) (evs : List Event) : Prop :=
  ∀ fuel, o.depth < fuel → Spec.route rx req fuel o u = (true, evs)

theorem stepOk_routes {rx : Rx} {req : Option Bytes} {o child : Opts} {u uChild : Bytes} {evs : List Event}
    (hstep : stepOk rx req o child u uChild = true)
    (hc : RoutesTo rx req child uChild evs) : RoutesTo rx req o u (stepBefore rx req o u ++ evs) := by
  intro fuel hfuel
  cases fuel with
  | zero => omega
  | succ fuel =>
    unfold stepOk at hstep
    simp only [Spec.route]
    cases hf : o.level.find? (Spec.takes rx req u) with
    | none => simp [hf] at hstep
    | some e =>
      cases e with
      | leaf l => simp [hf] at hstep
      | mount re sel c =>
        simp only [hf, Bool.and_eq_true, beq_iff_eq] at hstep
        obtain ⟨hcc, hw⟩ := hstep
        subst hcc
        have hmem := List.mem_of_find?_eq_some hf
        have hd := depth_of_mem_level hmem
        cases hwr : Spec.whole rx re u with
        | none => simp [hwr] at hw
        | some raw =>
          simp only [hwr, beq_iff_eq] at hw
          simp only [hwr, hw, stepBefore]
          rw [hc fuel (by omega)]
          simp

theorem rootOf_cons (child o : Opts) (os : List Opts) : rootOf child (o :: os) = rootOf o os := by
  simp [rootOf, List.getLast_cons]

theorem consistentUp_spec (rx : Rx) (req : Option Bytes) (helpers overrides : List (Bytes × Bytes)) (expected : List Event) :
    ∀ (up : List (MNode × Bytes)) (os : List Opts) (child : Opts) (uChild : Bytes) (evs : List Event),
      consistentUp rx req helpers overrides expected up os child uChild evs = true →
      RoutesTo rx req child uChild evs →
      ∃ ts u, collectUp up = .ok ts ∧ wrapUp helpers overrides ts uChild = .ok u ∧
        RoutesTo rx req (rootOf child os) u expected := by
  intro up
  induction up with
  | nil =>
    intro os child uChild evs h hr
    cases os with
    | nil =>
      simp only [consistentUp, beq_iff_eq] at h
      subst h
      exact ⟨[], uChild, rfl, rfl, by simpa [rootOf] using hr⟩
    | cons o os => simp [consistentUp] at h
  | cons nn up ih =>
    intro os child uChild evs h hr
    obtain ⟨n, name⟩ := nn
    cases os with
    | nil => simp [consistentUp] at h
    | cons o os =>
      simp only [consistentUp] at h
      cases hg : getEntry n name 1 with
      | error e => simp [hg] at h
      | ok tc =>
        obtain ⟨t, c⟩ := tc
        simp only [hg] at h
        cases hw : writeTpl t [uChild] helpers overrides with
        | error e => simp [hw] at h
        | ok u =>
          simp only [hw, Bool.and_eq_true] at h
          obtain ⟨hstep, hup⟩ := h
          obtain ⟨ts, u', hts, hwrap, hroot⟩ := ih os o u _ hup (stepOk_routes hstep hr)
          refine ⟨t :: ts, u', ?_, ?_, ?_⟩
          · simp [collectUp, hg, hts]
          · simp [wrapUp, hw, hwrap]
          · rw [rootOf_cons]; exact hroot

/-- **Local consistency composes**: the URL the mapper builds (below `root`) is routed from the
outermost application with exactly the `expected` observations. -/
theorem consistent_spec (rx : Rx) (req : Option Bytes) (ctx : MCtx) (overrides : List (Bytes × Bytes)) (p : MPos)
    (cur : Opts) (anc : List Opts) (key : Bytes) (params : List Bytes) (expected : List Event)
    (h : Consistent rx req ctx overrides p cur anc key params expected = true) :
    ∃ u, mapRel ctx p key params overrides = .ok u ∧
      Spec.main rx req (rootOf cur anc) u = expected := by
  unfold Consistent at h
  cases hg : getEntry p.cur key params.length with
  | error e => simp [hg] at h
  | ok tc =>
    obtain ⟨t, c⟩ := tc
    simp only [hg] at h
    cases hw : writeTpl t params ctx.helpers overrides with
    | error e => simp [hw] at h
    | ok u =>
      simp only [hw, Bool.and_eq_true] at h
      obtain ⟨hleaf, hup⟩ := h
      have hr : RoutesTo rx req cur u (Spec.route rx req (cur.depth + 1) cur u).2 := by
        intro fuel hf
        rw [route_fuel_irrelevant rx req fuel (cur.depth + 1) cur u hf (by omega)]
        exact Prod.ext hleaf rfl
      obtain ⟨ts, u', hts, hwrap, hroot⟩ := consistentUp_spec rx req ctx.helpers overrides expected p.up anc cur u _ hup hr
      refine ⟨u', ?_, ?_⟩
      · simp [mapRel, hg, hts, hw, hwrap]
      · unfold Spec.main
        rw [hroot _ (by omega)]
        simp

theorem appMain_eq_main (rx : Rx) {q : Quirks} (hq : q.Fixed) (hm : MethodClassAZ) (hs : RxSound rx)
    (req : Option Bytes) (o : Opts) (url : Bytes) : appMain rx q req o url = Spec.main rx req o url := by
  unfold appMain Spec.main
  rw [dispatch_eq_route rx hq hm hs req (o.depth + 1) o url (by omega)]

end Cppcms.C20
