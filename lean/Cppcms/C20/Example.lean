import Cppcms.C20.Model
import Cppcms.C20.Spec
import Cppcms.C20.Consistent
/-!
# C20 — a concrete engine and a depth-3 site used by the non-vacuity `example`s in `Props.lean`

The engine is a finite table of raw answers (as libpcre would give them for these patterns), so that
every hypothesis (`RxSound`, `Consistent`, …) can be checked by evaluation.
-/
namespace Cppcms.C20.Ex
open Cppcms Cppcms.C20

instance instDecEqExcept {ε α : Type} [DecidableEq ε] [DecidableEq α] : DecidableEq (Except ε α)
  | .ok a, .ok b => if h : a = b then isTrue (by rw [h]) else isFalse (by intro e; cases e; exact h rfl)
  | .error a, .error b => if h : a = b then isTrue (by rw [h]) else isFalse (by intro e; cases e; exact h rfl)
  | .ok _, .error _ => isFalse (by intro e; cases e)
  | .error _, .ok _ => isFalse (by intro e; cases e)

/-- patterns of the example site -/
def exPat_about : Bytes := [47, 97, 98, 111, 117, 116]  -- /about
def exPat_blogm : Bytes := [47, 98, 108, 111, 103, 40, 47, 46, 42, 41]  -- /blog(/.*)
def exPat_post : Bytes := [47, 112, 111, 115, 116, 47, 40, 92, 100, 43, 41]  -- /post/(\d+)
def exPat_um : Bytes := [47, 117, 40, 47, 46, 42, 41]  -- /u(/.*)
def exPat_profile : Bytes := [47, 112, 114, 111, 102, 105, 108, 101, 47, 40, 91, 97, 45, 122, 93, 43, 41, 47, 40, 92, 100, 43, 41]  -- /profile/([a-z]+)/(\d+)

/-- the example engine's answers (everything else: no match) -/
def exTable : List (Bytes × Bytes × Raw) := [
  (exPat_profile, [47, 112, 114, 111, 102, 105, 108, 101, 47, 98, 111, 98, 47, 55], ((0, 14), [(9, 12), (13, 14)])),
  (exPat_um, [47, 117, 47, 112, 114, 111, 102, 105, 108, 101, 47, 98, 111, 98, 47, 55], ((0, 16), [(2, 16)])),
  (exPat_blogm, [47, 98, 108, 111, 103, 47, 117, 47, 112, 114, 111, 102, 105, 108, 101, 47, 98, 111, 98, 47, 55], ((0, 21), [(5, 21)])),
  (exPat_post, [47, 112, 111, 115, 116, 47, 52, 50], ((0, 8), [(6, 8)])),
  (exPat_blogm, [47, 98, 108, 111, 103, 47, 112, 111, 115, 116, 47, 52, 50], ((0, 13), [(5, 13)])),
  (exPat_about, [47, 97, 98, 111, 117, 116], ((0, 6), [])),
  (exPat_about, [47, 97, 98, 111, 117, 116, 88], ((0, 6), []))]

def exCounts : List (Bytes × Nat) := [(exPat_about, 0), (exPat_blogm, 1), (exPat_post, 1), (exPat_um, 1), (exPat_profile, 2)]

def exRx : Rx where
  info pat _ := (exCounts.find? (·.1 == pat)).map (·.2)
  exec pat _ s := (exTable.find? fun e => e.1 == pat && e.2.1 == s).map (·.2.2)

def re (p : Bytes) : Regex := ⟨p, {}⟩

def tplOf (s : Bytes) : Tpl :=
  match parseTpl s false with
  | .ok (t, _) => t
  | .error _ => ⟨[], [], []⟩

-- dispatcher side: root ⊃ blog ⊃ users
def usersOpts : Opts := .leaf ⟨3, re exPat_profile, none, .hN [1, 2]⟩ .nil
def blogOpts : Opts := .leaf ⟨2, re exPat_post, none, .hN [1]⟩ (.mount (re exPat_um) 1 usersOpts .nil)
def rootOpts : Opts := .leaf ⟨1, re exPat_about, none, .h0⟩ (.mount (re exPat_blogm) 1 blogOpts .nil)

-- mapper side: keys "about" | "blog" ⊃ ("post" | "users" ⊃ "profile")
def kAbout : Bytes := [97, 98, 111, 117, 116]
def kBlog : Bytes := [98, 108, 111, 103]
def kPost : Bytes := [112, 111, 115, 116]
def kUsers : Bytes := [117, 115, 101, 114, 115]
def kProfile : Bytes := [112, 114, 111, 102, 105, 108, 101]
def usersM : MNode := .url kProfile 2 (tplOf [47, 112, 114, 111, 102, 105, 108, 101, 47, 123, 49, 125, 47, 123, 50, 125]) .nil
def blogM : MNode := .url kPost 1 (tplOf [47, 112, 111, 115, 116, 47, 123, 49, 125]) (.app kUsers (tplOf [47, 117, 123, 49, 125]) usersM .nil)
def rootM : MNode := .url kAbout 0 (tplOf [47, 97, 98, 111, 117, 116]) (.app kBlog (tplOf [47, 98, 108, 111, 103, 123, 49, 125]) blogM .nil)

/-- the `users` application's mapper, two levels below the root -/
def usersPos : MPos := ⟨usersM, [(blogM, kUsers), (rootM, kBlog)]⟩

def ctx : MCtx := { root := [47, 114, 111, 111, 116], helpers := [] }
def GET : Bytes := [71, 69, 84]
def bob : Bytes := [98, 111, 98]
def seven : Bytes := [55]
def profileUrl : Bytes := [47, 98, 108, 111, 103, 47, 117, 47, 112, 114, 111, 102, 105, 108, 101, 47, 98, 111, 98, 47, 55]
def aboutX : Bytes := [47, 97, 98, 111, 117, 116, 88]

end Cppcms.C20.Ex
