import Cppcms.C20.LemmasMapper
/-!
# C20 — `url_mapper::real_assign` / `data::write` on the general template grammar

A template is `l₀ {p₁} l₁ {p₂} … tail` with brace-free literals and placeholders that are either an index
(a non-empty string of ASCII digits of any length, read with `atoi`) or a keyword (non-empty, not all digits, no `}`).
-/
namespace Cppcms.C20
open Cppcms

inductive Ph where
  | idx (ds : Bytes)
  | kw (k : Bytes)
deriving DecidableEq, Repr

def Ph.text : Ph → Bytes
  | .idx ds => ds
  | .kw k => k

/-- what `real_assign` stores for a placeholder: the `int` index (0 for a keyword) and the key -/
def Ph.index : Ph → Int
  | .idx ds => atoiDigits ds
  | .kw _ => 0

/-- `max_index = std::max(index,max_index)` — only for index placeholders -/
def Ph.bump (m : Int) : Ph → Int
  | .idx ds => max (atoiDigits ds) m
  | .kw _ => m

def Ph.key : Ph → Bytes
  | .idx _ => []
  | .kw k => k

/-- well-formed placeholder: the text between the braces has no `}`, is not empty, and is either all digits with a
non-zero `atoi` value or contains a non-digit -/
def Ph.Ok : Ph → Prop
  | .idx ds => ds ≠ [] ∧ ds.any (fun c => Gen.tplNotDigit c.toNat) = false ∧ atoiDigits ds ≠ 0
  | .kw k => k.any (fun c => Gen.tplNotDigit c.toNat) = true ∧ ∀ c ∈ k, c.toNat ≠ Gen.tplClose

def bOpen : UInt8 := UInt8.ofNat Gen.tplOpen
def bClose : UInt8 := UInt8.ofNat Gen.tplClose

/-- `l₁{p₁}l₂{p₂}…` without the tail -/
def tplPre : List (Bytes × Ph) → Bytes
  | [] => []
  | (l, p) :: segs => l ++ bOpen :: (p.text ++ bClose :: tplPre segs)

def GSegsOk (segs : List (Bytes × Ph)) : Prop := ∀ lp ∈ segs, BraceFree lp.1 ∧ lp.2.Ok

theorem notDigit_not_close (ds : Bytes) (h : ds.any (fun c => Gen.tplNotDigit c.toNat) = false) :
    ∀ c ∈ ds, c.toNat ≠ Gen.tplClose := by
  intro c hc hcl
  have := List.any_eq_false.1 h c hc
  rw [hcl] at this
  exact absurd (by decide : Gen.tplNotDigit Gen.tplClose = true) (by simpa using this)

theorem tplPlaceholder_ok (a : TplAcc) (p : Ph) (hp : p.Ok) :
    tplPlaceholder a p.text =
      .ok { parts := a.parts, indexes := a.indexes ++ [p.index], keys := a.keys ++ [p.key],
            maxIdx := p.bump a.maxIdx } := by
  cases p with
  | idx ds =>
    obtain ⟨hne, hd, h0⟩ := hp
    have he : ds.isEmpty = false := by cases ds <;> simp_all
    simp [tplPlaceholder, Ph.text, Ph.index, Ph.key, Ph.bump, he, hd, h0]
  | kw k =>
    obtain ⟨hnd, _⟩ := hp
    have he : k.isEmpty = false := by cases k <;> simp_all
    simp [tplPlaceholder, Ph.text, Ph.index, Ph.key, Ph.bump, he, hnd]

theorem Ph.Ok.noClose {p : Ph} (hp : p.Ok) : ∀ c ∈ p.text, c.toNat ≠ Gen.tplClose := by
  cases p with
  | idx ds => exact notDigit_not_close ds hp.2.1
  | kw k => exact hp.2

/-- scanning a well-formed prefix: all its parts/indexes/keys are recorded and the scanner is back in literal mode -/
theorem tplScan_pre (segs : List (Bytes × Ph)) (hs : GSegsOk segs) (cur : Bytes) (a : TplAcc) (rest : Bytes) :
    tplScan false cur a (tplPre segs ++ rest) =
      match segs with
      | [] => tplScan false cur a rest
      | (l, _) :: more =>
        tplScan false []
          { parts := a.parts ++ (cur.reverse ++ l) :: more.map (·.1),
            indexes := a.indexes ++ segs.map (·.2.index),
            keys := a.keys ++ segs.map (·.2.key),
            maxIdx := segs.foldl (fun m lp => lp.2.bump m) a.maxIdx } rest := by
  induction segs generalizing cur a with
  | nil => simp [tplPre]
  | cons lp more ih =>
    obtain ⟨l, p⟩ := lp
    have hlp := hs (l, p) (by simp)
    have hmore : GSegsOk more := fun x hx => hs x (by simp [hx])
    have ho : bOpen.toNat = Gen.tplOpen := by decide
    simp only [tplPre, List.append_assoc, List.cons_append]
    rw [tplScan_text l hlp.1]
    simp only [tplScan, Bool.false_eq_true, if_false, ho, if_true]
    have := tplScan_inside p.text hlp.2.noClose [] { a with parts := a.parts ++ [(l.reverse ++ cur).reverse] } (tplPre more ++ rest)
    simp only [bClose] at this ⊢
    rw [this, List.reverse_nil, List.nil_append, tplPlaceholder_ok _ p hlp.2]
    simp only
    rw [ih hmore]
    cases more with
    | nil => simp
    | cons lp' more' => obtain ⟨l', p'⟩ := lp'; simp

/-- **Parsing, general grammar.**  `l₁{p₁}…lₙ{pₙ}tail` with well-formed placeholders parses to exactly its literals,
its indexes (`atoi` of the digit strings, 0 for keywords) and keys; the arity is the largest index (0 if none is positive). -/
theorem parseTpl_general (segs : List (Bytes × Ph)) (hs : GSegsOk segs) (tail : Bytes) (ht : BraceFree tail) :
    parseTpl (tplPre segs ++ tail) false =
      .ok (⟨segs.map (·.1) ++ [tail], segs.map (·.2.index), segs.map (·.2.key)⟩,
           (segs.foldl (fun m lp => lp.2.bump m) (0 : Int)).toNat) := by
  unfold parseTpl
  rw [tplScan_pre segs hs]
  cases segs with
  | nil => simp [tplScan_tail tail ht]
  | cons lp more => obtain ⟨l, p⟩ := lp; simp [tplScan_tail tail ht]

/-- **Error ordering.**  After any well-formed prefix, the first malformed construct decides the error, whatever follows:
`{}` → emptyIndex, an all-digit placeholder whose `atoi` is 0 (`{0}`, `{00}`, `{4294967296}`) → zeroIndex, a `}` outside a
placeholder → strayClose, a `{` that is never closed → unclosed. -/
theorem parseTpl_error_order (segs : List (Bytes × Ph)) (hs : GSegsOk segs) (a : Bytes) (ha : BraceFree a) (rest : Bytes)
    (isApp : Bool) :
    parseTpl (tplPre segs ++ (a ++ bOpen :: bClose :: rest)) isApp = .error .emptyIndex ∧
    (∀ ds, ds ≠ [] → ds.any (fun c => Gen.tplNotDigit c.toNat) = false → atoiDigits ds = 0 →
        parseTpl (tplPre segs ++ (a ++ bOpen :: (ds ++ bClose :: rest))) isApp = .error .zeroIndex) ∧
    parseTpl (tplPre segs ++ (a ++ bClose :: rest)) isApp = .error .strayClose ∧
    ((∀ c ∈ rest, c.toNat ≠ Gen.tplClose) → parseTpl (tplPre segs ++ (a ++ bOpen :: rest)) isApp = .error .unclosed) := by
  have ho : bOpen.toNat = Gen.tplOpen := by decide
  have hcl : bClose.toNat = Gen.tplClose := by decide
  have hco : Gen.tplClose ≠ Gen.tplOpen := by decide
  -- whatever the state after the prefix is, the continuation fails the same way
  have key : ∀ (cur : Bytes) (acc : TplAcc),
      tplScan false cur acc (a ++ bOpen :: bClose :: rest) = .error .emptyIndex ∧
      (∀ ds, ds ≠ [] → ds.any (fun c => Gen.tplNotDigit c.toNat) = false → atoiDigits ds = 0 →
        tplScan false cur acc (a ++ bOpen :: (ds ++ bClose :: rest)) = .error .zeroIndex) ∧
      tplScan false cur acc (a ++ bClose :: rest) = .error .strayClose ∧
      ((∀ c ∈ rest, c.toNat ≠ Gen.tplClose) → tplScan false cur acc (a ++ bOpen :: rest) = .error .unclosed) := by
    intro cur acc
    refine ⟨?_, ?_, ?_, ?_⟩
    · rw [tplScan_text a ha]; simp [tplScan, ho, hcl, tplPlaceholder]
    · intro ds hne hd h0
      rw [tplScan_text a ha]
      simp only [tplScan, Bool.false_eq_true, if_false, ho, if_true]
      have := tplScan_inside ds (notDigit_not_close ds hd) [] { acc with parts := acc.parts ++ [(a.reverse ++ cur).reverse] } rest
      simp only [bClose] at this ⊢
      rw [this]
      have he : ds.isEmpty = false := by cases ds <;> simp_all
      simp [tplPlaceholder, he, hd, h0]
    · rw [tplScan_text a ha]; simp [tplScan, hcl, hco]
    · intro hr
      rw [tplScan_text a ha]
      simp [tplScan, ho, tplScan_inside_unclosed rest hr]
  unfold parseTpl
  cases segs with
  | nil =>
    simp only [tplPre, List.nil_append]
    obtain ⟨k1, k2, k3, k4⟩ := key [] {}
    refine ⟨by rw [k1], fun ds h1 h2 h3 => by rw [k2 ds h1 h2 h3], by rw [k3], fun hr => by rw [k4 hr]⟩
  | cons lp more =>
    obtain ⟨l, p⟩ := lp
    simp only [tplScan_pre ((l, p) :: more) hs]
    obtain ⟨k1, k2, k3, k4⟩ := key [] _
    refine ⟨by rw [k1], fun ds h1 h2 h3 => by rw [k2 ds h1 h2 h3], by rw [k3], fun hr => by rw [k4 hr]⟩

/-- `atoi` of a digit string that denotes a number below 2³¹ is that number: `{10}`, `{123}` are what they look like -/
theorem atoiDigits_small (ds : Bytes) (h : ds.foldl (fun acc c => acc * 10 + (c.toNat - 48)) 0 < 2 ^ 31) :
    atoiDigits ds = Int.ofNat (ds.foldl (fun acc c => acc * 10 + (c.toNat - 48)) 0) := by
  unfold atoiDigits
  generalize ds.foldl (fun acc c => acc * 10 + (c.toNat - 48)) 0 = v at h ⊢
  have h1 : ¬ v ≥ 2 ^ 63 := by omega
  have h2 : v % 2 ^ 32 = v := Nat.mod_eq_of_lt (by omega)
  have h3 : ¬ v ≥ 2 ^ 31 := by omega
  simp [h1, h2, h3]

/-! ## instantiation -/

/-- what a placeholder is replaced with; `none`: its index is not in `1..params.length` -/
def Ph.value (params : List Bytes) (helpers overrides : List (Bytes × Bytes)) (p : Ph) : Option Bytes :=
  if p.index = 0 then
    some (match lookupKV overrides p.key with
          | some v => v
          | none => (lookupKV helpers p.key).getD [])
  else if p.index < 0 then none
  else params[p.index.toNat - 1]?

def instG (params : List Bytes) (helpers overrides : List (Bytes × Bytes)) : List (Bytes × Ph) → Bytes → Option Bytes
  | [], tail => some tail
  | (l, p) :: segs, tail =>
    match p.value params helpers overrides, instG params helpers overrides segs tail with
    | some v, some r => some (l ++ v ++ r)
    | _, _ => none

theorem writeTpl_go_general (params : List Bytes) (helpers overrides : List (Bytes × Bytes))
    (segs : List (Bytes × Ph)) (tail : Bytes) (acc : Bytes) :
    writeTpl.go params helpers overrides (segs.map (·.1) ++ [tail]) (segs.map (·.2.index)) (segs.map (·.2.key)) acc =
      match instG params helpers overrides segs tail with
      | some r => .ok (acc ++ r)
      | none => .error .indexRange := by
  induction segs generalizing acc with
  | nil => simp [writeTpl.go, instG]
  | cons lp rest ih =>
    obtain ⟨l, p⟩ := lp
    simp only [List.map_cons, List.cons_append, writeTpl.go, List.headD_cons, List.drop_one, List.tail_cons, instG, Ph.value]
    by_cases h0 : p.index = 0
    · simp only [h0, if_true, ih]
      cases instG params helpers overrides rest tail with
      | none => simp
      | some r => simp only [List.append_assoc]; cases lookupKV overrides p.key <;> rfl
    · simp only [h0, if_false]
      by_cases hneg : p.index < 0
      · simp [hneg]
      · simp only [hneg, if_false]
        cases hp : params[p.index.toNat - 1]? with
        | none => simp
        | some v =>
          simp only [ih]
          cases instG params helpers overrides rest tail <;> simp

/-- **Instantiation, general grammar**: every index placeholder is replaced by its parameter, every keyword by the
call's keyword parameter, else the `set_value` helper, else nothing; if any index is outside `1..#params` (also a
negative one from an overflowing digit string) the result is the error `indexRange`. -/
theorem writeTpl_general (params : List Bytes) (helpers overrides : List (Bytes × Bytes))
    (segs : List (Bytes × Ph)) (tail : Bytes) :
    writeTpl ⟨segs.map (·.1) ++ [tail], segs.map (·.2.index), segs.map (·.2.key)⟩ params helpers overrides =
      match instG params helpers overrides segs tail with
      | some r => .ok r
      | none => .error .indexRange := by
  unfold writeTpl
  simpa using writeTpl_go_general params helpers overrides segs tail []

end Cppcms.C20
