import Cppcms.C12.Roundtrip
/-!
# C12 property theorems

Uploaded form data is reconstructed exactly under any chunking, within limits.
Everything here is about the model in `Model.lean` (tied to the C++ by `translate/c12.py`,
`gen_tie`, and the correspondence runs of `checks/c12.py`).
-/
namespace Cppcms.C12.Props
open Cppcms Cppcms.C12

/-! ## the model's constants are the source's constants -/

theorem gen_matches_model : Gen.stateNames.length = 8 ∧ Gen.boundaryPrefix = [13, 10, 45, 45]
    ∧ Gen.crlfcrlf = [13, 10, 13, 10] ∧ Gen.initPos = 2
    ∧ Gen.simpleTrans = [(St.minus.idx, 45, St.eofCr.idx), (St.eofCr.idx, 13, St.eofLf.idx), (St.lf.idx, 10, St.crlfcrlf.idx)]
    ∧ Gen.crlfOrEofTrans = [(13, St.lf.idx), (45, St.minus.idx)] ∧ Gen.eofLfByte = 10 := by
  have := gen_tie
  decide

/-- the literal `while(begin!=end){ r = consume(begin,end); switch(r) … }` loop of
`on_content_progress` equals the single structural loop the other theorems talk about -/
theorem loop_inlined (cfg : Cfg) (atLen : Bool) (buf : Bytes) (p : P) (r : Res) :
    wloop cfg atLen buf.length p buf r = ploop cfg atLen p buf r :=
  wloop_eq_ploop cfg atLen buf buf.length p r (Nat.le_refl _)

/-! ## chunking independence -/

/-- **Any chunking gives the outcome of the single-chunk delivery** — status code *and*
delivered parts — for every byte string, every boundary, every limit configuration, every
chunk list (empty chunks allowed) that stays within `content_length` (what `get_buffer`
guarantees). -/
theorem any_chunking_eq_single (cfg : Cfg) (cl : Nat) (cs : List Bytes) (s : RS)
    (hlen : s.read + cs.flatten.length ≤ cl) :
    run cfg cl s cs = run cfg cl s [cs.flatten] :=
  run_flatten cfg cl cs s hlen

theorem chunking_independent (cfg : Cfg) (cl : Nat) (cs₁ cs₂ : List Bytes)
    (hjoin : cs₁.flatten = cs₂.flatten) (hlen : cs₁.flatten.length ≤ cl) :
    run cfg cl {} cs₁ = run cfg cl {} cs₂ := by
  have h0 : ({} : RS).read = 0 := rfl
  rw [run_flatten cfg cl cs₁ {} (by rw [h0]; omega), run_flatten cfg cl cs₂ {} (by rw [h0, ← hjoin]; omega), hjoin]

/-- the same for the whole request (limits checked up front, multipart / urlencoded /
other bodies): what the application sees depends only on the bytes, not on the cuts -/
theorem request_chunking_independent (lim : Limits) (contentType : Bytes) (cl : Nat) (cs₁ cs₂ : List Bytes)
    (hjoin : cs₁.flatten = cs₂.flatten) (hlen : cs₁.flatten.length ≤ cl) :
    request lim contentType cl cs₁ = request lim contentType cl cs₂ := by
  unfold request
  cases start lim contentType cl with
  | error code => rfl
  | ok m =>
    cases m with
    | empty => rfl
    | full ue => simp only [hjoin]
    | multipart cfg => simp only [chunking_independent cfg cl cs₁ cs₂ hjoin hlen]

example : run { boundary := [13, 10, 45, 45, 120], memLimit := 0, diskOk := true, fieldLimit := 10 } 9 {}
    [[45, 45, 120, 45], [45, 13, 10]] = .error 400 := by decide
example : run { boundary := [13, 10, 45, 45, 120], memLimit := 0, diskOk := true, fieldLimit := 10 } 7 {}
    [[45, 45, 120, 45], [], [45, 13], [10]] = .ready [] := by decide

/-! ## the boundary matcher -/

/-- **matcher_correct**: inside a part, content that does not contain the delimiter, followed
by the delimiter, is emitted exactly (byte for byte), the part is closed, `consume` returns
`content_ready` and leaves the buffer right after the delimiter.  The guard `13 ∉ bkey` is
essential (see `matcher_needs_guard_counterexample`). -/
theorem matcher_correct (cfg : PCfg) (bkey : Bytes) (hb : cfg.boundary = 13 :: 10 :: 45 :: 45 :: bkey)
    (hcr : (13 : UInt8) ∉ bkey) (hdisk : cfg.diskOk = true)
    (p : P) (hst : p.st = .sepBoundary) (hpos : p.pos = 0) (hd : p.dataRev = [])
    (ct rest : Bytes) (hct : ¬ cfg.boundary <:+: ct) :
    consume cfg p (ct ++ cfg.boundary ++ rest) = (.contentReady, p.close ct.reverse, rest)
    ∧ (p.close ct.reverse).files = p.files ++ [{ name := p.cur.name, filename := p.cur.filename, mime := p.cur.mime, data := ct }] := by
  have g : Guard cfg.boundary := ⟨bkey, hb, hcr⟩
  obtain ⟨pre, c, hsplit, p', hf, hs⟩ := consume_content cfg g hdisk p hst hpos hd ct [] (noEarly_of_not_infix g hct)
  constructor
  · rw [hsplit, List.append_assoc, consume_pfold cfg pre _ p p' hf]
    simp [consume, hs]
  · simp [P.close, P.files]

example : consume { boundary := [13, 10, 45, 45, 120, 121], memLimit := 0, diskOk := true }
      { st := .sepBoundary, pos := 0 } ([120, 13, 10, 45, 45, 120, 45] ++ [13, 10, 45, 45, 120, 121] ++ [13, 10])
    = (.contentReady, ({ st := .sepBoundary, pos := 0 } : P).close [120, 13, 10, 45, 45, 120, 45].reverse, [13, 10]) := by
  decide

/-- With a CR inside the boundary key the hand-rolled restart misses a delimiter: boundary
key `x\r\n--xy`, content `\r\n--x` (which does not contain the delimiter), then the
delimiter: the parser never reports the end of the part. -/
theorem matcher_needs_guard_counterexample :
    let cfg : PCfg := { boundary := [13, 10, 45, 45, 120, 13, 10, 45, 45, 120, 121], memLimit := 0, diskOk := true }
    let ct : Bytes := [13, 10, 45, 45, 120]
    ¬ cfg.boundary <:+: ct ∧
    (consume cfg { st := .sepBoundary, pos := 0 } (ct ++ cfg.boundary)).1 = .contentPartial := by
  constructor
  · intro h; have := h.length_le; simp at this
  · decide

/-! ## round trip -/

/-- a part as written into a body: header block `hdr` (accepted by the parser as a whole and
read as `info`), content without the delimiter, field size within the limit -/
def ItemWF (cfg : Cfg) (bkey : Bytes) (it : Item) : Prop :=
  headerOK it.hdr it.info = true ∧ ¬ Spec.delimiter bkey <:+: it.data
    ∧ (it.info.mime = [] → it.data.length ≤ cfg.fieldLimit)

/-- **multipart_roundtrip** (body level): a body built from header blocks the parser accepts
and contents that do not contain the delimiter, delivered in *any* chunking, yields exactly
those parts — names, file names, MIME types, contents byte for byte, in order — and
status 0. -/
theorem multipart_roundtrip (cfg : Cfg) (bkey : Bytes) (hb : cfg.boundary = Spec.delimiter bkey)
    (hcr : (13 : UInt8) ∉ bkey) (hdisk : cfg.diskOk = true) (items : List Item)
    (hwf : ∀ it ∈ items, ItemWF cfg bkey it) (cs : List Bytes)
    (hcs : Spec.IsChunking cs (Spec.encodeWith bkey (items.map fun it => (it.hdr, it.data)))) :
    run cfg cs.flatten.length {} cs = .ready (items.map Item.part) := by
  have hb' : cfg.boundary = 13 :: 10 :: 45 :: 45 :: bkey := by rw [hb]; rfl
  have g : Guard cfg.boundary := ⟨bkey, hb', hcr⟩
  have h0 : ({} : RS).read = 0 := rfl
  rw [run_flatten cfg _ cs {} (by rw [h0]; omega)]
  apply run_single_roundtrip cfg bkey hb' hcr hdisk items _ _ hcs
  intro it hit
  obtain ⟨h1, h2, h3⟩ := hwf it hit
  refine ⟨h1, noEarly_of_not_infix g (by rw [hb]; exact h2), ?_⟩
  unfold sizeOk
  by_cases hm : it.info.mime = []
  · have := h3 hm; simp [hm]; omega
  · simp [hm]

end Cppcms.C12.Props
