import Cppcms.C12.Roundtrip
import Cppcms.C12.Feed
import Cppcms.C12.Form
import Cppcms.C12.Header
import Cppcms.C12.Limits
import Cppcms.C12.EndToEnd
import Cppcms.C12.Events
import Cppcms.C12.Readback
import Cppcms.C12.Accept
import Cppcms.C12.FileBufferProofs
/-!
# C12 property theorems

Uploaded form data is reconstructed exactly under any chunking, within limits.
Everything here is about the model in `Model.lean` (tied to the C++ by `translate/c12.py`,
`gen_tie`, and the correspondence runs of `checks/c12.py`).
-/
namespace Cppcms.C12.Props
open Cppcms Cppcms.C12

/-! ## the model's constants are the source's constants -/

theorem gen_matches_model : Gen.stateNames.length = 8 ∧ Gen.boundaryPrefix = [13, 10, 45, 45]
    ∧ Gen.crlfcrlf = [13, 10, 13, 10] ∧ Gen.initPos = 2
    ∧ Gen.simpleTrans = [(St.minus.idx, 45, St.eofCr.idx), (St.eofCr.idx, 13, St.eofLf.idx), (St.lf.idx, 10, St.crlfcrlf.idx)]
    ∧ Gen.crlfOrEofTrans = [(13, St.lf.idx), (45, St.minus.idx)] ∧ Gen.eofLfByte = 10 := by
  have := gen_tie
  decide

/-- the literal `while(begin!=end){ r = consume(begin,end); switch(r) … }` loop of
`on_content_progress` equals the single structural loop the other theorems talk about -/
theorem loop_inlined (cfg : Cfg) (atLen : Bool) (buf : Bytes) (p : P) (r : Res) :
    wloop cfg atLen buf.length p buf r = ploop cfg atLen p buf r :=
  wloop_eq_ploop cfg atLen buf buf.length p r (Nat.le_refl _)

/-! ## chunking independence -/

/-- **Any chunking gives the outcome of the single-chunk delivery** — status code *and*
delivered parts — for every byte string, every boundary, every limit configuration, every
chunk list (empty chunks allowed) that stays within `content_length` (what `get_buffer`
guarantees). -/
theorem any_chunking_eq_single (cfg : Cfg) (cl : Nat) (cs : List Bytes) (s : RS)
    (hlen : s.read + cs.flatten.length ≤ cl) :
    run cfg cl s cs = run cfg cl s [cs.flatten] :=
  run_flatten cfg cl cs s hlen

theorem chunking_independent (cfg : Cfg) (cl : Nat) (cs₁ cs₂ : List Bytes)
    (hjoin : cs₁.flatten = cs₂.flatten) (hlen : cs₁.flatten.length ≤ cl) :
    run cfg cl {} cs₁ = run cfg cl {} cs₂ := by
  have h0 : ({} : RS).read = 0 := rfl
  rw [run_flatten cfg cl cs₁ {} (by rw [h0]; omega), run_flatten cfg cl cs₂ {} (by rw [h0, ← hjoin]; omega), hjoin]

/-- the same for the whole request (limits checked up front, multipart / urlencoded /
other bodies): what the application sees depends only on the bytes, not on the cuts -/
theorem request_chunking_independent (lim : Limits) (contentType : Bytes) (cl : Nat) (cs₁ cs₂ : List Bytes)
    (hjoin : cs₁.flatten = cs₂.flatten) (hlen : cs₁.flatten.length ≤ cl) :
    request lim contentType cl cs₁ = request lim contentType cl cs₂ := by
  unfold request
  cases start lim contentType cl with
  | error code => rfl
  | ok m =>
    cases m with
    | empty => rfl
    | full ue => simp only [hjoin]
    | multipart cfg => simp only [chunking_independent cfg cl cs₁ cs₂ hjoin hlen]

example : run { boundary := [13, 10, 45, 45, 120], memLimit := 0, diskOk := true, fieldLimit := 10 } 9 {}
    [[45, 45, 120, 45], [45, 13, 10]] = .error 400 := by decide
example : run { boundary := [13, 10, 45, 45, 120], memLimit := 0, diskOk := true, fieldLimit := 10 } 7 {}
    [[45, 45, 120, 45], [], [45, 13], [10]] = .ready [] := by decide

/-! ## the boundary matcher -/

/-- **matcher_correct**: inside a part, content that does not contain the delimiter, followed
by the delimiter, is emitted exactly (byte for byte), the part is closed, `consume` returns
`content_ready` and leaves the buffer right after the delimiter.  The guard `13 ∉ bkey` is
essential (see `matcher_needs_guard_counterexample`). -/
theorem matcher_correct (cfg : PCfg) (bkey : Bytes) (hb : cfg.boundary = 13 :: 10 :: 45 :: 45 :: bkey)
    (hcr : (13 : UInt8) ∉ bkey) (hdisk : cfg.diskOk = true)
    (p : P) (hst : p.st = .sepBoundary) (hpos : p.pos = 0) (hd : p.dataRev = [])
    (ct rest : Bytes) (hct : ¬ cfg.boundary <:+: ct) :
    consume cfg p (ct ++ cfg.boundary ++ rest) = (.contentReady, p.close ct.reverse, rest)
    ∧ (p.close ct.reverse).files = p.files ++ [{ name := p.cur.name, filename := p.cur.filename, mime := p.cur.mime, data := ct }] := by
  have g : Guard cfg.boundary := ⟨bkey, hb, hcr⟩
  obtain ⟨pre, c, hsplit, p', hf, hs⟩ := consume_content cfg g hdisk p hst hpos hd ct [] (noEarly_of_not_infix g hct)
  constructor
  · rw [hsplit, List.append_assoc, consume_pfold cfg pre _ p p' hf]
    simp [consume, hs]
  · simp [P.close, P.files]

example : consume { boundary := [13, 10, 45, 45, 120, 121], memLimit := 0, diskOk := true }
      { st := .sepBoundary, pos := 0 } ([120, 13, 10, 45, 45, 120, 45] ++ [13, 10, 45, 45, 120, 121] ++ [13, 10])
    = (.contentReady, ({ st := .sepBoundary, pos := 0 } : P).close [120, 13, 10, 45, 45, 120, 45].reverse, [13, 10]) := by
  decide

/-- With a CR inside the boundary key the hand-rolled restart misses a delimiter: boundary
key `x\r\n--xy`, content `\r\n--x` (which does not contain the delimiter), then the
delimiter: the parser never reports the end of the part. -/
theorem matcher_needs_guard_counterexample :
    let cfg : PCfg := { boundary := [13, 10, 45, 45, 120, 13, 10, 45, 45, 120, 121], memLimit := 0, diskOk := true }
    let ct : Bytes := [13, 10, 45, 45, 120]
    ¬ cfg.boundary <:+: ct ∧
    (consume cfg { st := .sepBoundary, pos := 0 } (ct ++ cfg.boundary)).1 = .contentPartial := by
  constructor
  · intro h; have := h.length_le; simp at this
  · decide

/-! ## round trip -/

/-- a part as written into a body: header block `hdr` (accepted by the parser as a whole and
read as `info`), content without the delimiter, field size within the limit -/
def ItemWF (cfg : Cfg) (bkey : Bytes) (it : Item) : Prop :=
  headerOK it.hdr it.info = true ∧ ¬ Spec.delimiter bkey <:+: it.data
    ∧ (it.info.mime = [] → it.data.length ≤ cfg.fieldLimit)

/-- **multipart_roundtrip** (body level): a body built from header blocks the parser accepts
and contents that do not contain the delimiter, delivered in *any* chunking, yields exactly
those parts — names, file names, MIME types, contents byte for byte, in order — and
status 0. -/
theorem multipart_roundtrip (cfg : Cfg) (bkey : Bytes) (hb : cfg.boundary = Spec.delimiter bkey)
    (hcr : (13 : UInt8) ∉ bkey) (hdisk : cfg.diskOk = true) (items : List Item)
    (hwf : ∀ it ∈ items, ItemWF cfg bkey it) (cs : List Bytes)
    (hcs : Spec.IsChunking cs (Spec.encodeWith bkey (items.map fun it => (it.hdr, it.data)))) :
    run cfg cs.flatten.length {} cs = .ready (items.map Item.part) := by
  have hb' : cfg.boundary = 13 :: 10 :: 45 :: 45 :: bkey := by rw [hb]; rfl
  have g : Guard cfg.boundary := ⟨bkey, hb', hcr⟩
  have h0 : ({} : RS).read = 0 := rfl
  rw [run_flatten cfg _ cs {} (by rw [h0]; omega)]
  apply run_single_roundtrip cfg bkey hb' hcr hdisk items _ _ hcs
  intro it hit
  obtain ⟨h1, h2, h3⟩ := hwf it hit
  refine ⟨h1, noEarly_of_not_infix g (by rw [hb]; exact h2), ?_⟩
  unfold sizeOk
  by_cases hm : it.info.mime = []
  · have := h3 hm; simp [hm]; omega
  · simp [hm]

/-- **encodeHeader_ok**: the header block `Spec.encodeHeader` writes for a well-formed part
(names without CR/LF — any other byte, including quotes, backslashes, non-ASCII —, MIME type
empty or a plain lower-case `type/subtype`) is accepted by the parser as a whole (the naive
CRLFCRLF scanner stops exactly at its last byte) and read back as that part's name, file name
and MIME type. -/
theorem encodeHeader_ok (bkey : Bytes) (p : Part) (hw : Spec.WFpart bkey p) :
    headerOK (Spec.encodeHeader p) { name := p.name, filename := p.filename, mime := p.mime } = true :=
  encodeHeader_headerOK bkey p hw

/-- **multipart_roundtrip_parts**: for well-formed parts `ps` (see `Spec.WFparts`), fields
within the field limit, a boundary key without CR, and *any* chunking of `Spec.encodeW wfn bkey ps` (`wfn p`: an empty file name of part `p` is written
as `filename=""`, as browsers do for a file input left empty, or omitted; empty names are `name=""`):
the request is accepted and hands over exactly `ps` — names, file names, MIME types,
contents byte for byte, in order. -/
theorem multipart_roundtrip_parts (wfn : Part → Bool) (cfg : Cfg) (bkey : Bytes) (hb : cfg.boundary = Spec.delimiter bkey)
    (hk : Spec.WFbkey bkey) (hdisk : cfg.diskOk = true) (ps : List Part) (hwf : Spec.WFparts bkey ps)
    (hsz : ∀ p ∈ ps, p.mime = [] → p.data.length ≤ cfg.fieldLimit) (cs : List Bytes)
    (hcs : Spec.IsChunking cs (Spec.encodeW wfn bkey ps)) :
    run cfg cs.flatten.length {} cs = .ready ps := by
  let items : List Item := ps.map fun p => { hdr := Spec.encodeHeaderW (wfn p) p, info := metaOf p, data := p.data }
  have hparts : items.map Item.part = ps := by
    simp only [items, List.map_map]
    conv => rhs; rw [← List.map_id ps]
    apply List.map_congr_left
    intro p _
    rfl
  have henc : Spec.encodeWith bkey (items.map fun it => (it.hdr, it.data)) = Spec.encodeW wfn bkey ps := by
    simp only [items, List.map_map, Spec.encodeW]
    rfl
  have := multipart_roundtrip cfg bkey hb hk.2 hdisk items (by
    intro it hit
    simp only [items, List.mem_map] at hit
    obtain ⟨p, hp, rfl⟩ := hit
    exact ⟨encodeHeaderW_headerOK (wfn p) bkey p (hwf p hp), (hwf p hp).2.2, hsz p hp⟩) cs (by rw [henc]; exact hcs)
  rw [this, hparts]

/-- non-vacuity: a field whose name contains a quote and a backslash and whose content is a
delimiter look-alike, and a file, are well formed for boundary key `xy` -/
example : Spec.WFparts [120, 121]
    [{ name := [97, 34, 92], filename := [], mime := [], data := [13, 10, 45, 45, 120, 13, 10, 45, 45, 120] },
     { name := [102], filename := [122, 46, 116], mime := [116, 47, 112], data := [0, 255] }] := by
  intro p hp
  simp only [List.mem_cons, List.mem_nil_iff, or_false] at hp
  rcases hp with rfl | rfl
  · refine ⟨by decide, Or.inl rfl, ?_⟩
    intro h
    obtain ⟨s, t, e⟩ := h
    have h1 : (s ++ Spec.delimiter [120, 121] ++ t).take (s.length + 6) = s ++ Spec.delimiter [120, 121] := by
      rw [List.take_append_of_le_length (by simp [Spec.delimiter, Spec.crlf, Spec.dashes])]
      exact List.take_of_length_le (by simp [Spec.delimiter, Spec.crlf, Spec.dashes])
    rw [e] at h1
    have hlen := congrArg List.length e
    simp [Spec.delimiter, Spec.crlf, Spec.dashes] at hlen
    have hs : s.length ≤ 4 := by omega
    match s, hs with
    | [], _ => simp [Spec.delimiter, Spec.crlf, Spec.dashes] at h1
    | [a], _ => simp [Spec.delimiter, Spec.crlf, Spec.dashes] at h1
    | [a, b], _ => simp [Spec.delimiter, Spec.crlf, Spec.dashes] at h1
    | [a, b, c], _ => simp [Spec.delimiter, Spec.crlf, Spec.dashes] at h1
    | [a, b, c, d], _ => simp [Spec.delimiter, Spec.crlf, Spec.dashes] at h1
  · refine ⟨by decide, Or.inr ⟨[116], [112], rfl, by decide, by decide, by decide⟩, ?_⟩
    intro h
    have := h.length_le
    simp [Spec.delimiter, Spec.crlf, Spec.dashes] at this

/-- **request_roundtrip** (end to end, from the `Content-Type` header to `post()`/`files()`):
for `Content-Type: multipart/form-data; boundary=<token>`, well-formed parts, a declared
length equal to the body's and within the multipart limit, fields within the field limit,
and *any* chunking of `Spec.encode`, the application is handed exactly the encoded fields
(as the `post()` multimap) and files (in order), with status 0. -/
theorem request_roundtrip (wfn : Part → Bool) (lim : Limits) (bkey : Bytes) (hne : bkey ≠ []) (htok : ∀ c ∈ bkey, tokenChar c = true)
    (hdisk : lim.diskOk = true) (ps : List Part) (hwf : Spec.WFparts bkey ps)
    (hsz : ∀ p ∈ ps, p.mime = [] → p.data.length ≤ lim.contentLimit) (cs : List Bytes)
    (hcs : Spec.IsChunking cs (Spec.encodeW wfn bkey ps)) (hlim : cs.flatten.length ≤ lim.multipartLimit) :
    request lim (litMultipartCT ++ bkey) cs.flatten.length cs = .handled (deliver ps).1 (deliver ps).2 := by
  obtain ⟨hmt, hbd⟩ := boundary_of_content_type bkey hne htok
  have hcr : (13 : UInt8) ∉ bkey := fun h => (token_not_blank 13 (htok 13 h)).2 rfl
  have hpos : cs.flatten.length ≠ 0 := by
    rw [hcs]
    cases ps <;> simp [Spec.encodeW, Spec.encodeWith, Spec.dashes, Spec.crlf]
  have hgt : ¬ cs.flatten.length > lim.multipartLimit := by omega
  have hstart : start lim (litMultipartCT ++ bkey) cs.flatten.length =
      .ok (.multipart { boundary := Spec.delimiter bkey, memLimit := lim.memLimit, diskOk := lim.diskOk, fieldLimit := lim.contentLimit }) := by
    unfold start
    rw [if_neg hpos, hmt, hbd]
    simp only [beq_self_eq_true, if_true, hgt, if_false]
  unfold request
  rw [hstart]
  simp only
  rw [multipart_roundtrip_parts wfn _ bkey rfl ⟨hne, hcr⟩ hdisk ps hwf hsz cs hcs]

/-- non-vacuity for empty parameter values: a part with the empty name and an empty file name written
as `filename=""` (a file input left empty) is well formed, its header block is accepted and read
back as empty strings -/
example : Spec.WFpart [120] { name := [], filename := [], mime := [], data := [] }
    ∧ headerOK (Spec.encodeHeaderW true { name := [], filename := [], mime := [], data := [] }) {} = true := by
  have hw : Spec.WFpart [120] { name := [], filename := [], mime := [], data := [] } := by
    refine ⟨by simp, Or.inl rfl, ?_⟩
    intro h; have := h.length_le; simp [Spec.delimiter, Spec.crlf, Spec.dashes] at this
  exact ⟨hw, encodeHeaderW_headerOK true [120] _ hw⟩

/-! ## limits and refusals -/

/-- what a `Seen` hands to the application -/
def delivered : Seen → List (Bytes × Bytes) × List Part
  | .handled post files => (post, files)
  | _ => ([], [])

/-- **refused_not_partial**: whenever the request is answered with an error status (or is still
waiting for input) the application has received no field and no file.  (In the model this is
by construction: `post()`/`files()` are filled only at the end of a successful
`on_content_progress`; the harness checks the same on the real `http::request` after every
refused request.) -/
theorem refused_not_partial (lim : Limits) (ct : Bytes) (cl : Nat) (cs : List Bytes) (code : Nat)
    (h : request lim ct cl cs = .refused code) : delivered (request lim ct cl cs) = ([], []) := by
  rw [h]; rfl

/-- **limits_respected** (declared length): a body whose declared length exceeds the
multipart limit (multipart/form-data) or the content length limit (anything else) is
answered 413 before a single byte is looked at, whatever the bytes and the chunking. -/
theorem limits_respected (lim : Limits) (ct : Bytes) (cl : Nat) (cs : List Bytes) (h0 : 0 < cl) :
    (mediaType ct = ctMultipart → cl > lim.multipartLimit → request lim ct cl cs = .refused 413)
    ∧ (mediaType ct ≠ ctMultipart → cl > lim.contentLimit → request lim ct cl cs = .refused 413) := by
  have hcl : cl ≠ 0 := by omega
  constructor
  · intro hmt hgt
    simp [request, start, hcl, hmt, hgt]; rfl
  · intro hmt hgt
    have : (mediaType ct == ctMultipart) = false := by simpa using hmt
    simp [request, start, hcl, this, hgt]; rfl

example : request { contentLimit := 10, multipartLimit := 20, memLimit := 0, diskOk := true }
    [109, 117, 108, 116, 105, 112, 97, 114, 116, 47, 102, 111, 114, 109, 45, 100, 97, 116, 97, 59, 32, 98, 111, 117, 110, 100, 97, 114, 121, 61, 120]
    21 [] = .refused 413 := by decide

/-- the first bytes of a multipart body: everything up to and including the first `--bkey`
is consumed, then the loop continues on `tail` -/
theorem run_after_first_boundary (cfg : Cfg) (bkey : Bytes) (hb : cfg.boundary = 13 :: 10 :: 45 :: 45 :: bkey)
    (cl : Nat) (tail : Bytes) (htail : tail ≠ []) :
    run cfg cl {} [[45, 45] ++ bkey ++ tail] =
      match ploop cfg (([45, 45] ++ bkey ++ tail).length == cl) { st := .crlfOrEof, pos := 0 } tail .continueInput with
      | .error code => .error code
      | .ok (p', r) =>
        if (([45, 45] ++ bkey ++ tail).length == cl) && r != .eof then .error Gen.codeNoEofAtLength
        else run cfg cl { p := p', read := ([45, 45] ++ bkey ++ tail).length } [] := by
  have hfb := first_boundary cfg.toPCfg (bkey.length + 1) ({} : P) rfl (by rw [hb]; simp [Gen.initPos]; omega)
  have hinit : ({} : P).pos = 2 := rfl
  rw [hinit, hb] at hfb
  simp only [List.drop_succ_cons, List.drop_zero] at hfb
  rw [run_cons, progress_eq]
  have e1 : ([45, 45] ++ bkey ++ tail).isEmpty = false := by simp
  have hrs : ({} : RS).read = 0 := rfl
  simp only [e1, Bool.false_eq_true, if_false, hrs, Nat.zero_add]
  have e2 : [45, 45] ++ bkey ++ tail = (45 :: 45 :: bkey) ++ tail := by simp
  conv => lhs; rw [e2, ploop_pfold cfg _ _ _ _ _ _ hfb htail]
  rw [← e2]
  cases ploop cfg (([45, 45] ++ bkey ++ tail).length == cl) { st := .crlfOrEof, pos := 0 } tail .continueInput with
  | error code => rfl
  | ok pr =>
    obtain ⟨p', r⟩ := pr
    simp only
    by_cases hc : ((([45, 45] ++ bkey ++ tail).length == cl) && r != .eof) = true
    · simp only [hc, if_true]
    · simp only [hc, Bool.false_eq_true, if_false]

/-- **field over the limit**: accepted parts, then a form field (no MIME type) larger than
`content_length_limit`, then anything: 413 under every chunking, nothing delivered. -/
theorem field_limit_respected (cfg : Cfg) (bkey : Bytes) (hb : cfg.boundary = Spec.delimiter bkey)
    (hcr : (13 : UInt8) ∉ bkey) (hdisk : cfg.diskOk = true) (pre post : List Item) (big : Item)
    (hpre : ∀ it ∈ pre, ItemWF cfg bkey it)
    (hbig : headerOK big.hdr big.info = true ∧ ¬ Spec.delimiter bkey <:+: big.data)
    (hfield : big.info.mime = []) (hover : big.data.length > cfg.fieldLimit)
    (cs : List Bytes) (cl : Nat)
    (hcs : Spec.IsChunking cs (Spec.encodeWith bkey ((pre ++ big :: post).map fun it => (it.hdr, it.data))))
    (hcl : cs.flatten.length ≤ cl) :
    run cfg cl {} cs = .error 413 := by
  have hb' : cfg.boundary = 13 :: 10 :: 45 :: 45 :: bkey := by rw [hb]; rfl
  have g : Guard cfg.boundary := ⟨bkey, hb', hcr⟩
  have h0 : ({} : RS).read = 0 := rfl
  rw [run_flatten cfg cl cs {} (by rw [h0]; omega), hcs, encodeWith_eq, ← hb']
  have htl : ∀ (l : List Item), tailOf cfg.boundary (l ++ big :: post) =
      List.foldr (fun it acc => [13, 10] ++ it.hdr ++ it.data ++ cfg.boundary ++ acc)
        ([13, 10] ++ big.hdr ++ big.data ++ cfg.boundary ++ tailOf cfg.boundary post) l := by
    intro l; induction l with
    | nil => simp [tailOf]
    | cons x xs ih => simp only [List.cons_append, tailOf, List.foldr_cons, ih]
  rw [run_after_first_boundary cfg bkey hb' cl _ (tailOf_ne_nil _ _), htl]
  have hsz : sizeOk cfg big.info.mime big.data.length = false := by
    simp [sizeOk, hfield]; omega
  rw [tail_run_oversize cfg g hdisk _ big ⟨hbig.1, noEarly_of_not_infix g (by rw [hb]; exact hbig.2)⟩ hsz _
    (tailOf_ne_nil _ _) pre _ _ rfl rfl rfl rfl rfl]
  intro it hit
  obtain ⟨h1, h2, h3⟩ := hpre it hit
  refine ⟨h1, noEarly_of_not_infix g (by rw [hb]; exact h2), ?_⟩
  unfold sizeOk
  by_cases hm : it.info.mime = []
  · have := h3 hm; simp [hm]; omega
  · simp [hm]

/-- **longer than declared** (closing boundary before the declared length, or bytes after
it): a complete well-formed body followed by anything, with a declared length greater than the
body's, is answered 400 under every chunking. -/
theorem early_close_refused (cfg : Cfg) (bkey : Bytes) (hb : cfg.boundary = Spec.delimiter bkey)
    (hcr : (13 : UInt8) ∉ bkey) (hdisk : cfg.diskOk = true) (items : List Item)
    (hwf : ∀ it ∈ items, ItemWF cfg bkey it) (extra : Bytes) (cs : List Bytes) (cl : Nat)
    (hcs : cs.flatten = Spec.encodeWith bkey (items.map fun it => (it.hdr, it.data)) ++ extra)
    (hcl : cs.flatten.length ≤ cl)
    (hlong : (Spec.encodeWith bkey (items.map fun it => (it.hdr, it.data))).length < cl) :
    run cfg cl {} cs = .error 400 := by
  have hb' : cfg.boundary = 13 :: 10 :: 45 :: 45 :: bkey := by rw [hb]; rfl
  have g : Guard cfg.boundary := ⟨bkey, hb', hcr⟩
  have h0 : ({} : RS).read = 0 := rfl
  rw [run_flatten cfg cl cs {} (by rw [h0]; omega)]
  rw [hcs] at hcl ⊢
  rw [encodeWith_eq, ← hb'] at hcl hlong ⊢
  rw [List.append_assoc, run_after_first_boundary cfg bkey hb' cl _ (by simp [tailOf_ne_nil])]
  rw [tail_run_gen cfg g hdisk _ extra items _ _ rfl rfl rfl rfl rfl]
  · by_cases he : extra = []
    · subst he
      have hne : ¬ (List.length bkey + List.length (tailOf cfg.boundary items) + 1 + 1 = cl) := by
        simp only [List.length_append, List.length_cons, List.length_nil] at hlong
        omega
      simp [hne]
    · have : extra.isEmpty = false := by cases extra <;> simp_all
      simp [this]
  · intro it hit
    obtain ⟨h1, h2, h3⟩ := hwf it hit
    refine ⟨h1, noEarly_of_not_infix g (by rw [hb]; exact h2), ?_⟩
    unfold sizeOk
    by_cases hm : it.info.mime = []
    · have := h3 hm; simp [hm]; omega
    · simp [hm]

/-- **refusal_codes**: a multipart body is only ever refused with 400 or 413 (in particular the
`last_file()` failure path of `on_content_progress` is unreachable) -/
theorem refusal_codes (cfg : Cfg) (cl : Nat) (cs : List Bytes) (code : Nat)
    (h : run cfg cl {} cs = .error code) : code = 400 ∨ code = 413 :=
  run_codes cfg cl cs {} code h

/-! ## urlencoded bodies -/

/-- **malformed_urlencoded_refused**: a `application/x-www-form-urlencoded` body within the
limits in which `parse_form_urlencoded` finds an item without `=` or with an empty name is
answered 400 and nothing is delivered (D11; before the fix in /repo c05f1f7 the fields
parsed so far were delivered with status 200, see `urlencoded_witness`). -/
theorem malformed_urlencoded_refused (lim : Limits) (ct : Bytes) (cl : Nat) (cs : List Bytes)
    (hmt : mediaType ct = ctUrlencoded) (h0 : 0 < cl) (hlim : cl ≤ lim.contentLimit)
    (hlen : cl ≤ cs.flatten.length) (hbad : (parseForm (cs.flatten.take cl)).2 = false) :
    request lim ct cl cs = .refused 400 := by
  have hcl : cl ≠ 0 := by omega
  have hne : (ctUrlencoded == ctMultipart) = false := by decide
  have hgt : ¬ cl > lim.contentLimit := by omega
  have hlt : ¬ (List.map List.length cs).sum < cl := by
    have : cs.flatten.length = (List.map List.length cs).sum := List.length_flatten
    omega
  rcases hp : parseForm (cs.flatten.take cl) with ⟨pairs, ok⟩
  rw [hp] at hbad
  simp only at hbad
  subst hbad
  simp [request, start, hcl, hmt, hne, hgt, hlt, hp]
  rfl

/-- the D11 witness: `a=b&c&e=f` — `parse_form_urlencoded` has inserted `a=b` when it fails -/
theorem urlencoded_witness :
    parseForm [97, 61, 98, 38, 99, 38, 101, 61, 102] = ([([97], [98])], false) := by
  simp [parseForm, parseFormLoop, splitAt1, List.span, List.span.loop, C15.urldecode, Gen.formAmp, Gen.formEq,
    C15.Gen.urldecPlus, C15.Gen.urldecPct]

/-- **urlencoded_roundtrip**: `parse_form_urlencoded` applied to `k₁=v₁&k₂=v₂…` as written by
`util::urlencode` (C15's model) returns exactly the pairs, in order, and `true` — for all
byte strings as values and all non-empty byte strings as keys. -/
theorem urlencoded_roundtrip (kvs : List (Bytes × Bytes)) (hkeys : ∀ kv ∈ kvs, kv.1 ≠ []) :
    parseForm (Spec.encodeFormWith C15.urlencode kvs) = (kvs, true) := by
  unfold parseForm
  rw [parseFormLoop_encode kvs [] _ hkeys (encodeForm_length kvs)]
  simp

/-- … and the request delivers them as `post()` under any chunking -/
theorem urlencoded_request_roundtrip (lim : Limits) (ct : Bytes) (kvs : List (Bytes × Bytes))
    (hkeys : ∀ kv ∈ kvs, kv.1 ≠ []) (hne : kvs ≠ []) (hmt : mediaType ct = ctUrlencoded) (cs : List Bytes)
    (hcs : cs.flatten = Spec.encodeFormWith C15.urlencode kvs)
    (hlim : cs.flatten.length ≤ lim.contentLimit) :
    request lim ct cs.flatten.length cs = .handled (mmOfList kvs) [] := by
  have hpos : cs.flatten.length ≠ 0 := by
    rw [hcs]
    have := encodeForm_length kvs
    have : 0 < kvs.length := List.length_pos_iff.mpr hne
    omega
  have hne' : (ctUrlencoded == ctMultipart) = false := by decide
  have hgt : ¬ cs.flatten.length > lim.contentLimit := by omega
  have hrt := urlencoded_roundtrip kvs hkeys
  have hstart : start lim ct cs.flatten.length = .ok (.full true) := by
    unfold start
    rw [if_neg hpos, hmt]
    simp only [hne', Bool.false_eq_true, if_false, hgt, beq_self_eq_true]
  unfold request
  rw [hstart]
  simp only [Nat.lt_irrefl, if_false, if_true, List.take_length, hcs, hrt]

example : parseForm (Spec.encodeFormWith C15.urlencode [([97], [38, 61]), ([61], [])]) = ([([97], [38, 61]), ([61], [])], true) :=
  urlencoded_roundtrip _ (by decide)

/-! ## the read loop and content filters -/

/-- **feed_flatten**: whatever the reads return and whatever the buffer size (≥ 1, what
`request::setbuf` enforces), the pieces handed to `on_content_progress` are, concatenated,
exactly the first `content_length` bytes of the stream. -/
theorem feed_flatten (cl bufSize : Nat) (streamed : Bool) (hb : 0 < bufSize) (chunks : List Bytes) :
    (feedAll cl bufSize streamed chunks).flatten = chunks.flatten.take cl :=
  feedAll_flatten cl bufSize streamed hb chunks

/-- **raw_filter_sees_each_byte_once**: with a `raw_content_filter` installed and the declared
length within the limit, the concatenation of the chunks given to `on_data_chunk` is the
first `content_length` bytes of the stream — every byte once, in order — and the request
completes exactly when `content_length` bytes have arrived. -/
theorem raw_filter_sees_each_byte_once (i : ReqIn) (hf : i.flt = 1) (h0 : 0 < i.cl)
    (hlim : (if mediaType i.contentType == ctMultipart then decide (i.cl > i.lim.multipartLimit)
             else decide (i.cl > i.lim.contentLimit)) = false) :
    (requestIO i).raw = i.chunks.flatten.take i.cl
    ∧ ((requestIO i).seen = .handled [] [] ↔ i.cl ≤ i.chunks.flatten.length)
    ∧ (requestIO i).sizes.sum = (requestIO i).raw.length := by
  have hcl : i.cl ≠ 0 := by omega
  have hfeed := feedAll_flatten i.cl (max i.bufSize 1) true (by omega) i.chunks
  have hsum : ∀ l : List Bytes, (l.map (·.length)).sum = l.flatten.length := by
    intro l; rw [List.length_flatten]
  simp only [requestIO, hf, beq_self_eq_true, if_true, hcl, if_false, hlim, Bool.false_eq_true]
  refine ⟨hfeed, ?_, ?_⟩
  · rw [hfeed]
    simp only [List.length_take, beq_iff_eq]
    constructor
    · intro h
      split at h
      · next he => omega
      · cases h
    · intro h
      have h' : i.cl ≤ (List.map List.length i.chunks).sum := by rw [← List.length_flatten]; exact h
      simp [Nat.min_eq_left h']
  · exact hsum _

/-- the strongest form of "however the body is cut": reads of any sizes, any buffer size, even
a peer that sends more than it declared — what the application sees depends only on the byte
stream (and on the first `content_length` bytes of it). -/
theorem requestIO_cut_independent (i j : ReqIn) (hflt : i.flt = j.flt) (hct : i.contentType = j.contentType)
    (hcl : i.cl = j.cl) (hlim : i.lim = j.lim) (hq : i.query = j.query)
    (hstream : i.chunks.flatten = j.chunks.flatten) :
    (requestIO i).seen = (requestIO j).seen ∧ (requestIO i).get = (requestIO j).get := by
  have hfi := fun st => feedAll_flatten i.cl (max i.bufSize 1) st (by omega) i.chunks
  have hfj := fun st => feedAll_flatten j.cl (max j.bufSize 1) st (by omega) j.chunks
  have hlen : ∀ st, (feedAll i.cl (max i.bufSize 1) st i.chunks).flatten.length ≤ i.cl := by
    intro st; rw [hfi]; simp [List.length_take]; omega
  have hsame : ∀ st, (feedAll i.cl (max i.bufSize 1) st i.chunks).flatten = (feedAll j.cl (max j.bufSize 1) st j.chunks).flatten := by
    intro st; rw [hfi, hfj, hstream, hcl]
  have hfj' : ∀ st, (feedAll i.cl (max j.bufSize 1) st j.chunks).flatten = List.take i.cl i.chunks.flatten := by
    intro st; rw [hcl, hfj, hstream]
  constructor
  · unfold requestIO
    rw [← hflt, ← hct, ← hcl, ← hlim, ← hq]
    by_cases h1 : (i.flt == 1) = true
    · simp only [h1, if_true, apply_ite ReqOut.seen, hfi true, hfj' true]
    · simp only [h1, Bool.false_eq_true, if_false]
      cases hs : start i.lim i.contentType i.cl with
      | error code => simp only
      | ok m =>
        cases m with
        | empty => simp only
        | full ue =>
          simp only
          exact request_chunking_independent _ _ _ _ _ (by rw [hfi, hfj']) (hlen false)
        | multipart cfg =>
          simp only
          rw [chunking_independent cfg i.cl _ (feedAll i.cl (max j.bufSize 1) true j.chunks) (by rw [hfi, hfj']) (hlen true)]
  · unfold requestIO
    rw [← hflt, ← hct, ← hcl, ← hlim, ← hq]
    by_cases h1 : (i.flt == 1) = true
    · simp only [h1, if_true, apply_ite ReqOut.get]
    · simp only [h1, Bool.false_eq_true, if_false]
      cases hs : start i.lim i.contentType i.cl with
      | error code => rfl
      | ok m => cases m <;> rfl

/-- **multipart_filter_sees_each_part_once**: for a well-formed body under *any* chunking, the
callbacks a `multipart_filter` receives, leaving out the `on_upload_progress` reports (whose
number and sizes depend on where the chunks end, by design), are exactly: for each part in
order `on_new_file` (name known, size 0) and `on_data_ready` (its full size), and finally
`on_end_of_content` — every part, hence every content byte, is handed over exactly once. -/
theorem multipart_filter_sees_each_part_once (wfn : Part → Bool) (cfg : Cfg) (bkey : Bytes) (hb : cfg.boundary = Spec.delimiter bkey)
    (hk : Spec.WFbkey bkey) (hdisk : cfg.diskOk = true) (ps : List Part) (hwf : Spec.WFparts bkey ps)
    (hsz : ∀ p ∈ ps, p.mime = [] → p.data.length ≤ cfg.fieldLimit) (cs : List Bytes)
    (hcs : Spec.IsChunking cs (Spec.encodeW wfn bkey ps)) :
    noProg (evRun cfg cs.flatten.length {} cs) =
      ps.flatMap (fun p => [Ev.newFile p.name 0, Ev.dataReady p.data.length]) ++ [Ev.endOfContent] := by
  have hb' : cfg.boundary = 13 :: 10 :: 45 :: 45 :: bkey := by rw [hb]; rfl
  have g : Guard cfg.boundary := ⟨bkey, hb', hk.2⟩
  have h0 : ({} : RS).read = 0 := rfl
  let items : List Item := ps.map fun p => { hdr := Spec.encodeHeaderW (wfn p) p, info := metaOf p, data := p.data }
  have henc : Spec.encodeWith bkey (items.map fun it => (it.hdr, it.data)) = Spec.encodeW wfn bkey ps := by
    simp only [items, List.map_map, Spec.encodeW]
    rfl
  have hok : ∀ it ∈ items, ItemOK cfg it := by
    intro it hit
    simp only [items, List.mem_map] at hit
    obtain ⟨p, hp, rfl⟩ := hit
    refine ⟨encodeHeaderW_headerOK (wfn p) bkey p (hwf p hp), noEarly_of_not_infix g (by rw [hb]; exact (hwf p hp).2.2), ?_⟩
    unfold sizeOk
    by_cases hm : p.mime = []
    · have := hsz p hp hm; simp [metaOf, hm]; omega
    · simp [metaOf, hm]
  rw [evRun_flatten cfg _ cs {} (by rw [h0]; omega)]
  rw [evRun_single cfg bkey hb' hk.2 hdisk items hok cs.flatten (by rw [henc]; exact hcs)]
  have hev : items.flatMap partEvents = ps.flatMap (fun p => [Ev.newFile p.name 0, Ev.dataReady p.data.length]) := by
    simp only [items, List.flatMap_map]
    rfl
  rw [hev]
  simp only [noProg, List.filter_append, List.filter_flatMap]
  congr 1

/-- … and for *every* body (well-formed or not, accepted or refused) the callbacks other than
the progress reports do not depend on the chunking -/
theorem filter_events_chunking_independent (cfg : Cfg) (cl : Nat) (cs₁ cs₂ : List Bytes)
    (hjoin : cs₁.flatten = cs₂.flatten) (hlen : cs₁.flatten.length ≤ cl) :
    noProg (evRun cfg cl {} cs₁) = noProg (evRun cfg cl {} cs₂) := by
  have h0 : ({} : RS).read = 0 := rfl
  rw [evRun_flatten cfg cl cs₁ {} (by rw [h0]; omega), evRun_flatten cfg cl cs₂ {} (by rw [h0, ← hjoin]; omega), hjoin]

/-! ## which bodies are accepted, and what happens to the others -/

/-- **multipart_accept_iff**: with a working disk and no CR in the boundary key, a body
delivered in any chunking is accepted (`ready parts`) **iff** it is, byte for byte,
`--bkey` · (`CRLF` *header block* *content* `CRLF--bkey`)* · `--CRLF` with exactly the declared
length, where a header block is any byte string that the parser's scanner ends at its last byte
and `process_header` accepts (`headerOK`: the documented leniencies — any header lines, any
case, unknown parameters, quoted or token values), a content is any byte string in which the
delimiter does not end before the end of `content ++ delimiter` (`NoEarly`; equivalent to "does
not contain the delimiter" by `noEarly_of_not_infix`), and every form field is within the field
limit; `parts` are then exactly the parts written.  Everything else — missing or damaged closing
delimiter, a part header the parser rejects, end of data inside a part, junk after the closing
delimiter, a wrong declared length — is not accepted (`malformed_refused`). -/
theorem multipart_accept_iff (cfg : Cfg) (bkey : Bytes) (hb : cfg.boundary = Spec.delimiter bkey)
    (hcr : (13 : UInt8) ∉ bkey) (hdisk : cfg.diskOk = true) (cl : Nat) (h0 : 0 < cl)
    (cs : List Bytes) (hlen : cs.flatten.length ≤ cl) (parts : List Part) :
    run cfg cl {} cs = .ready parts ↔
      ∃ items : List Item, (∀ it ∈ items, ItemOK cfg it)
        ∧ cs.flatten = Spec.encodeWith bkey (items.map fun it => (it.hdr, it.data))
        ∧ cs.flatten.length = cl ∧ parts = items.map Item.part := by
  have hb' : cfg.boundary = 13 :: 10 :: 45 :: 45 :: bkey := by rw [hb]; rfl
  have g : Guard cfg.boundary := ⟨bkey, hb', hcr⟩
  have h0r : ({} : RS).read = 0 := rfl
  constructor
  · intro h
    rw [run_flatten cfg cl cs {} (by rw [h0r]; omega)] at h
    -- the declared length is reached
    have hfull : cs.flatten.length = cl := by
      by_cases hne : cs.flatten.length = cl
      · exact hne
      exfalso
      rw [run_cons] at h
      cases hp : progress cfg cl {} cs.flatten with
      | error e => rw [hp] at h; cases h
      | ok s' =>
        rw [hp] at h
        have := progress_read hp
        simp only [run, h0r, Nat.zero_add] at h this
        have : (s'.read == cl) = false := by simp only [beq_eq_false_iff_ne, ne_eq]; omega
        simp [this] at h
    have hne : cs.flatten ≠ [] := by intro e; rw [e] at hfull; simp at hfull; omega
    rw [← hfull] at h
    obtain ⟨pf, hacc, hfiles⟩ := run_single_ready cfg cs.flatten parts hne h
    have hinit : ({} : P).pos + (bkey.length + 1) + 1 = cfg.boundary.length := by rw [hb']; simp [Gen.initPos]; omega
    obtain ⟨s', hsplit, h1⟩ := first_boundary_decomp cfg (bkey.length + 1) cs.flatten {} pf .continueInput rfl hinit (by decide) hacc
    obtain ⟨items, htail, hoks, hfl⟩ := tail_decomp cfg g hdisk s'.length s' { st := .crlfOrEof, pos := 0 } pf .continueInput
      (Nat.le_refl _) rfl rfl rfl rfl rfl (by decide) h1
    refine ⟨items, hoks, ?_, hfull, ?_⟩
    · rw [encodeWith_eq, ← hb', hsplit, htail]
      have : ({} : P).pos = 2 := rfl
      rw [this, hb']; simp
    · rw [← hfiles]; simp [P.files, hfl]
  · rintro ⟨items, hoks, henc, hfull, rfl⟩
    rw [run_flatten cfg cl cs {} (by rw [h0r]; omega), ← hfull]
    exact run_single_roundtrip cfg bkey hb' hcr hdisk items hoks cs.flatten henc

/-- **malformed_refused**: a body of the declared length that is *not* such an encoding is
answered with an error status (400 or 413) under every chunking — never delivered. -/
theorem malformed_refused (cfg : Cfg) (bkey : Bytes) (hb : cfg.boundary = Spec.delimiter bkey)
    (hcr : (13 : UInt8) ∉ bkey) (hdisk : cfg.diskOk = true) (cl : Nat) (h0 : 0 < cl)
    (cs : List Bytes) (hlen : cs.flatten.length = cl)
    (hbad : ¬ ∃ items : List Item, (∀ it ∈ items, ItemOK cfg it)
        ∧ cs.flatten = Spec.encodeWith bkey (items.map fun it => (it.hdr, it.data))) :
    ∃ code, run cfg cl {} cs = .error code ∧ (code = 400 ∨ code = 413) := by
  have h0r : ({} : RS).read = 0 := rfl
  cases hrun : run cfg cl {} cs with
  | error code => exact ⟨code, rfl, run_codes cfg cl cs {} code hrun⟩
  | ready parts =>
    exfalso
    obtain ⟨items, hoks, henc, _, _⟩ := (multipart_accept_iff cfg bkey hb hcr hdisk cl h0 cs (by omega) parts).mp hrun
    exact hbad ⟨items, hoks, henc⟩
  | pending =>
    exfalso
    rw [run_flatten cfg cl cs {} (by rw [h0r]; omega), run_cons] at hrun
    cases hp : progress cfg cl {} cs.flatten with
    | error e => rw [hp] at hrun; cases hrun
    | ok s' =>
      rw [hp] at hrun
      have := progress_read hp
      simp only [run, h0r, Nat.zero_add] at hrun this
      have : (s'.read == cl) = true := by simp only [beq_iff_eq]; omega
      simp [this] at hrun

/-- **declared_shorter_refused**: a body that would be accepted at its true length, declared
shorter (`0 < content_length < length`; the front-end then hands over only the first
`content_length` bytes): refused with 400 or 413 under every chunking, nothing delivered.
(`content_length = 0` means "no body" to every front-end: nothing is read, the application
sees an empty form.) -/
theorem declared_shorter_refused (cfg : Cfg) (B : Bytes) (parts : List Part)
    (hacc : run cfg B.length {} [B] = .ready parts) (cl : Nat) (h0 : 0 < cl) (hlt : cl < B.length)
    (cs : List Bytes) (hcs : cs.flatten = B.take cl) :
    ∃ code, run cfg cl {} cs = .error code ∧ (code = 400 ∨ code = 413) := by
  have h0r : ({} : RS).read = 0 := rfl
  have hBne : B ≠ [] := by intro e; rw [e] at hlt; simp at hlt
  obtain ⟨pf, hB, _⟩ := run_single_ready cfg B parts hBne hacc
  have hl : cs.flatten.length = cl := by rw [hcs, List.length_take]; omega
  have hne : B.take cl ≠ [] := by
    intro e; rw [← hcs] at e; rw [e] at hl; simp at hl; omega
  have hdrop : B.drop cl ≠ [] := by
    intro e; have := congrArg List.length e; rw [List.length_drop, List.length_nil] at this; omega
  rw [run_flatten cfg cl cs {} (by rw [h0r]; omega), hcs, run_cons, progress_eq]
  have e1 : (B.take cl).isEmpty = false := by cases hq : B.take cl <;> simp_all
  have hlen2 : (B.take cl).length = cl := by rw [← hcs]; exact hl
  simp only [e1, Bool.false_eq_true, if_false, h0r, Nat.zero_add, hlen2, beq_self_eq_true, Bool.true_and]
  cases hp : ploop cfg true ({} : RS).p (B.take cl) .continueInput with
  | error code => exact ⟨code, rfl, ploop_codes cfg _ _ _ _ _ hp⟩
  | ok pr =>
    obtain ⟨p', r⟩ := pr
    by_cases hr : r = .eof
    · exfalso
      subst hr
      have := accept_then_more_refused cfg true (B.take cl) _ p' _ .continueInput (B.drop cl) hne hdrop hp
      rw [List.take_append_drop] at this
      have hp0 : ({} : RS).p = ({} : P) := rfl
      rw [hp0, hB] at this
      cases this
    · have : (r != Res.eof) = true := by simpa using hr
      exact ⟨400, by simp [this]; rfl, Or.inl rfl⟩

/-- **incomplete_never_delivered**: as long as fewer bytes than declared have arrived (in
particular when the connection ends early: the read never completes and the context is dropped
without an answer) the request is either still pending or already refused — it is never
handed to the application, in whole or in part. -/
theorem incomplete_never_delivered (cfg : Cfg) (cl : Nat) (cs : List Bytes) (hlt : cs.flatten.length < cl)
    (parts : List Part) : run cfg cl {} cs ≠ .ready parts := by
  have h0r : ({} : RS).read = 0 := rfl
  rw [run_flatten cfg cl cs {} (by rw [h0r]; omega), run_cons]
  cases hp : progress cfg cl {} cs.flatten with
  | error e => simp
  | ok s' =>
    have := progress_read hp
    simp only [run, h0r, Nat.zero_add] at this ⊢
    have : (s'.read == cl) = false := by simp only [beq_eq_false_iff_ne, ne_eq]; omega
    simp [this]

/-- non-vacuity of `declared_shorter_refused` / `multipart_accept_iff`: the empty form `--x--CRLF` -/
example : run { boundary := [13, 10, 45, 45, 120], memLimit := 0, diskOk := true, fieldLimit := 10 } 7 {}
    [[45, 45, 120, 45, 45, 13, 10]] = .ready [] := by decide
example : ∃ code, run { boundary := [13, 10, 45, 45, 120], memLimit := 0, diskOk := true, fieldLimit := 10 } 3 {}
    [[45, 45], [120]] = .error code ∧ (code = 400 ∨ code = 413) :=
  declared_shorter_refused _ [45, 45, 120, 45, 45, 13, 10] [] (by decide) 3 (by decide) (by decide) _ (by decide)

/-! ## reading the parts back -/

/-- **readback_exact**: `file.data().seekg(off)` followed by reading to EOF returns exactly
the bytes written from `off` on — for a part kept in memory and for a part spilled to a
temporary file (read back in `buffer_size` blocks), whatever the bytes (0xFF at a block
boundary included). Depends on `underflow()` using `traits::to_int_type` (regenerated). -/
theorem readback_exact (memLimit : Nat) (data : Bytes) (off : Nat) :
    readBackFrom memLimit data off = data.drop off :=
  readBackFrom_eq memLimit data off

/-- **delivery_reads_back_exactly**: what the end of `on_content_progress` actually does — copy
every form field through `read_file` (after a multipart filter may have read the part to its
end), leave the files to be read by the application — hands over exactly `deliver parts`,
i.e. every content byte for byte. Depends on `read_file` rewinding (regenerated). -/
theorem delivery_reads_back_exactly (memLimit : Nat) (reader : Bool) (parts : List Part) :
    deliverR memLimit reader parts = deliver parts :=
  deliverR_eq_deliver memLimit reader parts

example : readBackFrom 3 ([255, 1, 2, 3] ++ List.replicate 1020 7 ++ [255, 255]) 0
    = [255, 1, 2, 3] ++ List.replicate 1020 7 ++ [255, 255] := by
  rw [readback_exact]; rfl

/-! ## the peer's quoting: header parameters and the boundary parameter -/

/-- **unquote_quote_roundtrip**: `protocol::unquote` inverts the peer's quoted-string writer
(`"` and `\` backslash-escaped, RFC 2616 §2.2) for every byte string, and leaves the text after
the closing quote untouched. -/
theorem unquote_quote_roundtrip (s t : Bytes) : unquote (Spec.quote s ++ t) = some (s, t) :=
  unquote_quote s t

/-- **parse_pair_roundtrip**: one `; key="value"` parameter of a Content-Disposition header
(`parse_pair`) and of a Content-Type header (`content_type::parse`) yields exactly key, value
and the remaining text — any bytes in the value. -/
theorem parse_pair_roundtrip (key v t : Bytes) (hk : key ≠ []) (hkt : ∀ x ∈ key, tokenChar x = true) :
    parsePair (59 :: 32 :: (key ++ 61 :: (Spec.quote v ++ t))) = some (key, v, t)
    ∧ parsePairG true (59 :: 32 :: (key ++ 61 :: (Spec.quote v ++ t))) = some (key, v, t) :=
  ⟨parsePair_quoted key v t hk hkt, parsePairG_true_quoted key v t hk hkt⟩

/-- **content_type_boundary_roundtrip**: `Content-Type: multipart/form-data; boundary=…` is
recognised as multipart and yields the boundary string `CRLF--bkey`, for a token boundary
written as is and for *any* non-empty boundary written as a quoted-string. -/
theorem content_type_boundary_roundtrip (bkey : Bytes) (hne : bkey ≠ []) :
    ((∀ c ∈ bkey, tokenChar c = true) →
      mediaType (litMultipartCT ++ bkey) = ctMultipart ∧ mkBoundary (litMultipartCT ++ bkey) = some (Spec.delimiter bkey))
    ∧ (mediaType (litMultipartCT ++ Spec.quote bkey) = ctMultipart
        ∧ mkBoundary (litMultipartCT ++ Spec.quote bkey) = some (Spec.delimiter bkey)) :=
  ⟨fun htok => boundary_of_content_type bkey hne htok, boundary_of_content_type_quoted bkey hne⟩

/-- `request_roundtrip` with the boundary sent as a quoted-string (any bytes but CR) -/
theorem request_roundtrip_quoted_boundary (wfn : Part → Bool) (lim : Limits) (bkey : Bytes) (hk : Spec.WFbkey bkey)
    (hdisk : lim.diskOk = true) (ps : List Part) (hwf : Spec.WFparts bkey ps)
    (hsz : ∀ p ∈ ps, p.mime = [] → p.data.length ≤ lim.contentLimit) (cs : List Bytes)
    (hcs : Spec.IsChunking cs (Spec.encodeW wfn bkey ps)) (hlim : cs.flatten.length ≤ lim.multipartLimit) :
    request lim (litMultipartCT ++ Spec.quote bkey) cs.flatten.length cs = .handled (deliver ps).1 (deliver ps).2 := by
  obtain ⟨hmt, hbd⟩ := boundary_of_content_type_quoted bkey hk.1
  have hpos : cs.flatten.length ≠ 0 := by
    rw [hcs]
    cases ps <;> simp [Spec.encodeW, Spec.encodeWith, Spec.dashes, Spec.crlf]
  have hgt : ¬ cs.flatten.length > lim.multipartLimit := by omega
  have hstart : start lim (litMultipartCT ++ Spec.quote bkey) cs.flatten.length =
      .ok (.multipart { boundary := Spec.delimiter bkey, memLimit := lim.memLimit, diskOk := lim.diskOk, fieldLimit := lim.contentLimit }) := by
    unfold start
    rw [if_neg hpos, hmt, hbd]
    simp only [beq_self_eq_true, if_true, hgt, if_false]
  unfold request
  rw [hstart]
  simp only
  rw [multipart_roundtrip_parts wfn _ bkey rfl hk hdisk ps hwf hsz cs hcs]

example : unquote (Spec.quote [97, 34, 92, 92] ++ [59]) = some ([97, 34, 92, 92], [59]) := unquote_quote_roundtrip _ _

/-! ## file_buffer: put area, spill, temporary files -/

/-- **fb_invariant**: after any sequence of accepted writes to a fresh `file_buffer` — over the
regenerated `overflow()` — the put area never holds more than its capacity (no write past
`epptr()`), and while the buffer is in memory its capacity, hence the memory it holds, is at most
`limit` (`file_in_memory_limit`). -/
theorem fb_invariant (diskOk : Bool) (limit : Nat) (ws : List Bytes) (fb : FB)
    (h : (FB.fresh limit).writes diskOk ws = some fb) :
    fb.buf.length ≤ fb.cap ∧ (fb.inMem = true → fb.cap ≤ limit ∧ fb.size ≤ limit) := by
  have hf := FB.fresh_inv limit
  have hmem : diskOk = false → (FB.fresh limit).inMem = true := fun _ => rfl
  have hsz : (FB.fresh limit).size = 0 := rfl
  have hlim : (FB.fresh limit).limit = limit := rfl
  obtain ⟨hok, hfail⟩ := FB.writes_spec diskOk ws (FB.fresh limit) hf hmem
  generalize ws.flatten.length = n at hok hfail
  rw [hsz, hlim, Nat.zero_add] at hok hfail
  by_cases hc : diskOk = true ∨ n ≤ limit
  · obtain ⟨fb', hs, hinv, _, hl⟩ := hok hc
    rw [hs] at h; cases h
    refine ⟨hinv.1, fun hm => ⟨by rw [← hl]; exact (hinv.2.1 hm).1, ?_⟩⟩
    have := (FB.inMem_iff fb hinv).mp hm
    rw [hl] at this; exact this
  · have hd : diskOk = false := by cases diskOk <;> simp_all
    have hgt : limit < n := by
      have : ¬ n ≤ limit := fun h => hc (Or.inr h)
      omega
    rw [hfail hd hgt] at h; cases h

/-- **spills_iff_exceeds_limit**: with a working disk every write is accepted, the content is
exactly what was written, and the buffer has spilled to its temporary file iff more than
`limit` bytes were written. -/
theorem spills_iff_exceeds_limit (limit : Nat) (ws : List Bytes) :
    ∃ fb, (FB.fresh limit).writes true ws = some fb ∧ fb.content = ws.flatten
      ∧ (fb.inMem = false ↔ limit < ws.flatten.length) := by
  obtain ⟨hok, _⟩ := FB.writes_spec true ws (FB.fresh limit) (FB.fresh_inv limit) (fun h => by cases h)
  obtain ⟨fb, hs, hinv, hc, hl⟩ := hok (Or.inl rfl)
  have hc0 : (FB.fresh limit).content = [] := rfl
  rw [hc0, List.nil_append] at hc
  refine ⟨fb, hs, hc, ?_⟩
  have hiff := FB.inMem_iff fb hinv
  have hsz : fb.size = ws.flatten.length := by rw [FB.size_content, hc]
  have hlim : fb.limit = limit := hl
  rw [hsz, hlim] at hiff
  generalize ws.flatten.length = n at hiff ⊢
  cases hm : fb.inMem with
  | true =>
    have := hiff.mp hm
    constructor
    · intro h; cases h
    · intro h; omega
  | false =>
    constructor
    · intro _
      by_cases hle : n ≤ limit
      · have := hiff.mpr hle; rw [hm] at this; cases this
      · omega
    · intro _; rfl

/-- **file_write_agrees**: the parser model's abstraction of the part buffer (`fileWrite`: a write
fails only when the buffer has to spill and the disk does not work) is exactly what the
`overflow()`-level model does: same acceptance, same content. -/
theorem file_write_agrees (diskOk : Bool) (limit : Nat) (ws : List Bytes) :
    ((FB.fresh limit).writes diskOk ws).map FB.content
      = (fwrites { boundary := [], memLimit := limit, diskOk := diskOk } [] ws).map List.reverse := by
  have hf := FB.fresh_inv limit
  have hmem : diskOk = false → (FB.fresh limit).inMem = true := fun _ => rfl
  have hsz : (FB.fresh limit).size = 0 := rfl
  have hlim : (FB.fresh limit).limit = limit := rfl
  have hc0 : (FB.fresh limit).content = [] := rfl
  obtain ⟨hok, hfail⟩ := FB.writes_spec diskOk ws (FB.fresh limit) hf hmem
  have hfw := fwrites_spec { boundary := [], memLimit := limit, diskOk := diskOk } ws [] (Or.inr (Nat.zero_le _))
  rw [hfw]
  simp only [List.length_nil, Nat.zero_add, List.append_nil]
  rw [hsz, hlim, Nat.zero_add, hc0] at hok
  rw [hsz, hlim, Nat.zero_add] at hfail
  generalize ws.flatten.length = n at hok hfail ⊢
  by_cases hc : diskOk = true ∨ n ≤ limit
  · obtain ⟨fb', hs, _, hcont, _⟩ := hok hc
    rw [hs, if_pos hc]
    simp [hcont]
  · have hd : diskOk = false := by cases diskOk <;> simp_all
    have hgt : limit < n := by
      have : ¬ n ≤ limit := fun h => hc (Or.inr h)
      omega
    rw [hfail hd hgt, if_neg hc]
    rfl

/-- **temp_files_released**: a part created by the parser (`file_temporary_ = 1`, `removed_ = 0`)
leaves no temporary file behind once `file::close()` has run — and `~file` runs it for every part
of a request, completed or in progress, when the request is destroyed (the parser's `files_`,
`file_` and `request::files_` own them).  A part made permanent by the application
(`output_file(name,false)`/`make_permanent`) keeps its file, as intended.  Tie: the upload
directory is listed after every case of the correspondence run. -/
theorem temp_files_released :
    (∀ spilled, tempLeftAfterClose spilled false true = false)
    ∧ tempLeftAfterClose true false false = true := by
  decide

end Cppcms.C12.Props
