import Cppcms.C12.Model
import Cppcms.C15.Lemmas
/-!
# C12: urlencoded forms — `parse_form_urlencoded` reads back what `util::urlencode` wrote
-/
namespace Cppcms.C12
open Cppcms

open Spec (encodeFormWith)

theorem span_loop_eq (p : UInt8 → Bool) :
    ∀ (a acc rest : Bytes), (∀ x ∈ a, p x = true) → (∀ y ys, rest = y :: ys → p y = false) →
      List.span.loop p (a ++ rest) acc = (acc.reverse ++ a, rest) := by
  intro a
  induction a with
  | nil =>
    intro acc rest _ hr
    cases rest with
    | nil => simp [List.span.loop]
    | cons y ys => simp [List.span.loop, hr y ys rfl]
  | cons x xs ih =>
    intro acc rest ha hr
    have hx : p x = true := ha x List.mem_cons_self
    simp only [List.cons_append, List.span.loop, hx]
    rw [ih (x :: acc) rest (fun y hy => ha y (List.mem_cons_of_mem _ hy)) hr]
    simp

/-- `span p (a ++ rest) = (a, rest)` when `p` holds on all of `a` and fails at the head of `rest` -/
theorem span_append_eq (p : UInt8 → Bool) (a rest : Bytes) (ha : ∀ x ∈ a, p x = true)
    (hr : ∀ y ys, rest = y :: ys → p y = false) : (a ++ rest).span p = (a, rest) := by
  unfold List.span
  rw [span_loop_eq p a [] rest ha hr]
  simp

theorem span_ne_found (d : UInt8) (a b : Bytes) (h : d ∉ a) : (a ++ d :: b).span (· != d) = (a, d :: b) := by
  apply span_append_eq
  · intro x hx
    simp only [bne_iff_ne, ne_eq]
    exact fun e => h (e ▸ hx)
  · intro y ys e
    cases e
    simp

theorem span_ne_none (d : UInt8) (a : Bytes) (h : d ∉ a) : a.span (· != d) = (a, []) := by
  have := span_append_eq (· != d) a [] (by
    intro x hx
    simp only [bne_iff_ne, ne_eq]
    exact fun e => h (e ▸ hx)) (by intro y ys e; cases e)
  simpa using this

theorem splitAt1_found (d : UInt8) (a b : Bytes) (h : d ∉ a) : splitAt1 d (a ++ d :: b) = (a, some b) := by
  unfold splitAt1; rw [span_ne_found d a b h]

theorem splitAt1_none (d : UInt8) (a : Bytes) (h : d ∉ a) : splitAt1 d a = (a, none) := by
  unfold splitAt1; rw [span_ne_none d a h]

theorem parseFormLoop_succ (fuel : Nat) (s : Bytes) (acc : List (Bytes × Bytes)) (h : s ≠ []) :
    parseFormLoop (fuel + 1) s acc =
      match splitAt1 (UInt8.ofNat Gen.formEq) (splitAt1 (UInt8.ofNat Gen.formAmp) s).1 with
      | (_, none) => (acc, false)
      | (name, some value) =>
        if name.isEmpty then (acc, false)
        else
          match (splitAt1 (UInt8.ofNat Gen.formAmp) s).2 with
          | none => (acc ++ [(C15.urldecode name, C15.urldecode value)], true)
          | some r => parseFormLoop fuel r (acc ++ [(C15.urldecode name, C15.urldecode value)]) := by
  cases s with
  | nil => exact absurd rfl h
  | cons x xs =>
    rw [parseFormLoop]
    · rcases h1 : splitAt1 (UInt8.ofNat Gen.formAmp) (x :: xs) with ⟨item, rest⟩
      simp only
      rfl
    · simp

theorem unreserved_not_sep : ∀ c : UInt8, C15.Spec.rfcUnreserved c = true → c ≠ 38 ∧ c ≠ 61 := by
  apply forall_uint8
  decide +kernel

theorem hexdigit_not_sep : ∀ c : UInt8, C15.Spec.isHexDigit c = true → c ≠ 38 ∧ c ≠ 61 := by
  apply forall_uint8
  decide +kernel

theorem urlencodeByte_no_sep (c x : UInt8) (hx : x ∈ C15.urlencodeByte c) : x ≠ 38 ∧ x ≠ 61 := by
  rcases C15.urlencodeByte_cases c with ⟨e, _, _, _, hu⟩ | ⟨e, _, _, y1, y2, _⟩
  · rw [e] at hx; simp at hx; subst hx; exact unreserved_not_sep _ hu
  · rw [e] at hx
    simp at hx
    rcases hx with rfl | rfl | rfl
    · decide
    · exact hexdigit_not_sep _ y1
    · exact hexdigit_not_sep _ y2

theorem urlencode_no_sep (s : Bytes) (x : UInt8) (hx : x ∈ C15.urlencode s) : x ≠ 38 ∧ x ≠ 61 := by
  unfold C15.urlencode at hx
  rw [List.mem_flatMap] at hx
  obtain ⟨c, _, hc⟩ := hx
  exact urlencodeByte_no_sep c x hc

theorem urlencode_ne_nil (s : Bytes) (h : s ≠ []) : C15.urlencode s ≠ [] := by
  cases s with
  | nil => exact absurd rfl h
  | cons c t =>
    rw [C15.urlencode_cons]
    rcases C15.urlencodeByte_cases c with ⟨e, _⟩ | ⟨e, _⟩ <;> rw [e] <;> simp

theorem urldecode_urlencode' (s : Bytes) : C15.urldecode (C15.urlencode s) = s := by
  induction s with
  | nil => simp [C15.urlencode, C15.urldecode]
  | cons c s ih => rw [C15.urlencode_cons, C15.urldecode_urlencodeByte_append, ih]

theorem gen_form_consts : UInt8.ofNat Gen.formAmp = 38 ∧ UInt8.ofNat Gen.formEq = 61 := by decide

/-- one item `enc k = enc v` followed by `tail`: the pair is appended and the loop goes on -/
theorem parseFormLoop_item (fuel : Nat) (k v : Bytes) (hk : k ≠ []) (acc : List (Bytes × Bytes)) :
    (parseFormLoop (fuel + 1) (C15.urlencode k ++ [61] ++ C15.urlencode v) acc = (acc ++ [(k, v)], true))
    ∧ ∀ rest, parseFormLoop (fuel + 1) (C15.urlencode k ++ [61] ++ C15.urlencode v ++ [38] ++ rest) acc
        = parseFormLoop fuel rest (acc ++ [(k, v)]) := by
  obtain ⟨ha, he⟩ := gen_form_consts
  have hk38 : (38 : UInt8) ∉ C15.urlencode k := fun h => (urlencode_no_sep k 38 h).1 rfl
  have hv38 : (38 : UInt8) ∉ C15.urlencode v := fun h => (urlencode_no_sep v 38 h).1 rfl
  have hk61 : (61 : UInt8) ∉ C15.urlencode k := fun h => (urlencode_no_sep k 61 h).2 rfl
  have hitem38 : (38 : UInt8) ∉ C15.urlencode k ++ [61] ++ C15.urlencode v := by
    simp only [List.mem_append, List.mem_singleton, not_or]
    exact ⟨⟨hk38, by decide⟩, hv38⟩
  have hne : C15.urlencode k ++ [61] ++ C15.urlencode v ≠ [] := by simp
  have hkne := urlencode_ne_nil k hk
  have hsplit2 : splitAt1 61 (C15.urlencode k ++ [61] ++ C15.urlencode v) = (C15.urlencode k, some (C15.urlencode v)) := by
    rw [List.append_assoc]; exact splitAt1_found 61 _ _ hk61
  have hkemp : (C15.urlencode k).isEmpty = false := by
    cases h : C15.urlencode k with
    | nil => exact absurd h hkne
    | cons _ _ => rfl
  constructor
  · rw [parseFormLoop_succ _ _ _ hne]
    simp only [ha, he, splitAt1_none 38 _ hitem38, hsplit2, hkemp, Bool.false_eq_true, if_false,
      urldecode_urlencode']
  · intro rest
    have hne2 : C15.urlencode k ++ [61] ++ C15.urlencode v ++ [38] ++ rest ≠ [] := by simp
    have hsp : splitAt1 38 (C15.urlencode k ++ [61] ++ C15.urlencode v ++ [38] ++ rest)
        = (C15.urlencode k ++ [61] ++ C15.urlencode v, some rest) := by
      rw [List.append_assoc (C15.urlencode k ++ [61] ++ C15.urlencode v)]
      exact splitAt1_found 38 _ _ hitem38
    rw [parseFormLoop_succ _ _ _ hne2]
    simp only [ha, he, hsp, hsplit2, hkemp, Bool.false_eq_true, if_false, urldecode_urlencode']

theorem parseFormLoop_encode :
    ∀ (kvs : List (Bytes × Bytes)) (acc : List (Bytes × Bytes)) (fuel : Nat),
      (∀ kv ∈ kvs, kv.1 ≠ []) → kvs.length ≤ fuel →
      parseFormLoop fuel (encodeFormWith C15.urlencode kvs) acc = (acc ++ kvs, true) := by
  intro kvs
  induction kvs with
  | nil => intro acc fuel _ _; cases fuel <;> simp [encodeFormWith, parseFormLoop]
  | cons kv rest ih =>
    intro acc fuel hkeys hfuel
    obtain ⟨k, v⟩ := kv
    have hk : k ≠ [] := hkeys (k, v) (by simp)
    cases fuel with
    | zero => simp at hfuel
    | succ f =>
      cases rest with
      | nil =>
        simp only [encodeFormWith]
        exact (parseFormLoop_item f k v hk acc).1
      | cons kv2 rest2 =>
        simp only [encodeFormWith]
        rw [(parseFormLoop_item f k v hk acc).2]
        rw [ih (acc ++ [(k, v)]) f (fun kv h => hkeys kv (by simp [h])) (by simpa using hfuel)]
        simp

theorem encodeForm_length (kvs : List (Bytes × Bytes)) : kvs.length ≤ (encodeFormWith C15.urlencode kvs).length := by
  induction kvs with
  | nil => simp [encodeFormWith]
  | cons kv rest ih =>
    obtain ⟨k, v⟩ := kv
    cases rest with
    | nil => simp [encodeFormWith]; omega
    | cons kv2 rest2 =>
      simp only [encodeFormWith, List.length_append, List.length_cons, List.length_nil] at ih ⊢
      omega

end Cppcms.C12
