import Cppcms.C12.Header
/-!
# C12: from the `Content-Type` header to the boundary string
-/
namespace Cppcms.C12
open Cppcms

/-- `multipart/form-data; boundary=` -/
def litMultipartCT : Bytes := [109, 117, 108, 116, 105, 112, 97, 114, 116, 47, 102, 111, 114, 109, 45, 100, 97, 116, 97, 59, 32,
  98, 111, 117, 110, 100, 97, 114, 121, 61]

def kMultipart : Bytes := [109, 117, 108, 116, 105, 112, 97, 114, 116]
def kFormData : Bytes := [102, 111, 114, 109, 45, 100, 97, 116, 97]
def kBoundary : Bytes := [98, 111, 117, 110, 100, 97, 114, 121]

theorem ct_lit_facts :
    litMultipartCT = kMultipart ++ 47 :: (kFormData ++ 59 :: 32 :: (kBoundary ++ [61]))
    ∧ (∀ x ∈ kMultipart, tokenChar x = true) ∧ (∀ x ∈ kFormData, tokenChar x = true) ∧ (∀ x ∈ kBoundary, tokenChar x = true)
    ∧ lower kMultipart ++ [47] ++ lower kFormData = ctMultipart ∧ lower kBoundary = kBoundary := by
  decide

theorem token_not_quote : ∀ x : UInt8, tokenChar x = true → x ≠ 34 := by
  apply forall_uint8
  decide +kernel

/-- a `Content-Type: multipart/form-data; boundary=<token>` header yields the media type
`multipart/form-data` and the boundary string `CRLF -- <token>` -/
theorem boundary_of_content_type (bkey : Bytes) (hne : bkey ≠ []) (htok : ∀ c ∈ bkey, tokenChar c = true) :
    mediaType (litMultipartCT ++ bkey) = ctMultipart
    ∧ mkBoundary (litMultipartCT ++ bkey) = some (Spec.delimiter bkey) := by
  obtain ⟨hlit, hm, hf, hbd, hlow, hlb⟩ := ct_lit_facts
  have hshape : litMultipartCT ++ bkey = kMultipart ++ 47 :: (kFormData ++ 59 :: 32 :: (kBoundary ++ 61 :: bkey)) := by
    rw [hlit]; nf
  have hsk0 : skipWs (kMultipart ++ 47 :: (kFormData ++ 59 :: 32 :: (kBoundary ++ 61 :: bkey))) =
      kMultipart ++ 47 :: (kFormData ++ 59 :: 32 :: (kBoundary ++ 61 :: bkey)) := by
    show skipWs (109 :: _) = _
    exact skipWs_id 109 _ (by decide) (by decide)
  have hmtr : mediaTypeRest (litMultipartCT ++ bkey) = (ctMultipart, 59 :: 32 :: (kBoundary ++ 61 :: bkey)) := by
    rw [hshape]
    unfold mediaTypeRest
    simp only [hsk0, tokenSpan_eq kMultipart (47 :: (kFormData ++ 59 :: 32 :: (kBoundary ++ 61 :: bkey))) hm
        (by intro y ys e; cases e; decide),
      tokenSpan_eq kFormData (59 :: 32 :: (kBoundary ++ 61 :: bkey)) hf (by intro y ys e; cases e; decide),
      bne_self_eq_false, Bool.false_eq_true, if_false, hlow]
    simp [kMultipart, kFormData]
  have hb0 : ∃ b0 bs, bkey = b0 :: bs := by
    cases bkey with
    | nil => exact absurd rfl hne
    | cons b0 bs => exact ⟨b0, bs, rfl⟩
  obtain ⟨b0, bs, hbk⟩ := hb0
  have hb0t := htok b0 (by rw [hbk]; exact List.mem_cons_self)
  have hb0nb := token_not_blank b0 hb0t
  have hb0nq := token_not_quote b0 hb0t
  have hpair : parsePairG true (59 :: 32 :: (kBoundary ++ 61 :: bkey)) = some (kBoundary, bkey, []) := by
    have hsemi : UInt8.ofNat Gen.pairSemicolon = 59 := by decide
    have heq : UInt8.ofNat Gen.pairEquals = 61 := by decide
    have hq : UInt8.ofNat Gen.pairQuote = 34 := by decide
    have hsk1 : skipWs (kBoundary ++ 61 :: bkey) = kBoundary ++ 61 :: bkey := by
      show skipWs (98 :: _) = _
      exact skipWs_id 98 _ (by decide) (by decide)
    have hts := tokenSpan_eq kBoundary (61 :: bkey) hbd (by intro y ys e; cases e; decide)
    have hsk2 : skipWs (61 :: bkey) = 61 :: bkey := skipWs_id 61 _ (by decide) (by decide)
    have hsk3 : skipWs bkey = bkey := by rw [hbk]; exact skipWs_id b0 _ hb0nb.1 hb0nb.2
    have hts2 : tokenSpan bkey = (bkey, []) := by
      have := tokenSpan_eq bkey [] htok (by intro y ys e; cases e)
      simpa using this
    have hq' : (b0 == 34) = false := by simpa using hb0nq
    unfold parsePairG
    simp only [hsemi, bne_self_eq_false, Bool.false_eq_true, if_false, skipWs_blank, hsk1, hts, if_true, hsk2, heq, hsk3]
    rw [hbk] at hts2 ⊢
    simp only [hq, hq', Bool.false_eq_true, if_false, hts2]
    simp [kBoundary]
  constructor
  · unfold mediaType; rw [hmtr]
  · unfold mkBoundary ctParameter
    rw [hmtr]
    have hcte : ctMultipart.isEmpty = false := by decide
    simp only [hcte, Bool.false_eq_true, if_false]
    have hlen : (59 :: 32 :: (kBoundary ++ 61 :: bkey)).length = (kBoundary ++ 61 :: bkey).length + 1 + 1 := rfl
    rw [hlen, ctParams, skipWs_id 59 _ (by decide) (by decide), hpair]
    · simp only [hlb, List.any_nil, Bool.false_eq_true, if_false, List.nil_append]
      have : ctParams ((kBoundary ++ 61 :: bkey).length + 1) [] [(kBoundary, bkey)] = [(kBoundary, bkey)] := by
        rw [ctParams]
        intro h; cases h
      rw [this]
      have hbe : bkey.isEmpty = false := by rw [hbk]; rfl
      simp [kBoundary, hbe, Spec.delimiter, Spec.crlf, Spec.dashes, ofNats, Gen.boundaryPrefix]
    · intro h; cases h

/-- `content_type::parse`'s parameter syntax with a quoted value -/
theorem parsePairG_true_quoted (key v t : Bytes) (hk : key ≠ []) (hkt : ∀ x ∈ key, tokenChar x = true) :
    parsePairG true (59 :: 32 :: (key ++ 61 :: (Spec.quote v ++ t))) = some (key, v, t) := by
  have hsemi : UInt8.ofNat Gen.pairSemicolon = 59 := by decide
  have heq : UInt8.ofNat Gen.pairEquals = 61 := by decide
  have hq : UInt8.ofNat Gen.pairQuote = 34 := by decide
  have hts : tokenSpan (key ++ 61 :: (Spec.quote v ++ t)) = (key, 61 :: (Spec.quote v ++ t)) :=
    tokenSpan_eq key _ hkt (by intro y ys e; cases e; decide)
  have hkne : key.isEmpty = false := by cases key <;> simp_all
  have hkne2 : (key ++ 61 :: (Spec.quote v ++ t)).isEmpty = false := by cases key <;> simp_all
  have hqs : Spec.quote v ++ t = 34 :: ((v.flatMap esc ++ [34]) ++ t) := by rw [quote_eq]; rfl
  have hsk : skipWs (Spec.quote v ++ t) = Spec.quote v ++ t := by
    rw [hqs]; exact skipWs_id 34 _ (by decide) (by decide)
  have hsk1 : skipWs (key ++ 61 :: (Spec.quote v ++ t)) = key ++ 61 :: (Spec.quote v ++ t) := by
    cases key with
    | nil => exact absurd rfl hk
    | cons x xs =>
      have hx := token_not_blank x (hkt x List.mem_cons_self)
      exact skipWs_id x _ hx.1 hx.2
  have hsk2 : skipWs (61 :: (Spec.quote v ++ t)) = 61 :: (Spec.quote v ++ t) := skipWs_id 61 _ (by decide) (by decide)
  unfold parsePairG
  simp only [hsemi, bne_self_eq_false, Bool.false_eq_true, if_false, skipWs_blank, hsk1, hkne2, hts, hkne, if_true, hsk2, heq, hsk]
  rw [hqs]
  simp only [hq, beq_self_eq_true, if_true]
  rw [← hqs, unquote_quote]

/-- a quoted boundary parameter — any non-empty byte string, written as a quoted-string — is
read back exactly -/
theorem boundary_of_content_type_quoted (bkey : Bytes) (hne : bkey ≠ []) :
    mediaType (litMultipartCT ++ Spec.quote bkey) = ctMultipart
    ∧ mkBoundary (litMultipartCT ++ Spec.quote bkey) = some (Spec.delimiter bkey) := by
  obtain ⟨hlit, hm, hf, hbd, hlow, hlb⟩ := ct_lit_facts
  have hshape : litMultipartCT ++ Spec.quote bkey = kMultipart ++ 47 :: (kFormData ++ 59 :: 32 :: (kBoundary ++ 61 :: (Spec.quote bkey ++ []))) := by
    rw [hlit]; nf
  have hsk0 : skipWs (kMultipart ++ 47 :: (kFormData ++ 59 :: 32 :: (kBoundary ++ 61 :: (Spec.quote bkey ++ [])))) =
      kMultipart ++ 47 :: (kFormData ++ 59 :: 32 :: (kBoundary ++ 61 :: (Spec.quote bkey ++ []))) := by
    show skipWs (109 :: _) = _
    exact skipWs_id 109 _ (by decide) (by decide)
  have hmtr : mediaTypeRest (litMultipartCT ++ Spec.quote bkey) = (ctMultipart, 59 :: 32 :: (kBoundary ++ 61 :: (Spec.quote bkey ++ []))) := by
    rw [hshape]
    unfold mediaTypeRest
    simp only [hsk0, tokenSpan_eq kMultipart (47 :: (kFormData ++ 59 :: 32 :: (kBoundary ++ 61 :: (Spec.quote bkey ++ [])))) hm
        (by intro y ys e; cases e; decide),
      tokenSpan_eq kFormData (59 :: 32 :: (kBoundary ++ 61 :: (Spec.quote bkey ++ []))) hf (by intro y ys e; cases e; decide),
      bne_self_eq_false, Bool.false_eq_true, if_false, hlow]
    simp [kMultipart, kFormData]
  have hpair := parsePairG_true_quoted kBoundary bkey [] (by decide) hbd
  constructor
  · unfold mediaType; rw [hmtr]
  · unfold mkBoundary ctParameter
    rw [hmtr]
    have hcte : ctMultipart.isEmpty = false := by decide
    simp only [hcte, Bool.false_eq_true, if_false]
    have hlen : (59 :: 32 :: (kBoundary ++ 61 :: (Spec.quote bkey ++ []))).length = (kBoundary ++ 61 :: (Spec.quote bkey ++ [])).length + 1 + 1 := rfl
    rw [hlen, ctParams, skipWs_id 59 _ (by decide) (by decide), hpair]
    · simp only [hlb, List.any_nil, Bool.false_eq_true, if_false, List.nil_append]
      have : ctParams ((kBoundary ++ 61 :: (Spec.quote bkey ++ [])).length + 1) [] [(kBoundary, bkey)] = [(kBoundary, bkey)] := by
        rw [ctParams]
        intro h; cases h
      rw [this]
      have hbe : bkey.isEmpty = false := by cases bkey <;> simp_all
      simp [kBoundary, hbe, Spec.delimiter, Spec.crlf, Spec.dashes, ofNats, Gen.boundaryPrefix]
    · intro h; cases h

end Cppcms.C12
