import Cppcms.C12.Model
/-!
# C12: `file_buffer` — the put area, the spill to a temporary file, `file::close`

`overflow()` is modelled statement by statement; its spill condition and the growth of the
in-memory buffer are regenerated from the source (`Gen.fbSpill`, `Gen.fbGrow`), as are the two
conditions of `file::close` (`Gen.closeOnDisk`, `Gen.closeUnlinks`).  Externals: `fopen/fwrite`
succeed iff `diskOk`.  `xsputn` is `std::streambuf`'s (fill the room, `overflow` for the next
byte), modelled as repeated `sputc`.
-/
namespace Cppcms.C12
open Cppcms

structure FB where
  limit : Nat
  inMem : Bool := true
  cap : Nat := 0          -- `epptr() - pbase()`: size of `data_` (in memory) / `output_` (spilled)
  buf : Bytes := []       -- `[pbase(), pptr())`
  file : Bytes := []      -- what `write_buffer` has appended to the temporary file (`file_size_` bytes)
deriving DecidableEq, Repr

def FB.content (fb : FB) : Bytes := fb.file ++ fb.buf
def FB.size (fb : FB) : Nat := fb.file.length + fb.buf.length

/-- `file_buffer::overflow(c)`; `none` = returns -1 (the temporary file cannot be written) -/
def FB.overflow (diskOk : Bool) (fb : FB) (c : Option UInt8) : Option FB :=
  let size := fb.buf.length
  let step : Option FB :=
    if fb.inMem then
      if Gen.fbSpill size fb.limit then
        -- to_file(): write_buffer(), switch to the `buffer_size` output buffer
        if diskOk then some { fb with inMem := false, file := fb.file ++ fb.buf, buf := [], cap := Gen.fileBufferBlock }
        else none
      else some { fb with cap := Gen.fbGrow fb.cap fb.limit }
    else
      if diskOk then some { fb with file := fb.file ++ fb.buf, buf := [] } else none
  step.map fun fb1 =>
    match c with
    | none => fb1
    | some b => { fb1 with buf := fb1.buf ++ [b] }

/-- `sputc` -/
def FB.sputc (diskOk : Bool) (fb : FB) (b : UInt8) : Option FB :=
  if fb.buf.length < fb.cap then some { fb with buf := fb.buf ++ [b] } else fb.overflow diskOk (some b)

/-- `sputn`: state after the write and the number of bytes accepted -/
def FB.sputn (diskOk : Bool) : FB → Bytes → FB × Nat
  | fb, [] => (fb, 0)
  | fb, b :: rest =>
    match fb.sputc diskOk b with
    | none => (fb, 0)
    | some fb' => let (fb'', n) := FB.sputn diskOk fb' rest; (fb'', n + 1)

/-- the invariant of the put area -/
def FB.Inv (fb : FB) : Prop :=
  fb.buf.length ≤ fb.cap ∧ (fb.inMem = true → fb.cap ≤ fb.limit ∧ fb.file = [])
    ∧ (fb.inMem = false → fb.cap = Gen.fileBufferBlock ∧ fb.limit < fb.size)

def FB.fresh (limit : Nat) : FB := { limit := limit }

/-- a sequence of writes (each must be accepted in full, as the parser requires) -/
def FB.writes (diskOk : Bool) : FB → List Bytes → Option FB
  | fb, [] => some fb
  | fb, w :: ws =>
    let (fb', n) := fb.sputn diskOk w
    if n = w.length then FB.writes diskOk fb' ws else none

/-- the same writes through the parser model's abstraction `fileWrite` -/
def fwrites (cfg : PCfg) : Bytes → List Bytes → Option Bytes
  | d, [] => some d
  | d, w :: ws => match fileWrite cfg d w with | none => none | some d' => fwrites cfg d' ws

/-! ## `file::close` and the temporary file -/

/-- does a temporary file of this part exist on disk after `file::close()` (called by `~file`)?
`spilled`: the buffer is on disk; `removed`/`temporary`: the flags of `http::file`; a spilled
buffer always has a name (`get_name` in `write_buffer`). -/
def tempLeftAfterClose (spilled removed temporary : Bool) : Bool :=
  spilled && !(Gen.closeOnDisk (!spilled) removed && Gen.closeUnlinks temporary false) && !removed

end Cppcms.C12
