import Cppcms.C12.FileBuffer
/-! # C12: proofs about the `overflow()`-level model of `file_buffer` (kept apart from the
definitions so that the driver does not depend on properties of the regenerated `Gen.fbGrow`) -/
namespace Cppcms.C12
open Cppcms

theorem fbGrow_spec (cap limit : Nat) (h : cap < limit) : cap < Gen.fbGrow cap limit ∧ Gen.fbGrow cap limit ≤ limit := by
  unfold Gen.fbGrow
  simp only
  split <;> split <;> simp_all <;> omega

theorem FB.size_content (fb : FB) : fb.size = fb.content.length := by simp [FB.size, FB.content]

/-- under the invariant, "in memory" means exactly "not more than `limit` bytes written" -/
theorem FB.inMem_iff (fb : FB) (hinv : fb.Inv) : fb.inMem = true ↔ fb.size ≤ fb.limit := by
  obtain ⟨h1, h2, h3⟩ := hinv
  cases hm : fb.inMem with
  | true => have := h2 hm; simp [FB.size, this.2]; omega
  | false => have := h3 hm; simp; omega

theorem FB.sputc_spec (diskOk : Bool) (fb : FB) (b : UInt8) (hinv : fb.Inv) :
    (diskOk = true ∨ fb.size + 1 ≤ fb.limit →
      ∃ fb', fb.sputc diskOk b = some fb' ∧ fb'.Inv ∧ fb'.content = fb.content ++ [b] ∧ fb'.limit = fb.limit)
    ∧ (diskOk = false → fb.inMem = true → fb.limit < fb.size + 1 → fb.sputc diskOk b = none) := by
  have hiff := FB.inMem_iff fb hinv
  obtain ⟨h1, h2, h3⟩ := hinv
  have hblk : 0 < Gen.fileBufferBlock := by decide
  unfold FB.sputc
  by_cases hroom : fb.buf.length < fb.cap
  · -- room in the put area
    simp only [hroom, if_true]
    constructor
    · intro _
      refine ⟨_, rfl, ⟨by simp; omega, ?_, ?_⟩, by simp [FB.content], rfl⟩
      · intro hm; exact h2 hm
      · intro hm; have := h3 hm; exact ⟨this.1, by simp [FB.size] at this ⊢; omega⟩
    · intro _ hm hlt
      exfalso
      have := h2 hm; simp [FB.size, this.2] at hlt; omega
  · simp only [hroom, if_false]
    have hfull : fb.buf.length = fb.cap := by omega
    unfold FB.overflow
    cases hm : fb.inMem with
    | true =>
      obtain ⟨hcl, hfile⟩ := h2 hm
      have hsz : fb.size = fb.cap := by simp [FB.size, hfile, hfull]
      by_cases hsp : fb.cap ≥ fb.limit
      · -- spill
        have hspill : Gen.fbSpill fb.buf.length fb.limit = true := by simp [Gen.fbSpill, hfull, hsp]
        simp only [if_true, hspill]
        constructor
        · intro hor
          have hd : diskOk = true := by
            rcases hor with h | h
            · exact h
            · omega
          simp only [hd, if_true, Option.map_some]
          refine ⟨_, rfl, ⟨by simp; omega, by simp, ?_⟩, by simp [FB.content, hfile], rfl⟩
          intro _; exact ⟨rfl, by simp [FB.size, hfile, hfull]; omega⟩
        · intro hd _ _
          simp [hd]
      · -- grow
        have hspill : Gen.fbSpill fb.buf.length fb.limit = false := by simp [Gen.fbSpill, hfull]; omega
        have hg := fbGrow_spec fb.cap fb.limit (by omega)
        simp only [if_true, hspill, Bool.false_eq_true, if_false, Option.map_some]
        constructor
        · intro _
          refine ⟨_, rfl, ⟨by simp; omega, ?_, by simp [hm]⟩, by simp [FB.content], rfl⟩
          intro _; exact ⟨hg.2, hfile⟩
        · intro _ _ hlt; omega
    | false =>
      obtain ⟨hc, hlim⟩ := h3 hm
      simp only [Bool.false_eq_true, if_false]
      constructor
      · intro hor
        have hd : diskOk = true := by
          rcases hor with h | h
          · exact h
          · omega
        simp only [hd, if_true, Option.map_some]
        refine ⟨_, rfl, ⟨by simp; omega, by simp [hm], ?_⟩, by simp [FB.content], rfl⟩
        intro _; exact ⟨hc, by simp [FB.size] at hlim ⊢; omega⟩
      · intro _ hm' _
        cases hm'

/-- writing a run of bytes -/
theorem FB.sputn_spec (diskOk : Bool) : ∀ (bs : Bytes) (fb : FB), fb.Inv →
    (diskOk = true ∨ fb.size + bs.length ≤ fb.limit →
      ∃ fb', fb.sputn diskOk bs = (fb', bs.length) ∧ fb'.Inv ∧ fb'.content = fb.content ++ bs ∧ fb'.limit = fb.limit)
    ∧ (diskOk = false → fb.inMem = true → fb.limit < fb.size + bs.length → (fb.sputn diskOk bs).2 < bs.length) := by
  intro bs
  induction bs with
  | nil =>
    intro fb hinv
    refine ⟨fun _ => ⟨fb, rfl, hinv, by simp, rfl⟩, fun _ hm h => ?_⟩
    exfalso; have := (FB.inMem_iff fb hinv).mp hm; simp at h; omega
  | cons b rest ih =>
    intro fb hinv
    obtain ⟨hok, hfail⟩ := FB.sputc_spec diskOk fb b hinv
    constructor
    · intro hor
      obtain ⟨fb1, hs1, hinv1, hc1, hl1⟩ := hok (by
        rcases hor with h | h
        · exact Or.inl h
        · right; simp at h; omega)
      have hsz1 : fb1.size = fb.size + 1 := by rw [FB.size_content, hc1, FB.size_content]; simp
      obtain ⟨fb2, hs2, hinv2, hc2, hl2⟩ := (ih fb1 hinv1).1 (by
        rcases hor with h | h
        · exact Or.inl h
        · right; rw [hsz1, hl1]; simp at h; omega)
      exact ⟨fb2, by simp [FB.sputn, hs1, hs2], hinv2, by rw [hc2, hc1]; simp, hl2.trans hl1⟩
    · intro hd hm hlt
      by_cases h1 : fb.limit < fb.size + 1
      · simp [FB.sputn, hfail hd hm h1]
      · obtain ⟨fb1, hs1, hinv1, hc1, hl1⟩ := hok (Or.inr (by omega))
        have hsz1 : fb1.size = fb.size + 1 := by rw [FB.size_content, hc1, FB.size_content]; simp
        have hm1 : fb1.inMem = true := (FB.inMem_iff fb1 hinv1).mpr (by rw [hsz1, hl1]; omega)
        have := (ih fb1 hinv1).2 hd hm1 (by rw [hsz1, hl1]; simp at hlt; omega)
        simp only [FB.sputn, hs1, List.length_cons]
        omega

theorem FB.fresh_inv (limit : Nat) : (FB.fresh limit).Inv := by
  refine ⟨by simp [FB.fresh], fun _ => ⟨by simp [FB.fresh], rfl⟩, fun h => by simp [FB.fresh] at h⟩

theorem FB.writes_spec (diskOk : Bool) : ∀ (ws : List Bytes) (fb : FB), fb.Inv → (diskOk = false → fb.inMem = true) →
    (diskOk = true ∨ fb.size + ws.flatten.length ≤ fb.limit →
      ∃ fb', fb.writes diskOk ws = some fb' ∧ fb'.Inv ∧ fb'.content = fb.content ++ ws.flatten ∧ fb'.limit = fb.limit)
    ∧ (diskOk = false → fb.limit < fb.size + ws.flatten.length → fb.writes diskOk ws = none) := by
  intro ws
  induction ws with
  | nil =>
    intro fb hinv hmem
    refine ⟨fun _ => ⟨fb, rfl, hinv, by simp, rfl⟩, fun hd h => ?_⟩
    exfalso; have := (FB.inMem_iff fb hinv).mp (hmem hd); simp at h; omega
  | cons w ws ih =>
    intro fb hinv hmem
    obtain ⟨hok, hfail⟩ := FB.sputn_spec diskOk w fb hinv
    constructor
    · intro hor
      obtain ⟨fb1, hs1, hinv1, hc1, hl1⟩ := hok (by
        rcases hor with h | h
        · exact Or.inl h
        · right; simp only [List.flatten_cons, List.length_append] at h; omega)
      have hsz1 : fb1.size = fb.size + w.length := by rw [FB.size_content, hc1, FB.size_content]; simp
      have hmem1 : diskOk = false → fb1.inMem = true := by
        intro hd
        rcases hor with h | h
        · rw [hd] at h; cases h
        · exact (FB.inMem_iff fb1 hinv1).mpr (by rw [hsz1, hl1]; simp only [List.flatten_cons, List.length_append] at h; omega)
      obtain ⟨fb2, hs2, hinv2, hc2, hl2⟩ := (ih fb1 hinv1 hmem1).1 (by
        rcases hor with h | h
        · exact Or.inl h
        · right; rw [hsz1, hl1]; simp only [List.flatten_cons, List.length_append] at h; omega)
      exact ⟨fb2, by simp [FB.writes, hs1, hs2], hinv2, by rw [hc2, hc1]; simp, hl2.trans hl1⟩
    · intro hd hlt
      by_cases h1 : fb.limit < fb.size + w.length
      · have := hfail hd (hmem hd) h1
        simp only [FB.writes]
        rcases hsn : fb.sputn diskOk w with ⟨fb', n⟩
        rw [hsn] at this
        simp only at this
        have hne : ¬ n = w.length := by omega
        simp [hne]
      · obtain ⟨fb1, hs1, hinv1, hc1, hl1⟩ := hok (Or.inr (by omega))
        have hsz1 : fb1.size = fb.size + w.length := by rw [FB.size_content, hc1, FB.size_content]; simp
        have hm1 : fb1.inMem = true := (FB.inMem_iff fb1 hinv1).mpr (by rw [hsz1, hl1]; omega)
        have := (ih fb1 hinv1 (fun _ => hm1)).2 hd (by rw [hsz1, hl1]; simp only [List.flatten_cons, List.length_append] at hlt; omega)
        simp [FB.writes, hs1, this]

theorem fwrites_spec (cfg : PCfg) : ∀ (ws : List Bytes) (d : Bytes), (cfg.diskOk = true ∨ d.length ≤ cfg.memLimit) →
    fwrites cfg d ws =
      if cfg.diskOk = true ∨ d.length + ws.flatten.length ≤ cfg.memLimit then some (ws.flatten.reverse ++ d) else none := by
  intro ws
  induction ws with
  | nil => intro d h; simp [fwrites, h]
  | cons w ws ih =>
    intro d h
    simp only [fwrites, fileWrite, List.flatten_cons, List.length_append]
    by_cases hd : cfg.diskOk = true
    · simp only [hd, Bool.true_or, if_true, true_or]
      rw [ih _ (Or.inl hd)]
      simp [hd, List.reverse_append, List.append_assoc]
    · have hd' : cfg.diskOk = false := by simpa using hd
      simp only [hd', Bool.false_or, Bool.false_eq_true, false_or]
      by_cases h1 : d.length + w.length ≤ cfg.memLimit
      · simp only [h1, decide_true, if_true]
        rw [ih _ (Or.inr (by simp; omega))]
        simp only [hd', Bool.false_eq_true, false_or, List.length_append, List.length_reverse]
        by_cases h2 : d.length + (w.length + ws.flatten.length) ≤ cfg.memLimit
        · rw [if_pos (by omega), if_pos h2]; simp [List.reverse_append, List.append_assoc]
        · rw [if_neg (by omega), if_neg h2]
      · have h2 : ¬ d.length + (w.length + ws.flatten.length) ≤ cfg.memLimit := by omega
        simp only [h1, decide_false, Bool.false_eq_true, if_false]
        rw [if_neg h2]

end Cppcms.C12
