import Cppcms.C12.Limits
/-!
# C12: which bodies are accepted

* the accepted bodies are prefix-free: an accepted body followed by anything is refused, a proper
  prefix of an accepted body is refused;
* (with the guard "no CR in the boundary key" and a working disk) a body is accepted **iff** it is
  `--bkey` followed by parts `CRLF header-block content CRLF--bkey` and the closing `--CRLF`, where a
  header block is whatever `process_header` accepts as a whole and a content is any byte string in
  which the delimiter does not occur before its end (`multipart_accept_iff`).
-/
namespace Cppcms.C12
open Cppcms

/-- one `.cont` step inside an accepted buffer: the buffer goes on -/
theorem ploop_eof_cont (cfg : Cfg) (atLen : Bool) (p p1 pf : P) (c : UInt8) (t : Bytes) (r : Res)
    (hs : pstep cfg.toPCfg p c = .cont p1) (h : ploop cfg atLen p (c :: t) r = .ok (pf, .eof)) :
    t ≠ [] ∧ ploop cfg atLen p1 t r = .ok (pf, .eof) := by
  simp only [ploop, hs] at h
  cases t with
  | nil =>
    exfalso
    simp only [List.isEmpty_nil, if_true] at h
    split at h
    · split at h
      · cases h
      · cases h
    · cases h
  | cons x xs =>
    simp only [List.isEmpty_cons, Bool.false_eq_true, if_false] at h
    exact ⟨by simp, h⟩

/-- **prefix-free**: an accepted buffer followed by anything is answered 400 -/
theorem accept_then_more_refused (cfg : Cfg) (atLen : Bool) :
    ∀ (pre : Bytes) (p pf : P) (r r' : Res) (suf : Bytes), pre ≠ [] → suf ≠ [] →
      ploop cfg true p pre r = .ok (pf, .eof) → ploop cfg atLen p (pre ++ suf) r' = .error 400 := by
  intro pre
  induction pre with
  | nil => intro _ _ _ _ _ h; exact absurd rfl h
  | cons c t ih =>
    intro p pf r r' suf _ hsuf h
    have hne : (t ++ suf).isEmpty = false := by cases t <;> cases suf <;> simp_all
    cases hs : pstep cfg.toPCfg p c with
    | cont p1 =>
      obtain ⟨ht, h1⟩ := ploop_eof_cont cfg true p p1 pf c t r hs h
      simp only [List.cons_append, ploop, hs, hne, Bool.false_eq_true, if_false]
      exact ih p1 pf r r' suf ht hsuf h1
    | hdrDone p1 =>
      simp only [ploop, hs] at h
      simp only [List.cons_append, ploop, hs]
      cases t with
      | nil => simp [ploop] at h
      | cons x xs => exact ih p1 pf _ _ suf (by simp) hsuf h
    | ready p1 =>
      simp only [ploop, hs] at h
      simp only [List.cons_append, ploop, hs]
      cases hfl : p1.filesRev with
      | nil => rw [hfl] at h; cases h
      | cons f fs =>
        rw [hfl] at h
        simp only at h ⊢
        by_cases hso : sizeOk cfg f.mime f.data.length = true
        · simp only [hso, Bool.not_true, Bool.false_eq_true, if_false] at h ⊢
          cases t with
          | nil => simp [ploop] at h
          | cons x xs => exact ih p1 pf _ _ suf (by simp) hsuf h
        · simp [hso] at h
    | eofNl p1 =>
      simp only [List.cons_append, ploop, hs, hne, Bool.not_false, if_true]
      rfl
    | err => simp [ploop, hs] at h
    | noRoom p1 => simp [ploop, hs] at h

/-- a single-chunk run that is accepted: the loop ended with `eof` -/
theorem run_single_ready (cfg : Cfg) (B : Bytes) (parts : List Part) (hne : B ≠ [])
    (h : run cfg B.length {} [B] = .ready parts) :
    ∃ pf, ploop cfg true ({} : P) B .continueInput = .ok (pf, .eof) ∧ pf.files = parts := by
  rw [run_cons, progress_eq] at h
  have e1 : B.isEmpty = false := by cases B <;> simp_all
  have hrs : ({} : RS).read = 0 := rfl
  simp only [e1, Bool.false_eq_true, if_false, hrs, Nat.zero_add, beq_self_eq_true, Bool.true_and] at h
  cases hp : ploop cfg true ({} : P) B .continueInput with
  | error code => rw [hp] at h; cases h
  | ok pr =>
    obtain ⟨pf, r⟩ := pr
    rw [hp] at h
    simp only at h
    by_cases hr : r = .eof
    · subst hr
      simp [run] at h
      exact ⟨pf, rfl, h⟩
    · have : (r != Res.eof) = true := by simpa using hr
      simp [this] at h

/-! ## the matcher is complete: `position_` is the longest border -/

/-- every prefix of the boundary that is a suffix of what was consumed is at most `position_` long -/
def Jinv (b : Bytes) (p : P) : Prop := ∀ k, 1 ≤ k → k ≤ b.length → b.take k <:+ V b p → k ≤ p.pos

theorem suffix_concat {x y : Bytes} {a c : UInt8} (h : (x ++ [a]) <:+ (y ++ [c])) : a = c ∧ x <:+ y := by
  obtain ⟨t, ht⟩ := h
  rw [← List.append_assoc] at ht
  have := List.append_inj' ht rfl
  exact ⟨by simpa using this.2, ⟨t, this.1⟩⟩

theorem suffix_of_append_short {x u y : Bytes} (h : x <:+ (u ++ y)) (hl : x.length ≤ y.length) : x <:+ y := by
  obtain ⟨t, ht⟩ := h
  rcases List.append_eq_append_iff.mp ht with ⟨a', hu, hy⟩ | ⟨c', ht', hx⟩
  · have := congrArg List.length hy
    simp at this
    have ha : a' = [] := by apply List.eq_nil_of_length_eq_zero; omega
    subst ha
    simp at hy
    rw [hy]
    exact List.suffix_refl _
  · exact ⟨c', hx.symm⟩

theorem sep_step_pos (cfg : PCfg) (p : P) (c : UInt8) (hdisk : cfg.diskOk = true)
    (hst : p.st = .sepBoundary) (hlen : 2 ≤ cfg.boundary.length) (p' : P) (hs : pstep cfg p c = .cont p') :
    p'.pos = if c = cfg.boundary.getD p.pos 0 then p.pos + 1 else if c = cfg.boundary.getD 0 0 then 1 else 0 := by
  have hw : ∀ d bs, fileWrite cfg d bs = some (bs.reverse ++ d) := by
    intro d bs; simp [fileWrite, hdisk]
  unfold pstep at hs
  rw [hst] at hs
  simp only at hs
  by_cases hc : c = cfg.boundary.getD p.pos 0
  · simp only [hc, beq_self_eq_true, if_true, sepFinish] at hs
    have h1 : p.pos + 1 ≠ 0 := by omega
    simp only [h1, if_false] at hs
    split at hs
    · cases hs
    · cases hs; simp [hc]
  · have hc' : (c == cfg.boundary.getD p.pos 0) = false := by simpa using hc
    simp only [hc', Bool.false_eq_true, if_false] at hs
    simp only [hc, if_false]
    by_cases hp0 : p.pos > 0
    · simp only [hp0, if_true, hw, sepFinish] at hs
      by_cases hcb : c = cfg.boundary.getD 0 0
      · have h1 : (1 : Nat) ≠ cfg.boundary.length := by omega
        simp only [hcb, beq_self_eq_true, if_true, Nat.one_ne_zero, if_false, h1] at hs
        cases hs; simp [hcb]
      · have hcb' : (c == cfg.boundary.getD 0 0) = false := by simpa using hcb
        simp only [hcb', Bool.false_eq_true, if_false, if_true] at hs
        cases hs; rw [if_neg hcb]
    · have hp : p.pos = 0 := by omega
      simp only [hp0, if_false, sepFinish, hp, if_true, hw] at hs
      cases hs
      have : c ≠ cfg.boundary.getD 0 0 := by rw [hp] at hc; exact hc
      rw [if_neg this]

theorem Jinv_step (cfg : PCfg) (g : Guard cfg.boundary) (hdisk : cfg.diskOk = true) (p p' : P) (c : UInt8)
    (hst : p.st = .sepBoundary) (hpos : p.pos < cfg.boundary.length) (hJ : Jinv cfg.boundary p)
    (hs : pstep cfg p c = .cont p') (hV : V cfg.boundary p' = V cfg.boundary p ++ [c]) :
    Jinv cfg.boundary p' := by
  have hlen := guard_len g
  have hb0 := guard_get0 g
  have hpp := sep_step_pos cfg p c hdisk hst (by omega) p' hs
  intro k hk1 hkb hsuf
  rw [hV] at hsuf
  obtain ⟨j, rfl⟩ : ∃ j, k = j + 1 := ⟨k - 1, by omega⟩
  have hjb : j < cfg.boundary.length := by omega
  rw [← take_succ_getD _ j hjb] at hsuf
  obtain ⟨hcj, hsufj⟩ := suffix_concat hsuf
  have hjp : j ≤ p.pos := by
    by_cases hj0 : j = 0
    · omega
    · exact hJ j (by omega) (by omega) hsufj
  rw [hpp]
  by_cases hc : c = cfg.boundary.getD p.pos 0
  · simp only [hc, if_true]; omega
  · simp only [hc, if_false]
    have hjne : j ≠ p.pos := by intro e; rw [e] at hcj; exact hc hcj.symm
    have hjlt : j < p.pos := by omega
    by_cases hj0 : j = 0
    · subst hj0
      simp only [hcj.symm, if_true]; omega
    · exfalso
      -- b.take j is a proper suffix of b.take p.pos: a CR at a non-zero index
      have hsuf2 : cfg.boundary.take j <:+ cfg.boundary.take p.pos := by
        apply suffix_of_append_short (u := p.dataRev.reverse)
        · exact hsufj
        · simp [List.length_take]; omega
      obtain ⟨u, hu⟩ := hsuf2
      have hul : u.length = p.pos - j := by
        have := congrArg List.length hu
        simp [List.length_take] at this; omega
      have hdrop : (cfg.boundary.take p.pos).drop (p.pos - j) = cfg.boundary.take j := by
        rw [← hu, ← hul]; simp
      rw [List.drop_take] at hdrop
      have hi : p.pos - j < cfg.boundary.length := by omega
      rw [List.drop_eq_getElem_cons hi] at hdrop
      have e1 : p.pos - (p.pos - j) = (j - 1) + 1 := by omega
      have e2 : cfg.boundary.take j = cfg.boundary.getD 0 0 :: (cfg.boundary.take j).tail := by
        obtain ⟨bkey, hb, _⟩ := g
        rw [hb]
        obtain ⟨j', rfl⟩ : ∃ j', j = j' + 1 := ⟨j - 1, by omega⟩
        simp
      rw [e1, List.take_succ_cons, e2] at hdrop
      have h13 : cfg.boundary[p.pos - j] = 13 := by
        have := (List.cons.inj hdrop).1
        rw [this, hb0]
      have := guard_cr_only_first g (p.pos - j) hi (by rw [getD_lt _ _ hi]; exact h13)
      omega

theorem Jinv_fresh (b : Bytes) (p : P) (hpos : p.pos = 0) (hd : p.dataRev = []) : Jinv b p := by
  intro k hk1 hkb hsuf
  simp only [V, hpos, hd, List.reverse_nil, List.take_zero, List.append_nil] at hsuf
  have := hsuf.length_le
  have h2 : (b.take k).length = k := by rw [List.length_take]; omega
  rw [h2] at this
  simp at this
  omega

/-! ## decomposing an accepted buffer -/

/-- content: up to the first `content_ready` -/
theorem content_decomp (cfg : Cfg) (g : Guard cfg.boundary) (hdisk : cfg.diskOk = true) :
    ∀ (s : Bytes) (p pf : P) (r : Res), p.st = .sepBoundary → p.pos < cfg.boundary.length →
      Jinv cfg.boundary p → r ≠ .eof → ploop cfg true p s r = .ok (pf, .eof) →
      ∃ pre c rest p1 dd, s = pre ++ c :: rest ∧ pfold cfg.toPCfg p pre = some p1
        ∧ pstep cfg.toPCfg p1 c = .ready (p1.close dd)
        ∧ V cfg.boundary p ++ pre ++ [c] = dd.reverse ++ cfg.boundary
        ∧ (∀ k, k ≤ pre.length → ¬ cfg.boundary <:+ V cfg.boundary p ++ pre.take k)
        ∧ p1.cur = p.cur ∧ p1.filesRev = p.filesRev ∧ p1.hdrRev = p.hdrRev
        ∧ sizeOk cfg p.cur.mime dd.length = true
        ∧ ploop cfg true (p1.close dd) rest .contentReady = .ok (pf, .eof) := by
  intro s
  induction s with
  | nil => intro p pf r _ _ _ hr h; simp [ploop] at h; exact absurd h.2 hr
  | cons c t ih =>
    intro p pf r hst hpos hJ hr h
    have hnoV : ¬ cfg.boundary <:+ V cfg.boundary p := by
      intro hb
      have := hJ cfg.boundary.length (by have := guard_len g; omega) (Nat.le_refl _) (by rw [List.take_length]; exact hb)
      omega
    rcases sep_step cfg.toPCfg p c g hdisk hst hpos with ⟨p1, hs, hst1, hpos1, hV1, hcur1, hfl1, hh1, _⟩ | ⟨d, hs, hV⟩
    · obtain ⟨ht, h1⟩ := ploop_eof_cont cfg true p p1 pf c t r hs h
      have hJ1 := Jinv_step cfg.toPCfg g hdisk p p1 c hst hpos hJ hs hV1
      obtain ⟨pre, c', rest, p2, dd, hsplit, hf, hrd, hVV, hno, hcur, hfl, hh, hsz, hrest⟩ := ih p1 pf r hst1 hpos1 hJ1 hr h1
      refine ⟨c :: pre, c', rest, p2, dd, by rw [hsplit]; rfl, by simp [pfold, hs, hf], hrd, ?_, ?_,
        hcur.trans hcur1, hfl.trans hfl1, hh.trans hh1, by rw [← hcur1]; exact hsz, hrest⟩
      · rw [hV1] at hVV; simpa [List.append_assoc] using hVV
      · intro k hk
        cases k with
        | zero => simpa using hnoV
        | succ k' =>
          have := hno k' (by simp at hk; omega)
          rw [hV1] at this
          simpa [List.append_assoc] using this
    · simp only [ploop, hs] at h
      simp only [P.close, List.length_reverse] at h
      by_cases hso : sizeOk cfg p.cur.mime d.length = true
      · simp only [hso, Bool.not_true, Bool.false_eq_true, if_false] at h
        refine ⟨[], c, t, p, d, rfl, rfl, hs, by simpa using hV, ?_, rfl, rfl, rfl, hso, h⟩
        intro k hk
        have : k = 0 := by simpa using hk
        subst this
        simpa using hnoV
      · simp [hso] at h

/-- header block: up to `meta_ready` -/
theorem header_decomp (cfg : Cfg) :
    ∀ (s : Bytes) (p pf : P) (r : Res), p.st = .crlfcrlf → r ≠ .eof → ploop cfg true p s r = .ok (pf, .eof) →
      ∃ h rest m, s = h ++ rest ∧ hdrEndsAt p.pos h = true ∧ processHeader (p.hdrRev.reverse ++ h) = some m
        ∧ ploop cfg true { p with st := .sepBoundary, pos := 0, hdrRev := [], cur := m } rest .metaReady = .ok (pf, .eof) := by
  intro s
  induction s with
  | nil => intro p pf r _ hr h; simp [ploop] at h; exact absurd h.2 hr
  | cons c t ih =>
    intro p pf r hst hr h
    by_cases hend : crlfNext p.pos c = Gen.crlfcrlf.length
    · cases hph : processHeader (p.hdrRev.reverse ++ [c]) with
      | none =>
        have hs : pstep cfg.toPCfg p c = .err := by
          simp [pstep, hst, hend, hph]
        simp [ploop, hs] at h
      | some m =>
        have hs : pstep cfg.toPCfg p c = .hdrDone { p with st := .sepBoundary, pos := 0, hdrRev := [], cur := m } := by
          simp [pstep, hst, hend, hph]
        simp only [ploop, hs] at h
        refine ⟨[c], t, m, rfl, by simp [hdrEndsAt, hend], hph, h⟩
    · have hs : pstep cfg.toPCfg p c = .cont { p with hdrRev := c :: p.hdrRev, pos := crlfNext p.pos c } := by
        simp [pstep, hst, hend]
      obtain ⟨ht, h1⟩ := ploop_eof_cont cfg true p _ pf c t r hs h
      obtain ⟨h', rest, m, hsplit, he, hph, hrest⟩ :=
        ih { p with hdrRev := c :: p.hdrRev, pos := crlfNext p.pos c } pf r hst hr h1
      have hne : h' ≠ [] := by intro e; rw [e] at he; simp [hdrEndsAt] at he
      have hne' : h'.isEmpty = false := by cases h' <;> simp_all
      refine ⟨c :: h', rest, m, by rw [hsplit]; rfl, ?_, by simpa using hph, hrest⟩
      simp only [hdrEndsAt, hne', Bool.false_eq_true, if_false, Bool.and_eq_true, bne_iff_ne, ne_eq]
      exact ⟨hend, he⟩

/-- the first `--bkey` -/
theorem first_boundary_decomp (cfg : Cfg) :
    ∀ (n : Nat) (s : Bytes) (p pf : P) (r : Res), p.st = .firstBoundary → p.pos + n + 1 = cfg.boundary.length →
      r ≠ .eof → ploop cfg true p s r = .ok (pf, .eof) →
      ∃ s', s = cfg.boundary.drop p.pos ++ s' ∧ ploop cfg true { p with st := .crlfOrEof, pos := 0 } s' r = .ok (pf, .eof) := by
  intro n
  induction n with
  | zero =>
    intro s p pf r hst hlen hr h
    have hpos : p.pos < cfg.boundary.length := by omega
    cases s with
    | nil => simp [ploop] at h; exact absurd h.2 hr
    | cons c t =>
      by_cases hc : c = cfg.boundary.getD p.pos 0
      · have h1 : p.pos + 1 = cfg.boundary.length := by omega
        have hs : pstep cfg.toPCfg p c = .cont { p with st := .crlfOrEof, pos := 0 } := by
          simp [pstep, hst, hc, h1]
        obtain ⟨_, h2⟩ := ploop_eof_cont cfg true p _ pf c t r hs h
        refine ⟨t, ?_, h2⟩
        rw [List.drop_eq_getElem_cons hpos, List.drop_eq_nil_of_le (by omega), hc, getD_lt _ _ hpos]
        rfl
      · have hc' : (c != cfg.boundary.getD p.pos 0) = true := by simpa using hc
        have hs : pstep cfg.toPCfg p c = .err := by simp only [pstep, hst, hc', if_true]
        simp [ploop, hs] at h
  | succ n ih =>
    intro s p pf r hst hlen hr h
    have hpos : p.pos < cfg.boundary.length := by omega
    cases s with
    | nil => simp [ploop] at h; exact absurd h.2 hr
    | cons c t =>
      by_cases hc : c = cfg.boundary.getD p.pos 0
      · have h1 : p.pos + 1 ≠ cfg.boundary.length := by omega
        have hs : pstep cfg.toPCfg p c = .cont { p with pos := p.pos + 1 } := by
          simp [pstep, hst, hc, h1]
        obtain ⟨_, h2⟩ := ploop_eof_cont cfg true p _ pf c t r hs h
        obtain ⟨s', hsplit, hrest⟩ := ih t { p with pos := p.pos + 1 } pf r hst (by simp; omega) hr h2
        refine ⟨s', ?_, by simpa using hrest⟩
        rw [List.drop_eq_getElem_cons hpos, hc, getD_lt _ _ hpos, hsplit]
        rfl
      · have hc' : (c != cfg.boundary.getD p.pos 0) = true := by simpa using hc
        have hs : pstep cfg.toPCfg p c = .err := by simp only [pstep, hst, hc', if_true]
        simp [ploop, hs] at h

/-- everything after a delimiter: parts, then the closing `--CRLF` -/
theorem tail_decomp (cfg : Cfg) (g : Guard cfg.boundary) (hdisk : cfg.diskOk = true) :
    ∀ (n : Nat) (s : Bytes) (p pf : P) (r : Res), s.length ≤ n →
      p.st = .crlfOrEof → p.pos = 0 → p.hdrRev = [] → p.cur = {} → p.dataRev = [] → r ≠ .eof →
      ploop cfg true p s r = .ok (pf, .eof) →
      ∃ items : List Item, s = tailOf cfg.boundary items ∧ (∀ it ∈ items, ItemOK cfg it)
        ∧ pf.filesRev = (items.map Item.part).reverse ++ p.filesRev := by
  intro n
  induction n with
  | zero =>
    intro s p pf r hlen _ _ _ _ _ hr h
    have : s = [] := List.eq_nil_of_length_eq_zero (by omega)
    subst this
    simp [ploop] at h; exact absurd h.2 hr
  | succ n ih =>
    intro s p pf r hlen hst hpos hh hcur hd hr h
    cases s with
    | nil => simp [ploop] at h; exact absurd h.2 hr
    | cons c t =>
      by_cases hc13 : c = 13
      · -- a part
        subst hc13
        have hs1 : pstep cfg.toPCfg p 13 = .cont { p with st := .lf } := by simp [pstep, hst]
        obtain ⟨_, h1⟩ := ploop_eof_cont cfg true p _ pf 13 t r hs1 h
        cases t with
        | nil => simp [ploop] at h1; exact absurd h1.2 hr
        | cons c2 t2 =>
          by_cases hc10 : c2 = 10
          · subst hc10
            have hs2 : pstep cfg.toPCfg { p with st := .lf } 10 = .cont { p with st := .crlfcrlf } := by simp [pstep]
            obtain ⟨_, h2⟩ := ploop_eof_cont cfg true _ _ pf 10 t2 r hs2 h1
            obtain ⟨hdr, rest, m, hsplit, he, hph, h3⟩ := header_decomp cfg t2 { p with st := .crlfcrlf } pf r rfl hr h2
            simp only [hpos, hh, List.reverse_nil, List.nil_append] at he hph
            let p3 : P := { p with st := .sepBoundary, pos := 0, hdrRev := [], cur := m }
            obtain ⟨pre, cc, rest2, p4, dd, hsplit2, hf4, hs4, hVV, hno, hcur4, hfl4, hh4, hsz, h5⟩ :=
              content_decomp cfg g hdisk rest p3 pf .metaReady rfl (by have := guard_len g; simp [p3]; omega)
                (Jinv_fresh _ p3 rfl (by simp [p3, hd])) (by decide) h3
            have hV0 : V cfg.boundary p3 = [] := by simp [V, p3, hd]
            rw [hV0, List.nil_append] at hVV
            let it : Item := { hdr := hdr, info := m, data := dd.reverse }
            -- the rest is shorter
            have hlen2 : rest2.length ≤ n := by
              have e : (13 :: 10 :: t2).length = t2.length + 2 := rfl
              rw [e, hsplit, hsplit2] at hlen
              simp only [List.length_append, List.length_cons] at hlen
              omega
            obtain ⟨items, htail, hoks, hfiles⟩ :=
              ih rest2 (p4.close dd) pf .contentReady hlen2 rfl rfl (by simp [P.close, hh4, p3]) rfl rfl (by decide) h5
            refine ⟨it :: items, ?_, ?_, ?_⟩
            · simp only [tailOf, it]
              rw [hsplit, hsplit2, ← htail]
              have : pre ++ cc :: rest2 = (pre ++ [cc]) ++ rest2 := by simp
              rw [this, hVV]
              simp [List.append_assoc]
            · intro it' hit'
              simp only [List.mem_cons] at hit'
              rcases hit' with rfl | hit'
              · refine ⟨by simp [headerOK, it, he, hph], ?_, by simpa [it, p3] using hsz⟩
                intro k hk
                simp only [it, List.reverse_reverse] at hk ⊢
                rw [← hVV] at hk ⊢
                have hk' : k ≤ pre.length := by simp at hk; omega
                rw [List.take_append_of_le_length hk']
                have := hno k hk'
                rw [hV0, List.nil_append] at this
                exact this
              · exact hoks it' hit'
            · rw [hfiles]
              simp [P.close, hcur4, hfl4, p3, Item.part, it]
          · have hc' : (c2 != 10) = true := by simpa using hc10
            have hs2 : pstep cfg.toPCfg { p with st := .lf } c2 = .err := by simp [pstep, hc']
            simp [ploop, hs2] at h1
      · by_cases hc45 : c = 45
        · -- the closing `--CRLF`
          subst hc45
          have hs1 : pstep cfg.toPCfg p 45 = .cont { p with st := .minus } := by simp [pstep, hst]
          obtain ⟨_, h1⟩ := ploop_eof_cont cfg true p _ pf 45 t r hs1 h
          cases t with
          | nil => simp [ploop] at h1; exact absurd h1.2 hr
          | cons c2 t2 =>
            by_cases hc2 : c2 = 45
            · subst hc2
              have hs2 : pstep cfg.toPCfg { p with st := .minus } 45 = .cont { p with st := .eofCr } := by simp [pstep]
              obtain ⟨_, h2⟩ := ploop_eof_cont cfg true _ _ pf 45 t2 r hs2 h1
              cases t2 with
              | nil => simp [ploop] at h2; exact absurd h2.2 hr
              | cons c3 t3 =>
                by_cases hc3 : c3 = 13
                · subst hc3
                  have hs3 : pstep cfg.toPCfg { p with st := .eofCr } 13 = .cont { p with st := .eofLf } := by simp [pstep]
                  obtain ⟨_, h3⟩ := ploop_eof_cont cfg true _ _ pf 13 t3 r hs3 h2
                  cases t3 with
                  | nil => simp [ploop] at h3; exact absurd h3.2 hr
                  | cons c4 t4 =>
                    by_cases hc4 : c4 = 10
                    · subst hc4
                      have hs4 : pstep cfg.toPCfg { p with st := .eofLf } 10 = .eofNl { p with st := .eofLf } := by simp [pstep]
                      simp only [ploop, hs4] at h3
                      cases t4 with
                      | nil =>
                        simp at h3
                        refine ⟨[], rfl, by simp, ?_⟩
                        rw [← h3]; simp
                      | cons c5 t5 => simp at h3
                    · have hc' : (c4 != 10) = true := by simpa using hc4
                      have hs4 : pstep cfg.toPCfg { p with st := .eofLf } c4 = .err := by simp [pstep, hc']
                      simp [ploop, hs4] at h3
                · have hc' : (c3 != 13) = true := by simpa using hc3
                  have hs3 : pstep cfg.toPCfg { p with st := .eofCr } c3 = .err := by simp [pstep, hc']
                  simp [ploop, hs3] at h2
            · have hc' : (c2 != 45) = true := by simpa using hc2
              have hs2 : pstep cfg.toPCfg { p with st := .minus } c2 = .err := by simp [pstep, hc']
              simp [ploop, hs2] at h1
        · have h13 : (c == 13) = false := by simpa using hc13
          have h45 : (c == 45) = false := by simpa using hc45
          have hs1 : pstep cfg.toPCfg p c = .err := by simp [pstep, hst, h13, h45]
          simp [ploop, hs1] at h

end Cppcms.C12
