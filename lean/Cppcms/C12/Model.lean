import Cppcms.Common
import Cppcms.C12.Gen
import Cppcms.C15.Model
import Cppcms.C12.Spec
/-!
# C12 model: multipart/form-data parser, request body driver, urlencoded forms

Hand-written control flow of

* `private/multipart_parser.h`: `consume` (all eight states, `position_` carried across
  calls, the hand-rolled restart of the boundary matcher, the `buffer + 1 == buffer_end`
  rule for the closing CRLF), `process_header`, `parse_content_disposition`, `parse_pair`;
* `private/http_protocol.h`: `skip_ws`, `tocken`, `unquote`, `compare`, `ascii_to_lower`;
* `src/http_content_type.cpp`: `content_type::parse` (media type and parameters);
* `private/http_file_buffer.h`: only what the parser can observe: bytes are appended, the
  buffer spills to a temporary file when more than `limit` bytes are written, a failing
  spill makes `sputc/sputn` fail (`no_room_left`);
* `src/http_request.cpp`: `on_content_start`, the `while(begin!=end)` loop of
  `on_content_progress` with its status codes, `size_ok`, the end-of-content delivery into
  `post()`/`files()`, `parse_form_urlencoded`.

Constants (state numbering, literals, byte classes, status codes, defaults) are tied to
`Gen.lean` (regenerated from the C++ source on every run) by `gen_tie` at the end of this
file: if the source changes a constant the theorem stops type-checking.
-/
namespace Cppcms.C12
open Cppcms

/-! ## http::protocol helpers -/

def isSeparator (c : UInt8) : Bool := Gen.separators.contains c.toNat

/-- the loop condition of `tocken()`: `0x20 <= c && c <= 0x7E && !separator(c)` on a signed
`char` (bytes ≥ 0x80 are negative and fail the first test). -/
def tokenChar (c : UInt8) : Bool :=
  decide (Gen.tokenLo ≤ c.toNat) && decide (c.toNat ≤ Gen.tokenHi) && !isSeparator c

def toLower (c : UInt8) : UInt8 :=
  if c.toNat < Gen.lowerFrom || c.toNat > Gen.lowerTo then c
  else UInt8.ofNat (c.toNat - Gen.lowerSub + Gen.lowerAdd)

def lower (s : Bytes) : Bytes := s.map toLower

/-- `protocol::compare(a,b)==0` -/
def eqCI (a b : Bytes) : Bool := lower a == lower b

def ofNats (l : List Nat) : Bytes := l.map UInt8.ofNat

def isBlank (c : UInt8) : Bool := c == 32 || c == 9

/-- `protocol::skip_ws`: blanks, and `CRLF` followed by a blank (header folding) -/
def skipWs : Bytes → Bytes
  | [] => []
  | c :: rest =>
    if isBlank c then skipWs rest
    else if c == 13 then
      match rest with
      | d :: e :: rest' => if d == 10 && isBlank e then skipWs rest' else c :: rest
      | _ => c :: rest
    else c :: rest

/-- `tocken(begin,end)`: the token and what follows it -/
def tokenSpan (s : Bytes) : Bytes × Bytes := s.span tokenChar

/-- body of `unquote` after the opening quote: `(value, rest after the closing quote)`;
`none` when the string is not terminated (the C++ leaves `begin` unchanged). -/
def unquoteLoop : Bytes → Option (Bytes × Bytes)
  | [] => none
  | c :: rest =>
    if c == 34 then some ([], rest)
    else if c == 92 then
      match rest with
      | d :: r => (unquoteLoop r).map fun (v, t) => (d :: v, t)
      | [] => none
    else (unquoteLoop rest).map fun (v, t) => (c :: v, t)

def unquote : Bytes → Option (Bytes × Bytes)
  | c :: rest => if c == 34 then unquoteLoop rest else none
  | [] => none

/-- one `; name=value` parameter (`parse_pair`, and the loop body of `content_type::parse`
minus the lower-casing): `(name, value, rest)` -/
def parsePairG (wsBeforeEq : Bool) (s : Bytes) : Option (Bytes × Bytes × Bytes) :=
  match s with
  | [] => none
  | c :: r =>
    if c != UInt8.ofNat Gen.pairSemicolon then none else
    let p := skipWs r
    if p.isEmpty then none else
    let (name, e0) := tokenSpan p
    if name.isEmpty then none else
    let e := if wsBeforeEq then skipWs e0 else e0
    match e with
    | [] => none
    | ch :: r2 =>
      if ch != UInt8.ofNat Gen.pairEquals then none else
      let p2 := skipWs r2
      match p2 with
      | [] => none
      | q :: _ =>
        if q == UInt8.ofNat Gen.pairQuote then
          match unquote p2 with
          | none => none
          | some (v, t) => some (name, v, t)
        else
          let (v, t) := tokenSpan p2
          if v.isEmpty then none else some (name, v, t)

/-- `multipart_parser::parse_pair`: the `=` must follow the parameter name immediately -/
def parsePair (s : Bytes) : Option (Bytes × Bytes × Bytes) := parsePairG false s

/-! ## content_type::parse -/

/-- `content_type::parse`, the part that computes `media_type()`; the second component is
the text after the subtype (`[]` when the media type is not well formed) -/
def mediaTypeRest (s : Bytes) : Bytes × Bytes :=
  let b := skipWs s
  if b.isEmpty then ([], []) else
  let (ty, r) := tokenSpan b
  if ty.isEmpty then ([], []) else
  match r with
  | [] => ([], [])
  | c :: r2 =>
    if c != 47 then ([], []) else
    let (sub, r3) := tokenSpan r2
    if sub.isEmpty then ([], []) else (lower ty ++ [47] ++ lower sub, r3)

def mediaType (s : Bytes) : Bytes := (mediaTypeRest s).1

/-- the `while(begin!=end)` parameter loop of `content_type::parse`; `std::map::insert`
keeps the first value of a repeated key.  The pair syntax is `parse_pair`'s except that
`skip_ws` is applied before the `;` and before the `=` as well. -/
def ctParams : Nat → Bytes → List (Bytes × Bytes) → List (Bytes × Bytes)
  | 0, _, acc => acc
  | _, [], acc => acc
  | fuel + 1, s, acc =>
    match parsePairG true (skipWs s) with
    | none => acc
    | some (n, v, rest) =>
      let k := lower n
      ctParams fuel rest (if acc.any (·.1 == k) then acc else acc ++ [(k, v)])

def ctParameter (s : Bytes) (key : Bytes) : Bytes :=
  let (mt, rest) := mediaTypeRest s
  if mt.isEmpty then [] else
  match (ctParams rest.length rest []).find? (·.1 == key) with
  | some (_, v) => v
  | none => []

/-! ## parts -/

structure Meta where
  name : Bytes := []
  filename : Bytes := []
  mime : Bytes := []
deriving DecidableEq, Repr, Inhabited

def Part.hasMime (f : Part) : Bool := !f.mime.isEmpty

/-- `parse_content_disposition`'s loop (entered after the first `skip_ws`) -/
def parseCDLoop : Nat → Bytes → Meta → Option Meta
  | _, [], m => some m
  | 0, _ :: _, _ => none
  | fuel + 1, s, m =>
    match parsePair s with
    | none => none
    | some (n, v, rest) =>
      let k := lower n
      let m' := if k == ofNats Gen.keyFilename then { m with filename := v }
                else if k == ofNats Gen.keyName then { m with name := v } else m
      parseCDLoop fuel (skipWs rest) m'

def parseCD (s : Bytes) (m : Meta) : Option Meta := parseCDLoop s.length (skipWs s) m

/-- `hdr.find("\r\n",pos)`: text before the first CRLF and text after it -/
def findCRLF : Bytes → Option (Bytes × Bytes)
  | [] => none
  | a :: t =>
    match t with
    | [] => none
    | b :: rest =>
      if a == 13 && b == 10 then some ([], rest)
      else (findCRLF t).map fun (x, y) => (a :: x, y)

/-- one header line of a part (`one_header` in `process_header`) -/
def processLine (line : Bytes) (m : Meta) : Option Meta :=
  let p := skipWs line
  let (hname, e1) := tokenSpan p
  match skipWs e1 with
  | [] => none
  | c :: r =>
    if c != 58 then none else
    let p3 := skipWs r
    if eqCI hname (ofNats Gen.hdrDisposition) then
      let (tok, e2) := tokenSpan p3
      if !eqCI tok (ofNats Gen.dispFormData) then none else parseCD e2 m
    else if eqCI hname (ofNats Gen.hdrContentType) then some { m with mime := mediaType p3 }
    else some m

/-- `process_header`: `none` is `return false` -/
def processHeaderLoop : Nat → Bytes → Meta → Option Meta
  | _, [], _ => none
  | 0, _ :: _, _ => none
  | fuel + 1, h, m =>
    match findCRLF h with
    | none => none
    | some (line, rest) =>
      if line.isEmpty then some m else
      match processLine line m with
      | none => none
      | some m' => processHeaderLoop fuel rest m'

def processHeader (h : Bytes) : Option Meta := processHeaderLoop h.length h {}

/-! ## the parser -/

inductive St
  | firstBoundary | crlfOrEof | minus | eofCr | eofLf | lf | crlfcrlf | sepBoundary
deriving DecidableEq, Repr, Inhabited

def St.idx : St → Nat
  | .firstBoundary => 0 | .crlfOrEof => 1 | .minus => 2 | .eofCr => 3
  | .eofLf => 4 | .lf => 5 | .crlfcrlf => 6 | .sepBoundary => 7

inductive Res
  | parsingError | metaReady | contentPartial | contentReady | continueInput | eof | noRoomLeft
deriving DecidableEq, Repr, Inhabited

def Res.idx : Res → Nat
  | .parsingError => 0 | .metaReady => 1 | .contentPartial => 2 | .contentReady => 3
  | .continueInput => 4 | .eof => 5 | .noRoomLeft => 6

/-- parser configuration: `boundary` is `boundary_` (`"\r\n--" + bkey`); `memLimit` the
in-memory limit of a part's `file_buffer` (0 when the parser was built with -1); `diskOk`
is the external fact "the temporary file can be created and written". -/
structure PCfg where
  boundary : Bytes
  memLimit : Nat
  diskOk : Bool
deriving Repr

/-- `file_is_ready_` is not stored: the code sets it exactly when entering and clears it
exactly when leaving `expecting_separator_boundary`, so it equals `st == sepBoundary`
(checked against `has_file()` in the correspondence run). -/
structure P where
  st : St := .firstBoundary
  pos : Nat := Gen.initPos
  hdrRev : Bytes := []
  cur : Meta := {}
  dataRev : Bytes := []
  filesRev : List Part := []
deriving DecidableEq, Repr, Inhabited

def P.files (p : P) : List Part := p.filesRev.reverse
def P.fileReady (p : P) : Bool := p.st == .sepBoundary

/-- `set_content_type`: the boundary string, or `none` when the parameter is missing/empty -/
def mkBoundary (contentType : Bytes) : Option Bytes :=
  let bkey := ctParameter contentType [98, 111, 117, 110, 100, 97, 114, 121]
  if bkey.isEmpty then none else some (ofNats Gen.boundaryPrefix ++ bkey)

inductive Step
  | cont (p : P) | hdrDone (p : P) | ready (p : P) | eofNl (p : P) | err | noRoom (p : P)
deriving Repr

/-- `sputn`/`sputc` on the part's `file_buffer`: fails only when the buffer has to spill
(more than `memLimit` bytes) and the temporary file cannot be written. -/
def fileWrite (cfg : PCfg) (dataRev : Bytes) (bs : Bytes) : Option Bytes :=
  if cfg.diskOk || decide (dataRev.length + bs.length ≤ cfg.memLimit) then some (bs.reverse ++ dataRev)
  else none

/-- the part's buffer has spilled to a temporary file -/
def spilled (cfg : PCfg) (size : Nat) : Bool := decide (size > cfg.memLimit)

/-- the part is complete (`files_.push_back(file_); file_.reset(new http::file())`) with
content `dRev` (reversed) -/
def P.close (p : P) (dRev : Bytes) : P :=
  { p with st := .crlfOrEof, pos := 0, cur := {}, dataRev := [],
           filesRev := { name := p.cur.name, filename := p.cur.filename, mime := p.cur.mime,
                         data := dRev.reverse } :: p.filesRev }

/-- `if(*buffer == crlfcrlf_[position_]) position_++; else position_=0;` -/
def crlfNext (pos : Nat) (c : UInt8) : Nat :=
  if c == (ofNats Gen.crlfcrlf).getD pos 0 then pos + 1 else 0

/-- the naive CRLFCRLF scanner of `expecting_crlfcrlf`, started at `position_ = pos`, reports
the end of the header block exactly at the last byte of `h` (and not before) -/
def hdrEndsAt : Nat → Bytes → Bool
  | _, [] => false
  | pos, c :: rest =>
    if rest.isEmpty then crlfNext pos c == Gen.crlfcrlf.length
    else crlfNext pos c != Gen.crlfcrlf.length && hdrEndsAt (crlfNext pos c) rest

/-- `h` is a header block the parser accepts as a whole and reads as `m` -/
def headerOK (h : Bytes) (m : Meta) : Bool := hdrEndsAt 0 h && processHeader h == some m

/-- tail of one iteration of the matcher loop, after `position_` was updated -/
def sepFinish (cfg : PCfg) (p : P) (c : UInt8) (pos : Nat) (d : Bytes) : Step :=
  if pos = 0 then
    match fileWrite cfg d [c] with
    | none => .noRoom { p with pos := 0, dataRev := d }
    | some d' => .cont { p with pos := 0, dataRev := d' }
  else if pos = cfg.boundary.length then .ready (p.close d)
  else .cont { p with pos := pos, dataRev := d }

/-- one iteration of `for(;buffer!=buffer_end;buffer++) switch(state_)` (for
`expecting_separator_boundary`: of its inner `while`) -/
def pstep (cfg : PCfg) (p : P) (c : UInt8) : Step :=
  match p.st with
  | .firstBoundary =>
    if c != cfg.boundary.getD p.pos 0 then .err
    else if p.pos + 1 = cfg.boundary.length then .cont { p with st := .crlfOrEof, pos := 0 }
    else .cont { p with pos := p.pos + 1 }
  | .crlfOrEof =>
    if c == 13 then .cont { p with st := .lf }
    else if c == 45 then .cont { p with st := .minus }
    else .err
  | .minus => if c != 45 then .err else .cont { p with st := .eofCr }
  | .eofCr => if c != 13 then .err else .cont { p with st := .eofLf }
  | .eofLf => if c != 10 then .err else .eofNl p
  | .lf => if c != 10 then .err else .cont { p with st := .crlfcrlf }
  | .crlfcrlf =>
    let h := c :: p.hdrRev
    let pos := crlfNext p.pos c
    if pos = Gen.crlfcrlf.length then
      match processHeader h.reverse with
      | none => .err
      | some m => .hdrDone { p with st := .sepBoundary, pos := 0, hdrRev := [], cur := m }
    else .cont { p with hdrRev := h, pos := pos }
  | .sepBoundary =>
    if c == cfg.boundary.getD p.pos 0 then sepFinish cfg p c (p.pos + 1) p.dataRev
    else if p.pos > 0 then
      let pos' := if c == cfg.boundary.getD 0 0 then 1 else 0
      match fileWrite cfg p.dataRev (cfg.boundary.take p.pos) with
      | none => .noRoom { p with pos := pos' }
      | some d => sepFinish cfg p c pos' d
    else sepFinish cfg p c p.pos p.dataRev

/-- value returned when the buffer is exhausted -/
def endRes (p : P) : Res := if p.fileReady then .contentPartial else .continueInput

/-- `multipart_parser::consume(buffer,buffer_end)`: result, new state, unconsumed rest.
(On `parsing_error`/`no_room_left` the C++ leaves `buffer` at the offending byte.) -/
def consume (cfg : PCfg) (p : P) : Bytes → Res × P × Bytes
  | [] => (endRes p, p, [])
  | c :: rest =>
    match pstep cfg p c with
    | .cont p' => consume cfg p' rest
    | .hdrDone p' => (.metaReady, p', rest)
    | .ready p' => (.contentReady, p', rest)
    | .eofNl p' => if rest.isEmpty then (.eof, p', []) else (.parsingError, p, c :: rest)
    | .err => (.parsingError, p, c :: rest)
    | .noRoom p' => (.noRoomLeft, p', c :: rest)

/-! ## request level -/

/-- what `on_content_progress` needs besides the parser configuration: `fieldLimit` is
`limits.content_length_limit()` in bytes (`allowed`). -/
structure Cfg extends PCfg where
  fieldLimit : Nat
deriving Repr

/-- `request::size_ok(f, allowed)` -/
def sizeOk (cfg : Cfg) (mime : Bytes) (size : Nat) : Bool := !(mime.isEmpty && decide (size > cfg.fieldLimit))

/-- the `while(begin!=end)` loop of `on_content_progress`, literally: call `consume`, switch
on its result.  `atLen` is `read_size == content_length` (already incremented by `n`).
Returns the status code to answer with, or the parser state and the last result `r`. -/
def wloop (cfg : Cfg) (atLen : Bool) : Nat → P → Bytes → Res → Except Nat (P × Res)
  | 0, p, _, r => .ok (p, r)
  | fuel + 1, p, buf, r =>
    if buf.isEmpty then .ok (p, r) else
    match consume cfg.toPCfg p buf with
    | (.metaReady, p', rest) => wloop cfg atLen fuel p' rest .metaReady
    | (.contentPartial, p', rest) =>
      if !sizeOk cfg p'.cur.mime p'.dataRev.length then .error Gen.codeSizePartial
      else wloop cfg atLen fuel p' rest .contentPartial
    | (.contentReady, p', rest) =>
      match p'.filesRev with
      | [] => .error 500  -- last_file() throws; unreachable after content_ready
      | f :: _ =>
        if !sizeOk cfg f.mime f.data.length then .error Gen.codeSizeReady
        else wloop cfg atLen fuel p' rest .contentReady
    | (.continueInput, p', rest) => wloop cfg atLen fuel p' rest .continueInput
    | (.noRoomLeft, _, _) => .error Gen.codeNoRoom
    | (.eof, p', rest) =>
      if !rest.isEmpty then .error Gen.codeEofNotAtBufferEnd
      else if !atLen then .error Gen.codeEofBeforeLength
      else wloop cfg atLen fuel p' rest .eof
    | (.parsingError, _, _) => .error Gen.codeParseError

/-- `size_ok` on the buffer itself: the length is only measured for a non-file field -/
def sizeOkL (cfg : Cfg) (mime data : Bytes) : Bool := !(mime.isEmpty && decide (data.length > cfg.fieldLimit))

theorem sizeOkL_eq (cfg : Cfg) (mime data : Bytes) : sizeOkL cfg mime data = sizeOk cfg mime data.length := rfl

/-- `wloop` as it is *executed* by the driver (identical but for measuring a part lazily);
`wloop_eq_fast` below is a `csimp` lemma: the compiler replaces `wloop` by this proven-equal
function, nothing else refers to it. -/
def wloopFast (cfg : Cfg) (atLen : Bool) : Nat → P → Bytes → Res → Except Nat (P × Res)
  | 0, p, _, r => .ok (p, r)
  | fuel + 1, p, buf, r =>
    if buf.isEmpty then .ok (p, r) else
    match consume cfg.toPCfg p buf with
    | (.metaReady, p', rest) => wloopFast cfg atLen fuel p' rest .metaReady
    | (.contentPartial, p', rest) =>
      if !sizeOkL cfg p'.cur.mime p'.dataRev then .error Gen.codeSizePartial
      else wloopFast cfg atLen fuel p' rest .contentPartial
    | (.contentReady, p', rest) =>
      match p'.filesRev with
      | [] => .error 500
      | f :: _ =>
        if !sizeOkL cfg f.mime f.data then .error Gen.codeSizeReady
        else wloopFast cfg atLen fuel p' rest .contentReady
    | (.continueInput, p', rest) => wloopFast cfg atLen fuel p' rest .continueInput
    | (.noRoomLeft, _, _) => .error Gen.codeNoRoom
    | (.eof, p', rest) =>
      if !rest.isEmpty then .error Gen.codeEofNotAtBufferEnd
      else if !atLen then .error Gen.codeEofBeforeLength
      else wloopFast cfg atLen fuel p' rest .eof
    | (.parsingError, _, _) => .error Gen.codeParseError

@[csimp] theorem wloop_eq_fast : @wloop = @wloopFast := by
  funext cfg atLen fuel
  induction fuel with
  | zero => funext p buf r; rfl
  | succ n ih =>
    funext p buf r
    simp only [wloop, wloopFast, sizeOkL_eq, ih]
    rfl

/-- The same loop with `consume` inlined: one structural recursion over the buffer.
`Lemmas.wloop_eq_ploop` proves it equal to `wloop`. -/
def ploop (cfg : Cfg) (atLen : Bool) (p : P) : Bytes → Res → Except Nat (P × Res)
  | [], r => .ok (p, r)
  | c :: rest, r =>
    match pstep cfg.toPCfg p c with
    | .cont p' =>
      if rest.isEmpty then
        if p'.fileReady then
          if !sizeOk cfg p'.cur.mime p'.dataRev.length then .error Gen.codeSizePartial
          else .ok (p', .contentPartial)
        else .ok (p', .continueInput)
      else ploop cfg atLen p' rest r
    | .hdrDone p' => ploop cfg atLen p' rest .metaReady
    | .ready p' =>
      match p'.filesRev with
      | [] => .error 500
      | f :: _ =>
        if !sizeOk cfg f.mime f.data.length then .error Gen.codeSizeReady
        else ploop cfg atLen p' rest .contentReady
    | .eofNl p' =>
      if !rest.isEmpty then .error Gen.codeParseError
      else if !atLen then .error Gen.codeEofBeforeLength
      else .ok (p', .eof)
    | .err => .error Gen.codeParseError
    | .noRoom _ => .error Gen.codeNoRoom

/-- progress of one request body: parser state and `read_size` -/
structure RS where
  p : P := {}
  read : Nat := 0
deriving DecidableEq, Repr, Inhabited

/-- `request::on_content_progress(n)` for a multipart body (no content filter), `chunk` being
the `n` bytes just read; `cl` is `content_length`. `.error code` = non-zero return. -/
def progress (cfg : Cfg) (cl : Nat) (s : RS) (chunk : Bytes) : Except Nat RS :=
  if chunk.isEmpty then .ok s else
  let read' := s.read + chunk.length
  match wloop cfg (read' == cl) (chunk.length) s.p chunk .continueInput with
  | .error code => .error code
  | .ok (p', r) =>
    if read' == cl && r != .eof then .error Gen.codeNoEofAtLength
    else .ok { p := p', read := read' }

inductive Outcome
  | error (code : Nat)          -- answered with this status; nothing delivered
  | ready (parts : List Part)   -- `read_size == content_length`: the parts handed over, in order
  | pending                     -- more input expected
deriving DecidableEq, Repr, Inhabited

/-- feed the chunks in order (what `connection::on_some_content_read` does) -/
def run (cfg : Cfg) (cl : Nat) : RS → List Bytes → Outcome
  | s, [] => if s.read == cl then .ready s.p.files else .pending
  | s, c :: cs =>
    match progress cfg cl s c with
    | .error code => .error code
    | .ok s' => run cfg cl s' cs

/-! ### delivery into `post()` / `files()` -/

/-- `std::string::operator<` (unsigned bytes, prefix first) -/
def bytesLt : Bytes → Bytes → Bool
  | [], [] => false
  | [], _ :: _ => true
  | _ :: _, [] => false
  | a :: as, b :: bs => if a.toNat < b.toNat then true else if a.toNat > b.toNat then false else bytesLt as bs

/-- `std::multimap::insert`: after the last element whose key is not greater -/
def mmInsert (kv : Bytes × Bytes) : List (Bytes × Bytes) → List (Bytes × Bytes)
  | [] => [kv]
  | x :: xs => if bytesLt kv.1 x.1 then kv :: x :: xs else x :: mmInsert kv xs

def mmOfList (l : List (Bytes × Bytes)) : List (Bytes × Bytes) := l.foldl (fun acc kv => mmInsert kv acc) []

/-- end of `on_content_progress`: parts without a MIME type become `post()` entries, the
others `files()` (in order) -/
def deliver (parts : List Part) : List (Bytes × Bytes) × List Part :=
  (mmOfList ((parts.filter (!·.hasMime)).map fun f => (f.name, f.data)), parts.filter (·.hasMime))

/-! ### reading a part back (`file::data()`, `read_file`) -/

/-- value returned by `file_buffer::underflow()` for the first byte of a refilled get area -/
def underflowRet (c : UInt8) : Int :=
  if Gen.underflowToIntType then (c.toNat : Int)
  else if c.toNat ≥ 128 then (c.toNat : Int) - 256 else (c.toNat : Int)

/-- reading a spilled part with `sbumpc`: the get area is refilled with blocks of
`buffer_size` bytes from the temporary file; `underflow` returning -1 (EOF) ends the read -/
def readBlocks : Nat → Bytes → Bytes
  | 0, _ => []
  | fuel + 1, rem =>
    match rem.take Gen.fileBufferBlock with
    | [] => []
    | c :: blk => if underflowRet c == -1 then [] else c :: blk ++ readBlocks fuel (rem.drop Gen.fileBufferBlock)

/-- what `seekg(off)` followed by reading to EOF returns for a part holding `data` -/
def readBackFrom (memLimit : Nat) (data : Bytes) (off : Nat) : Bytes :=
  if spilled { boundary := [], memLimit := memLimit, diskOk := true } data.length then
    readBlocks (data.length + 1) (data.drop off)
  else data.drop off

/-- end of `on_content_progress` as executed: form fields go through `read_file` (which
rewinds, or not, as the source says; `reader` = a multipart filter has read the part to its end
in `on_data_ready`), files are read by the application from offset 0 -/
def deliverR (memLimit : Nat) (reader : Bool) (parts : List Part) : List (Bytes × Bytes) × List Part :=
  (mmOfList ((parts.filter (!·.hasMime)).map fun f =>
      (f.name, readBackFrom memLimit f.data (if Gen.readFileRewinds then 0 else if reader then f.data.length else 0))),
   (parts.filter (·.hasMime)).map fun f => { f with data := readBackFrom memLimit f.data 0 })

/-! ### urlencoded -/

def splitAt1 (d : UInt8) (s : Bytes) : Bytes × Option Bytes :=
  match s.span (· != d) with
  | (a, []) => (a, none)
  | (a, _ :: b) => (a, some b)

/-- `request::parse_form_urlencoded(begin,end,out)`: the pairs inserted into `out` **so far**
and the return value. -/
def parseFormLoop : Nat → Bytes → List (Bytes × Bytes) → List (Bytes × Bytes) × Bool
  | _, [], acc => (acc, true)
  | 0, _ :: _, acc => (acc, true)
  | fuel + 1, s, acc =>
    let (item, rest) := splitAt1 (UInt8.ofNat Gen.formAmp) s
    match splitAt1 (UInt8.ofNat Gen.formEq) item with
    | (_, none) => (acc, false)            -- name_end == e
    | (name, some value) =>
      if name.isEmpty then (acc, false)    -- name_end == p
      else
        let acc' := acc ++ [(C15.urldecode name, C15.urldecode value)]
        match rest with
        | none => (acc', true)
        | some r => parseFormLoop fuel r acc'

def parseForm (s : Bytes) : List (Bytes × Bytes) × Bool := parseFormLoop s.length s []

/-! ### whole request -/

structure Limits where
  contentLimit : Nat      -- limits.content_length_limit(), bytes
  multipartLimit : Nat    -- limits.multipart_form_data_limit(), bytes
  memLimit : Nat          -- limits.file_in_memory_limit()
  diskOk : Bool
deriving Repr

inductive Mode
  | empty                       -- content_length == 0
  | full (urlencoded : Bool)    -- whole body buffered (`read_full`)
  | multipart (cfg : Cfg)
deriving Repr

def ctMultipart : Bytes := [109, 117, 108, 116, 105, 112, 97, 114, 116, 47, 102, 111, 114, 109, 45, 100, 97, 116, 97]
def ctUrlencoded : Bytes := [97, 112, 112, 108, 105, 99, 97, 116, 105, 111, 110, 47, 120, 45, 119, 119, 119, 45, 102, 111, 114, 109, 45,
  117, 114, 108, 101, 110, 99, 111, 100, 101, 100]

/-- `request::on_content_start()` without a content filter -/
def start (lim : Limits) (contentType : Bytes) (cl : Nat) : Except Nat Mode :=
  if cl = 0 then .ok .empty else
  let mt := mediaType contentType
  if mt == ctMultipart then
    if cl > lim.multipartLimit then .error Gen.codeMultipartTooLong else
    match mkBoundary contentType with
    | none => .error Gen.codeNoBoundary
    | some b => .ok (.multipart { boundary := b, memLimit := lim.memLimit, diskOk := lim.diskOk, fieldLimit := lim.contentLimit })
  else
    if cl > lim.contentLimit then .error Gen.codeContentTooLong else .ok (.full (mt == ctUrlencoded))

/-- what the application sees: status 0 and `post()`, `files()`; or the error status -/
inductive Seen
  | refused (code : Nat)
  | handled (post : List (Bytes × Bytes)) (files : List Part)
  | waiting
deriving DecidableEq, Repr, Inhabited

/-- a complete request body delivered in `chunks` (each within what `get_buffer` offers).
`urlencodedMalformed` is the status for a malformed urlencoded body (`none`: the C++ ignores
the return value of `parse_form_urlencoded`). -/
def request (lim : Limits) (contentType : Bytes) (cl : Nat) (chunks : List Bytes) : Seen :=
  match start lim contentType cl with
  | .error code => .refused code
  | .ok .empty => .handled [] []
  | .ok (.full ue) =>
    let body := chunks.flatten
    if body.length < cl then .waiting else
    if ue then
      let (pairs, ok) := parseForm (body.take cl)
      match ok, Gen.urlencodedMalformedCode with
      | false, some code => .refused code
      | _, _ => .handled (mmOfList pairs) []
    else .handled [] []
  | .ok (.multipart cfg) =>
    match run cfg cl {} chunks with
    | .error code => .refused code
    | .pending => .waiting
    | .ready parts => let (post, files) := deliver parts; .handled post files

/-- `request::get_buffer()` for a streamed (multipart) body: room offered for the next read -/
def getBufferSize (cl read bufferSize : Nat) : Nat := min (cl - read) bufferSize

/-! ### the read loop of `connection::load_content` / `on_some_content_read` -/

/-- Pieces actually handed to `on_content_progress`: every read is limited by the room
`get_buffer()` offers (`min(content_length - read_size, buffer_size)` for a streamed body, the
whole remainder for a fully buffered one); nothing is read past `content_length`. -/
def feed (cl bufSize : Nat) (streamed : Bool) : Nat → Nat → List Bytes → List Bytes
  | 0, _, _ => []
  | _, _, [] => []
  | fuel + 1, read, c :: cs =>
    if c.isEmpty then feed cl bufSize streamed fuel read cs else
    let room := if streamed then min (cl - read) bufSize else cl - read
    if room = 0 then [] else
    let piece := c.take room
    let rem := c.drop room
    piece :: feed cl bufSize streamed fuel (read + piece.length) (if rem.isEmpty then cs else rem :: cs)

def feedAll (cl bufSize : Nat) (streamed : Bool) (chunks : List Bytes) : List Bytes :=
  feed cl bufSize streamed (chunks.flatten.length + chunks.length + 1) 0 chunks

/-- events a `multipart_filter` sees -/
inductive Ev
  | newFile (name : Bytes) (size : Nat)
  | progress (size : Nat)
  | dataReady (size : Nat)
  | endOfContent
  | rawChunk (n : Nat)
deriving DecidableEq, Repr

/-- the filter callbacks made by the loop of `on_content_progress` for one chunk (same
control flow as `wloop`; stops where `wloop` returns a status) -/
def evLoop (cfg : Cfg) (atLen : Bool) : Nat → P → Bytes → List Ev
  | 0, _, _ => []
  | fuel + 1, p, buf =>
    if buf.isEmpty then [] else
    match consume cfg.toPCfg p buf with
    | (.metaReady, p', rest) => .newFile p'.cur.name p'.dataRev.length :: evLoop cfg atLen fuel p' rest
    | (.contentPartial, p', rest) =>
      if !sizeOk cfg p'.cur.mime p'.dataRev.length then []
      else .progress p'.dataRev.length :: evLoop cfg atLen fuel p' rest
    | (.contentReady, p', rest) =>
      match p'.filesRev with
      | [] => []
      | f :: _ =>
        if !sizeOk cfg f.mime f.data.length then []
        else .dataReady f.data.length :: evLoop cfg atLen fuel p' rest
    | (.continueInput, p', rest) => evLoop cfg atLen fuel p' rest
    | (.eof, p', rest) => if !rest.isEmpty || !atLen then [] else evLoop cfg atLen fuel p' rest
    | _ => []

/-- events over all pieces; `end` when the content is complete and accepted -/
def evRun (cfg : Cfg) (cl : Nat) : RS → List Bytes → List Ev
  | s, [] => if s.read == cl then [.endOfContent] else []
  | s, c :: cs =>
    (if c.isEmpty then [] else evLoop cfg (s.read + c.length == cl) c.length s.p c) ++
    match progress cfg cl s c with
    | .error _ => []
    | .ok s' => evRun cfg cl s' cs

/-- number of pieces handed to `on_content_progress` (the loop stops at the first non-zero status) -/
def piecesUsed (cfg : Cfg) (cl : Nat) : RS → List Bytes → Nat
  | _, [] => 0
  | s, c :: cs =>
    match progress cfg cl s c with
    | .error _ => 1
    | .ok s' => 1 + piecesUsed cfg cl s' cs

/-- request input as the harness poses it. `flt`: 0 no filter, 1 raw_content_filter,
2 multipart_filter, 4 a multipart_filter that reads every part through `file.data()` in its callbacks
(all installed by an asynchronous application before the body is read). -/
structure ReqIn where
  flt : Nat
  contentType : Bytes
  cl : Nat
  lim : Limits
  bufSize : Nat
  query : Bytes
  chunks : List Bytes

structure ReqOut where
  seen : Seen
  rd : Bytes := []     -- flt 4: everything the reading filter got out of `file.data()` in `on_data_ready`
  get : List (Bytes × Bytes)
  sizes : List Nat
  raw : Bytes
  events : List Ev

/-- `request::prepare`: the query string; a malformed one clears `get()` -/
def parseQuery (q : Bytes) : List (Bytes × Bytes) :=
  let (pairs, ok) := parseForm q
  if ok then mmOfList pairs else []

def requestIO (i : ReqIn) : ReqOut :=
  let get := parseQuery i.query
  if i.flt == 1 then
    -- raw filter: no parser, no buffering; limits as in on_content_start
    let mt := mediaType i.contentType
    let tooLong := if mt == ctMultipart then decide (i.cl > i.lim.multipartLimit) else decide (i.cl > i.lim.contentLimit)
    if i.cl = 0 then { seen := .handled [] [], get := get, sizes := [], raw := [], events := [] }
    else if tooLong then { seen := .refused (if mt == ctMultipart then Gen.codeMultipartTooLong else Gen.codeContentTooLong), get := get, sizes := [], raw := [], events := [] }
    else
      let pieces := feedAll i.cl (max i.bufSize 1) true i.chunks
      let raw := pieces.flatten
      let done := raw.length == i.cl
      { seen := if done then .handled [] [] else .waiting, get := get, sizes := pieces.map (·.length), raw := raw,
        events := pieces.map (fun c => Ev.rawChunk c.length) ++ (if done then [.endOfContent] else []) }
  else
    match start i.lim i.contentType i.cl with
    | .ok (.multipart cfg) =>
      let pieces := feedAll i.cl (max i.bufSize 1) true i.chunks
      let seen := match run cfg i.cl {} pieces with
        | .error code => Seen.refused code
        | .pending => .waiting
        | .ready parts => let (post, files) := deliverR i.lim.memLimit (i.flt == 4) parts; .handled post files
      { seen := seen, get := get,
        rd := (match run cfg i.cl {} pieces with
               | .ready parts => parts.flatMap fun f => readBackFrom i.lim.memLimit f.data 0
               | _ => []),
        sizes := (pieces.take (piecesUsed cfg i.cl {} pieces)).map (·.length), raw := [],
        events := if i.flt == 2 || i.flt == 4 then evRun cfg i.cl {} pieces else [] }
    | .ok (.full _) =>
      let pieces := feedAll i.cl (max i.bufSize 1) false i.chunks
      let seen := request i.lim i.contentType i.cl pieces
      { seen := seen, get := get, sizes := pieces.map (·.length), raw := [],
        events := match seen with | .handled _ _ => if i.flt == 2 || i.flt == 4 then [.endOfContent] else [] | _ => [] }
    | _ => { seen := request i.lim i.contentType i.cl [], get := get, sizes := [], raw := [], events := [] }

/-! ## tie to the generated constants -/

theorem gen_tie :
    Gen.stateNames.length = 8 ∧ Gen.resultNames.length = 7
    ∧ St.firstBoundary.idx = Gen.st_expecting_first_boundary
    ∧ St.crlfOrEof.idx = Gen.st_expecting_one_crlf_or_eof
    ∧ St.minus.idx = Gen.st_expecting_minus
    ∧ St.eofCr.idx = Gen.st_expecting_eof_cr
    ∧ St.eofLf.idx = Gen.st_expecting_eof_lf
    ∧ St.lf.idx = Gen.st_expecting_lf
    ∧ St.crlfcrlf.idx = Gen.st_expecting_crlfcrlf
    ∧ St.sepBoundary.idx = Gen.st_expecting_separator_boundary
    ∧ Gen.resultNames = ["parsing_error", "meta_ready", "content_partial", "content_ready", "continue_input", "eof", "no_room_left"]
    ∧ Gen.okResults = ["meta_ready", "content_partial", "content_ready", "continue_input"]
    ∧ Gen.boundaryPrefix = [13, 10, 45, 45] ∧ Gen.crlfcrlf = [13, 10, 13, 10] ∧ Gen.initPos = 2
    ∧ Gen.simpleTrans = [(St.minus.idx, 45, St.eofCr.idx), (St.eofCr.idx, 13, St.eofLf.idx), (St.lf.idx, 10, St.crlfcrlf.idx)]
    ∧ Gen.crlfOrEofTrans = [(13, St.lf.idx), (45, St.minus.idx)]
    ∧ Gen.eofLfByte = 10 ∧ Gen.eofNeedsBufferEnd = true
    ∧ Gen.matcherRestartPos = 1 ∧ Gen.matcherRestartIndex = 0
    ∧ Gen.pairSemicolon = 59 ∧ Gen.pairEquals = 61 ∧ Gen.pairQuote = 34
    ∧ Gen.formAmp = 38 ∧ Gen.formEq = 61 := by
  decide

end Cppcms.C12
