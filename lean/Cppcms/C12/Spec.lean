import Cppcms.Common
/-!
# C12 specification side: what a well-formed multipart/form-data body *is*

Written independently of the model (`Model.lean` imports this file only for the record
type `Part`): the encoder a browser implements (RFC 7578 / RFC 2046 §5.1), the
well-formedness conditions on parts, and the urlencoded encoder.  The property theorems in
`Props.lean` relate these definitions to the model of the C++ parser.
-/
namespace Cppcms.C12
open Cppcms

/-- one form field / uploaded file as the application sees it -/
structure Part where
  name : Bytes
  filename : Bytes
  mime : Bytes
  data : Bytes
deriving DecidableEq, Repr, Inhabited

namespace Spec

/-- RFC 2616 quoted-string: `"` and `\` are backslash-escaped -/
def quote (s : Bytes) : Bytes :=
  [34] ++ s.flatMap (fun c => if c == 34 || c == 92 then [92, c] else [c]) ++ [34]

/-- `Content-Disposition: form-data; name=` -/
def litDisposition : Bytes := [67, 111, 110, 116, 101, 110, 116, 45, 68, 105, 115, 112, 111, 115, 105, 116, 105, 111, 110, 58, 32,
  102, 111, 114, 109, 45, 100, 97, 116, 97, 59, 32, 110, 97, 109, 101, 61]
/-- `; filename=` -/
def litFilename : Bytes := [59, 32, 102, 105, 108, 101, 110, 97, 109, 101, 61]
/-- `Content-Type: ` -/
def litContentType : Bytes := [67, 111, 110, 116, 101, 110, 116, 45, 84, 121, 112, 101, 58, 32]
def crlf : Bytes := [13, 10]
def dashes : Bytes := [45, 45]

/-- header block of one part, including the empty line.  `wfn`: write `; filename="…"` even when
the file name is empty (`filename=""` is what browsers send for a file input left empty). -/
def encodeHeaderW (wfn : Bool) (p : Part) : Bytes :=
  litDisposition ++ quote p.name
    ++ (if p.filename.isEmpty && !wfn then [] else litFilename ++ quote p.filename) ++ crlf
    ++ (if p.mime.isEmpty then [] else litContentType ++ p.mime ++ crlf)
    ++ crlf

/-- the canonical form: no `filename` parameter for an empty file name -/
def encodeHeader (p : Part) : Bytes := encodeHeaderW false p

/-- body with explicitly given header blocks (used by the body-level theorems, which are
independent of how headers are written) -/
def encodeWith (bkey : Bytes) : List (Bytes × Bytes) → Bytes
  | [] => dashes ++ bkey ++ dashes ++ crlf
  | (hdr, data) :: rest => dashes ++ bkey ++ crlf ++ hdr ++ data ++ crlf ++ encodeWith bkey rest

/-- the multipart/form-data body for boundary key `bkey`; `wfn p` chooses per part whether an empty
file name is written as `filename=""` -/
def encodeW (wfn : Part → Bool) (bkey : Bytes) (ps : List Part) : Bytes :=
  encodeWith bkey (ps.map fun p => (encodeHeaderW (wfn p) p, p.data))

/-- the canonical body -/
def encode (bkey : Bytes) (ps : List Part) : Bytes := encodeW (fun _ => false) bkey ps

/-- the delimiter line as it appears inside the body: CRLF `--` bkey -/
def delimiter (bkey : Bytes) : Bytes := crlf ++ dashes ++ bkey

/-- bytes allowed in an (unquoted) token: visible ASCII minus the HTTP separators -/
def isTokenByte (c : UInt8) : Bool :=
  decide (33 ≤ c.toNat) && decide (c.toNat ≤ 126) &&
    !([40, 41, 60, 62, 64, 44, 59, 58, 92, 34, 47, 91, 93, 63, 61, 123, 125] : List UInt8).contains c

def isUpper (c : UInt8) : Bool := decide (65 ≤ c.toNat) && decide (c.toNat ≤ 90)

/-- `type/subtype`, both non-empty lower-case tokens, no parameters -/
def WFmime (m : Bytes) : Prop :=
  ∃ t s, m = t ++ [47] ++ s ∧ t ≠ [] ∧ s ≠ [] ∧ (∀ c ∈ t ++ s, isTokenByte c = true ∧ isUpper c = false)

/-- a boundary key the theorems are about: non-empty, no CR.  (RFC 2046 allows far less;
the parser itself accepts any non-empty parameter value.) -/
def WFbkey (bkey : Bytes) : Prop := bkey ≠ [] ∧ (13 : UInt8) ∉ bkey

/-- well-formed part for boundary key `bkey`: CR/LF-free names, a plain MIME type or none,
and content that does not contain the delimiter. -/
def WFpart (bkey : Bytes) (p : Part) : Prop :=
  (∀ c ∈ p.name ++ p.filename, c ≠ 13 ∧ c ≠ 10)
  ∧ (p.mime = [] ∨ WFmime p.mime)
  ∧ ¬ (delimiter bkey <:+: p.data)

def WFparts (bkey : Bytes) (ps : List Part) : Prop := ∀ p ∈ ps, WFpart bkey p

/-- `s` is cut into the chunks `cs` -/
def IsChunking (cs : List Bytes) (s : Bytes) : Prop := cs.flatten = s

/-! ### urlencoded -/

/-- `k1=v1&k2=v2…` with keys and values written by the percent-encoder `enc` -/
def encodeFormWith (enc : Bytes → Bytes) : List (Bytes × Bytes) → Bytes
  | [] => []
  | [(k, v)] => enc k ++ [61] ++ enc v
  | (k, v) :: rest => enc k ++ [61] ++ enc v ++ [38] ++ encodeFormWith enc rest

end Spec
end Cppcms.C12
