import Cppcms.C12.Limits
/-!
# C12: what a `multipart_filter` is told

`evLoop`/`evRun` (Model.lean) list the callbacks `on_new_file`, `on_upload_progress`,
`on_data_ready`, `on_end_of_content` made while the chunks are processed.  The progress
callbacks depend on where the chunks end (by design); everything else does not, and for a
well-formed body it is: each part announced once (size 0) and completed once (its size), in
order, then `on_end_of_content`.
-/
namespace Cppcms.C12
open Cppcms

/-- `evLoop` with `consume` inlined (as `ploop` is to `wloop`) -/
def evPloop (cfg : Cfg) (atLen : Bool) (p : P) : Bytes → List Ev
  | [] => []
  | c :: rest =>
    match pstep cfg.toPCfg p c with
    | .cont p' =>
      if rest.isEmpty then
        if p'.fileReady then
          if !sizeOk cfg p'.cur.mime p'.dataRev.length then [] else [.progress p'.dataRev.length]
        else []
      else evPloop cfg atLen p' rest
    | .hdrDone p' => .newFile p'.cur.name p'.dataRev.length :: evPloop cfg atLen p' rest
    | .ready p' =>
      match p'.filesRev with
      | [] => []
      | f :: _ =>
        if !sizeOk cfg f.mime f.data.length then [] else .dataReady f.data.length :: evPloop cfg atLen p' rest
    | .eofNl _ => []
    | .err => []
    | .noRoom _ => []

theorem evLoop_eq_evPloop (cfg : Cfg) (atLen : Bool) :
    ∀ (buf : Bytes) (fuel : Nat) (p : P), buf.length ≤ fuel → evLoop cfg atLen fuel p buf = evPloop cfg atLen p buf := by
  intro buf
  induction buf with
  | nil => intro fuel p _; cases fuel <;> simp [evLoop, evPloop]
  | cons c rest ih =>
    intro fuel p hlen
    cases fuel with
    | zero => simp at hlen
    | succ f =>
      have hf : rest.length ≤ f := by simpa using hlen
      rw [evLoop]
      simp only [List.isEmpty_cons, Bool.false_eq_true, if_false, consume, evPloop]
      cases hs : pstep cfg.toPCfg p c with
      | cont p' =>
        simp only
        cases rest with
        | nil =>
          simp only [consume_nil, endRes, List.isEmpty_nil, if_true]
          by_cases hfr : p'.fileReady = true
          · simp only [hfr, if_true]
            by_cases hso : sizeOk cfg p'.cur.mime p'.dataRev.length = true
            · simp [hso]; cases f <;> simp [evLoop]
            · simp [hso]
          · simp only [hfr]
            cases f <;> simp [evLoop]
        | cons c2 rest2 =>
          simp only [List.isEmpty_cons, Bool.false_eq_true, if_false]
          rw [← ih (f + 1) p' (by simp at hf ⊢; omega)]
          rw [evLoop]
          simp only [List.isEmpty_cons, Bool.false_eq_true, if_false]
      | hdrDone p' => simp only; rw [ih f p' hf]
      | ready p' =>
        simp only
        cases hfl : p'.filesRev with
        | nil => rfl
        | cons fl fls =>
          simp only
          by_cases hso : sizeOk cfg fl.mime fl.data.length = true
          · simp only [hso, Bool.not_true, Bool.false_eq_true, if_false]; rw [ih f p' hf]
          · simp [hso]
      | eofNl p' =>
        simp only
        cases rest with
        | nil =>
          simp only [List.isEmpty_nil, Bool.not_true, Bool.false_or]
          cases atLen
          · simp
          · simp; cases f <;> simp [evLoop]
        | cons c2 rest2 => simp
      | err => rfl
      | noRoom p' => rfl

/-- the callbacks that do not depend on chunk ends -/
def noProg (l : List Ev) : List Ev := l.filter fun e => match e with | .progress _ => false | _ => true

theorem noProg_append (a b : List Ev) : noProg (a ++ b) = noProg a ++ noProg b := by simp [noProg]

/-- inside an over-long field nothing more is announced -/
theorem evPloop_oversize (cfg : Cfg) (atLen : Bool) :
    ∀ (buf : Bytes) (p : P), p.st = .sepBoundary → sizeOk cfg p.cur.mime p.dataRev.length = false →
      noProg (evPloop cfg atLen p buf) = [] := by
  intro buf
  induction buf with
  | nil => intro _ _ _; rfl
  | cons c rest ih =>
    intro p hst hso
    simp only [evPloop]
    have hout := pstep_sep cfg.toPCfg p c hst
    cases hs : pstep cfg.toPCfg p c with
    | cont p' =>
      rw [hs] at hout
      cases hout with
      | cont _ hst' hcur hlen _ =>
        have hso' : sizeOk cfg p'.cur.mime p'.dataRev.length = false := by
          rw [hcur]; exact sizeOk_mono cfg _ _ _ hlen hso
        simp only
        cases rest with
        | nil => simp [P.fileReady, hst', hso', noProg]
        | cons c2 rest2 =>
          simp only [List.isEmpty_cons, Bool.false_eq_true, if_false]
          exact ih p' hst' hso'
    | ready p' =>
      rw [hs] at hout
      cases hout with
      | ready _ f hfl hm hlen _ =>
        have hso' : sizeOk cfg f.mime f.data.length = false := by
          rw [hm]; exact sizeOk_mono cfg _ _ _ hlen hso
        simp only [hfl, hso']
        rfl
    | noRoom p' => rfl
    | hdrDone p' => rw [hs] at hout; cases hout
    | eofNl p' => rw [hs] at hout; cases hout
    | err => rw [hs] at hout; cases hout

/-- two chunks vs their concatenation: same callbacks but for the progress reports -/
theorem evPloop_append (cfg : Cfg) (atLen : Bool) (c2 : Bytes) (h2 : c2 ≠ []) :
    ∀ (c1 : Bytes) (p : P) (r : Res),
      noProg (evPloop cfg atLen p (c1 ++ c2)) =
        noProg (evPloop cfg false p c1) ++
          match ploop cfg false p c1 r with
          | .error _ => []
          | .ok (p', _) => noProg (evPloop cfg atLen p' c2) := by
  intro c1
  induction c1 with
  | nil => intro p r; simp [evPloop, ploop, noProg]
  | cons c t ih =>
    intro p r
    have hne : (t ++ c2).isEmpty = false := by cases t <;> cases c2 <;> simp_all
    simp only [List.cons_append, evPloop, ploop]
    cases hs : pstep cfg.toPCfg p c with
    | cont p' =>
      simp only [hne, Bool.false_eq_true, if_false]
      cases t with
      | nil =>
        simp only [List.nil_append, List.isEmpty_nil, if_true]
        by_cases hfr : p'.fileReady = true
        · simp only [hfr, if_true]
          by_cases hso : sizeOk cfg p'.cur.mime p'.dataRev.length = true
          · simp [hso, noProg]
          · have hso' : sizeOk cfg p'.cur.mime p'.dataRev.length = false := by simpa using hso
            have hst : p'.st = .sepBoundary := by simpa [P.fileReady] using hfr
            simp only [hso', Bool.not_false, if_true]
            rw [evPloop_oversize cfg atLen c2 p' hst hso']
            simp [noProg]
        · simp [hfr, noProg]
      | cons c' t' =>
        simp only [List.isEmpty_cons, Bool.false_eq_true, if_false]
        exact ih p' r
    | hdrDone p' =>
      simp only
      have := ih p' .metaReady
      simp only [noProg, List.filter_cons] at this ⊢
      rw [this]
      rfl
    | ready p' =>
      simp only
      cases hfl : p'.filesRev with
      | nil => simp [noProg]
      | cons fl fls =>
        simp only
        by_cases hso : sizeOk cfg fl.mime fl.data.length = true
        · simp only [hso, Bool.not_true, Bool.false_eq_true, if_false]
          have := ih p' .contentReady
          simp only [noProg, List.filter_cons] at this ⊢
          rw [this]
          rfl
        · simp [hso, noProg]
    | eofNl p' =>
      simp only [hne, Bool.not_false, if_true]
      cases t <;> simp [noProg]
    | err => simp [noProg]
    | noRoom p' => simp [noProg]

/-! ## over the chunk list -/

theorem evRun_cons (cfg : Cfg) (cl : Nat) (s : RS) (c : Bytes) (cs : List Bytes) :
    evRun cfg cl s (c :: cs) =
      (if c.isEmpty then [] else evPloop cfg (s.read + c.length == cl) s.p c) ++
        match progress cfg cl s c with
        | .error _ => []
        | .ok s' => evRun cfg cl s' cs := by
  rw [evRun, evLoop_eq_evPloop cfg _ c c.length s.p (Nat.le_refl _)]
  rfl

theorem evRun_merge2 (cfg : Cfg) (cl : Nat) (s : RS) (c1 c2 : Bytes) (cs : List Bytes)
    (hlen : s.read + c1.length + c2.length ≤ cl) :
    noProg (evRun cfg cl s (c1 :: c2 :: cs)) = noProg (evRun cfg cl s ((c1 ++ c2) :: cs)) := by
  by_cases h1 : c1 = []
  · subst h1; simp [evRun_cons, progress_nil, noProg]
  by_cases h2 : c2 = []
  · subst h2
    rw [evRun_cons, List.append_nil]
    conv => rhs; rw [evRun_cons]
    cases hp : progress cfg cl s c1 with
    | error e => rfl
    | ok s' => simp only; rw [evRun_cons]; simp [progress_nil]
  have hc2 : 0 < c2.length := List.length_pos_iff.mpr h2
  have hat : (s.read + c1.length == cl) = false := by
    simp only [beq_eq_false_iff_ne, ne_eq]; omega
  have e1 : c1.isEmpty = false := by cases c1 <;> simp_all
  have e2 : c2.isEmpty = false := by cases c2 <;> simp_all
  have e12 : (c1 ++ c2).isEmpty = false := by cases c1 <;> simp_all
  rw [evRun_cons, evRun_cons cfg cl s (c1 ++ c2), progress_append cfg cl s c1 c2 h1 h2 hlen]
  simp only [e1, e12, Bool.false_eq_true, if_false, hat, noProg_append]
  rw [evPloop_append cfg _ c2 h2 c1 s.p .continueInput]
  rw [progress_eq cfg cl s c1]
  simp only [e1, Bool.false_eq_true, if_false, hat, Bool.false_and]
  cases hp : ploop cfg false s.p c1 .continueInput with
  | error code => simp [noProg]
  | ok pr =>
    obtain ⟨p', r'⟩ := pr
    simp only
    rw [evRun_cons]
    simp only [e2, Bool.false_eq_true, if_false, noProg_append, List.length_append, Nat.add_assoc, List.append_assoc]

theorem evRun_flatten (cfg : Cfg) (cl : Nat) :
    ∀ (cs : List Bytes) (s : RS), s.read + cs.flatten.length ≤ cl →
      noProg (evRun cfg cl s cs) = noProg (evRun cfg cl s [cs.flatten]) := by
  intro cs
  induction cs with
  | nil => intro s _; simp [evRun_cons, progress_nil, noProg]
  | cons c cs ih =>
    intro s hlen
    simp only [List.flatten_cons, List.length_append] at hlen
    have step : noProg (evRun cfg cl s (c :: cs)) = noProg (evRun cfg cl s [c, cs.flatten]) := by
      rw [evRun_cons, evRun_cons cfg cl s c [cs.flatten], noProg_append, noProg_append]
      cases hp : progress cfg cl s c with
      | error code => rfl
      | ok s' =>
        simp only
        have := progress_read hp
        rw [ih s' (by omega)]
    rw [step, evRun_merge2 cfg cl s c cs.flatten [] (by omega)]
    simp

/-! ## a well-formed body in one chunk -/

theorem evPloop_pfold (cfg : Cfg) (atLen : Bool) (pre rest : Bytes) (p p' : P)
    (h : pfold cfg.toPCfg p pre = some p') (hrest : rest ≠ []) :
    evPloop cfg atLen p (pre ++ rest) = evPloop cfg atLen p' rest := by
  induction pre generalizing p with
  | nil => simp [pfold] at h; subst h; rfl
  | cons c t ih =>
    simp only [pfold] at h
    have hne : (t ++ rest).isEmpty = false := by cases t <;> cases rest <;> simp_all
    simp only [List.cons_append, evPloop]
    cases hs : pstep cfg.toPCfg p c with
    | cont p1 => rw [hs] at h; simp only [hne, Bool.false_eq_true, if_false]; exact ih p1 h
    | _ => rw [hs] at h; cases h

theorem item_step_ev (cfg : Cfg) (g : Guard cfg.boundary) (hdisk : cfg.diskOk = true) (atLen : Bool)
    (it : Item) (hok : ItemParses cfg it) (p : P) (rest : Bytes) (hrest : rest ≠ [])
    (hst : p.st = .crlfOrEof) (hpos : p.pos = 0) (hh : p.hdrRev = []) (hcur : p.cur = {}) (hd : p.dataRev = []) :
    evPloop cfg atLen p ([13, 10] ++ it.hdr ++ it.data ++ cfg.boundary ++ rest) =
      .newFile it.info.name 0 ::
        (if !sizeOk cfg it.info.mime it.data.length then []
         else .dataReady it.data.length :: evPloop cfg atLen { p with filesRev := it.part :: p.filesRev } rest) := by
  obtain ⟨hhdr, hne⟩ := hok
  simp only [headerOK, Bool.and_eq_true, beq_iff_eq] at hhdr
  have e1 : [13, 10] ++ it.hdr ++ it.data ++ cfg.boundary ++ rest =
      [13, 10] ++ (it.hdr ++ (it.data ++ cfg.boundary ++ rest)) := by
    simp [List.append_assoc]
  rw [e1, evPloop_pfold cfg atLen _ _ p _ (crlf_after_boundary cfg.toPCfg p hst) (by
    cases hh' : it.hdr <;> simp_all [hdrEndsAt])]
  obtain ⟨hpre, hc, hsplit, p2, hf2, hs2⟩ :=
    hdr_fold cfg.toPCfg it.info it.hdr { p with st := .crlfcrlf } rfl (by simpa [hpos] using hhdr.1)
      (by simpa [hh] using hhdr.2)
  rw [hsplit, List.append_assoc, evPloop_pfold cfg atLen _ _ _ _ hf2 (by simp)]
  simp only [List.cons_append, List.nil_append, evPloop, hs2]
  let p3 : P := { p with st := .sepBoundary, pos := 0, hdrRev := [], cur := it.info }
  obtain ⟨cpre, cc, csplit, p4, hf4, hs4⟩ :=
    consume_content cfg.toPCfg g hdisk p3 rfl rfl (by simp [p3, hd]) it.data [] hne
  rw [csplit, List.append_assoc, evPloop_pfold cfg atLen _ _ p3 _ hf4 (by simp)]
  simp only [List.cons_append, List.nil_append, evPloop, hs4, P.close, List.reverse_reverse]
  simp only [p3]
  have hlen0 : p.dataRev.length = 0 := by rw [hd]; rfl
  by_cases hsz : sizeOk cfg it.info.mime it.data.length = true
  · simp only [hsz, Bool.not_true, Bool.false_eq_true, if_false, hlen0]
    congr 3
    simp [Item.part, hcur, hpos, hh, hd, hst]
  · simp [hsz, hlen0]

theorem final_frame_ev (cfg : Cfg) (atLen : Bool) (p : P) (extra : Bytes) (hst : p.st = .crlfOrEof) :
    evPloop cfg atLen p ([45, 45, 13, 10] ++ extra) = [] := by
  cases extra <;> simp [evPloop, pstep, hst]

/-- what the filter is told for each part -/
def partEvents (it : Item) : List Ev := [.newFile it.info.name 0, .dataReady it.data.length]

theorem tail_ev (cfg : Cfg) (g : Guard cfg.boundary) (hdisk : cfg.diskOk = true) (atLen : Bool) (extra : Bytes) :
    ∀ (items : List Item) (p : P),
      p.st = .crlfOrEof → p.pos = 0 → p.hdrRev = [] → p.cur = {} → p.dataRev = [] →
      (∀ it ∈ items, ItemOK cfg it) →
      evPloop cfg atLen p (tailOf cfg.boundary items ++ extra) = items.flatMap partEvents := by
  intro items
  induction items with
  | nil =>
    intro p hst _ _ _ _ _
    simp only [tailOf, List.flatMap_nil]
    exact final_frame_ev cfg atLen p extra hst
  | cons it rest ih =>
    intro p hst hpos hh hcur hd hok
    obtain ⟨hhdr, hne, hsz⟩ := hok it (by simp)
    have e : tailOf cfg.boundary (it :: rest) ++ extra =
        [13, 10] ++ it.hdr ++ it.data ++ cfg.boundary ++ (tailOf cfg.boundary rest ++ extra) := by
      simp [tailOf, List.append_assoc]
    rw [e, item_step_ev cfg g hdisk atLen it ⟨hhdr, hne⟩ p _ (by simp [tailOf_ne_nil]) hst hpos hh hcur hd]
    simp only [hsz, Bool.not_true, Bool.false_eq_true, if_false]
    rw [ih { p with filesRev := it.part :: p.filesRev } hst hpos hh hcur hd (fun it' h' => hok it' (by simp [h']))]
    simp [partEvents]

/-- single chunk: the whole trace (no progress reports at all) -/
theorem evRun_single (cfg : Cfg) (bkey : Bytes) (hb : cfg.boundary = 13 :: 10 :: 45 :: 45 :: bkey)
    (hcr : (13 : UInt8) ∉ bkey) (hdisk : cfg.diskOk = true) (items : List Item)
    (hok : ∀ it ∈ items, ItemOK cfg it) (body : Bytes)
    (hdef : body = Spec.encodeWith bkey (items.map fun it => (it.hdr, it.data))) :
    evRun cfg body.length {} [body] = items.flatMap partEvents ++ [.endOfContent] := by
  have g : Guard cfg.boundary := ⟨bkey, hb, hcr⟩
  have hbody : body = cfg.boundary.drop 2 ++ tailOf cfg.boundary items := by
    rw [hdef, encodeWith_eq, hb]
    simp
  have hne : body ≠ [] := by rw [hbody]; simp [tailOf_ne_nil]
  have hfb := first_boundary cfg.toPCfg (bkey.length + 1) ({} : P) rfl (by rw [hb]; simp [Gen.initPos]; omega)
  have hinit : ({} : P).pos = 2 := rfl
  rw [hinit] at hfb
  have hrun := run_single_roundtrip cfg bkey hb hcr hdisk items hok body hdef
  rw [run_cons] at hrun
  rw [evRun_cons]
  have e1 : body.isEmpty = false := by
    cases hbd : body with
    | nil => exact absurd hbd hne
    | cons _ _ => rfl
  have hrs : ({} : RS).read = 0 := rfl
  simp only [e1, Bool.false_eq_true, if_false, hrs, Nat.zero_add, beq_self_eq_true]
  have hev : evPloop cfg true ({} : RS).p body = items.flatMap partEvents := by
    conv => lhs; rw [hbody]
    rw [evPloop_pfold cfg true _ _ _ _ hfb (tailOf_ne_nil _ _)]
    have := tail_ev cfg g hdisk true [] items { st := .crlfOrEof, pos := 0 } rfl rfl rfl rfl rfl hok
    simpa using this
  rw [hev]
  cases hp : progress cfg body.length {} body with
  | error code => rw [hp] at hrun; cases hrun
  | ok s' =>
    rw [hp] at hrun
    simp only
    have hread := progress_read hp
    simp only [hrs, Nat.zero_add] at hread
    simp [evRun, hread]

end Cppcms.C12
