import Cppcms.C12.Lemmas
/-!
# C12: the boundary matcher

`V p = data written so far ++ the held-back partial match` is always exactly the bytes of the
part consumed so far (invariant, true for every boundary).  Under the guard "CR occurs in
`boundary_` only at index 0" a CR always leaves the matcher at position 1, which is what
makes the hand-rolled restart find the real delimiter.
-/
namespace Cppcms.C12
open Cppcms

/-- run of `.cont` steps -/
def pfold (cfg : PCfg) : P → Bytes → Option P
  | p, [] => some p
  | p, c :: rest =>
    match pstep cfg p c with
    | .cont p' => pfold cfg p' rest
    | _ => none

theorem pfold_append (cfg : PCfg) (a b : Bytes) (p : P) :
    pfold cfg p (a ++ b) = (pfold cfg p a).bind fun p' => pfold cfg p' b := by
  induction a generalizing p with
  | nil => simp [pfold]
  | cons c t ih =>
    simp only [List.cons_append, pfold]
    cases pstep cfg p c <;> simp [ih]

theorem consume_pfold (cfg : PCfg) (pre rest : Bytes) (p p' : P) (h : pfold cfg p pre = some p') :
    consume cfg p (pre ++ rest) = consume cfg p' rest := by
  induction pre generalizing p with
  | nil => simp [pfold] at h; subst h; rfl
  | cons c t ih =>
    simp only [pfold] at h
    simp only [List.cons_append, consume]
    cases hs : pstep cfg p c with
    | cont p1 => rw [hs] at h; exact ih p1 h
    | _ => rw [hs] at h; cases h

theorem ploop_pfold (cfg : Cfg) (atLen : Bool) (pre rest : Bytes) (p p' : P) (r : Res)
    (h : pfold cfg.toPCfg p pre = some p') (hrest : rest ≠ []) :
    ploop cfg atLen p (pre ++ rest) r = ploop cfg atLen p' rest r := by
  induction pre generalizing p with
  | nil => simp [pfold] at h; subst h; rfl
  | cons c t ih =>
    simp only [pfold] at h
    have hne : (t ++ rest).isEmpty = false := by cases t <;> cases rest <;> simp_all
    simp only [List.cons_append, ploop]
    cases hs : pstep cfg.toPCfg p c with
    | cont p1 => rw [hs] at h; simp only [hne, Bool.false_eq_true, if_false]; exact ih p1 h
    | _ => rw [hs] at h; cases h

/-! ## the invariant -/

/-- the boundary string has the shape the parser builds and CR occurs only at index 0 -/
def Guard (b : Bytes) : Prop := ∃ bkey : Bytes, b = 13 :: 10 :: 45 :: 45 :: bkey ∧ (13 : UInt8) ∉ bkey

/-- bytes of the current part consumed so far -/
def V (b : Bytes) (p : P) : Bytes := p.dataRev.reverse ++ b.take p.pos

theorem guard_len {b : Bytes} (g : Guard b) : 4 ≤ b.length := by
  obtain ⟨k, rfl, _⟩ := g; simp

theorem guard_get0 {b : Bytes} (g : Guard b) : b.getD 0 0 = 13 := by
  obtain ⟨k, rfl, _⟩ := g; rfl

theorem guard_take1 {b : Bytes} (g : Guard b) : b.take 1 = [13] := by
  obtain ⟨k, rfl, _⟩ := g; rfl

theorem getD_lt (b : Bytes) (i : Nat) (hi : i < b.length) : b.getD i 0 = b[i] := by
  simp [List.getD_eq_getElem?_getD, hi]

theorem guard_cr_only_first {b : Bytes} (g : Guard b) (i : Nat) (hi : i < b.length) (h : b.getD i 0 = 13) : i = 0 := by
  obtain ⟨k, rfl, hk⟩ := g
  match i with
  | 0 => rfl
  | 1 => simp at h
  | 2 => simp at h
  | 3 => simp at h
  | j + 4 =>
    exfalso
    simp only [List.length_cons] at hi
    have hj : j < k.length := by omega
    simp only [List.getD_cons_succ] at h
    rw [getD_lt _ _ hj] at h
    exact hk (h ▸ List.getElem_mem hj)

theorem take_succ_getD (b : Bytes) (i : Nat) (hi : i < b.length) : b.take i ++ [b.getD i 0] = b.take (i + 1) := by
  induction b generalizing i with
  | nil => simp at hi
  | cons x xs ih =>
    cases i with
    | zero => simp
    | succ j =>
      have hj : j < xs.length := by simpa using hi
      have := ih j hj
      simpa [List.getD_eq_getElem?_getD] using this

theorem drop_split_last (b : Bytes) (k n : Nat) (h : k + n + 1 = b.length) :
    b.drop k = (b.drop k).take n ++ [b.getD (k + n) 0] := by
  have hlt : k + n < b.length := by omega
  have h1 : (b.drop k).drop n = [b.getD (k + n) 0] := by
    rw [getD_lt _ _ hlt, List.drop_drop]
    have : b.drop (k + n) = b[k + n] :: b.drop (k + n + 1) := List.drop_eq_getElem_cons hlt
    rw [this, h, List.drop_length]
  conv => lhs; rw [← List.take_append_drop n (b.drop k)]
  rw [h1]

/-- one matcher step when no write fails -/
theorem sep_step (cfg : PCfg) (p : P) (c : UInt8) (g : Guard cfg.boundary) (hdisk : cfg.diskOk = true)
    (hst : p.st = .sepBoundary) (hpos : p.pos < cfg.boundary.length) :
    (∃ p', pstep cfg p c = .cont p' ∧ p'.st = .sepBoundary ∧ p'.pos < cfg.boundary.length
        ∧ V cfg.boundary p' = V cfg.boundary p ++ [c] ∧ p'.cur = p.cur ∧ p'.filesRev = p.filesRev
        ∧ p'.hdrRev = p.hdrRev ∧ (c = 13 → p'.pos = 1))
    ∨ (∃ d, pstep cfg p c = .ready (p.close d) ∧ V cfg.boundary p ++ [c] = d.reverse ++ cfg.boundary) := by
  have hlen := guard_len g
  have hb0 := guard_get0 g
  have hw : ∀ d bs, fileWrite cfg d bs = some (bs.reverse ++ d) := by
    intro d bs; simp [fileWrite, hdisk]
  unfold pstep
  rw [hst]
  simp only
  by_cases hc : c = cfg.boundary.getD p.pos 0
  · -- the byte continues the partial match
    simp only [hc, beq_self_eq_true, if_true, sepFinish]
    have h1 : p.pos + 1 ≠ 0 := by omega
    simp only [h1, if_false]
    by_cases hfull : p.pos + 1 = cfg.boundary.length
    · right
      refine ⟨p.dataRev, by simp [hfull], ?_⟩
      simp only [V, List.append_assoc]
      rw [take_succ_getD _ _ hpos, hfull, List.take_length]
    · left
      simp only [hfull, if_false]
      refine ⟨_, rfl, hst, by simp; omega, ?_, rfl, rfl, rfl, ?_⟩
      · simp only [V, List.append_assoc]
        rw [take_succ_getD _ _ hpos]
      · intro h13
        have : p.pos = 0 := guard_cr_only_first g p.pos hpos h13
        simp [this]
  · have hc' : (c == cfg.boundary.getD p.pos 0) = false := by simpa using hc
    simp only [hc', Bool.false_eq_true, if_false]
    by_cases hp0 : p.pos > 0
    · simp only [hp0, if_true, hw, sepFinish]
      by_cases hcb : c = cfg.boundary.getD 0 0
      · -- restart at position 1
        left
        have h1 : (1 : Nat) ≠ cfg.boundary.length := by omega
        simp only [hcb, beq_self_eq_true, if_true, Nat.one_ne_zero, if_false, h1]
        refine ⟨_, rfl, hst, by simp; omega, ?_, rfl, rfl, rfl, fun _ => rfl⟩
        simp only [V, List.reverse_append, List.reverse_reverse, List.append_assoc]
        rw [guard_take1 g, ← hb0]
      · left
        have hcb' : (c == cfg.boundary.getD 0 0) = false := by simpa using hcb
        simp only [hcb', Bool.false_eq_true, if_false, if_true]
        refine ⟨_, rfl, hst, by simp; omega, ?_, rfl, rfl, rfl, ?_⟩
        · simp [V]
        · intro h13; exact absurd (h13.trans hb0.symm) hcb
    · left
      have hp : p.pos = 0 := by omega
      simp only [hp0, if_false, sepFinish, hp, if_true, hw]
      refine ⟨_, rfl, hst, by simp; omega, ?_, rfl, rfl, rfl, ?_⟩
      · simp [V, hp]
      · intro h13; rw [hp] at hc; exact absurd (h13.trans hb0.symm) hc

/-- as long as no consumed prefix ends with the boundary, the matcher just continues -/
theorem sep_fold (cfg : PCfg) (g : Guard cfg.boundary) (hdisk : cfg.diskOk = true) :
    ∀ (s : Bytes) (p : P), p.st = .sepBoundary → p.pos < cfg.boundary.length →
      (∀ k, 0 < k → k ≤ s.length → ¬ cfg.boundary <:+ (V cfg.boundary p ++ s.take k)) →
      ∃ p', pfold cfg p s = some p' ∧ p'.st = .sepBoundary ∧ p'.pos < cfg.boundary.length
        ∧ V cfg.boundary p' = V cfg.boundary p ++ s ∧ p'.cur = p.cur ∧ p'.filesRev = p.filesRev
        ∧ p'.hdrRev = p.hdrRev ∧ (∀ s0, s = s0 ++ [13] → p'.pos = 1) := by
  intro s
  induction s with
  | nil =>
    intro p hst hpos _
    exact ⟨p, rfl, hst, hpos, by simp, rfl, rfl, rfl, by intro s0 h; simp at h⟩
  | cons c t ih =>
    intro p hst hpos hno
    rcases sep_step cfg p c g hdisk hst hpos with ⟨p1, hs, hst1, hpos1, hV1, hcur1, hfl1, hh1, h13⟩ | ⟨d, _, hV⟩
    · have hno1 : ∀ k, 0 < k → k ≤ t.length → ¬ cfg.boundary <:+ (V cfg.boundary p1 ++ t.take k) := by
        intro k hk hkl
        have := hno (k + 1) (by omega) (Nat.succ_le_succ hkl)
        simpa [hV1] using this
      obtain ⟨p', hf, hst', hpos', hV', hcur', hfl', hh', hlast⟩ := ih p1 hst1 hpos1 hno1
      refine ⟨p', by simp [pfold, hs, hf], hst', hpos', by simp [hV', hV1], hcur'.trans hcur1,
        hfl'.trans hfl1, hh'.trans hh1, ?_⟩
      intro s0 hs0
      cases t with
      | nil =>
        have hc13 : c = 13 := by
          cases s0 with
          | nil => simpa using hs0
          | cons x xs => simp at hs0
        simp [pfold] at hf
        rw [← hf]; exact h13 hc13
      | cons c2 t2 =>
        cases s0 with
        | nil => simp at hs0
        | cons x xs =>
          simp only [List.cons_append, List.cons.injEq] at hs0
          exact hlast xs hs0.2
    · exfalso
      have := hno 1 (by omega) (by simp)
      apply this
      simp only [List.take_succ_cons, List.take_zero]
      rw [hV]
      exact List.suffix_append _ _

/-- after a CR the matcher is at position 1: the rest of the delimiter is matched byte by byte -/
theorem sep_tail (cfg : PCfg) (g : Guard cfg.boundary) :
    ∀ (n : Nat) (p : P), p.st = .sepBoundary → 0 < p.pos → p.pos + n + 1 = cfg.boundary.length →
      ∃ p', pfold cfg p ((cfg.boundary.drop p.pos).take n) = some p' ∧ p'.st = .sepBoundary
        ∧ p'.pos = p.pos + n ∧ p'.dataRev = p.dataRev ∧ p'.cur = p.cur ∧ p'.filesRev = p.filesRev
        ∧ p'.hdrRev = p.hdrRev := by
  intro n
  induction n with
  | zero => intro p hst _ _; exact ⟨p, by simp [pfold], hst, rfl, rfl, rfl, rfl, rfl⟩
  | succ n ih =>
    intro p hst hp hlen
    have hpos : p.pos < cfg.boundary.length := by omega
    have hdrop : cfg.boundary.drop p.pos = cfg.boundary.getD p.pos 0 :: cfg.boundary.drop (p.pos + 1) := by
      rw [getD_lt _ _ hpos]; exact List.drop_eq_getElem_cons hpos
    rw [hdrop]
    simp only [List.take_succ_cons, pfold]
    have hs : pstep cfg p (cfg.boundary.getD p.pos 0) =
        .cont { p with pos := p.pos + 1 } := by
      unfold pstep
      rw [hst]
      have h1 : p.pos + 1 ≠ 0 := by omega
      have h2 : p.pos + 1 ≠ cfg.boundary.length := by omega
      simp [sepFinish, h1, h2, hst]
    rw [hs]
    obtain ⟨p', hf, hst', hpos', hd', hc', hf', hh'⟩ :=
      ih { p with pos := p.pos + 1 } hst (by simp) (by simp; omega)
    exact ⟨p', hf, hst', by simp at hpos'; omega, hd', hc', hf', hh'⟩

theorem sep_last (cfg : PCfg) (p : P) (hst : p.st = .sepBoundary) (hpos : p.pos + 1 = cfg.boundary.length) :
    pstep cfg p (cfg.boundary.getD p.pos 0) = .ready (p.close p.dataRev) := by
  unfold pstep
  rw [hst]
  have h1 : p.pos + 1 ≠ 0 := by omega
  simp only [beq_self_eq_true, if_true, sepFinish]
  rw [if_neg h1, if_pos hpos]

/-- `b` is not a suffix of any proper, non-empty-extended prefix of `ct ++ b` -/
def NoEarly (b ct : Bytes) : Prop :=
  ∀ k, k < (ct ++ b).length → ¬ b <:+ (ct ++ b).take k

/-- under the guard, "the content does not contain the delimiter" is enough -/
theorem noEarly_of_not_infix {b ct : Bytes} (g : Guard b) (h : ¬ b <:+: ct) : NoEarly b ct := by
  intro k hk hsuf
  obtain ⟨bkey, hb, hcr⟩ := g
  by_cases hkc : k ≤ ct.length
  · apply h
    rw [List.take_append_of_le_length hkc] at hsuf
    obtain ⟨t, ht⟩ := hsuf
    exact ⟨t, ct.drop k, by rw [ht, List.take_append_drop]⟩
  · have hkc' : ct.length < k := by omega
    simp only [List.length_append] at hk
    obtain ⟨j, hj⟩ : ∃ j, k = ct.length + j := ⟨k - ct.length, by omega⟩
    have hj0 : 0 < j := by omega
    have hjb : j < b.length := by omega
    rw [hj, List.take_append] at hsuf
    simp only [List.take_of_length_le (Nat.le_add_right _ _), Nat.add_sub_cancel_left] at hsuf
    obtain ⟨t, ht⟩ := hsuf
    rcases List.append_eq_append_iff.mp ht with ⟨a', hct, hba⟩ | ⟨c', htc, hbt⟩
    · -- b = a' ++ b.take j with a' non-empty: a CR at a non-zero index of b
      have ha' : a' ≠ [] := by
        intro h0; subst h0
        have := congrArg List.length hba
        simp at this; omega
      have htake : b.take j = 13 :: (b.take j).tail := by
        rw [hb]; cases j with
        | zero => omega
        | succ j => simp
      cases a' with
      | nil => exact ha' rfl
      | cons x xs =>
        rw [htake, hb] at hba
        simp only [List.cons_append, List.cons.injEq] at hba
        have hmem : (13 : UInt8) ∈ 10 :: 45 :: 45 :: bkey := by
          rw [hba.2]; simp
        simp at hmem
        exact hcr hmem
    · have := congrArg List.length hbt
      simp at this; omega

/-- **matcher, parser level**: from a fresh part, content that does not produce an early
match followed by the delimiter is emitted exactly, the part is closed, and `consume`
returns `content_ready` with the buffer positioned right after the delimiter. -/
theorem consume_content (cfg : PCfg) (g : Guard cfg.boundary) (hdisk : cfg.diskOk = true)
    (p : P) (hst : p.st = .sepBoundary) (hpos : p.pos = 0) (hd : p.dataRev = [])
    (ct rest : Bytes) (hno : NoEarly cfg.boundary ct) :
    ∃ pre c, ct ++ cfg.boundary = pre ++ [c] ∧ ∃ p', pfold cfg p pre = some p'
      ∧ pstep cfg p' c = .ready (p.close ct.reverse) := by
  obtain ⟨bkey, hb, hcr⟩ := id g
  have hblen : cfg.boundary.length = bkey.length + 4 := by rw [hb]; simp
  have hV0 : V cfg.boundary p = [] := by simp [V, hpos, hd]
  -- phase A+B: the content and the CR of the delimiter
  have hnoAB : ∀ k, 0 < k → k ≤ (ct ++ [13]).length →
      ¬ cfg.boundary <:+ (V cfg.boundary p ++ (ct ++ [13]).take k) := by
    intro k _ hk
    rw [hV0, List.nil_append]
    have hk' : k < (ct ++ cfg.boundary).length := by simp at hk ⊢; omega
    have := hno k hk'
    have e : (ct ++ [13]).take k = (ct ++ cfg.boundary).take k := by
      rw [hb, show ct ++ (13 :: 10 :: 45 :: 45 :: bkey) = (ct ++ [13]) ++ (10 :: 45 :: 45 :: bkey) by simp]
      exact (List.take_append_of_le_length (by simpa using hk)).symm
    rw [e]; exact this
  obtain ⟨pB, hfB, hstB, _, hVB, hcurB, hflB, hhB, hlastB⟩ :=
    sep_fold cfg g hdisk (ct ++ [13]) p hst (by rw [hpos]; omega) hnoAB
  have hposB : pB.pos = 1 := hlastB ct rfl
  have hdataB : pB.dataRev = ct.reverse := by
    have := hVB
    rw [hV0, List.nil_append] at this
    simp only [V, hposB, guard_take1 g] at this
    have h2 := List.append_cancel_right this
    rw [← List.reverse_reverse pB.dataRev, h2]
  -- phase C: the rest of the delimiter but its last byte
  obtain ⟨pC, hfC, hstC, hposC, hdC, hcurC, hflC, hhC⟩ :=
    sep_tail cfg g (bkey.length + 2) pB hstB (by omega) (by omega)
  have hlast := sep_last cfg pC hstC (by omega)
  refine ⟨ct ++ [13] ++ (cfg.boundary.drop pB.pos).take (bkey.length + 2), cfg.boundary.getD pC.pos 0, ?_, pC, ?_, ?_⟩
  · -- the byte string
    rw [hposB, hposC, hposB]
    have h1 : cfg.boundary = cfg.boundary.take 1 ++ cfg.boundary.drop 1 := (List.take_append_drop 1 _).symm
    rw [guard_take1 g, drop_split_last cfg.boundary 1 (bkey.length + 2) (by omega)] at h1
    conv => lhs; rw [h1]
    simp [List.append_assoc]
  · rw [pfold_append, hfB]; exact hfC
  · rw [hlast]
    congr 1
    simp only [P.close, hdC, hdataB, hcurC, hcurB, hflC, hflB, hhC, hhB, List.reverse_reverse]

end Cppcms.C12
