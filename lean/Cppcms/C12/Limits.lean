import Cppcms.C12.Roundtrip
/-!
# C12: refusals — field over the limit (413), closing boundary before the declared length (400),
status codes a multipart body can be answered with
-/
namespace Cppcms.C12
open Cppcms

/-- an item whose header block is accepted and whose content does not contain the delimiter
(no assumption on its size) -/
def ItemParses (cfg : Cfg) (it : Item) : Prop :=
  headerOK it.hdr it.info = true ∧ NoEarly cfg.boundary it.data

/-- one part, from the CRLF after the previous delimiter to its own delimiter: either the field
is over the limit (413) or the part is appended and the loop goes on -/
theorem item_step (cfg : Cfg) (g : Guard cfg.boundary) (hdisk : cfg.diskOk = true) (atLen : Bool)
    (it : Item) (hok : ItemParses cfg it) (p : P) (r : Res) (rest : Bytes) (hrest : rest ≠ [])
    (hst : p.st = .crlfOrEof) (hpos : p.pos = 0) (hh : p.hdrRev = []) (hcur : p.cur = {}) (hd : p.dataRev = []) :
    ploop cfg atLen p ([13, 10] ++ it.hdr ++ it.data ++ cfg.boundary ++ rest) r =
      if !sizeOk cfg it.info.mime it.data.length then .error Gen.codeSizeReady
      else ploop cfg atLen { p with filesRev := it.part :: p.filesRev } rest .contentReady := by
  obtain ⟨hhdr, hne⟩ := hok
  simp only [headerOK, Bool.and_eq_true, beq_iff_eq] at hhdr
  have e1 : [13, 10] ++ it.hdr ++ it.data ++ cfg.boundary ++ rest =
      [13, 10] ++ (it.hdr ++ (it.data ++ cfg.boundary ++ rest)) := by
    simp [List.append_assoc]
  rw [e1, ploop_pfold cfg atLen _ _ p _ r (crlf_after_boundary cfg.toPCfg p hst) (by
    cases hh' : it.hdr <;> simp_all [hdrEndsAt])]
  obtain ⟨hpre, hc, hsplit, p2, hf2, hs2⟩ :=
    hdr_fold cfg.toPCfg it.info it.hdr { p with st := .crlfcrlf } rfl (by simpa [hpos] using hhdr.1)
      (by simpa [hh] using hhdr.2)
  rw [hsplit, List.append_assoc, ploop_pfold cfg atLen _ _ _ _ r hf2 (by simp)]
  simp only [List.cons_append, List.nil_append, ploop, hs2]
  let p3 : P := { p with st := .sepBoundary, pos := 0, hdrRev := [], cur := it.info }
  obtain ⟨cpre, cc, csplit, p4, hf4, hs4⟩ :=
    consume_content cfg.toPCfg g hdisk p3 rfl rfl (by simp [p3, hd]) it.data [] hne
  rw [csplit, List.append_assoc, ploop_pfold cfg atLen _ _ p3 _ _ hf4 (by simp)]
  simp only [List.cons_append, List.nil_append, ploop, hs4, P.close, List.reverse_reverse]
  simp only [p3]
  by_cases hsz : sizeOk cfg it.info.mime it.data.length = true
  · simp only [hsz, Bool.not_true, Bool.false_eq_true, if_false]
    congr 1
    simp [Item.part, hcur, hpos, hh, hd, hst]
  · simp [hsz]

theorem final_frame_gen (cfg : Cfg) (atLen : Bool) (p : P) (r : Res) (extra : Bytes) (hst : p.st = .crlfOrEof) :
    ploop cfg atLen p ([45, 45, 13, 10] ++ extra) r =
      if extra.isEmpty && atLen then .ok ({ p with st := .eofLf }, .eof) else .error 400 := by
  cases extra with
  | nil => cases atLen <;> simp [ploop, pstep, hst] <;> rfl
  | cons x xs => simp [ploop, pstep, hst]; rfl

/-- all parts accepted, then the closing delimiter, then `extra` -/
theorem tail_run_gen (cfg : Cfg) (g : Guard cfg.boundary) (hdisk : cfg.diskOk = true) (atLen : Bool) (extra : Bytes) :
    ∀ (items : List Item) (p : P) (r : Res),
      p.st = .crlfOrEof → p.pos = 0 → p.hdrRev = [] → p.cur = {} → p.dataRev = [] →
      (∀ it ∈ items, ItemOK cfg it) →
      ploop cfg atLen p (tailOf cfg.boundary items ++ extra) r =
        if extra.isEmpty && atLen then
          .ok ({ p with st := .eofLf, filesRev := (items.map Item.part).reverse ++ p.filesRev }, .eof)
        else .error 400 := by
  intro items
  induction items with
  | nil =>
    intro p r hst _ _ _ _ _
    simp only [tailOf, List.map_nil, List.reverse_nil, List.nil_append]
    exact final_frame_gen cfg atLen p r extra hst
  | cons it rest ih =>
    intro p r hst hpos hh hcur hd hok
    obtain ⟨hhdr, hne, hsz⟩ := hok it (by simp)
    have e : tailOf cfg.boundary (it :: rest) ++ extra =
        [13, 10] ++ it.hdr ++ it.data ++ cfg.boundary ++ (tailOf cfg.boundary rest ++ extra) := by
      simp [tailOf, List.append_assoc]
    rw [e, item_step cfg g hdisk atLen it ⟨hhdr, hne⟩ p r _ (by simp [tailOf_ne_nil]) hst hpos hh hcur hd]
    simp only [hsz, Bool.not_true, Bool.false_eq_true, if_false]
    rw [ih { p with filesRev := it.part :: p.filesRev } _ hst hpos hh hcur hd (fun it' h' => hok it' (by simp [h']))]
    simp

/-- accepted parts, then a field over the limit: 413, whatever follows -/
theorem tail_run_oversize (cfg : Cfg) (g : Guard cfg.boundary) (hdisk : cfg.diskOk = true) (atLen : Bool)
    (big : Item) (hbig : ItemParses cfg big) (hsize : sizeOk cfg big.info.mime big.data.length = false) (rest : Bytes) (hrest : rest ≠ []) :
    ∀ (items : List Item) (p : P) (r : Res),
      p.st = .crlfOrEof → p.pos = 0 → p.hdrRev = [] → p.cur = {} → p.dataRev = [] →
      (∀ it ∈ items, ItemOK cfg it) →
      ploop cfg atLen p (List.foldr (fun it acc => [13, 10] ++ it.hdr ++ it.data ++ cfg.boundary ++ acc)
          ([13, 10] ++ big.hdr ++ big.data ++ cfg.boundary ++ rest) items) r = .error 413 := by
  intro items
  induction items with
  | nil =>
    intro p r hst hpos hh hcur hd _
    simp only [List.foldr_nil]
    rw [item_step cfg g hdisk atLen big hbig p r rest hrest hst hpos hh hcur hd]
    simp [hsize]; rfl
  | cons it more ih =>
    intro p r hst hpos hh hcur hd hok
    obtain ⟨hhdr, hne, hsz⟩ := hok it (by simp)
    simp only [List.foldr_cons]
    rw [item_step cfg g hdisk atLen it ⟨hhdr, hne⟩ p r _ (by
      cases more <;> simp) hst hpos hh hcur hd]
    simp only [hsz, Bool.not_true, Bool.false_eq_true, if_false]
    exact ih { p with filesRev := it.part :: p.filesRev } _ hst hpos hh hcur hd (fun it' h' => hok it' (by simp [h']))

/-! ## status codes -/

theorem pstep_ready_files (cfg : PCfg) (p p' : P) (c : UInt8) (h : pstep cfg p c = .ready p') : p'.filesRev ≠ [] := by
  cases hst : p.st with
  | sepBoundary =>
    have := pstep_sep cfg p c hst
    rw [h] at this
    cases this with
    | ready _ f hfl _ _ _ => rw [hfl]; simp
  | firstBoundary => simp only [pstep, hst] at h; split at h <;> (try split at h) <;> cases h
  | crlfOrEof => simp only [pstep, hst] at h; split at h <;> (try split at h) <;> cases h
  | minus => simp only [pstep, hst] at h; split at h <;> cases h
  | eofCr => simp only [pstep, hst] at h; split at h <;> cases h
  | eofLf => simp only [pstep, hst] at h; split at h <;> cases h
  | lf => simp only [pstep, hst] at h; split at h <;> cases h
  | crlfcrlf =>
    simp only [pstep, hst] at h
    split at h
    · split at h <;> cases h
    · cases h

/-- the loop answers only 400 or 413 -/
theorem ploop_codes (cfg : Cfg) (atLen : Bool) :
    ∀ (buf : Bytes) (p : P) (r : Res) (code : Nat), ploop cfg atLen p buf r = .error code → code = 400 ∨ code = 413 := by
  intro buf
  induction buf with
  | nil => intro p r code h; simp [ploop] at h
  | cons c rest ih =>
    intro p r code h
    simp only [ploop] at h
    cases hs : pstep cfg.toPCfg p c with
    | cont p' =>
      rw [hs] at h; simp only at h
      split at h
      · split at h
        · split at h
          · cases h; right; rfl
          · cases h
        · cases h
      · exact ih _ _ _ h
    | hdrDone p' => rw [hs] at h; exact ih _ _ _ h
    | ready p' =>
      rw [hs] at h; simp only at h
      have hf := pstep_ready_files cfg.toPCfg p p' c hs
      cases hfl : p'.filesRev with
      | nil => exact absurd hfl hf
      | cons f fs =>
        rw [hfl] at h; simp only at h
        split at h
        · cases h; right; rfl
        · exact ih _ _ _ h
    | eofNl p' =>
      rw [hs] at h; simp only at h
      split at h
      · cases h; left; rfl
      · split at h
        · cases h; left; rfl
        · cases h
    | err => rw [hs] at h; cases h; left; rfl
    | noRoom p' => rw [hs] at h; cases h; right; rfl

theorem progress_codes (cfg : Cfg) (cl : Nat) (s : RS) (c : Bytes) (code : Nat)
    (h : progress cfg cl s c = .error code) : code = 400 ∨ code = 413 := by
  rw [progress_eq] at h
  split at h
  · cases h
  · split at h
    · next hp => cases h; exact ploop_codes cfg _ _ _ _ _ hp
    · split at h
      · cases h; left; rfl
      · cases h

theorem run_codes (cfg : Cfg) (cl : Nat) : ∀ (cs : List Bytes) (s : RS) (code : Nat),
    run cfg cl s cs = .error code → code = 400 ∨ code = 413 := by
  intro cs
  induction cs with
  | nil => intro s code h; simp only [run] at h; split at h <;> cases h
  | cons c cs ih =>
    intro s code h
    rw [run_cons] at h
    cases hp : progress cfg cl s c with
    | error e => rw [hp] at h; cases h; exact progress_codes cfg cl s c _ hp
    | ok s' => rw [hp] at h; exact ih s' code h

end Cppcms.C12
