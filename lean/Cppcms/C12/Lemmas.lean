import Cppcms.C12.Model
/-!
# C12 helper lemmas

1. `wloop_eq_ploop`: the literal `while(begin!=end){ r=consume(begin,end); switch(r) … }` loop
   equals the single structural loop `ploop`.
2. `ploop_append`: processing `c₁ ++ c₂` in one call equals processing `c₁` (not yet at
   `content_length`) and then `c₂` — including the cases in which the *end of a chunk* is
   visible to the code (size check at `content_partial`, the `buffer+1 == buffer_end` rule).
3. the boundary matcher invariant.
-/
namespace Cppcms.C12
open Cppcms

/-! ## 1. wloop = ploop -/

theorem consume_nil (cfg : PCfg) (p : P) : consume cfg p [] = (endRes p, p, []) := rfl

theorem ploop_r_irrelevant (cfg : Cfg) (atLen : Bool) (p : P) (buf : Bytes) (r r' : Res) (h : buf ≠ []) :
    ploop cfg atLen p buf r = ploop cfg atLen p buf r' := by
  induction buf generalizing p r r' with
  | nil => exact absurd rfl h
  | cons c rest ih =>
    simp only [ploop]
    cases hs : pstep cfg.toPCfg p c with
    | cont p' =>
      simp only
      by_cases hr : rest = []
      · simp [hr]
      · have : rest.isEmpty = false := by cases rest <;> simp_all
        simp only [this]
        exact ih p' r r' hr
    | _ => rfl

theorem wloop_eq_ploop (cfg : Cfg) (atLen : Bool) :
    ∀ (buf : Bytes) (fuel : Nat) (p : P) (r : Res), buf.length ≤ fuel →
      wloop cfg atLen fuel p buf r = ploop cfg atLen p buf r := by
  intro buf
  induction buf with
  | nil =>
    intro fuel p r _
    cases fuel <;> simp [wloop, ploop]
  | cons c rest ih =>
    intro fuel p r hlen
    cases fuel with
    | zero => simp at hlen
    | succ f =>
      have hf : rest.length ≤ f := by simpa using hlen
      rw [wloop]
      simp only [List.isEmpty_cons, Bool.false_eq_true, if_false, consume, ploop]
      cases hs : pstep cfg.toPCfg p c with
      | cont p' =>
        simp only
        cases rest with
        | nil =>
          simp only [consume_nil, endRes, List.isEmpty_nil, if_true]
          by_cases hfr : p'.fileReady = true
          · simp only [hfr, if_true]
            by_cases hso : sizeOk cfg p'.cur.mime p'.dataRev.length = true
            · simp [hso]; cases f <;> simp [wloop]
            · simp [hso]
          · simp only [hfr]
            cases f <;> simp [wloop]
        | cons c2 rest2 =>
          simp only [List.isEmpty_cons, Bool.false_eq_true, if_false]
          rw [← ih (f + 1) p' r (by simp at hf ⊢; omega)]
          rw [wloop]
          simp only [List.isEmpty_cons, Bool.false_eq_true, if_false]
      | hdrDone p' => simp only; exact ih f p' _ hf
      | ready p' =>
        simp only
        cases hfl : p'.filesRev with
        | nil => rfl
        | cons fl fls =>
          simp only
          by_cases hso : sizeOk cfg fl.mime fl.data.length = true
          · simp only [hso, Bool.not_true, Bool.false_eq_true, if_false]; exact ih f p' _ hf
          · simp [hso]
      | eofNl p' =>
        simp only
        cases rest with
        | nil =>
          simp only [List.isEmpty_nil, if_true, Bool.not_true, Bool.false_eq_true, if_false]
          cases atLen
          · simp
          · simp; cases f <;> simp [wloop]
        | cons c2 rest2 => simp
      | err => rfl
      | noRoom p' => rfl

/-- `on_content_progress` expressed with the single loop -/
theorem progress_eq (cfg : Cfg) (cl : Nat) (s : RS) (chunk : Bytes) :
    progress cfg cl s chunk =
      if chunk.isEmpty then .ok s else
      match ploop cfg (s.read + chunk.length == cl) s.p chunk .continueInput with
      | .error code => .error code
      | .ok (p', r) =>
        if (s.read + chunk.length == cl) && r != .eof then .error Gen.codeNoEofAtLength
        else .ok { p := p', read := s.read + chunk.length } := by
  simp only [progress]
  rw [wloop_eq_ploop cfg _ chunk chunk.length s.p _ (Nat.le_refl _)]
  rfl

/-! ## 2. two chunks = their concatenation -/

/-- what one matcher iteration can do -/
inductive SepOut (p : P) : Step → Prop
  | cont (p' : P) : p'.st = .sepBoundary → p'.cur = p.cur → p.dataRev.length ≤ p'.dataRev.length →
      p'.filesRev = p.filesRev → SepOut p (.cont p')
  | ready (p' : P) (f : Part) : p'.filesRev = f :: p.filesRev → f.mime = p.cur.mime →
      p.dataRev.length ≤ f.data.length → p'.st = .crlfOrEof → SepOut p (.ready p')
  | noRoom (p' : P) : SepOut p (.noRoom p')

theorem fileWrite_len {cfg : PCfg} {d bs d' : Bytes} (h : fileWrite cfg d bs = some d') :
    d' = bs.reverse ++ d := by
  unfold fileWrite at h
  split at h <;> simp_all

theorem sepFinish_out (cfg : PCfg) (p : P) (c : UInt8) (pos : Nat) (d : Bytes)
    (hst : p.st = .sepBoundary) (hd : p.dataRev.length ≤ d.length) :
    SepOut p (sepFinish cfg p c pos d) := by
  unfold sepFinish
  split
  · cases hw : fileWrite cfg d [c] with
    | none => exact .noRoom _
    | some d' =>
      have := fileWrite_len hw
      refine .cont _ hst rfl ?_ rfl
      simp [this]; omega
  · split
    · refine .ready _ _ rfl rfl ?_ rfl
      simpa using hd
    · exact .cont _ hst rfl hd rfl

theorem pstep_sep (cfg : PCfg) (p : P) (c : UInt8) (hst : p.st = .sepBoundary) :
    SepOut p (pstep cfg p c) := by
  unfold pstep
  rw [hst]
  simp only
  split
  · exact sepFinish_out cfg p c _ _ hst (Nat.le_refl _)
  · split
    · cases hw : fileWrite cfg p.dataRev (cfg.boundary.take p.pos) with
      | none => exact .noRoom _
      | some d =>
        have := fileWrite_len hw
        exact sepFinish_out cfg p c _ _ hst (by simp [this])
    · exact sepFinish_out cfg p c _ _ hst (Nat.le_refl _)

theorem sizeOk_mono (cfg : Cfg) (m : Bytes) (a b : Nat) (hab : a ≤ b) (h : sizeOk cfg m a = false) :
    sizeOk cfg m b = false := by
  unfold sizeOk at *
  simp only [Bool.not_eq_false', Bool.and_eq_true, decide_eq_true_eq] at *
  exact ⟨h.1, by omega⟩

/-- Once a field is over the limit inside a part, every continuation of the chunk is
answered 413: at the end of the chunk (`content_partial`), at the end of the part
(`content_ready`), or because the buffer has no room. Needs the three status codes equal. -/
theorem ploop_oversize (cfg : Cfg) (atLen : Bool) :
    ∀ (buf : Bytes) (p : P) (r : Res), buf ≠ [] → p.st = .sepBoundary →
      sizeOk cfg p.cur.mime p.dataRev.length = false →
      ploop cfg atLen p buf r = .error Gen.codeSizePartial := by
  intro buf
  induction buf with
  | nil => intro _ _ h; exact absurd rfl h
  | cons c rest ih =>
    intro p r _ hst hso
    simp only [ploop]
    have hout := pstep_sep cfg.toPCfg p c hst
    cases hs : pstep cfg.toPCfg p c with
    | cont p' =>
      rw [hs] at hout
      cases hout with
      | cont _ hst' hcur hlen _ =>
        have hso' : sizeOk cfg p'.cur.mime p'.dataRev.length = false := by
          rw [hcur]; exact sizeOk_mono cfg _ _ _ hlen hso
        simp only
        cases rest with
        | nil => simp [P.fileReady, hst', hso']
        | cons c2 rest2 =>
          simp only [List.isEmpty_cons, Bool.false_eq_true, if_false]
          exact ih p' r (by simp) hst' hso'
    | ready p' =>
      rw [hs] at hout
      cases hout with
      | ready _ f hfl hm hlen _ =>
        have hso' : sizeOk cfg f.mime f.data.length = false := by
          rw [hm]; exact sizeOk_mono cfg _ _ _ hlen hso
        simp only [hfl, hso']
        rfl
    | noRoom p' => rfl
    | hdrDone p' => rw [hs] at hout; cases hout
    | eofNl p' => rw [hs] at hout; cases hout
    | err => rw [hs] at hout; cases hout

theorem ploop_append (cfg : Cfg) (atLen : Bool) (c2 : Bytes) (h2 : c2 ≠ []) :
    ∀ (c1 : Bytes) (p : P) (r : Res),
      ploop cfg atLen p (c1 ++ c2) r =
        match ploop cfg false p c1 r with
        | .error code => .error code
        | .ok (p', r') => ploop cfg atLen p' c2 r' := by
  intro c1
  induction c1 with
  | nil => intro p r; simp [ploop]
  | cons c t ih =>
    intro p r
    have hne : (t ++ c2).isEmpty = false := by cases t <;> cases c2 <;> simp_all
    simp only [List.cons_append, ploop]
    cases hs : pstep cfg.toPCfg p c with
    | cont p' =>
      simp only [hne, Bool.false_eq_true, if_false]
      cases t with
      | nil =>
        simp only [List.nil_append, List.isEmpty_nil, if_true]
        by_cases hfr : p'.fileReady = true
        · simp only [hfr, if_true]
          by_cases hso : sizeOk cfg p'.cur.mime p'.dataRev.length = true
          · simp only [hso, Bool.not_true, Bool.false_eq_true, if_false]
            exact ploop_r_irrelevant cfg atLen p' c2 _ _ h2
          · have hso' : sizeOk cfg p'.cur.mime p'.dataRev.length = false := by simpa using hso
            simp only [hso', Bool.not_false, if_true]
            have hst : p'.st = .sepBoundary := by simpa [P.fileReady] using hfr
            exact ploop_oversize cfg atLen c2 p' r h2 hst hso'
        · simp only [hfr, Bool.false_eq_true, if_false]
          exact ploop_r_irrelevant cfg atLen p' c2 _ _ h2
      | cons c' t' =>
        simp only [List.isEmpty_cons, Bool.false_eq_true, if_false]
        exact ih p' r
    | hdrDone p' => simp only; exact ih p' _
    | ready p' =>
      simp only
      cases hfl : p'.filesRev with
      | nil => rfl
      | cons fl fls =>
        simp only
        by_cases hso : sizeOk cfg fl.mime fl.data.length = true
        · simp only [hso, Bool.not_true, Bool.false_eq_true, if_false]; exact ih p' _
        · simp [hso]
    | eofNl p' =>
      simp only [hne, Bool.not_false, if_true]
      cases t with
      | nil => simp; rfl
      | cons c' t' => simp
    | err => rfl
    | noRoom p' => rfl

theorem progress_read {cfg : Cfg} {cl : Nat} {s s' : RS} {c : Bytes} (h : progress cfg cl s c = .ok s') :
    s'.read = s.read + c.length := by
  rw [progress_eq] at h
  split at h
  · cases c <;> simp_all
  · split at h
    · cases h
    · split at h
      · cases h
      · cases h; rfl

theorem progress_append (cfg : Cfg) (cl : Nat) (s : RS) (c1 c2 : Bytes) (h1 : c1 ≠ []) (h2 : c2 ≠ [])
    (hlen : s.read + c1.length + c2.length ≤ cl) :
    progress cfg cl s (c1 ++ c2) =
      match progress cfg cl s c1 with
      | .error code => .error code
      | .ok s' => progress cfg cl s' c2 := by
  have hc2 : 0 < c2.length := List.length_pos_iff.mpr h2
  have hat : (s.read + c1.length == cl) = false := by
    simp only [beq_eq_false_iff_ne, ne_eq]; omega
  have e1 : c1.isEmpty = false := by cases c1 <;> simp_all
  have e2 : c2.isEmpty = false := by cases c2 <;> simp_all
  have e12 : (c1 ++ c2).isEmpty = false := by cases c1 <;> simp_all
  rw [progress_eq cfg cl s (c1 ++ c2), progress_eq cfg cl s c1]
  simp only [e1, e12, Bool.false_eq_true, if_false, hat, Bool.false_and]
  rw [ploop_append cfg _ c2 h2 c1 s.p _]
  cases hp : ploop cfg false s.p c1 .continueInput with
  | error code => rfl
  | ok pr =>
    obtain ⟨p', r'⟩ := pr
    simp only
    rw [progress_eq]
    simp only [e2, Bool.false_eq_true, if_false, List.length_append, Nat.add_assoc]
    rw [ploop_r_irrelevant cfg _ p' c2 r' .continueInput h2]

/-! ## 3. any chunking = one chunk -/

theorem run_cons (cfg : Cfg) (cl : Nat) (s : RS) (c : Bytes) (cs : List Bytes) :
    run cfg cl s (c :: cs) =
      match progress cfg cl s c with
      | .error code => .error code
      | .ok s' => run cfg cl s' cs := rfl

theorem progress_nil (cfg : Cfg) (cl : Nat) (s : RS) : progress cfg cl s [] = .ok s := by
  simp [progress]

theorem run_merge2 (cfg : Cfg) (cl : Nat) (s : RS) (c1 c2 : Bytes) (cs : List Bytes)
    (hlen : s.read + c1.length + c2.length ≤ cl) :
    run cfg cl s (c1 :: c2 :: cs) = run cfg cl s ((c1 ++ c2) :: cs) := by
  by_cases h1 : c1 = []
  · subst h1; simp [run_cons, progress_nil]
  by_cases h2 : c2 = []
  · subst h2
    simp only [run_cons, progress_nil, List.append_nil]
  rw [run_cons, run_cons cfg cl s (c1 ++ c2), progress_append cfg cl s c1 c2 h1 h2 hlen]
  cases progress cfg cl s c1 with
  | error code => rfl
  | ok s' => simp only [run_cons]

theorem run_flatten (cfg : Cfg) (cl : Nat) :
    ∀ (cs : List Bytes) (s : RS), s.read + cs.flatten.length ≤ cl →
      run cfg cl s cs = run cfg cl s [cs.flatten] := by
  intro cs
  induction cs with
  | nil => intro s _; simp [run_cons, progress_nil]
  | cons c cs ih =>
    intro s hlen
    simp only [List.flatten_cons, List.length_append] at hlen
    have step : run cfg cl s (c :: cs) = run cfg cl s [c, cs.flatten] := by
      rw [run_cons, run_cons cfg cl s c [cs.flatten]]
      cases hp : progress cfg cl s c with
      | error code => rfl
      | ok s' =>
        simp only
        have := progress_read hp
        exact ih s' (by omega)
    rw [step, run_merge2 cfg cl s c cs.flatten [] (by omega)]
    simp

end Cppcms.C12
