import Cppcms.C12.Model
/-!
# C12: reading a part back returns the bytes written

`file_buffer` refills its get area in blocks of `buffer_size` bytes when the part has spilled
to a temporary file; `underflow()` hands the first byte of each block back as an `int`.  With
`traits::to_int_type` (what the source says, `Gen.underflowToIntType`) no byte collides with
EOF, so reading from any offset to EOF returns exactly the rest of the content; and `read_file`
rewinds (`Gen.readFileRewinds`), so a form field's `post()` value is its whole content even
after a filter has read the part.
-/
namespace Cppcms.C12
open Cppcms

theorem underflowRet_ne_eof (c : UInt8) : (underflowRet c == -1) = false := by
  have h : Gen.underflowToIntType = true := rfl
  simp only [underflowRet, h, if_true, beq_eq_false_iff_ne, ne_eq]
  omega

theorem readBlocks_eq : ∀ (fuel : Nat) (rem : Bytes), rem.length < fuel → readBlocks fuel rem = rem := by
  intro fuel
  induction fuel with
  | zero => intro rem h; omega
  | succ n ih =>
    intro rem h
    have hb : 0 < Gen.fileBufferBlock := by decide
    rw [readBlocks]
    cases ht : rem.take Gen.fileBufferBlock with
    | nil =>
      simp only
      cases rem with
      | nil => rfl
      | cons x xs =>
        obtain ⟨k, hk⟩ : ∃ k, Gen.fileBufferBlock = k + 1 := ⟨Gen.fileBufferBlock - 1, by omega⟩
        rw [hk] at ht; simp at ht
    | cons c blk =>
      simp only [underflowRet_ne_eof, Bool.false_eq_true, if_false]
      have hne : rem ≠ [] := by intro e; rw [e] at ht; simp at ht
      have hlen : 0 < rem.length := List.length_pos_iff.mpr hne
      rw [ih (rem.drop Gen.fileBufferBlock) (by rw [List.length_drop]; omega), ← ht]
      exact List.take_append_drop _ _

/-- **read-back**: `seekg(off)` and reading to EOF returns exactly the bytes written from `off`
on, whether the part is in memory or has spilled, whatever the bytes (0xFF included) -/
theorem readBackFrom_eq (memLimit : Nat) (data : Bytes) (off : Nat) : readBackFrom memLimit data off = data.drop off := by
  unfold readBackFrom
  split
  · exact readBlocks_eq _ _ (by rw [List.length_drop]; omega)
  · rfl

theorem deliverR_eq_deliver (memLimit : Nat) (reader : Bool) (parts : List Part) :
    deliverR memLimit reader parts = deliver parts := by
  have h : Gen.readFileRewinds = true := rfl
  unfold deliverR deliver
  simp only [h, if_true, readBackFrom_eq, List.drop_zero]
  congr 1
  conv => rhs; rw [← List.map_id (List.filter (fun x => x.hasMime) parts)]
  rfl

end Cppcms.C12
