import Cppcms.C12.Model
/-!
# C12: what `get_buffer()` lets through

Whatever sizes the reads return, the pieces handed to `on_content_progress` concatenate to the
first `content_length` bytes of the stream: nothing is skipped, duplicated or read past the
declared length.
-/
namespace Cppcms.C12
open Cppcms

theorem take_split (l : Bytes) (k n : Nat) (hk : k ≤ n) : l.take n = l.take k ++ (l.drop k).take (n - k) := by
  have : n = k + (n - k) := by omega
  conv => lhs; rw [this, List.take_add]

theorem feed_flatten_aux (cl bufSize : Nat) (streamed : Bool) (hb : 0 < bufSize) :
    ∀ (fuel read : Nat) (chunks : List Bytes), chunks.flatten.length + chunks.length ≤ fuel →
      (feed cl bufSize streamed fuel read chunks).flatten = chunks.flatten.take (cl - read) := by
  intro fuel
  induction fuel with
  | zero =>
    intro read chunks h
    have : chunks = [] := by
      cases chunks with
      | nil => rfl
      | cons c cs => simp at h
    subst this; simp [feed]
  | succ fuel ih =>
    intro read chunks h
    cases chunks with
    | nil => simp [feed]
    | cons c cs =>
      simp only [feed]
      by_cases hc : c = []
      · subst hc
        simp only [List.isEmpty_nil, if_true, List.flatten_cons, List.nil_append]
        exact ih read cs (by simp only [List.flatten_cons, List.nil_append, List.length_cons] at h; omega)
      · have hce : c.isEmpty = false := by cases c <;> simp_all
        have hclen : 0 < c.length := List.length_pos_iff.mpr hc
        simp only [hce, Bool.false_eq_true, if_false]
        -- the room offered
        generalize hroom : (if streamed = true then min (cl - read) bufSize else cl - read) = room
        have hrle : room ≤ cl - read := by
          rw [← hroom]; split
          · exact Nat.min_le_left _ _
          · exact Nat.le_refl _
        by_cases hr0 : room = 0
        · have : cl - read = 0 := by
            rw [← hroom] at hr0
            split at hr0
            · rcases Nat.min_eq_zero_iff.mp hr0 with h1 | h1
              · exact h1
              · omega
            · exact hr0
          simp [hr0, this]
        · simp only [hr0, if_false, List.flatten_cons]
          have hplen : (c.take room).length = min room c.length := List.length_take
          have hp1 : 1 ≤ (c.take room).length := by rw [hplen]; omega
          -- the remaining chunk list
          have hrest : (if (c.drop room).isEmpty = true then cs else c.drop room :: cs).flatten = c.drop room ++ cs.flatten := by
            split
            · next he => simp [List.isEmpty_iff.mp he]
            · simp
          have hfuel : (if (c.drop room).isEmpty = true then cs else c.drop room :: cs).flatten.length
              + (if (c.drop room).isEmpty = true then cs else c.drop room :: cs).length ≤ fuel := by
            rw [hrest]
            simp only [List.flatten_cons, List.length_append, List.length_cons] at h
            have hd : (c.drop room).length = c.length - room := List.length_drop
            split
            · simp only [List.length_append, hd]; omega
            · simp only [List.length_append, List.length_cons, hd]
              next hne =>
                have : 0 < (c.drop room).length := by
                  cases hdr : c.drop room with
                  | nil => simp [hdr] at hne
                  | cons _ _ => simp
                omega
          rw [ih _ _ hfuel, hrest]
          -- reassemble
          have hk : (c.take room).length ≤ cl - read := by rw [hplen]; omega
          rw [take_split (c ++ cs.flatten) (c.take room).length (cl - read) hk]
          have e1 : (c ++ cs.flatten).take (c.take room).length = c.take room := by
            rw [hplen, List.take_append_of_le_length (Nat.min_le_right _ _)]
            by_cases hrc : room ≤ c.length
            · rw [Nat.min_eq_left hrc]
            · rw [Nat.min_eq_right (by omega), List.take_of_length_le (by omega), List.take_of_length_le (by omega)]
          have e2 : (c ++ cs.flatten).drop (c.take room).length = c.drop room ++ cs.flatten := by
            rw [hplen, List.drop_append_of_le_length (Nat.min_le_right _ _)]
            by_cases hrc : room ≤ c.length
            · rw [Nat.min_eq_left hrc]
            · rw [Nat.min_eq_right (by omega), List.drop_of_length_le (by omega), List.drop_of_length_le (by omega)]
          rw [e1, e2]
          congr 2
          omega

theorem feedAll_flatten (cl bufSize : Nat) (streamed : Bool) (hb : 0 < bufSize) (chunks : List Bytes) :
    (feedAll cl bufSize streamed chunks).flatten = chunks.flatten.take cl := by
  unfold feedAll
  rw [feed_flatten_aux cl bufSize streamed hb _ 0 chunks (by omega)]
  simp

end Cppcms.C12
