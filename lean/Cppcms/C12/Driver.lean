import Cppcms.Common
/-! Line-protocol driver for C12 (stub: model not written yet). -/
def main : IO Unit := Cppcms.lineLoop () (fun s _ => (s, "unimplemented"))
