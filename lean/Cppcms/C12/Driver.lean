import Cppcms.Common
import Cppcms.C12.Model
import Cppcms.C12.Spec
import Cppcms.C12.FileBuffer
/-! Line-protocol driver for C12.

* `mp <contentType> <memLimit|-1> <diskOk> <chunk>*` : `multipart_parser` driven as the repo's own test
  does; one token `res/consumed/hasFile/size` per `consume` call, then `F` and the finished files.
* `ct <bytes>` : `http::content_type` : media type and parameters.
* `form <bytes>` : `parse_form_urlencoded` : return value and the pairs inserted.
* `rq <flt> <contentType> <cl> <contentLimit> <multipartLimit> <memLimit> <diskOk> <bufSize> <query> <chunk>*` : whole request.
* `hdrok <bytes>` : is the header block accepted as a whole, and read as what.
* `enc <bkey> (<name> <filename> <mime> <data>)*` : `Spec.encode`; `encb`: `Spec.encodeW (fun _ => true)` (empty file names written as `filename=""`).
* `encform (<k> <v>)*` : `Spec.encodeFormWith C15.urlencode`.
All byte strings in hex (`-` = empty). -/
open Cppcms Cppcms.C12

def hexList (l : List String) : Option (List Bytes) := l.mapM parseHex

def partStr (f : Part) : String :=
  s!"{toHex f.name},{toHex f.filename},{toHex f.mime},{toHex f.data}"

def pairsStr (l : List (Bytes × Bytes)) : String :=
  if l.isEmpty then "-" else ";".intercalate (l.map fun (k, v) => s!"{toHex k}={toHex v}")

def filesStr (l : List Part) : String :=
  if l.isEmpty then "-" else ";".intercalate (l.map partStr)

/-- feed one chunk: tokens for each consume call; the flag says "stop" (error) -/
def mpChunk (cfg : PCfg) : Nat → P → Bytes → List String → Bool × P × List String
  | 0, p, _, acc => (false, p, acc)
  | fuel + 1, p, buf, acc =>
    if buf.isEmpty then (false, p, acc) else
    let (r, p', rest) := consume cfg p buf
    let consumed := buf.length - rest.length
    let size := match r with
      | .contentReady => (match p'.filesRev with | f :: _ => f.data.length | [] => 0)
      | .metaReady | .contentPartial => p'.dataRev.length
      | _ => 0
    let tok := s!"{r.idx}/{consumed}/{boolStr p'.fileReady}/{size}"
    match r with
    | .metaReady | .contentPartial | .contentReady | .continueInput | .eof => mpChunk cfg fuel p' rest (tok :: acc)
    | _ => (true, p', tok :: acc)

def mpRun (cfg : PCfg) : P → List Bytes → List String → P × List String
  | p, [], acc => (p, acc)
  | p, c :: cs, acc =>
    match mpChunk cfg (c.length + 1) p c acc with
    | (false, p', acc') => mpRun cfg p' cs acc'
    | (true, p', acc') => (p', acc')

def parseParts : List Bytes → Option (List Part)
  | [] => some []
  | n :: f :: m :: d :: rest => (parseParts rest).map fun l => { name := n, filename := f, mime := m, data := d } :: l
  | _ => none

def parsePairs : List Bytes → Option (List (Bytes × Bytes))
  | [] => some []
  | k :: v :: rest => (parsePairs rest).map fun l => (k, v) :: l
  | _ => none

def seenStr : Seen → String
  | .refused code => s!"status {code}"
  | .waiting => "waiting"
  | .handled post files => s!"status 200 post {pairsStr post} files {filesStr files}"

def evStr : Ev → String
  | .newFile n sz => s!"new:{toHex n}:{sz}"
  | .progress sz => s!"prog:{sz}"
  | .dataReady sz => s!"ready:{sz}"
  | .endOfContent => "end"
  | .rawChunk n => s!"c{n}"

/-- the `fb` line: write schedule against the `overflow()`-level model of `file_buffer` -/
def fbRun (diskOk : Bool) : FB → Bytes → List Nat → List String → FB × List String
  | fb, _, [], acc => (fb, acc)
  | fb, data, k :: ks, acc =>
    let want := if k == 0 then 1 else k
    if data.length < want then (fb, acc) else
    let chunk := data.take want
    let (fb', got) :=
      if k == 0 then (match fb.sputc diskOk (chunk.headD 0) with | some f => (f, 1) | none => (fb, 0))
      else fb.sputn diskOk chunk
    let tok := s!"{boolStr fb'.inMem}/{fb'.size}/{got}"
    if got == want then fbRun diskOk fb' (data.drop want) ks (tok :: acc) else (fb', tok :: acc)

def step (_ : Unit) (line : String) : Unit × String :=
  let r : String :=
    match words line with
    | "mp" :: ct :: mem :: disk :: chunks =>
      match parseHex ct, mem.toInt?, hexList chunks with
      | some ct, some mem, some chunks =>
        (match mkBoundary ct with
         | none => "noboundary"
         | some b =>
           let cfg : PCfg := { boundary := b, memLimit := if mem < 0 then 0 else mem.toNat, diskOk := disk == "1" }
           let (p, toks) := mpRun cfg {} chunks []
           -- the harness reads every finished file back through `file.data()` from offset 0
           " ".intercalate toks.reverse ++ " F " ++ filesStr (p.files.map fun f => { f with data := readBackFrom cfg.memLimit f.data 0 }))
      | _, _, _ => "bad-op"
    | ["fb", lim, disk, dat, ops] =>
      match lim.toNat?, parseHex dat, (ops.splitOn ",").mapM String.toNat? with
      | some lim, some dat, some ops =>
        let (fb, toks) := fbRun (disk == "1") (FB.fresh lim) dat ops []
        " ".intercalate toks.reverse ++ " R " ++ toHex (readBackFrom lim fb.content 0)
      | _, _, _ => "bad-op"
    | ["ct", h] =>
      match parseHex h with
      | some s =>
        let (mt, rest) := mediaTypeRest s
        let ps := if mt.isEmpty then [] else ctParams rest.length rest []
        s!"{toHex mt} {pairsStr (mmOfList ps)}"
      | none => "bad-op"
    | ["lim", c, m] =>
      -- content_limits(cached_settings): security.content_length_limit / multipart_form_data_limit are configured in KiB
      let kb := fun (s : String) (d : Nat) => if s == "-" then some d else s.toNat?
      match kb c Gen.dfltContentLimitKiB, kb m Gen.dfltMultipartLimitKiB with
      | some c, some m => s!"limits {c * Gen.contentLimitUnit} {m * Gen.multipartLimitUnit}"
      | _, _ => "bad-op"
    | ["form", h] =>
      match parseHex h with
      | some s => let (pairs, ok) := parseForm s; s!"{boolStr ok} {pairsStr (mmOfList pairs)}"
      | none => "bad-op"
    | "rq" :: flt :: ct :: cl :: climit :: mlimit :: mem :: disk :: bufsize :: query :: chunks =>
      match flt.toNat?, parseHex ct, cl.toNat?, climit.toNat?, mlimit.toNat?, mem.toNat?, bufsize.toNat?, parseHex query, hexList chunks with
      | some flt, some ct, some cl, some climit, some mlimit, some mem, some bufsize, some query, some chunks =>
        let o := requestIO { flt := flt, contentType := ct, cl := cl, bufSize := bufsize, query := query, chunks := chunks,
                             lim := { contentLimit := climit, multipartLimit := mlimit, memLimit := mem, diskOk := disk == "1" } }
        let sizes := if o.sizes.isEmpty then "-" else ",".intercalate (o.sizes.map toString)
        let evs := if o.events.isEmpty then "-" else ",".intercalate (o.events.map evStr)
        let rd := match flt, o.seen with
          | 4, .handled _ _ => s!" rd {toHex o.rd}"
          | _, _ => ""
        s!"{seenStr o.seen} get {pairsStr o.get} | sizes {sizes} raw {toHex o.raw} ev {evs}{rd}"
      | _, _, _, _, _, _, _, _, _ => "bad-op"
    | ["hdrok", h] =>
      match parseHex h with
      | some h => (match processHeader h with
                   | some m => s!"{boolStr (hdrEndsAt 0 h)} {toHex m.name},{toHex m.filename},{toHex m.mime}"
                   | none => "none")
      | none => "bad-op"
    | "encb" :: bkey :: parts =>
      match parseHex bkey, (hexList parts).bind parseParts with
      | some b, some ps => toHex (Spec.encodeW (fun _ => true) b ps)
      | _, _ => "bad-op"
    | "enc" :: bkey :: parts =>
      match parseHex bkey, (hexList parts).bind parseParts with
      | some b, some ps => toHex (Spec.encode b ps)
      | _, _ => "bad-op"
    | "encform" :: kvs =>
      match (hexList kvs).bind parsePairs with
      | some l => toHex (Spec.encodeFormWith C15.urlencode l)
      | none => "bad-op"
    | _ => "bad-op"
  ((), r)

def main : IO Unit := lineLoop () step
