import Cppcms.C12.Matcher
/-!
# C12: a well-formed body is parsed back to its parts (single chunk; `run_flatten` lifts it
to every chunking)
-/
namespace Cppcms.C12
open Cppcms

/-- one encoded part: its header block, what the header means, its content -/
structure Item where
  hdr : Bytes
  info : Meta
  data : Bytes

def Item.part (it : Item) : Part :=
  { name := it.info.name, filename := it.info.filename, mime := it.info.mime, data := it.data }

/-- the body after the very first `--bkey`, with the delimiters written as `b = CRLF--bkey` -/
def tailOf (b : Bytes) : List Item → Bytes
  | [] => [45, 45, 13, 10]
  | it :: rest => [13, 10] ++ it.hdr ++ it.data ++ b ++ tailOf b rest

theorem encodeWith_eq (bkey : Bytes) (items : List Item) :
    Spec.encodeWith bkey (items.map fun it => (it.hdr, it.data)) =
      [45, 45] ++ bkey ++ tailOf (13 :: 10 :: 45 :: 45 :: bkey) items := by
  induction items with
  | nil => simp [Spec.encodeWith, tailOf, Spec.dashes, Spec.crlf]
  | cons it rest ih =>
    simp only [List.map_cons, Spec.encodeWith, tailOf, ih, Spec.dashes, Spec.crlf]
    simp [List.append_assoc]

theorem tailOf_ne_nil (b : Bytes) (items : List Item) : tailOf b items ≠ [] := by
  cases items <;> simp [tailOf]

/-! ## the phases -/

theorem first_boundary (cfg : PCfg) :
    ∀ (n : Nat) (p : P), p.st = .firstBoundary → p.pos + n + 1 = cfg.boundary.length →
      pfold cfg p (cfg.boundary.drop p.pos) = some { p with st := .crlfOrEof, pos := 0 } := by
  intro n
  induction n with
  | zero =>
    intro p hst hlen
    have hpos : p.pos < cfg.boundary.length := by omega
    have hdrop : cfg.boundary.drop p.pos = [cfg.boundary.getD p.pos 0] := by
      rw [getD_lt _ _ hpos, List.drop_eq_getElem_cons hpos, List.drop_eq_nil_of_le (by omega)]
    rw [hdrop]
    have h1 : p.pos + 1 = cfg.boundary.length := by omega
    simp [pfold, pstep, hst, h1]
  | succ n ih =>
    intro p hst hlen
    have hpos : p.pos < cfg.boundary.length := by omega
    have hdrop : cfg.boundary.drop p.pos = cfg.boundary.getD p.pos 0 :: cfg.boundary.drop (p.pos + 1) := by
      rw [getD_lt _ _ hpos]; exact List.drop_eq_getElem_cons hpos
    rw [hdrop]
    have h1 : p.pos + 1 ≠ cfg.boundary.length := by omega
    have hs : pstep cfg p (cfg.boundary.getD p.pos 0) = .cont { p with pos := p.pos + 1 } := by
      simp [pstep, hst, h1]
    simp only [pfold, hs]
    have := ih { p with pos := p.pos + 1 } hst (by simp; omega)
    simpa using this

theorem crlf_after_boundary (cfg : PCfg) (p : P) (hst : p.st = .crlfOrEof) :
    pfold cfg p [13, 10] = some { p with st := .crlfcrlf } := by
  simp [pfold, pstep, hst]

theorem hdr_fold (cfg : PCfg) (m : Meta) :
    ∀ (h : Bytes) (p : P), p.st = .crlfcrlf → hdrEndsAt p.pos h = true →
      processHeader (p.hdrRev.reverse ++ h) = some m →
      ∃ pre c, h = pre ++ [c] ∧ ∃ p', pfold cfg p pre = some p' ∧
        pstep cfg p' c = .hdrDone { p with st := .sepBoundary, pos := 0, hdrRev := [], cur := m } := by
  intro h
  induction h with
  | nil => intro p _ he; simp [hdrEndsAt] at he
  | cons c t ih =>
    intro p hst he hph
    cases t with
    | nil =>
      simp only [hdrEndsAt, List.isEmpty_nil, if_true, beq_iff_eq] at he
      refine ⟨[], c, rfl, p, rfl, ?_⟩
      simp only [pstep, hst, he, if_true, List.reverse_cons]
      rw [hph]
    | cons c2 t2 =>
      simp only [hdrEndsAt, List.isEmpty_cons, Bool.false_eq_true, if_false, Bool.and_eq_true, bne_iff_ne, ne_eq] at he
      have hs : pstep cfg p c = .cont { p with hdrRev := c :: p.hdrRev, pos := crlfNext p.pos c } := by
        simp [pstep, hst, he.1]
      obtain ⟨pre, cl, hsplit, p', hf, hlast⟩ :=
        ih { p with hdrRev := c :: p.hdrRev, pos := crlfNext p.pos c } hst he.2 (by simpa using hph)
      refine ⟨c :: pre, cl, by rw [hsplit]; rfl, p', by simp [pfold, hs, hf], ?_⟩
      rw [hlast]

theorem final_frame (cfg : Cfg) (p : P) (r : Res) (hst : p.st = .crlfOrEof) :
    ploop cfg true p [45, 45, 13, 10] r = .ok ({ p with st := .eofLf }, .eof) := by
  simp [ploop, pstep, hst]

/-! ## all parts -/

def ItemOK (cfg : Cfg) (it : Item) : Prop :=
  headerOK it.hdr it.info = true ∧ NoEarly cfg.boundary it.data ∧ sizeOk cfg it.info.mime it.data.length = true

theorem tail_run (cfg : Cfg) (g : Guard cfg.boundary) (hdisk : cfg.diskOk = true) :
    ∀ (items : List Item) (p : P) (r : Res),
      p.st = .crlfOrEof → p.pos = 0 → p.hdrRev = [] → p.cur = {} → p.dataRev = [] →
      (∀ it ∈ items, ItemOK cfg it) →
      ploop cfg true p (tailOf cfg.boundary items) r =
        .ok ({ p with st := .eofLf, filesRev := (items.map Item.part).reverse ++ p.filesRev }, .eof) := by
  intro items
  induction items with
  | nil =>
    intro p r hst _ _ _ _ _
    simp only [tailOf, List.map_nil, List.reverse_nil, List.nil_append]
    exact final_frame cfg p r hst
  | cons it rest ih =>
    intro p r hst hpos hh hcur hd hok
    obtain ⟨hhdr, hne, hsz⟩ := hok it (by simp)
    simp only [headerOK, Bool.and_eq_true, beq_iff_eq] at hhdr
    have htl := tailOf_ne_nil cfg.boundary rest
    -- CRLF after the delimiter
    have e1 : tailOf cfg.boundary (it :: rest) =
        [13, 10] ++ (it.hdr ++ (it.data ++ cfg.boundary ++ tailOf cfg.boundary rest)) := by
      simp [tailOf, List.append_assoc]
    rw [e1, ploop_pfold cfg true _ _ p _ r (crlf_after_boundary cfg.toPCfg p hst) (by
      cases hh' : it.hdr <;> simp_all [hdrEndsAt])]
    -- header block
    obtain ⟨hpre, hc, hsplit, p2, hf2, hs2⟩ :=
      hdr_fold cfg.toPCfg it.info it.hdr { p with st := .crlfcrlf } rfl (by simpa [hpos] using hhdr.1)
        (by simpa [hh] using hhdr.2)
    rw [hsplit, List.append_assoc, ploop_pfold cfg true _ _ _ _ r hf2 (by simp)]
    simp only [List.cons_append, List.nil_append, ploop, hs2]
    -- content and delimiter
    let p3 : P := { p with st := .sepBoundary, pos := 0, hdrRev := [], cur := it.info }
    obtain ⟨cpre, cc, csplit, p4, hf4, hs4⟩ :=
      consume_content cfg.toPCfg g hdisk p3 rfl rfl (by simp [p3, hd]) it.data [] hne
    rw [csplit, List.append_assoc, ploop_pfold cfg true _ _ p3 _ _ hf4 (by simp)]
    simp only [List.cons_append, List.nil_append, ploop, hs4, P.close, List.reverse_reverse]
    simp only [p3, hsz, Bool.not_true, Bool.false_eq_true, if_false]
    rw [ih _ _ rfl rfl rfl rfl rfl (fun it' h' => hok it' (by simp [h']))]
    simp [Item.part, hcur, hpos, hh, hd]

/-- single chunk: the whole body at once -/
theorem run_single_roundtrip (cfg : Cfg) (bkey : Bytes) (hb : cfg.boundary = 13 :: 10 :: 45 :: 45 :: bkey)
    (hcr : (13 : UInt8) ∉ bkey) (hdisk : cfg.diskOk = true) (items : List Item)
    (hok : ∀ it ∈ items, ItemOK cfg it) (body : Bytes)
    (hdef : body = Spec.encodeWith bkey (items.map fun it => (it.hdr, it.data))) :
    run cfg body.length {} [body] = .ready (items.map Item.part) := by
  have g : Guard cfg.boundary := ⟨bkey, hb, hcr⟩
  have hbody : body = cfg.boundary.drop 2 ++ tailOf cfg.boundary items := by
    rw [hdef, encodeWith_eq, hb]
    simp
  have hne : body ≠ [] := by rw [hbody]; simp [tailOf_ne_nil]
  have hfb := first_boundary cfg.toPCfg (bkey.length + 1) ({} : P) rfl (by rw [hb]; simp [Gen.initPos]; omega)
  have hinit : ({} : P).pos = 2 := rfl
  rw [hinit] at hfb
  rw [run_cons, progress_eq]
  have e1 : body.isEmpty = false := by
    cases hbd : body with
    | nil => exact absurd hbd hne
    | cons _ _ => rfl
  have hrs : ({} : RS).read = 0 := rfl
  simp only [e1, Bool.false_eq_true, if_false, hrs, Nat.zero_add, beq_self_eq_true, Bool.true_and]
  conv => lhs; rw [hbody]
  rw [ploop_pfold cfg true _ _ _ _ _ hfb (tailOf_ne_nil _ _)]
  rw [tail_run cfg g hdisk items _ _ rfl rfl rfl rfl rfl hok]
  simp [run, P.files]

end Cppcms.C12
