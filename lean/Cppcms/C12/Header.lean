import Cppcms.C12.Form
/-!
# C12: the header block `Spec.encodeHeader` writes is accepted and read back exactly

For a part whose name / file name contain no CR or LF and whose MIME type is empty or a plain
lower-case `type/subtype`: the naive CRLFCRLF scanner ends the block exactly at its last
byte, and `process_header` returns the part's name, file name and MIME type.
-/
namespace Cppcms.C12
open Cppcms

/-! ## literals: the spec's strings are the source's strings -/

def Dname : Bytes := ofNats Gen.hdrDisposition
def formData : Bytes := ofNats Gen.dispFormData
def nameKey : Bytes := ofNats Gen.keyName
def filenameKey : Bytes := ofNats Gen.keyFilename
def CTname : Bytes := ofNats Gen.hdrContentType

theorem lit_disposition : Spec.litDisposition = Dname ++ 58 :: 32 :: (formData ++ 59 :: 32 :: (nameKey ++ [61])) := by decide
theorem lit_filename : Spec.litFilename = 59 :: 32 :: (filenameKey ++ [61]) := by decide
theorem lit_contentType : Spec.litContentType = CTname ++ [58, 32] := by decide

/-- right-nested cons/append normal form -/
macro "nf" : tactic => `(tactic| simp only [List.cons_append, List.nil_append, List.append_assoc, List.singleton_append, List.append_nil])

/-! ## small facts about the protocol helpers -/

theorem skipWs_id (c : UInt8) (r : Bytes) (h1 : isBlank c = false) (h2 : c ≠ 13) : skipWs (c :: r) = c :: r := by
  have : (c == 13) = false := by simpa using h2
  rw [skipWs.eq_def]; simp [h1, this]

theorem skipWs_blank (r : Bytes) : skipWs (32 :: r) = skipWs r := by
  rw [skipWs.eq_def]; simp [isBlank]

theorem token_not_blank : ∀ x : UInt8, tokenChar x = true → isBlank x = false ∧ x ≠ 13 := by
  apply forall_uint8
  decide +kernel

theorem tokenSpan_eq (a rest : Bytes) (ha : ∀ x ∈ a, tokenChar x = true)
    (hr : ∀ y ys, rest = y :: ys → tokenChar y = false) : tokenSpan (a ++ rest) = (a, rest) :=
  span_append_eq tokenChar a rest ha hr

theorem spec_token : ∀ c : UInt8, Spec.isTokenByte c = true →
    tokenChar c = true ∧ isBlank c = false ∧ c ≠ 13 ∧ c ≠ 10 := by
  apply forall_uint8
  decide +kernel

theorem lower_id : ∀ c : UInt8, Spec.isUpper c = false → toLower c = c := by
  apply forall_uint8
  decide +kernel

theorem lower_list_id (s : Bytes) (h : ∀ c ∈ s, Spec.isUpper c = false) : lower s = s := by
  induction s with
  | nil => rfl
  | cons c t ih =>
    simp only [lower, List.map_cons] at ih ⊢
    rw [lower_id c (h c List.mem_cons_self), ih (fun x hx => h x (List.mem_cons_of_mem _ hx))]

/-! ## quoted strings -/

def esc (c : UInt8) : Bytes := if c == 34 || c == 92 then [92, c] else [c]

theorem quote_eq (s : Bytes) : Spec.quote s = 34 :: (s.flatMap esc ++ [34]) := by
  unfold Spec.quote
  simp only [List.cons_append, List.nil_append, List.append_assoc]
  rfl

theorem esc_mem (c x : UInt8) (h : x ∈ esc c) : x = 92 ∨ x = c := by
  unfold esc at h
  split at h
  · simp only [List.mem_cons, List.mem_nil_iff, or_false] at h; exact h
  · simp only [List.mem_cons, List.mem_nil_iff, or_false] at h; exact Or.inr h

theorem unquoteLoop_esc (s t : Bytes) : unquoteLoop (s.flatMap esc ++ 34 :: t) = some (s, t) := by
  induction s with
  | nil => rw [unquoteLoop.eq_def]; rfl
  | cons c s ih =>
    simp only [List.flatMap_cons, List.append_assoc]
    by_cases h : (c == 34 || c == 92) = true
    · simp only [esc, h, if_true, List.cons_append, List.nil_append]
      rw [unquoteLoop.eq_def]
      simp [ih]
    · have h' : (c == 34 || c == 92) = false := by simpa using h
      simp only [esc, h', Bool.false_eq_true, if_false, List.cons_append, List.nil_append]
      simp only [Bool.or_eq_false_iff] at h'
      rw [unquoteLoop.eq_def]
      simp [h'.1, h'.2, ih]

theorem unquote_quote (s t : Bytes) : unquote (Spec.quote s ++ t) = some (s, t) := by
  rw [quote_eq]
  simp only [List.cons_append, List.append_assoc, List.singleton_append, unquote, beq_self_eq_true, if_true]
  exact unquoteLoop_esc s t

theorem quote_no_cr (s : Bytes) (h : ∀ c ∈ s, c ≠ 13 ∧ c ≠ 10) : (13 : UInt8) ∉ Spec.quote s := by
  rw [quote_eq]
  intro hm
  simp only [List.mem_cons, List.mem_append, List.mem_flatMap, List.mem_singleton] at hm
  rcases hm with h1 | ⟨c, hc, hx⟩ | h1
  · exact absurd h1 (by decide)
  · rcases esc_mem c 13 hx with h2 | h2
    · exact absurd h2 (by decide)
    · exact (h c hc).1 h2.symm
  · exact absurd h1 (by decide)

/-! ## one `; key="value"` parameter -/

theorem parsePair_quoted (key v t : Bytes) (hk : key ≠ []) (hkt : ∀ x ∈ key, tokenChar x = true) :
    parsePair (59 :: 32 :: (key ++ 61 :: (Spec.quote v ++ t))) = some (key, v, t) := by
  have hsemi : UInt8.ofNat Gen.pairSemicolon = 59 := by decide
  have heq : UInt8.ofNat Gen.pairEquals = 61 := by decide
  have hq : UInt8.ofNat Gen.pairQuote = 34 := by decide
  have hts : tokenSpan (key ++ 61 :: (Spec.quote v ++ t)) = (key, 61 :: (Spec.quote v ++ t)) :=
    tokenSpan_eq key _ hkt (by intro y ys e; cases e; decide)
  have hkne : key.isEmpty = false := by cases key <;> simp_all
  have hkne2 : (key ++ 61 :: (Spec.quote v ++ t)).isEmpty = false := by cases key <;> simp_all
  have hqs : Spec.quote v ++ t = 34 :: ((v.flatMap esc ++ [34]) ++ t) := by rw [quote_eq]; rfl
  have hsk : skipWs (Spec.quote v ++ t) = Spec.quote v ++ t := by
    rw [hqs]; exact skipWs_id 34 _ (by decide) (by decide)
  have hsk1 : skipWs (key ++ 61 :: (Spec.quote v ++ t)) = key ++ 61 :: (Spec.quote v ++ t) := by
    cases key with
    | nil => exact absurd rfl hk
    | cons x xs =>
      have hx := token_not_blank x (hkt x List.mem_cons_self)
      exact skipWs_id x _ hx.1 hx.2
  unfold parsePair parsePairG
  simp only [hsemi, bne_self_eq_false, Bool.false_eq_true, if_false, skipWs_blank, hsk1, hkne2, hts, hkne, heq, hsk]
  rw [hqs]
  simp only [hq, beq_self_eq_true, if_true]
  rw [← hqs, unquote_quote]

/-! ## `find("\r\n")` and the scanner on CR-free text -/

theorem findCRLF_nocr (a rest : Bytes) (h : (13 : UInt8) ∉ a) : findCRLF (a ++ 13 :: 10 :: rest) = some (a, rest) := by
  induction a with
  | nil => simp [findCRLF]
  | cons x xs ih =>
    have hx : x ≠ 13 := fun e => h (e ▸ List.mem_cons_self)
    have hxs : (13 : UInt8) ∉ xs := fun e => h (List.mem_cons_of_mem _ e)
    have hx' : (x == 13) = false := by simpa using hx
    simp only [List.cons_append, findCRLF]
    cases ht : xs ++ 13 :: 10 :: rest with
    | nil => simp at ht
    | cons b r =>
      simp only [hx', Bool.false_and, Bool.false_eq_true, if_false]
      rw [← ht, ih hxs]
      rfl

theorem crlfNext0 (c : UInt8) (h : c ≠ 13) : crlfNext 0 c = 0 := by
  have : (c == 13) = false := by simpa using h
  simp [crlfNext, Gen.crlfcrlf, ofNats, this]

theorem hdrEndsAt_nocr (a rest : Bytes) (h : (13 : UInt8) ∉ a) (hr : rest ≠ []) :
    hdrEndsAt 0 (a ++ rest) = hdrEndsAt 0 rest := by
  induction a with
  | nil => rfl
  | cons x xs ih =>
    have hx : x ≠ 13 := fun e => h (e ▸ List.mem_cons_self)
    have hxs : (13 : UInt8) ∉ xs := fun e => h (List.mem_cons_of_mem _ e)
    have hne : (xs ++ rest).isEmpty = false := by cases xs <;> cases rest <;> simp_all
    simp only [List.cons_append, hdrEndsAt, hne, Bool.false_eq_true, if_false, crlfNext0 x hx]
    rw [ih hxs]
    simp [Gen.crlfcrlf]

theorem hdrEndsAt_final : hdrEndsAt 0 [13, 10, 13, 10] = true := by decide

theorem hdrEndsAt_line (c : UInt8) (l : Bytes) (hc : c ≠ 13) (hl : (13 : UInt8) ∉ l) :
    hdrEndsAt 0 (13 :: 10 :: c :: (l ++ [13, 10, 13, 10])) = true := by
  have hc' : (c == 13) = false := by simpa using hc
  have h1 : crlfNext 0 13 = 1 := by decide
  have h2 : crlfNext 1 10 = 2 := by decide
  have h3 : crlfNext 2 c = 0 := by simp [crlfNext, Gen.crlfcrlf, ofNats, hc']
  have hne : (l ++ [13, 10, 13, 10]).isEmpty = false := by cases l <;> simp
  simp only [hdrEndsAt, List.isEmpty_cons, Bool.false_eq_true, if_false, h1, h2, h3, hne]
  rw [hdrEndsAt_nocr l _ hl (by simp), hdrEndsAt_final]
  simp [Gen.crlfcrlf]

/-! ## `process_header` -/

theorem processHeaderLoop_succ (fuel : Nat) (h : Bytes) (m : Meta) (hne : h ≠ []) :
    processHeaderLoop (fuel + 1) h m =
      match findCRLF h with
      | none => none
      | some (line, rest) =>
        if line.isEmpty then some m else
        match processLine line m with
        | none => none
        | some m' => processHeaderLoop fuel rest m' := by
  cases h with
  | nil => exact absurd rfl hne
  | cons x xs => rfl

theorem parseCDLoop_succ (fuel : Nat) (s : Bytes) (m : Meta) (hne : s ≠ []) :
    parseCDLoop (fuel + 1) s m =
      match parsePair s with
      | none => none
      | some (n, v, rest) =>
        parseCDLoop fuel (skipWs rest)
          (if lower n == ofNats Gen.keyFilename then { m with filename := v }
           else if lower n == ofNats Gen.keyName then { m with name := v } else m) := by
  cases s with
  | nil => exact absurd rfl hne
  | cons x xs => rfl

theorem key_facts :
    (∀ x ∈ nameKey, tokenChar x = true) ∧ (∀ x ∈ filenameKey, tokenChar x = true)
    ∧ nameKey ≠ [] ∧ filenameKey ≠ []
    ∧ (lower nameKey == ofNats Gen.keyFilename) = false ∧ (lower nameKey == ofNats Gen.keyName) = true
    ∧ (lower filenameKey == ofNats Gen.keyFilename) = true
    ∧ (∀ x ∈ Dname, tokenChar x = true) ∧ (∀ x ∈ formData, tokenChar x = true) ∧ (∀ x ∈ CTname, tokenChar x = true)
    ∧ eqCI Dname (ofNats Gen.hdrDisposition) = true ∧ eqCI formData (ofNats Gen.dispFormData) = true
    ∧ eqCI CTname (ofNats Gen.hdrDisposition) = false ∧ eqCI CTname (ofNats Gen.hdrContentType) = true
    ∧ (13 : UInt8) ∉ Spec.litDisposition ∧ (13 : UInt8) ∉ Spec.litFilename ∧ (13 : UInt8) ∉ Spec.litContentType := by
  decide

/-- the Content-Disposition parameters `; name="…"[; filename="…"]` -/
theorem parseCD_params (w : Bool) (name filename : Bytes) :
    parseCD (59 :: 32 :: (nameKey ++ 61 :: (Spec.quote name ++
        (if filename.isEmpty && !w then [] else Spec.litFilename ++ Spec.quote filename)))) {}
      = some { name := name, filename := filename, mime := [] } := by
  obtain ⟨hnk, hfk, hnne, hfne, hl1, hl2, hl3, _⟩ := key_facts
  unfold parseCD
  rw [skipWs_id 59 _ (by decide) (by decide)]
  generalize hF : (if filename.isEmpty && !w then [] else Spec.litFilename ++ Spec.quote filename) = F
  -- enough fuel for two parameters
  obtain ⟨n, hn⟩ : ∃ n, (59 :: 32 :: (nameKey ++ 61 :: (Spec.quote name ++ F))).length = n + 2 + F.length := by
    refine ⟨nameKey.length + (Spec.quote name).length + 1, ?_⟩
    simp only [List.length_append, List.length_cons]; omega
  rw [hn]
  by_cases hcw : (filename.isEmpty && !w) = true
  · have hfn : filename = [] := by
      simp only [Bool.and_eq_true] at hcw
      exact List.isEmpty_iff.mp hcw.1
    subst hfn
    simp only [hcw, if_true] at hF
    subst hF
    rw [show n + 2 + ([] : Bytes).length = (n + 1) + 1 from rfl,
      parseCDLoop_succ _ _ _ (by simp), parsePair_quoted nameKey name [] hnne hnk]
    simp only [hl1, hl2, Bool.false_eq_true, if_false, if_true]
    rw [skipWs.eq_def]; rfl
  · have hcw' : (filename.isEmpty && !w) = false := by
      cases h : (filename.isEmpty && !w) with
      | true => exact absurd h hcw
      | false => rfl
    simp only [hcw', Bool.false_eq_true, if_false] at hF
    subst hF
    rw [show n + 2 + (Spec.litFilename ++ Spec.quote filename).length
        = (n + (Spec.litFilename ++ Spec.quote filename).length + 1) + 1 by omega,
      parseCDLoop_succ _ _ _ (by simp), parsePair_quoted nameKey name _ hnne hnk]
    simp only [hl1, hl2, Bool.false_eq_true, if_false, if_true]
    have e : Spec.litFilename ++ Spec.quote filename = 59 :: 32 :: (filenameKey ++ 61 :: (Spec.quote filename ++ [])) := by
      rw [lit_filename]; nf
    rw [e, skipWs_id 59 _ (by decide) (by decide)]
    obtain ⟨k, hk⟩ : ∃ k, n + (59 :: 32 :: (filenameKey ++ 61 :: (Spec.quote filename ++ []))).length = k + 1 :=
      ⟨n + (filenameKey ++ 61 :: (Spec.quote filename ++ [])).length + 1, by simp only [List.length_cons]; omega⟩
    rw [hk, parseCDLoop_succ _ _ _ (by simp), parsePair_quoted filenameKey filename [] hfne hfk]
    simp only [hl3, if_true]
    rw [skipWs.eq_def]
    cases k <;> rfl

/-- the Content-Disposition line -/
theorem processLine_disposition (w : Bool) (name filename : Bytes) :
    processLine (Spec.litDisposition ++ Spec.quote name ++
        (if filename.isEmpty && !w then [] else Spec.litFilename ++ Spec.quote filename)) {}
      = some { name := name, filename := filename, mime := [] } := by
  obtain ⟨_, _, _, _, _, _, _, hD, hFD, _, hcD, hcFD, _⟩ := key_facts
  have hshape : Spec.litDisposition ++ Spec.quote name ++
        (if filename.isEmpty && !w then [] else Spec.litFilename ++ Spec.quote filename) =
      Dname ++ 58 :: 32 :: (formData ++ 59 :: 32 :: (nameKey ++ 61 :: (Spec.quote name ++
        (if filename.isEmpty && !w then [] else Spec.litFilename ++ Spec.quote filename)))) := by
    rw [lit_disposition]; nf
  rw [hshape]
  have hpc := parseCD_params w name filename
  generalize hP : (59 :: 32 :: (nameKey ++ 61 :: (Spec.quote name ++
        (if filename.isEmpty && !w then [] else Spec.litFilename ++ Spec.quote filename)))) = params at hpc ⊢
  have hhead : ∀ y ys, params = y :: ys → tokenChar y = false := by
    intro y ys e; rw [← hP] at e; cases e; decide
  unfold processLine
  have hD0 : skipWs (Dname ++ 58 :: 32 :: (formData ++ params)) = Dname ++ 58 :: 32 :: (formData ++ params) := by
    show skipWs (67 :: _) = _
    exact skipWs_id 67 _ (by decide) (by decide)
  simp only [hD0, tokenSpan_eq Dname (58 :: 32 :: (formData ++ params)) hD (by intro y ys e; cases e; decide),
    skipWs_id 58 (32 :: (formData ++ params)) (by decide) (by decide),
    bne_self_eq_false, Bool.false_eq_true, if_false, skipWs_blank]
  have hF0 : skipWs (formData ++ params) = formData ++ params := by
    show skipWs (102 :: _) = _
    exact skipWs_id 102 _ (by decide) (by decide)
  simp only [hF0, hcD, if_true, tokenSpan_eq formData params hFD hhead, hcFD, Bool.not_true, Bool.false_eq_true, if_false]
  exact hpc

theorem mediaType_wf (m : Bytes) (h : Spec.WFmime m) : mediaType m = m := by
  obtain ⟨t, s, rfl, ht, hs, hall⟩ := h
  have htok : ∀ x ∈ t, tokenChar x = true := fun x hx => (spec_token x (hall x (by simp [hx])).1).1
  have hstok : ∀ x ∈ s, tokenChar x = true := fun x hx => (spec_token x (hall x (by simp [hx])).1).1
  have hlt : lower t = t := lower_list_id t (fun x hx => (hall x (by simp [hx])).2)
  have hls : lower s = s := lower_list_id s (fun x hx => (hall x (by simp [hx])).2)
  cases t with
  | nil => exact absurd rfl ht
  | cons t0 ts =>
    have h0 := spec_token t0 (hall t0 (by simp)).1
    have hsk : skipWs (t0 :: ts ++ [47] ++ s) = t0 :: ts ++ [47] ++ s := skipWs_id t0 _ h0.2.1 h0.2.2.1
    have hsp : tokenSpan (t0 :: ts ++ [47] ++ s) = (t0 :: ts, 47 :: s) := by
      rw [List.append_assoc]
      exact tokenSpan_eq (t0 :: ts) (47 :: s) htok (by intro y ys e; cases e; decide)
    have hsp2 : tokenSpan s = (s, []) := by
      have := tokenSpan_eq s [] hstok (by intro y ys e; cases e)
      simpa using this
    have hse : s.isEmpty = false := by cases s <;> simp_all
    unfold mediaType mediaTypeRest
    simp only [hsk, hsp, hsp2, hse, List.isEmpty_cons, Bool.false_eq_true, if_false, bne_self_eq_false, hlt, hls]
    simp

/-- the Content-Type line -/
theorem processLine_contentType (mime : Bytes) (hw : Spec.WFmime mime) (m : Meta) :
    processLine (Spec.litContentType ++ mime) m = some { m with mime := mime } := by
  obtain ⟨_, _, _, _, _, _, _, _, _, hCT, _, _, hc1, hc2, _⟩ := key_facts
  have hmt := mediaType_wf mime hw
  obtain ⟨t, s, rfl, ht, _, hall⟩ := hw
  cases t with
  | nil => exact absurd rfl ht
  | cons t0 ts =>
    have h0 := spec_token t0 (hall t0 (by simp)).1
    generalize hM : t0 :: ts ++ [47] ++ s = M at hmt ⊢
    have hMsk : skipWs M = M := by rw [← hM]; exact skipWs_id t0 _ h0.2.1 h0.2.2.1
    have hshape : Spec.litContentType ++ M = CTname ++ 58 :: 32 :: M := by rw [lit_contentType]; nf
    rw [hshape]
    unfold processLine
    have hC0 : skipWs (CTname ++ 58 :: 32 :: M) = CTname ++ 58 :: 32 :: M := by
      show skipWs (67 :: _) = _
      exact skipWs_id 67 _ (by decide) (by decide)
    simp only [hC0, tokenSpan_eq CTname (58 :: 32 :: M) hCT (by intro y ys e; cases e; decide),
      skipWs_id 58 (32 :: M) (by decide) (by decide),
      bne_self_eq_false, Bool.false_eq_true, if_false, skipWs_blank, hc1, hc2, if_true, hMsk, hmt]

/-! ## the whole block -/

def metaOf (p : Part) : Meta := { name := p.name, filename := p.filename, mime := p.mime }

theorem wfmime_no_cr (m : Bytes) (h : Spec.WFmime m) : (13 : UInt8) ∉ m := by
  obtain ⟨t, s, rfl, _, _, hall⟩ := h
  intro hm
  simp only [List.mem_append, List.mem_singleton] at hm
  rcases hm with (h1 | h1) | h1
  · exact (spec_token 13 (hall 13 (by simp [h1])).1).2.2.1 rfl
  · exact absurd h1 (by decide)
  · exact (spec_token 13 (hall 13 (by simp [h1])).1).2.2.1 rfl

theorem encodeHeaderW_headerOK (w : Bool) (bkey : Bytes) (p : Part) (hw : Spec.WFpart bkey p) :
    headerOK (Spec.encodeHeaderW w p) (metaOf p) = true := by
  obtain ⟨hnames, hmime, _⟩ := hw
  obtain ⟨_, _, _, _, _, _, _, _, _, _, _, _, _, _, hD13, hF13, hC13⟩ := key_facts
  have hn : ∀ c ∈ p.name, c ≠ 13 ∧ c ≠ 10 := fun c hc => hnames c (by simp [hc])
  have hf : ∀ c ∈ p.filename, c ≠ 13 ∧ c ≠ 10 := fun c hc => hnames c (by simp [hc])
  -- line 1
  generalize hL1 : Spec.litDisposition ++ Spec.quote p.name ++
      (if p.filename.isEmpty && !w then [] else Spec.litFilename ++ Spec.quote p.filename) = L1
  have hL1cr : (13 : UInt8) ∉ L1 := by
    rw [← hL1]
    intro hm
    simp only [List.mem_append] at hm
    rcases hm with (h1 | h1) | h1
    · exact hD13 h1
    · exact quote_no_cr _ hn h1
    · split at h1
      · simp at h1
      · simp only [List.mem_append] at h1
        rcases h1 with h2 | h2
        · exact hF13 h2
        · exact quote_no_cr _ hf h2
  have hL1ne : L1 ≠ [] := by rw [← hL1, lit_disposition]; simp [Dname, ofNats, Gen.hdrDisposition]
  have hP1 : processLine L1 {} = some { name := p.name, filename := p.filename, mime := [] } := by
    rw [← hL1]; exact processLine_disposition w p.name p.filename
  have hL1e : L1.isEmpty = false := by cases L1 <;> simp_all
  unfold headerOK
  by_cases hm : p.mime = []
  · -- no Content-Type line
    have hshape : Spec.encodeHeaderW w p = L1 ++ 13 :: 10 :: [13, 10] := by
      unfold Spec.encodeHeaderW
      simp only [hm, List.isEmpty_nil, if_true, List.append_nil, Spec.crlf]
      rw [← hL1]; simp [List.append_assoc]
    rw [hshape]
    have hscan : hdrEndsAt 0 (L1 ++ 13 :: 10 :: [13, 10]) = true := by
      rw [hdrEndsAt_nocr L1 _ hL1cr (by simp)]; exact hdrEndsAt_final
    have hph : processHeader (L1 ++ 13 :: 10 :: [13, 10]) = some (metaOf p) := by
      unfold processHeader
      obtain ⟨n, hn'⟩ : ∃ n, (L1 ++ 13 :: 10 :: [13, 10]).length = n + 2 := ⟨L1.length + 2, by simp⟩
      rw [hn', processHeaderLoop_succ _ _ _ (by simp), findCRLF_nocr L1 _ hL1cr]
      simp only [hL1e, Bool.false_eq_true, if_false, hP1]
      rw [processHeaderLoop_succ _ _ _ (by simp)]
      simp [findCRLF, metaOf, hm]
    simp [hscan, hph]
  · -- with a Content-Type line
    have hwm : Spec.WFmime p.mime := by rcases hmime with h | h; exact absurd h hm; exact h
    have hme : p.mime.isEmpty = false := by cases hp : p.mime <;> simp_all
    generalize hL2 : Spec.litContentType ++ p.mime = L2
    have hL2cr : (13 : UInt8) ∉ L2 := by
      rw [← hL2]; intro h1
      simp only [List.mem_append] at h1
      rcases h1 with h2 | h2
      · exact hC13 h2
      · exact wfmime_no_cr _ hwm h2
    have hP2 : processLine L2 { name := p.name, filename := p.filename, mime := [] } = some (metaOf p) := by
      rw [← hL2, processLine_contentType p.mime hwm]; rfl
    obtain ⟨c2, l2, hL2s⟩ : ∃ c l, L2 = c :: l := by
      rw [← hL2, lit_contentType]; exact ⟨67, _, rfl⟩
    have hc2 : c2 ≠ 13 := fun e => hL2cr (by rw [hL2s, e]; exact List.mem_cons_self)
    have hl2 : (13 : UInt8) ∉ l2 := fun e => hL2cr (by rw [hL2s]; exact List.mem_cons_of_mem _ e)
    have hL2e : L2.isEmpty = false := by rw [hL2s]; rfl
    have hshape : Spec.encodeHeaderW w p = L1 ++ 13 :: 10 :: (L2 ++ 13 :: 10 :: [13, 10]) := by
      unfold Spec.encodeHeaderW
      simp only [hme, Bool.false_eq_true, if_false, Spec.crlf]
      rw [← hL1, ← hL2]; simp [List.append_assoc]
    rw [hshape]
    have hscan : hdrEndsAt 0 (L1 ++ 13 :: 10 :: (L2 ++ 13 :: 10 :: [13, 10])) = true := by
      rw [hdrEndsAt_nocr L1 _ hL1cr (by simp), hL2s]
      exact hdrEndsAt_line c2 l2 hc2 hl2
    have hph : processHeader (L1 ++ 13 :: 10 :: (L2 ++ 13 :: 10 :: [13, 10])) = some (metaOf p) := by
      unfold processHeader
      obtain ⟨n, hn'⟩ : ∃ n, (L1 ++ 13 :: 10 :: (L2 ++ 13 :: 10 :: [13, 10])).length = n + 3 :=
        ⟨L1.length + L2.length + 3, by simp; omega⟩
      rw [hn', processHeaderLoop_succ _ _ _ (by simp), findCRLF_nocr L1 _ hL1cr]
      simp only [hL1e, Bool.false_eq_true, if_false, hP1]
      rw [processHeaderLoop_succ _ _ _ (by simp), findCRLF_nocr L2 _ hL2cr]
      simp only [hL2e, Bool.false_eq_true, if_false, hP2]
      rw [processHeaderLoop_succ _ _ _ (by simp)]
      simp [findCRLF]
    simp [hscan, hph]

theorem encodeHeader_headerOK (bkey : Bytes) (p : Part) (hw : Spec.WFpart bkey p) :
    headerOK (Spec.encodeHeader p) (metaOf p) = true :=
  encodeHeaderW_headerOK false bkey p hw

end Cppcms.C12
