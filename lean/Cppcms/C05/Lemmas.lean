import Cppcms.C05.Model
import Cppcms.C05.Spec
import Cppcms.C15.Lemmas
/-! Helper lemmas for C05: wrap-around arithmetic, little-endian integers, bounded reads, the
constant-time comparison loop. -/
namespace Cppcms.C05
open Cppcms

/-! ### base64url round trip
(re-derived from `Cppcms.C15.Lemmas`, same proofs as `Cppcms.C15.Props.{b64encodeStr_eq,decode_writes_within,
b64_decode_encode}`, so that this property does not depend on C15's `Props` module) -/

theorem b64encodeStr_eq (s : Bytes) : C15.b64encodeStr s = C15.b64encode s := by
  unfold C15.b64encodeStr
  rw [C15.b64encode_length s]
  cases h : (C15.b64encode s).length with
  | zero => simp [List.eq_nil_of_length_eq_zero h]
  | succ n =>
    simp only
    rw [← h]
    simp

theorem decode_writes_within (t : Bytes) (m : Nat) (h : C15.Gen.decodedSize t.length = some m) :
    (C15.b64decodeRaw t).length = m := by
  fun_induction C15.b64decodeRaw t generalizing m with
  | case1 w x y z rest ih =>
    have hd : ∃ m', C15.Gen.decodedSize rest.length = some m' ∧ m = m' + 3 := by
      unfold C15.Gen.decodedSize at h ⊢
      simp only [List.length_cons] at h
      have : rest.length % 4 = 0 ∨ rest.length % 4 = 1 ∨ rest.length % 4 = 2 ∨ rest.length % 4 = 3 := by omega
      have e1 : (rest.length + 1 + 1 + 1 + 1) % 4 = rest.length % 4 := by omega
      have e2 : (rest.length + 1 + 1 + 1 + 1) / 4 = rest.length / 4 + 1 := by omega
      rw [e1, e2] at h
      rcases this with k | k | k | k <;> simp [k] at h ⊢ <;> omega
    obtain ⟨m', h', rfl⟩ := hd
    simp [C15.dec4, C15.ofNats, ih m' h']
  | case2 w x y => simp [C15.Gen.decodedSize] at h; simp [C15.dec3, C15.ofNats, ← h]
  | case3 w x => simp [C15.Gen.decodedSize] at h; simp [C15.dec2, C15.ofNats, ← h]
  | case4 w => simp [C15.Gen.decodedSize] at h
  | case5 => simp [C15.Gen.decodedSize] at h; simp [← h]

theorem b64_decode_encode (s : Bytes) : C15.b64decode (C15.b64encodeStr s) [] = some s := by
  rw [b64encodeStr_eq]
  have hraw := C15.b64decodeRaw_b64encode s
  unfold C15.b64decode
  cases hd : C15.Gen.decodedSize (C15.b64encode s).length with
  | none =>
    exfalso
    have := C15.b64encode_length' s
    unfold C15.Gen.decodedSize at hd
    unfold C15.encLen at this
    split at hd
    · rename_i h4; simp at h4; split at this <;> omega
    · split at hd <;> (try split at hd) <;> simp at hd
  | some m =>
    have hm := decode_writes_within _ m hd
    rw [hraw] at hm
    cases m with
    | zero => simp [List.eq_nil_of_length_eq_zero hm]
    | succ k => simp only [hraw]; rw [← hm]; simp

/-! ### size_t arithmetic -/

theorem wsub_eq {a b : Nat} (h : b ≤ a) (_ha : a < 2 ^ 64) : Gen.wsub a b = a - b := by
  unfold Gen.wsub
  rw [if_pos h]

/-! ### little-endian integers -/

theorem leBytes_length (k n : Nat) : (leBytes k n).length = k := by
  induction k generalizing n with
  | zero => rfl
  | succ k ih => simp [leBytes, ih]

theorem leVal_leBytes (k n : Nat) : leVal (leBytes k n) = n % 256 ^ k := by
  induction k generalizing n with
  | zero => simp [leBytes, leVal, Nat.mod_one]
  | succ k ih =>
    have h1 : (UInt8.ofNat (n % 256)).toNat = n % 256 := by
      rw [UInt8.toNat_ofNat']; omega
    simp only [leBytes, leVal, ih, h1]
    rw [Nat.pow_succ, Nat.mul_comm (256 ^ k) 256, Nat.mod_mul]

theorem leVal_eq_spec (b : Bytes) : leVal b = Spec.le b := by
  induction b with
  | nil => rfl
  | cons x r ih => simp [leVal, Spec.le, ih]

theorem leVal_lt (b : Bytes) : leVal b < 256 ^ b.length := by
  induction b with
  | nil => simp [leVal]
  | cons x r ih =>
    simp only [leVal, List.length_cons, Nat.pow_succ]
    have := x.toNat_lt
    omega

/-! ### bounded reads -/

theorem rd_some {b : Bytes} {off len : Nat} (h : off + len ≤ b.length) :
    rd b off len = some ((b.drop off).take len) := by
  simp [rd, h]

theorem rd_eq_some {b : Bytes} {off len : Nat} {r : Bytes} (h : rd b off len = some r) :
    off + len ≤ b.length ∧ r = (b.drop off).take len := by
  unfold rd at h
  split at h
  · simp at h; exact ⟨by assumption, h.symm⟩
  · simp at h

theorem rd_zero_eq_some {b : Bytes} {len : Nat} {r : Bytes} (h : rd b 0 len = some r) :
    len ≤ b.length ∧ r = b.take len := by
  have := rd_eq_some h
  simpa using this

/-! ### hmac_cipher::equal -/

theorem gen_eq_consts : Gen.eqStart = 0 ∧ Gen.eqDiff0 = 0 ∧ (∀ i n, Gen.eqCont i n = decide (i < n)) ∧
    (∀ d, Gen.eqRet d = decide (d = 0)) := by
  refine ⟨rfl, rfl, fun _ _ => rfl, fun d => ?_⟩
  simp [Gen.eqRet]

theorem equalLoop_spec (a b : Bytes) (n : Nat) (ha : n ≤ a.length) (hb : n ≤ b.length) :
    ∀ fuel i diff, i ≤ n → n - i < fuel →
      ∃ d, equalLoop a b n fuel i diff = .ok d ∧
        (d = 0 ↔ diff = 0 ∧ ∀ j, i ≤ j → j < n → a[j]? = b[j]?) := by
  intro fuel
  induction fuel with
  | zero => intro i diff _ h; omega
  | succ fuel ih =>
    intro i diff hi hf
    unfold equalLoop
    rw [gen_eq_consts.2.2.1]
    by_cases hlt : i < n
    · have hia : i < a.length := by omega
      have hib : i < b.length := by omega
      simp only [hlt, decide_true, if_true, List.getElem?_eq_getElem hia, List.getElem?_eq_getElem hib]
      obtain ⟨d, hd, hiff⟩ := ih (i + 1) (if a[i] ≠ b[i] then diff + 1 else diff) (by omega) (by omega)
      refine ⟨d, hd, ?_⟩
      rw [hiff]
      constructor
      · rintro ⟨h0, hall⟩
        have hxy : a[i] = b[i] := by
          by_cases h : a[i] = b[i]
          · exact h
          · simp [h] at h0
        refine ⟨by simpa [hxy] using h0, ?_⟩
        intro j hj hjn
        by_cases hji : j = i
        · subst hji; simp [List.getElem?_eq_getElem hia, List.getElem?_eq_getElem hib, hxy]
        · exact hall j (by omega) hjn
      · rintro ⟨h0, hall⟩
        have := hall i (Nat.le_refl _) hlt
        simp [List.getElem?_eq_getElem hia, List.getElem?_eq_getElem hib] at this
        exact ⟨by simp [this, h0], fun j hj hjn => hall j (by omega) hjn⟩
    · simp only [hlt, decide_false]
      refine ⟨diff, by simp, ?_⟩
      constructor
      · intro h; exact ⟨h, fun j hj hjn => by omega⟩
      · intro h; exact h.1

theorem take_eq_take_iff (a b : Bytes) (n : Nat) :
    a.take n = b.take n ↔ ∀ j, j < n → a[j]? = b[j]? := by
  constructor
  · intro h j hj
    have := congrArg (fun l => l[j]?) h
    simpa [List.getElem?_take, hj] using this
  · intro h
    apply List.ext_getElem?
    intro j
    by_cases hj : j < n
    · simp [hj, h j hj]
    · simp [List.getElem?_take, hj]

/-- `equal(a,b,n)` with both buffers holding at least `n` bytes: never reads out of bounds and is
true exactly when ALL `n` bytes agree -/
theorem equal_spec (a b : Bytes) (n : Nat) (ha : n ≤ a.length) (hb : n ≤ b.length) :
    equal a b n = .ok (decide (a.take n = b.take n)) := by
  unfold equal
  obtain ⟨d, hd, hiff⟩ := equalLoop_spec a b n ha hb (n + 1) 0 0 (by omega) (by omega)
  rw [gen_eq_consts.1, gen_eq_consts.2.1, hd]
  simp only [gen_eq_consts.2.2.2]
  congr 1
  rw [decide_eq_decide, hiff, take_eq_take_iff]
  simp

/-! ### primitives' contracts -/

/-- `readout` writes exactly `digest_size()` bytes -/
def MacAlg.Lawful (M : MacAlg) : Prop := ∀ k m, (M.tag k m).length = M.size

/-- contract of `crypto::cbc` (AES-CBC): block size as in the source, length preserving, and decryption
under ANY IV recovers everything but the first block of what was encrypted (proved for CBC over a block
permutation in C16; here a hypothesis) -/
structure CbcAlg.Lawful (C : CbcAlg) : Prop where
  block_eq : C.block = Gen.cbcBlock
  enc_len : ∀ k iv x, (C.enc k iv x).length = x.length
  dec_len : ∀ k iv x, (C.dec k iv x).length = x.length
  dec_enc : ∀ k iv iv' x, C.block ∣ x.length →
    (C.dec k iv' (C.enc k iv x)).drop C.block = x.drop C.block

/-! ### hmac_cipher -/

/-- closed form of `hmac_cipher::decrypt` for every cipher text of representable length -/
theorem hmacDecrypt_closed (M : MacAlg) (hM : M.Lawful) (k c : Bytes) (hc : c.length < 2 ^ 64) :
    hmacDecrypt M k c =
      if c.length < M.size then .fail
      else if M.tag k (c.take (c.length - M.size)) = c.drop (c.length - M.size)
        then .ok (c.take (c.length - M.size)) else .fail := by
  unfold hmacDecrypt
  have hrej : Gen.hmacDecReject c.length M.size = decide (c.length < M.size) := rfl
  by_cases hlt : c.length < M.size
  · rw [if_pos (by rw [hrej]; simpa using hlt), if_pos hlt]
  · have hle : M.size ≤ c.length := by omega
    have hms : Gen.hmacMsgSize c.length M.size = c.length - M.size := wsub_eq hle hc
    rw [if_neg (by rw [hrej]; simpa using hlt), if_neg hlt]
    simp only [hms]
    rw [rd_some (by simp)]
    simp only [List.drop_zero]
    have hl1 : M.size ≤ (M.tag k (c.take (c.length - M.size))).length := by rw [hM]; exact Nat.le_refl _
    have hl2 : M.size ≤ (c.drop (c.length - M.size)).length := by simp; omega
    rw [equal_spec _ _ _ hl1 hl2]
    have e1 : (M.tag k (c.take (c.length - M.size))).take M.size = M.tag k (c.take (c.length - M.size)) :=
      List.take_of_length_le (by rw [hM]; exact Nat.le_refl _)
    have e2 : (c.drop (c.length - M.size)).take M.size = c.drop (c.length - M.size) :=
      List.take_of_length_le (by simp; omega)
    rw [e1, e2]
    by_cases he : M.tag k (c.take (c.length - M.size)) = c.drop (c.length - M.size)
    · simp [he]
    · simp [he]

/-! ### aes_cipher -/

theorem gen_block : Gen.cbcBlock = 16 := rfl

theorem zeros_length (n : Nat) : (zeros n).length = n := by simp [zeros]

/-- the buffer `full_plain` of `aes_cipher::decrypt` after `cbc_->decrypt(cipher, full_plain, (unsigned)real_size)` -/
def aesFull (C : CbcAlg) (ckey iv c : Bytes) (real : Nat) : Bytes :=
  C.dec ckey iv (c.take (real % two32)) ++ zeros (real - real % two32)

def aesIvDecAfter (C : CbcAlg) (st : AesSt) (c : Bytes) (real : Nat) : AesSt :=
  if real % two32 = 0 then st else { st with ivDec := lastBlock C.block (c.take (real % two32)) }

theorem gen_slots : Gen.cbcEncIvSlot = 0 ∧ Gen.cbcDecIvSlot = 1 := ⟨rfl, rfl⟩

theorem get_enc_slot (st : AesSt) : st.get Gen.cbcEncIvSlot = st.ivEnc := rfl
theorem get_dec_slot (st : AesSt) : st.get Gen.cbcDecIvSlot = st.ivDec := rfl
theorem set_enc_slot (st : AesSt) (v : Bytes) : st.set Gen.cbcEncIvSlot v = { st with ivEnc := v } := rfl
theorem set_dec_slot (st : AesSt) (v : Bytes) : st.set Gen.cbcDecIvSlot v = { st with ivDec := v } := rfl

/-- closed form of `aes_cipher::decrypt` for every cipher text of representable length: no `ub` branch is
left, the MAC is checked over all of `c.take (|c| - digest)` (at least two whole blocks) before anything is
decrypted, and the payload is what `Spec.aesPayload` says -/
theorem aesDecrypt_closed (C : CbcAlg) (M : MacAlg) (hC : C.Lawful) (hM : M.Lawful) (ck mk : Bytes) (st : AesSt)
    (c : Bytes) (hc : c.length < 2 ^ 64) (hds : M.size < 2 ^ 32) :
    aesDecrypt C M ck mk st c =
      if c.length < M.size + 16 then (.fail, st)
      else if (c.length - M.size) % 16 ≠ 0 then (.fail, st)
      else if (c.length - M.size) / 16 < 2 then (.fail, st)
      else if M.tag mk (c.take (c.length - M.size)) ≠ c.drop (c.length - M.size) then (.fail, st)
      else
        (match Spec.aesPayload 16 (aesFull C ck st.ivDec c (c.length - M.size)) with
          | some p => .ok p
          | none => .fail,
         aesIvDecAfter C st c (c.length - M.size)) := by
  have hb : C.block = 16 := hC.block_eq
  unfold aesDecrypt
  rw [hb]
  simp only [get_dec_slot, set_dec_slot]
  have h1 : Gen.aesDecReject1 c.length M.size 16 = decide (c.length < M.size + 16) := rfl
  by_cases hlt : c.length < M.size + 16
  · rw [if_pos (by rw [h1]; simpa using hlt), if_pos hlt]
  · have hle : M.size ≤ c.length := by omega
    have hreal : Gen.aesRealSize c.length M.size = c.length - M.size := wsub_eq hle hc
    rw [if_neg (by rw [h1]; simpa using hlt), if_neg hlt]
    simp only [hreal]
    rw [if_neg (by decide)]
    generalize hr : c.length - M.size = real
    have hrl : real ≤ c.length := by omega
    have hr16 : 16 ≤ real := by omega
    have h2 : Gen.aesDecReject2 real 16 = true ↔ real % 16 ≠ 0 := by simp [Gen.aesDecReject2]
    by_cases hm : real % 16 ≠ 0
    · rw [if_pos (h2.2 hm), if_pos hm]
    · rw [if_neg (by rw [h2]; exact hm), if_neg hm]
      have h3 : Gen.aesDecReject3 real 16 = decide (real / 16 < 2) := rfl
      by_cases hq : real / 16 < 2
      · rw [if_pos (by rw [h3]; simpa using hq), if_pos hq]
      · rw [if_neg (by rw [h3]; simpa using hq), if_neg hq]
        have hr32 : 32 ≤ real := by omega
        rw [rd_some (by simpa using hrl)]
        simp only [List.drop_zero]
        have hl1 : M.size ≤ (M.tag mk (c.take real)).length := by rw [hM]; exact Nat.le_refl _
        have hl2 : M.size ≤ (c.drop real).length := by simp; omega
        rw [equal_spec _ _ _ hl1 hl2]
        have e1 : (M.tag mk (c.take real)).take M.size = M.tag mk (c.take real) :=
          List.take_of_length_le (by rw [hM]; exact Nat.le_refl _)
        have e2 : (c.drop real).take M.size = c.drop real :=
          List.take_of_length_le (by simp; omega)
        rw [e1, e2]
        by_cases he : M.tag mk (c.take real) = c.drop real
        · have hne : ¬ (M.tag mk (c.take real) ≠ c.drop real) := by simpa using he
          rw [if_neg hne]
          simp only [he, decide_true]
          have hn : real % two32 ≤ c.length := by
            have : real % two32 ≤ real := Nat.mod_le _ _
            omega
          rw [rd_some (by simpa using hn)]
          simp only [List.drop_zero]
          have hfl : (aesFull C ck st.ivDec c real).length = real := by
            unfold aesFull
            rw [List.length_append, hC.dec_len, zeros_length, List.length_take]
            have : real % two32 ≤ real := Nat.mod_le _ _
            omega
          have hfull : C.dec ck st.ivDec (c.take (real % two32)) ++ zeros (real - real % two32)
              = aesFull C ck st.ivDec c real := rfl
          rw [hfull]
          have hoff : Gen.aesDecLenOff 16 = 16 := rfl
          have hdoff : Gen.aesDecDataOff 16 = 20 := rfl
          rw [hoff, hdoff]
          rw [rd_some (by rw [hfl]; omega)]
          simp only []
          have h4 : ∀ size, Gen.aesDecReject4 size real 16 = decide (size > real - 16 - 4) := by
            intro size
            have e : Gen.wsub (Gen.wsub real 16) 4 = real - 16 - 4 := by
              have e0 : Gen.wsub real 16 = real - 16 := wsub_eq (by omega) (by omega)
              rw [e0, wsub_eq (by omega) (by omega)]
            show decide (size > Gen.wsub (Gen.wsub real 16) 4) = _
            rw [e]
          rw [h4]
          unfold Spec.aesPayload
          rw [← leVal_eq_spec]
          simp only [hfl]
          generalize hsz : leVal (List.take 4 (List.drop 16 (aesFull C ck st.ivDec c real))) = size
          by_cases hbig : size > real - 16 - 4
          · have : ¬ (16 + 4 + size ≤ real) := by omega
            simp [hbig, this, aesIvDecAfter, hb]
          · have hin : 16 + 4 + size ≤ real := by omega
            rw [if_neg (by simpa using hbig)]
            rw [rd_some (by rw [hfl]; omega)]
            simp [hin, aesIvDecAfter, hb]
        · have hne : M.tag mk (c.take real) ≠ c.drop real := he
          rw [if_pos hne]
          simp [he]

/-! ### aes_cipher::encrypt -/

theorem zeros_add (m n : Nat) : zeros (m + n) = zeros m ++ zeros n := by
  simp [zeros, List.replicate_append_replicate]

theorem wr_mid (a x b data : Bytes) (h : data.length = x.length) :
    wr (a ++ x ++ b) a.length data = some (a ++ data ++ b) := by
  unfold wr
  have hc : a.length + data.length ≤ (a ++ x ++ b).length := by simp [h]
  rw [if_pos hc]
  have e1 : (a ++ x ++ b).take a.length = a := by simp
  have e2 : (a ++ x ++ b).drop (a.length + data.length) = b := by
    rw [h, List.append_assoc, List.drop_append]
    simp
  rw [e1, e2]

/-- size of the CBC text for a payload of `n` bytes: dummy block + ⌈(n+4)/16⌉ blocks -/
def aesBuf (n : Nat) : Nat := (n + 19) / 16 * 16 + 16

/-- the framed plaintext: dummy block, little-endian `uint32` length, payload, zero padding -/
def aesFrame (plain : Bytes) : Bytes :=
  zeros 16 ++ leBytes 4 plain.length ++ plain ++ zeros (aesBuf plain.length - 20 - plain.length)

theorem aesFrame_length (plain : Bytes) : (aesFrame plain).length = aesBuf plain.length := by
  simp [aesFrame, zeros_length, leBytes_length, aesBuf]
  omega

theorem aesInput_closed (C : CbcAlg) (hb : C.block = 16) (plain : Bytes) (hp : plain.length < 2 ^ 32) :
    aesInput C plain = some (aesFrame plain) := by
  unfold aesInput
  rw [hb]
  have hsz : plain.length % 2 ^ Gen.aesLenBits = plain.length := Nat.mod_eq_of_lt hp
  simp only [hsz]
  have hw : Gen.wsub 16 1 = 15 := wsub_eq (by omega) (by omega)
  have hbuf : Gen.aesEncBufSize plain.length 16 = aesBuf plain.length := by
    show (plain.length + 4 + Gen.wsub 16 1) / 16 * 16 + 16 = _
    rw [hw]; rfl
  have hlo : Gen.aesEncLenOff 16 = 16 := rfl
  have hdo : Gen.aesEncDataOff 16 = 20 := rfl
  rw [hbuf, hlo, hdo]
  have hz : zeros (aesBuf plain.length) = zeros 16 ++ zeros 4 ++ zeros (aesBuf plain.length - 20) := by
    rw [← zeros_add, ← zeros_add]; congr 1; unfold aesBuf; omega
  have h16 : (zeros 16).length = 16 := zeros_length 16
  have w1 := wr_mid (zeros 16) (zeros 4) (zeros (aesBuf plain.length - 20)) (leBytes 4 plain.length)
    (by rw [leBytes_length, zeros_length])
  rw [h16] at w1
  rw [hz, w1]
  simp only []
  have hz2 : zeros (aesBuf plain.length - 20) = zeros plain.length ++ zeros (aesBuf plain.length - 20 - plain.length) := by
    rw [← zeros_add]; congr 1; unfold aesBuf; omega
  have h20 : (zeros 16 ++ leBytes 4 plain.length).length = 20 := by simp [zeros_length, leBytes_length]
  have w2 := wr_mid (zeros 16 ++ leBytes 4 plain.length) (zeros plain.length)
    (zeros (aesBuf plain.length - 20 - plain.length)) plain (by rw [zeros_length])
  rw [h20] at w2
  rw [hz2, ← List.append_assoc, w2]
  rfl

theorem aesBuf_facts (n : Nat) : 16 ∣ aesBuf n ∧ 32 ≤ aesBuf n ∧ n + 20 ≤ aesBuf n ∧ aesBuf n ≤ n + 35 := by
  unfold aesBuf
  refine ⟨?_, by omega, by omega, by omega⟩
  exact ⟨(n + 19) / 16 + 1, by omega⟩

/-- closed form of `aes_cipher::encrypt` for payloads below 4 GiB: `E(frame) ‖ Mac(E(frame))`, IV chained -/
theorem aesEncrypt_closed (C : CbcAlg) (M : MacAlg) (hC : C.Lawful) (ck mk : Bytes) (st : AesSt) (plain : Bytes)
    (hp : plain.length + 36 ≤ 2 ^ 32) :
    aesEncrypt C M ck mk st plain =
      (.ok (C.enc ck st.ivEnc (aesFrame plain) ++ M.tag mk (C.enc ck st.ivEnc (aesFrame plain))),
       { st with ivEnc := lastBlock 16 (C.enc ck st.ivEnc (aesFrame plain)) }) := by
  have hb : C.block = 16 := hC.block_eq
  unfold aesEncrypt
  rw [if_neg (by rw [hb]; decide), aesInput_closed C hb plain (by omega)]
  simp only []
  have hl := aesFrame_length plain
  have hf := aesBuf_facts plain.length
  have hn : (aesFrame plain).length % two32 = (aesFrame plain).length := by
    apply Nat.mod_eq_of_lt; rw [hl]; unfold two32; omega
  rw [hn, hb]
  have hne : ¬ (aesFrame plain).length = 0 := by rw [hl]; omega
  simp [hne, zeros, get_enc_slot, set_enc_slot]

/-! ### time_t encoding -/

theorem pow256_8 : 256 ^ 8 = 18446744073709551616 := by decide

theorem timeVal_eq_spec (b : Bytes) : timeVal b = Spec.signed64 (Spec.le b) := by
  unfold timeVal Spec.signed64 two64
  rw [← leVal_eq_spec]
  have e63 : (2 : Int) ^ 63 = 9223372036854775808 := by decide
  have e64 : (2 : Int) ^ 64 = 18446744073709551616 := by decide
  have n63 : (2 : Nat) ^ 63 = 9223372036854775808 := by decide
  simp only [e64, n63]
  by_cases h : leVal b < 9223372036854775808
  · have h' : ((leVal b : Nat) : Int) < 9223372036854775808 := by omega
    simp [h, h']
  · have h' : ¬ ((leVal b : Nat) : Int) < 9223372036854775808 := by omega
    simp [h, h']

theorem timeBytes_length (t : Int) : (timeBytes t).length = 8 := leBytes_length _ _

theorem timeVal_timeBytes (t : Int) (ht : Spec.TimeOk t) : timeVal (timeBytes t) = t := by
  unfold timeVal timeBytes
  rw [leVal_leBytes, pow256_8]
  unfold Spec.TimeOk at ht
  have e63 : (2 : Int) ^ 63 = 9223372036854775808 := by decide
  rw [e63] at ht
  unfold two64
  simp only []
  omega



/-- if a buffer of the right size agrees with the frame of `p` after the dummy block, the framing
yields `p` -/
theorem aesPayload_frame (p full : Bytes) (hp : p.length < 2 ^ 32) (hl : full.length = aesBuf p.length)
    (hd : full.drop 16 = (aesFrame p).drop 16) : Spec.aesPayload 16 full = some p := by
  have hf := aesBuf_facts p.length
  have hfd : (aesFrame p).drop 16 = leBytes 4 p.length ++ p ++ zeros (aesBuf p.length - 20 - p.length) := by
    unfold aesFrame
    rw [List.append_assoc, List.append_assoc, List.drop_left' (zeros_length 16), ← List.append_assoc]
  rw [hfd] at hd
  unfold Spec.aesPayload
  have h4 : (full.drop 16).take 4 = leBytes 4 p.length := by
    rw [hd, List.append_assoc, List.take_left' (leBytes_length 4 p.length)]
  have hlen : Spec.le ((full.drop 16).take 4) = p.length := by
    rw [h4, ← leVal_eq_spec, leVal_leBytes]
    apply Nat.mod_eq_of_lt
    have : (256 : Nat) ^ 4 = 2 ^ 32 := by decide
    omega
  simp only [hlen]
  rw [if_pos (by omega)]
  have h20 : full.drop (16 + 4) = p ++ zeros (aesBuf p.length - 20 - p.length) := by
    rw [← List.drop_drop, hd, List.append_assoc, List.drop_left' (leBytes_length 4 p.length)]
  rw [h20, List.take_left' rfl]



theorem two32_eq : two32 = 2 ^ 32 := by decide

/-- for cipher texts below 4 GiB the `unsigned` length conversion is the identity: `full_plain` is the CBC
decryption of the whole authenticated body -/
theorem aesFull_small (C : CbcAlg) (ck iv c : Bytes) (real : Nat) (h : real < 2 ^ 32) :
    aesFull C ck iv c real = C.dec ck iv (c.take real) := by
  unfold aesFull
  have : real % two32 = real := Nat.mod_eq_of_lt (by rw [two32_eq]; exact h)
  rw [this]
  simp [zeros]

theorem aes_roundtrip_core (C : CbcAlg) (M : MacAlg) (hC : C.Lawful) (hM : M.Lawful) (hds : M.size < 2 ^ 32)
    (ck mk : Bytes) (st st2 : AesSt) (p : Bytes) (hp : p.length + 36 ≤ 2 ^ 32) :
    ∃ c st', aesEncrypt C M ck mk st p = (.ok c, st') ∧
      c = C.enc ck st.ivEnc (aesFrame p) ++ M.tag mk (C.enc ck st.ivEnc (aesFrame p)) ∧
      (aesDecrypt C M ck mk st2 c).1 = .ok p := by
  refine ⟨_, _, aesEncrypt_closed C M hC ck mk st p hp, rfl, ?_⟩
  generalize he : C.enc ck st.ivEnc (aesFrame p) = e
  have hel : e.length = aesBuf p.length := by rw [← he, hC.enc_len, aesFrame_length]
  have hf := aesBuf_facts p.length
  have hcl : (e ++ M.tag mk e).length = aesBuf p.length + M.size := by rw [List.length_append, hM, hel]
  rw [aesDecrypt_closed C M hC hM ck mk st2 _ (by rw [hcl]; omega) hds]
  have hsub : (e ++ M.tag mk e).length - M.size = e.length := by rw [hcl, hel]; omega
  rw [hsub]
  have htake : (e ++ M.tag mk e).take e.length = e := List.take_left' rfl
  have hdrop : (e ++ M.tag mk e).drop e.length = M.tag mk e := List.drop_left' rfl
  rw [htake, hdrop]
  obtain ⟨k16, hk16⟩ := hf.1
  rw [if_neg (by rw [hcl]; omega), if_neg (by rw [hel]; omega), if_neg (by rw [hel]; omega), if_neg (by simp)]
  simp only []
  rw [aesFull_small C ck st2.ivDec _ e.length (by rw [hel]; omega), htake]
  have hb : C.block = 16 := hC.block_eq
  have hdd := hC.dec_enc ck st.ivEnc st2.ivDec (aesFrame p) (by rw [hb, aesFrame_length]; exact hf.1)
  rw [hb, he] at hdd
  rw [aesPayload_frame p (C.dec ck st2.ivDec e) (by omega) (by rw [hC.dec_len, hel]) hdd]


/-! ### session_cookies -/

theorem gen_cookie_consts : Gen.cookieTag = 67 ∧ Gen.cookieSkip = 1 ∧ Gen.timeSize = 8 ∧ Gen.cookiePrefix = [67] ∧
    (∀ n, Gen.loadShort n = decide (n < 8)) ∧ (∀ t now, Gen.loadExpired t now = decide (t < now)) :=
  ⟨rfl, rfl, rfl, rfl, fun _ => rfl, fun _ _ => rfl⟩

/-- what `session_cookies::load` does once the cipher text has been decrypted to `tmp` -/
def afterDecrypt (now : Int) (tmp : Bytes) : LoadOut :=
  if tmp.length < 8 then ⟨.fail, true⟩
  else if timeVal (tmp.take 8) < now then ⟨.fail, true⟩
  else ⟨.ok (tmp.drop 8, timeVal (tmp.take 8)), false⟩

/-- closed form of `session_cookies::load`: no `ub` branch of the cookie layer itself is reachable -/
theorem cookieLoad_closed (dec : Bytes → Res Bytes) (now : Int) (cookie : Bytes) :
    cookieLoad dec now cookie =
      match cookie with
      | [] => ⟨.fail, false⟩
      | c0 :: rest =>
        if c0 ≠ 67 then ⟨.fail, true⟩
        else match C15.b64decode rest [] with
          | none => ⟨.fail, true⟩
          | some cipher =>
            match dec cipher with
            | .ub => ⟨.ub, false⟩
            | .fail => ⟨.fail, true⟩
            | .ok tmp => afterDecrypt now tmp := by
  obtain ⟨h1, h2, h3, _, h5, h6⟩ := gen_cookie_consts
  cases cookie with
  | nil => rfl
  | cons c0 rest =>
    unfold cookieLoad
    simp only [h1, h2, h3, h5, h6]
    by_cases hc : c0 = 67
    · subst hc
      simp only [List.drop_succ_cons, List.drop_zero, List.length_cons]
      rw [if_neg (by decide), if_neg (by omega), if_neg (by decide)]
      cases hb : C15.b64decode rest [] with
      | none => rfl
      | some cipher =>
        simp only []
        cases hd : dec cipher with
        | ub => rfl
        | fail => rfl
        | ok tmp =>
          simp only [afterDecrypt]
          by_cases hs : tmp.length < 8
          · simp [hs]
          · have h8 : 8 ≤ tmp.length := by omega
            simp only [hs, decide_false, Bool.false_eq_true, if_false]
            rw [rd_some (by simpa using h8)]
            simp only [List.drop_zero]
            by_cases he : timeVal (tmp.take 8) < now
            · simp [he]
            · simp only [he, decide_false, Bool.false_eq_true, if_false]
    · have hne : (c0.toNat != 67) = true := by
        simp only [bne_iff_ne, ne_eq]
        intro h; apply hc
        exact UInt8.toNat_inj.mp (by simpa using h)
      rw [if_pos hne, if_pos hc]


theorem afterDecrypt_spec (now : Int) (tmp : Bytes) :
    afterDecrypt now tmp =
      match Spec.decodeBody tmp with
      | none => ⟨.fail, true⟩
      | some (d, t) => if t < now then ⟨.fail, true⟩ else ⟨.ok (d, t), false⟩ := by
  unfold afterDecrypt Spec.decodeBody
  rw [timeVal_eq_spec]
  by_cases h : tmp.length < 8 <;> simp [h]

theorem cookieCipher_cons (c0 : UInt8) (rest : Bytes) :
    cookieCipher (c0 :: rest) = if c0 ≠ 67 then none else C15.b64decode rest [] := by
  obtain ⟨h1, h2, _, _, _, _⟩ := gen_cookie_consts
  unfold cookieCipher
  simp only [h1, h2]
  by_cases hc : c0 = 67
  · subst hc
    simp
  · have hne : (c0.toNat != 67) = true := by
      simp only [bne_iff_ne, ne_eq]
      intro h; apply hc
      exact UInt8.toNat_inj.mp (by simpa using h)
    rw [if_pos hne, if_pos hc]

theorem cookieSave_closed (enc : Bytes → Res Bytes) (t : Int) (d : Bytes) :
    cookieSave enc false t d =
      match enc (timeBytes t ++ d) with
      | .ok c => .ok (67 :: C15.b64encodeStr c)
      | .fail => .fail
      | .ub => .ub := by
  unfold cookieSave
  simp only [Bool.false_eq_true, if_false]
  cases enc (timeBytes t ++ d) <;> simp [gen_cookie_consts.2.2.2.1, C15.ofNats]

theorem decodeBody_time (t : Int) (d : Bytes) (ht : Spec.TimeOk t) :
    Spec.decodeBody (timeBytes t ++ d) = some (d, t) := by
  unfold Spec.decodeBody
  have hl : (timeBytes t).length = 8 := timeBytes_length t
  rw [if_neg (by rw [List.length_append, hl]; omega)]
  rw [List.take_left' hl, List.drop_left' hl, ← timeVal_eq_spec, timeVal_timeBytes t ht]

end Cppcms.C05
