import Cppcms.Common
/-!
# C05 specification side (independent of the model and of the generated conditions)

What a valid client-side session cookie *is*, stated directly on byte strings with ordinary `Nat`
arithmetic (no wrap-around, no offsets taken from the source), plus the executable property predicate the
check evaluates on the implementation's answers (`judgeLoad`).
-/
namespace Cppcms.C05.Spec
open Cppcms

/-- value of a little-endian byte string -/
def le (b : Bytes) : Nat := b.foldr (fun x acc => x.toNat + 256 * acc) 0

/-- a 64-bit pattern read as a signed integer (`time_t`) -/
def signed64 (n : Nat) : Int := if n < 2 ^ 63 then (n : Int) else (n : Int) - 2 ^ 64

/-- `time_t` range -/
def TimeOk (t : Int) : Prop := -(2 ^ 63) ≤ t ∧ t < 2 ^ 63

/-- `size_t` range (every `std::string` length satisfies it) -/
def SizeOk (n : Nat) : Prop := n < 2 ^ 64

/-- the authenticated plaintext of a session cookie: 8-byte `time_t` expiry, then the payload -/
def decodeBody (plain : Bytes) : Option (Bytes × Int) :=
  if plain.length < 8 then none else some (plain.drop 8, signed64 (le (plain.take 8)))

/-- hmac back-end: the cipher text is `body ‖ tag(body)`, the tag covering **all** of the body -/
def HmacValid (tag : Bytes → Bytes) (cipher body : Bytes) : Prop :=
  cipher = body ++ tag body

/-- framing inside the CBC plaintext: block 0 is a dummy (absorbs the unknown IV), then a little-endian
`uint32` length, then that many payload bytes, all inside the buffer -/
def aesPayload (block : Nat) (full : Bytes) : Option Bytes :=
  let len := le ((full.drop block).take 4)
  if block + 4 + len ≤ full.length then some ((full.drop (block + 4)).take len) else none

/-- aes back-end: the cipher text is `body ‖ tag(body)` with the tag over the **whole** CBC text
(first block and length field included), the body is at least two whole blocks, and the payload is
what the framing says after CBC decryption -/
def AesValid (tag : Bytes → Bytes) (dec : Bytes → Bytes) (block : Nat) (cipher body plain : Bytes) : Prop :=
  cipher = body ++ tag body ∧ block ∣ body.length ∧ 2 * block ≤ body.length ∧
  aesPayload block (dec body) = some plain

/-- **Ideal-MAC assumption, instantiated at the cipher text presented to `load`.**  `signed` is the list of
bodies this server has MAC'ed with the key.  The hypothesis says: if the presented cipher text splits into a
body and a tag that verifies, then the body is one the server MAC'ed — i.e. the client did not forge a tag.
It is a hypothesis of the authenticity theorems (never an axiom) and is part of the trusted base. -/
def Unforgeable (tag : Bytes → Bytes) (signed : List Bytes) (cipher : Bytes) : Prop :=
  ∀ body, cipher = body ++ tag body → body ∈ signed

/-! ## executable property predicate for the correspondence run -/

structure Issued where
  cipher : Bytes
  data : Bytes
  timeout : Int
deriving Repr

/-- The property, as a predicate on one observed `load`:
* accepted ⇒ the cookie decodes to a cipher text this server issued (same key material), the data and
  expiry returned are those saved with it, the expiry is not in the past, and the cookie was not cleared;
* rejected ⇒ the cookie was cleared (unless there was none), and it was not an issued, unexpired one. -/
def judgeLoad (issued : List Issued) (now : Int) (cookieEmpty : Bool) (decoded : Option Bytes)
    (accepted : Option (Int × Bytes)) (cleared : Bool) : Bool :=
  match accepted with
  | some (t, d) =>
    !cleared && decide (now ≤ t) &&
    (match decoded with
     | some c => issued.any fun i => i.cipher == c && i.data == d && i.timeout == t
     | none => false)
  | none =>
    (cleared == !cookieEmpty) &&
    !(match decoded with
      | some c => issued.any fun i => i.cipher == c && decide (now ≤ i.timeout)
      | none => false)

end Cppcms.C05.Spec
