import Std.Data.HashMap
import Cppcms.Common
import Cppcms.C05.Model
import Cppcms.C05.Spec
/-!
Line-protocol driver for C05.

The cryptographic primitives of the model (`MacAlg`, `CbcAlg`) are instantiated from a table of ORACLE
answers recorded from the real library (`O <query> <answer>` lines: HMAC tags, CBC encryptions and
decryptions of concrete byte strings).  For every op the driver first lists the oracle queries the
evaluation can depend on; when one is missing it prints `need <query>;…` (the check obtains the answers
from the harness' primitive ops and re-runs the object's lines; later lines of the object are evaluated
speculatively with the state unchanged and are final only once no line of the object needs anything).  Otherwise it evaluates the model's
definitions.  As a guard against a query outside that list, the model is evaluated twice with different
stand-ins for missing answers; a different result is reported as `oracle-miss`.

`J`/`JI` lines evaluate the property predicate `Spec.judgeLoad` on the implementation's answers.
-/
open Cppcms Cppcms.C05

abbrev Tbl := Std.HashMap String String

structure Obj where
  cfg : EncCfg
  st : Option AesSt
  blocked : Bool

structure St where
  tbl : Tbl := {}
  objs : Std.HashMap String Obj := {}
  issued : Std.HashMap String (List Spec.Issued) := {}

def qMac (name : String) (k m : Bytes) : String := s!"mac {name} {toHex k} {toHex m}"
def qEnc (name : String) (k iv d : Bytes) : String := s!"cbcenc {name} {toHex k} {toHex iv} {toHex d}"
def qDec (name : String) (k iv d : Bytes) : String := s!"cbcdec {name} {toHex k} {toHex iv} {toHex d}"

def ans (tbl : Tbl) (q : String) : Option Bytes :=
  match tbl.get? q with
  | some v => parseHex v
  | none => none

/-- the primitives for this run; `fill` is the byte used to fabricate a missing answer -/
def macOf (tbl : Tbl) (fill : UInt8) (name : String) : MacAlg :=
  let ds := (digestSize name).getD 0
  { tag := fun k m => (ans tbl (qMac name k m)).getD (List.replicate ds fill), size := ds }

def cbcOf (tbl : Tbl) (fill : UInt8) (name : String) : CbcAlg :=
  { enc := fun k iv d => (ans tbl (qEnc name k iv d)).getD (List.replicate d.length fill),
    dec := fun k iv d => (ans tbl (qDec name k iv d)).getD (List.replicate d.length fill),
    block := Gen.cbcBlock, keySize := (cbcKeySize name).getD 0 }

def resStr : Res Bytes → String
  | .ok b => "ok " ++ toHex b
  | .fail => "fail"
  | .ub => "ub"

def errStr : CfgErr → String
  | .noMethod => "noMethod" | .bothStyles => "bothStyles" | .cbcWithoutMac => "cbcWithoutMac"
  | .unknownEncryptor => "unknownEncryptor" | .keyTooSmall => "keyTooSmall" | .unknownCbc => "unknownCbc"
  | .badKeyLength => "badKeyLength" | .unknownHash => "unknownHash"

/-- queries decryption of `cipher` can depend on (generous: independent of the source's size checks) -/
def candDec (cfg : EncCfg) (st : Option AesSt) (cipher : Bytes) : List String :=
  match cfg with
  | .hmac algo key =>
    let ds := (digestSize algo).getD 0
    if ds ≤ cipher.length then [qMac algo key (cipher.take (cipher.length - ds))] else []
  | .aes cbc ck mac mk =>
    let ds := (digestSize mac).getD 0
    if ds ≤ cipher.length then
      let body := cipher.take (cipher.length - ds)
      let iv := match st with | some s => s.get Gen.cbcDecIvSlot | none => []
      qMac mac mk body :: (if body.length % 16 == 0 && body.length > 0 then [qDec cbc ck iv body] else [])
    else []

/-- queries encryption of `plain` can depend on; the MAC query needs the CBC answer first -/
def candEnc (tbl : Tbl) (cfg : EncCfg) (st : Option AesSt) (plain : Bytes) : List String :=
  match cfg with
  | .hmac algo key => [qMac algo key plain]
  | .aes cbc ck mac mk =>
    let C := cbcOf tbl 0 cbc
    match aesInput C plain with
    | none => []
    | some input =>
      let iv := match st with | some s => s.get Gen.cbcEncIvSlot | none => []
      let q := qEnc cbc ck iv input
      match ans tbl q with
      | none => [q]
      | some out => [q, qMac mac mk out]

def missing (tbl : Tbl) (qs : List String) : List String := qs.filter fun q => !tbl.contains q

def encryptWith (tbl : Tbl) (fill : UInt8) (cfg : EncCfg) (st : Option AesSt) (plain : Bytes) : Res Bytes × Option AesSt :=
  match cfg, st with
  | .hmac algo key, _ => (.ok (hmacEncrypt (macOf tbl fill algo) key plain), st)
  | .aes cbc ck mac mk, some s =>
    let (r, s') := aesEncrypt (cbcOf tbl fill cbc) (macOf tbl fill mac) ck mk s plain
    (r, some s')
  | .aes .., none => (.ub, st)

def decryptWith (tbl : Tbl) (fill : UInt8) (cfg : EncCfg) (st : Option AesSt) (cipher : Bytes) : Res Bytes × Option AesSt :=
  match cfg, st with
  | .hmac algo key, _ => (hmacDecrypt (macOf tbl fill algo) key cipher, st)
  | .aes cbc ck mac mk, some s =>
    let (r, s') := aesDecrypt (cbcOf tbl fill cbc) (macOf tbl fill mac) ck mk s cipher
    (r, some s')
  | .aes .., none => (.ub, st)

def isAes : EncCfg → Bool
  | .aes .. => true
  | _ => false

/-- `aes_cipher::load()` at the start of encrypt/decrypt: consumes the entropy reported by the harness -/
def ensureLoaded (o : Obj) (ent : Option Bytes) : Option Obj :=
  if !isAes o.cfg then some o
  else match o.st, ent with
    | some _, _ => some o
    | none, some e => if e.length ≥ Gen.ivEncBytes + Gen.ivDecBytes then some { o with st := some (aesLoad none e).1 } else none
    | none, none => none

def needStr (qs : List String) : String := "need " ++ ";".intercalate qs

/-- split a trailing `R <hex>` (entropy handed out during the op) off the words -/
def splitEntropy (ws : List String) : List String × Option Bytes :=
  match ws.reverse with
  | h :: "R" :: rest => (rest.reverse, parseHex h)
  | _ => (ws, none)

def sameCfg : Except CfgErr EncCfg → Except CfgErr EncCfg → Bool
  | .ok a, .ok b => a == b
  | .error a, .error b => a == b
  | _, _ => false

def creation (s : St) (id : String) (r : Except CfgErr EncCfg) : St × String :=
  match r with
  | .ok cfg => ({ s with objs := s.objs.insert id { cfg := cfg, st := none, blocked := false } }, "ok")
  | .error e => ({ s with objs := s.objs.erase id }, "refused " ++ errStr e)

def deriveCands (k : Bytes) : List String :=
  [Gen.aesDeriveHashSmall, Gen.aesDeriveHashLarge].flatMap fun n =>
    [qMac n k (C15.ofNats Gen.aesDeriveLabel1), qMac n k (C15.ofNats Gen.aesDeriveLabel2)]

def dash (s : String) : String := if s == "-" then "" else s

def loadStr (o : LoadOut) : String :=
  match o.result with
  | .ok (d, t) => s!"ok {t} {toHex d} cleared={boolStr o.cleared}"
  | .fail => s!"fail cleared={boolStr o.cleared}"
  | .ub => "ub"

def step (s : St) (line : String) : St × String :=
  let (ws, ent) := splitEntropy (words line)
  match ws with
  | "O" :: rest =>
    match rest.reverse with
    | a :: q => ({ s with tbl := s.tbl.insert (" ".intercalate q.reverse) a }, "ok")
    | [] => (s, "bad-op")
  | ["seed", _] => (s, "ok")
  | ["drop", id] => ({ s with objs := s.objs.erase id }, "ok")
  | ["dsize", n] => (s, match digestSize n with | some k => toString k | none => "none")
  | ["cbcinfo", n] => (s, match cbcKeySize n with | some k => s!"{Gen.cbcBlock} {k}" | none => "none")
  | ["hmac", id, algo, k] =>
    match parseHex k with
    | some k => creation s id (hmacCipherNew algo k)
    | none => (s, "bad-op")
  | ["aes", id, algo, k] =>
    match parseHex k with
    | some k =>
      let miss := missing s.tbl (deriveCands k)
      if !miss.isEmpty then ({ s with objs := s.objs.erase id }, needStr miss)
      else
        let r0 := aesFactoryNew (macOf s.tbl 0) algo k
        let r1 := aesFactoryNew (macOf s.tbl 255) algo k
        if sameCfg r0 r1 then creation s id r0 else (s, "oracle-miss")
    | none => (s, "bad-op")
  | ["aes2", id, cbc, ck, mac, mk] =>
    match parseHex ck, parseHex mk with
    | some ck, some mk => creation s id (aesFactory4New cbc ck mac mk)
    | _, _ => (s, "bad-op")
  | ["pool", id, e, h, c, k, hk, ck] =>
    match parseHex k, parseHex hk, parseHex ck with
    | some k, some hk, some ck =>
      let cfg : ClientCfg := { encryptor := dash e, hmac := dash h, cbc := dash c, key := k, hmacKey := hk, cbcKey := ck }
      let miss := if isPrefix "aes" cfg.encryptor then missing s.tbl (deriveCands k) else []
      if !miss.isEmpty then ({ s with objs := s.objs.erase id }, needStr miss)
      else
        let r0 := poolInit (macOf s.tbl 0) cfg
        let r1 := poolInit (macOf s.tbl 255) cfg
        if sameCfg r0 r1 then creation s id r0 else (s, "oracle-miss")
    | _, _, _ => (s, "bad-op")
  | ["JI", kid, c, t, d] =>
    match parseHex c, t.toInt?, parseHex d with
    | some c, some t, some d =>
      ({ s with issued := s.issued.insert kid (⟨c, d, t⟩ :: (s.issued.getD kid [])) }, "ok")
    | _, _, _ => (s, "bad-op")
  | ["J", kid, now, cookie, acc, t, d, cl] =>
    match now.toInt?, parseHex cookie, t.toInt?, parseHex d with
    | some now, some cookie, some t, some d =>
      let accepted := if acc == "1" then some (t, d) else none
      (s, boolStr (Spec.judgeLoad (s.issued.getD kid []) now cookie.isEmpty (cookieCipher cookie) accepted (cl == "1")))
    | _, _, _, _ => (s, "bad-op")
  | op :: id :: args =>
    match s.objs.get? id with
    | none => (s, "no-object")
    | some o =>
      if o.blocked then (s, "blocked") else
      let put (o' : Obj) : St := { s with objs := s.objs.insert id o' }
      -- one encrypt / decrypt on the object, with the oracle protocol around it
      let doEnc (plain : Bytes) (k : Res Bytes → String) : St × String :=
        match ensureLoaded o ent with
        | none => (s, "no-entropy")
        | some o =>
          let miss := missing s.tbl (candEnc s.tbl o.cfg o.st plain)
          if !miss.isEmpty then (put o, needStr miss) else
          let (r0, st0) := encryptWith s.tbl 0 o.cfg o.st plain
          let (r1, st1) := encryptWith s.tbl 255 o.cfg o.st plain
          if r0 == r1 && st0 == st1 then (put { o with st := st0 }, k r0) else (put { o with blocked := true }, "oracle-miss")
      let doDec (cipher : Bytes) (k : (Bytes → Res Bytes) → String) : St × String :=
        match ensureLoaded o ent with
        | none => (s, "no-entropy")
        | some o =>
          let miss := missing s.tbl (candDec o.cfg o.st cipher)
          if !miss.isEmpty then (put o, needStr miss) else
          let (r0, st0) := decryptWith s.tbl 0 o.cfg o.st cipher
          let (r1, st1) := decryptWith s.tbl 255 o.cfg o.st cipher
          if r0 == r1 && st0 == st1 then (put { o with st := st0 }, k (fun _ => r0)) else (put { o with blocked := true }, "oracle-miss")
      match op, args with
      | "enc", [p] =>
        match parseHex p with
        | some p => doEnc p resStr
        | none => (s, "bad-op")
      | "dec", [c] =>
        match parseHex c with
        | some c => doDec c fun f => resStr (f c)
        | none => (s, "bad-op")
      | "saveon", [_, t, d] =>
        match t.toInt?, parseHex d with
        | some t, some d =>
          (s, match cookieSave (fun _ => .ub) true t d with | .fail => "fail onServer" | r => resStr r)
        | _, _ => (s, "bad-op")
      | "save", [_, t, d] =>
        match t.toInt?, parseHex d with
        | some t, some d => doEnc (timeBytes t ++ d) fun r => resStr (cookieSave (fun _ => r) false t d)
        | _, _ => (s, "bad-op")
      | "load", [now, c] =>
        match now.toInt?, parseHex c with
        | some now, some c =>
          match cookieCipher c with
          | none => (s, loadStr (cookieLoad (fun _ => .ub) now c))    -- decrypt is not reached
          | some cipher => doDec cipher fun f => loadStr (cookieLoad f now c)
        | _, _ => (s, "bad-op")
      | _, _ => (s, "bad-op")
  | _ => (s, "bad-op")

def main : IO Unit := lineLoop ({} : St) step
