import Cppcms.Common
import Cppcms.C05.Gen
import Cppcms.C15.Model
/-!
# C05 model: client-side session cookies

Executable transcription of

* `src/hmac_encryptor.cpp` — `hmac_cipher::{encrypt,decrypt,equal}` and the constructor's key check,
* `src/aes_encryptor.cpp` — `aes_cipher::{load,encrypt,decrypt}`, `aes_factory(algo,key)` key splitting/derivation,
* `src/session_cookies.cpp` — `session_cookies::{save,load}`,
* `src/session_pool.cpp` — the configuration refusals of `session_pool::init`.

All size checks, size formulas, offsets, constants and comparison operators come from `Gen.lean`
(regenerated from the C++ source on every run).  `size_t` subtraction is `Gen.wsub` (wraps modulo
2^64, as the compiled code does), the `uint32_t`/`unsigned` conversions are explicit `% 2^32`, and every
memory read goes through `rd`, which yields `none` outside the buffer, so that undefined behaviour is an
explicit outcome (`Res.ub`) the theorems exclude, not something the model cannot express.

The cryptographic primitives are parameters: `MacAlg` (`crypto::hmac` with a fixed digest) and
`CbcAlg` (`crypto::cbc`).  base64url is the (proved, source-generated) model of C15.
-/
namespace Cppcms.C05
open Cppcms

/-- outcome of a piece of C++: value, clean rejection (`return false` / documented `throw` of a refusal),
or undefined behaviour / out-of-bounds access / uncaught library exception. -/
inductive Res (α : Type) where
  | ok (a : α)
  | fail
  | ub
deriving Repr, DecidableEq

def zeros (n : Nat) : Bytes := List.replicate n 0

/-- `k` little-endian bytes of `n` (memcpy of an integer on the little-endian host) -/
def leBytes : Nat → Nat → Bytes
  | 0, _ => []
  | k + 1, n => UInt8.ofNat (n % 256) :: leBytes k (n / 256)

def leVal : Bytes → Nat
  | [] => 0
  | b :: r => b.toNat + 256 * leVal r

/-- read `len` bytes at offset `off` of a buffer of `b.length` bytes; `none` = out of bounds -/
def rd (b : Bytes) (off len : Nat) : Option Bytes :=
  if off + len ≤ b.length then some ((b.drop off).take len) else none

/-- `memcpy(&buf[off], data, data.size())` into a buffer; `none` = out of bounds -/
def wr (buf : Bytes) (off : Nat) (data : Bytes) : Option Bytes :=
  if off + data.length ≤ buf.length then some (buf.take off ++ data ++ buf.drop (off + data.length)) else none

/-- `crypto::hmac(name,key)`: `tag key msg` is what `append(msg); readout()` writes; `size = digest_size()` -/
structure MacAlg where
  tag : Bytes → Bytes → Bytes
  size : Nat

/-- `crypto::cbc`: `enc key iv data`, `dec key iv data`, `block_size()`, `key_size()` -/
structure CbcAlg where
  enc : Bytes → Bytes → Bytes → Bytes
  dec : Bytes → Bytes → Bytes → Bytes
  block : Nat
  keySize : Nat

def two32 : Nat := 4294967296

/-! ## hmac_cipher -/

/-- the `for` loop of `hmac_cipher::equal`; `a`,`b` are the two buffers from the passed pointers on.
`fuel` only makes the definition structural (`equal` supplies enough, see `Lemmas.equal_spec`). -/
def equalLoop (a b : Bytes) (n : Nat) : (fuel i diff : Nat) → Res Nat
  | 0, _, _ => .ub
  | fuel + 1, i, diff =>
    if Gen.eqCont i n then
      match a[i]?, b[i]? with
      | some x, some y => equalLoop a b n fuel (i + 1) (if x ≠ y then diff + 1 else diff)
      | _, _ => .ub
    else .ok diff

/-- `static bool hmac_cipher::equal(void const *a,void const *b,size_t n)` -/
def equal (a b : Bytes) (n : Nat) : Res Bool :=
  match equalLoop a b n (n + 1) Gen.eqStart Gen.eqDiff0 with
  | .ok d => .ok (Gen.eqRet d)
  | .fail => .fail
  | .ub => .ub

/-- `hmac_cipher::encrypt` -/
def hmacEncrypt (M : MacAlg) (key plain : Bytes) : Bytes :=
  plain ++ M.tag key plain

/-- `hmac_cipher::decrypt` -/
def hmacDecrypt (M : MacAlg) (key cipher : Bytes) : Res Bytes :=
  let cs := cipher.length
  let ds := M.size
  if Gen.hmacDecReject cs ds then .fail else
  let ms := Gen.hmacMsgSize cs ds
  match rd cipher 0 ms with                       -- md.append(cipher.c_str(),message_size)
  | none => .ub
  | some msg =>
    let mac := M.tag key msg
    match equal mac (cipher.drop ms) ds with        -- equal(&mac[0],cipher.c_str()+message_size,digest_size)
    | .ok true => .ok (cipher.take ms)              -- cipher.substr(0,message_size)
    | .ok false => .fail
    | _ => .ub

/-! ## aes_cipher -/

/-- the two IVs kept inside the `crypto::cbc` object (`iv_enc_`, `iv_dec_`); OpenSSL's
`AES_cbc_encrypt` leaves the last cipher block in the IV it was given -/
structure AesSt where
  ivEnc : Bytes
  ivDec : Bytes
deriving Repr, DecidableEq

/-- `aes_cipher::load()` on first use: `set_nonce_iv()` draws the two IVs from the entropy source.
Returns the state and the unused entropy. -/
def aesLoad (st : Option AesSt) (entropy : Bytes) : AesSt × Bytes :=
  match st with
  | some s => (s, entropy)
  | none =>
    ({ ivEnc := entropy.take Gen.ivEncBytes,
       ivDec := (entropy.drop Gen.ivEncBytes).take Gen.ivDecBytes },
     entropy.drop (Gen.ivEncBytes + Gen.ivDecBytes))

/-- IV member `slot` of the cbc object (`0` = `iv_enc_`, anything else = `iv_dec_`); which member
`encrypt`/`decrypt` use is generated from the source (`Gen.cbcEncIvSlot`, `Gen.cbcDecIvSlot`) -/
def AesSt.get (st : AesSt) (slot : Nat) : Bytes := if slot = 0 then st.ivEnc else st.ivDec
def AesSt.set (st : AesSt) (slot : Nat) (v : Bytes) : AesSt :=
  if slot = 0 then { st with ivEnc := v } else { st with ivDec := v }

def lastBlock (bs : Nat) (x : Bytes) : Bytes := x.drop (x.length - bs)

/-- the plaintext buffer `input` of `aes_cipher::encrypt` (before CBC): a zero first block (its
content is irrelevant because of the IV), the `uint32_t` length, the data, zero padding -/
def aesInput (C : CbcAlg) (plain : Bytes) : Option Bytes :=
  let size := plain.length % 2 ^ Gen.aesLenBits
  let bsz := Gen.aesEncBufSize size C.block
  match wr (zeros bsz) (Gen.aesEncLenOff C.block) (leBytes 4 size) with
  | none => none
  | some b1 => wr b1 (Gen.aesEncDataOff C.block) plain

/-- `aes_cipher::encrypt` (object already loaded) -/
def aesEncrypt (C : CbcAlg) (M : MacAlg) (ckey mkey : Bytes) (st : AesSt) (plain : Bytes) : Res Bytes × AesSt :=
  if C.block = 0 then (.ub, st) else                   -- division by `cbc_block_size`
  match aesInput C plain with
  | none => (.ub, st)                                   -- memcpy past `input` (plain.size() ≥ 2^32)
  | some input =>
    let bsz := input.length
    let n := bsz % two32                                -- cbc_->encrypt(in,out,unsigned len)
    let enc := C.enc ckey (st.get Gen.cbcEncIvSlot) (input.take n)
    let output := enc ++ zeros (bsz - n)
    let st' := if n = 0 then st else st.set Gen.cbcEncIvSlot (lastBlock C.block enc)
    (.ok (output ++ M.tag mkey output), st')

/-- `aes_cipher::decrypt` (object already loaded) -/
def aesDecrypt (C : CbcAlg) (M : MacAlg) (ckey mkey : Bytes) (st : AesSt) (cipher : Bytes) : Res Bytes × AesSt :=
  let ds := M.size
  let bs := C.block
  let cs := cipher.length
  if Gen.aesDecReject1 cs ds bs then (.fail, st) else
  let real := Gen.aesRealSize cs ds
  if bs = 0 then (.ub, st) else                         -- `% block_size`
  if Gen.aesDecReject2 real bs then (.fail, st) else
  if Gen.aesDecReject3 real bs then (.fail, st) else
  match rd cipher 0 real with                           -- signature.append(cipher.c_str(),real_size)
  | none => (.ub, st)
  | some body =>
    let verify := M.tag mkey body
    match equal verify (cipher.drop real) ds with       -- equal(&verify[0],cipher.c_str()+real_size,digest_size)
    | .ok false => (.fail, st)
    | .ok true =>
      let n := real % two32                             -- cbc_->decrypt(in,out,unsigned len)
      match rd cipher 0 n with
      | none => (.ub, st)
      | some cin =>
        let full := C.dec ckey (st.get Gen.cbcDecIvSlot) cin ++ zeros (real - n)      -- full_plain(real_size)
        let st' := if n = 0 then st else st.set Gen.cbcDecIvSlot (lastBlock bs cin)
        match rd full (Gen.aesDecLenOff bs) 4 with      -- memcpy(&size,&full_plain[block_size],4)
        | none => (.ub, st')
        | some lb =>
          let size := leVal lb
          if Gen.aesDecReject4 size real bs then (.fail, st') else
          match rd full (Gen.aesDecDataOff bs) size with  -- plain.assign(&full_plain[0]+block_size+4,size)
          | none => (.ub, st')
          | some p => (.ok p, st')
    | _ => (.ub, st)

/-! ## session_cookies -/

def two64 : Int := 18446744073709551616

/-- `reinterpret_cast<char*>(&timeout)`, 8 bytes: two's complement little endian -/
def timeBytes (t : Int) : Bytes := leBytes 8 (t % two64).toNat

/-- `memcpy(&timeout,tmp.data(),sizeof(time_t))` into a signed 64-bit integer -/
def timeVal (b : Bytes) : Int :=
  let n : Int := (leVal b : Nat)
  if n < 9223372036854775808 then n else n - two64

/-- what `session_cookies::load` did: `result` (`ok (data, timeout)` = returned true; `fail` = returned
false), and whether `session.clear_session_cookie()` was called -/
structure LoadOut where
  result : Res (Bytes × Int)
  cleared : Bool
deriving Repr, DecidableEq

/-- `session_cookies::save`: the value passed to `set_session_cookie`; `fail` = the `on_server` throw -/
def cookieSave (encrypt : Bytes → Res Bytes) (onServer : Bool) (timeout : Int) (data : Bytes) : Res Bytes :=
  if onServer then .fail else
  match encrypt (timeBytes timeout ++ data) with
  | .ok cipher => .ok (C15.ofNats Gen.cookiePrefix ++ C15.b64encodeStr cipher)
  | .fail => .fail
  | .ub => .ub

/-- the cipher text handed to `encryptor_->decrypt` (none: `decrypt` is not reached) -/
def cookieCipher (cookie : Bytes) : Option Bytes :=
  match cookie with
  | [] => none
  | c0 :: _ =>
    if c0.toNat != Gen.cookieTag then none
    else if Gen.cookieSkip > cookie.length then none
    else C15.b64decode (cookie.drop Gen.cookieSkip) []

/-- `session_cookies::load` -/
def cookieLoad (decrypt : Bytes → Res Bytes) (now : Int) (cookie : Bytes) : LoadOut :=
  match cookie with
  | [] => ⟨.fail, false⟩                                 -- cdata.empty(): nothing to clear
  | c0 :: _ =>
    if c0.toNat != Gen.cookieTag then ⟨.fail, true⟩ else
    if Gen.cookieSkip > cookie.length then ⟨.ub, false⟩ else      -- substr throws
    match C15.b64decode (cookie.drop Gen.cookieSkip) [] with
    | none => ⟨.fail, true⟩
    | some cipher =>
      match decrypt cipher with
      | .ub => ⟨.ub, false⟩
      | .fail => ⟨.fail, true⟩
      | .ok tmp =>
        if Gen.loadShort tmp.length then ⟨.fail, true⟩ else
        match rd tmp 0 Gen.timeSize with                -- memcpy(&timeout,tmp.data(),sizeof(time_t))
        | none => ⟨.ub, false⟩
        | some tb =>
          let timeout := timeVal tb
          if Gen.loadExpired timeout now then ⟨.fail, true⟩ else
          if Gen.timeSize > tmp.length then ⟨.ub, false⟩ else     -- substr throws
          ⟨.ok (tmp.drop Gen.timeSize, timeout), false⟩

/-! ### the three back-ends as used by the theorems -/

/-- `session_cookies(hmac_cipher)`: save / load -/
def hmacSave (M : MacAlg) (key : Bytes) (timeout : Int) (data : Bytes) : Res Bytes :=
  cookieSave (fun p => .ok (hmacEncrypt M key p)) false timeout data
def hmacLoad (M : MacAlg) (key : Bytes) (now : Int) (cookie : Bytes) : LoadOut :=
  cookieLoad (hmacDecrypt M key) now cookie

/-- `session_cookies(aes_cipher)` with the CBC object in IV state `st`: save / load -/
def aesSave (C : CbcAlg) (M : MacAlg) (ckey mkey : Bytes) (st : AesSt) (timeout : Int) (data : Bytes) : Res Bytes :=
  cookieSave (fun p => (aesEncrypt C M ckey mkey st p).1) false timeout data
def aesLoadCookie (C : CbcAlg) (M : MacAlg) (ckey mkey : Bytes) (st : AesSt) (now : Int) (cookie : Bytes) : LoadOut :=
  cookieLoad (fun c => (aesDecrypt C M ckey mkey st c).1) now cookie

/-! ## configuration -/

inductive CfgErr where
  | noMethod | bothStyles | cbcWithoutMac | unknownEncryptor | keyTooSmall | unknownCbc | badKeyLength | unknownHash
deriving Repr, DecidableEq

/-- what `session_pool::init` installs as encryptor factory -/
inductive EncCfg where
  | hmac (algo : String) (key : Bytes)
  | aes (cbc : String) (ckey : Bytes) (mac : String) (mkey : Bytes)
deriving Repr, DecidableEq

def lower (s : String) : String := String.ofList (s.toList.map fun c => if 'A' ≤ c ∧ c ≤ 'Z' then Char.ofNat (c.toNat + 32) else c)

/-- `message_digest::create_by_name(name)->digest_size()` -/
def digestSize (name : String) : Option Nat := Gen.digestSizes.lookup (lower name)

/-- `cbc::create(name)->key_size()` -/
def cbcKeySize (name : String) : Option Nat := (Gen.cbcNames.lookup name).map Gen.cbcKeySize

/-- `hmac_factory::get()` → `hmac_cipher::hmac_cipher`: refuses short keys.  (An unknown hash name is
only detected by `crypto::hmac` at the first encrypt/decrypt: modelled as `unknownHash` here.) -/
def hmacCipherNew (algo : String) (key : Bytes) : Except CfgErr EncCfg :=
  if Gen.hmacKeyRefused key.length then .error .keyTooSmall
  else match digestSize algo with
    | none => .error .unknownHash
    | some _ => .ok (.hmac (lower algo) key)

/-- `aes_factory::aes_factory(algo,key)`; `mac name` is `crypto::hmac(name,·)` -/
def aesFactoryNew (mac : String → MacAlg) (algo : String) (k : Bytes) : Except CfgErr EncCfg :=
  match cbcKeySize algo, digestSize Gen.aesDefaultMac with
  | some cks, some ds =>
    if Gen.aesKeySplit k.length cks ds then
      .ok (.aes algo (k.take cks) Gen.aesDefaultMac ((k.drop cks).take ds))
    else if Gen.aesKeyDerive k.length cks then
      let name := if Gen.aesDeriveSmall k.length then Gen.aesDeriveHashSmall else Gen.aesDeriveHashLarge
      let k1 := (mac name).tag k (C15.ofNats Gen.aesDeriveLabel1)
      let k2 := (mac name).tag k (C15.ofNats Gen.aesDeriveLabel2)
      .ok (.aes algo (k1.take cks) Gen.aesDefaultMac (k2.take ds))
    else .error .badKeyLength
  | none, _ => .error .unknownCbc
  | _, none => .error .unknownHash

/-- `aes_factory(cbc,cbc_key,mac,hmac_key)`: nothing is checked at construction; at first use
`aes_cipher::load` finds an unknown CBC name, `cbc::set_key` throws on a wrong key size, then an unknown
hash name is found (in this order).  The MAC key may have any length. -/
def aesFactory4New (cbc : String) (ckey : Bytes) (mac : String) (mkey : Bytes) : Except CfgErr EncCfg :=
  match cbcKeySize cbc with
  | none => .error .unknownCbc
  | some cks =>
    if ckey.length != cks then .error .badKeyLength
    else match digestSize mac with
      | none => .error .unknownHash
      | some _ => .ok (.aes cbc ckey (lower mac) mkey)

/-- the `session.client.*` settings read by `session_pool::init` (keys already hex-decoded) -/
structure ClientCfg where
  encryptor : String
  hmac : String
  cbc : String
  key : Bytes
  hmacKey : Bytes
  cbcKey : Bytes
deriving Repr

def isPrefix (p s : String) : Bool := p.toList.isPrefixOf s.toList

/-- `session_pool::init` for `location = client`, followed by `factory->get()` (where `hmac_cipher`
checks the key length) -/
def poolInit (mac : String → MacAlg) (c : ClientCfg) : Except CfgErr EncCfg :=
  let ee := c.encryptor.isEmpty; let me := c.hmac.isEmpty; let ce := c.cbc.isEmpty
  if Gen.poolNoMethod ee me ce then .error .noMethod
  else if Gen.poolBothStyles ee me ce then .error .bothStyles
  else if Gen.poolCbcWithoutMac ee me ce then .error .cbcWithoutMac
  else if !ee then
    if c.encryptor == "hmac" then hmacCipherNew Gen.poolDefaultHmac c.key
    else if isPrefix "hmac-" c.encryptor then hmacCipherNew (String.ofList (c.encryptor.toList.drop 5)) c.key
    else if isPrefix "aes" c.encryptor then aesFactoryNew mac c.encryptor c.key
    else .error .unknownEncryptor
  else if ce then hmacCipherNew c.hmac c.hmacKey
  else aesFactory4New c.cbc c.cbcKey c.hmac c.hmacKey

end Cppcms.C05
