import Cppcms.C05.Model
import Cppcms.C05.Spec
namespace Cppcms.C05.Props
end Cppcms.C05.Props
