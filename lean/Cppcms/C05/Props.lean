import Cppcms.C05.Lemmas
/-!
# C05 — property theorems

"Whenever loading a session cookie succeeds, the data and expiry returned are exactly those of some
earlier save made with the same key material, and the expiry is not in the past; a cookie that does not
decode to a cipher text this server produced is rejected without crashing and the cookie is cleared.
Saving then loading returns the saved data for every payload."

The model (`Model.lean`) is built on conditions/constants regenerated from the C++ source (`Gen.lean`).
Primitives are parameters with explicit contracts (`MacAlg.Lawful`, `CbcAlg.Lawful`); authenticity is
stated under the explicit ideal-MAC hypothesis `Spec.Unforgeable`.  Sizes: `Spec.SizeOk n` is `n < 2^64`
(true of every `std::string`); `Spec.TimeOk t` is the `int64` range of `time_t`.

Confidentiality ("an encrypting backend reveals neither the payload nor whether two payloads are equal")
is a probabilistic statement no executable model expresses; only its bookkeeping is proved
(`iv_fresh_per_object`) and the clause is claimed PARTIAL.

`def FullStatement` at the end records the full-strength reading next to what is proved.
-/
namespace Cppcms.C05.Props
open Cppcms Cppcms.C05

/-! ## hmac_cipher -/

/-- `hmac_cipher::equal`: with `n` readable bytes behind both pointers it reads nothing else and answers
true iff ALL `n` bytes agree (no early exit, no prefix comparison). -/
theorem equal_all_bytes (a b : Bytes) (n : Nat) (ha : n ≤ a.length) (hb : n ≤ b.length) :
    equal a b n = .ok (decide (a.take n = b.take n)) :=
  equal_spec a b n ha hb

/-- hmac back-end: decrypt ∘ encrypt = id for every payload. -/
theorem hmac_roundtrip (M : MacAlg) (hM : M.Lawful) (k p : Bytes) (hp : Spec.SizeOk (p.length + M.size)) :
    hmacDecrypt M k (hmacEncrypt M k p) = .ok p := by
  unfold Spec.SizeOk at hp
  unfold hmacEncrypt
  have hl : (p ++ M.tag k p).length = p.length + M.size := by rw [List.length_append, hM]
  rw [hmacDecrypt_closed M hM k _ (by rw [hl]; exact hp), hl]
  have hs : p.length + M.size - M.size = p.length := by omega
  rw [hs, if_neg (by omega), List.take_left' rfl, List.drop_left' rfl, if_pos rfl]

/-- hmac back-end: success means the cipher text is `p ‖ Mac k p` — the tag is computed over exactly the
returned message and compared in full. -/
theorem hmac_load_sound (M : MacAlg) (hM : M.Lawful) (k c p : Bytes) (hc : Spec.SizeOk c.length)
    (h : hmacDecrypt M k c = .ok p) : Spec.HmacValid (M.tag k) c p := by
  rw [hmacDecrypt_closed M hM k c hc] at h
  split at h
  · cases h
  · split at h
    · rename_i ht
      injection h with h
      subst h
      unfold Spec.HmacValid
      rw [ht, List.take_append_drop]
    · cases h

/-- hmac back-end: no undefined behaviour for ANY cipher text (truncated, empty, shorter than a digest…). -/
theorem hmac_rejects_cleanly (M : MacAlg) (hM : M.Lawful) (k c : Bytes) (hc : Spec.SizeOk c.length) :
    hmacDecrypt M k c ≠ .ub := by
  rw [hmacDecrypt_closed M hM k c hc]
  split
  · simp
  · split <;> simp

/-! ## aes_cipher -/

/-- The three size checks of `aes_cipher::decrypt` (as generated from the source, with the source's block
size) guarantee that `real_size - block_size - sizeof(size)` does not wrap, that the length field and the
MAC lie inside the cipher text, and that `real_size` is a whole number (≥ 2) of blocks. -/
theorem aes_no_underflow (cs ds : Nat) (hcs : Spec.SizeOk cs)
    (h1 : Gen.aesDecReject1 cs ds Gen.cbcBlock = false)
    (h2 : Gen.aesDecReject2 (Gen.aesRealSize cs ds) Gen.cbcBlock = false)
    (h3 : Gen.aesDecReject3 (Gen.aesRealSize cs ds) Gen.cbcBlock = false) :
    Gen.aesRealSize cs ds + ds = cs ∧
    Gen.aesDecLenOff Gen.cbcBlock + 4 ≤ Gen.aesRealSize cs ds ∧
    Gen.wsub (Gen.wsub (Gen.aesRealSize cs ds) Gen.cbcBlock) 4 + Gen.aesDecDataOff Gen.cbcBlock = Gen.aesRealSize cs ds ∧
    2 * Gen.cbcBlock ≤ Gen.aesRealSize cs ds ∧ Gen.cbcBlock ∣ Gen.aesRealSize cs ds := by
  unfold Spec.SizeOk at hcs
  rw [gen_block] at *
  have e1 : Gen.aesDecReject1 cs ds 16 = decide (cs < ds + 16) := rfl
  rw [e1] at h1
  have hle : ds + 16 ≤ cs := by simpa using h1
  have hreal : Gen.aesRealSize cs ds = cs - ds := wsub_eq (by omega) hcs
  rw [hreal] at h2 h3 ⊢
  have e2 : Gen.aesDecReject2 (cs - ds) 16 = true ↔ (cs - ds) % 16 ≠ 0 := by simp [Gen.aesDecReject2]
  have hm : (cs - ds) % 16 = 0 := by
    by_cases h : (cs - ds) % 16 = 0
    · exact h
    · rw [e2.2 h] at h2; cases h2
  have e3 : Gen.aesDecReject3 (cs - ds) 16 = decide ((cs - ds) / 16 < 2) := rfl
  rw [e3] at h3
  have hq : ¬ (cs - ds) / 16 < 2 := by simpa using h3
  have e0 : Gen.wsub (cs - ds) 16 = cs - ds - 16 := wsub_eq (by omega) (by omega)
  have e4 : Gen.wsub (cs - ds - 16) 4 = cs - ds - 16 - 4 := wsub_eq (by omega) (by omega)
  have o1 : Gen.aesDecLenOff 16 = 16 := rfl
  have o2 : Gen.aesDecDataOff 16 = 20 := rfl
  rw [e0, e4, o1, o2]
  exact ⟨by omega, by omega, by omega, by omega, Nat.dvd_of_mod_eq_zero hm⟩

/-- aes back-end: decrypt ∘ encrypt = id for every payload below 4 GiB − 36, whatever the IV state of the
encrypting object (`st`) and of the decrypting object (`st2`); the cipher text is
`E(frame) ‖ Mac(E(frame))`. -/
theorem aes_roundtrip (C : CbcAlg) (M : MacAlg) (hC : C.Lawful) (hM : M.Lawful) (hds : M.size < 2 ^ 32)
    (ck mk : Bytes) (st st2 : AesSt) (p : Bytes) (hp : p.length + 36 ≤ 2 ^ 32) :
    ∃ c st', aesEncrypt C M ck mk st p = (.ok c, st') ∧ (aesDecrypt C M ck mk st2 c).1 = .ok p := by
  obtain ⟨c, st', h1, _, h3⟩ := aes_roundtrip_core C M hC hM hds ck mk st st2 p hp
  exact ⟨c, st', h1, h3⟩

/-- aes back-end: success means `c = body ‖ Mac mk body` with the tag over the ENTIRE CBC text `body` (first
block and length field included), `body` a whole number ≥ 2 of blocks, and the payload is what the framing
says about the decrypted buffer; for cipher texts below 4 GiB that buffer is the CBC decryption of all of
`body` (`Spec.AesValid`).  Nothing is accepted on a prefix, on a short block, or before the length field
is authenticated. -/
theorem aes_load_sound (C : CbcAlg) (M : MacAlg) (hC : C.Lawful) (hM : M.Lawful) (hds : M.size < 2 ^ 32)
    (ck mk : Bytes) (st : AesSt) (c p : Bytes) (hc : Spec.SizeOk c.length)
    (h : (aesDecrypt C M ck mk st c).1 = .ok p) :
    ∃ body, c = body ++ M.tag mk body ∧ 16 ∣ body.length ∧ 32 ≤ body.length ∧
      Spec.aesPayload 16 (aesFull C ck st.ivDec c body.length) = some p ∧
      (c.length < 2 ^ 32 → Spec.AesValid (M.tag mk) (C.dec ck st.ivDec) 16 c body p) := by
  rw [aesDecrypt_closed C M hC hM ck mk st c hc hds] at h
  split at h
  · cases h
  · rename_i h1
    split at h
    · cases h
    · rename_i h2
      split at h
      · cases h
      · rename_i h3
        split at h
        · cases h
        · rename_i h4
          have htag : M.tag mk (c.take (c.length - M.size)) = c.drop (c.length - M.size) := by
            simpa using h4
          have hbl : (c.take (c.length - M.size)).length = c.length - M.size := by
            rw [List.length_take]; omega
          have hpay : Spec.aesPayload 16 (aesFull C ck st.ivDec c (c.length - M.size)) = some p := by
            simp only [] at h
            split at h
            · rename_i q hq; injection h with h; rw [hq, h]
            · cases h
          have hsplit : c = c.take (c.length - M.size) ++ M.tag mk (c.take (c.length - M.size)) := by
            rw [htag, List.take_append_drop]
          have hdvd : 16 ∣ c.length - M.size := Nat.dvd_of_mod_eq_zero (by omega)
          refine ⟨c.take (c.length - M.size), hsplit, by rw [hbl]; exact hdvd, by rw [hbl]; omega,
            by rw [hbl]; exact hpay, ?_⟩
          intro hsmall
          refine ⟨hsplit, by rw [hbl]; exact hdvd, by rw [hbl]; omega, ?_⟩
          rw [← aesFull_small C ck st.ivDec c (c.length - M.size) (by omega)]
          exact hpay

/-- aes back-end: no undefined behaviour for ANY cipher text: every read (`cipher.c_str()+real_size`, the
length field at `full_plain[block_size]`, the payload `assign`) is inside its buffer, no subtraction wraps. -/
theorem aes_rejects_cleanly (C : CbcAlg) (M : MacAlg) (hC : C.Lawful) (hM : M.Lawful) (hds : M.size < 2 ^ 32)
    (ck mk : Bytes) (st : AesSt) (c : Bytes) (hc : Spec.SizeOk c.length) :
    (aesDecrypt C M ck mk st c).1 ≠ .ub := by
  rw [aesDecrypt_closed C M hC hM ck mk st c hc hds]
  split
  · simp
  · split
    · simp
    · split
      · simp
      · split
        · simp
        · simp only []
          split <;> simp

/-! ## session_cookies (generic in the encryptor) -/

/-- Round trip of the cookie layer over any encryptor whose `decrypt` inverts its `encrypt` on this
plaintext: the cookie is `'C' ‖ base64url(cipher)`, loading it at any `now ≤ t` returns exactly `(d, t)` and
does not clear the cookie. -/
theorem cookie_roundtrip (enc dec : Bytes → Res Bytes) (now t : Int) (d cipher : Bytes)
    (ht : Spec.TimeOk t) (hnow : now ≤ t)
    (he : enc (timeBytes t ++ d) = .ok cipher) (hd : dec cipher = .ok (timeBytes t ++ d)) :
    cookieSave enc false t d = .ok (67 :: C15.b64encodeStr cipher) ∧
    cookieLoad dec now (67 :: C15.b64encodeStr cipher) = ⟨.ok (d, t), false⟩ := by
  constructor
  · rw [cookieSave_closed, he]
  · rw [cookieLoad_closed]
    simp only [ne_eq, not_true_eq_false, if_false]
    rw [b64_decode_encode]
    simp only [hd]
    rw [afterDecrypt_spec, decodeBody_time t d ht]
    simp only []
    rw [if_neg (by omega)]

/-- Soundness of the cookie layer: success means the cookie is `'C' ‖ text`, `text` base64url-decodes to
a cipher text the encryptor accepts, the accepted plaintext is `time_t t ‖ d`, and `now ≤ t`; the cookie
is not cleared. -/
theorem cookie_load_sound (dec : Bytes → Res Bytes) (now t : Int) (cookie d : Bytes) (cl : Bool)
    (h : cookieLoad dec now cookie = ⟨.ok (d, t), cl⟩) :
    cl = false ∧ now ≤ t ∧ ∃ cipher plain, cookieCipher cookie = some cipher ∧ dec cipher = .ok plain ∧
      Spec.decodeBody plain = some (d, t) := by
  rw [cookieLoad_closed] at h
  cases cookie with
  | nil => simp at h
  | cons c0 rest =>
    simp only [] at h
    split at h
    · simp at h
    · rename_i hc
      rw [cookieCipher_cons, if_neg hc]
      split at h
      · simp at h
      · rename_i cipher hb
        split at h
        · simp at h
        · simp at h
        · rename_i tmp hd
          rw [afterDecrypt_spec] at h
          cases hdb : Spec.decodeBody tmp with
          | none => rw [hdb] at h; simp at h
          | some v =>
            obtain ⟨d', t'⟩ := v
            rw [hdb] at h
            simp only [] at h
            split at h
            · simp at h
            · rename_i hlt
              injection h with h1 h2
              injection h1 with h1
              injection h1 with hd' ht'
              subst hd' ht'
              exact ⟨h2.symm, by omega, cipher, tmp, hb, hd, hdb⟩

/-- **rejects_cleanly**: for EVERY cookie string and every encryptor that has no undefined behaviour on
the cipher text the cookie decodes to, `session_cookies::load` has none either (no index out of bounds, no
uncaught `substr` exception); every failing path with a cookie present clears it (the empty cookie has
nothing to clear); a success never clears. -/
theorem rejects_cleanly (dec : Bytes → Res Bytes) (now : Int) (cookie : Bytes)
    (hdec : ∀ cipher, cookieCipher cookie = some cipher → dec cipher ≠ .ub) :
    (cookieLoad dec now cookie).result ≠ .ub ∧
    ((cookieLoad dec now cookie).result = .fail → (cookieLoad dec now cookie).cleared = !cookie.isEmpty) ∧
    (∀ v, (cookieLoad dec now cookie).result = .ok v → (cookieLoad dec now cookie).cleared = false) := by
  rw [cookieLoad_closed]
  cases cookie with
  | nil => simp
  | cons c0 rest =>
    simp only []
    split
    · simp
    · rename_i hc0
      split
      · simp
      · rename_i cipher hb
        have := hdec cipher (by rw [cookieCipher_cons, if_neg hc0, hb])
        split
        · contradiction
        · simp
        · rename_i tmp _
          unfold afterDecrypt
          split
          · simp
          · split <;> simp

/-! ## the three back-ends end to end -/

theorem b64decode_length (r c : Bytes) (h : C15.b64decode r [] = some c) : c.length ≤ r.length := by
  unfold C15.b64decode at h
  cases hds : C15.Gen.decodedSize r.length with
  | none => rw [hds] at h; cases h
  | some ds =>
    rw [hds] at h
    have hle : ds ≤ r.length := by
      have h4 : r.length % 4 = 0 ∨ r.length % 4 = 1 ∨ r.length % 4 = 2 ∨ r.length % 4 = 3 := by omega
      rcases h4 with k | k | k | k <;> simp [C15.Gen.decodedSize, k] at hds <;> omega
    cases ds with
    | zero => simp only [] at h; injection h with h; subst h; simp
    | succ n =>
      simp only [] at h
      injection h with h
      subst h
      rw [List.length_take]
      omega

theorem cookieCipher_length (cookie cipher : Bytes) (h : cookieCipher cookie = some cipher) :
    cipher.length ≤ cookie.length := by
  cases cookie with
  | nil => simp [cookieCipher] at h
  | cons c0 rest =>
    rw [cookieCipher_cons] at h
    split at h
    · cases h
    · have := b64decode_length rest cipher h
      simp only [List.length_cons]; omega

/-- **save_load_roundtrip, hmac back-end** (hmac-md5 … hmac-sha512: any `MacAlg`): for every payload,
every expiry in the `time_t` range and every `now ≤ t`. -/
theorem save_load_roundtrip_hmac (M : MacAlg) (hM : M.Lawful) (k d : Bytes) (now t : Int)
    (ht : Spec.TimeOk t) (hnow : now ≤ t) (hsz : Spec.SizeOk (8 + d.length + M.size)) :
    ∃ cookie, hmacSave M k t d = .ok cookie ∧ hmacLoad M k now cookie = ⟨.ok (d, t), false⟩ := by
  have hl : (timeBytes t ++ d).length = 8 + d.length := by rw [List.length_append, timeBytes_length]
  have hr := hmac_roundtrip M hM k (timeBytes t ++ d) (by rw [hl]; exact hsz)
  obtain ⟨h1, h2⟩ := cookie_roundtrip (fun p => .ok (hmacEncrypt M k p)) (hmacDecrypt M k) now t d
    (hmacEncrypt M k (timeBytes t ++ d)) ht hnow rfl hr
  exact ⟨_, h1, h2⟩

/-- **save_load_roundtrip, aes back-end** (aes-128/192/256 + any HMAC, split or derived keys: any lawful
`CbcAlg`/`MacAlg` and any keys): for every payload below 4 GiB − 44, every expiry, every `now ≤ t`, and any
IV state of the saving (`st`) and of the loading (`st2`) object. -/
theorem save_load_roundtrip_aes (C : CbcAlg) (M : MacAlg) (hC : C.Lawful) (hM : M.Lawful) (hds : M.size < 2 ^ 32)
    (ck mk : Bytes) (st st2 : AesSt) (d : Bytes) (now t : Int)
    (ht : Spec.TimeOk t) (hnow : now ≤ t) (hsz : d.length + 44 ≤ 2 ^ 32) :
    ∃ cookie, aesSave C M ck mk st t d = .ok cookie ∧
      aesLoadCookie C M ck mk st2 now cookie = ⟨.ok (d, t), false⟩ := by
  have hl : (timeBytes t ++ d).length = 8 + d.length := by rw [List.length_append, timeBytes_length]
  obtain ⟨c, st', h1, h3⟩ := aes_roundtrip C M hC hM hds ck mk st st2 (timeBytes t ++ d) (by rw [hl]; omega)
  obtain ⟨r1, r2⟩ := cookie_roundtrip (fun p => (aesEncrypt C M ck mk st p).1)
    (fun x => (aesDecrypt C M ck mk st2 x).1) now t d c ht hnow (by simp only [h1]) h3
  exact ⟨_, r1, r2⟩

/-- **load_sound, hmac back-end**: success ⇒ `now ≤ t`, the cookie is `'C' ‖ b64(cipher)` with
`cipher = body ‖ Mac k body` and `body = time_t t ‖ d` — the MAC equation holds over the entire body. -/
theorem load_sound_hmac (M : MacAlg) (hM : M.Lawful) (k cookie d : Bytes) (now t : Int) (cl : Bool)
    (hsz : Spec.SizeOk cookie.length) (h : hmacLoad M k now cookie = ⟨.ok (d, t), cl⟩) :
    cl = false ∧ now ≤ t ∧ ∃ cipher body, cookieCipher cookie = some cipher ∧
      Spec.HmacValid (M.tag k) cipher body ∧ Spec.decodeBody body = some (d, t) := by
  obtain ⟨h1, h2, cipher, plain, h3, h4, h5⟩ := cookie_load_sound (hmacDecrypt M k) now t cookie d cl h
  have hlen := cookieCipher_length cookie cipher h3
  exact ⟨h1, h2, cipher, plain, h3,
    hmac_load_sound M hM k cipher plain (by unfold Spec.SizeOk at *; omega) h4, h5⟩

/-- **load_sound, aes back-end**: success ⇒ `now ≤ t`, the cookie is `'C' ‖ b64(cipher)`,
`cipher = body ‖ Mac mk body` over the whole CBC text (≥ 2 whole blocks), and the framed payload of the
CBC decryption of `body` is `time_t t ‖ d` (`Spec.AesValid`; cookies below 4 GiB). -/
theorem load_sound_aes (C : CbcAlg) (M : MacAlg) (hC : C.Lawful) (hM : M.Lawful) (hds : M.size < 2 ^ 32)
    (ck mk : Bytes) (st : AesSt) (cookie d : Bytes) (now t : Int) (cl : Bool)
    (hsz : cookie.length < 2 ^ 32) (h : aesLoadCookie C M ck mk st now cookie = ⟨.ok (d, t), cl⟩) :
    cl = false ∧ now ≤ t ∧ ∃ cipher body plain, cookieCipher cookie = some cipher ∧
      Spec.AesValid (M.tag mk) (C.dec ck st.ivDec) 16 cipher body plain ∧
      Spec.decodeBody plain = some (d, t) := by
  obtain ⟨h1, h2, cipher, plain, h3, h4, h5⟩ :=
    cookie_load_sound (fun x => (aesDecrypt C M ck mk st x).1) now t cookie d cl h
  have hlen := cookieCipher_length cookie cipher h3
  obtain ⟨body, _, _, _, _, hv⟩ :=
    aes_load_sound C M hC hM hds ck mk st cipher plain (by unfold Spec.SizeOk; omega) h4
  exact ⟨h1, h2, cipher, body, plain, h3, hv (by omega), h5⟩

/-- **rejects_cleanly, hmac back-end, end to end**: for EVERY cookie string (of representable length) -/
theorem rejects_cleanly_hmac (M : MacAlg) (hM : M.Lawful) (k cookie : Bytes) (now : Int)
    (hsz : Spec.SizeOk cookie.length) :
    (hmacLoad M k now cookie).result ≠ .ub ∧
    ((hmacLoad M k now cookie).result = .fail → (hmacLoad M k now cookie).cleared = !cookie.isEmpty) ∧
    (∀ v, (hmacLoad M k now cookie).result = .ok v → (hmacLoad M k now cookie).cleared = false) := by
  apply rejects_cleanly
  intro cipher hc
  have := cookieCipher_length cookie cipher hc
  exact hmac_rejects_cleanly M hM k cipher (by unfold Spec.SizeOk at *; omega)

/-- **rejects_cleanly, aes back-end, end to end**: for EVERY cookie string, any IV state -/
theorem rejects_cleanly_aes (C : CbcAlg) (M : MacAlg) (hC : C.Lawful) (hM : M.Lawful) (hds : M.size < 2 ^ 32)
    (ck mk : Bytes) (st : AesSt) (cookie : Bytes) (now : Int) (hsz : Spec.SizeOk cookie.length) :
    (aesLoadCookie C M ck mk st now cookie).result ≠ .ub ∧
    ((aesLoadCookie C M ck mk st now cookie).result = .fail →
      (aesLoadCookie C M ck mk st now cookie).cleared = !cookie.isEmpty) ∧
    (∀ v, (aesLoadCookie C M ck mk st now cookie).result = .ok v →
      (aesLoadCookie C M ck mk st now cookie).cleared = false) := by
  apply rejects_cleanly
  intro cipher hc
  have := cookieCipher_length cookie cipher hc
  exact aes_rejects_cleanly C M hC hM hds ck mk st cipher (by unfold Spec.SizeOk at *; omega)

/-! ## authenticity under the ideal-MAC hypothesis -/

/-- **authenticity, hmac back-end.**  `issued` = the `(data, expiry)` pairs saved earlier under key `k`;
the bodies MAC'ed by the server are `time_t t ‖ d` for those pairs.  HYPOTHESIS `Spec.Unforgeable`: the
presented cipher text verifies only if its body is one of them.  Then a successful load returns one of the
issued pairs, unexpired. -/
theorem authenticity_hmac (M : MacAlg) (hM : M.Lawful) (k cookie cipher d : Bytes) (now t : Int) (cl : Bool)
    (issued : List (Bytes × Int)) (hissued : ∀ x ∈ issued, Spec.TimeOk x.2)
    (hsz : Spec.SizeOk cookie.length) (hc : cookieCipher cookie = some cipher)
    (hU : Spec.Unforgeable (M.tag k) (issued.map fun x => timeBytes x.2 ++ x.1) cipher)
    (h : hmacLoad M k now cookie = ⟨.ok (d, t), cl⟩) :
    (d, t) ∈ issued ∧ now ≤ t := by
  obtain ⟨_, h2, cipher', body, h3, h4, h5⟩ := load_sound_hmac M hM k cookie d now t cl hsz h
  rw [hc] at h3
  injection h3 with h3
  subst h3
  have hm := hU body h4
  rw [List.mem_map] at hm
  obtain ⟨x, hx, hxb⟩ := hm
  rw [← hxb, decodeBody_time x.2 x.1 (hissued x hx)] at h5
  injection h5 with h5
  rw [← h5]
  exact ⟨hx, h2⟩

/-- **authenticity, aes back-end.**  `issued` = `(iv, data, expiry)` triples: the saves made earlier with
this key material, each with whatever IV the CBC object had; the bodies MAC'ed by the server are the CBC
texts of their frames.  Under `Spec.Unforgeable`, a successful load (any IV state of the loading object)
returns the data and expiry of one of them, unexpired. -/
theorem authenticity_aes (C : CbcAlg) (M : MacAlg) (hC : C.Lawful) (hM : M.Lawful) (hds : M.size < 2 ^ 32)
    (ck mk : Bytes) (st : AesSt) (cookie cipher d : Bytes) (now t : Int) (cl : Bool)
    (issued : List (Bytes × Bytes × Int))
    (hissued : ∀ x ∈ issued, Spec.TimeOk x.2.2 ∧ x.2.1.length + 44 ≤ 2 ^ 32)
    (hsz : cookie.length < 2 ^ 32) (hc : cookieCipher cookie = some cipher)
    (hU : Spec.Unforgeable (M.tag mk)
      (issued.map fun x => C.enc ck x.1 (aesFrame (timeBytes x.2.2 ++ x.2.1))) cipher)
    (h : aesLoadCookie C M ck mk st now cookie = ⟨.ok (d, t), cl⟩) :
    (∃ iv, (iv, d, t) ∈ issued) ∧ now ≤ t := by
  obtain ⟨_, h2, cipher', body, plain, h3, h4, h5⟩ :=
    load_sound_aes C M hC hM hds ck mk st cookie d now t cl hsz h
  rw [hc] at h3
  injection h3 with h3
  subst h3
  obtain ⟨hsplit, _, _, hpay⟩ := h4
  have hm := hU body hsplit
  rw [List.mem_map] at hm
  obtain ⟨x, hx, hxb⟩ := hm
  obtain ⟨iv, d', t'⟩ := x
  obtain ⟨hto, hlen⟩ := hissued _ hx
  simp only [] at hxb hto hlen
  -- the body is the CBC text of an issued frame: decrypting under any IV gives that frame back
  have hb : C.block = 16 := hC.block_eq
  have hpl : (timeBytes t' ++ d').length = 8 + d'.length := by rw [List.length_append, timeBytes_length]
  have hf := aesBuf_facts (timeBytes t' ++ d').length
  have hdd := hC.dec_enc ck iv st.ivDec (aesFrame (timeBytes t' ++ d'))
    (by rw [hb, aesFrame_length]; exact hf.1)
  rw [hb, hxb] at hdd
  have hbl : body.length = aesBuf (timeBytes t' ++ d').length := by
    rw [← hxb, hC.enc_len, aesFrame_length]
  have hp := aesPayload_frame (timeBytes t' ++ d') (C.dec ck st.ivDec body) (by rw [hpl]; omega)
    (by rw [hC.dec_len, hbl]) hdd
  rw [hp] at hpay
  injection hpay with hpay
  rw [← hpay, decodeBody_time t' d' hto] at h5
  injection h5 with h5
  injection h5 with h5a h5b
  subst h5a h5b
  exact ⟨⟨iv, hx⟩, h2⟩

/-- **wrong_key_or_algo** (corollary).  Let the loading side use MAC function `tag` (i.e. *its* key and
algorithm).  If, under the ideal-MAC hypothesis for that key, the presented cipher text is not
`body ‖ tag body` for any body the server MAC'ed with it — a cookie made under a different key, a different
MAC algorithm, or by a different back-end — then both back-ends reject, clear the cookie, and do not
crash. -/
theorem wrong_key_or_algo (C : CbcAlg) (M : MacAlg) (hC : C.Lawful) (hM : M.Lawful) (hds : M.size < 2 ^ 32)
    (k ck : Bytes) (st : AesSt) (cookie cipher : Bytes) (now : Int) (signed : List Bytes)
    (hsz : cookie.length < 2 ^ 32) (hc : cookieCipher cookie = some cipher)
    (hU : Spec.Unforgeable (M.tag k) signed cipher)
    (hforeign : ∀ body ∈ signed, cipher ≠ body ++ M.tag k body) :
    hmacLoad M k now cookie = ⟨.fail, true⟩ ∧ aesLoadCookie C M ck k st now cookie = ⟨.fail, true⟩ := by
  have hne : cookie ≠ [] := by intro h; subst h; simp [cookieCipher] at hc
  have hlen := cookieCipher_length cookie cipher hc
  have hcs : Spec.SizeOk cipher.length := by unfold Spec.SizeOk; omega
  have key : ∀ dec : Bytes → Res Bytes, dec cipher ≠ .ub →
      (∀ p, dec cipher = .ok p → ∃ body, cipher = body ++ M.tag k body) →
      cookieLoad dec now cookie = ⟨.fail, true⟩ := by
    intro dec hub hs
    obtain ⟨r1, r2, r3⟩ := rejects_cleanly dec now cookie (fun c' hc' => by
      rw [hc] at hc'; injection hc' with hc'; subst hc'; exact hub)
    generalize ho : cookieLoad dec now cookie = o at *
    obtain ⟨res, cl⟩ := o
    cases res with
    | ub => simp at r1
    | fail =>
      have := r2 rfl
      simp only [] at this
      rw [this]
      cases cookie with
      | nil => exact absurd rfl hne
      | cons _ _ => rfl
    | ok v =>
      exfalso
      obtain ⟨d, t⟩ := v
      obtain ⟨_, _, cipher', plain, h3, h4, _⟩ := cookie_load_sound dec now t cookie d cl ho
      rw [hc] at h3
      injection h3 with h3
      subst h3
      obtain ⟨body, hb⟩ := hs plain h4
      exact hforeign body (hU body hb) hb
  constructor
  · apply key (hmacDecrypt M k)
    · exact hmac_rejects_cleanly M hM k cipher hcs
    · intro p hp
      exact ⟨p, hmac_load_sound M hM k cipher p hcs hp⟩
  · apply key (fun x => (aesDecrypt C M ck k st x).1)
    · exact aes_rejects_cleanly C M hC hM hds ck k st cipher hcs
    · intro p hp
      obtain ⟨body, hb, _⟩ := aes_load_sound C M hC hM hds ck k st cipher p hcs hp
      exact ⟨body, hb⟩

/-! ## confidentiality: bookkeeping only (PARTIAL) -/

theorem aesPayload_congr (f g : Bytes) (hl : f.length = g.length) (hd : f.drop 16 = g.drop 16) :
    Spec.aesPayload 16 f = Spec.aesPayload 16 g := by
  unfold Spec.aesPayload
  have h20 : f.drop (16 + 4) = g.drop (16 + 4) := by rw [← List.drop_drop, ← List.drop_drop, hd]
  rw [hd, hl, h20]

/-- **Bookkeeping behind the confidentiality clause (the clause itself is claimed PARTIAL).**
(1) the two IVs of a cipher object are the first 16+16 bytes drawn from the entropy source at its first
use, (2) a loaded object does not draw again (the IV then chains through `AES_cbc_encrypt`), (3) the
first plaintext block is an all-zero dummy, so the unknown IV only garbles a block that is thrown away,
(4) hence — for a CBC whose decryption depends on the IV only in the first block — `decrypt` gives the
same answer whatever the IV state of the decrypting object. -/
theorem confidentiality_partial (C : CbcAlg) (M : MacAlg) (hC : C.Lawful) (hM : M.Lawful) (hds : M.size < 2 ^ 32)
    (ck mk : Bytes) :
    (∀ e, aesLoad none e = ({ ivEnc := e.take 16, ivDec := (e.drop 16).take 16 }, e.drop 32)) ∧
    (∀ s e, aesLoad (some s) e = (s, e)) ∧
    (∀ p : Bytes, p.length < 2 ^ 32 → aesInput C p = some (aesFrame p) ∧ (aesFrame p).take 16 = zeros 16) ∧
    ((∀ k iv iv' x, (C.dec k iv x).drop C.block = (C.dec k iv' x).drop C.block) →
      ∀ st st' c, c.length < 2 ^ 32 → (aesDecrypt C M ck mk st c).1 = (aesDecrypt C M ck mk st' c).1) := by
  refine ⟨fun e => rfl, fun s e => rfl, ?_, ?_⟩
  · intro p hp
    refine ⟨aesInput_closed C hC.block_eq p hp, ?_⟩
    unfold aesFrame
    rw [List.append_assoc, List.append_assoc, List.take_left' (zeros_length 16)]
  · intro hiv st st' c hc
    have hb : C.block = 16 := hC.block_eq
    rw [aesDecrypt_closed C M hC hM ck mk st c (by omega) hds,
        aesDecrypt_closed C M hC hM ck mk st' c (by omega) hds]
    split
    · rfl
    · split
      · rfl
      · split
        · rfl
        · split
          · rfl
          · simp only []
            rw [aesFull_small C ck st.ivDec c _ (by omega), aesFull_small C ck st'.ivDec c _ (by omega)]
            have := hiv ck st.ivDec st'.ivDec (c.take (c.length - M.size))
            rw [hb] at this
            rw [aesPayload_congr _ _ (by rw [hC.dec_len, hC.dec_len]) this]



theorem set_dec_ivEnc (st : AesSt) (v : Bytes) : (st.set Gen.cbcDecIvSlot v).ivEnc = st.ivEnc := rfl

/-- `aes_cipher::decrypt` never writes the encryption IV, whatever the cipher text and on every path -/
theorem decrypt_keeps_ivEnc (C : CbcAlg) (M : MacAlg) (ck mk : Bytes) (st : AesSt) (c : Bytes) :
    (aesDecrypt C M ck mk st c).2.ivEnc = st.ivEnc := by
  unfold aesDecrypt
  simp only []
  repeat' split
  all_goals first
    | rfl
    | exact set_dec_ivEnc _ _

/-- `aes_cipher::encrypt` reads the state of the cbc object only through the encryption IV -/
theorem encrypt_reads_ivEnc_only (C : CbcAlg) (M : MacAlg) (ck mk : Bytes) (st st' : AesSt) (p : Bytes)
    (h : st.ivEnc = st'.ivEnc) :
    (aesEncrypt C M ck mk st p).1 = (aesEncrypt C M ck mk st' p).1 ∧
    (aesEncrypt C M ck mk st p).2.ivEnc = (aesEncrypt C M ck mk st' p).2.ivEnc := by
  unfold aesEncrypt
  simp only [get_enc_slot, set_enc_slot, h]
  repeat' split
  all_goals simp_all

/-- **Bookkeeping behind "an encrypting back-end does not reveal whether two payloads are equal".**
The IV `encrypt` uses comes from the entropy source at the object's first use and afterwards only from the
object's own encryption chain (last block of the CBC text it produced); it is never a function of data
supplied to `decrypt`: after ANY sequence of decryptions of ANY (client supplied) cipher texts, `encrypt`
produces exactly the cipher text, and leaves exactly the encryption IV, it would have without them.
(The two IV members of the cbc object are modelled in C16 as well: `Cppcms.C16.Props.cbc_interleaved_calls`.)
Which IV member `encrypt`/`decrypt` use is generated from `src/aes.cpp` (`Gen.cbcEncIvSlot/cbcDecIvSlot`). -/
theorem encrypt_iv_independent_of_prior_decrypt (C : CbcAlg) (M : MacAlg) (ck mk : Bytes) (st : AesSt)
    (cs : List Bytes) (p : Bytes) :
    let st' := cs.foldl (fun s c => (aesDecrypt C M ck mk s c).2) st
    (aesEncrypt C M ck mk st' p).1 = (aesEncrypt C M ck mk st p).1 ∧
    (aesEncrypt C M ck mk st' p).2.ivEnc = (aesEncrypt C M ck mk st p).2.ivEnc ∧
    (∀ e, (aesLoad none e).1.ivEnc = e.take 16) := by
  have hfold : ∀ (cs : List Bytes) (s : AesSt),
      (cs.foldl (fun s c => (aesDecrypt C M ck mk s c).2) s).ivEnc = s.ivEnc := by
    intro cs
    induction cs with
    | nil => intro s; rfl
    | cons c cs ih => intro s; rw [List.foldl_cons, ih, decrypt_keeps_ivEnc]
  obtain ⟨h1, h2⟩ := encrypt_reads_ivEnc_only C M ck mk _ st p (hfold cs st)
  exact ⟨h1, h2, fun e => rfl⟩


/-! ## configuration -/

theorem hmacCipherNew_ok (algo : String) (key : Bytes) (e : EncCfg) (h : hmacCipherNew algo key = .ok e) :
    16 ≤ key.length ∧ ∃ n, digestSize algo = some n ∧ e = .hmac (lower algo) key := by
  unfold hmacCipherNew at h
  have hr : Gen.hmacKeyRefused key.length = decide (key.length < 16) := rfl
  split at h
  · cases h
  · rename_i hk
    rw [hr] at hk
    cases hd : digestSize algo with
    | none => rw [hd] at h; cases h
    | some n =>
      rw [hd] at h
      injection h with h
      exact ⟨by simpa using hk, n, rfl, h.symm⟩

theorem aesFactoryNew_ok (mac : String → MacAlg) (algo : String) (k : Bytes) (e : EncCfg)
    (h : aesFactoryNew mac algo k = .ok e) :
    ∃ ck mk, e = .aes algo ck Gen.aesDefaultMac mk ∧ (digestSize Gen.aesDefaultMac).isSome := by
  unfold aesFactoryNew at h
  split at h
  · rename_i cks ds _ hds
    split at h
    · injection h with h; exact ⟨_, _, h.symm, by rw [hds]; rfl⟩
    · split at h
      · injection h with h; exact ⟨_, _, h.symm, by rw [hds]; rfl⟩
      · cases h
  · cases h
  · cases h

theorem aesFactory4New_ok (cbc : String) (ck : Bytes) (m : String) (mk : Bytes) (e : EncCfg)
    (h : aesFactory4New cbc ck m mk = .ok e) :
    e = .aes cbc ck (lower m) mk ∧ (digestSize m).isSome := by
  unfold aesFactory4New at h
  split at h
  · cases h
  · split at h
    · cases h
    · split at h
      · cases h
      · rename_i hd
        injection h with h; exact ⟨h.symm, by rw [hd]; rfl⟩


/-- **configuration refusals** of `session_pool::init` (+ `hmac_cipher`'s constructor), conditions as
generated from the source: (1) a CBC cipher without a MAC is refused; (2) client-side storage without any
method is refused; (3) mixing the two configuration styles is refused; (4) every accepted signature-only
configuration has a key of at least 16 bytes. -/
theorem config_refusals (mac : String → MacAlg) (c : ClientCfg) :
    (c.encryptor = "" → c.hmac = "" → c.cbc ≠ "" → poolInit mac c = .error .cbcWithoutMac) ∧
    (c.encryptor = "" → c.hmac = "" → c.cbc = "" → poolInit mac c = .error .noMethod) ∧
    (c.encryptor ≠ "" → (c.hmac ≠ "" ∨ c.cbc ≠ "") → poolInit mac c = .error .bothStyles) ∧
    (∀ algo key, poolInit mac c = .ok (.hmac algo key) → 16 ≤ key.length) := by
  have hemp : ∀ s : String, s.isEmpty = true ↔ s = "" := fun s => String.isEmpty_iff
  refine ⟨?_, ?_, ?_, ?_⟩
  · intro h1 h2 h3
    have e3 : c.cbc.isEmpty = false := by
      cases h : c.cbc.isEmpty
      · rfl
      · exact absurd ((hemp _).1 h) h3
    unfold poolInit
    simp only [h1, h2, e3]
    rfl
  · intro h1 h2 h3
    unfold poolInit
    simp only [h1, h2, h3]
    rfl
  · intro h1 h23
    have e1 : c.encryptor.isEmpty = false := by
      cases h : c.encryptor.isEmpty
      · rfl
      · exact absurd ((hemp _).1 h) h1
    unfold poolInit
    simp only [e1]
    rcases h23 with h | h
    · have e2 : c.hmac.isEmpty = false := by
        cases h' : c.hmac.isEmpty
        · rfl
        · exact absurd ((hemp _).1 h') h
      simp only [e2]
      cases c.cbc.isEmpty <;> rfl
    · have e2 : c.cbc.isEmpty = false := by
        cases h' : c.cbc.isEmpty
        · rfl
        · exact absurd ((hemp _).1 h') h
      simp only [e2]
      cases c.hmac.isEmpty <;> rfl
  · intro algo key h
    unfold poolInit at h
    simp only [] at h
    split at h
    · cases h
    · split at h
      · cases h
      · split at h
        · cases h
        · split at h
          · split at h
            · obtain ⟨hk, n, _, he⟩ := hmacCipherNew_ok _ _ _ h
              injection he with _ he; rw [he]; exact hk
            · split at h
              · obtain ⟨hk, n, _, he⟩ := hmacCipherNew_ok _ _ _ h
                injection he with _ he; rw [he]; exact hk
              · split at h
                · obtain ⟨_, _, he, _⟩ := aesFactoryNew_ok _ _ _ _ h
                  cases he
                · cases h
          · split at h
            · obtain ⟨hk, n, _, he⟩ := hmacCipherNew_ok _ _ _ h
              injection he with _ he; rw [he]; exact hk
            · obtain ⟨he, _⟩ := aesFactory4New_ok _ _ _ _ _ h
              cases he



theorem sha1_size : digestSize Gen.aesDefaultMac = some 20 := by decide +kernel

/-- **Key splitting / derivation of `aes_factory(algo,key)`**: an accepted key either has exactly the length
`cbc key ‖ 20-byte sha1 key` and is cut there (the two keys are disjoint segments of the configured key), or
it is at least as long as the CBC key and BOTH keys are derived from it by HMAC (sha256 for keys up to 256
bits, else sha512) over two DIFFERENT one-byte labels; any other length is refused. -/
theorem aes_factory_keys (mac : String → MacAlg) (algo : String) (k : Bytes) (cks : Nat)
    (hcks : cbcKeySize algo = some cks) :
    (k.length = cks + 20 →
      aesFactoryNew mac algo k = .ok (.aes algo (k.take cks) "sha1" (k.drop cks)) ∧ k.take cks ++ k.drop cks = k) ∧
    (k.length ≠ cks + 20 → cks ≤ k.length → cks * 8 < 512 →
      ∃ name, (name = "sha256" ∧ k.length * 8 ≤ 256 ∨ name = "sha512" ∧ 256 < k.length * 8) ∧
        aesFactoryNew mac algo k =
          .ok (.aes algo (((mac name).tag k [48]).take cks) "sha1" (((mac name).tag k [1]).take 20))) ∧
    (k.length ≠ cks + 20 → k.length < cks → aesFactoryNew mac algo k = .error .badKeyLength) ∧
    Gen.aesDeriveLabel1 ≠ Gen.aesDeriveLabel2 := by
  have hsplit : ∀ a b c, Gen.aesKeySplit a b c = decide (a = b + c) := by
    intro a b c; simp [Gen.aesKeySplit]
  have hder : ∀ a b, Gen.aesKeyDerive a b = (decide (a ≥ b) && decide (b * 8 < 512)) := fun _ _ => rfl
  have hsmall : ∀ a, Gen.aesDeriveSmall a = decide (a * 8 ≤ 256) := fun _ => rfl
  refine ⟨?_, ?_, ?_, by decide⟩
  · intro hl
    unfold aesFactoryNew
    rw [hcks, sha1_size]
    simp only [hsplit, hl, decide_true, if_true]
    refine ⟨?_, List.take_append_drop _ _⟩
    have : (k.drop cks).take 20 = k.drop cks := List.take_of_length_le (by simp; omega)
    rw [this]; rfl
  · intro hl hge h512
    unfold aesFactoryNew
    rw [hcks, sha1_size]
    simp only [hsplit, hl, decide_false, Bool.false_eq_true, if_false, hder, hsmall]
    have h1 : (decide (k.length ≥ cks) && decide (cks * 8 < 512)) = true := by simp [hge, h512]
    rw [if_pos h1]
    by_cases hs : k.length * 8 ≤ 256
    · refine ⟨"sha256", Or.inl ⟨rfl, hs⟩, ?_⟩
      simp only [hs, decide_true, if_true]
      rfl
    · refine ⟨"sha512", Or.inr ⟨rfl, by omega⟩, ?_⟩
      simp only [hs, decide_false, Bool.false_eq_true, if_false]
      rfl
  · intro hl hlt
    unfold aesFactoryNew
    rw [hcks, sha1_size]
    simp only [hsplit, hl, decide_false, Bool.false_eq_true, if_false, hder]
    have h1 : ¬ ((decide (k.length ≥ cks) && decide (cks * 8 < 512)) = true) := by
      simp; intro h; omega
    rw [if_neg h1]


/-! ## the run-time judge is a theorem about the model -/

/-- loading a cookie whose cipher text decrypts to `time_t t ‖ d` with `now ≤ t` succeeds with `(d, t)` -/
theorem cookieLoad_complete (dec : Bytes → Res Bytes) (now t : Int) (cookie cipher d : Bytes)
    (hc : cookieCipher cookie = some cipher) (hd : dec cipher = .ok (timeBytes t ++ d))
    (ht : Spec.TimeOk t) (hnow : now ≤ t) :
    cookieLoad dec now cookie = ⟨.ok (d, t), false⟩ := by
  rw [cookieLoad_closed]
  cases cookie with
  | nil => simp [cookieCipher] at hc
  | cons c0 rest =>
    rw [cookieCipher_cons] at hc
    simp only []
    split at hc
    · cases hc
    · rename_i h67
      rw [if_neg h67, hc]
      simp only [hd]
      rw [afterDecrypt_spec, decodeBody_time t d ht]
      simp only []
      rw [if_neg (by omega)]

/-- what the check's judge is told about a model/implementation answer -/
def acceptedOf (o : LoadOut) : Option (Int × Bytes) :=
  match o.result with
  | .ok (d, t) => some (t, d)
  | _ => none

/-- **The run-time judge is a theorem about the model.**  For any encryptor `dec` with MAC function `tag`
that (N) has no undefined behaviour on the presented cipher text, (S) accepts only `body ‖ tag body` and
returns, for an issued body, the plaintext that was saved with it, (I) round-trips the issued cipher texts;
and under (U) the ideal-MAC hypothesis at the presented cipher text — the property predicate
`Spec.judgeLoad`, which the check evaluates on the IMPLEMENTATION's answers, holds of the model's answer
for EVERY cookie string and clock value. -/
theorem judge_generic (dec : Bytes → Res Bytes) (tag : Bytes → Bytes) (now : Int) (cookie : Bytes)
    (issued : List Spec.Issued) (bodyOf : Spec.Issued → Bytes)
    (hN : ∀ c, cookieCipher cookie = some c → dec c ≠ .ub)
    (hS : ∀ c p, cookieCipher cookie = some c → dec c = .ok p →
      ∃ body, c = body ++ tag body ∧ ∀ i ∈ issued, body = bodyOf i → p = timeBytes i.timeout ++ i.data)
    (hU : ∀ c, cookieCipher cookie = some c → Spec.Unforgeable tag (issued.map bodyOf) c)
    (hI : ∀ i ∈ issued, i.cipher = bodyOf i ++ tag (bodyOf i) ∧ Spec.TimeOk i.timeout ∧
      dec i.cipher = .ok (timeBytes i.timeout ++ i.data)) :
    Spec.judgeLoad issued now cookie.isEmpty (cookieCipher cookie)
      (acceptedOf (cookieLoad dec now cookie)) (cookieLoad dec now cookie).cleared = true := by
  obtain ⟨r1, r2, r3⟩ := rejects_cleanly dec now cookie hN
  generalize ho : cookieLoad dec now cookie = o at *
  obtain ⟨res, cl⟩ := o
  cases res with
  | ub => simp at r1
  | ok v =>
    obtain ⟨d, t⟩ := v
    obtain ⟨hcl, hnow, cipher, plain, hc, hd, hb⟩ := cookie_load_sound dec now t cookie d cl ho
    obtain ⟨body, hsplit, hdet⟩ := hS cipher plain hc hd
    have hm := hU cipher hc body hsplit
    rw [List.mem_map] at hm
    obtain ⟨i, hi, hib⟩ := hm
    have hp := hdet i hi hib.symm
    obtain ⟨hic, hit, _⟩ := hI i hi
    rw [hp, decodeBody_time _ _ hit] at hb
    injection hb with hb
    injection hb with hb1 hb2
    subst hcl
    unfold Spec.judgeLoad acceptedOf
    simp only [hc]
    have hany : (issued.any fun j => j.cipher == cipher && j.data == d && j.timeout == t) = true := by
      rw [List.any_eq_true]
      refine ⟨i, hi, ?_⟩
      rw [hic, hib, ← hsplit, hb1, hb2]
      simp
    simp [hany, hnow]
  | fail =>
    have hcl := r2 rfl
    simp only [] at hcl
    unfold Spec.judgeLoad acceptedOf
    simp only [hcl]
    cases hc : cookieCipher cookie with
    | none => simp
    | some cipher =>
      simp only [beq_self_eq_true, Bool.true_and, Bool.not_eq_true', List.any_eq_false]
      intro i hi
      obtain ⟨_, hit, hdec⟩ := hI i hi
      by_cases hci : i.cipher = cipher
      · by_cases hn : now ≤ i.timeout
        · exfalso
          have := cookieLoad_complete dec now i.timeout cookie cipher i.data hc (by rw [← hci]; exact hdec) hit hn
          rw [ho] at this
          cases this
        · simp [hn]
      · simp [hci]


/-- the CBC text of a frame decrypts, under ANY IV, to a buffer whose framed payload is the framed plaintext -/
theorem aes_issued_payload (C : CbcAlg) (hC : C.Lawful) (ck iv iv' pl : Bytes) (hpl : pl.length + 36 ≤ 2 ^ 32) :
    Spec.aesPayload 16 (C.dec ck iv' (C.enc ck iv (aesFrame pl))) = some pl := by
  have hb : C.block = 16 := hC.block_eq
  have hf := aesBuf_facts pl.length
  have hdd := hC.dec_enc ck iv iv' (aesFrame pl) (by rw [hb, aesFrame_length]; exact hf.1)
  rw [hb] at hdd
  exact aesPayload_frame pl _ (by omega) (by rw [hC.dec_len, hC.enc_len, aesFrame_length]) hdd


/-- `judge_generic` for the hmac back-end: `saves` are the `(data, expiry)` pairs saved earlier under `k`;
the judge is given their cipher texts. -/
theorem judge_holds_hmac (M : MacAlg) (hM : M.Lawful) (k cookie : Bytes) (now : Int)
    (saves : List (Bytes × Int))
    (hT : ∀ x ∈ saves, Spec.TimeOk x.2 ∧ Spec.SizeOk (8 + x.1.length + M.size))
    (hsz : Spec.SizeOk cookie.length)
    (hU : ∀ c, cookieCipher cookie = some c →
      Spec.Unforgeable (M.tag k) (saves.map fun x => timeBytes x.2 ++ x.1) c) :
    Spec.judgeLoad (saves.map fun x => ⟨hmacEncrypt M k (timeBytes x.2 ++ x.1), x.1, x.2⟩) now cookie.isEmpty
      (cookieCipher cookie) (acceptedOf (hmacLoad M k now cookie)) (hmacLoad M k now cookie).cleared = true := by
  have hcs : ∀ c, cookieCipher cookie = some c → Spec.SizeOk c.length := by
    intro c hc
    have := cookieCipher_length cookie c hc
    unfold Spec.SizeOk at *; omega
  apply judge_generic (hmacDecrypt M k) (M.tag k) now cookie _ (fun i => timeBytes i.timeout ++ i.data)
  · intro c hc; exact hmac_rejects_cleanly M hM k c (hcs c hc)
  · intro c p hc hd
    refine ⟨p, hmac_load_sound M hM k c p (hcs c hc) hd, ?_⟩
    intro i _ h; exact h
  · intro c hc
    have := hU c hc
    rw [List.map_map]
    exact this
  · intro i hi
    rw [List.mem_map] at hi
    obtain ⟨x, hx, rfl⟩ := hi
    obtain ⟨ht, hs⟩ := hT x hx
    refine ⟨rfl, ht, ?_⟩
    have hl : (timeBytes x.2 ++ x.1).length = 8 + x.1.length := by rw [List.length_append, timeBytes_length]
    exact hmac_roundtrip M hM k _ (by rw [hl]; exact hs)

/-- `judge_generic` for the aes back-end: `saves` are `(iv, data, expiry)` triples (the IV the saving object
had); the loading object may be in any IV state. -/
theorem judge_holds_aes (C : CbcAlg) (M : MacAlg) (hC : C.Lawful) (hM : M.Lawful) (hds : M.size < 2 ^ 32)
    (ck mk : Bytes) (st : AesSt) (cookie : Bytes) (now : Int)
    (saves : List (Bytes × Bytes × Int))
    (hT : ∀ x ∈ saves, Spec.TimeOk x.2.2 ∧ x.2.1.length + 44 ≤ 2 ^ 32)
    (hsz : cookie.length < 2 ^ 32)
    (hU : ∀ c, cookieCipher cookie = some c → Spec.Unforgeable (M.tag mk)
      (saves.map fun x => C.enc ck x.1 (aesFrame (timeBytes x.2.2 ++ x.2.1))) c) :
    Spec.judgeLoad
      (saves.map fun x =>
        ⟨C.enc ck x.1 (aesFrame (timeBytes x.2.2 ++ x.2.1)) ++ M.tag mk (C.enc ck x.1 (aesFrame (timeBytes x.2.2 ++ x.2.1))),
         x.2.1, x.2.2⟩)
      now cookie.isEmpty (cookieCipher cookie)
      (acceptedOf (aesLoadCookie C M ck mk st now cookie)) (aesLoadCookie C M ck mk st now cookie).cleared = true := by
  have hcs : ∀ c, cookieCipher cookie = some c → c.length < 2 ^ 32 := by
    intro c hc
    have := cookieCipher_length cookie c hc
    omega
  have hpl : ∀ (t : Int) (d : Bytes), (timeBytes t ++ d).length = 8 + d.length := by
    intro t d; rw [List.length_append, timeBytes_length]
  -- the body of an issued item is its cipher text without the tag
  have hbody : ∀ e : Bytes, (e ++ M.tag mk e).take ((e ++ M.tag mk e).length - M.size) = e := by
    intro e
    rw [List.length_append, hM, Nat.add_sub_cancel, List.take_left' rfl]
  apply judge_generic (fun x => (aesDecrypt C M ck mk st x).1) (M.tag mk) now cookie _
    (fun i => i.cipher.take (i.cipher.length - M.size))
  · intro c hc
    exact aes_rejects_cleanly C M hC hM hds ck mk st c (by have := hcs c hc; unfold Spec.SizeOk; omega)
  · intro c p hc hd
    have hc32 := hcs c hc
    obtain ⟨body, hsplit, _, _, _, hv⟩ :=
      aes_load_sound C M hC hM hds ck mk st c p (by unfold Spec.SizeOk; omega) hd
    obtain ⟨_, _, _, hpay⟩ := hv hc32
    refine ⟨body, hsplit, ?_⟩
    intro i hi hb
    rw [List.mem_map] at hi
    obtain ⟨x, hx, rfl⟩ := hi
    obtain ⟨_, hlen⟩ := hT x hx
    simp only [] at hb ⊢
    rw [hbody] at hb
    rw [hb, aes_issued_payload C hC ck x.1 st.ivDec _ (by rw [hpl]; omega)] at hpay
    injection hpay with hpay
    exact hpay.symm
  · intro c hc
    have := hU c hc
    rw [List.map_map]
    have hfun : ((fun i : Spec.Issued => i.cipher.take (i.cipher.length - M.size)) ∘ fun x : Bytes × Bytes × Int =>
        (⟨C.enc ck x.1 (aesFrame (timeBytes x.2.2 ++ x.2.1)) ++ M.tag mk (C.enc ck x.1 (aesFrame (timeBytes x.2.2 ++ x.2.1))),
          x.2.1, x.2.2⟩ : Spec.Issued)) = fun x => C.enc ck x.1 (aesFrame (timeBytes x.2.2 ++ x.2.1)) := by
      funext x
      simp only [Function.comp]
      exact hbody _
    rw [hfun]
    exact this
  · intro i hi
    rw [List.mem_map] at hi
    obtain ⟨x, hx, rfl⟩ := hi
    obtain ⟨ht, hlen⟩ := hT x hx
    simp only []
    rw [hbody]
    refine ⟨rfl, ht, ?_⟩
    obtain ⟨c, st', h1, h2, h3⟩ := aes_roundtrip_core C M hC hM hds ck mk ⟨x.1, []⟩ st
      (timeBytes x.2.2 ++ x.2.1) (by rw [hpl]; omega)
    simp only [] at h2
    rw [← h2]
    exact h3

/-! ## The full statement, and what of it is proved

`FullStatement` (not provable in any executable model; kept here so that the gap is visible):

* for the REAL HMAC and AES-CBC, for every polynomially bounded client that has seen any number of cookies
  issued under a secret key, the probability that it presents a cookie which `load` accepts and which does
  not decode to an issued cipher text is negligible            — proved here: `authenticity_*`,
  `wrong_key_or_algo` with that event excluded by HYPOTHESIS (`Spec.Unforgeable`), and `load_sound_*`
  (acceptance ⇒ the MAC equation over the whole body) without any hypothesis on the MAC;
* cookies of an encrypting back-end are computationally independent of the payload (IND-CPA)
                                                               — proved here: only `confidentiality_partial`
  (fresh IVs per object from the entropy source, dummy first block, IV-independent decryption).

Everything else in the property's statement (round trip for every payload and back-end, expiry not in the
past, rejection without crash + cookie cleared for every cookie string) is proved at full strength, for
the model, under the primitives' contracts `MacAlg.Lawful` / `CbcAlg.Lawful`. -/

/-! ## Non-vacuity: the hypotheses are satisfiable, the statements read as intended -/

/-- a toy MAC with a 2-byte tag (sum of key and message bytes, message length) -/
def toyMac : MacAlg :=
  { tag := fun k m => [UInt8.ofNat ((k ++ m).foldl (fun a b => a + b.toNat) 0), UInt8.ofNat m.length], size := 2 }

/-- a toy "CBC": xor of every byte with the first key byte; the IV is ignored -/
def toyCbc : CbcAlg :=
  { enc := fun k _ x => x.map (· ^^^ k.headD 0), dec := fun k _ x => x.map (· ^^^ k.headD 0), block := 16, keySize := 16 }

example : toyMac.Lawful := fun _ _ => rfl

example : toyCbc.Lawful :=
  { block_eq := rfl
    enc_len := fun _ _ x => by simp [toyCbc]
    dec_len := fun _ _ x => by simp [toyCbc]
    dec_enc := fun k _ _ x _ => by
      have : (x.map (· ^^^ k.headD 0)).map (· ^^^ k.headD 0) = x := by
        rw [List.map_map]
        conv => rhs; rw [← List.map_id x]
        apply List.map_congr_left
        intro a _
        simp [UInt8.xor_assoc]
      show List.drop 16 ((x.map (· ^^^ k.headD 0)).map (· ^^^ k.headD 0)) = List.drop 16 x
      rw [this] }

example : Spec.TimeOk 1700000000 ∧ Spec.TimeOk (-5) := by unfold Spec.TimeOk; omega

/-- the ideal-MAC hypothesis holds of an honestly issued cipher text … -/
example : Spec.Unforgeable (toyMac.tag [7]) [[1, 2, 3]] ([1, 2, 3] ++ toyMac.tag [7] [1, 2, 3]) := by
  intro body h
  have hl := congrArg List.length h
  simp [toyMac] at hl
  match body, hl with
  | [a, b, c], _ =>
    simp [toyMac] at h
    simp [h.1, h.2.1, h.2.2.1]

/-- … and is a real restriction: it fails for a forged one (so the authenticity theorems are not vacuous
implications from an unsatisfiable or a trivial hypothesis) -/
example : ¬ Spec.Unforgeable (toyMac.tag [7]) [[1, 2, 3]] ([9] ++ toyMac.tag [7] [9]) := by
  intro h
  have := h [9] rfl
  simp at this

/-- concrete runs of the model (hmac back-end): save, load at the expiry second, one second later, and a
cookie with one flipped character -/
example : hmacSave toyMac [7] 5 [104, 105] = .ok [67, 66, 81, 65, 65, 65, 65, 65, 65, 65, 65, 66, 111, 97, 100, 48, 75] := by
  decide +kernel
example : hmacLoad toyMac [7] 5 [67, 66, 81, 65, 65, 65, 65, 65, 65, 65, 65, 66, 111, 97, 100, 48, 75] = ⟨.ok ([104, 105], 5), false⟩ := by
  decide +kernel
example : hmacLoad toyMac [7] 6 [67, 66, 81, 65, 65, 65, 65, 65, 65, 65, 65, 66, 111, 97, 100, 48, 75] = ⟨.fail, true⟩ := by
  decide +kernel
example : hmacLoad toyMac [7] 5 [67, 66, 81, 65, 65, 65, 65, 65, 65, 65, 65, 66, 111, 97, 100, 48, 76] = ⟨.fail, true⟩ := by
  decide +kernel
example : hmacLoad toyMac [7] 5 [] = ⟨.fail, false⟩ := by decide +kernel

/-- concrete runs of the model (aes back-end): save under one IV state, load under another -/
example : aesSave toyCbc toyMac [9] [7] ⟨[], []⟩ 5 [104, 105] = .ok [67, 67, 81, 107, 74, 67, 81, 107, 74, 67, 81, 107, 74, 67, 81, 107, 74, 67, 81, 107, 74, 67, 81, 77, 74, 67, 81, 107, 77, 67, 81, 107, 74, 67, 81, 107, 74, 67, 87, 70, 103, 67, 81, 110, 84, 73, 65] := by
  decide +kernel
example : aesLoadCookie toyCbc toyMac [9] [7] ⟨[1], [2]⟩ 5 [67, 67, 81, 107, 74, 67, 81, 107, 74, 67, 81, 107, 74, 67, 81, 107, 74, 67, 81, 107, 74, 67, 81, 77, 74, 67, 81, 107, 77, 67, 81, 107, 74, 67, 81, 107, 74, 67, 87, 70, 103, 67, 81, 110, 84, 73, 65] = ⟨.ok ([104, 105], 5), false⟩ := by
  decide +kernel
example : aesLoadCookie toyCbc toyMac [9] [7] ⟨[1], [2]⟩ 5 [67, 67, 81, 107, 74, 67, 81, 107, 74, 67, 81, 107, 74, 67, 81, 107, 74, 67, 81, 107, 74, 67, 81, 77, 74, 67, 81, 107, 77, 67, 81, 107, 74, 67, 81, 107, 74, 67, 87, 70, 104, 67, 81, 110, 84, 73, 65] = ⟨.fail, true⟩ := by
  decide +kernel

end Cppcms.C05.Props
