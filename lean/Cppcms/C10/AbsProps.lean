import Cppcms.C10.Ideal
/-!
# C10 — the coherence theorems over the message-level transport
(`Props.lean` transfers them to the wire-level model with `step_eq_astep`.)
-/
namespace Cppcms.C10
open Cppcms Cppcms.C07

theorem abs_init' (limit : Nat) : abs (State.init limit none) = C07.Spec.empty := by
  funext k; simp [abs, State.init, alookup, C07.Spec.empty]

theorem init_servers (sl : List Nat) (ll : List (Option Nat)) (i : Nat) :
    (Cluster.init sl ll).servers[i]? = (sl[i]?).map fun l => State.init l none := by
  simp [Cluster.init]

theorem fresh_init (sl : List Nat) (ll : List (Option Nat)) : Fresh (Cluster.init sl ll) := by
  have hsrv : ∀ (i : Nat) (s : State), (Cluster.init sl ll).servers[i]? = some s → ∃ l, s = State.init l none := by
    intro i s h
    rw [init_servers] at h
    cases hl : sl[i]? with
    | none => rw [hl] at h; cases h
    | some l => rw [hl] at h; simp only [Option.map_some, Option.some.injEq] at h; exact ⟨l, h.symm⟩
  have hl1 : ∀ (c : Nat) (l : State), (Cluster.init sl ll).l1 c = some l → ∃ lim, l = State.init lim none := by
    intro c l h
    simp only [Cluster.l1, Cluster.init, List.getD_eq_getElem?_getD, List.getElem?_map] at h
    cases hc : ll[c]? with
    | none => rw [hc] at h; cases h
    | some o =>
      rw [hc] at h
      cases o with
      | none => cases h
      | some lim => simp only [Option.map_some, Option.getD_some, Option.some.injEq] at h; exact ⟨lim, h.symm⟩
  refine ⟨⟨fun i s h => ?_, fun c l h => ?_⟩, fun i s h => ?_, fun c l h => ?_⟩
  · obtain ⟨l, rfl⟩ := hsrv i s h; exact C07.inv_init l none
  · obtain ⟨lim, rfl⟩ := hl1 c l h; exact C07.inv_init lim none
  · obtain ⟨l, rfl⟩ := hsrv i s h; exact ⟨rfl, abs_init' l⟩
  · obtain ⟨lim, rfl⟩ := hl1 c l h; exact abs_init' lim

/-- **coherent fetch** (message level): whatever path the fetch takes — no L1, L1 miss, L1 hit
confirmed by the server, L1 hit refreshed — the value, deadline and generation it returns are those
of the entry the responsible server holds at that moment, and that entry is not expired on the
server's clock. -/
theorem coherent_fetch_abs {cl0 : Cluster} (hf : Fresh cl0) (ops : List Op) (hlen : ops.length < 2 ^ 64)
    (c : Nat) (nowC nowS : Time) (k : Key) (tags : Bool) (v : Val) (ts : List Key) (d : Time) (g : Gen)
    (hit : (astep (arun cl0 ops) (.fetch c nowC nowS k tags)).2 = .hit v ts d g) :
    ∃ e, home (arun cl0 ops) k = some e ∧ e.val = v ∧ e.deadline = d ∧ e.gen = g ∧ ¬ d < nowS ∧
      (tags = true → ∀ t ∈ backTrigs e.trigs, t ∈ ts) := by
  have hinv := cinv_run hf ops hlen
  have horg := (fetchOp_spec hinv.invs c nowC nowS k tags).2 v ts d g hit
  cases horg with
  | fresh e h hv hd hg hl htr => exact ⟨e, h, hv, hd, hg, hl, htr⟩
  | confirmed eL es hL hv hd hg hs hsg hl htr =>
    obtain ⟨e', hw, r1, r2, r3, r4⟩ := hinv.l1 c k eL hL
    have hws : Was cl0 ops (shard cl0.servers.length k) k es := by
      apply was_cur
      simp only [home, hinv.len] at hs
      exact hs
    obtain ⟨_, he⟩ := hinv.uniq _ k k e' es hw hws (by rw [r3, hg, hsg])
    subst he
    exact ⟨e', hs, by rw [r1, hv], by rw [r2, hd], hsg, by rw [← hd, ← r2]; exact hl,
      fun ht t hm => by rw [htr ht]; exact r4 t hm⟩

/-- the same, as "a direct fetch on the responsible server answers the same" -/
theorem coherent_fetch_server_abs {cl0 : Cluster} (hf : Fresh cl0) (ops : List Op) (hlen : ops.length < 2 ^ 64)
    (c : Nat) (nowC nowS : Time) (k : Key) (tags : Bool) (v : Val) (ts : List Key) (d : Time) (g : Gen)
    (hit : (astep (arun cl0 ops) (.fetch c nowC nowS k tags)).2 = .hit v ts d g) :
    ∃ s, (arun cl0 ops).servers[shard cl0.servers.length k]? = some s ∧
      ∃ ts', (C07.step s (.fetch nowS k)).2 = .hit v ts' d g := by
  obtain ⟨e, he, hv, hd, hg, hl, _⟩ := coherent_fetch_abs hf ops hlen c nowC nowS k tags v ts d g hit
  simp only [home, arun_length] at he
  cases hs : (arun cl0 ops).servers[shard cl0.servers.length k]? with
  | none => rw [sabs_none hs] at he; cases he
  | some s =>
    rw [sabs_of hs] at he
    refine ⟨s, rfl, e.trigs, ?_⟩
    rw [abs_fetch_hit he (by rw [hd]; exact hl), hv, hd, hg]

/-- **coherence with the ideal shared cache** (message level), for histories whose stores carry
contents the wire format preserves: a hit carries the value and deadline of the latest store of the
key by any node that no node has invalidated since (rise of one of its triggers or of the key, clear). -/
theorem coherent_fetch_ideal_abs (sl : List Nat) (ll : List (Option Nat)) (ops : List Op) (hlen : ops.length < 2 ^ 64)
    (hwf : HistWF ops)
    (c : Nat) (nowC nowS : Time) (k : Key) (tags : Bool) (v : Val) (ts : List Key) (d : Time) (g : Gen)
    (hit : (astep (arun (Cluster.init sl ll) ops) (.fetch c nowC nowS k tags)).2 = .hit v ts d g) :
    ∃ e, idealOf ops k = some e ∧ e.val = v ∧ e.deadline = d ∧ ¬ d < nowS ∧
      (tags = true → KeysNulFree ops → ∀ t ∈ e.trigs, t ∈ ts) := by
  obtain ⟨e, he, hv, hd, hg, hl, htr⟩ :=
    coherent_fetch_abs (fresh_init sl ll) ops hlen c nowC nowS k tags v ts d g hit
  simp only [home, arun_length] at he
  generalize hi : shard (Cluster.init sl ll).servers.length k = i at he
  cases hs : (arun (Cluster.init sl ll) ops).servers[i]? with
  | none => rw [sabs_none hs] at he; cases he
  | some s =>
    rw [sabs_of hs] at he
    rw [server_arun, init_servers] at hs
    cases hli : sl[i]? with
    | none => rw [hli] at hs; cases hs
    | some lim =>
      rw [hli] at hs
      simp only [Option.map_some, Option.some.injEq] at hs
      subst hs
      have hsub := C07.refines_run (C07.inv_init lim none)
        (sp := C07.Spec.empty) (by rw [abs_init']; exact sub_refl _)
        (ops.filterMap (projOp (Cluster.init sl ll).servers.length i))
      have hspec := hsub k e he
      have hrel := rel_run (Cluster.init sl ll).servers.length i ops hwf (State.init lim none) C07.Spec.empty C07.Spec.empty
        (by intro k e _ h; simp [C07.Spec.empty] at h)
      obtain ⟨e', h1, h2, h3, h4⟩ := hrel k e hi hspec
      refine ⟨e', h1, by rw [h2, hv], by rw [h3, hd], hl, ?_⟩
      intro ht hkn t hm
      -- the ideal entry's names are NUL-free, hence so are the server entry's: they come back unchanged
      have hnf := ideal_nulfree ops hwf hkn C07.Spec.empty (by intro k e h; simp [C07.Spec.empty] at h)
      have hnul : ∀ t ∈ e.trigs, (0 : UInt8) ∉ t := fun t' ht' => hnf k e' h1 t' ((h4 t').mpr ht')
      apply htr ht
      rw [backTrigs_nulfree e.trigs hnul]
      exact mem_sortSet.mpr ((h4 t).mp hm)

theorem unlimited_init (l : Nat) (h : l = 0) : Unlimited (State.init l none) :=
  ⟨C07.inv_init l none, by simp [State.init, h], rfl⟩

/-- **no spurious miss** (message level): no server has an entry limit, the stores are `WFwire`; if the ideal
shared cache holds `k` and the entry is not expired on the server's clock, a fetch of `k` by any node —
whatever its L1 holds, however small the L1 — finds it, with that value and deadline. -/
theorem live_entry_found_abs (sl : List Nat) (ll : List (Option Nat)) (hsl : ∀ l ∈ sl, l = 0) (ops : List Op)
    (hlen : ops.length < 2 ^ 64) (hwf : HistWF ops) (c : Nat) (nowC nowS : Time) (k : Key) (tags : Bool) (e' : Entry)
    (hn : 0 < sl.length) (hid : idealOf ops k = some e') (hlive : ¬ e'.deadline < nowS) :
    ∃ ts g, (astep (arun (Cluster.init sl ll) ops) (.fetch c nowC nowS k tags)).2 = .hit e'.val ts e'.deadline g := by
  have hlt : shard sl.length k < sl.length := by
    unfold shard Gen.hashFinish
    split
    · omega
    · exact Nat.mod_lt _ hn
  generalize hi : shard sl.length k = i at hlt
  obtain ⟨lim, hlim⟩ : ∃ lim, sl[i]? = some lim := ⟨sl[i], by simp [hlt]⟩
  have hl0 : lim = 0 := hsl lim (List.mem_of_getElem? hlim)
  have hsrv : (arun (Cluster.init sl ll) ops).servers[i]? =
      some (C07.run (State.init lim none) (ops.filterMap (projOp (Cluster.init sl ll).servers.length i))) := by
    rw [server_arun, init_servers, hlim]; rfl
  have hunl := unlimited_init lim hl0
  have hq : ∀ o ∈ ops.filterMap (projOp (Cluster.init sl ll).servers.length i), o.quiet := by
    intro o ho
    obtain ⟨op, _, hop⟩ := List.mem_filterMap.mp ho
    exact projOp_quiet _ _ op o hop
  have hex := exact_run hunl.inv hunl.limit hunl.cap _ hq
  rw [abs_init'] at hex
  have hlen0 : (Cluster.init sl ll).servers.length = sl.length := by simp [Cluster.init]
  have hback := relBack_run (Cluster.init sl ll).servers.length i ops hwf (State.init lim none) hunl
    C07.Spec.empty C07.Spec.empty (by intro k e _ h; simp [C07.Spec.empty] at h)
  obtain ⟨e, h1, h2, h3, _⟩ := hback k e' (by rw [hlen0]; exact hi) hid
  rw [← hex] at h1
  -- the server finds it
  have hfs := abs_fetch_hit h1 (by rw [h3]; exact hlive)
  have hcl : (arun (Cluster.init sl ll) ops).servers[shard (arun (Cluster.init sl ll) ops).servers.length k]? =
      some (C07.run (State.init lim none) (ops.filterMap (projOp (Cluster.init sl ll).servers.length i))) := by
    rw [arun_length]; rw [hlen0] at hsrv ⊢; rw [hi]; exact hsrv
  obtain ⟨v', ts', d', g', hhit⟩ := fetchOp_hits (arun (Cluster.init sl ll) ops) c nowC nowS k tags _ hcl hfs
  have hhit' : (astep (arun (Cluster.init sl ll) ops) (.fetch c nowC nowS k tags)).2 = .hit v' ts' d' g' := hhit
  obtain ⟨e2, i1, i2, i3, _⟩ := coherent_fetch_ideal_abs sl ll ops hlen hwf c nowC nowS k tags v' ts' d' g' hhit'
  rw [hid] at i1
  cases i1
  exact ⟨ts', g', by rw [hhit', i2, i3]⟩

end Cppcms.C10
