import Cppcms.C10.Abstract
/-!
# C10 — the wire codec agrees with the message-level transport

For every request the client builds (`reqX`), what the server handler makes of it (`srvHandle` on
the `size` payload bytes) and what the client makes of the reply (`cliDecodeFetch`) is what the
message-level transport of `Abstract.lean` says, provided the lengths fit the `uint32_t` header
fields / the `int` loop counters (< 2^31) and deadlines are `int64_t`.  Everything here is
arithmetic on the generated header layout; a change of the layout, of an opcode, of the frame
validation or of the up-to-date test in the source changes `Gen.lean` and re-runs these proofs.
-/
namespace Cppcms.C10
open Cppcms Cppcms.C07

theorem ofI64_toU64 (d : Int) (h : -9223372036854775808 ≤ d ∧ d < 9223372036854775808) : ofI64 (toU64 d) = d := by
  unfold ofI64 toU64
  omega
theorem toU64_lt (d : Int) : toU64 d < 18446744073709551616 := by
  unfold toU64; omega
theorem join64 (n : Nat) (h : n < 18446744073709551616) : n % u32 % u32 + u32 * (n / u32 % u32) = n := by
  unfold u32; omega

/-- the fields `session::store` reads from the header `tcp_cache::store` built (whatever the layout) -/
theorem reqStore_fields (k v : Bytes) (trigs : List Key) (d : Time)
    (hsz : k.length + v.length + (trigBytes (sortSet trigs)).length < 4294967296) :
    (reqStore k v trigs d).2 = k ++ v ++ trigBytes (sortSet trigs) ∧
    (reqStore k v trigs d).1.get Gen.wOpcode = Gen.opStore ∧
    (reqStore k v trigs d).1.get Gen.wSize = (k ++ v ++ trigBytes (sortSet trigs)).length ∧
    (reqStore k v trigs d).1.get Gen.wStoreKeyLen = k.length ∧
    (reqStore k v trigs d).1.get Gen.wStoreDataLen = v.length ∧
    (reqStore k v trigs d).1.get Gen.wStoreTriggersLen = (trigBytes (sortSet trigs)).length ∧
    (reqStore k v trigs d).1.get64 Gen.wStoreTimeout = toU64 d := by
  have hk : k.length % 4294967296 = k.length := Nat.mod_eq_of_lt (by omega)
  have hv : v.length % 4294967296 = v.length := Nat.mod_eq_of_lt (by omega)
  have ht : (trigBytes (sortSet trigs)).length % 4294967296 = (trigBytes (sortSet trigs)).length := Nat.mod_eq_of_lt (by omega)
  simp [reqStore, Hdr.put, Hdr.put64, Hdr.get, Hdr.get64, Hdr.zero, Gen.hdrWords, List.replicate, Gen.wOpcode, Gen.opStore, Gen.wSize,
    Gen.wStoreKeyLen, Gen.wStoreDataLen, Gen.wStoreTriggersLen, Gen.wStoreTimeout, u32, hk, hv, ht]
  have := toU64_lt d
  omega

theorem tcpStore_eq (s : State) (now : Time) (k v : Bytes) (trigs : List Key) (d : Time)
    (hsz : k.length + v.length + (trigBytes (sortSet trigs)).length < 2147483648)
    (hd : -9223372036854775808 ≤ d ∧ d < 9223372036854775808) :
    tcpStore s now k v trigs d = aStore s now k v trigs d := by
  obtain ⟨f1, f2, f3, f4, f5, f6, f7⟩ := reqStore_fields k v trigs d (by omega)
  unfold tcpStore
  rcases hreq : reqStore k v trigs d with ⟨h, data⟩
  rw [hreq] at f1 f2 f3 f4 f5 f6 f7
  simp only at f1 f2 f3 f4 f5 f6 f7
  subst f1
  simp only [transmit, srvHandle, f2, f3, List.take_length, Gen.opStore, Gen.opFetch, Gen.opRise, Gen.opClear]
  rw [if_neg (by decide), if_neg (by decide), if_neg (by decide), if_pos trivial]
  simp only [srvStore, f3, f4, f5, f6, f7, ofI64_toU64 d hd]
  have hbad : Gen.storeBad k.length v.length (trigBytes (sortSet trigs)).length (k ++ v ++ trigBytes (sortSet trigs)).length
      = decide (k = []) := by
    simp only [Gen.storeBad, Gen.storeLenSum, List.length_append]
    rw [Nat.mod_eq_of_lt (by omega)]
    cases k <;> simp
  rw [hbad]
  have e1 : List.take k.length (k ++ v ++ trigBytes (sortSet trigs)) = k := by
    rw [List.append_assoc]; exact List.take_left' rfl
  have e2 : List.drop k.length (k ++ v ++ trigBytes (sortSet trigs)) = v ++ trigBytes (sortSet trigs) := by
    rw [List.append_assoc]; exact List.drop_left' rfl
  have e3 : List.drop (k.length + v.length) (k ++ v ++ trigBytes (sortSet trigs)) = trigBytes (sortSet trigs) :=
    List.drop_left' (by simp)
  rw [e1, e2, e3, List.take_left' rfl, List.take_length]
  have e4 : srvLoadTriggers (trigBytes (sortSet trigs)) (trigBytes (sortSet trigs)).length = wireTrigs trigs := by
    unfold srvLoadTriggers wireTrigs
    rw [if_neg (by simp only [Gen.intLimit]; omega)]
  rw [e4]
  unfold aStore storeOpOf
  by_cases hk0 : k = []
  · simp [hk0]
  · simp only [hk0, decide_false, Bool.false_eq_true, if_false]
    cases wireTrigs trigs <;> rfl

theorem reqFetch_fields (k : Key) (wantTags : Bool) (cur : Option Gen) (hk : k.length < 4294967296) :
    (reqFetch k wantTags cur).2 = k ∧
    (reqFetch k wantTags cur).1.get Gen.wOpcode = Gen.opFetch ∧
    (reqFetch k wantTags cur).1.get Gen.wSize = k.length ∧
    (reqFetch k wantTags cur).1.bit Gen.wFetchTransferTriggers Gen.bitFetchTransferTriggers = wantTags ∧
    (reqFetch k wantTags cur).1.bit Gen.wFetchTransferIfNotUptodate Gen.bitFetchTransferIfNotUptodate = cur.isSome ∧
    (∀ g, cur = some g → (reqFetch k wantTags cur).1.get64 Gen.wFetchCurrentGen = g.toNat) := by
  have hm : k.length % 4294967296 = k.length := Nat.mod_eq_of_lt hk
  cases cur with
  | none =>
    cases wantTags <;>
    simp [reqFetch, Hdr.setBit, Hdr.bit, Hdr.put, Hdr.get, Hdr.zero, Gen.wOpcode, Gen.opFetch, Gen.wSize, Gen.wFetchKeyLen,
      Gen.wFetchTransferTriggers, Gen.bitFetchTransferTriggers, Gen.wFetchTransferIfNotUptodate, Gen.bitFetchTransferIfNotUptodate,
      Gen.hdrWords, List.replicate, u32, hm]
  | some g =>
    have hg : g.toNat % 4294967296 + 4294967296 * (g.toNat / 4294967296 % 4294967296) = g.toNat := by
      have := g.toNat_lt; omega
    cases wantTags <;>
    simp [reqFetch, Hdr.setBit, Hdr.bit, Hdr.put, Hdr.put64, Hdr.get, Hdr.get64, Hdr.zero, Gen.wOpcode, Gen.opFetch, Gen.wSize, Gen.wFetchKeyLen,
      Gen.wFetchTransferTriggers, Gen.bitFetchTransferTriggers, Gen.wFetchTransferIfNotUptodate, Gen.bitFetchTransferIfNotUptodate,
      Gen.wFetchCurrentGen, Gen.hdrWords, List.replicate, u32, hm, hg]

theorem decode_data (tinu : Bool) (v : Val) (tb : Bytes) (d : Time) (g : Gen)
    (hsz : v.length + tb.length < 2147483648) (hd : -9223372036854775808 ≤ d ∧ d < 9223372036854775808) :
    let out := v ++ tb
    let hh := (replyOp Gen.opData).put Gen.wDataDataLen v.length
    let hh := hh.put Gen.wDataTriggersLen (out.length - hh.get Gen.wDataDataLen)
    let hh := hh.put Gen.wSize out.length
    let hh := hh.put64 Gen.wDataGeneration g.toNat
    let hh := hh.put64 Gen.wDataTimeout (toU64 d)
    cliDecodeFetch tinu hh (out.take (hh.get Gen.wSize)) = .found v (cliLoadTriggers tb tb.length) d g := by
  have hv : v.length % 4294967296 = v.length := Nat.mod_eq_of_lt (by omega)
  have ht : (v.length + tb.length - v.length) % 4294967296 = tb.length := by rw [Nat.mod_eq_of_lt (by omega)]; omega
  have ho : (v.length + tb.length) % 4294967296 = v.length + tb.length := Nat.mod_eq_of_lt (by omega)
  have hg : g.toNat % 4294967296 % 4294967296 + 4294967296 * (g.toNat / 4294967296 % 4294967296) = g.toNat := by
    have := g.toNat_lt; omega
  have hdd : toU64 d % 4294967296 % 4294967296 + 4294967296 * (toU64 d / 4294967296 % 4294967296) = toU64 d := by
    have := toU64_lt d; omega
  simp only [replyOp, cliDecodeFetch, Hdr.put, Hdr.put64, Hdr.get, Hdr.get64, Hdr.zero, Gen.hdrWords, List.replicate, Gen.wOpcode, Gen.opData, Gen.opUptodate,
    Gen.wDataDataLen, Gen.wDataTriggersLen, Gen.wSize, Gen.wDataGeneration, Gen.wDataTimeout, u32, List.set, List.getD_cons_zero, List.getD_cons_succ,
    List.length_append, hv, ht, ho, hg, hdd]
  have e0 : List.take (v.length + tb.length) (v ++ tb) = v ++ tb := List.take_of_length_le (by simp)
  rw [e0, List.take_left' rfl, List.drop_left' rfl, List.take_length, ofI64_toU64 d hd]
  have e1 : UInt64.ofNat g.toNat = g := by simp
  rw [e1]
  cases tinu <;> simp

theorem cliLoad_nil : cliLoadTriggers [] 0 = [] := by
  simp [cliLoadTriggers, Gen.intLimit, loadAux]

theorem cliLoad_back (ts : List Key) (h : (trigBytes (sortSet ts)).length < 2147483648) :
    cliLoadTriggers (trigBytes (sortSet ts)) (trigBytes (sortSet ts)).length = backTrigs ts := by
  unfold cliLoadTriggers backTrigs
  rw [if_neg (by simp only [Gen.intLimit]; omega)]

theorem decode_simple (tinu : Bool) (opc : Nat) (h1 : opc ≠ Gen.opData) (h2 : opc ≠ Gen.opUptodate) (hlt : opc < 4294967296) :
    cliDecodeFetch tinu (replyOp opc) [] = .notFound := by
  have : opc % 4294967296 = opc := Nat.mod_eq_of_lt hlt
  simp only [replyOp, cliDecodeFetch, Hdr.put, Hdr.get, Hdr.zero, Gen.hdrWords, List.replicate, Gen.wOpcode, u32, List.set,
    List.getD_cons_zero, this]
  simp [h1, h2]

theorem decode_uptodate : cliDecodeFetch true (replyOp Gen.opUptodate) [] = .upToDate := by
  simp [replyOp, cliDecodeFetch, Hdr.put, Hdr.get, Hdr.zero, Gen.hdrWords, List.replicate, Gen.wOpcode, u32, Gen.opUptodate]

theorem tcpFetch_eq (s : State) (now : Time) (k : Key) (wantTags : Bool) (cur : Option Gen) (hk : k.length < 4294967296)
    (hsm : ∀ v ts d g, (C07.step s (.fetch now k)).2 = .hit v ts d g →
      v.length + (trigBytes (sortSet ts)).length < 2147483648 ∧ -9223372036854775808 ≤ d ∧ d < 9223372036854775808) :
    tcpFetch s now k wantTags cur = aFetch s now k wantTags cur := by
  obtain ⟨f1, f2, f3, f4, f5, f6⟩ := reqFetch_fields k wantTags cur hk
  unfold tcpFetch
  rcases hreq : reqFetch k wantTags cur with ⟨h, data⟩
  rw [hreq] at f1 f2 f3 f4 f5 f6
  simp only at f1 f2 f3 f4 f5 f6
  subst f1
  simp only [transmit, srvHandle, f2, f3, List.take_length, if_true]
  unfold srvFetch aFetch
  simp only [f4, f5]
  rcases hst : C07.step s (.fetch now data) with ⟨s', o⟩
  cases o with
  | hit v ts d g =>
    obtain ⟨hs1, hs2⟩ := hsm v ts d g (by rw [hst])
    simp only
    have hup : Gen.srvUpToDate cur.isSome g.toNat (h.get64 Gen.wFetchCurrentGen) = decide (cur = some g) := by
      cases cur with
      | none => simp [Gen.srvUpToDate]
      | some g0 =>
        rw [f6 g0 rfl]
        simp only [Gen.srvUpToDate, Option.isSome_some, Bool.true_and, beq_iff_eq, Option.some.injEq]
        by_cases hg : g0 = g
        · simp [hg]
        · have : ¬ g.toNat = g0.toNat := fun hh => hg (UInt64.toNat_inj.mp hh).symm
          simp [hg, this]
    rw [hup]
    by_cases hc : cur = some g
    · simp only [hc, decide_true, if_true, Option.isSome_some]
      rw [decode_uptodate]
    · simp only [hc, decide_false, Bool.false_eq_true, if_false]
      cases wantTags with
      | true =>
        simp only [if_true]
        have := decode_data cur.isSome v (trigBytes (sortSet ts)) d g hs1 hs2
        simp only at this
        rw [this, cliLoad_back ts (by omega)]
      | false =>
        simp only [Bool.false_eq_true, if_false]
        have := decode_data cur.isSome v [] d g (by simpa using (by omega : v.length < 2147483648)) hs2
        simp only [List.length_nil] at this
        rw [this, cliLoad_nil]
  | miss => simp only; rw [decode_simple _ _ (by decide) (by decide) (by decide)]
  | done => simp only; rw [decode_simple _ _ (by decide) (by decide) (by decide)]
  | stats a b => simp only; rw [decode_simple _ _ (by decide) (by decide) (by decide)]

theorem tcpRise_eq (s : State) (t : Key) (ht : t.length < 4294967296) : tcpRise s t = (C07.step s (.rise t)).1 := by
  have hm : t.length % 4294967296 = t.length := Nat.mod_eq_of_lt ht
  simp [tcpRise, reqRise, transmit, srvHandle, Hdr.put, Hdr.get, Hdr.zero, Gen.hdrWords, List.replicate, Gen.wOpcode, Gen.wSize,
    Gen.wRiseTriggerLen, Gen.opRise, Gen.opFetch, u32, hm]

theorem tcpClear_eq (s : State) : tcpClear s = (C07.step s .clear).1 := by
  simp [tcpClear, reqClear, transmit, srvHandle, Hdr.put, Hdr.get, Hdr.zero, Gen.hdrWords, List.replicate, Gen.wOpcode, Gen.wSize,
    Gen.opClear, Gen.opRise, Gen.opFetch, u32]

theorem tcpStats_eq (s : State) : tcpStats s = (s.size % u32, s.trigCount % u32) := by
  simp [tcpStats, reqStats, transmit, srvHandle, replyOp, Hdr.put, Hdr.get, Hdr.zero, Gen.hdrWords, List.replicate, Gen.wOpcode,
    Gen.opClear, Gen.opRise, Gen.opFetch, Gen.opStore, Gen.opStats, Gen.opOutStats, Gen.wOutStatsKeys, Gen.wOutStatsTriggers, u32]

end Cppcms.C10
