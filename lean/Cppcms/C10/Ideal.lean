import Cppcms.C10.Coherence
import Cppcms.C10.TrigLemmas
import Cppcms.C10.Spec
/-!
# C10 — from the servers to the ideal shared cache

* `projOp n i`: what a client operation asks of server `i` (of `n`); `server_arun`: server `i`'s
  state after a cluster history is the C07 run of the projected history;
* `rel_run`: for histories whose stores are `WFwire`, what the C07 specification map of server `i`
  holds for one of its keys is what the ideal shared cache (`Spec.ideal`, one map for all nodes)
  holds — value, deadline and trigger set.
-/
namespace Cppcms.C10
open Cppcms Cppcms.C07

def projOp (n i : Nat) : Op → Option C07.Op
  | .fetch _ _ nowS k _ => if shard n k = i then some (.fetch nowS k) else none
  | .store _ nowS k v trigs d => if shard n k = i then storeOpOf nowS k v trigs d else none
  | .rise _ t => some (.rise t)
  | .clear _ => some .clear
  | .remove _ _ => none
  | .stats _ => none

def applyProj (o : Option C07.Op) (s : State) : State :=
  match o with
  | some op => (C07.step s op).1
  | none => s

theorem fetchOp_servers (cl : Cluster) (c : Nat) (nowC nowS : Time) (k : Key) (t : Bool) :
    (fetchOp absT cl c nowC nowS k t).1.servers =
      match cl.servers[shard cl.servers.length k]? with
      | none => cl.servers
      | some s => cl.servers.set (shard cl.servers.length k) (C07.step s (.fetch nowS k)).1 := by
  unfold fetchOp
  simp only [absT]
  cases hs : cl.servers[shard cl.servers.length k]? with
  | none => rfl
  | some s =>
    simp only
    repeat' split
    all_goals simp [Cluster.setServer, Cluster.setL1, aFetch_fst]

theorem storeOp_servers (cl : Cluster) (c : Nat) (nowS : Time) (k : Key) (v : Val) (trigs : List Key) (d : Time) :
    (storeOp absT cl c nowS k v trigs d).servers =
      match cl.servers[shard cl.servers.length k]? with
      | none => cl.servers
      | some s => cl.servers.set (shard cl.servers.length k) (aStore s nowS k v trigs d) := by
  unfold storeOp
  simp only [absT]
  cases hl : cl.l1 c with
  | none =>
    simp only
    cases hs : cl.servers[shard cl.servers.length k]? <;> simp [Cluster.setServer]
  | some l =>
    simp only
    cases hb : Gen.storeDropsL1 <;>
      cases hs : cl.servers[shard cl.servers.length k]? <;> simp [Cluster.setServer, Cluster.setL1, hs]

theorem riseOp_servers (cl : Cluster) (c : Nat) (t : Key) :
    (riseOp absT cl c t).servers = cl.servers.map fun s => (C07.step s (.rise t)).1 := by
  unfold riseOp
  simp only [absT]
  cases hl : cl.l1 c with
  | none => rfl
  | some l =>
    simp only
    cases hb : Gen.riseAppliesL1 <;> simp [Cluster.setL1]

theorem clearOp_servers (cl : Cluster) (c : Nat) :
    (clearOp absT cl c).servers = cl.servers.map fun s => (C07.step s .clear).1 := by
  unfold clearOp
  simp only [absT]
  cases hl : cl.l1 c with
  | none => rfl
  | some l =>
    simp only
    cases hb : Gen.clearAppliesL1 <;> simp [Cluster.setL1]

theorem map_applyProj_none (o : Option State) : o = Option.map (applyProj none) o := by
  cases o <;> rfl

theorem astep_servers (cl : Cluster) (op : Op) (i : Nat) :
    (astep cl op).1.servers[i]? = (cl.servers[i]?).map (applyProj (projOp cl.servers.length i op)) := by
  cases op with
  | fetch c nowC nowS k t =>
    simp only [astep, stepT, projOp]
    rw [fetchOp_servers]
    by_cases hi : shard cl.servers.length k = i
    · simp only [hi, if_true]
      cases hs : cl.servers[shard cl.servers.length k]? with
      | none => rw [hi] at hs; simp [hs]
      | some s =>
        rw [hi] at hs
        simp [lt_of_getElem? hs, applyProj]
    · simp only [hi, if_false]
      cases hs : cl.servers[shard cl.servers.length k]? with
      | none => exact map_applyProj_none _
      | some s => simp only [List.getElem?_set, hi, if_false]; exact map_applyProj_none _
  | store c nowS k v trigs d =>
    simp only [astep, stepT, projOp]
    rw [storeOp_servers]
    by_cases hi : shard cl.servers.length k = i
    · simp only [hi, if_true]
      cases hs : cl.servers[shard cl.servers.length k]? with
      | none => rw [hi] at hs; simp [hs]
      | some s =>
        rw [hi] at hs
        simp [lt_of_getElem? hs, applyProj, aStore]
        cases storeOpOf nowS k v trigs d <;> rfl
    · simp only [hi, if_false]
      cases hs : cl.servers[shard cl.servers.length k]? with
      | none => exact map_applyProj_none _
      | some s => simp only [List.getElem?_set, hi, if_false]; exact map_applyProj_none _
  | rise c t =>
    simp only [astep, stepT, projOp, riseOp_servers, List.getElem?_map]; rfl
  | clear c =>
    simp only [astep, stepT, projOp, clearOp_servers, List.getElem?_map]; rfl
  | remove c k => exact map_applyProj_none _
  | stats c => exact map_applyProj_none _

theorem astep_length (cl : Cluster) (op : Op) : (astep cl op).1.servers.length = cl.servers.length := by
  have h : ∀ i : Nat, ((astep cl op).1.servers[i]?).isSome = (cl.servers[i]?).isSome := by
    intro i; rw [astep_servers]; cases cl.servers[i]? <;> simp
  apply Nat.le_antisymm
  · apply Nat.le_of_not_lt; intro hlt
    have := h cl.servers.length
    simp [hlt] at this
  · apply Nat.le_of_not_lt; intro hlt
    have := h (astep cl op).1.servers.length
    simp [hlt] at this

theorem arun_cons (cl : Cluster) (op : Op) (ops : List Op) : arun cl (op :: ops) = arun (astep cl op).1 ops := rfl

theorem arun_length (cl : Cluster) (ops : List Op) : (arun cl ops).servers.length = cl.servers.length := by
  induction ops generalizing cl with
  | nil => rfl
  | cons op ops ih => rw [arun_cons, ih, astep_length]

/-- server `i` sees the projected history -/
theorem server_arun (cl : Cluster) (ops : List Op) (i : Nat) :
    (arun cl ops).servers[i]? = (cl.servers[i]?).map fun s => C07.run s (ops.filterMap (projOp cl.servers.length i)) := by
  induction ops generalizing cl with
  | nil => simp [arun, runT, C07.run]
  | cons op ops ih =>
    rw [arun_cons, ih, astep_servers, astep_length]
    cases cl.servers[i]? with
    | none => rfl
    | some s =>
      simp only [Option.map_some, List.filterMap_cons, applyProj]
      cases projOp cl.servers.length i op with
      | none => rfl
      | some o => simp [run_cons]

/-! ### the ideal shared cache -/

def toSOp : Op → Spec.SOp
  | .store _ _ k v trigs d => .store k v trigs d
  | .rise _ t => .rise t
  | .clear _ => .clear
  | _ => .other

/-- the ideal shared cache after a history -/
def idealOf (ops : List Op) : C07.Spec := Spec.idealRun (ops.map toSOp)

/-- every store of the history carries contents the wire format preserves -/
def HistWF (ops : List Op) : Prop :=
  ∀ op ∈ ops, match op with
    | .store _ _ k v trigs d => Spec.WFwire k v trigs d
    | _ => True

def Rel (n i : Nat) (sp g : C07.Spec) : Prop :=
  ∀ k e, shard n k = i → sp k = some e →
    ∃ e', g k = some e' ∧ e'.val = e.val ∧ e'.deadline = e.deadline ∧ ∀ t, t ∈ e'.trigs ↔ t ∈ e.trigs

theorem storeOpOf_wf {now : Time} {k : Key} {v : Val} {trigs : List Key} {d : Time} (h : Spec.WFwire k v trigs d) :
    storeOpOf now k v trigs d = some (.store now k v (sortSet trigs) d) := by
  unfold storeOpOf
  rw [wireTrigs_wf trigs (fun t ht => ⟨h.trig_ne t ht, h.trig_nul t ht⟩)]
  simp [h.key_ne]

theorem rel_step (n i : Nat) (op : Op) (hwf : HistWF [op]) (s : State) (sp g : C07.Spec) (h : Rel n i sp g) :
    Rel n i (match projOp n i op with
        | some o => (C07.Spec.step sp o (stamp s o)).1
        | none => sp)
      (Spec.ideal g (toSOp op)) := by
  cases op with
  | fetch c nowC nowS k t =>
    simp only [projOp, toSOp, Spec.ideal]
    split <;> (rename_i h1; split at h1 <;> simp at h1; try (subst h1)) <;> simpa [C07.Spec.step] using h
  | store c nowS k v trigs d =>
    have hw : Spec.WFwire k v trigs d := hwf (.store c nowS k v trigs d) (by simp)
    simp only [projOp, toSOp, Spec.ideal]
    by_cases hi : shard n k = i
    · simp only [hi, if_true, storeOpOf_wf hw, C07.Spec.step]
      intro k' e hk' he
      by_cases hk : k' = k
      · subst hk
        cases hst : stamp s (C07.Op.store nowS k' v (sortSet trigs) d) with
        | none => rw [hst] at he; simp [C07.Spec.remove] at he
        | some gg =>
          rw [hst] at he
          simp only [C07.Spec.insert, if_true, Option.some.injEq] at he
          subst he
          refine ⟨⟨v, ownTrigs k' trigs, d, 0⟩, by simp [C07.Spec.insert], rfl, rfl, ?_⟩
          intro t
          simp only [mem_ownTrigs, mem_sortSet]
      · have he' : sp k' = some e := by
          cases hst : stamp s (C07.Op.store nowS k v (sortSet trigs) d) with
          | none => rw [hst] at he; simpa [C07.Spec.remove, hk] using he
          | some gg => rw [hst] at he; simpa [C07.Spec.insert, hk] using he
        obtain ⟨e', h1, h2⟩ := h k' e hk' he'
        exact ⟨e', by simp [C07.Spec.insert, hk, h1], h2⟩
    · simp only [hi, if_false]
      intro k' e hk' he
      have hk : k' ≠ k := by intro hh; subst hh; exact hi hk'
      obtain ⟨e', h1, h2⟩ := h k' e hk' he
      exact ⟨e', by simp [C07.Spec.insert, hk, h1], h2⟩
  | rise c t =>
    simp only [projOp, toSOp, Spec.ideal, C07.Spec.step]
    intro k e hk he
    simp only [C07.Spec.rise] at he
    cases hs : sp k with
    | none => rw [hs] at he; cases he
    | some e0 =>
      rw [hs] at he
      simp only at he
      split at he
      · cases he
      · rename_i hnt
        cases he
        obtain ⟨e', h1, h2, h3, h4⟩ := h k e hk hs
        refine ⟨e', ?_, h2, h3, h4⟩
        simp only [C07.Spec.rise, h1]
        rw [if_neg]
        exact fun hh => hnt ((h4 t).mp hh)
  | clear c =>
    simp only [projOp, toSOp, Spec.ideal, C07.Spec.step]
    intro k e _ he
    simp [C07.Spec.empty] at he
  | remove c k => simpa [projOp, toSOp, Spec.ideal] using h
  | stats c => simpa [projOp, toSOp, Spec.ideal] using h

theorem rel_run (n i : Nat) (ops : List Op) (hwf : HistWF ops) (s : State) (sp g : C07.Spec) (h : Rel n i sp g) :
    Rel n i (specRun s sp (ops.filterMap (projOp n i))) ((ops.map toSOp).foldl Spec.ideal g) := by
  induction ops generalizing s sp g with
  | nil => simpa [specRun] using h
  | cons op ops ih =>
    have hwf1 : HistWF [op] := by intro o ho; simp at ho; subst ho; exact hwf _ (by simp)
    have hwf2 : HistWF ops := fun o ho => hwf o (by simp [ho])
    have hstep := rel_step n i op hwf1 s sp g h
    simp only [List.filterMap_cons, List.map_cons, List.foldl_cons]
    cases hp : projOp n i op with
    | none =>
      rw [hp] at hstep
      exact ih hwf2 s sp _ hstep
    | some o =>
      rw [hp] at hstep
      simp only [specRun]
      exact ih hwf2 _ _ _ hstep

/-! ### the other direction: without limits a server holds everything the ideal cache holds -/

def RelBack (n i : Nat) (sp g : C07.Spec) : Prop :=
  ∀ k e', shard n k = i → g k = some e' →
    ∃ e, sp k = some e ∧ e.val = e'.val ∧ e.deadline = e'.deadline ∧ ∀ t, t ∈ e.trigs ↔ t ∈ e'.trigs

/-- a server without entry limit and without size cap (`thread_cache_factory(0)`) -/
structure Unlimited (s : State) : Prop where
  inv : C07.Inv s
  limit : s.limit = 0
  cap : s.sizeLimit = none

theorem unlimited_step {s : State} (h : Unlimited s) (op : C07.Op) : Unlimited (C07.step s op).1 :=
  ⟨inv_step h.inv op, (config_step s op).1.trans h.limit, (config_step s op).2.trans h.cap⟩

theorem projOp_quiet (n i : Nat) (op : Op) (o : C07.Op) (h : projOp n i op = some o) : o.quiet := by
  cases op with
  | fetch c a b k t => simp only [projOp] at h; split at h <;> simp at h; subst h; trivial
  | store c nowS k v trigs d =>
    simp only [projOp] at h
    split at h
    · simp only [storeOpOf] at h
      split at h
      · cases h
      · cases hw : wireTrigs trigs with
        | none => rw [hw] at h; cases h
        | some ts => rw [hw] at h; simp at h; subst h; simp [C07.Op.quiet]
    · cases h
  | rise c t => simp [projOp] at h; subst h; trivial
  | clear c => simp [projOp] at h; subst h; trivial
  | remove c k => simp [projOp] at h
  | stats c => simp [projOp] at h

theorem relBack_step (n i : Nat) (op : Op) (hwf : HistWF [op]) (s : State) (hs : Unlimited s) (sp g : C07.Spec)
    (h : RelBack n i sp g) :
    RelBack n i (match projOp n i op with
        | some o => (C07.Spec.step sp o (stamp s o)).1
        | none => sp)
      (Spec.ideal g (toSOp op)) := by
  cases op with
  | fetch c nowC nowS k t =>
    simp only [projOp, toSOp, Spec.ideal]
    split <;> (rename_i h1; split at h1 <;> simp at h1; try (subst h1)) <;> simpa [C07.Spec.step] using h
  | store c nowS k v trigs d =>
    have hw : Spec.WFwire k v trigs d := hwf (.store c nowS k v trigs d) (by simp)
    simp only [projOp, toSOp, Spec.ideal]
    by_cases hi : shard n k = i
    · simp only [hi, if_true, storeOpOf_wf hw, C07.Spec.step]
      have hst := (exact_step hs.inv hs.limit hs.cap (C07.Op.store nowS k v (sortSet trigs) d) (by simp [C07.Op.quiet])).2.2
        nowS k v (sortSet trigs) d none {} rfl
      rw [hst]
      intro k' e' hk' he'
      by_cases hk : k' = k
      · subst hk
        simp only [C07.Spec.insert, if_true, Option.some.injEq] at he'
        subst he'
        refine ⟨⟨v, ownTrigs k' (sortSet trigs), d, none.getD s.generation⟩, by simp [C07.Spec.insert], rfl, rfl, ?_⟩
        intro t
        simp only [mem_ownTrigs, mem_sortSet]
      · simp only [C07.Spec.insert, hk, if_false] at he' ⊢
        exact h k' e' hk' he'
    · simp only [hi, if_false]
      intro k' e' hk' he'
      have hk : k' ≠ k := by intro hh; subst hh; exact hi hk'
      simp only [C07.Spec.insert, hk, if_false] at he'
      exact h k' e' hk' he'
  | rise c t =>
    simp only [projOp, toSOp, Spec.ideal, C07.Spec.step]
    intro k e' hk he'
    simp only [C07.Spec.rise] at he'
    cases hg : g k with
    | none => rw [hg] at he'; cases he'
    | some e0 =>
      rw [hg] at he'
      simp only at he'
      split at he'
      · cases he'
      · rename_i hnt
        cases he'
        obtain ⟨e, h1, h2, h3, h4⟩ := h k e' hk hg
        refine ⟨e, ?_, h2, h3, h4⟩
        simp only [C07.Spec.rise, h1]
        rw [if_neg]
        exact fun hh => hnt ((h4 t).mp hh)
  | clear c =>
    simp only [projOp, toSOp, Spec.ideal, C07.Spec.step]
    intro k e' _ he'
    simp [C07.Spec.empty] at he'
  | remove c k => simpa [projOp, toSOp, Spec.ideal] using h
  | stats c => simpa [projOp, toSOp, Spec.ideal] using h

theorem relBack_run (n i : Nat) (ops : List Op) (hwf : HistWF ops) (s : State) (hs : Unlimited s) (sp g : C07.Spec)
    (h : RelBack n i sp g) :
    RelBack n i (specRun s sp (ops.filterMap (projOp n i))) ((ops.map toSOp).foldl Spec.ideal g) := by
  induction ops generalizing s sp g with
  | nil => simpa [specRun] using h
  | cons op ops ih =>
    have hwf1 : HistWF [op] := by intro o ho; simp at ho; subst ho; exact hwf _ (by simp)
    have hwf2 : HistWF ops := fun o ho => hwf o (by simp [ho])
    have hstep := relBack_step n i op hwf1 s hs sp g h
    simp only [List.filterMap_cons, List.map_cons, List.foldl_cons]
    cases hp : projOp n i op with
    | none =>
      rw [hp] at hstep
      exact ih hwf2 s hs sp _ hstep
    | some o =>
      rw [hp] at hstep
      simp only [specRun]
      exact ih hwf2 _ (unlimited_step hs o) _ _ hstep

/-- every store of the history uses a NUL-free key (needed only for the trigger *set* a fetch reports:
the key travels back as one of the entry's trigger names) -/
def KeysNulFree (ops : List Op) : Prop :=
  ∀ op ∈ ops, match op with
    | .store _ _ k _ _ _ => (0 : UInt8) ∉ k
    | _ => True

def NulFreeMap (g : C07.Spec) : Prop := ∀ k e, g k = some e → ∀ t ∈ e.trigs, (0 : UInt8) ∉ t

theorem ideal_nulfree (ops : List Op) (hwf : HistWF ops) (hk : KeysNulFree ops) (g : C07.Spec) (hg : NulFreeMap g) :
    NulFreeMap ((ops.map toSOp).foldl Spec.ideal g) := by
  induction ops generalizing g with
  | nil => exact hg
  | cons op ops ih =>
    simp only [List.map_cons, List.foldl_cons]
    apply ih (fun o ho => hwf o (by simp [ho])) (fun o ho => hk o (by simp [ho]))
    cases op with
    | store c nowS k v trigs d =>
      have hw : Spec.WFwire k v trigs d := hwf (.store c nowS k v trigs d) (by simp)
      have hkk : (0 : UInt8) ∉ k := hk (.store c nowS k v trigs d) (by simp)
      intro k' e he t ht
      simp only [toSOp, Spec.ideal, C07.Spec.insert] at he
      split at he
      · cases he
        rcases mem_ownTrigs.mp ht with h1 | h1
        · subst h1; exact hkk
        · exact hw.trig_nul t h1
      · exact hg k' e he t ht
    | rise c t0 =>
      intro k' e he t ht
      simp only [toSOp, Spec.ideal, C07.Spec.rise] at he
      cases hs : g k' with
      | none => rw [hs] at he; cases he
      | some e0 =>
        rw [hs] at he
        simp only at he
        split at he
        · cases he
        · cases he; exact hg k' e hs t ht
    | clear c => intro k' e he; simp [toSOp, Spec.ideal, C07.Spec.empty] at he
    | fetch c a b k t => exact hg
    | remove c k => exact hg
    | stats c => exact hg

end Cppcms.C10
