import Cppcms.C10.SrvLemmas
/-!
# C10 — what one client operation does to the cluster (message-level transport)

`SrvRel s s'`: a server went from `s` to `s'` by what one client operation asks of it — its entries
are old ones plus at most one new entry `ne`, stamped with the old counter value, and the counter
moved by one exactly in that case.  `L1Rel l l' src`: an L1 went from `l` to `l'` — its entries are
old ones, or a copy (value, deadline, generation) of what `src` (the responsible server) holds.
`Effect cl cl'` lifts both to the cluster; `effect_astep` proves it of every operation.
-/
namespace Cppcms.C10
open Cppcms Cppcms.C07

/-! ### accessors -/

def sabs (cl : Cluster) (i : Nat) : C07.Spec :=
  match cl.servers[i]? with
  | some s => abs s
  | none => C07.Spec.empty

def labs (cl : Cluster) (c : Nat) : C07.Spec :=
  match cl.l1 c with
  | some l => abs l
  | none => C07.Spec.empty

/-- the entry the responsible server holds for `k` -/
def home (cl : Cluster) (k : Key) : Option Entry := sabs cl (shard cl.servers.length k) k

theorem setServer_servers (cl : Cluster) (i : Nat) (s : State) (j : Nat) :
    (cl.setServer i s).servers[j]? = if i = j then (if i < cl.servers.length then some s else none) else cl.servers[j]? := by
  simp [Cluster.setServer, List.getElem?_set]

theorem setServer_l1 (cl : Cluster) (i : Nat) (s : State) (c : Nat) : (cl.setServer i s).l1 c = cl.l1 c := rfl

theorem setL1_servers (cl : Cluster) (c : Nat) (l : State) : (cl.setL1 c l).servers = cl.servers := rfl

theorem setL1_l1 (cl : Cluster) (c : Nat) (l : State) (c' : Nat) :
    (cl.setL1 c l).l1 c' = if c = c' then (if c < cl.l1s.length then some l else none) else cl.l1 c' := by
  simp only [Cluster.setL1, Cluster.l1, List.getD_eq_getElem?_getD, List.getElem?_set]
  by_cases h : c = c'
  · subst h
    by_cases h2 : c < cl.l1s.length <;> simp [h2]
  · simp [h]

theorem l1_lt {cl : Cluster} {c : Nat} {l : State} (h : cl.l1 c = some l) : c < cl.l1s.length := by
  simp only [Cluster.l1, List.getD_eq_getElem?_getD] at h
  cases hc : cl.l1s[c]? with
  | none => rw [hc] at h; cases h
  | some o => exact (List.getElem?_eq_some_iff.mp hc).1

theorem lt_of_getElem? {α : Type} {l : List α} {i : Nat} {a : α} (h : l[i]? = some a) : i < l.length :=
  (List.getElem?_eq_some_iff.mp h).1

/-! ### one server -/

structure SrvRel (s s' : State) : Prop where
  inv : Inv s → Inv s'
  ent : ∃ ne : Option (Key × Entry),
    (∀ k e, abs s' k = some e → abs s k = some e ∨ ne = some (k, e)) ∧
    (ne = none → s'.generation = s.generation) ∧
    (∀ k e, ne = some (k, e) → e.gen = s.generation ∧ s'.generation = s.generation + 1)

theorem srvRel_refl (s : State) : SrvRel s s :=
  ⟨id, none, fun _ _ h => Or.inl h, fun _ => rfl, by intro k e h; cases h⟩

theorem srvRel_nonstore {s : State} (h : Inv s) (op : C07.Op)
    (hop : ∀ now k v ts d gen env, op ≠ .store now k v ts d gen env) : SrvRel s (C07.step s op).1 := by
  refine ⟨fun h => inv_step h op, none, ?_, fun _ => generation_step_nonstore s op hop, by intro k e h; cases h⟩
  intro k e he
  rcases entries_step h op he with h1 | h1
  · exact Or.inl h1
  · cases op <;> simp [newEntry] at h1
    exact absurd rfl (hop _ _ _ _ _ _ _)

theorem srvRel_store {s : State} (h : Inv s) (now : Time) (k : Key) (v : Val) (ts : List Key) (d : Time) :
    SrvRel s (C07.step s (.store now k v ts d)).1 := by
  refine ⟨fun h => inv_step h _, newEntry s (.store now k v ts d), fun k' e he => entries_step h _ he, ?_, ?_⟩
  · intro hn
    rcases stamp_server_store s now k v ts d with ⟨_, h2⟩ | ⟨h1, _⟩
    · exact h2
    · simp [newEntry, h1] at hn
  · intro k' e hn
    rcases stamp_server_store s now k v ts d with ⟨h1, _⟩ | ⟨h1, h2⟩
    · simp [newEntry, h1] at hn
    · simp only [newEntry, h1, Option.map_some, Option.some.injEq, Prod.mk.injEq] at hn
      obtain ⟨_, he⟩ := hn
      subst he
      exact ⟨rfl, h2⟩

theorem srvRel_aStore {s : State} (h : Inv s) (now : Time) (k : Key) (v : Val) (trigs : List Key) (d : Time) :
    SrvRel s (aStore s now k v trigs d) := by
  unfold aStore storeOpOf
  by_cases hk : k = []
  · simp only [hk, if_true]; exact srvRel_refl s
  · simp only [hk, if_false]
    cases wireTrigs trigs with
    | none => exact srvRel_refl s
    | some ts => exact srvRel_store h now k v ts d

theorem aFetch_fst (s : State) (now : Time) (k : Key) (t : Bool) (cur : Option Gen) :
    (aFetch s now k t cur).1 = (C07.step s (.fetch now k)).1 := by
  unfold aFetch
  split
  · rename_i h; split <;> simp [h]
  · rename_i h; simp [h]

theorem srvRel_fetch {s : State} (h : Inv s) (now : Time) (k : Key) : SrvRel s (C07.step s (.fetch now k)).1 :=
  srvRel_nonstore h _ (by intros; simp)

/-! ### one L1 -/

structure L1Rel (l l' : State) (src : Key → Option Entry) : Prop where
  inv : Inv l → Inv l'
  ent : ∀ k e, abs l' k = some e → abs l k = some e ∨
    ∃ es, src k = some es ∧ es.val = e.val ∧ es.deadline = e.deadline ∧ es.gen = e.gen ∧
      ∀ t ∈ backTrigs es.trigs, t ∈ e.trigs

theorem l1Rel_refl (l : State) (src : Key → Option Entry) : L1Rel l l src := ⟨id, fun _ _ h => Or.inl h⟩

theorem l1Rel_trans {l l' l'' : State} {src : Key → Option Entry} (h1 : L1Rel l l' src) (h2 : L1Rel l' l'' src) :
    L1Rel l l'' src := by
  refine ⟨fun h => h2.inv (h1.inv h), fun k e he => ?_⟩
  rcases h2.ent k e he with h | h
  · exact h1.ent k e h
  · exact Or.inr h

theorem l1Rel_nonstore {l : State} (h : Inv l) (op : C07.Op) (src : Key → Option Entry)
    (hop : ∀ now k v ts d gen env, op ≠ .store now k v ts d gen env) : L1Rel l (C07.step l op).1 src := by
  refine ⟨fun h => inv_step h op, fun k e he => ?_⟩
  rcases entries_step h op he with h1 | h1
  · exact Or.inl h1
  · cases op <;> simp [newEntry] at h1
    exact absurd rfl (hop _ _ _ _ _ _ _)

/-- the L1 is fed with a copy of what the responsible server answered -/
theorem l1Rel_store {l : State} (h : Inv l) (now : Time) (k : Key) (v : Val) (tags : List Key) (d : Time) (g : Gen)
    (src : Key → Option Entry) {ts : List Key} (hsrc : src k = some ⟨v, ts, d, g⟩)
    (htags : ∀ t ∈ backTrigs ts, t ∈ tags) :
    L1Rel l (C07.step l (.store now k v tags d (some g))).1 src := by
  refine ⟨fun h => inv_step h _, fun k' e he => ?_⟩
  rcases entries_step h _ he with h1 | h1
  · exact Or.inl h1
  · right
    simp only [newEntry] at h1
    rcases stamp_explicit l now k v tags d g with hs | hs
    · rw [hs] at h1; cases h1
    · rw [hs] at h1
      simp only [Option.map_some, Option.some.injEq, Prod.mk.injEq] at h1
      obtain ⟨hk, he'⟩ := h1
      subst hk; subst he'
      exact ⟨_, hsrc, rfl, rfl, rfl, fun t ht => mem_ownTrigs.mpr (Or.inr (htags t ht))⟩

end Cppcms.C10

namespace Cppcms.C10
open Cppcms Cppcms.C07

/-! ### the cluster -/

/-- every cache of the cluster satisfies the C07 index invariant -/
structure CInvs (cl : Cluster) : Prop where
  srv : ∀ (i : Nat) (s : State), cl.servers[i]? = some s → C07.Inv s
  l1 : ∀ (c : Nat) (l : State), cl.l1 c = some l → C07.Inv l

structure Effect (cl cl' : Cluster) : Prop where
  len : cl'.servers.length = cl.servers.length
  srv : ∀ (i : Nat) (s' : State), cl'.servers[i]? = some s' → ∃ s, cl.servers[i]? = some s ∧ SrvRel s s'
  l1 : ∀ (c : Nat) (l' : State), cl'.l1 c = some l' → ∃ l, cl.l1 c = some l ∧ L1Rel l l' (home cl)

/-- only an L1 changed -/
structure L1Only (cl cl1 : Cluster) : Prop where
  servers : cl1.servers = cl.servers
  l1 : ∀ c l', cl1.l1 c = some l' → ∃ l, cl.l1 c = some l ∧ L1Rel l l' (home cl)

theorem l1Only_refl (cl : Cluster) : L1Only cl cl :=
  ⟨rfl, fun _ l' h => ⟨l', h, l1Rel_refl _ _⟩⟩

theorem l1Only_setL1 {cl : Cluster} {c : Nat} {l l' : State} (hl : cl.l1 c = some l) (hr : L1Rel l l' (home cl)) :
    L1Only cl (cl.setL1 c l') := by
  refine ⟨rfl, fun c' l'' h => ?_⟩
  rw [setL1_l1] at h
  by_cases hc : c = c'
  · subst hc
    simp only [if_true, l1_lt hl] at h
    cases h
    exact ⟨l, hl, hr⟩
  · simp only [hc, if_false] at h
    exact ⟨l'', h, l1Rel_refl _ _⟩

theorem effect_l1Only {cl cl1 : Cluster} (h1 : L1Only cl cl1) : Effect cl cl1 := by
  refine ⟨by rw [h1.servers], fun i s' h => ?_, h1.l1⟩
  rw [h1.servers] at h
  exact ⟨s', h, srvRel_refl s'⟩

theorem effect_setServer {cl cl1 : Cluster} (h1 : L1Only cl cl1) {i : Nat} {s s' : State}
    (hs : cl.servers[i]? = some s) (hr : SrvRel s s') : Effect cl (cl1.setServer i s') := by
  refine ⟨by simp [Cluster.setServer, h1.servers], fun j s'' h => ?_, fun c l' h => h1.l1 c l' h⟩
  rw [setServer_servers, h1.servers] at h
  by_cases hij : i = j
  · subst hij
    simp only [if_true, lt_of_getElem? hs] at h
    cases h
    exact ⟨s, hs, hr⟩
  · simp only [hij, if_false] at h
    exact ⟨s'', h, srvRel_refl _⟩

theorem effect_mapServers {cl cl1 : Cluster} (h1 : L1Only cl cl1) (f : State → State)
    (hf : ∀ (i : Nat) (s : State), cl.servers[i]? = some s → SrvRel s (f s)) :
    Effect cl { cl1 with servers := cl1.servers.map f } := by
  refine ⟨by simp [h1.servers], fun j s'' h => ?_, fun c l' h => h1.l1 c l' h⟩
  simp only [List.getElem?_map, h1.servers] at h
  cases hs : cl.servers[j]? with
  | none => rw [hs] at h; cases h
  | some s =>
    rw [hs] at h
    simp only [Option.map_some, Option.some.injEq] at h
    subst h
    exact ⟨s, rfl, hf j s hs⟩

theorem setServer_setL1_comm (cl : Cluster) (i c : Nat) (s l : State) :
    (cl.setServer i s).setL1 c l = (cl.setL1 c l).setServer i s := rfl

theorem home_eq {cl : Cluster} {k : Key} {s : State} (hs : cl.servers[shard cl.servers.length k]? = some s) :
    home cl k = abs s k := by
  simp [home, sabs, hs]

theorem l1Only_maint {cl : Cluster} (hi : CInvs cl) (c : Nat) (b : Bool) (op : C07.Op)
    (hop : ∀ now k v ts d gen env, op ≠ .store now k v ts d gen env) :
    L1Only cl (match cl.l1 c with
      | some l => if b then cl.setL1 c (C07.step l op).1 else cl
      | none => cl) := by
  cases hl : cl.l1 c with
  | none => exact l1Only_refl cl
  | some l =>
    simp only
    split
    · exact l1Only_setL1 hl (l1Rel_nonstore (hi.l1 c l hl) _ _ hop)
    · exact l1Only_refl cl

theorem effect_storeTail {cl cl1 : Cluster} (hi : CInvs cl) (h1 : L1Only cl cl1) (nowS : Time) (k : Key) (v : Val)
    (trigs : List Key) (d : Time) :
    Effect cl (match cl1.servers[shard cl1.servers.length k]? with
      | none => cl1
      | some s => cl1.setServer (shard cl1.servers.length k) (aStore s nowS k v trigs d)) := by
  cases hs : cl1.servers[shard cl1.servers.length k]? with
  | none => exact effect_l1Only h1
  | some s =>
    simp only
    have hs' := hs
    rw [h1.servers] at hs'
    rw [h1.servers]
    exact effect_setServer h1 hs' (srvRel_aStore (hi.srv _ s hs') nowS k v trigs d)

/-- `cache_over_ip::store` -/
theorem effect_storeOp {cl : Cluster} (hi : CInvs cl) (c : Nat) (nowS : Time) (k : Key) (v : Val) (trigs : List Key) (d : Time) :
    Effect cl (storeOp absT cl c nowS k v trigs d) :=
  effect_storeTail hi (l1Only_maint hi c Gen.storeDropsL1 (.remove k) (by intros; simp)) nowS k v trigs d

/-- `cache_over_ip::rise` -/
theorem effect_riseOp {cl : Cluster} (hi : CInvs cl) (c : Nat) (t : Key) : Effect cl (riseOp absT cl c t) :=
  effect_mapServers (l1Only_maint hi c Gen.riseAppliesL1 (.rise t) (by intros; simp)) (fun s => (C07.step s (.rise t)).1)
    (fun i s hs => srvRel_nonstore (hi.srv i s hs) _ (by intros; simp))

/-- `cache_over_ip::clear` -/
theorem effect_clearOp {cl : Cluster} (hi : CInvs cl) (c : Nat) : Effect cl (clearOp absT cl c) :=
  effect_mapServers (l1Only_maint hi c Gen.clearAppliesL1 .clear (by intros; simp)) (fun s => (C07.step s .clear).1)
    (fun i s hs => srvRel_nonstore (hi.srv i s hs) _ (by intros; simp))

end Cppcms.C10
