import Cppcms.C10.Refine
import Cppcms.C10.AbsProps
/-!
# C10 — helper lemmas (entry point): everything `Props.lean` needs.

`Abstract` message-level transport · `TrigLemmas` NUL-terminated names · `SrvLemmas` facts about the
C07 model · `Effect`, `FetchLemmas` what one client operation does · `Coherence` the global
invariant · `Ideal` servers vs the ideal shared cache · `AbsProps` theorems at message level ·
`WireLemmas`, `Refine` codec = message level.  Here: byte image of frames, and "an operation on key
`k` touches no server but `shard n k`".
-/
namespace Cppcms.C10
open Cppcms Cppcms.C07

theorem rd32_le32 (w : Nat) (hw : w < 4294967296) (rest : Bytes) : rd32 (le32 w ++ rest) = w := by
  simp only [le32, List.cons_append, List.nil_append, rd32, UInt8.toNat_ofNat']
  omega

theorem ofBytes_toBytes (h : Hdr) (hl : h.length = Gen.hdrWords) (hw : ∀ w ∈ h, w < 4294967296) (rest : Bytes) :
    Hdr.ofBytes (h.toBytes ++ rest) = h := by
  match h, hl with
  | [w0, w1, w2, w3, w4, w5, w6, w7, w8, w9], _ =>
    simp only [Hdr.toBytes, Hdr.ofBytes, Gen.hdrWords, List.range, List.range.loop, List.map, List.flatMap_cons, List.flatMap_nil,
      List.append_assoc]
    have b0 := hw w0 (by simp); have b1 := hw w1 (by simp); have b2 := hw w2 (by simp); have b3 := hw w3 (by simp)
    have b4 := hw w4 (by simp); have b5 := hw w5 (by simp); have b6 := hw w6 (by simp); have b7 := hw w7 (by simp)
    have b8 := hw w8 (by simp); have b9 := hw w9 (by simp)
    simp only [le32, List.cons_append, List.nil_append, Nat.mul_zero, Nat.mul_one, Nat.reduceMul, List.drop_succ_cons, List.drop_zero,
      rd32, UInt8.toNat_ofNat', List.cons.injEq, and_true]
    refine ⟨?_, ?_, ?_, ?_, ?_, ?_, ?_, ?_, ?_, ?_⟩ <;> omega

/-- a frame as the code builds it: a full header of 32-bit words whose `size` is the payload length -/
structure FrameWF (h : Hdr) (data : Bytes) : Prop where
  len : h.length = Gen.hdrWords
  words : ∀ w ∈ h, w < 4294967296
  size : h.get Gen.wSize = data.length

theorem length_toBytes (h : Hdr) : h.toBytes.length = 4 * h.length := by
  induction h with
  | nil => rfl
  | cons w h ih =>
    have : Hdr.toBytes (w :: h) = le32 w ++ Hdr.toBytes h := rfl
    rw [this, List.length_append, ih]
    simp [le32]
    omega

theorem frameOfBytes_frameBytes (h : Hdr) (data : Bytes) (hf : FrameWF h data) (rest : Bytes) :
    frameOfBytes (frameBytes h data ++ rest) = (h, data) := by
  unfold frameOfBytes frameBytes
  rw [List.append_assoc, ofBytes_toBytes h hf.len hf.words]
  simp only [hf.size]
  have : (h.toBytes ++ (data ++ rest)).drop Gen.hdrBytes = data ++ rest := by
    apply List.drop_left'
    rw [length_toBytes, hf.len]; rfl
  rw [this, List.take_left' rfl]

/-- a header of the right length whose words fit 32 bits; preserved by every field assignment -/
def HdrWF (h : Hdr) : Prop := h.length = Gen.hdrWords ∧ ∀ w ∈ h, w < 4294967296

theorem hdrWF_zero : HdrWF Hdr.zero := by
  refine ⟨by simp [Hdr.zero], ?_⟩
  intro w hw
  simp only [Hdr.zero, List.mem_replicate] at hw
  omega

theorem hdrWF_put {h : Hdr} (hw : HdrWF h) (i v : Nat) : HdrWF (h.put i v) := by
  refine ⟨by simp [Hdr.put, hw.1], ?_⟩
  intro w hm
  rcases List.mem_or_eq_of_mem_set hm with h1 | h1
  · exact hw.2 w h1
  · subst h1; exact Nat.mod_lt _ (by unfold u32; omega)

theorem hdrWF_put64 {h : Hdr} (hw : HdrWF h) (i v : Nat) : HdrWF (h.put64 i v) :=
  hdrWF_put (hdrWF_put hw _ _) _ _

theorem frameWF_reqStore (k v : Bytes) (trigs : List Key) (d : Time)
    (hsz : k.length + v.length + (trigBytes (sortSet trigs)).length < 4294967296) :
    FrameWF (reqStore k v trigs d).1 (reqStore k v trigs d).2 := by
  obtain ⟨f1, _, f3, _⟩ := reqStore_fields k v trigs d hsz
  have hwf : HdrWF (reqStore k v trigs d).1 := by
    simp only [reqStore]
    exact hdrWF_put (hdrWF_put (hdrWF_put64 (hdrWF_put (hdrWF_put (hdrWF_put hdrWF_zero _ _) _ _) _ _) _ _) _ _) _ _
  exact ⟨hwf.1, hwf.2, by rw [f3, f1]⟩

/-! ### an operation on key `k` touches no server but `shard n k` (any client, any transport) -/

theorem fetchOp_other (T : Transport) (cl : Cluster) (c : Nat) (nowC nowS : Time) (k : Key) (t : Bool) (i : Nat)
    (hi : i ≠ shard cl.servers.length k) : (fetchOp T cl c nowC nowS k t).1.servers[i]? = cl.servers[i]? := by
  unfold fetchOp
  simp only
  cases hs : cl.servers[shard cl.servers.length k]? with
  | none => rfl
  | some s =>
    simp only
    repeat' split
    all_goals simp [Cluster.setServer, Cluster.setL1, Ne.symm hi]

theorem storeOp_other (T : Transport) (cl : Cluster) (c : Nat) (nowS : Time) (k : Key) (v : Val) (trigs : List Key) (d : Time)
    (i : Nat) (hi : i ≠ shard cl.servers.length k) : (storeOp T cl c nowS k v trigs d).servers[i]? = cl.servers[i]? := by
  unfold storeOp
  cases hl : cl.l1 c with
  | none =>
    simp only
    cases hs : cl.servers[shard cl.servers.length k]? <;> simp [Cluster.setServer, Ne.symm hi]
  | some l =>
    simp only
    cases hb : Gen.storeDropsL1 <;>
      cases hs : cl.servers[shard cl.servers.length k]? <;>
        simp [Cluster.setServer, Cluster.setL1, Ne.symm hi, hs]

theorem fetchOp_out (T : Transport) (cl : Cluster) (c : Nat) (nowC nowS : Time) (k : Key) (t : Bool) :
    (fetchOp T cl c nowC nowS k t).2 = .miss ∨ ∃ v ts d g, (fetchOp T cl c nowC nowS k t).2 = .hit v ts d g := by
  unfold fetchOp
  simp only
  repeat' split
  all_goals simp

/-! ### histories from the empty cluster -/

/-- sizes of every operation of the history fit the header fields -/
def HistOk (ops : List Op) : Prop := ∀ op ∈ ops, OpOk op

theorem histOk_prefix {pre ops : List Op} (hp : pre <+: ops) (h : HistOk ops) : HistOk pre :=
  fun op ho => h op (hp.subset ho)

theorem run_init_eq (sl : List Nat) (ll : List (Option Nat)) (ops : List Op) (hok : HistOk ops) :
    run (Cluster.init sl ll) ops = arun (Cluster.init sl ll) ops ∧ AllSmall (arun (Cluster.init sl ll) ops) :=
  run_eq_arun (fresh_init sl ll).invs (allSmall_fresh (fresh_init sl ll)) ops hok

theorem init_length (sl : List Nat) (ll : List (Option Nat)) : (Cluster.init sl ll).servers.length = sl.length := by
  simp [Cluster.init]

end Cppcms.C10
