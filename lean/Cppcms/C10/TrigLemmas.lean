import Cppcms.C10.Abstract
/-!
# C10 — trigger names on the wire: `sortSet` keeps the set, `loadAux` inverts `trigBytes` on
NUL-free names (and exactly there: see the counterexamples in `Props.lean`).
-/
namespace Cppcms.C10
open Cppcms Cppcms.C07

theorem mem_insertSet {t t' : Key} {l : List Key} : t' ∈ insertSet t l ↔ t' = t ∨ t' ∈ l := by
  induction l with
  | nil => simp [insertSet]
  | cons x r ih =>
    simp only [insertSet]
    split
    · rename_i h; subst h; simp
    · split
      · simp
      · simp only [List.mem_cons, ih]
        constructor
        · rintro (h | h | h)
          · exact Or.inr (Or.inl h)
          · exact Or.inl h
          · exact Or.inr (Or.inr h)
        · rintro (h | h | h)
          · exact Or.inr (Or.inl h)
          · exact Or.inl h
          · exact Or.inr (Or.inr h)

theorem mem_sortSet {t : Key} {l : List Key} : t ∈ sortSet l ↔ t ∈ l := by
  induction l with
  | nil => simp [sortSet]
  | cons x r ih =>
    have : sortSet (x :: r) = insertSet x (sortSet r) := rfl
    rw [this, mem_insertSet, ih]; simp

/-- a NUL-free name followed by its terminator is read back as that name -/
theorem loadAux_name (rej : Nat → Bool) (t : Key) (ht : (0 : UInt8) ∉ t) (rest cur : Bytes) :
    loadAux rej (t ++ 0 :: rest) cur =
      if rej (cur.length + t.length) then none else (loadAux rej rest []).map ((cur.reverse ++ t) :: ·) := by
  induction t generalizing cur with
  | nil => simp [loadAux]
  | cons c t ih =>
    have hc : c ≠ 0 := fun h => ht (by simp [h])
    have ht' : (0 : UInt8) ∉ t := fun h => ht (by simp [h])
    simp only [List.cons_append, loadAux, hc, if_false]
    rw [ih ht']
    simp only [List.length_cons, List.reverse_cons, List.append_assoc, List.cons_append, List.nil_append]
    have : cur.length + 1 + t.length = cur.length + (t.length + 1) := by omega
    rw [this]

theorem loadAux_trigBytes (rej : Nat → Bool) (ts : List Key)
    (h : ∀ t ∈ ts, (0 : UInt8) ∉ t ∧ rej t.length = false) : loadAux rej (trigBytes ts) [] = some ts := by
  induction ts with
  | nil => simp [trigBytes, loadAux]
  | cons t ts ih =>
    have h1 := h t (by simp)
    have : trigBytes (t :: ts) = t ++ 0 :: trigBytes ts := by simp [trigBytes]
    rw [this, loadAux_name rej t h1.1]
    simp only [List.length_nil, Nat.zero_add, List.reverse_nil, List.nil_append, h1.2, Bool.false_eq_true, if_false]
    rw [ih (fun t' ht' => h t' (by simp [ht']))]
    rfl

/-- names the wire format carries unchanged: non-empty and NUL-free -/
theorem wireTrigs_wf (trigs : List Key) (h : ∀ t ∈ trigs, t ≠ [] ∧ (0 : UInt8) ∉ t) :
    wireTrigs trigs = some (sortSet trigs) := by
  unfold wireTrigs
  apply loadAux_trigBytes
  intro t ht
  have := h t (mem_sortSet.mp ht)
  refine ⟨this.2, ?_⟩
  simp only [Gen.trigRejected, beq_iff_eq, decide_eq_false_iff_not]
  intro h0
  exact this.1 (List.eq_nil_of_length_eq_zero h0)

theorem backTrigs_nulfree (trigs : List Key) (h : ∀ t ∈ trigs, (0 : UInt8) ∉ t) : backTrigs trigs = sortSet trigs := by
  unfold backTrigs
  rw [loadAux_trigBytes]
  · rfl
  · intro t ht
    exact ⟨h t (mem_sortSet.mp ht), rfl⟩

end Cppcms.C10
