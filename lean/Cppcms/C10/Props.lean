import Cppcms.C10.Lemmas
import Cppcms.C10.SockLemmas
import Cppcms.C10.SessLemmas
/-!
# C10 — property theorems

"When several application nodes use the network cache, each optionally with a local first-level
cache, a fetch on any node returns only a value that is current on the cache server at the time of
the fetch: after any node completes a store, trigger raise or clear, no node's later fetch returns
the older value, even if it is still sitting in that node's local cache.  Values, trigger sets and
deadlines survive the wire format unchanged for all contents, and keys are spread over several
servers consistently."

All statements are about `step`/`run` of `Model.lean`: any number of `cache_over_ip` clients (each
with or without an L1, any limits), any number of servers, one global history of operations in the
order the synchronous calls complete, every client ↔ server interaction through the wire codec of
`Wire.lean` (header layout, opcodes, frame validation, up-to-date test, hash regenerated from the
source).  Vocabulary: `Cluster.init sl ll` — servers with limits `sl`, clients with L1 limits `ll`
(`none` = no L1); `sabs cl i` / `labs cl c` — the map held by server `i` / by the L1 of client `c`;
`HistOk ops` — sizes fit (`OpOk`: < 2^31 bytes per entry, `int64_t` deadlines);
`HistWF ops` — every store carries contents the wire format preserves (`Spec.WFwire`);
`idealOf ops` — the ideal shared cache (`Spec.ideal`: one never-evicting map for all nodes).

Hypotheses that appear: `ops.length < 2^64` (generation counters are `uint64_t`; a server restart,
which resets the counter, is outside the quantifier), `HistOk`, and `HistWF` where marked `_partial`.
-/
namespace Cppcms.C10.Props
open Cppcms Cppcms.C07 Cppcms.C10

/-! ## keys are spread over the servers consistently -/

/-- The server of a key is `shard n k` — a function of the number of servers and the key alone
(no client state enters), below `n`; and a fetch or store of `k` by **any** client, with or
without L1, touches no other server. -/
theorem consistent_sharding :
    Spec.ConsistentSharding shard ∧
    (∀ (cl : Cluster) (c : Nat) (nowC nowS : Time) (k : Key) (t : Bool) (i : Nat), i ≠ shard cl.servers.length k →
      (step cl (.fetch c nowC nowS k t)).1.servers[i]? = cl.servers[i]?) ∧
    (∀ (cl : Cluster) (c : Nat) (nowS : Time) (k : Key) (v : Val) (ts : List Key) (d : Time) (i : Nat),
      i ≠ shard cl.servers.length k → (step cl (.store c nowS k v ts d)).1.servers[i]? = cl.servers[i]?) := by
  refine ⟨?_, ?_, ?_⟩
  · intro n k h
    unfold shard Gen.hashFinish
    split
    · omega
    · exact Nat.mod_lt _ h
  · intro cl c nowC nowS k t i hi
    exact fetchOp_other wireT cl c nowC nowS k t i hi
  · intro cl c nowS k v ts d i hi
    exact storeOp_other wireT cl c nowS k v ts d i hi

/-! ## the wire format -/

/-- The byte image of a frame (header words little endian, then the payload), followed by whatever
comes next on the socket, parses back to the same header and payload. -/
theorem frame_roundtrip (h : Hdr) (data : Bytes) (hf : FrameWF h data) (rest : Bytes) :
    frameOfBytes (frameBytes h data ++ rest) = (h, data) :=
  frameOfBytes_frameBytes h data hf rest

/-- **Receiving a frame does not depend on how TCP cuts the stream.**  Whatever the pieces in which the
bytes of a well-formed frame (followed by anything) arrive, `recvFrame` — header image via
`stream_socket::read`, then exactly `size` payload bytes via `stream_socket::read` — yields that header
and payload and leaves exactly the following bytes on the connection. -/
theorem recv_frame_any_segmentation (h : Hdr) (data : Bytes) (hf : FrameWF h data) (rest : Bytes) (segs : Segs)
    (hs : segs.flatten = frameBytes h data ++ rest) :
    ∃ r, recvFrame segs = some (h, data, r) ∧ r.flatten = rest :=
  recvFrame_spec h data hf rest segs hs

/-- **`messenger::transmit` is independent of the segmentation of both directions**: with arbitrary
segmenters for the request and for the reply (any piece sizes; keys/values/replies of any size
below 2^32 bytes) the exchange has the same result as the unsegmented `transmit` used by the model —
same server step, same reply header and payload. -/
theorem transmit_segmentation_independent (cutReq cutRep : Bytes → Segs)
    (h1 : ∀ b, (cutReq b).flatten = b) (h2 : ∀ b, (cutRep b).flatten = b)
    (s : State) (now : Time) (h : Hdr) (data : Bytes) (hf : FrameWF h (data.take (h.get Gen.wSize))) :
    transmitSeg cutReq cutRep s now h data = some (transmit s now h data) :=
  C10.transmit_segmentation_independent cutReq cutRep h1 h2 s now h data hf

/-! ### session opcodes (network session storage behind the same server) -/

/-- **The session codec is exact.**  For a 32-byte session id, a value that fits the frame and an `int64_t`
deadline: `tcp_storage::save` makes the server's storage execute exactly `save(sid, deadline, value)` (reply
`done`); `tcp_storage::remove` exactly `remove(sid)`; `tcp_storage::load` leaves the storage alone and returns
exactly what the storage's `load` returns, except that a record with a negative deadline is reported absent. -/
theorem session_wire_exact (st : SessStore) (now : Time) (sid : Bytes) (hs : sid.length = Gen.sessSidLen) :
    (∀ (to : Time) (v : Bytes), v.length + Gen.sessSidLen < 4294967296 →
        -9223372036854775808 ≤ to ∧ to < 9223372036854775808 →
        sessTransmit st now (reqSessSave sid to v) = (sessSave st now sid to v, replyOp Gen.opDone, [])) ∧
    (sessTransmit st now (reqSessRemove sid)).1 = sessRemove st now sid ∧
    ((∀ t v, sessLoad st now sid = some (t, v) → v.length < 4294967296 ∧ -9223372036854775808 ≤ t ∧ t < 9223372036854775808) →
      (sessTransmit st now (reqSessLoad sid)).1 = st ∧
      cliDecodeSessLoad (sessTransmit st now (reqSessLoad sid)).2.1 (sessTransmit st now (reqSessLoad sid)).2.2 =
        (match sessLoad st now sid with
         | none => none
         | some (t, v) => if t < 0 then none else some (t, v))) :=
  ⟨fun to v hv hd => reqSessSave_exact st now sid to v hs hv hd, reqSessRemove_exact st now sid hs,
    fun hrec => reqSessLoad_exact st now sid hs hrec⟩

/-- **A session saved over the wire is loaded back over the wire** — same deadline, same value — at every
clock value up to its deadline, whatever else the storage holds (`session_memory_storage` with its
`short_gc`); after a remove over the wire it is absent. -/
theorem session_save_load_roundtrip (st : SessStore) (now now' : Time) (sid : Bytes) (to : Time) (v : Bytes)
    (hs : sid.length = Gen.sessSidLen) (hv : v.length + Gen.sessSidLen < 4294967296)
    (hd : -9223372036854775808 ≤ to ∧ to < 9223372036854775808) (h0 : ¬ to < 0) (h1 : ¬ to < now) (h2 : ¬ to < now') :
    let st1 := (sessTransmit st now (reqSessSave sid to v)).1
    cliDecodeSessLoad (sessTransmit st1 now' (reqSessLoad sid)).2.1 (sessTransmit st1 now' (reqSessLoad sid)).2.2 = some (to, v) ∧
    (let st2 := (sessTransmit st1 now' (reqSessRemove sid)).1
     cliDecodeSessLoad (sessTransmit st2 now' (reqSessLoad sid)).2.1 (sessTransmit st2 now' (reqSessLoad sid)).2.2 = none) := by
  intro st1
  have e1 : st1 = sessSave st now sid to v := by
    show (sessTransmit st now (reqSessSave sid to v)).1 = _
    rw [reqSessSave_exact st now sid to v hs hv hd]
  have hl : sessLoad st1 now' sid = some (to, v) := by rw [e1, sessLoad_save st now now' sid to v h1]; simp [h2]
  constructor
  · have := (reqSessLoad_exact st1 now' sid hs (by
      intro t x hx; rw [hl] at hx; cases hx
      exact ⟨by have : Gen.sessSidLen = 32 := rfl; omega, hd⟩)).2
    rw [this, hl]; simp [h0]
  · intro st2
    have e2 : st2 = sessRemove st1 now' sid := reqSessRemove_exact st1 now' sid hs
    have hl2 : sessLoad st2 now' sid = none := by rw [e2]; exact sessLoad_remove st1 now' now' sid
    have := (reqSessLoad_exact st2 now' sid hs (by intro t x hx; rw [hl2] at hx; cases hx)).2
    rw [this, hl2]

/-- full statement (false, see the counterexamples): for **all** contents the server performs the
store the client asked for -/
def WireRoundtripStoreFull : Prop :=
  ∀ (s : State) (now : Time) (k : Key) (v : Val) (ts : List Key) (d : Time),
    tcpStore s now k v ts d = (C07.step s (.store now k v (sortSet ts) d)).1

/-- **Store direction.**  For contents satisfying `WFwire` (key non-empty; trigger names non-empty
and NUL-free; less than 2^31 bytes; `int64_t` deadline) the frame `tcp_cache::store` builds is a
well-formed frame, and what `session::store` makes of it is exactly the store that was asked for:
same key, same value, same deadline, the same set of trigger names. -/
theorem wire_roundtrip_store_partial (s : State) (now : Time) (k : Key) (v : Val) (ts : List Key) (d : Time)
    (h : Spec.WFwire k v ts d) :
    FrameWF (reqStore k v ts d).1 (reqStore k v ts d).2 ∧
    tcpStore s now k v ts d = (C07.step s (.store now k v (sortSet ts) d)).1 ∧ ∀ t, t ∈ sortSet ts ↔ t ∈ ts := by
  have h3 := namesSize_sortSet ts
  have hsz : k.length + v.length + (trigBytes (sortSet ts)).length < 2147483648 := by
    rw [length_trigBytes]; have := h.size; simp only [namesSize] at h3 ⊢; omega
  refine ⟨frameWF_reqStore k v ts d (by omega), ?_, fun t => mem_sortSet⟩
  rw [tcpStore_eq s now k v ts d hsz h.deadline]
  unfold aStore
  rw [storeOpOf_wf h]

/-- **Reply direction.**  If the server holds `k ↦ (v, trigs, deadline, g)` (not expired), the entry
fits a frame and its trigger names are NUL-free, then `tcp_cache::fetch` returns exactly `v`, the
deadline and the generation, and the same set of trigger names. -/
theorem wire_roundtrip_data_partial (s : State) (now : Time) (k : Key) (e : Entry)
    (hk : k.length < 2147483648) (he : abs s k = some e) (hlive : ¬ e.deadline < now)
    (hsm : EntrySmall e) (hnul : ∀ t ∈ e.trigs, (0 : UInt8) ∉ t) :
    ∃ ts', (tcpFetch s now k true none).2 = .found e.val ts' e.deadline e.gen ∧ ∀ t, t ∈ ts' ↔ t ∈ e.trigs := by
  have hf := abs_fetch_hit he hlive
  have h1 : ∀ v ts d g, (C07.step s (.fetch now k)).2 = .hit v ts d g →
      v.length + (trigBytes (sortSet ts)).length < 2147483648 ∧ -9223372036854775808 ≤ d ∧ d < 9223372036854775808 := by
    intro v ts d g hh
    rw [hf] at hh
    cases hh
    rw [length_trigBytes]
    have := namesSize_sortSet e.trigs
    exact ⟨by have := hsm.1; omega, hsm.2⟩
  rw [tcpFetch_eq s now k true none (by omega) h1]
  refine ⟨sortSet e.trigs, ?_, fun t => mem_sortSet⟩
  unfold aFetch
  rcases hst : C07.step s (.fetch now k) with ⟨s', o⟩
  rw [hst] at hf
  simp only at hf
  subst hf
  simp [backTrigs_nulfree e.trigs hnul]

/-- **The real codec is the message-level model.**  As long as the sizes fit, one operation of the
cluster over the real frames (headers, `uint32_t` length fields, frame validation, `strlen` loops)
is *equal* to the operation over the message-level transport on which coherence is proved. -/
theorem step_eq_astep {cl : Cluster} (hsm : AllSmall cl) {op : Op} (hok : OpOk op) : step cl op = astep cl op :=
  C10.step_eq_astep hsm hok

/-! ## generations and the L1 -/

/-- **On one server every store gets a generation never used before**: two entries that server `i`
held at any two points of the history under the same generation are the same entry — same key,
value, trigger set, deadline. -/
theorem gen_unique (sl : List Nat) (ll : List (Option Nat)) (ops : List Op) (hlen : ops.length < 2 ^ 64) (hok : HistOk ops)
    (i : Nat) (pre₁ pre₂ : List Op) (h₁ : pre₁ <+: ops) (h₂ : pre₂ <+: ops) (k₁ k₂ : Key) (e₁ e₂ : Entry)
    (he₁ : sabs (run (Cluster.init sl ll) pre₁) i k₁ = some e₁) (he₂ : sabs (run (Cluster.init sl ll) pre₂) i k₂ = some e₂)
    (hg : e₁.gen = e₂.gen) : k₁ = k₂ ∧ e₁ = e₂ := by
  rw [(run_init_eq sl ll pre₁ (histOk_prefix h₁ hok)).1] at he₁
  rw [(run_init_eq sl ll pre₂ (histOk_prefix h₂ hok)).1] at he₂
  exact (cinv_run (fresh_init sl ll) ops hlen).uniq i k₁ k₂ e₁ e₂ ⟨pre₁, h₁, he₁⟩ ⟨pre₂, h₂, he₂⟩ hg

/-- **The generation counter survives `clear`** (and every other operation but a performed store): in the
source (`Gen.clearKeepsGeneration`, `Gen.generationOnlyBumpedByStore`, read by the translator from
`mem_cache::nl_clear/clear/store`) and in the model.  `gen_unique` above is stated for *all* histories,
clears by any node included; this is the fact it rests on. -/
theorem generation_survives_clear :
    C10.Gen.clearKeepsGeneration = true ∧ C10.Gen.generationOnlyBumpedByStore = true ∧
    (∀ s : State, (C07.step s .clear).1.generation = s.generation) ∧
    (∀ (s : State) (op : C07.Op), (∀ now k v ts d gen env, op ≠ .store now k v ts d gen env) →
      (C07.step s op).1.generation = s.generation) :=
  ⟨rfl, rfl, fun s => generation_step_nonstore s .clear (by intros; simp), fun s op h => generation_step_nonstore s op h⟩

/-- **Every L1 entry was the server's entry**: whatever client `c`'s L1 holds for `k` — value,
deadline, generation — the responsible server held for `k` at some earlier point of the history. -/
theorem l1_inv (sl : List Nat) (ll : List (Option Nat)) (ops : List Op) (hlen : ops.length < 2 ^ 64) (hok : HistOk ops)
    (c : Nat) (k : Key) (e : Entry) (h : labs (run (Cluster.init sl ll) ops) c k = some e) :
    ∃ pre e', pre <+: ops ∧ sabs (run (Cluster.init sl ll) pre) (shard sl.length k) k = some e' ∧
      e'.val = e.val ∧ e'.deadline = e.deadline ∧ e'.gen = e.gen := by
  rw [(run_init_eq sl ll ops hok).1] at h
  obtain ⟨e', ⟨pre, hp, hs⟩, r1, r2, r3, _⟩ := (cinv_run (fresh_init sl ll) ops hlen).l1 c k e h
  rw [init_length] at hs
  refine ⟨pre, e', hp, ?_, r1, r2, r3⟩
  rw [(run_init_eq sl ll pre (histOk_prefix hp hok)).1]
  exact hs

/-! ## coherence -/

/-- **Coherent fetch.**  After any history by any number of clients (with or without L1), a fetch
on any node that returns `(v, deadline, g)` does so only if a direct fetch on the responsible
server, at that moment and on the server's clock, returns the same `v`, deadline and `g`: an L1
never makes a node see anything but what the server holds now.  No `WFwire` hypothesis: this holds
also at the excluded points of the wire format. -/
theorem coherent_fetch (sl : List Nat) (ll : List (Option Nat)) (ops : List Op) (hlen : ops.length < 2 ^ 64)
    (hok : HistOk ops) (c : Nat) (nowC nowS : Time) (k : Key) (tags : Bool) (hk : k.length < 2147483648)
    (v : Val) (ts : List Key) (d : Time) (g : Gen)
    (hit : (step (run (Cluster.init sl ll) ops) (.fetch c nowC nowS k tags)).2 = .hit v ts d g) :
    ∃ s, (run (Cluster.init sl ll) ops).servers[shard sl.length k]? = some s ∧
      ∃ ts', (C07.step s (.fetch nowS k)).2 = .hit v ts' d g := by
  obtain ⟨hr, hsm⟩ := run_init_eq sl ll ops hok
  rw [hr] at hit ⊢
  rw [C10.step_eq_astep hsm (op := .fetch c nowC nowS k tags) hk] at hit
  have := coherent_fetch_server_abs (fresh_init sl ll) ops hlen c nowC nowS k tags v ts d g hit
  rw [init_length] at this
  exact this

/-- full statement of the "no older value" clause (false at the excluded points, see the
counterexamples): for **all** histories a hit is what the ideal shared cache holds -/
def CoherentIdealFull : Prop :=
  ∀ (sl : List Nat) (ll : List (Option Nat)) (ops : List Op), ops.length < 2 ^ 64 → HistOk ops →
    ∀ (c : Nat) (nowC nowS : Time) (k : Key) (tags : Bool), k.length < 2147483648 →
      ∀ (v : Val) (ts : List Key) (d : Time) (g : Gen),
        (step (run (Cluster.init sl ll) ops) (.fetch c nowC nowS k tags)).2 = .hit v ts d g →
        ∀ me, Spec.answerOk (idealOf ops) nowS k me false (.hit v ts d g) = true

/-- **No node is served an older value.**  For histories whose stores carry contents the wire
format preserves (`HistWF`): a fetch on any node that hits returns the value and deadline the
*ideal shared cache* holds for the key at that moment — i.e. those of the latest store of the key by
**any** node, and no node has since raised one of its triggers (or the key itself) or cleared the
cache — and the entry is not expired on the server's clock.  This is `Spec.answerOk`, the predicate
the check evaluates on the answers of the real clients. -/
theorem coherent_fetch_ideal_partial (sl : List Nat) (ll : List (Option Nat)) (ops : List Op) (hlen : ops.length < 2 ^ 64)
    (hok : HistOk ops) (hwf : HistWF ops) (c : Nat) (nowC nowS : Time) (k : Key) (tags : Bool) (hk : k.length < 2147483648)
    (v : Val) (ts : List Key) (d : Time) (g : Gen)
    (hit : (step (run (Cluster.init sl ll) ops) (.fetch c nowC nowS k tags)).2 = .hit v ts d g) (mayEvict : Bool) :
    Spec.answerOk (idealOf ops) nowS k mayEvict false (.hit v ts d g) = true ∧
    (KeysNulFree ops → Spec.answerOk (idealOf ops) nowS k mayEvict tags (.hit v ts d g) = true) := by
  obtain ⟨hr, hsm⟩ := run_init_eq sl ll ops hok
  rw [hr] at hit
  rw [C10.step_eq_astep hsm (op := .fetch c nowC nowS k tags) hk] at hit
  obtain ⟨e, h1, h2, h3, h4, h5⟩ := coherent_fetch_ideal_abs sl ll ops hlen hwf c nowC nowS k tags v ts d g hit
  refine ⟨by simp [Spec.answerOk, h1, h2, h3, h4], fun hkn => ?_⟩
  cases tags with
  | false => simp [Spec.answerOk, h1, h2, h3, h4]
  | true =>
    have := h5 rfl hkn
    simp only [Spec.answerOk, h1, h2, h3, h4, beq_self_eq_true, decide_false, Bool.not_false, Bool.and_self, Bool.not_true,
      Bool.false_or, Bool.true_and, List.all_eq_true, List.contains_iff_mem]
    exact this

/-- **No spurious miss: a live entry is found on every node.**  No server has an entry limit
(`thread_cache_factory(0)`; the L1s may be as small as they like), the stores are `WFwire`: if the ideal
shared cache holds `k ↦ e` and `e` is not expired on the server's clock, then a fetch of `k` by **any**
node — with or without L1, whatever stale entry its L1 holds — hits and returns `e`'s value and deadline. -/
theorem live_entry_found_on_every_node (sl : List Nat) (ll : List (Option Nat)) (hn : 0 < sl.length) (hsl : ∀ l ∈ sl, l = 0)
    (ops : List Op) (hlen : ops.length < 2 ^ 64) (hok : HistOk ops) (hwf : HistWF ops)
    (c : Nat) (nowC nowS : Time) (k : Key) (tags : Bool) (hk : k.length < 2147483648)
    (e : Entry) (hid : idealOf ops k = some e) (hlive : ¬ e.deadline < nowS) :
    ∃ ts g, (step (run (Cluster.init sl ll) ops) (.fetch c nowC nowS k tags)).2 = .hit e.val ts e.deadline g := by
  obtain ⟨hr, hsm⟩ := run_init_eq sl ll ops hok
  rw [hr, C10.step_eq_astep hsm (op := .fetch c nowC nowS k tags) hk]
  exact live_entry_found_abs sl ll hsl ops hlen hwf c nowC nowS k tags e hn hid hlive

/-- **The whole coherence predicate holds of every fetch answer** (the predicate the check evaluates on the
real clients, with `mayEvict = false`): servers without limit, `WFwire` stores, NUL-free keys — a hit is the
ideal cache's current entry (value, deadline, all its triggers), a miss happens only if the ideal cache
holds nothing live for the key. -/
theorem answerOk_of_every_fetch_partial (sl : List Nat) (ll : List (Option Nat)) (hn : 0 < sl.length) (hsl : ∀ l ∈ sl, l = 0)
    (ops : List Op) (hlen : ops.length < 2 ^ 64) (hok : HistOk ops) (hwf : HistWF ops) (hkn : KeysNulFree ops)
    (c : Nat) (nowC nowS : Time) (k : Key) (tags : Bool) (hk : k.length < 2147483648) :
    Spec.answerOk (idealOf ops) nowS k false tags (step (run (Cluster.init sl ll) ops) (.fetch c nowC nowS k tags)).2 = true := by
  rcases fetchOp_out wireT (run (Cluster.init sl ll) ops) c nowC nowS k tags with hm | ⟨v, ts, d, g, hh⟩
  · have hm' : (step (run (Cluster.init sl ll) ops) (.fetch c nowC nowS k tags)).2 = .miss := hm
    rw [hm']
    simp only [Spec.answerOk, Bool.false_or]
    cases hid : idealOf ops k with
    | none => rfl
    | some e =>
      simp only [decide_eq_true_eq]
      apply Classical.byContradiction
      intro hlive
      obtain ⟨ts, g, hhit⟩ := live_entry_found_on_every_node sl ll hn hsl ops hlen hok hwf c nowC nowS k tags hk e hid hlive
      rw [hm'] at hhit
      cases hhit
  · have hh' : (step (run (Cluster.init sl ll) ops) (.fetch c nowC nowS k tags)).2 = .hit v ts d g := hh
    rw [hh']
    exact (coherent_fetch_ideal_partial sl ll ops hlen hok hwf c nowC nowS k tags hk v ts d g hh' false).2 hkn

/-! ## the excluded points: the full statements are false of the code (known findings) -/

private def k₁ : Key := [107]

/-- **tcp-trigger-nul.**  Client 0 (no L1) stores `k = v1` depending on the trigger `a\0b`; the name
is split on the server into `a` and `b`.  Client 1 (L1) raises `a\0b`: nothing is invalidated, and
the next fetch on either node still returns `v1`, which the ideal shared cache no longer holds. -/
theorem trigger_nul_counterexample :
    let h : List Op := [.store 0 1000 k₁ [118, 49] [[97, 0, 98]] 2000, .fetch 1 1000 1000 k₁ true, .rise 1 [97, 0, 98]]
    HistOk h ∧
    (step (run (Cluster.init [0] [none, some 5]) h) (.fetch 0 1000 1000 k₁ true)).2 = .hit [118, 49] [[97], [98], k₁] 2000 0 ∧
    (step (run (Cluster.init [0] [none, some 5]) h) (.fetch 1 1000 1000 k₁ false)).2 = .hit [118, 49] [] 2000 0 ∧
    idealOf h k₁ = none ∧
    Spec.answerOk (idealOf h) 1000 k₁ false false (.hit [118, 49] [] 2000 0) = false := by
  refine ⟨?_, by decide, by decide, by decide, by decide⟩
  intro op ho
  simp only [List.mem_cons, List.not_mem_nil, or_false] at ho
  rcases ho with h | h | h <;> subst h <;> simp [OpOk, namesSize, inI64, k₁]

/-- **tcp-trigger-empty.**  A store whose trigger set contains the empty name is answered with
`error` and dropped; `tcp_cache::store` does not look at the answer.  The previous value stays on
the server and is served to every node after the store completed. -/
theorem trigger_empty_counterexample :
    let h : List Op := [.store 0 1000 k₁ [111, 108, 100] [] 2000, .fetch 1 1000 1000 k₁ true, .store 0 1000 k₁ [110, 101, 119] [[]] 2000]
    HistOk h ∧
    (step (run (Cluster.init [0] [none, some 5]) h) (.fetch 0 1000 1000 k₁ false)).2 = .hit [111, 108, 100] [] 2000 0 ∧
    (step (run (Cluster.init [0] [none, some 5]) h) (.fetch 1 1000 1000 k₁ false)).2 = .hit [111, 108, 100] [] 2000 0 ∧
    (idealOf h k₁).map (·.val) = some [110, 101, 119] ∧
    Spec.answerOk (idealOf h) 1000 k₁ false false (.hit [111, 108, 100] [] 2000 0) = false := by
  refine ⟨?_, by decide, by decide, by decide, by decide⟩
  intro op ho
  simp only [List.mem_cons, List.not_mem_nil, or_false] at ho
  rcases ho with h | h | h <;> subst h <;> simp [OpOk, namesSize, inI64, k₁]

/-- both `_partial` statements are false without `WFwire` -/
theorem coherentIdealFull_false : ¬ CoherentIdealFull := by
  intro h
  have := h [0] [none, some 5]
    [.store 0 1000 k₁ [111, 108, 100] [] 2000, .fetch 1 1000 1000 k₁ true, .store 0 1000 k₁ [110, 101, 119] [[]] 2000]
    (by decide) trigger_empty_counterexample.1 0 1000 1000 k₁ false (by decide) [111, 108, 100] [] 2000 0
    trigger_empty_counterexample.2.1 false
  exact absurd this (by rw [trigger_empty_counterexample.2.2.2.2]; decide)

theorem wireRoundtripStoreFull_false : ¬ WireRoundtripStoreFull := by
  intro h
  have h1 := h (State.init 0 none) 1000 k₁ [118] [[]] 2000
  -- the store was dropped: the server stays empty, whereas the store asked for leaves one entry
  have hl : (tcpStore (State.init 0 none) 1000 k₁ [118] [[]] 2000).size = 0 := by decide
  rw [h1] at hl
  exact absurd hl (by decide)

/-- **tcp-key-nul.**  The entry's own key is one of its triggers and travels back NUL-terminated:
for the key `k\0x` a fetch that asks for the trigger set receives `{k, x}`; the name `k\0x`, which
the ideal shared cache (and the thread cache) reports, is missing. -/
theorem key_nul_counterexample :
    let kk : Key := [107, 0, 120]
    let h : List Op := [.store 0 1000 kk [118] [] 2000]
    HistOk h ∧ HistWF h ∧
    (step (run (Cluster.init [0] [none, some 5]) h) (.fetch 0 1000 1000 kk true)).2 = .hit [118] [[107], [120]] 2000 0 ∧
    (idealOf h kk).map (·.trigs) = some [kk] ∧
    Spec.answerOk (idealOf h) 1000 kk false true (.hit [118] [[107], [120]] 2000 0) = false ∧
    Spec.answerOk (idealOf h) 1000 kk false false (.hit [118] [[107], [120]] 2000 0) = true := by
  refine ⟨?_, ?_, by decide, by decide, by decide, by decide⟩
  · intro op ho
    simp only [List.mem_cons, List.not_mem_nil, or_false] at ho
    subst ho; simp [OpOk, namesSize, inI64]
  · intro op ho
    simp only [List.mem_cons, List.not_mem_nil, or_false] at ho
    subst ho
    exact ⟨by decide, by simp, by simp, by simp, by decide⟩

/-! ## non-vacuity -/

private def t₁ : Key := [116]
/-- two servers, three clients (L1 with limit 5, no L1, unlimited L1); every store is `WFwire` -/
private def h₁ : List Op :=
  [.store 0 1000 k₁ [1, 0, 2] [t₁] 2000, .fetch 1 1001 1001 k₁ true, .fetch 0 1001 1001 k₁ true,
   .store 2 1002 k₁ [] [] 2000, .fetch 0 1003 1003 k₁ false]

example : HistOk h₁ := by
  intro op ho
  simp only [h₁, List.mem_cons, List.not_mem_nil, or_false] at ho
  rcases ho with h | h | h | h | h <;> subst h <;> simp [OpOk, namesSize, inI64, k₁, t₁]

example : HistWF h₁ := by
  intro op ho
  simp only [h₁, List.mem_cons, List.not_mem_nil, or_false] at ho
  rcases ho with h | h | h | h | h <;> subst h <;> (try trivial)
  · exact ⟨by decide, by simp [t₁], by simp [t₁], by simp [k₁, t₁], by decide⟩
  · exact ⟨by decide, by simp, by simp, by simp [k₁], by decide⟩

-- client 0's L1 holds the first value (generation 0); after client 2 replaced it the L1 entry is revalidated,
-- refreshed, and the *new* (empty) value is returned — with the old entry's trigger still in the returned set
example : (step (run (Cluster.init [0, 0] [some 5, none, some 0]) (h₁.take 3)) (.fetch 0 1001 1001 k₁ true)).2
    = .hit [1, 0, 2] [k₁, t₁] 2000 0 := by decide
example : (step (run (Cluster.init [0, 0] [some 5, none, some 0]) (h₁.take 4)) (.fetch 0 1003 1003 k₁ true)).2
    = .hit [] [k₁, t₁, k₁] 2000 1 := by decide
example : (step (run (Cluster.init [0, 0] [some 5, none, some 0]) h₁) (.fetch 0 1003 1003 k₁ true)).2
    = .hit [] [t₁, k₁] 2000 1 := by decide
example : (idealOf h₁ k₁).map (·.val) = some [] := by decide
example : KeysNulFree h₁ := by
  intro op ho
  simp only [h₁, List.mem_cons, List.not_mem_nil, or_false] at ho
  rcases ho with h | h | h | h | h <;> subst h <;> simp [k₁]
-- rise by the client without L1 invalidates what sits in the others' L1s
example : (step (run (Cluster.init [0, 0] [some 5, none, some 0]) (h₁ ++ [.rise 1 k₁])) (.fetch 0 1003 1003 k₁ true)).2 = .miss := by
  decide
-- an L1 entry and the server entry it copies (`l1_inv`), same generation (`gen_unique`)
example : (labs (run (Cluster.init [0, 0] [some 5, none, some 0]) (h₁.take 3)) 0 k₁).map (·.gen) = some 0 ∧
    (sabs (run (Cluster.init [0, 0] [some 5, none, some 0]) (h₁.take 1)) (shard 2 k₁) k₁).map (·.gen) = some 0 := by decide
-- session opcodes: hypotheses of `session_save_load_roundtrip`, and the negative-deadline quirk (saved, never loaded)
example :
    let sid : Bytes := List.replicate 32 97
    let st1 := (sessTransmit [] 1000 (reqSessSave sid 5000 [1, 0, 2])).1
    cliDecodeSessLoad (sessTransmit st1 4000 (reqSessLoad sid)).2.1 (sessTransmit st1 4000 (reqSessLoad sid)).2.2 = some (5000, [1, 0, 2]) ∧
    cliDecodeSessLoad (sessTransmit st1 5001 (reqSessLoad sid)).2.1 (sessTransmit st1 5001 (reqSessLoad sid)).2.2 = none := by decide
example :
    let sid : Bytes := List.replicate 32 97
    let st1 := (sessTransmit [] (-10) (reqSessSave sid (-5) [1])).1
    sessLoad st1 (-10) sid = some (-5, [1]) ∧
    cliDecodeSessLoad (sessTransmit st1 (-10) (reqSessLoad sid)).2.1 (sessTransmit st1 (-10) (reqSessLoad sid)).2.2 = none := by decide
-- generations keep growing across a clear issued by another node: the entry stored after it gets a fresh stamp,
-- so the L1 copy made before the clear (generation 0) is not confirmed
example :
    let h : List Op := [.store 1 1000 k₁ [1] [] 2000, .fetch 0 1000 1000 k₁ false, .clear 1, .store 1 1000 k₁ [2] [] 2000]
    (sabs (run (Cluster.init [0] [some 5, none]) h) 0 k₁).map (·.gen) = some 1 ∧
    (labs (run (Cluster.init [0] [some 5, none]) h) 0 k₁).map (·.gen) = some 0 ∧
    (step (run (Cluster.init [0] [some 5, none]) h) (.fetch 0 1000 1000 k₁ false)).2 = .hit [2] [] 2000 1 := by decide
-- hypotheses of `transmit_segmentation_independent`: byte-wise / 7-byte segmenters; the client's request frames
example : ∀ b, (chunksOf 1 b).flatten = b := chunksOf_flatten 1
example : ∀ b, (chunksOf 7 b).flatten = b := chunksOf_flatten 7
example : FrameWF (reqFetch k₁ true (some 5)).1 ((reqFetch k₁ true (some 5)).2.take ((reqFetch k₁ true (some 5)).1.get Gen.wSize)) :=
  frameWF_reqFetch k₁ true (some 5) (by decide)
example : (transmitSeg (chunksOf 1) (chunksOf 3) (State.init 0 none) 0 (reqFetch k₁ true none).1 (reqFetch k₁ true none).2).isSome = true := by
  decide
-- hypotheses of `wire_roundtrip_store_partial` / `wire_roundtrip_data_partial`
example : Spec.WFwire k₁ [0, 255] [t₁, [1, 2]] (-5) := ⟨by decide, by simp [t₁], by simp [t₁], by simp [k₁, t₁], by decide⟩
example : FrameWF (reqStore k₁ [0, 255] [t₁] 77).1 (reqStore k₁ [0, 255] [t₁] 77).2 :=
  (wire_roundtrip_store_partial (State.init 0 none) 0 k₁ [0, 255] [t₁] 77
    ⟨by decide, by simp [t₁], by simp [t₁], by simp [k₁, t₁], by decide⟩).1

end Cppcms.C10.Props
