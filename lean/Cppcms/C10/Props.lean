import Cppcms.C10.Model
import Cppcms.C10.Spec
namespace Cppcms.C10.Props
open Cppcms Cppcms.C07 Cppcms.C10

theorem shard_lt (n : Nat) (k : Key) (h : 0 < n) : shard n k < n := by
  unfold shard Gen.hashFinish
  split
  · omega
  · exact Nat.mod_lt _ h

/-- finding tcp-trigger-nul -/
theorem trigger_nul_counterexample :
    let h : List Op := [.store 0 1000 [107] [118, 49] [[97, 0, 98]] 2000, .rise 1 [97, 0, 98]]
    (step (run (Cluster.init [0] [none, some 5]) h) (.fetch 0 1000 1000 [107] true)).2
      = .hit [118, 49] [[97], [98], [107]] 2000 0 := by
  decide

end Cppcms.C10.Props
