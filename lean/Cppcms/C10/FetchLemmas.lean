import Cppcms.C10.Effect
/-!
# C10 — `cache_over_ip::fetch` over the message-level transport: effect on the cluster and where
the answer comes from (`fetchOp_spec`).
-/
namespace Cppcms.C10
open Cppcms Cppcms.C07

theorem aFetch_cases (s : State) (now : Time) (k : Key) (t : Bool) (cur : Option Gen) :
    (aFetch s now k t cur).1 = (C07.step s (.fetch now k)).1 ∧
    (match (aFetch s now k t cur).2 with
     | .upToDate => ∃ v ts d g, (C07.step s (.fetch now k)).2 = .hit v ts d g ∧ cur = some g
     | .found v ts d g => ∃ ts0, (C07.step s (.fetch now k)).2 = .hit v ts0 d g ∧ ts = if t then backTrigs ts0 else []
     | .notFound => True) := by
  refine ⟨aFetch_fst s now k t cur, ?_⟩
  unfold aFetch
  rcases h : C07.step s (.fetch now k) with ⟨s', o⟩
  cases o with
  | hit v trigs d g => by_cases hc : cur = some g <;> simp [hc]
  | miss => simp
  | done => simp
  | stats a b => simp

/-- where the answer of a fetch comes from -/
inductive Origin (cl : Cluster) (c : Nat) (nowS : Time) (k : Key) (tags : Bool) (v : Val) (ts : List Key) (d : Time) (g : Gen) : Prop where
  /-- the responsible server sent the entry it holds -/
  | fresh (e : Entry) (h : home cl k = some e) (hv : e.val = v) (hd : e.deadline = d) (hg : e.gen = g) (hl : ¬ d < nowS)
      (htr : tags = true → ∀ t ∈ backTrigs e.trigs, t ∈ ts)
  /-- the L1 entry was returned after the server confirmed its generation -/
  | confirmed (eL es : Entry) (hL : labs cl c k = some eL) (hv : eL.val = v) (hd : eL.deadline = d) (hg : eL.gen = g)
      (hs : home cl k = some es) (hsg : es.gen = g) (hl : ¬ es.deadline < nowS) (htr : tags = true → ts = eL.trigs)

theorem fetchOp_spec {cl : Cluster} (hi : CInvs cl) (c : Nat) (nowC nowS : Time) (k : Key) (tags : Bool) :
    Effect cl (fetchOp absT cl c nowC nowS k tags).1 ∧
    ∀ v ts d g, (fetchOp absT cl c nowC nowS k tags).2 = .hit v ts d g → Origin cl c nowS k tags v ts d g := by
  unfold fetchOp
  simp only [absT]
  cases hs : cl.servers[shard cl.servers.length k]? with
  | none => exact ⟨effect_l1Only (l1Only_refl cl), by intro v ts d g h; cases h⟩
  | some s =>
    have hinv := hi.srv _ s hs
    have hhome := home_eq hs
    simp only
    cases hl : cl.l1 c with
    | none =>
      simp only
      obtain ⟨e1, e2⟩ := aFetch_cases s nowS k tags none
      rcases hr : aFetch s nowS k tags none with ⟨s', r⟩
      rw [hr] at e1 e2
      simp only at e1 e2
      subst e1
      have heff : Effect cl (cl.setServer (shard cl.servers.length k) (C07.step s (.fetch nowS k)).1) :=
        effect_setServer (l1Only_refl cl) hs (srvRel_fetch hinv nowS k)
      cases r with
      | upToDate => exact ⟨heff, by intro v ts d g h; cases h⟩
      | notFound => exact ⟨heff, by intro v ts d g h; cases h⟩
      | found v ts d g =>
        refine ⟨heff, ?_⟩
        intro v' ts' d' g' h
        simp only [Out.hit.injEq] at h
        obtain ⟨rfl, rfl, rfl, rfl⟩ := h
        obtain ⟨ts0, h0, hts⟩ := e2
        obtain ⟨ha, hl⟩ := fetch_hit_abs h0
        exact .fresh _ (hhome.trans ha) rfl rfl rfl hl (by intro ht t hm; rw [hts, ht]; simpa using hm)
    | some l =>
      have hlinv := hi.l1 c l hl
      simp only
      rcases hlf : C07.step l (.fetch nowC k) with ⟨l1, lo⟩
      have hl1 : l1 = (C07.step l (.fetch nowC k)).1 := by rw [hlf]
      have hrel1 : L1Rel l l1 (home cl) := by rw [hl1]; exact l1Rel_nonstore hlinv _ _ (by intros; simp)
      have hl1inv : C07.Inv l1 := hrel1.inv hlinv
      cases lo with
      | hit vL tL dL gL =>
        simp only
        obtain ⟨e1, e2⟩ := aFetch_cases s nowS k true (some gL)
        rcases hr : aFetch s nowS k true (some gL) with ⟨s', r⟩
        rw [hr] at e1 e2
        simp only at e1 e2
        subst e1
        have hLabs : labs cl c k = some ⟨vL, tL, dL, gL⟩ := by
          have := (fetch_hit_abs (s := l) (now := nowC) (k := k) (by rw [hlf])).1
          simp [labs, hl, this]
        cases r with
        | upToDate =>
          simp only
          rw [setServer_setL1_comm]
          refine ⟨effect_setServer (l1Only_setL1 hl hrel1) hs (srvRel_fetch hinv nowS k), ?_⟩
          intro v' ts' d' g' h
          simp only [Out.hit.injEq] at h
          obtain ⟨rfl, rfl, rfl, rfl⟩ := h
          obtain ⟨v0, ts0, d0, g0, h0, hc⟩ := e2
          cases hc
          obtain ⟨ha, hlive⟩ := fetch_hit_abs h0
          exact .confirmed _ _ hLabs rfl rfl rfl (hhome.trans ha) rfl hlive (by intro ht; simp [ht])
        | notFound =>
          simp only
          rw [setServer_setL1_comm]
          refine ⟨effect_setServer (l1Only_setL1 hl ?_) hs (srvRel_fetch hinv nowS k), by intro v ts d g h; cases h⟩
          split
          · exact l1Rel_trans hrel1 (l1Rel_nonstore hl1inv _ _ (by intros; simp))
          · exact hrel1
        | found v ts d g =>
          simp only
          rw [setServer_setL1_comm]
          obtain ⟨ts0, h0, hts⟩ := e2
          simp only [if_true] at hts
          obtain ⟨ha, hlive⟩ := fetch_hit_abs h0
          refine ⟨effect_setServer (l1Only_setL1 hl (l1Rel_trans hrel1 (l1Rel_store hl1inv nowC k v _ d g _ (hhome.trans ha)
            (by intro t hm; rw [hts]; exact List.mem_append_right _ hm))))
            hs (srvRel_fetch hinv nowS k), ?_⟩
          intro v' ts' d' g' h
          simp only [Out.hit.injEq] at h
          obtain ⟨rfl, rfl, rfl, rfl⟩ := h
          exact .fresh _ (hhome.trans ha) rfl rfl rfl hlive
            (by intro ht t hm; rw [ht, hts]; simp only [if_true]; exact List.mem_append_right _ hm)
      | _ =>
        simp only
        obtain ⟨e1, e2⟩ := aFetch_cases s nowS k true none
        rcases hr : aFetch s nowS k true none with ⟨s', r⟩
        rw [hr] at e1 e2
        simp only at e1 e2
        subst e1
        cases r with
        | upToDate =>
          simp only
          rw [setServer_setL1_comm]
          exact ⟨effect_setServer (l1Only_setL1 hl hrel1) hs (srvRel_fetch hinv nowS k), by intro v ts d g h; cases h⟩
        | notFound =>
          simp only
          rw [setServer_setL1_comm]
          exact ⟨effect_setServer (l1Only_setL1 hl hrel1) hs (srvRel_fetch hinv nowS k), by intro v ts d g h; cases h⟩
        | found v ts d g =>
          simp only
          rw [setServer_setL1_comm]
          obtain ⟨ts0, h0, hts⟩ := e2
          simp only [if_true] at hts
          obtain ⟨ha, hlive⟩ := fetch_hit_abs h0
          refine ⟨effect_setServer (l1Only_setL1 hl (l1Rel_trans hrel1 (l1Rel_store hl1inv nowC k v _ d g _ (hhome.trans ha)
            (by intro t hm; rw [hts]; exact hm))))
            hs (srvRel_fetch hinv nowS k), ?_⟩
          intro v' ts' d' g' h
          simp only [Out.hit.injEq] at h
          obtain ⟨rfl, rfl, rfl, rfl⟩ := h
          exact .fresh _ (hhome.trans ha) rfl rfl rfl hlive
            (by intro ht t hm; rw [ht, hts]; simp only [if_true]; exact hm)

theorem aFetch_not_notFound (s : State) (now : Time) (k : Key) (t : Bool) (cur : Option Gen)
    {v : Val} {ts : List Key} {d : Time} {g : Gen} (h : (C07.step s (.fetch now k)).2 = .hit v ts d g) :
    (aFetch s now k t cur).2 ≠ .notFound ∧ (cur = none → (aFetch s now k t cur).2 ≠ .upToDate) := by
  unfold aFetch
  rcases hst : C07.step s (.fetch now k) with ⟨s', o⟩
  rw [hst] at h
  simp only at h
  subst h
  simp only
  constructor
  · split <;> simp
  · intro hc; subst hc; simp

/-- if the responsible server finds the key, so does the node — whatever its L1 holds -/
theorem fetchOp_hits (cl : Cluster) (c : Nat) (nowC nowS : Time) (k : Key) (tags : Bool) (s : State)
    (hs : cl.servers[shard cl.servers.length k]? = some s)
    {v : Val} {ts : List Key} {d : Time} {g : Gen} (h : (C07.step s (.fetch nowS k)).2 = .hit v ts d g) :
    ∃ v' ts' d' g', (fetchOp absT cl c nowC nowS k tags).2 = .hit v' ts' d' g' := by
  unfold fetchOp
  simp only [absT, hs]
  cases hl : cl.l1 c with
  | none =>
    simp only
    have hn := (aFetch_not_notFound s nowS k tags none h)
    rcases hr : aFetch s nowS k tags none with ⟨s', r⟩
    rw [hr] at hn
    cases r with
    | upToDate => exact absurd rfl (hn.2 rfl)
    | notFound => exact absurd rfl hn.1
    | found v' ts' d' g' => exact ⟨v', ts', d', g', rfl⟩
  | some l =>
    simp only
    rcases hlf : C07.step l (.fetch nowC k) with ⟨l1, lo⟩
    cases lo with
    | hit vL tL dL gL =>
      simp only
      have hn := (aFetch_not_notFound s nowS k true (some gL) h)
      rcases hr : aFetch s nowS k true (some gL) with ⟨s', r⟩
      rw [hr] at hn
      cases r with
      | upToDate => exact ⟨_, _, _, _, rfl⟩
      | notFound => exact absurd rfl hn.1
      | found v' ts' d' g' => exact ⟨_, _, _, _, rfl⟩
    | _ =>
      simp only
      have hn := (aFetch_not_notFound s nowS k true none h)
      rcases hr : aFetch s nowS k true none with ⟨s', r⟩
      rw [hr] at hn
      cases r with
      | upToDate => exact absurd rfl (hn.2 rfl)
      | notFound => exact absurd rfl hn.1
      | found v' ts' d' g' => exact ⟨_, _, _, _, rfl⟩

end Cppcms.C10
