import Cppcms.C10.FetchLemmas
/-!
# C10 — the global invariant of a cluster history (message-level transport)

`Was cl0 ops i k e`: at some point of the history `ops` (after some prefix) server `i` held `e`
under key `k`.  `CInv`:
* `below`  — every generation a server ever handed out is below its counter;
* `uniq`   — on one server, two entries that ever carried the same generation are the same entry
             (`gen_unique`);
* `l1`     — every L1 entry copies (value, deadline, generation) of something the responsible server
             once held (`l1_inv`);
* `count`  — a server's counter is at most the number of operations so far (no wrap below 2^64).
-/
namespace Cppcms.C10
open Cppcms Cppcms.C07

theorem effect_astep {cl : Cluster} (hi : CInvs cl) (op : Op) : Effect cl (astep cl op).1 := by
  cases op with
  | fetch c nowC nowS k t => exact (fetchOp_spec hi c nowC nowS k t).1
  | store c nowS k v trigs d => exact effect_storeOp hi c nowS k v trigs d
  | rise c t => exact effect_riseOp hi c t
  | clear c => exact effect_clearOp hi c
  | remove c k => exact effect_l1Only (l1Only_refl cl)
  | stats c => exact effect_l1Only (l1Only_refl cl)

theorem cinvs_of_effect {cl cl' : Cluster} (hi : CInvs cl) (he : Effect cl cl') : CInvs cl' := by
  refine ⟨fun i s' h => ?_, fun c l' h => ?_⟩
  · obtain ⟨s, hs, hr⟩ := he.srv i s' h
    exact hr.inv (hi.srv i s hs)
  · obtain ⟨l, hl, hr⟩ := he.l1 c l' h
    exact hr.inv (hi.l1 c l hl)

theorem arun_snoc (cl0 : Cluster) (ops : List Op) (op : Op) :
    arun cl0 (ops ++ [op]) = (astep (arun cl0 ops) op).1 := by
  simp [arun, runT, astep, List.foldl_append]

def Was (cl0 : Cluster) (ops : List Op) (i : Nat) (k : Key) (e : Entry) : Prop :=
  ∃ pre, pre <+: ops ∧ sabs (arun cl0 pre) i k = some e

theorem was_mono {cl0 : Cluster} {ops : List Op} {i : Nat} {k : Key} {e : Entry} (op : Op)
    (h : Was cl0 ops i k e) : Was cl0 (ops ++ [op]) i k e := by
  obtain ⟨pre, hp, hs⟩ := h
  exact ⟨pre, hp.trans (List.prefix_append ops [op]), hs⟩

theorem was_cur {cl0 : Cluster} {ops : List Op} {i : Nat} {k : Key} {e : Entry}
    (h : sabs (arun cl0 ops) i k = some e) : Was cl0 ops i k e := ⟨ops, List.prefix_rfl, h⟩

theorem was_snoc {cl0 : Cluster} {ops : List Op} {op : Op} {i : Nat} {k : Key} {e : Entry}
    (h : Was cl0 (ops ++ [op]) i k e) : Was cl0 ops i k e ∨ sabs (arun cl0 (ops ++ [op])) i k = some e := by
  obtain ⟨pre, hp, hs⟩ := h
  rcases List.prefix_concat_iff.mp hp with h1 | h1
  · subst h1; exact Or.inr hs
  · exact Or.inl ⟨pre, h1, hs⟩

structure CInv (cl0 : Cluster) (ops : List Op) : Prop where
  invs : CInvs (arun cl0 ops)
  len : (arun cl0 ops).servers.length = cl0.servers.length
  below : ∀ (i : Nat) (k : Key) (e : Entry), Was cl0 ops i k e →
    ∀ s, (arun cl0 ops).servers[i]? = some s → e.gen.toNat < s.generation.toNat
  uniq : ∀ (i : Nat) (k k' : Key) (e e' : Entry), Was cl0 ops i k e → Was cl0 ops i k' e' → e.gen = e'.gen → k = k' ∧ e = e'
  l1 : ∀ (c : Nat) (k : Key) (e : Entry), labs (arun cl0 ops) c k = some e →
    ∃ e', Was cl0 ops (shard cl0.servers.length k) k e' ∧ e'.val = e.val ∧ e'.deadline = e.deadline ∧ e'.gen = e.gen ∧
      ∀ t ∈ backTrigs e'.trigs, t ∈ e.trigs
  count : ∀ (i : Nat) (s : State), (arun cl0 ops).servers[i]? = some s → s.generation.toNat ≤ ops.length

/-- a cluster whose caches are all empty -/
structure Fresh (cl0 : Cluster) : Prop where
  invs : CInvs cl0
  srv : ∀ (i : Nat) (s : State), cl0.servers[i]? = some s → s.generation = 0 ∧ abs s = C07.Spec.empty
  l1 : ∀ (c : Nat) (l : State), cl0.l1 c = some l → abs l = C07.Spec.empty

theorem sabs_of {cl : Cluster} {i : Nat} {s : State} (h : cl.servers[i]? = some s) : sabs cl i = abs s := by
  simp [sabs, h]

theorem sabs_none {cl : Cluster} {i : Nat} (h : cl.servers[i]? = none) (k : Key) : sabs cl i k = none := by
  simp [sabs, h, C07.Spec.empty]

theorem cinv_nil {cl0 : Cluster} (hf : Fresh cl0) : CInv cl0 [] := by
  have hrun : arun cl0 [] = cl0 := rfl
  have hnone : ∀ i k e, ¬ Was cl0 [] i k e := by
    intro i k e ⟨pre, hp, hs⟩
    have : pre = [] := List.prefix_nil.mp hp
    subst this
    rw [hrun] at hs
    cases h : cl0.servers[i]? with
    | none => rw [sabs_none h] at hs; cases hs
    | some s => rw [sabs_of h, (hf.srv i s h).2] at hs; simp [C07.Spec.empty] at hs
  refine ⟨hf.invs, rfl, fun i k e h => absurd h (hnone i k e), fun i k k' e e' h => absurd h (hnone i k e), ?_, ?_⟩
  · intro c k e h
    rw [hrun] at h
    simp only [labs] at h
    cases hl : cl0.l1 c with
    | none => rw [hl] at h; simp [C07.Spec.empty] at h
    | some l => rw [hl] at h; simp only at h; rw [hf.l1 c l hl] at h; simp [C07.Spec.empty] at h
  · intro i s h
    rw [hrun] at h
    rw [(hf.srv i s h).1]; simp

theorem toNat_succ {a : UInt64} (h : a.toNat + 1 < 2 ^ 64) : (a + 1).toNat = a.toNat + 1 := by
  rw [UInt64.toNat_add]
  simp
  omega

theorem cinv_snoc {cl0 : Cluster} {ops : List Op} (h : CInv cl0 ops) (hlen : ops.length + 1 < 2 ^ 64) (op : Op) :
    CInv cl0 (ops ++ [op]) := by
  have heff : Effect (arun cl0 ops) (arun cl0 (ops ++ [op])) := by
    rw [arun_snoc]; exact effect_astep h.invs op
  -- one server across the step: old entries, the new entry (if any), the counter
  have hsrv : ∀ (i : Nat) (s' : State), (arun cl0 (ops ++ [op])).servers[i]? = some s' →
      ∃ s, (arun cl0 ops).servers[i]? = some s ∧ s.generation.toNat ≤ s'.generation.toNat ∧
        s'.generation.toNat ≤ s.generation.toNat + 1 ∧
        ∃ ne : Option (Key × Entry),
          (∀ k e, abs s' k = some e → Was cl0 ops i k e ∨ ne = some (k, e)) ∧
          (∀ k e, ne = some (k, e) → e.gen = s.generation ∧ s.generation.toNat < s'.generation.toNat) := by
    intro i s' hs'
    obtain ⟨s, hs, hr⟩ := heff.srv i s' hs'
    obtain ⟨ne, h1, h2, h3⟩ := hr.ent
    have hc := h.count i s hs
    have hsucc : (s.generation + 1).toNat = s.generation.toNat + 1 := toNat_succ (by omega)
    have hmono : s.generation.toNat ≤ s'.generation.toNat ∧ s'.generation.toNat ≤ s.generation.toNat + 1 := by
      cases hne : ne with
      | none => rw [h2 hne]; omega
      | some p => obtain ⟨k0, e0⟩ := p; rw [(h3 k0 e0 hne).2, hsucc]; omega
    refine ⟨s, hs, hmono.1, hmono.2, ne, ?_, ?_⟩
    · intro k e he
      rcases h1 k e he with h' | h'
      · exact Or.inl (was_cur (by rw [sabs_of hs]; exact h'))
      · exact Or.inr h'
    · intro k e hne
      obtain ⟨g1, g2⟩ := h3 k e hne
      exact ⟨g1, by rw [g2, hsucc]; omega⟩
  refine ⟨cinvs_of_effect h.invs heff, by rw [heff.len, h.len], ?_, ?_, ?_, ?_⟩
  · -- below
    intro i k e hw s' hs'
    obtain ⟨s, hs, hm1, _, ne, hent, hnew⟩ := hsrv i s' hs'
    have hold : ∀ k e, Was cl0 ops i k e → e.gen.toNat < s'.generation.toNat := by
      intro k e hw; have := h.below i k e hw s hs; omega
    rcases was_snoc hw with h1 | h1
    · exact hold k e h1
    · rw [sabs_of hs'] at h1
      rcases hent k e h1 with h2 | h2
      · exact hold k e h2
      · obtain ⟨g1, g2⟩ := hnew k e h2; rw [g1]; exact g2
  · -- uniq
    intro i k k' e e' hw hw' hg
    cases hs' : (arun cl0 (ops ++ [op])).servers[i]? with
    | none =>
      have a1 : Was cl0 ops i k e := by
        rcases was_snoc hw with h1 | h1
        · exact h1
        · rw [sabs_none hs'] at h1; cases h1
      have a2 : Was cl0 ops i k' e' := by
        rcases was_snoc hw' with h1 | h1
        · exact h1
        · rw [sabs_none hs'] at h1; cases h1
      exact h.uniq i k k' e e' a1 a2 hg
    | some s' =>
      obtain ⟨s, hs, _, _, ne, hent, hnew⟩ := hsrv i s' hs'
      have cls : ∀ k e, Was cl0 (ops ++ [op]) i k e → Was cl0 ops i k e ∨ ne = some (k, e) := by
        intro k e hw
        rcases was_snoc hw with h1 | h1
        · exact Or.inl h1
        · rw [sabs_of hs'] at h1; exact hent k e h1
      have hlt : ∀ k e, Was cl0 ops i k e → e.gen.toNat < s.generation.toNat := fun k e hw => h.below i k e hw s hs
      rcases cls k e hw with a1 | a1 <;> rcases cls k' e' hw' with a2 | a2
      · exact h.uniq i k k' e e' a1 a2 hg
      · have := hlt k e a1
        rw [hg, (hnew k' e' a2).1] at this
        omega
      · have := hlt k' e' a2
        rw [← hg, (hnew k e a1).1] at this
        omega
      · rw [a1] at a2
        simp only [Option.some.injEq, Prod.mk.injEq] at a2
        exact a2
  · -- l1
    intro c k e hl
    simp only [labs] at hl
    cases hl' : (arun cl0 (ops ++ [op])).l1 c with
    | none => rw [hl'] at hl; simp [C07.Spec.empty] at hl
    | some l' =>
      rw [hl'] at hl
      simp only at hl
      obtain ⟨l, hl0, hr⟩ := heff.l1 c l' hl'
      rcases hr.ent k e hl with h1 | ⟨es, h1, h2, h3, h4, h5⟩
      · obtain ⟨e', w, r⟩ := h.l1 c k e (by simp [labs, hl0, h1])
        exact ⟨e', was_mono op w, r⟩
      · refine ⟨es, was_mono op (was_cur ?_), h2, h3, h4, h5⟩
        simp only [home, h.len] at h1
        exact h1
  · -- count
    intro i s' hs'
    obtain ⟨s, hs, _, hm2, _⟩ := hsrv i s' hs'
    have := h.count i s hs
    simp only [List.length_append, List.length_cons, List.length_nil]
    omega

theorem cinv_run {cl0 : Cluster} (hf : Fresh cl0) (ops : List Op) (hlen : ops.length < 2 ^ 64) : CInv cl0 ops := by
  induction hn : ops.length generalizing ops with
  | zero =>
    have : ops = [] := List.eq_nil_of_length_eq_zero hn
    subst this; exact cinv_nil hf
  | succ n ih =>
    rcases List.eq_nil_or_concat ops with h0 | ⟨pre, op, h0⟩
    · subst h0; cases hn
    · subst h0
      simp only [List.concat_eq_append, List.length_append, List.length_cons, List.length_nil] at hn hlen
      rw [List.concat_eq_append]
      exact cinv_snoc (ih pre (by omega) (by omega)) (by omega) op

end Cppcms.C10
