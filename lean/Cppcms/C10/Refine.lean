import Cppcms.C10.WireLemmas
import Cppcms.C10.Ideal
/-!
# C10 — the cluster model over the real codec equals the cluster model over the message-level
transport (`step_eq_astep`, `run_eq_arun`), as long as the sizes fit:

* `OpOk op`: key, value and trigger names of the operation total less than 2^31 − 2 bytes with their
  terminators; deadlines are `int64_t`;
* `AllSmall cl`: every entry a server holds can be sent back in one data frame — an invariant of
  histories of `OpOk` operations (`allSmall_astep`).
-/
namespace Cppcms.C10
open Cppcms Cppcms.C07

/-- total size of a list of names with their terminators -/
def namesSize (l : List Key) : Nat := (l.map (·.length + 1)).sum

theorem length_trigBytes (l : List Key) : (trigBytes l).length = namesSize l := by
  induction l with
  | nil => rfl
  | cons t l ih =>
    have : trigBytes (t :: l) = t ++ 0 :: trigBytes l := by simp [trigBytes]
    rw [this]
    simp only [List.length_append, List.length_cons, ih, namesSize, List.map_cons, List.sum_cons]
    omega

theorem namesSize_insertSet (t : Key) (l : List Key) : namesSize (insertSet t l) ≤ t.length + 1 + namesSize l := by
  induction l with
  | nil => simp [insertSet, namesSize]
  | cons x r ih =>
    simp only [insertSet]
    split
    · simp only [namesSize, List.map_cons, List.sum_cons]; omega
    · split
      · simp only [namesSize, List.map_cons, List.sum_cons]; omega
      · simp only [namesSize, List.map_cons, List.sum_cons] at ih ⊢; omega

theorem namesSize_sortSet (l : List Key) : namesSize (sortSet l) ≤ namesSize l := by
  induction l with
  | nil => simp [sortSet, namesSize]
  | cons x r ih =>
    have : sortSet (x :: r) = insertSet x (sortSet r) := rfl
    rw [this]
    have := namesSize_insertSet x (sortSet r)
    simp only [namesSize, List.map_cons, List.sum_cons] at ih this ⊢
    omega

theorem namesSize_dedup (l : List Key) : namesSize (dedup l) ≤ namesSize l := by
  induction l with
  | nil => simp [dedup, namesSize]
  | cons x r ih =>
    simp only [dedup]
    split
    · simp only [namesSize, List.map_cons, List.sum_cons] at ih ⊢; omega
    · simp only [namesSize, List.map_cons, List.sum_cons] at ih ⊢; omega

theorem namesSize_ownTrigs (k : Key) (l : List Key) : namesSize (ownTrigs k l) ≤ k.length + 1 + namesSize l := by
  have := namesSize_dedup l
  unfold ownTrigs
  split
  · omega
  · simp only [namesSize, List.map_cons, List.sum_cons] at this ⊢; omega

theorem loadAux_size (rej : Nat → Bool) (bs cur : Bytes) (ts : List Key) (h : loadAux rej bs cur = some ts) :
    namesSize ts ≤ bs.length + cur.length + 1 := by
  induction bs generalizing cur ts with
  | nil =>
    simp only [loadAux] at h
    split at h
    · cases h; simp [namesSize]
    · split at h
      · cases h
      · cases h; simp [namesSize]
  | cons c r ih =>
    simp only [loadAux] at h
    split at h
    · split at h
      · cases h
      · cases hr : loadAux rej r [] with
        | none => rw [hr] at h; cases h
        | some ts' =>
          rw [hr] at h
          simp only [Option.map_some, Option.some.injEq] at h
          subst h
          have := ih [] ts' hr
          simp only [namesSize, List.map_cons, List.sum_cons, List.length_cons, List.length_nil, List.length_reverse] at this ⊢
          omega
    · have := ih (c :: cur) ts h
      simp only [List.length_cons] at this ⊢
      omega

/-! ### bounds -/

def inI64 (d : Time) : Prop := -9223372036854775808 ≤ d ∧ d < 9223372036854775808

def OpOk : Op → Prop
  | .fetch _ _ _ k _ => k.length < 2147483648
  | .store _ _ k v trigs d => k.length + v.length + namesSize trigs + 2 < 2147483648 ∧ inI64 d
  | .rise _ t => t.length < 2147483648
  | _ => True

def EntrySmall (e : Entry) : Prop := e.val.length + namesSize e.trigs < 2147483648 ∧ inI64 e.deadline

def SrvSmall (s : State) : Prop := ∀ k e, abs s k = some e → EntrySmall e

def AllSmall (cl : Cluster) : Prop := ∀ (i : Nat) (s : State), cl.servers[i]? = some s → SrvSmall s

theorem srvSmall_fetch {s : State} (h : SrvSmall s) (now : Time) (k : Key) :
    ∀ v ts d g, (C07.step s (.fetch now k)).2 = .hit v ts d g →
      v.length + (trigBytes (sortSet ts)).length < 2147483648 ∧ -9223372036854775808 ≤ d ∧ d < 9223372036854775808 := by
  intro v ts d g hh
  obtain ⟨h1, h2⟩ := h k _ (fetch_hit_abs hh).1
  simp only at h1 h2
  rw [length_trigBytes]
  have := namesSize_sortSet ts
  exact ⟨by omega, h2⟩

/-! ### congruence of the cluster step in the transport -/

theorem fetchOp_congr (T1 T2 : Transport) (cl : Cluster) (c : Nat) (nowC nowS : Time) (k : Key) (tags : Bool)
    (h : ∀ s, cl.servers[shard cl.servers.length k]? = some s → ∀ t cur, T1.fetch s nowS k t cur = T2.fetch s nowS k t cur) :
    fetchOp T1 cl c nowC nowS k tags = fetchOp T2 cl c nowC nowS k tags := by
  unfold fetchOp
  simp only
  cases hs : cl.servers[shard cl.servers.length k]? with
  | none => rfl
  | some s => simp only [h s hs]

theorem storeOp_congr (T1 T2 : Transport) (cl : Cluster) (c : Nat) (nowS : Time) (k : Key) (v : Val) (trigs : List Key) (d : Time)
    (h : ∀ s, cl.servers[shard cl.servers.length k]? = some s → T1.store s nowS k v trigs d = T2.store s nowS k v trigs d) :
    storeOp T1 cl c nowS k v trigs d = storeOp T2 cl c nowS k v trigs d := by
  unfold storeOp
  cases hl : cl.l1 c with
  | none =>
    simp only
    cases hs : cl.servers[shard cl.servers.length k]? with
    | none => rfl
    | some s => simp only [h s hs]
  | some l =>
    simp only
    cases hb : Gen.storeDropsL1 with
    | false =>
      simp only [Bool.false_eq_true, if_false]
      cases hs : cl.servers[shard cl.servers.length k]? with
      | none => rfl
      | some s => simp only [h s hs]
    | true =>
      simp only [if_true, setL1_servers]
      cases hs : cl.servers[shard cl.servers.length k]? with
      | none => rfl
      | some s => simp only [h s hs]

theorem riseOp_congr (T1 T2 : Transport) (cl : Cluster) (c : Nat) (t : Key)
    (h : ∀ s ∈ cl.servers, T1.rise s t = T2.rise s t) : riseOp T1 cl c t = riseOp T2 cl c t := by
  have hm : ∀ l : List State, l = cl.servers → (l.map fun s => T1.rise s t) = (l.map fun s => T2.rise s t) := by
    intro l hl; subst hl; exact List.map_congr_left h
  unfold riseOp
  cases hl : cl.l1 c with
  | none => simp only [hm _ rfl]
  | some l =>
    simp only
    cases hb : Gen.riseAppliesL1 with
    | false => simp only [Bool.false_eq_true, if_false, hm _ rfl]
    | true => simp only [if_true, setL1_servers, hm _ rfl]

theorem clearOp_congr (T1 T2 : Transport) (cl : Cluster) (c : Nat)
    (h : ∀ s ∈ cl.servers, T1.clear s = T2.clear s) : clearOp T1 cl c = clearOp T2 cl c := by
  have hm : ∀ l : List State, l = cl.servers → l.map T1.clear = l.map T2.clear := by
    intro l hl; subst hl; exact List.map_congr_left h
  unfold clearOp
  cases hl : cl.l1 c with
  | none => simp only [hm _ rfl]
  | some l =>
    simp only
    cases hb : Gen.clearAppliesL1 with
    | false => simp only [Bool.false_eq_true, if_false, hm _ rfl]
    | true => simp only [if_true, setL1_servers, hm _ rfl]

theorem foldl_congr_mem {α β : Type} (f g : β → α → β) (l : List α) (b : β) (h : ∀ a ∈ l, ∀ b, f b a = g b a) :
    l.foldl f b = l.foldl g b := by
  induction l generalizing b with
  | nil => rfl
  | cons a l ih =>
    simp only [List.foldl_cons]
    rw [h a (by simp), ih _ (fun a' ha' => h a' (by simp [ha']))]

theorem statsOp_congr (T1 T2 : Transport) (cl : Cluster) (h : ∀ s ∈ cl.servers, T1.stats s = T2.stats s) :
    statsOp T1 cl = statsOp T2 cl := by
  unfold statsOp
  have : List.foldl (fun (acc : Nat × Nat) s => match T1.stats s with
        | (k, t) => ((acc.1 + k) % u32, (acc.2 + t) % u32)) (0, 0) cl.servers =
      List.foldl (fun (acc : Nat × Nat) s => match T2.stats s with
        | (k, t) => ((acc.1 + k) % u32, (acc.2 + t) % u32)) (0, 0) cl.servers :=
    foldl_congr_mem _ _ cl.servers (0, 0) (fun s hs b => by rw [h s hs])
  simp only [this]

theorem mem_of_getElem? {α : Type} {l : List α} {i : Nat} {a : α} (h : l[i]? = some a) : a ∈ l :=
  List.mem_of_getElem? h

/-- **the wire-level model is the message-level model** (one operation) -/
theorem step_eq_astep {cl : Cluster} (hsm : AllSmall cl) {op : Op} (hok : OpOk op) : step cl op = astep cl op := by
  cases op with
  | fetch c nowC nowS k t =>
    simp only [step, astep, stepT]
    apply fetchOp_congr
    intro s hs t' cur
    exact tcpFetch_eq s nowS k t' cur (by simp only [OpOk] at hok; omega) (srvSmall_fetch (hsm _ s hs) nowS k)
  | store c nowS k v trigs d =>
    simp only [step, astep, stepT]
    congr 1
    apply storeOp_congr
    intro s _
    simp only [OpOk] at hok
    have := namesSize_sortSet trigs
    exact tcpStore_eq s nowS k v trigs d (by rw [length_trigBytes]; omega) hok.2
  | rise c t =>
    simp only [step, astep, stepT]
    exact congrArg (·, Out.done) (riseOp_congr _ _ cl c t (fun s _ => tcpRise_eq s t (by simp only [OpOk] at hok; omega)))
  | clear c =>
    simp only [step, astep, stepT]
    exact congrArg (·, Out.done) (clearOp_congr _ _ cl c (fun s _ => tcpClear_eq s))
  | remove c k => rfl
  | stats c =>
    simp only [step, astep, stepT]
    exact congrArg (cl, ·) (statsOp_congr _ _ cl (fun s _ => tcpStats_eq s))

/-! ### the size invariant -/

theorem srvSmall_applyProj {s : State} (hinv : C07.Inv s) (hsm : SrvSmall s) (n i : Nat) {op : Op} (hok : OpOk op) :
    SrvSmall (applyProj (projOp n i op) s) := by
  cases hp : projOp n i op with
  | none => exact hsm
  | some o =>
    simp only [applyProj]
    intro k' e he
    rcases entries_step hinv o he with h1 | h1
    · exact hsm k' e h1
    · cases op with
      | fetch c nowC nowS k t =>
        simp only [projOp] at hp
        split at hp <;> simp at hp
        subst hp; simp [newEntry] at h1
      | store c nowS k v trigs d =>
        simp only [projOp] at hp
        split at hp
        · simp only [storeOpOf] at hp
          split at hp
          · cases hp
          · cases hw : wireTrigs trigs with
            | none => rw [hw] at hp; cases hp
            | some ts =>
              rw [hw] at hp
              simp only [Option.map_some, Option.some.injEq] at hp
              subst hp
              simp only [newEntry] at h1
              cases hst : stamp s (C07.Op.store nowS k v ts d) with
              | none => rw [hst] at h1; cases h1
              | some g =>
                rw [hst] at h1
                simp only [Option.map_some, Option.some.injEq, Prod.mk.injEq] at h1
                obtain ⟨_, he'⟩ := h1
                subst he'
                simp only [OpOk] at hok
                have h2 := loadAux_size _ _ _ _ hw
                rw [length_trigBytes] at h2
                have h3 := namesSize_sortSet trigs
                have h4 := namesSize_ownTrigs k ts
                simp only [List.length_nil] at h2
                exact ⟨by simp only; omega, hok.2⟩
        · cases hp
      | rise c t => simp only [projOp, Option.some.injEq] at hp; subst hp; simp [newEntry] at h1
      | clear c => simp only [projOp, Option.some.injEq] at hp; subst hp; simp [newEntry] at h1
      | remove c k => simp [projOp] at hp
      | stats c => simp [projOp] at hp

theorem allSmall_astep {cl : Cluster} (hi : CInvs cl) (hsm : AllSmall cl) {op : Op} (hok : OpOk op) :
    AllSmall (astep cl op).1 := by
  intro i s' hs'
  rw [astep_servers] at hs'
  cases hs : cl.servers[i]? with
  | none => rw [hs] at hs'; cases hs'
  | some s =>
    rw [hs] at hs'
    simp only [Option.map_some, Option.some.injEq] at hs'
    subst hs'
    exact srvSmall_applyProj (hi.srv i s hs) (hsm i s hs) _ _ hok

theorem run_cons (cl : Cluster) (op : Op) (ops : List Op) : run cl (op :: ops) = run (step cl op).1 ops := rfl

/-- **the wire-level model is the message-level model** (whole histories) -/
theorem run_eq_arun {cl : Cluster} (hi : CInvs cl) (hsm : AllSmall cl) (ops : List Op) (hok : ∀ op ∈ ops, OpOk op) :
    run cl ops = arun cl ops ∧ AllSmall (arun cl ops) := by
  induction ops generalizing cl with
  | nil => exact ⟨rfl, hsm⟩
  | cons op ops ih =>
    have h1 : OpOk op := hok op (by simp)
    rw [run_cons, step_eq_astep hsm h1, arun_cons]
    exact ih (cinvs_of_effect hi (effect_astep hi op)) (allSmall_astep hi hsm h1) (fun o ho => hok o (by simp [ho]))

theorem allSmall_fresh {cl0 : Cluster} (hf : Fresh cl0) : AllSmall cl0 := by
  intro i s hs k e he
  rw [(hf.srv i s hs).2] at he
  simp [C07.Spec.empty] at he

end Cppcms.C10
