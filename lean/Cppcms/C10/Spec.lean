import Cppcms.Common
import Cppcms.C07.Spec
/-!
# C10 — specification side (independent of `Gen.lean`, `Wire.lean`, `Model.lean`)

* `WFwire`: the contents the wire format can carry unchanged (the guards found by reading
  `tcp_cache::store`, `session::store`, `session::load_triggers`);
* the **ideal shared cache**: all nodes talk to one never-evicting map (`C07.Spec`); `ideal` says what
  a store / rise / clear by *any* node does to it;
* `answerOk`: the coherence predicate — a fetch answer is acceptable iff it is what the ideal shared
  cache holds for that key *now* (a hit must carry the current value and deadline, not an older
  one; a miss is acceptable where the real caches may have evicted or the entry is absent/expired).
  The check evaluates exactly this predicate on the answers of the real clients (`J` lines of the
  driver); `Props.coherent_fetch_ideal` proves it of the model for every history.
-/
namespace Cppcms.C10.Spec
open Cppcms Cppcms.C07

/-- contents that survive the wire format unchanged -/
structure WFwire (k : Key) (v : Val) (ts : List Key) (d : Time) : Prop where
  /-- `session::store` answers `error` for `key_len == 0` -/
  key_ne : k ≠ []
  /-- `load_triggers` answers `error` for an empty name -/
  trig_ne : ∀ t ∈ ts, t ≠ []
  /-- names are NUL-terminated on the wire and split with `strlen` -/
  trig_nul : ∀ t ∈ ts, (0 : UInt8) ∉ t
  /-- `uint32_t` length fields, `int slen=len` / `int len=…` in the `strlen` loops of both directions (the
  entry's own key travels back as one more name: `+ 2` covers its terminator; sufficient, not tight) -/
  size : k.length + v.length + (ts.map (·.length + 1)).sum + 2 < 2147483648
  /-- `int64_t timeout` (always true of a 64-bit `time_t`) -/
  deadline : -9223372036854775808 ≤ d ∧ d < 9223372036854775808

/-- executable form (driver, generator self-check) -/
def wfWireB (k : Key) (v : Val) (ts : List Key) (d : Time) : Bool :=
  !k.isEmpty && ts.all (fun t => !t.isEmpty && !t.contains 0) &&
  decide (k.length + v.length + (ts.map (·.length + 1)).sum + 2 < 2147483648) &&
  decide (-9223372036854775808 ≤ d) && decide (d < 9223372036854775808)

/-- the key travels back as one of the entry's trigger names when a fetch asks for the trigger
set: it must be NUL-free for that set to arrive unchanged -/
def WFkey (k : Key) : Prop := (0 : UInt8) ∉ k

/-- what the nodes do to the shared cache -/
inductive SOp where
  | store (k : Key) (v : Val) (trigs : List Key) (deadline : Time)
  | rise (t : Key)
  | clear
  | other
deriving DecidableEq, Repr

/-- the ideal shared cache never evicts and performs every store (generation stamps are not part
of it: `gen = 0`) -/
def ideal (sp : C07.Spec) : SOp → C07.Spec
  | .store k v trigs d => C07.Spec.insert sp k ⟨v, ownTrigs k trigs, d, 0⟩
  | .rise t => C07.Spec.rise sp t
  | .clear => C07.Spec.empty
  | .other => sp

def idealRun (ops : List SOp) : C07.Spec := ops.foldl ideal C07.Spec.empty

/-- **coherence predicate** for the answer of a fetch of `k` issued when the shared cache is `sp`
and the responsible server's clock shows `now`.
`mayEvict`: some cache on the path has an entry limit (a live entry may then be missing).
`tags`: the caller asked for the trigger set. -/
def answerOk (sp : C07.Spec) (now : Time) (k : Key) (mayEvict tags : Bool) : Out → Bool
  | .hit v ts d _ =>
    match sp k with
    | some e => e.val == v && e.deadline == d && !decide (d < now) && (!tags || e.trigs.all (ts.contains ·))
    | none => false
  | .miss =>
    mayEvict || (match sp k with
      | some e => decide (e.deadline < now)
      | none => true)
  | _ => false

/-- every trigger name that any store of the history attached to a key (the key itself included), newest first.
An L1 refresh reports the union of what the L1 held for the key and what the server holds now
(`tags->insert` accumulates), so on a node with L1 this — not the current entry's set — is the upper
bound of the reported set; it is never reset by `clear` (another node's L1 survives a clear). -/
def everStep (ev : Key → List Key) : SOp → Key → List Key
  | .store k _ trigs _ => fun k' => if k' = k then ownTrigs k trigs ++ ev k else ev k'
  | _ => ev

/-- **upper bound of the reported trigger set**: no foreign names.  `exact`: the node has no L1 — the
set is the current entry's; otherwise names of earlier versions of the same key may linger. -/
-- (see the NUL remark inside)
def trigsBounded (sp : C07.Spec) (ev : Key → List Key) (k : Key) (exact : Bool) (ts : List Key) : Bool :=
  -- names containing NUL are split on the wire (findings tcp-trigger-nul / tcp-key-nul): the bound speaks
  -- about keys whose names (the key itself included) are all NUL-free
  if (ev k).any (·.contains 0) then true else
  match sp k with
  | some e => ts.all fun t => if exact then e.trigs.contains t else (ev k).contains t
  | none => true

/-! ### session opcodes: the ideal session store -/

/-- one record per session id: deadline and value of the latest save -/
abbrev SessSpec := Bytes → Option (Time × Bytes)

/-- what a load must answer at clock value `now` (clock not moving backwards): the latest save of the sid, unless
removed since, expired, or saved with a negative deadline (reported absent by the server) -/
def sessExpect (m : SessSpec) (now : Time) (sid : Bytes) : Option (Time × Bytes) :=
  match m sid with
  | some (t, v) => if t < now || t < 0 then none else some (t, v)
  | none => none

def sessSpecSave (m : SessSpec) (sid : Bytes) (t : Time) (v : Bytes) : SessSpec := fun s => if s = sid then some (t, v) else m s
def sessSpecRemove (m : SessSpec) (sid : Bytes) : SessSpec := fun s => if s = sid then none else m s

/-- same key, same number of servers ⇒ same server: sharding is a function of these two only
(stated in `Props.consistent_sharding` for the model's `shard`) -/
def ConsistentSharding (shard : Nat → Key → Nat) : Prop :=
  ∀ n k, 0 < n → shard n k < n

end Cppcms.C10.Spec
