import Cppcms.Common
import Cppcms.C07.Proto
import Cppcms.C10.Model
import Cppcms.C10.Sock
import Cppcms.C10.Sess
import Cppcms.C10.Spec
/-!
`c10_model`: line-protocol driver of the C10 model and judge.

model lines (answers in the harness's format):
  cfg <srvlimit,srvlimit..> <l1,l1,..>       l1 = `n` (client without L1) or the L1's limit;  → `ok | <tail>`
  reset                                       same cluster, all caches cleared directly (counters keep running) → `ok | <tail>`
  fetch <c> <now> <key> <0|1>                 → `miss` | `hit <val> <trigs> <deadline> <gen>`   | <tail>
  store <c> <now> <key> <val> <trigs> <deadline> | rise <c> <trig> | clear <c> | remove <c> <key>   → `ok | <tail>`
  stats <c>                                   → `stats <keys> <triggers> | <tail>`
  raw <srv> <now> <frame bytes>               → reply frame bytes (server side of the wire codec)
  req fetch <key> <0|1> <gen|-> | req store <key> <val> <trigs> <deadline> | req rise <t> | req clear | req stats
                                              → the request frame `tcp_cache` puts on the socket
  dec <0|1 tinu> <reply frame bytes>          → what `tcp_cache::fetch` makes of a reply
  rawseg <srv> <now> <n> <frame bytes> | cws <n> <cw arguments…>   the same with the request / the reply cut into
                                              pieces of n bytes (`recvFrame` over `chunksOf n`)
  layout | hash <n> <key>
  <tail> = `<keys> <trigs>` of every server, then of every L1 (`n` = none), e.g. `2 5;0 0 | 1 2;n`
judge lines: `J <impl answer> ; <case line>` evaluate `Spec.answerOk` over the ideal shared cache
run alongside (`Spec.ideal`); answer `1` or `0 <reason>`.
-/
open Cppcms Cppcms.C07 Cppcms.C10

structure DState where
  cl : Cluster := { servers := [], l1s := [] }
  sp : C07.Spec := C07.Spec.empty
  mayEvict : Bool := false
  /-- judge: all trigger names ever attached to a key; which clients have an L1 -/
  ev : Key → List Key := fun _ => []
  hasL1 : List Bool := []
  /-- the session storage (`session_memory_storage`) behind every server -/
  sess : List SessStore := []
  /-- judge: the ideal session store of every server -/
  sessSp : List Spec.SessSpec := []

def tailStr (cl : Cluster) : String :=
  let sv := ";".intercalate (cl.servers.map fun s => s!"{s.size} {s.trigCount}")
  let l1 := ";".intercalate (cl.l1s.map fun o => match o with | some s => s!"{s.size} {s.trigCount}" | none => "n")
  s!"{sv} | {l1}"

def parseLimits (w : String) : Option (List Nat) := (w.splitOn ",").mapM (·.toNat?)
def parseL1s (w : String) : Option (List (Option Nat)) :=
  (w.splitOn ",").mapM fun p => if p == "n" then some none else p.toNat?.map some

def parseTrig (w : String) : Option Key := if w == "e" then some [] else if w == "-" then none else parseHex w

def outStr : Out → String
  | .miss => "miss"
  | .hit v ts d g => s!"hit {toHex v} {Proto.trigsStr (sortSet ts)} {d} {g.toNat}"
  | .done => "ok"
  | .stats k t => s!"stats {k} {t}"

def parseOp (w : List String) : Option C10.Op :=
  match w with
  | ["fetch", c, now, k, tg] =>
    match c.toNat?, now.toInt?, parseHex k with
    | some c, some now, some k => some (.fetch c now now k (tg == "1"))
    | _, _, _ => none
  | ["store", c, now, k, v, ts, d] =>
    match c.toNat?, now.toInt?, parseHex k, Proto.parseVal v, Proto.parseTrigs ts, d.toInt? with
    | some c, some now, some k, some v, some ts, some d => some (.store c now k v ts d)
    | _, _, _, _, _, _ => none
  | ["rise", c, t] => match c.toNat?, parseTrig t with
    | some c, some t => some (.rise c t) | _, _ => none
  | ["clear", c] => c.toNat?.map .clear
  | ["remove", c, k] => match c.toNat?, parseHex k with
    | some c, some k => some (.remove c k) | _, _ => none
  | ["stats", c] => c.toNat?.map .stats
  | _ => none

def resStr : TcpRes → String
  | .upToDate => "uptodate"
  | .notFound => "notfound"
  | .found v ts d g => s!"found {toHex v} {Proto.trigsStr (sortSet ts)} {d} {g.toNat}"

/-- a byte string that is exactly one frame: header + `size` payload bytes -/
def frameOk (fr : Bytes) : Bool :=
  fr.length ≥ Gen.hdrBytes && fr.length == Gen.hdrBytes + (Hdr.ofBytes fr).get Gen.wSize

def reqHex (r : Hdr × Bytes) : String := toHex (frameBytes r.1 (r.2.take (r.1.get Gen.wSize)))

/-- `cw …` lines: the request frame a real `tcp_cache` sends, and what it makes of a scripted reply -/
def cwLine (w : List String) : String :=
  match w with
  | ["fetch", k, tg, g, rep] =>
    match parseHex k, Proto.parseGen g, parseHex rep with
    | some k, some g, some rep =>
      if !frameOk rep then "bad-op" else
      let (h, data) := frameOfBytes rep
      s!"{reqHex (reqFetch k (tg == "1") g)} {resStr (cliDecodeFetch g.isSome h data)}"
    | _, _, _ => "bad-op"
  | ["store", k, v, ts, d, rep] =>
    match parseHex k, Proto.parseVal v, Proto.parseTrigs ts, d.toInt?, parseHex rep with
    | some k, some v, some ts, some d, some rep => if !frameOk rep then "bad-op" else reqHex (reqStore k v ts d)
    | _, _, _, _, _ => "bad-op"
  | ["rise", t, rep] =>
    match parseTrig t, parseHex rep with
    | some t, some rep => if !frameOk rep then "bad-op" else reqHex (reqRise t)
    | _, _ => "bad-op"
  | ["clear", rep] =>
    match parseHex rep with
    | some rep => if !frameOk rep then "bad-op" else reqHex reqClear
    | none => "bad-op"
  | ["ssave", sid, to, v, rep] =>
    match parseHex sid, to.toInt?, Proto.parseVal v, parseHex rep with
    | some sid, some to, some v, some rep => if !frameOk rep then "bad-op" else reqHex (reqSessSave sid to v)
    | _, _, _, _ => "bad-op"
  | ["sremove", sid, rep] =>
    match parseHex sid, parseHex rep with
    | some sid, some rep => if !frameOk rep then "bad-op" else reqHex (reqSessRemove sid)
    | _, _ => "bad-op"
  | ["sload", sid, rep] =>
    match parseHex sid, parseHex rep with
    | some sid, some rep =>
      if !frameOk rep then "bad-op" else
      let (h, data) := frameOfBytes rep
      let r := match cliDecodeSessLoad h data with
        | some (t, v) => s!"some {t} {toHex v}"
        | none => "none"
      s!"{reqHex (reqSessLoad sid)} {r}"
    | _, _ => "bad-op"
  | ["stats", rep] =>
    match parseHex rep with
    | some rep =>
      if !frameOk rep then "bad-op" else
      let (h, _) := frameOfBytes rep
      let (k, t) := if h.get Gen.wOpcode = Gen.opOutStats then (h.get Gen.wOutStatsKeys, h.get Gen.wOutStatsTriggers) else (0, 0)
      s!"{reqHex reqStats} {k} {t}"
    | none => "bad-op"
  | _ => "bad-op"

/-- which path of `cache_over_ip::fetch` a fetch takes (coverage trace; printed after ` # `, not compared) -/
def fetchBranch (cl : Cluster) : C10.Op → String
  | .fetch c nowC nowS k _ =>
    match cl.servers[shard cl.servers.length k]? with
    | none => "noserver"
    | some s =>
      match cl.l1 c with
      | none => (match (tcpFetch s nowS k true none).2 with | .found .. => "nol1-found" | _ => "nol1-miss")
      | some l =>
        match (C07.step l (.fetch nowC k)).2 with
        | .hit _ _ _ g =>
          (match (tcpFetch s nowS k true (some g)).2 with
           | .upToDate => "l1hit-uptodate" | .notFound => "l1hit-purge" | .found .. => "l1hit-refresh")
        | _ => (match (tcpFetch s nowS k true none).2 with | .found .. => "l1miss-found" | _ => "l1miss-miss")
  | .store .. => "store"
  | .rise .. => "rise"
  | .clear .. => "clear"
  | _ => "other"

/-- `cws <n> …`: as `cw`, the scripted peer sends the reply in pieces of `n` bytes: the reply the client works on is
what `recvFrame` assembles from those pieces -/
def cwsLine (n : Nat) (w : List String) : String :=
  match w.getLast? with
  | some rep =>
    match parseHex rep with
    | some rb =>
      if !frameOk rb then "bad-op" else
      match recvFrame (chunksOf n rb) with
      | some (h, data, _) => cwLine (w.dropLast ++ [toHex (frameBytes h data)])
      | none => "recv-failed"
    | none => "bad-op"
  | none => "bad-op"

def modelLine (st : DState) (w : List String) : DState × String :=
  match w with
  | "cw" :: rest => (st, cwLine rest)
  | "cws" :: n :: rest => (st, match n.toNat? with | some n => cwsLine n rest | none => "bad-op")
  | ["rawseg", i, now, n, fr] =>
    match i.toNat?, now.toInt?, n.toNat?, parseHex fr with
    | some i, some now, some n, some fr =>
      match st.cl.servers[i]? with
      | some s =>
        if !frameOk fr then (st, "bad-op") else
        match recvFrame (chunksOf n fr) with
        | some (h, data, _) =>
          let (s', ss', rh, rdata) := srvHandle2 s (st.sess[i]?) now h data
          ({ st with cl := st.cl.setServer i s', sess := match ss' with | some x => st.sess.set i x | none => st.sess },
            toHex (frameBytes rh rdata))
        | none => (st, "recv-failed")
      | none => (st, "bad-op")
    | _, _, _, _ => (st, "bad-op")
  | ["cfg", sl, l1] =>
    match parseLimits sl, parseL1s l1 with
    | some sl, some l1 =>
      let cl := Cluster.init sl l1
      ({ cl := cl, sp := C07.Spec.empty, mayEvict := sl.any (· > 0), sess := sl.map fun _ => [] }, s!"ok | {tailStr cl}")
    | _, _ => (st, "bad-op")
  | ["drop"] =>
    -- every connection is cut (server front-ends restarted over the same caches): `messenger::transmit` reconnects
    -- and re-sends, so nothing changes for the callers — the model has no connection state at all
    (st, s!"ok | {tailStr st.cl}")
  | ["reset"] =>
    let cl : Cluster :=
      { servers := st.cl.servers.map fun s => (C07.step s .clear).1
        l1s := st.cl.l1s.map fun o => o.map fun l => (C07.step l .clear).1 }
    ({ st with cl := cl, sp := C07.Spec.empty }, s!"ok | {tailStr cl}")
  | ["raw", i, now, fr] =>
    match i.toNat?, now.toInt?, parseHex fr with
    | some i, some now, some fr =>
      match st.cl.servers[i]? with
      | some s =>
        if !frameOk fr then (st, "bad-op") else
        let (h, data) := frameOfBytes fr
        let (s', ss', rh, rdata) := srvHandle2 s (st.sess[i]?) now h data
        ({ st with cl := st.cl.setServer i s', sess := match ss' with | some x => st.sess.set i x | none => st.sess },
          toHex (frameBytes rh rdata))
      | none => (st, "bad-op")
    | _, _, _ => (st, "bad-op")
  | ["req", "fetch", k, tg, g] =>
    match parseHex k, Proto.parseGen g with
    | some k, some g => let (h, d) := reqFetch k (tg == "1") g; (st, toHex (frameBytes h (d.take (h.get Gen.wSize))))
    | _, _ => (st, "bad-op")
  | ["req", "store", k, v, ts, d] =>
    match parseHex k, Proto.parseVal v, Proto.parseTrigs ts, d.toInt? with
    | some k, some v, some ts, some d => let (h, dt) := reqStore k v ts d; (st, toHex (frameBytes h (dt.take (h.get Gen.wSize))))
    | _, _, _, _ => (st, "bad-op")
  | ["req", "rise", t] =>
    match parseTrig t with
    | some t => let (h, d) := reqRise t; (st, toHex (frameBytes h (d.take (h.get Gen.wSize))))
    | none => (st, "bad-op")
  | ["req", "clear"] => let (h, d) := reqClear; (st, toHex (frameBytes h d))
  | ["req", "stats"] => let (h, d) := reqStats; (st, toHex (frameBytes h d))
  | ["dec", tinu, fr] =>
    match parseHex fr with
    | some fr =>
      if !frameOk fr then (st, "bad-op") else
      let (h, data) := frameOfBytes fr
      (st, resStr (cliDecodeFetch (tinu == "1") h data))
    | none => (st, "bad-op")
  | ["layout"] => (st, Gen.layoutStr)
  | ["hash", n, k] =>
    match n.toNat?, parseHex k with
    | some n, some k => (st, toString (shard n k))
    | _, _ => (st, "bad-op")
  | _ =>
    match parseOp w with
    | some op =>
      let (cl', o) := step st.cl op
      ({ st with cl := cl' }, s!"{outStr o} | {tailStr cl'} # {fetchBranch st.cl op}")
    | none => (st, "bad-op")

def splitAt (sep : String) (w : List String) : List String × List String :=
  (w.takeWhile (· ≠ sep), (w.dropWhile (· ≠ sep)).drop 1)

def parseOut (res : List String) : Option Out :=
  match res with
  | ["miss"] => some .miss
  | ["hit", v, ts, d, g] =>
    match parseHex v, Proto.parseTrigs ts, d.toInt?, g.toNat? with
    | some v, some ts, some d, some g => some (.hit v ts d (UInt64.ofNat g))
    | _, _, _, _ => none
  | ["ok"] => some .done
  | ["stats", k, t] => match k.toNat?, t.toNat? with
    | some k, some t => some (.stats k t) | _, _ => none
  | _ => none

/-- judge of a session frame sent to server `i` (valid frames only: 32-byte sid): the reply of the real server,
decoded as `tcp_storage::load` decodes it, must be what the ideal session store expects -/
def judgeSessRaw (st : DState) (i : Nat) (now : Time) (fr : Bytes) (res : List String) : DState × String :=
  let (h, data) := frameOfBytes fr
  let opc := h.get Gen.wOpcode
  let m := st.sessSp.getD i (fun _ => none)
  let setM (m' : Spec.SessSpec) : DState := { st with sessSp := if i < st.sessSp.length then st.sessSp.set i m' else st.sessSp }
  match res with
  | [rhex] =>
    match parseHex rhex with
    | some rb =>
      if !frameOk rb then (st, "0 reply-is-not-a-frame") else
      let (rh, rdata) := frameOfBytes rb
      if opc = Gen.opSessionSave then
        if data.length < 32 then (st, "1") else
        (setM (Spec.sessSpecSave m (data.take 32) (ofI64 (h.get64 Gen.wSessionSaveTimeout)) (data.drop 32)),
          if rh.get Gen.wOpcode = Gen.opDone then "1" else "0 session-save-not-acknowledged")
      else if opc = Gen.opSessionRemove then
        if data.length ≠ 32 then (st, "1") else (setM (Spec.sessSpecRemove m data), "1")
      else if opc = Gen.opSessionLoad then
        if data.length ≠ 32 then (st, "1") else
        (st, if cliDecodeSessLoad rh rdata == Spec.sessExpect m now data then "1" else "0 session-load-returns-wrong-record")
      else (st, "1")
    | none => (st, "0 reply-unparsable")
  | _ => (st, "0 reply-unparsable")

/-- judge of what a real `tcp_storage` put on the socket: parsed as the server parses it, the request must carry
exactly the arguments of the call -/
def judgeSessCw (w : List String) (res : List String) : String :=
  if !(w.head? == some "ssave" || w.head? == some "sload" || w.head? == some "sremove") then "1" else
  match res.head? >>= parseHex with
  | none => "0 request-unparsable"
  | some rq =>
    if !frameOk rq then "0 request-is-not-a-frame" else
    let (h, data) := frameOfBytes rq
    match w with
    | ["ssave", sid, to, v, _] =>
      match parseHex sid, to.toInt?, Proto.parseVal v with
      | some sid, some to, some v =>
        if h.get Gen.wOpcode = Gen.opSessionSave && data == sid ++ v && ofI64 (h.get64 Gen.wSessionSaveTimeout) == to then "1"
        else "0 session-save-request-differs-from-the-call"
      | _, _, _ => "0 bad-case"
    | ["sload", sid, rep] =>
      match parseHex sid, parseHex rep with
      | some sid, some rep =>
        let (rh, rd) := frameOfBytes rep
        let want := match cliDecodeSessLoad rh rd with
          | some (t, v) => ["some", toString t, toHex v]
          | none => ["none"]
        if h.get Gen.wOpcode = Gen.opSessionLoad && data == sid && res.drop 1 == want then "1"
        else "0 session-load-differs"
      | _, _ => "0 bad-case"
    | ["sremove", sid, _] =>
      match parseHex sid with
      | some sid => if h.get Gen.wOpcode = Gen.opSessionRemove && data == sid then "1" else "0 session-remove-request-differs"
      | none => "0 bad-case"
    | _ => "1"

def judgeLine (st : DState) (w : List String) : DState × String :=
  let (implw, casew) := splitAt ";" w
  let (res, _) := splitAt "|" implw
  match casew with
  | ["raw", i, now, fr] | ["rawseg", i, now, _, fr] =>
    match i.toNat?, now.toInt?, parseHex fr with
    | some i, some now, some fr => if frameOk fr then judgeSessRaw st i now fr res else (st, "1")
    | _, _, _ => (st, "1")
  | "cw" :: rest => (st, judgeSessCw rest res)
  | "cws" :: _ :: rest => (st, judgeSessCw rest res)
  | ["layout"] | ["hash", _, _] => (st, "1")
  | ["drop"] => (st, if res == ["ok"] then "1" else "0 drop-answer")
  | ["reset"] => ({ st with sp := C07.Spec.empty, ev := fun _ => [] }, if res == ["ok"] then "1" else "0 reset-answer")
  | ["cfg", sl, l1] =>
    match parseLimits sl, parseL1s l1 with
    | some sl, some l1 =>
      ({ st with sp := C07.Spec.empty, mayEvict := sl.any (· > 0), ev := fun _ => [], hasL1 := l1.map (·.isSome),
                 sessSp := sl.map fun _ => (fun _ => none) },
        if res == ["ok"] then "1" else "0 cfg-answer")
    | _, _ => (st, "0 bad-case")
  | _ =>
    match parseOp casew, parseOut res with
    | some op, some out =>
      match op with
      | .fetch c _ nowS k tg =>
        let bounded := match out with
          | .hit _ ts _ _ => !tg || Spec.trigsBounded st.sp st.ev k (!(st.hasL1.getD c false)) ts
          | _ => true
        (st, if Spec.answerOk st.sp nowS k st.mayEvict tg out then (if bounded then "1" else "0 trigger-set-has-foreign-names") else
          match out with
          | .hit _ _ _ _ =>
            -- the predicate is `answerOk`; this only names the clause that failed
            if Spec.answerOk st.sp nowS k st.mayEvict false out then "0 trigger-set-not-preserved"
            else "0 fetch-returned-a-value-that-is-not-current"
          | _ => "0 live-entry-not-found")
      | .store _ _ k v ts d =>
        ({ st with sp := Spec.ideal st.sp (.store k v ts d), ev := Spec.everStep st.ev (.store k v ts d) },
          if out == .done then "1" else "0 answer")
      | .rise _ t => ({ st with sp := Spec.ideal st.sp (.rise t) }, if out == .done then "1" else "0 answer")
      | .clear _ => ({ st with sp := Spec.ideal st.sp .clear }, if out == .done then "1" else "0 answer")
      | .remove _ _ => (st, if out == .done then "1" else "0 answer")
      | .stats _ => (st, match out with | .stats _ _ => "1" | _ => "0 answer")
    | _, _ => (st, "0 bad-case")

def stepLine (st : DState) (line : String) : DState × String :=
  match words line with
  | "J" :: rest => judgeLine st rest
  | w => modelLine st w

def main : IO Unit := lineLoop ({} : DState) stepLine
