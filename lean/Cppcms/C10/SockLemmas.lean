import Cppcms.C10.Sock
import Cppcms.C10.Lemmas
/-!
# C10 — receiving a frame does not depend on how TCP cuts the byte stream
-/
namespace Cppcms.C10
open Cppcms Cppcms.C07

theorem readSome_some {cap : Nat} (hc : 0 < cap) {segs : Segs} {g : Bytes} {r : Segs}
    (h : readSome cap segs = some (g, r)) :
    g ≠ [] ∧ g.length ≤ cap ∧ g ++ r.flatten = segs.flatten := by
  induction segs with
  | nil => simp [readSome] at h
  | cons s rest ih =>
    unfold readSome at h
    split at h
    · rename_i he
      have : s = [] := by simpa using he
      obtain ⟨a, b, c⟩ := ih h
      exact ⟨a, b, by simp [this, c]⟩
    · rename_i hne
      have hs : s ≠ [] := by simpa using hne
      split at h
      · rename_i hle
        simp at h
        obtain ⟨rfl, rfl⟩ := h
        exact ⟨hs, hle, by simp⟩
      · rename_i hgt
        simp at h
        obtain ⟨rfl, rfl⟩ := h
        refine ⟨?_, ?_, ?_⟩
        · intro h0
          have : (s.take cap).length = 0 := by rw [h0]; rfl
          simp at this
          rcases this with h1 | h1
          · omega
          · exact hs h1
        · simp; omega
        · simp [← List.append_assoc]

theorem readSome_none {cap : Nat} {segs : Segs} (h : readSome cap segs = none) : segs.flatten = [] := by
  induction segs with
  | nil => rfl
  | cons s rest ih =>
    unfold readSome at h
    split at h
    · rename_i he
      have : s = [] := by simpa using he
      simp [this, ih h]
    · split at h <;> simp at h

/-- `stream_socket::read`: the next `n` bytes of the stream, however they are cut; the rest stays -/
theorem readNAux_spec (fuel n : Nat) (segs : Segs) (hf : n ≤ fuel) (hn : n ≤ segs.flatten.length) :
    ∃ r, readNAux fuel n segs = some (segs.flatten.take n, r) ∧ r.flatten = segs.flatten.drop n := by
  induction fuel generalizing n segs with
  | zero =>
    have : n = 0 := by omega
    subst this
    exact ⟨segs, by simp [readNAux], by simp⟩
  | succ fuel ih =>
    cases n with
    | zero => exact ⟨segs, by simp [readNAux], by simp⟩
    | succ n =>
      simp only [readNAux]
      cases hr : readSome (n + 1) segs with
      | none =>
        have := readSome_none hr
        rw [this] at hn
        simp at hn
      | some p =>
        obtain ⟨g, r⟩ := p
        obtain ⟨hg, hle, hcat⟩ := readSome_some (by omega) hr
        have hgl : 0 < g.length := List.length_pos_iff.mpr hg
        have hlen : segs.flatten.length = g.length + r.flatten.length := by rw [← hcat]; simp
        obtain ⟨r', e1, e2⟩ := ih (n + 1 - g.length) r (by omega) (by omega)
        simp only [e1]
        refine ⟨r', ?_, ?_⟩
        · congr 1
          rw [← hcat, List.take_append]
          simp only [Prod.mk.injEq, and_true]
          rw [List.take_of_length_le hle]
        · rw [e2, ← hcat, List.drop_append]
          rw [List.drop_eq_nil_of_le hle]
          simp

theorem readN_spec (n : Nat) (segs : Segs) (hn : n ≤ segs.flatten.length) :
    ∃ r, readN n segs = some (segs.flatten.take n, r) ∧ r.flatten = segs.flatten.drop n :=
  readNAux_spec n n segs (Nat.le_refl n) hn

/-- **a frame is received intact from any segmentation of the byte stream**, and what follows it on the
connection is left untouched (the connection stays in step) -/
theorem recvFrame_spec (h : Hdr) (data : Bytes) (hf : FrameWF h data) (rest : Bytes) (segs : Segs)
    (hs : segs.flatten = frameBytes h data ++ rest) :
    ∃ r, recvFrame segs = some (h, data, r) ∧ r.flatten = rest := by
  have hlb : h.toBytes.length = Gen.hdrBytes := by rw [length_toBytes, hf.len]; rfl
  have hflat : segs.flatten = h.toBytes ++ (data ++ rest) := by rw [hs, frameBytes, List.append_assoc]
  obtain ⟨r1, e1, f1⟩ := readN_spec Gen.hdrBytes segs (by rw [hflat, List.length_append]; omega)
  have t1 : segs.flatten.take Gen.hdrBytes = h.toBytes := by rw [hflat]; exact List.take_left' hlb
  have d1 : segs.flatten.drop Gen.hdrBytes = data ++ rest := by rw [hflat]; exact List.drop_left' hlb
  rw [t1] at e1
  rw [d1] at f1
  have hob : Hdr.ofBytes h.toBytes = h := by
    have := ofBytes_toBytes h hf.len hf.words []
    simpa using this
  unfold recvFrame
  simp only [e1, hob, hf.size]
  by_cases hz : data.length > 0
  · simp only [hz, if_true]
    obtain ⟨r2, e2, f2⟩ := readN_spec data.length r1 (by rw [f1, List.length_append]; omega)
    rw [f1, List.take_left' rfl] at e2
    rw [f1, List.drop_left' rfl] at f2
    exact ⟨r2, by simp [e2], f2⟩
  · have hd : data = [] := by
      cases data with
      | nil => rfl
      | cons a b => simp at hz
    subst hd
    simp only [List.length_nil, Nat.lt_irrefl, gt_iff_lt, if_false]
    exact ⟨r1, rfl, by simpa using f1⟩

/-! ### every frame the code builds is well formed -/

theorem get_put (h : Hdr) (i j v : Nat) :
    (h.put i v).get j = if i = j ∧ i < h.length then v % u32 else h.get j := by
  simp only [Hdr.put, Hdr.get, List.getD_eq_getElem?_getD, List.getElem?_set]
  by_cases hij : i = j
  · subst hij
    by_cases hl : i < h.length
    · simp [hl]
    · simp [hl]
  · simp [hij]

theorem length_put (h : Hdr) (i v : Nat) : (h.put i v).length = h.length := by simp [Hdr.put]

theorem frameWF_replyOp (opc : Nat) : FrameWF (replyOp opc) [] := by
  have hw := hdrWF_put hdrWF_zero Gen.wOpcode opc
  refine ⟨hw.1, hw.2, ?_⟩
  show (Hdr.zero.put Gen.wOpcode opc).get Gen.wSize = 0
  rw [get_put]
  simp [Gen.wOpcode, Gen.wSize, Hdr.get, Hdr.zero, Gen.hdrWords, List.replicate]

theorem frameWF_srvFetch (s : State) (now : Time) (h : Hdr) (data : Bytes) :
    FrameWF (srvFetch s now h data).2.1 (srvFetch s now h data).2.2 := by
  unfold srvFetch
  rcases C07.step s (.fetch now data) with ⟨s', o⟩
  cases o with
  | hit v trigs d g =>
    simp only
    split
    · exact frameWF_replyOp _
    · simp only
      refine ⟨?_, ?_, ?_⟩
      · exact (hdrWF_put64 (hdrWF_put64 (hdrWF_put (hdrWF_put (hdrWF_put (hdrWF_put hdrWF_zero _ _) _ _) _ _) _ _) _ _) _ _).1
      · exact (hdrWF_put64 (hdrWF_put64 (hdrWF_put (hdrWF_put (hdrWF_put (hdrWF_put hdrWF_zero _ _) _ _) _ _) _ _) _ _) _ _).2
      · rw [List.length_take]
        apply Eq.symm
        apply Nat.min_eq_left
        simp only [replyOp, Hdr.put64, get_put, length_put, Gen.wSize, Gen.wDataTimeout, Gen.wDataGeneration, Gen.wDataTriggersLen,
          Gen.wDataDataLen, Gen.wOpcode, Hdr.zero, Gen.hdrWords, List.length_replicate]
        simp only [Nat.reduceEqDiff, Nat.reduceAdd, false_and, if_false, Nat.reduceLT, and_self, if_true]
        exact Nat.mod_le _ _
  | miss => exact frameWF_replyOp _
  | done => exact frameWF_replyOp _
  | stats a b => exact frameWF_replyOp _

theorem frameWF_srvHandle (s : State) (now : Time) (h : Hdr) (data : Bytes) :
    FrameWF (srvHandle s now h data).2.1 (srvHandle s now h data).2.2 := by
  unfold srvHandle
  simp only
  split
  · exact frameWF_srvFetch s now h data
  · split
    · exact frameWF_replyOp _
    · split
      · exact frameWF_replyOp _
      · split
        · unfold srvStore
          simp only
          split
          · exact frameWF_replyOp _
          · split
            · exact frameWF_replyOp _
            · exact frameWF_replyOp _
        · split
          · have hw := hdrWF_put (hdrWF_put (hdrWF_put hdrWF_zero Gen.wOpcode Gen.opOutStats) Gen.wOutStatsKeys s.size)
              Gen.wOutStatsTriggers s.trigCount
            refine ⟨hw.1, hw.2, ?_⟩
            show (((replyOp Gen.opOutStats).put Gen.wOutStatsKeys s.size).put Gen.wOutStatsTriggers s.trigCount).get Gen.wSize = 0
            simp only [replyOp, get_put, length_put]
            simp [Gen.wOpcode, Gen.wSize, Gen.wOutStatsKeys, Gen.wOutStatsTriggers, Hdr.get, Hdr.zero, Gen.hdrWords, List.replicate]
          · exact frameWF_replyOp _

/-- **`messenger::transmit` does not depend on the segmentation of either direction**: however TCP cuts
the request on its way to the server and the reply on its way back (any piece sizes, values of any
size below 2^32), the server sees the frame the client built and the client sees the frame the server
built — `transmitSeg` with arbitrary segmenters is `transmit`. -/
theorem transmit_segmentation_independent (cutReq cutRep : Bytes → Segs)
    (h1 : ∀ b, (cutReq b).flatten = b) (h2 : ∀ b, (cutRep b).flatten = b)
    (s : State) (now : Time) (h : Hdr) (data : Bytes) (hf : FrameWF h (data.take (h.get Gen.wSize))) :
    transmitSeg cutReq cutRep s now h data = some (transmit s now h data) := by
  unfold transmitSeg transmit
  obtain ⟨r, e1, _⟩ := recvFrame_spec h (data.take (h.get Gen.wSize)) hf []
    (cutReq (frameBytes h (data.take (h.get Gen.wSize)))) (by rw [h1, List.append_nil])
  rw [e1]
  simp only
  have hw := frameWF_srvHandle s now h (data.take (h.get Gen.wSize))
  obtain ⟨r', e2, _⟩ := recvFrame_spec _ _ hw []
    (cutRep (frameBytes (srvHandle s now h (data.take (h.get Gen.wSize))).2.1 (srvHandle s now h (data.take (h.get Gen.wSize))).2.2))
    (by rw [h2, List.append_nil])
  rw [e2]

theorem hdrWF_setBit {h : Hdr} (hw : HdrWF h) (i b : Nat) : HdrWF (h.setBit i b) := by
  unfold Hdr.setBit
  split
  · exact hw
  · exact hdrWF_put hw _ _

/-- the request frames of `tcp_cache` are well formed (so the theorem above applies to them) -/
theorem frameWF_reqFetch (k : Key) (t : Bool) (cur : Option Gen) (hk : k.length < 4294967296) :
    FrameWF (reqFetch k t cur).1 ((reqFetch k t cur).2.take ((reqFetch k t cur).1.get Gen.wSize)) := by
  obtain ⟨f1, _, f3, _⟩ := reqFetch_fields k t cur hk
  have base : HdrWF (((Hdr.zero.put Gen.wOpcode Gen.opFetch).put Gen.wSize k.length).put Gen.wFetchKeyLen k.length) :=
    hdrWF_put (hdrWF_put (hdrWF_put hdrWF_zero _ _) _ _) _ _
  have hwf : HdrWF (reqFetch k t cur).1 := by
    unfold reqFetch
    cases cur with
    | none =>
      cases t with
      | false => exact base
      | true => exact hdrWF_setBit base _ _
    | some g =>
      have b2 := hdrWF_put64 (hdrWF_setBit base Gen.wFetchTransferIfNotUptodate Gen.bitFetchTransferIfNotUptodate)
        Gen.wFetchCurrentGen g.toNat
      cases t with
      | false => exact b2
      | true => exact hdrWF_setBit b2 _ _
  refine ⟨hwf.1, hwf.2, ?_⟩
  rw [f3, f1, List.take_length]

theorem frameWF_reqRise (t : Key) (ht : t.length < 4294967296) :
    FrameWF (reqRise t).1 ((reqRise t).2.take ((reqRise t).1.get Gen.wSize)) := by
  have hm : t.length % 4294967296 = t.length := Nat.mod_eq_of_lt ht
  have hwf : HdrWF (reqRise t).1 := hdrWF_put (hdrWF_put (hdrWF_put hdrWF_zero _ _) _ _) _ _
  have hsz : (reqRise t).1.get Gen.wSize = t.length := by
    simp only [reqRise, get_put, length_put]
    simp [Gen.wSize, Gen.wRiseTriggerLen, Hdr.zero, Gen.hdrWords, u32, hm]
  refine ⟨hwf.1, hwf.2, ?_⟩
  rw [hsz]; simp [reqRise]

theorem chunksOf_flatten (n : Nat) (b : Bytes) : (chunksOf n b).flatten = b := by
  unfold chunksOf
  split
  · simp
  · rename_i hn
    have hpos : 0 < n := Nat.pos_of_ne_zero hn
    -- induction on the number of pieces, generalised over the string
    have key : ∀ (m : Nat) (b : Bytes), b.length ≤ m * n →
        ((List.range m).map fun i => (b.drop (i * n)).take n).flatten = b := by
      intro m
      induction m with
      | zero => intro b hb; simp at hb; simp [hb]
      | succ m ih =>
        intro b hb
        rw [List.range_succ_eq_map, List.map_cons, List.flatten_cons, List.map_map]
        simp only [Nat.zero_mul, List.drop_zero]
        have : (List.map ((fun i => List.take n (List.drop (i * n) b)) ∘ Nat.succ) (List.range m)) =
            (List.range m).map fun i => ((b.drop n).drop (i * n)).take n := by
          apply List.map_congr_left
          intro i _
          simp only [Function.comp, List.drop_drop]
          congr 2
          rw [Nat.succ_mul]; omega
        rw [this, ih (b.drop n) (by simp only [List.length_drop]; rw [Nat.succ_mul] at hb; omega)]
        exact List.take_append_drop n b
    apply key
    have := Nat.div_add_mod (b.length + n - 1) n
    have hm := Nat.mod_lt (b.length + n - 1) hpos
    rw [Nat.mul_comm]
    omega

end Cppcms.C10
