import Cppcms.C10.Wire
/-!
# C10 — the byte stream under a frame: `messenger::transmit` / `session::run` over a segmenting socket

TCP delivers the bytes of a frame in pieces of any size.  A socket is the list of the pieces still to
arrive (`Segs`, as in C01); `readSome cap` is one `read_some` (a non-empty prefix of the next
non-empty piece, at most `cap` bytes; `none`: end of stream / error); `readN n` is
`booster::aio::stream_socket::read` on an `n`-byte buffer — `read_some` until the buffer is full
(`while(!tmp.empty()) { n=read_some(tmp,e); … tmp+=n; }`).  `recvFrame` is what both ends do to
receive a frame: read the header image, then exactly `size` payload bytes
(`messenger::transmit`: `socket_.read(buffer(&h,sizeof h)); if(h.size>0) { d(h.size); socket_.read(buffer(d)); }`;
`session::run`/`on_header_in`: `async_read` of the header, then of `hin_.size` bytes).
-/
namespace Cppcms.C10
open Cppcms Cppcms.C07

abbrev Segs := List Bytes

/-- one `read_some` into a buffer of `cap > 0` bytes -/
def readSome (cap : Nat) : Segs → Option (Bytes × Segs)
  | [] => none
  | s :: rest =>
    if s.isEmpty then readSome cap rest
    else if s.length ≤ cap then some (s, rest)
    else some (s.take cap, s.drop cap :: rest)

/-- `stream_socket::read` on an `n`-byte buffer; the first argument bounds the iterations (every
`read_some` delivers at least one byte, so `n` suffice: `readN`) -/
def readNAux : Nat → Nat → Segs → Option (Bytes × Segs)
  | _, 0, segs => some ([], segs)
  | 0, _ + 1, _ => none
  | fuel + 1, n + 1, segs =>
    match readSome (n + 1) segs with
    | none => none
    | some (g, r) =>
      match readNAux fuel (n + 1 - g.length) r with
      | none => none
      | some (d, r') => some (g ++ d, r')

def readN (n : Nat) (segs : Segs) : Option (Bytes × Segs) := readNAux n n segs

/-- receive one frame: header, then exactly `size` payload bytes; the rest of the stream stays -/
def recvFrame (segs : Segs) : Option (Hdr × Bytes × Segs) :=
  match readN Gen.hdrBytes segs with
  | none => none
  | some (hb, r) =>
    let h := Hdr.ofBytes hb
    if h.get Gen.wSize > 0 then
      match readN (h.get Gen.wSize) r with
      | none => none
      | some (d, r') => some (h, d, r')
    else some (h, [], r)

/-- cut a byte string into pieces of `n > 0` bytes (how the driver and the throttled peer of the
harness segment a frame) -/
def chunksOf (n : Nat) (b : Bytes) : Segs :=
  if n = 0 then [b] else
  (List.range ((b.length + n - 1) / n)).map fun i => (b.drop (i * n)).take n

/-- `messenger::transmit` with both directions cut into pieces by arbitrary segmenters -/
def transmitSeg (cutReq cutRep : Bytes → Segs) (s : State) (now : Time) (h : Hdr) (data : Bytes) :
    Option (State × Hdr × Bytes) :=
  match recvFrame (cutReq (frameBytes h (data.take (h.get Gen.wSize)))) with
  | none => none
  | some (h', d', _) =>
    let (s', rh, rd) := srvHandle s now h' d'
    match recvFrame (cutRep (frameBytes rh rd)) with
    | none => none
    | some (rh', rd', _) => some (s', rh', rd')

end Cppcms.C10
