import Cppcms.C10.Model
/-!
# C10 — message-level transport

The same client ↔ server conversations as `Wire.lean`, with the headers, length fields and
`uint32_t`/`int64_t` truncations abstracted away.  What is **kept** is the part of the codec that is
not the identity: trigger names are joined with NUL terminators and split again (`wireTrigs` on the
way to the server, `backTrigs` on the way back), and a store with an empty key is refused.

`Lemmas.step_eq_astep` shows that, as long as the sizes fit the header fields, the cluster model over
the real codec (`step = stepT wireT`) is *equal* to the cluster model over this transport
(`astep = stepT absT`); the coherence proofs are carried out on the latter.
-/
namespace Cppcms.C10
open Cppcms Cppcms.C07

/-- what `session::store` makes of the trigger set sent by `tcp_cache::store`
(`none`: `load_triggers` returned false, the store is answered with `error`) -/
def wireTrigs (trigs : List Key) : Option (List Key) :=
  loadAux Gen.trigRejected (trigBytes (sortSet trigs)) []

/-- what `tcp_cache::fetch` makes of an entry's trigger set sent by `session::fetch` -/
def backTrigs (trigs : List Key) : List Key :=
  (loadAux (fun _ => false) (trigBytes (sortSet trigs)) []).getD []

/-- the C07 operation a store request amounts to on the server (`none`: answered with `error`) -/
def storeOpOf (now : Time) (k : Key) (v : Val) (trigs : List Key) (d : Time) : Option C07.Op :=
  if k = [] then none else (wireTrigs trigs).map fun ts => C07.Op.store now k v ts d

def aStore (s : State) (now : Time) (k : Key) (v : Val) (trigs : List Key) (d : Time) : State :=
  match storeOpOf now k v trigs d with
  | none => s
  | some op => (C07.step s op).1

def aFetch (s : State) (now : Time) (k : Key) (wantTags : Bool) (cur : Option Gen) : State × TcpRes :=
  match C07.step s (.fetch now k) with
  | (s', .hit v trigs d g) =>
    if cur = some g then (s', .upToDate)
    else (s', .found v (if wantTags then backTrigs trigs else []) d g)
  | (s', _) => (s', .notFound)

def absT : Transport :=
  { fetch := aFetch
    store := aStore
    rise := fun s t => (C07.step s (.rise t)).1
    clear := fun s => (C07.step s .clear).1
    stats := fun s => (s.size % u32, s.trigCount % u32) }

/-- the cluster model over the message-level transport -/
def astep (cl : Cluster) (op : Op) : Cluster × Out := stepT absT cl op
def arun (cl : Cluster) (ops : List Op) : Cluster := runT absT cl ops

end Cppcms.C10
