import Cppcms.C07.Refine
import Cppcms.C10.Abstract
/-!
# C10 — what one cache operation does to a server / an L1 (facts about the C07 model)

* `entries_step`: every entry held after an operation was held before, or is the entry the
  operation stored (stamped `gen.getD generation`);
* `generation_step_*`: the generation counter moves only on a performed store without explicit
  generation, by exactly one;
* `fetch_hit_abs`: a hit returns the entry the cache holds.
-/
namespace Cppcms.C10
open Cppcms Cppcms.C07

theorem generation_foldl_deleteNode (s : State) (ks : List Key) : (ks.foldl deleteNode s).generation = s.generation := by
  induction ks generalizing s with
  | nil => rfl
  | cons k ks ih => simp only [List.foldl_cons]; rw [ih, generation_deleteNode]

/-- the entry a store creates, when it is performed -/
def newEntry (s : State) : C07.Op → Option (Key × Entry)
  | .store now k v ts d gen env =>
    (stamp s (.store now k v ts d gen env)).map fun g => (k, ⟨v, ownTrigs k ts, d, g⟩)
  | _ => none

theorem entries_step {s : State} (h : Inv s) (op : C07.Op) {k' : Key} {e : Entry}
    (he : abs (C07.step s op).1 k' = some e) : abs s k' = some e ∨ newEntry s op = some (k', e) := by
  have hsub := (refines_step h (sub_refl (abs s)) op).1 k' e he
  cases op with
  | fetch now k => left; simpa [Spec.step] using hsub
  | store now k v ts d gen env =>
    simp only [Spec.step] at hsub
    cases hst : stamp s (.store now k v ts d gen env) with
    | none =>
      rw [hst] at hsub
      simp only [Spec.remove] at hsub
      split at hsub
      · cases hsub
      · exact Or.inl hsub
    | some g =>
      rw [hst] at hsub
      simp only [Spec.insert] at hsub
      split at hsub
      · rename_i hk
        right
        simp only [newEntry, hst, Option.map_some]
        cases hsub; rw [hk]
      · exact Or.inl hsub
  | rise t =>
    left
    simp only [Spec.step, Spec.rise] at hsub
    cases hs : abs s k' with
    | none => rw [hs] at hsub; cases hsub
    | some e' =>
      rw [hs] at hsub
      simp only at hsub
      split at hsub
      · cases hsub
      · exact hsub
  | remove k =>
    left
    simp only [Spec.step, Spec.remove] at hsub
    split at hsub
    · cases hsub
    · exact hsub
  | clear => simp [Spec.step, Spec.empty] at hsub
  | stats => left; simpa [Spec.step] using hsub

/-- a server-side store (no explicit generation, no allocation trouble): the stamp is the current
counter value, and the counter moves by one exactly when the store is performed -/
theorem stamp_server_store (s : State) (now : Time) (k : Key) (v : Val) (ts : List Key) (d : Time) :
    (stamp s (.store now k v ts d) = none ∧ (C07.step s (.store now k v ts d)).1.generation = s.generation) ∨
    (stamp s (.store now k v ts d) = some s.generation ∧
      (C07.step s (.store now k v ts d)).1.generation = s.generation + 1) := by
  simp only [stamp, C07.step, store, storeG]
  by_cases e2 : refused (deleteNode s k)
  · left
    simp [e2, generation_deleteNode]
  · right
    simp only [e2, Bool.false_eq_true, if_false, Option.isSome_none, Option.getD_none, true_and]
    simp only [insertEntry, Option.isNone_none, if_true]
    unfold checkLimits
    rw [generation_checkLimitsLoop, generation_deleteNode]

/-- operations other than a store never move the counter -/
theorem generation_step_nonstore (s : State) (op : C07.Op) (h : ∀ now k v ts d gen env, op ≠ .store now k v ts d gen env) :
    (C07.step s op).1.generation = s.generation := by
  cases op with
  | fetch now k =>
    simp only [C07.step, fetch]
    split
    · rfl
    · split <;> rfl
  | store now k v ts d gen env => exact absurd rfl (h now k v ts d gen env)
  | rise t => simp only [C07.step, rise]; exact generation_foldl_deleteNode _ _
  | remove k => exact generation_deleteNode s k
  | clear => rfl
  | stats => rfl

/-- a store with an explicit generation (what the L1 is fed with) is stamped with it -/
theorem stamp_explicit (s : State) (now : Time) (k : Key) (v : Val) (ts : List Key) (d : Time) (g : Gen) :
    stamp s (.store now k v ts d (some g)) = none ∨ stamp s (.store now k v ts d (some g)) = some g := by
  simp only [stamp]
  split
  · exact Or.inl rfl
  · split
    · exact Or.inl rfl
    · split
      · exact Or.inl rfl
      · exact Or.inr rfl

theorem fetch_hit_abs {s : State} {now : Time} {k : Key} {v : Val} {ts : List Key} {d : Time} {g : Gen}
    (h : (C07.step s (.fetch now k)).2 = .hit v ts d g) : abs s k = some ⟨v, ts, d, g⟩ ∧ ¬ d < now := by
  simp only [C07.step, fetch] at h
  cases hc : alookup k s.primary with
  | none => rw [hc] at h; cases h
  | some c =>
    rw [hc] at h
    simp only [C07.Gen.fetchExpired] at h
    by_cases e : c.deadline < now
    · simp [e] at h
    · simp only [e, decide_false, Bool.false_eq_true, if_false] at h
      cases h
      exact ⟨by simp [abs, hc, toEntry], e⟩

theorem abs_fetch_hit {s : State} {now : Time} {k : Key} {e : Entry}
    (h : abs s k = some e) (hl : ¬ e.deadline < now) :
    (C07.step s (.fetch now k)).2 = .hit e.val e.trigs e.deadline e.gen := by
  simp only [abs] at h
  cases hc : alookup k s.primary with
  | none => rw [hc] at h; cases h
  | some c =>
    rw [hc] at h
    simp only [Option.map_some, Option.some.injEq] at h
    subst h
    simp only [toEntry] at hl
    simp [C07.step, fetch, hc, C07.Gen.fetchExpired, hl, toEntry]

end Cppcms.C10
