import Cppcms.C10.Wire
/-!
# C10 — model of the networked cache: `cache_over_ip` clients, optional L1, 1..n cache servers

* a **server** is a C07 cache model (`C07.State`, the `mem_cache` behind `tcp_cache_service`); its
  `generation` counter stamps every store (`gen = none`);
* a **client** is a `cache_over_ip` object: an optional first-level cache (again a C07 model, filled
  with *explicit* generations) — the connection itself is stateless;
* every client ↔ server interaction goes through the wire codec of `Wire.lean`
  (`tcpFetch`/`tcpStore`/`tcpRise`/`tcpClear`/`tcpStats`);
* the key → server choice is `tcp_connector::hash` (`Gen.hashStep`, `Gen.hashFinish`).

All clients are driven from one history (`Op` carries the client index), which is the order in
which the synchronous calls complete.  Clocks are explicit: `nowC` is read by the client's L1
(`time()` in `mem_cache::fetch`/`store` on the client), `nowS` by the server.
-/
namespace Cppcms.C10
open Cppcms Cppcms.C07

structure Cluster where
  servers : List State
  /-- `l1s[c]` = the L1 of client `c` (`none`: the client was built with `l1 = 0`); a client index
  beyond the list is a client without L1 -/
  l1s : List (Option State)
deriving Repr

/-- servers and L1s are `thread_cache_factory(limit)` objects -/
def Cluster.init (srvLimits : List Nat) (l1Limits : List (Option Nat)) : Cluster :=
  { servers := srvLimits.map fun l => State.init l none
    l1s := l1Limits.map fun o => o.map fun l => State.init l none }

/-- `tcp_connector::hash(key)` for `conns = n` -/
def shard (n : Nat) (k : Key) : Nat :=
  Gen.hashFinish (k.foldl (fun h c => Gen.hashStep h c.toNat) Gen.hashInit) n

inductive Op where
  | fetch (c : Nat) (nowC nowS : Time) (k : Key) (wantTags : Bool)
  | store (c : Nat) (nowS : Time) (k : Key) (v : Val) (trigs : List Key) (deadline : Time)
  | rise (c : Nat) (t : Key)
  | clear (c : Nat)
  | remove (c : Nat) (k : Key)
  | stats (c : Nat)
deriving DecidableEq, Repr

def Cluster.l1 (cl : Cluster) (c : Nat) : Option State := (cl.l1s.getD c none)
def Cluster.setL1 (cl : Cluster) (c : Nat) (l : State) : Cluster := { cl with l1s := cl.l1s.set c (some l) }
def Cluster.setServer (cl : Cluster) (i : Nat) (s : State) : Cluster := { cl with servers := cl.servers.set i s }

/-- how a client reaches one server: the five calls of `tcp_cache`.  `wireT` is the real thing (frames
built, validated and parsed as in `Wire.lean`); the proofs also use a message-level transport
(`Abstract.lean`) and show that the two agree under the size bounds. -/
structure Transport where
  fetch : State → Time → Key → Bool → Option Gen → State × TcpRes
  store : State → Time → Key → Val → List Key → Time → State
  rise : State → Key → State
  clear : State → State
  stats : State → Nat × Nat

def wireT : Transport := ⟨tcpFetch, tcpStore, tcpRise, tcpClear, tcpStats⟩

section
variable (T : Transport)

/-- `cache_over_ip::fetch`.  The caller's trigger set is taken to be empty on entry;
`wantTags = false` is `tags = 0`. -/
def fetchOp (cl : Cluster) (c : Nat) (nowC nowS : Time) (k : Key) (wantTags : Bool) : Cluster × Out :=
  let i := shard cl.servers.length k
  match cl.servers[i]? with
  | none => (cl, .miss)
  | some s =>
    match cl.l1 c with
    | none =>
      let (s', r) := T.fetch s nowS k wantTags none
      match r with
      | .found v ts d g => (cl.setServer i s', .hit v ts d g)
      | _ => (cl.setServer i s', .miss)
    | some l =>
      match C07.step l (.fetch nowC k) with
      | (l1, .hit vL tL dL gL) =>
        let (s', r) := T.fetch s nowS k true (some gL)
        match r with
        | .upToDate => ((cl.setServer i s').setL1 c l1, .hit vL (if wantTags then tL else []) dL gL)
        | .notFound =>
          ((cl.setServer i s').setL1 c (if Gen.notFoundPurgesL1 then (C07.step l1 (.remove k)).1 else l1), .miss)
        | .found v ts d g =>
          -- `tags->insert` adds the server's names to what the L1 fetch already put into the set
          ((cl.setServer i s').setL1 c (C07.step l1 (.store nowC k v (tL ++ ts) d (some g))).1,
            .hit v (if wantTags then tL ++ ts else []) d g)
      | (l1, _) =>
        let (s', r) := T.fetch s nowS k true none
        match r with
        | .found v ts d g =>
          ((cl.setServer i s').setL1 c (C07.step l1 (.store nowC k v ts d (some g))).1,
            .hit v (if wantTags then ts else []) d g)
        | _ => ((cl.setServer i s').setL1 c l1, .miss)

/-- `cache_over_ip::store` (the answer of the server is not looked at) -/
def storeOp (cl : Cluster) (c : Nat) (nowS : Time) (k : Key) (v : Val) (trigs : List Key) (d : Time) : Cluster :=
  let cl1 := match cl.l1 c with
    | some l => if Gen.storeDropsL1 then cl.setL1 c (C07.step l (.remove k)).1 else cl
    | none => cl
  let i := shard cl1.servers.length k
  match cl1.servers[i]? with
  | none => cl1
  | some s => cl1.setServer i (T.store s nowS k v trigs d)

/-- `cache_over_ip::rise`: L1, then `broadcast` to every server -/
def riseOp (cl : Cluster) (c : Nat) (t : Key) : Cluster :=
  let cl1 := match cl.l1 c with
    | some l => if Gen.riseAppliesL1 then cl.setL1 c (C07.step l (.rise t)).1 else cl
    | none => cl
  { cl1 with servers := cl1.servers.map fun s => T.rise s t }

def clearOp (cl : Cluster) (c : Nat) : Cluster :=
  let cl1 := match cl.l1 c with
    | some l => if Gen.clearAppliesL1 then cl.setL1 c (C07.step l .clear).1 else cl
    | none => cl
  { cl1 with servers := cl1.servers.map T.clear }

/-- `tcp_cache::stats`: `unsigned` sums over all servers -/
def statsOp (cl : Cluster) : Out :=
  let r := cl.servers.foldl (fun (acc : Nat × Nat) s => let (k, t) := T.stats s; ((acc.1 + k) % u32, (acc.2 + t) % u32)) (0, 0)
  .stats r.1 r.2

def stepT (cl : Cluster) : Op → Cluster × Out
  | .fetch c nowC nowS k wantTags => fetchOp T cl c nowC nowS k wantTags
  | .store c nowS k v trigs d => (storeOp T cl c nowS k v trigs d, .done)
  | .rise c t => (riseOp T cl c t, .done)
  | .clear c => (clearOp T cl c, .done)
  | .remove _ _ => (cl, .done)      -- `cache_over_ip::remove`: "NA", empty body
  | .stats _ => (cl, statsOp T cl)

def runT (cl : Cluster) (ops : List Op) : Cluster := ops.foldl (fun cl op => (stepT T cl op).1) cl
end

/-- one operation of one client, over the real wire codec -/
def step (cl : Cluster) (op : Op) : Cluster × Out := stepT wireT cl op

def run (cl : Cluster) (ops : List Op) : Cluster := runT wireT cl ops

end Cppcms.C10
