import Cppcms.C10.Wire
/-!
# C10 — the session opcodes of `tcp_cache_service` (network session storage, used through
`sessions::tcp_storage`; C06 exercises it end to end, here is its wire codec)

* storage behind the server: `session_memory_storage` (`src/session_memory_storage.cpp`) — one record
  per sid, the `timeout_` multimap (sorted by deadline, equal deadlines in insertion order) and
  `short_gc` (at most five expired records dropped from its front on `save` and on a `remove` that
  found something); `load` answers "absent" for an expired record without deleting it;
* server: `session::save/load/remove` (`sessHandle`); `srvHandle2` = `on_data_in` with both a cache and a
  session storage configured;
* client: `tcp_storage::save/load/remove` (`reqSessSave/Load/Remove`, `cliDecodeSessLoad`).
-/
namespace Cppcms.C10
open Cppcms Cppcms.C07

/-- `(deadline, sid, value)` in `timeout_` order -/
abbrev SessStore := List (Time × Bytes × Bytes)

def sessFind (sid : Bytes) : SessStore → Option (Time × Bytes)
  | [] => none
  | (t, s, v) :: r => if s = sid then some (t, v) else sessFind sid r

/-- `timeout_.insert(pair(to,p))`: after the last record with a deadline `≤ to` -/
def sessInsert (to : Time) (sid v : Bytes) : SessStore → SessStore
  | [] => [(to, sid, v)]
  | (t, s, x) :: r => if to < t then (to, sid, v) :: (t, s, x) :: r else (t, s, x) :: sessInsert to sid v r

/-- `short_gc()`: drop at most `n` (= 5) expired records from the front -/
def shortGc (now : Time) : Nat → SessStore → SessStore
  | 0, st => st
  | _, [] => []
  | n + 1, (t, s, v) :: r => if t < now then shortGc now n r else (t, s, v) :: r

def sessErase (sid : Bytes) (st : SessStore) : SessStore := st.filter fun r => r.2.1 ≠ sid

def sessSave (st : SessStore) (now : Time) (sid : Bytes) (to : Time) (v : Bytes) : SessStore :=
  shortGc now 5 (sessInsert to sid v (sessErase sid st))

def sessLoad (st : SessStore) (now : Time) (sid : Bytes) : Option (Time × Bytes) :=
  match sessFind sid st with
  | none => none
  | some (t, v) => if t < now then none else some (t, v)

def sessRemove (st : SessStore) (now : Time) (sid : Bytes) : SessStore :=
  match sessFind sid st with
  | none => st
  | some _ => shortGc now 5 (sessErase sid st)

/-- `session::save / load / remove` -/
def sessHandle (st : SessStore) (now : Time) (h : Hdr) (data : Bytes) : SessStore × Hdr × Bytes :=
  let opc := h.get Gen.wOpcode
  let size := h.get Gen.wSize
  if opc = Gen.opSessionSave then
    if size < Gen.sessSidLen then (st, replyOp Gen.opError, [])
    else (sessSave st now (data.take Gen.sessSidLen) (ofI64 (h.get64 Gen.wSessionSaveTimeout)) (data.drop Gen.sessSidLen),
          replyOp Gen.opDone, [])
  else if opc = Gen.opSessionLoad then
    if size ≠ Gen.sessSidLen then (st, replyOp Gen.opError, [])
    else
      match sessLoad st now data with
      | none => (st, replyOp Gen.opNoData, [])
      | some (t, v) =>
        if Gen.sessLoadRejected t then (st, replyOp Gen.opNoData, [])
        else
          let hh := ((replyOp Gen.opSessionLoadData).put Gen.wSize v.length).put64 Gen.wSessionDataTimeout (toU64 t)
          (st, hh, v.take (hh.get Gen.wSize))
  else
    if size ≠ Gen.sessSidLen then (st, replyOp Gen.opError, [])
    else (sessRemove st now data, replyOp Gen.sessRemoveReplyOp, [])

def isSessOp (opc : Nat) : Bool := opc == Gen.opSessionSave || opc == Gen.opSessionLoad || opc == Gen.opSessionRemove

/-- `session::on_data_in` of a server with a cache and (optionally) a session storage -/
def srvHandle2 (s : State) (ss : Option SessStore) (now : Time) (h : Hdr) (data : Bytes) :
    State × Option SessStore × Hdr × Bytes :=
  if isSessOp (h.get Gen.wOpcode) then
    match ss with
    | none => (s, none, replyOp Gen.opError, [])
    | some st => let (st', rh, rd) := sessHandle st now h data; (s, some st', rh, rd)
  else
    let (s', rh, rd) := srvHandle s now h data
    (s', ss, rh, rd)

/-! ### client: `sessions::tcp_storage` -/

def reqSessSave (sid : Bytes) (to : Time) (v : Bytes) : Hdr × Bytes :=
  (((Hdr.zero.put Gen.wOpcode Gen.opSessionSave).put Gen.wSize (v.length + Gen.sessSidLen)).put64 Gen.wSessionSaveTimeout (toU64 to),
    sid ++ v)

def reqSessLoad (sid : Bytes) : Hdr × Bytes :=
  ((Hdr.zero.put Gen.wOpcode Gen.opSessionLoad).put Gen.wSize sid.length, sid)

def reqSessRemove (sid : Bytes) : Hdr × Bytes :=
  ((Hdr.zero.put Gen.wOpcode Gen.opSessionRemove).put Gen.wSize sid.length, sid)

/-- what `tcp_storage::load` makes of the reply -/
def cliDecodeSessLoad (h : Hdr) (data : Bytes) : Option (Time × Bytes) :=
  if h.get Gen.wOpcode = Gen.opSessionLoadData then some (ofI64 (h.get64 Gen.wSessionDataTimeout), data) else none

/-- one exchange of `tcp_storage` with a server's session side (`size` payload bytes each way) -/
def sessTransmit (st : SessStore) (now : Time) (r : Hdr × Bytes) : SessStore × Hdr × Bytes :=
  sessHandle st now r.1 (r.2.take (r.1.get Gen.wSize))

end Cppcms.C10
