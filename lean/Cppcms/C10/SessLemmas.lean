import Cppcms.C10.Sess
import Cppcms.C10.SockLemmas
/-!
# C10 — session opcodes: the wire codec is exact, and a saved session is loaded back
-/
namespace Cppcms.C10
open Cppcms Cppcms.C07

theorem sessFind_erase_self (sid : Bytes) (st : SessStore) : sessFind sid (sessErase sid st) = none := by
  induction st with
  | nil => rfl
  | cons r st ih =>
    obtain ⟨t, s, v⟩ := r
    simp only [sessErase, List.filter_cons]
    by_cases h : s = sid
    · simp only [h, ne_eq, not_true_eq_false, decide_false, Bool.false_eq_true, if_false]; exact ih
    · simp only [ne_eq, h, not_false_eq_true, decide_true, if_true, sessFind, if_false]; exact ih

theorem sessFind_insert_self (to : Time) (sid v : Bytes) (st : SessStore) (h : sessFind sid st = none) :
    sessFind sid (sessInsert to sid v st) = some (to, v) := by
  induction st with
  | nil => simp [sessInsert, sessFind]
  | cons r st ih =>
    obtain ⟨t, s, x⟩ := r
    simp only [sessFind] at h
    split at h
    · cases h
    · rename_i hs
      simp only [sessInsert]
      split
      · simp [sessFind]
      · simp only [sessFind, hs, if_false]; exact ih h

theorem sessFind_shortGc (now : Time) (sid : Bytes) (n : Nat) (st : SessStore) {t : Time} {v : Bytes}
    (h : sessFind sid st = some (t, v)) (hl : ¬ t < now) : sessFind sid (shortGc now n st) = some (t, v) := by
  induction st generalizing n with
  | nil => cases h
  | cons r st ih =>
    obtain ⟨t', s, x⟩ := r
    cases n with
    | zero => exact h
    | succ n =>
      simp only [shortGc]
      split
      · rename_i hexp
        simp only [sessFind] at h
        split at h
        · cases h; exact absurd hexp hl
        · exact ih n h
      · exact h

/-- **a saved session is loaded back**: saved with a deadline that has not passed at save time, it is
found — with that deadline and value — at every clock value up to the deadline -/
theorem sessLoad_save (st : SessStore) (now now' : Time) (sid : Bytes) (to : Time) (v : Bytes) (h : ¬ to < now) :
    sessLoad (sessSave st now sid to v) now' sid = if to < now' then none else some (to, v) := by
  unfold sessLoad sessSave
  rw [sessFind_shortGc now sid 5 _ (sessFind_insert_self to sid v _ (sessFind_erase_self sid st)) h]

theorem sessLoad_remove (st : SessStore) (now now' : Time) (sid : Bytes) : sessLoad (sessRemove st now sid) now' sid = none := by
  unfold sessLoad sessRemove
  cases hf : sessFind sid st with
  | none => simp [hf]
  | some p =>
    simp only
    have : sessFind sid (shortGc now 5 (sessErase sid st)) = none := by
      have h0 := sessFind_erase_self sid st
      generalize sessErase sid st = st' at h0
      generalize (5 : Nat) = n
      induction st' generalizing n with
      | nil => cases n <;> rfl
      | cons r st' ih =>
        obtain ⟨t, s, x⟩ := r
        cases n with
        | zero => exact h0
        | succ n =>
          simp only [sessFind] at h0
          split at h0
          · cases h0
          · simp only [shortGc]
            split
            · exact ih h0 n
            · rename_i hs _; simp [sessFind, hs, h0]
    rw [this]

/-! ### the codec -/

theorem reqSessSave_exact (st : SessStore) (now : Time) (sid : Bytes) (to : Time) (v : Bytes)
    (hs : sid.length = Gen.sessSidLen) (hv : v.length + Gen.sessSidLen < 4294967296)
    (hd : -9223372036854775808 ≤ to ∧ to < 9223372036854775808) :
    sessTransmit st now (reqSessSave sid to v) = (sessSave st now sid to v, replyOp Gen.opDone, []) := by
  have hm : (v.length + 32) % 4294967296 = v.length + 32 := Nat.mod_eq_of_lt (by simpa [Gen.sessSidLen] using hv)
  have hs' : sid.length = 32 := hs
  have hop : (reqSessSave sid to v).1.get Gen.wOpcode = Gen.opSessionSave := by
    simp only [reqSessSave, Hdr.put64, get_put, length_put]
    simp [Gen.wOpcode, Gen.wSize, Gen.wSessionSaveTimeout, Gen.opSessionSave, Hdr.zero, Gen.hdrWords, u32]
  have hsz : (reqSessSave sid to v).1.get Gen.wSize = v.length + 32 := by
    simp only [reqSessSave, Hdr.put64, get_put, length_put]
    simp [Gen.wOpcode, Gen.wSize, Gen.wSessionSaveTimeout, Gen.sessSidLen, Hdr.zero, Gen.hdrWords, u32, hm]
  have hto : (reqSessSave sid to v).1.get64 Gen.wSessionSaveTimeout = toU64 to := by
    simp only [reqSessSave, Hdr.put64, Hdr.get64, get_put, length_put]
    simp [Gen.wOpcode, Gen.wSize, Gen.wSessionSaveTimeout, Hdr.zero, Gen.hdrWords, u32]
    have := toU64_lt to
    omega
  unfold sessTransmit sessHandle
  simp only [hop, hsz, hto, if_true, ofI64_toU64 to hd]
  have e1 : (reqSessSave sid to v).2 = sid ++ v := rfl
  have ht : (sid ++ v).take (v.length + 32) = sid ++ v :=
    List.take_of_length_le (by rw [List.length_append, hs']; omega)
  rw [e1, ht]
  split
  · rename_i hlt; simp only [Gen.sessSidLen] at hlt; omega
  · have h32 : Gen.sessSidLen = 32 := rfl
    rw [h32, List.take_left' hs', List.drop_left' hs']

def sessLoadReplyHdr (t : Time) (v : Bytes) : Hdr :=
  ((replyOp Gen.opSessionLoadData).put Gen.wSize v.length).put64 Gen.wSessionDataTimeout (toU64 t)

theorem sessLoad_reply (st : SessStore) (now : Time) (sid : Bytes) (hs : sid.length = Gen.sessSidLen) :
    sessTransmit st now (reqSessLoad sid) =
      (match sessLoad st now sid with
       | none => (st, replyOp Gen.opNoData, [])
       | some (t, v) =>
         if Gen.sessLoadRejected t then (st, replyOp Gen.opNoData, [])
         else (st, sessLoadReplyHdr t v, v.take ((sessLoadReplyHdr t v).get Gen.wSize))) := by
  have hs' : sid.length = 32 := hs
  have hop : (reqSessLoad sid).1.get Gen.wOpcode = 12 := by
    simp only [reqSessLoad, get_put, length_put]
    simp [Gen.wOpcode, Gen.wSize, Gen.opSessionLoad, Hdr.zero, Gen.hdrWords, u32]
  have hsz : (reqSessLoad sid).1.get Gen.wSize = 32 := by
    simp only [reqSessLoad, get_put, length_put]
    simp [Gen.wOpcode, Gen.wSize, Hdr.zero, Gen.hdrWords, u32, hs']
  have e1 : (reqSessLoad sid).2 = sid := rfl
  have ht : sid.take 32 = sid := List.take_of_length_le (by omega)
  unfold sessTransmit sessHandle
  simp only [hop, hsz, e1, ht, Gen.opSessionSave, Gen.opSessionLoad, Gen.sessSidLen, sessLoadReplyHdr]
  simp only [Nat.reduceEqDiff, if_false, if_true, ne_eq, not_true_eq_false]
  rcases sessLoad st now sid with _ | ⟨t, v⟩ <;> rfl

theorem reqSessLoad_exact (st : SessStore) (now : Time) (sid : Bytes) (hs : sid.length = Gen.sessSidLen)
    (hrec : ∀ t v, sessLoad st now sid = some (t, v) →
      v.length < 4294967296 ∧ -9223372036854775808 ≤ t ∧ t < 9223372036854775808) :
    (sessTransmit st now (reqSessLoad sid)).1 = st ∧
    cliDecodeSessLoad (sessTransmit st now (reqSessLoad sid)).2.1 (sessTransmit st now (reqSessLoad sid)).2.2 =
      (match sessLoad st now sid with
       | none => none
       | some (t, v) => if t < 0 then none else some (t, v)) := by
  rw [sessLoad_reply st now sid hs]
  have hnd : cliDecodeSessLoad (replyOp Gen.opNoData) [] = none := by
    have : (replyOp Gen.opNoData).get Gen.wOpcode = 8 := by
      simp only [replyOp, get_put, length_put]
      simp [Gen.wOpcode, Gen.opNoData, Hdr.zero, Gen.hdrWords, u32]
    simp [cliDecodeSessLoad, this, Gen.opSessionLoadData]
  cases hl : sessLoad st now sid with
  | none => exact ⟨rfl, hnd⟩
  | some p =>
    obtain ⟨t, v⟩ := p
    obtain ⟨b1, b2⟩ := hrec t v hl
    simp only [Gen.sessLoadRejected]
    by_cases hneg : t < 0
    · simp only [hneg, decide_true, if_true]
      exact ⟨trivial, hnd⟩
    · simp only [hneg, decide_false, Bool.false_eq_true, if_false]
      refine ⟨trivial, ?_⟩
      have hm : v.length % 4294967296 = v.length := Nat.mod_eq_of_lt b1
      have g1 : (sessLoadReplyHdr t v).get Gen.wOpcode = Gen.opSessionLoadData := by
        simp only [sessLoadReplyHdr, replyOp, Hdr.put64, get_put, length_put]
        simp [Gen.wOpcode, Gen.wSize, Gen.wSessionDataTimeout, Gen.opSessionLoadData, Hdr.zero, Gen.hdrWords, u32]
      have g2 : (sessLoadReplyHdr t v).get Gen.wSize = v.length := by
        simp only [sessLoadReplyHdr, replyOp, Hdr.put64, get_put, length_put]
        simp [Gen.wOpcode, Gen.wSize, Gen.wSessionDataTimeout, Hdr.zero, Gen.hdrWords, u32, hm]
      have g3 : (sessLoadReplyHdr t v).get64 Gen.wSessionDataTimeout = toU64 t := by
        simp only [sessLoadReplyHdr, replyOp, Hdr.put64, Hdr.get64, get_put, length_put]
        simp [Gen.wOpcode, Gen.wSize, Gen.wSessionDataTimeout, Hdr.zero, Gen.hdrWords, u32]
        have := toU64_lt t
        omega
      simp only [cliDecodeSessLoad, g1, g2, g3, if_true, List.take_length, ofI64_toU64 t b2]

theorem reqSessRemove_exact (st : SessStore) (now : Time) (sid : Bytes) (hs : sid.length = Gen.sessSidLen) :
    (sessTransmit st now (reqSessRemove sid)).1 = sessRemove st now sid := by
  have hs' : sid.length = 32 := hs
  have hop : (reqSessRemove sid).1.get Gen.wOpcode = Gen.opSessionRemove := by
    simp only [reqSessRemove, get_put, length_put]
    simp [Gen.wOpcode, Gen.wSize, Gen.opSessionRemove, Hdr.zero, Gen.hdrWords, u32]
  have hsz : (reqSessRemove sid).1.get Gen.wSize = 32 := by
    simp only [reqSessRemove, get_put, length_put]
    simp [Gen.wOpcode, Gen.wSize, Hdr.zero, Gen.hdrWords, u32, hs']
  have e1 : (reqSessRemove sid).2 = sid := rfl
  have ht : sid.take 32 = sid := List.take_of_length_le (by omega)
  unfold sessTransmit sessHandle
  simp only [hop, hsz, e1, ht, Gen.opSessionSave, Gen.opSessionLoad, Gen.opSessionRemove, Gen.sessSidLen]
  simp

end Cppcms.C10
