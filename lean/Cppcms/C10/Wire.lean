import Cppcms.Common
import Cppcms.C07.Model
import Cppcms.C10.Gen
/-!
# C10 — the wire format of the tcp cache (`private/tcp_cache_protocol.h`)

A frame is a `tcp_operation_header` (sent as raw memory, host byte order) followed by `size`
payload bytes.  The header is modelled as its sequence of 32-bit words (`Hdr`); the word index of
every field, the opcodes, the server's frame validation, `load_triggers`' rejection test and the
"up to date" test come from `Gen.lean` (regenerated from the source on every run).  `Hdr.toBytes`
/ `Hdr.ofBytes` give the little-endian byte image that the correspondence run compares with the
bytes the real server/client put on the socket.

* client side: `reqFetch`, `reqStore`, `reqRise`, `reqClear`, `reqStats` (what `tcp_cache::*` build),
  `cliDecodeFetch` (what `tcp_cache::fetch` makes of the reply);
* server side: `srvHandle` = `tcp_cache_service::session::on_data_in` over a C07 cache model;
* `transmit` = `messenger::transmit` against that server: `size` payload bytes travel each way.

Trigger names travel NUL-terminated (`trigBytes`), are split again with `strlen` (`loadAux`): a name
containing NUL is split, an empty name is rejected by the server (`Gen.trigRejected`) — defect D10.
-/
namespace Cppcms.C10
open Cppcms Cppcms.C07

def u32 : Nat := 4294967296
def u64 : Nat := 18446744073709551616

/-! ### words and bytes -/

def le32 (n : Nat) : Bytes :=
  [UInt8.ofNat (n % 256), UInt8.ofNat (n / 256 % 256), UInt8.ofNat (n / 65536 % 256), UInt8.ofNat (n / 16777216 % 256)]

def rd32 : Bytes → Nat
  | a :: b :: c :: d :: _ => a.toNat + 256 * b.toNat + 65536 * c.toNat + 16777216 * d.toNat
  | _ => 0

/-- `tcp_operation_header` as its 32-bit words -/
abbrev Hdr := List Nat

namespace Hdr
/-- `tcp_operation_header h=tcp_operation_header();` / `memset(&hout_,0,sizeof(hout_))` -/
def zero : Hdr := List.replicate Gen.hdrWords 0
def get (h : Hdr) (i : Nat) : Nat := h.getD i 0
/-- assignment to a `uint32_t` field: truncation modulo 2^32 -/
def put (h : Hdr) (i v : Nat) : Hdr := h.set i (v % u32)
def get64 (h : Hdr) (i : Nat) : Nat := h.get i + u32 * h.get (i + 1)
/-- assignment to a 64-bit field (low word first) -/
def put64 (h : Hdr) (i v : Nat) : Hdr := (h.put i (v % u32)).put (i + 1) (v / u32)
/-- a one-bit bit-field -/
def bit (h : Hdr) (i b : Nat) : Bool := h.get i / 2 ^ b % 2 == 1
/-- `field = 1` on a one-bit bit-field -/
def setBit (h : Hdr) (i b : Nat) : Hdr := if h.bit i b then h else h.put i (h.get i + 2 ^ b)
def toBytes (h : Hdr) : Bytes := h.flatMap le32
def ofBytes (b : Bytes) : Hdr := (List.range Gen.hdrWords).map fun i => rd32 (b.drop (4 * i))
end Hdr

/-- a frame on the socket: header image, then the payload -/
def frameBytes (h : Hdr) (data : Bytes) : Bytes := h.toBytes ++ data
/-- what a receiver makes of a byte stream: the header, then `size` payload bytes -/
def frameOfBytes (b : Bytes) : Hdr × Bytes :=
  let h := Hdr.ofBytes b
  (h, (b.drop Gen.hdrBytes).take (h.get Gen.wSize))

/-- `int64_t`/`time_t` ↔ its 64-bit two's complement image -/
def toU64 (d : Int) : Nat := (d % 18446744073709551616).toNat
def ofI64 (n : Nat) : Int := if n < 9223372036854775808 then (n : Int) else (n : Int) - 18446744073709551616

/-! ### trigger names on the wire -/

/-- `std::string::compare`: lexicographic on unsigned bytes, a proper prefix is smaller -/
def bytesLt : Bytes → Bytes → Bool
  | [], [] => false
  | [], _ :: _ => true
  | _ :: _, [] => false
  | a :: as, b :: bs => if a < b then true else if b < a then false else bytesLt as bs

def insertSet (t : Key) : List Key → List Key
  | [] => [t]
  | x :: r => if t = x then x :: r else if bytesLt t x then t :: x :: r else x :: insertSet t r

/-- iteration order of a `std::set<std::string>` built from these names -/
def sortSet (l : List Key) : List Key := l.foldr insertSet []

/-- `data.append(p->c_str(),p->size()+1)` for every name: the name (embedded NULs included) and a NUL -/
def trigBytes (ts : List Key) : Bytes := ts.flatMap fun t => t ++ [0]

/-- the `strlen` loops of `load_triggers` (server) and `tcp_cache::fetch` (client) over a region:
`cur` is the name being scanned, **reversed** (linear time); a name for which `reject length` holds
aborts with `none`.  A last name without terminator ends at the implicit NUL of `std::string::c_str()`. -/
def loadAux (reject : Nat → Bool) : Bytes → Bytes → Option (List Key)
  | [], cur => if cur.isEmpty then some [] else if reject cur.length then none else some [cur.reverse]
  | c :: r, cur =>
    if c = 0 then (if reject cur.length then none else (loadAux reject r []).map (cur.reverse :: ·))
    else loadAux reject r (c :: cur)

/-- `session::load_triggers(triggers,start,len)`; `none` = `return false` -/
def srvLoadTriggers (region : Bytes) (len : Nat) : Option (List Key) :=
  if len ≥ Gen.intLimit then some [] else loadAux Gen.trigRejected region []

/-- the trigger loop of `tcp_cache::fetch` (accepts empty names) -/
def cliLoadTriggers (region : Bytes) (len : Nat) : List Key :=
  if len ≥ Gen.intLimit then [] else (loadAux (fun _ => false) region []).getD []

/-! ### server: `tcp_cache_service::session` -/

def replyOp (opc : Nat) : Hdr := Hdr.zero.put Gen.wOpcode opc

def srvFetch (s : State) (now : Time) (h : Hdr) (data : Bytes) : State × Hdr × Bytes :=
  let wantTrigs := h.bit Gen.wFetchTransferTriggers Gen.bitFetchTransferTriggers
  let tinu := h.bit Gen.wFetchTransferIfNotUptodate Gen.bitFetchTransferIfNotUptodate
  match C07.step s (.fetch now data) with
  | (s', .hit v trigs d g) =>
    if Gen.srvUpToDate tinu g.toNat (h.get64 Gen.wFetchCurrentGen) then (s', replyOp Gen.opUptodate, [])
    else
      let out := v ++ (if wantTrigs then trigBytes (sortSet trigs) else [])
      let hh := (replyOp Gen.opData).put Gen.wDataDataLen v.length
      let hh := hh.put Gen.wDataTriggersLen (out.length - hh.get Gen.wDataDataLen)
      let hh := hh.put Gen.wSize out.length
      let hh := hh.put64 Gen.wDataGeneration g.toNat
      let hh := hh.put64 Gen.wDataTimeout (toU64 d)
      (s', hh, out.take (hh.get Gen.wSize))
  | (s', _) => (s', replyOp Gen.opNoData, [])

def srvStore (s : State) (now : Time) (h : Hdr) (data : Bytes) : State × Hdr × Bytes :=
  let keyLen := h.get Gen.wStoreKeyLen
  let dataLen := h.get Gen.wStoreDataLen
  let trigLen := h.get Gen.wStoreTriggersLen
  if Gen.storeBad keyLen dataLen trigLen (h.get Gen.wSize) then (s, replyOp Gen.opError, [])
  else
    match srvLoadTriggers ((data.drop (keyLen + dataLen)).take trigLen) trigLen with
    | none => (s, replyOp Gen.opError, [])
    | some ts =>
      let d := ofI64 (h.get64 Gen.wStoreTimeout)
      ((C07.step s (.store now (data.take keyLen) ((data.drop keyLen).take dataLen) ts d)).1, replyOp Gen.opDone, [])

/-- `session::on_data_in` with a cache and no session storage configured (`sessions_` null):
`data` are the `hin_.size` bytes that followed the header -/
def srvHandle (s : State) (now : Time) (h : Hdr) (data : Bytes) : State × Hdr × Bytes :=
  let opc := h.get Gen.wOpcode
  if opc = Gen.opFetch then srvFetch s now h data
  else if opc = Gen.opRise then ((C07.step s (.rise data)).1, replyOp Gen.opDone, [])
  else if opc = Gen.opClear then ((C07.step s .clear).1, replyOp Gen.opDone, [])
  else if opc = Gen.opStore then srvStore s now h data
  else if opc = Gen.opStats then
    (s, ((replyOp Gen.opOutStats).put Gen.wOutStatsKeys s.size).put Gen.wOutStatsTriggers s.trigCount, [])
  else (s, replyOp Gen.opError, [])

/-- `messenger::transmit(h,data)` against this server: header plus `h.size` bytes of `data` go out,
the reply header and its `size` payload bytes come back -/
def transmit (s : State) (now : Time) (h : Hdr) (data : Bytes) : State × Hdr × Bytes :=
  srvHandle s now h (data.take (h.get Gen.wSize))

/-! ### client: `tcp_cache` -/

def reqFetch (k : Key) (wantTags : Bool) (cur : Option Gen) : Hdr × Bytes :=
  let h := ((Hdr.zero.put Gen.wOpcode Gen.opFetch).put Gen.wSize k.length).put Gen.wFetchKeyLen k.length
  let h := match cur with
    | some g => (h.setBit Gen.wFetchTransferIfNotUptodate Gen.bitFetchTransferIfNotUptodate).put64 Gen.wFetchCurrentGen g.toNat
    | none => h
  let h := if wantTags then h.setBit Gen.wFetchTransferTriggers Gen.bitFetchTransferTriggers else h
  (h, k)

def reqStore (k : Key) (v : Val) (trigs : List Key) (d : Time) : Hdr × Bytes :=
  let tb := trigBytes (sortSet trigs)
  let data := k ++ v ++ tb
  let h := (Hdr.zero.put Gen.wOpcode Gen.opStore).put Gen.wStoreKeyLen k.length
  let h := (h.put Gen.wStoreDataLen v.length).put64 Gen.wStoreTimeout (toU64 d)
  let h := (h.put Gen.wStoreTriggersLen tb.length).put Gen.wSize data.length
  (h, data)

def reqRise (t : Key) : Hdr × Bytes :=
  (((Hdr.zero.put Gen.wOpcode Gen.opRise).put Gen.wSize t.length).put Gen.wRiseTriggerLen t.length, t)

def reqClear : Hdr × Bytes := ((Hdr.zero.put Gen.wOpcode Gen.opClear).put Gen.wSize 0, [])

def reqStats : Hdr × Bytes := (Hdr.zero.put Gen.wOpcode Gen.opStats, [])

/-- result of `tcp_cache::fetch` -/
inductive TcpRes where
  | upToDate
  | notFound
  | found (v : Val) (ts : List Key) (d : Time) (g : Gen)
deriving DecidableEq, Repr

/-- what `tcp_cache::fetch` makes of the reply (`tinu` = it asked with transfer_if_not_uptodate) -/
def cliDecodeFetch (tinu : Bool) (h : Hdr) (data : Bytes) : TcpRes :=
  let opc := h.get Gen.wOpcode
  if tinu && opc == Gen.opUptodate then .upToDate
  else if opc != Gen.opData then .notFound
  else
    let dl := h.get Gen.wDataDataLen
    let tl := h.get Gen.wDataTriggersLen
    .found (data.take dl) (cliLoadTriggers ((data.drop dl).take tl) tl) (ofI64 (h.get64 Gen.wDataTimeout))
      (UInt64.ofNat (h.get64 Gen.wDataGeneration))

def tcpFetch (s : State) (now : Time) (k : Key) (wantTags : Bool) (cur : Option Gen) : State × TcpRes :=
  let (h, data) := reqFetch k wantTags cur
  let (s', rh, rdata) := transmit s now h data
  (s', cliDecodeFetch cur.isSome rh rdata)

def tcpStore (s : State) (now : Time) (k : Key) (v : Val) (trigs : List Key) (d : Time) : State :=
  let (h, data) := reqStore k v trigs d
  (transmit s now h data).1

def tcpRise (s : State) (t : Key) : State :=
  let (h, data) := reqRise t
  (transmit s 0 h data).1

def tcpClear (s : State) : State :=
  let (h, data) := reqClear
  (transmit s 0 h data).1

/-- one server's contribution to `tcp_cache::stats` -/
def tcpStats (s : State) : Nat × Nat :=
  let (h, data) := reqStats
  let (_, rh, _) := transmit s 0 h data
  if rh.get Gen.wOpcode = Gen.opOutStats then (rh.get Gen.wOutStatsKeys, rh.get Gen.wOutStatsTriggers) else (0, 0)

end Cppcms.C10
