import Cppcms.Common
import Cppcms.C13.Gen
/-!
# C13 model: the embedded file server (`src/internal_file_server.cpp`)

Executable transcription of `normalize_path`, `is_file_prefix`, `is_in_root`,
`check_in_document_root`, `file_mode`, `main` (decision tree) and `list_dir`, from
`PATH_INFO` on.  Every character, string, length, comparison operator and mode mask the
code compares against comes from `Gen.lean` (regenerated from the source on each run); the
control flow is written by hand and tied to the code by the correspondence streams.

`std::string`s are byte lists and may contain NUL; every hand-over to libc goes through
`cstr` (what `c_str()` denotes).  The file system is the parameter `Fs`.
-/
namespace Cppcms.C13
open Cppcms

abbrev Path := Bytes

/-- what libc sees of a `std::string` passed as `s.c_str()` -/
def cstr (p : Bytes) : Bytes := p.takeWhile (· != 0)

/-- The file system as the code observes it.  Arguments are C strings. -/
structure Fs where
  /-- `realpath(3)` / `canonicalize_file_name`; `none` = NULL -/
  realpath : Path → Option Path
  /-- `stat(2)`: `st_mode`, 0 when it fails (as `file_server::file_mode` returns) -/
  mode : Path → Nat
  /-- `opendir`+`readdir_r` until exhaustion: entry names (incl. `.` and `..`); `none` = opendir failed -/
  readdir : Path → Option (List Bytes)
  /-- opening for reading and reading to the end; `none` = the stream is not good after opening -/
  read : Path → Option Bytes

structure Config where
  docRoot : Path
  /-- (url, canonical target), in configuration order -/
  aliases : List (Path × Path)
  checkSymlinks : Bool := Gen.defaultCheckSymlink
  listing : Bool := Gen.defaultListing
  indexFile : Bytes := Gen.defaultIndex

/-! ## the constructor

`file_server::file_server`: the document root and every alias target go through `canonical`
(`realpath`); an alias url must have at least two bytes and start with `/`, one trailing `/` is
stripped.  Any failure throws (`none`): the application is never instantiated and nothing is served. -/

/-- the settings as given in the configuration -/
structure RawConfig where
  docRoot : Path
  aliases : List (Path × Path)
  checkSymlinks : Bool := Gen.defaultCheckSymlink
  listing : Bool := Gen.defaultListing
  indexFile : Bytes := Gen.defaultIndex

/-- `if(url[url.size()-1]=='/') url.resize(url.size()-1);` -/
def stripSlash (url : Bytes) : Bytes :=
  if url.getLast? == some 47 then url.dropLast else url

/-- the alias loop of the constructor -/
def constructAliases (fs : Fs) : List (Path × Path) → Option (List (Path × Path))
  | [] => some []
  | (url, p) :: rest =>
    if url.length < 2 || url.head? != some 47 then none          -- "Invalid alias URL"
    else match fs.realpath (cstr p) with
      | none => none                                              -- "Invalid alias path"
      | some cp =>
        match constructAliases fs rest with
        | none => none
        | some l => some ((stripSlash url, cp) :: l)

def construct (fs : Fs) (raw : RawConfig) : Option Config :=
  match fs.realpath (cstr raw.docRoot) with
  | none => none                                                  -- "Invalid document root"
  | some root =>
    match constructAliases fs raw.aliases with
    | none => none
    | some al => some { docRoot := root, aliases := al, checkSymlinks := raw.checkSymlinks,
                        listing := raw.listing, indexFile := raw.indexFile }

/-! ## normalize_path -/

/-- the pieces between successive `std::find(start,end,'/')` hits (at least one piece) -/
def splitSep : Bytes → List Bytes
  | [] => [[]]
  | c :: rest =>
    if c = Gen.normFind then [] :: splitSep rest
    else match splitSep rest with
      | [] => [[c]]
      | h :: t => (c :: h) :: t

/-- `while(out > min_pos) { out--; if(*out=='/') break; }` on the reversed output buffer
(head = last byte written; the buffer always keeps its first byte) -/
def backScan : Bytes → Bytes
  | [] => []
  | [c] => [c]
  | c :: rest => if c = Gen.normBack then rest else backScan rest

/-- the `..` branch: `if(out > min_pos) out--;` then the scan -/
def dotdot : Bytes → Bytes
  | [] => []
  | [c] => [c]
  | _ :: rest => backScan rest

def isSkip (comp : Bytes) : Bool :=
  comp.length == 0 || (comp.length == Gen.normSkipLen && comp.head? == some Gen.normSkipCh)

def isUp (comp : Bytes) : Bool :=
  comp.length == Gen.normUpLen && comp.head? == some Gen.normUp0 && comp[1]? == some Gen.normUp1

/-- one iteration of the `while` loop for the piece `comp`; `last` ⇔ `end == path.end()`.
`rout` is the reversed output buffer `path[0..out)`. -/
def stepComp (rout : Bytes) (comp : Bytes) (last : Bool) : Bytes :=
  if isSkip comp then rout
  else if isUp comp then dotdot rout
  else (if last then [] else [Gen.normAppend]) ++ comp.reverse ++ rout

def normLoop (rout : Bytes) : List Bytes → Bytes
  | [] => rout
  | [c] => stepComp rout c true
  | c :: cs => normLoop (stepComp rout c false) cs

/-- `if(*(out-1) == '/' && out > path.begin()+1) out--;` -/
def finalTrim : Bytes → Bytes
  | c :: d :: rest => if c = Gen.normTrim then d :: rest else c :: d :: rest
  | r => r

/-- `file_server::normalize_path` (the string is modified in place in the C++; the bytes of
the input not yet consumed are never overwritten because `out ≤ start` throughout) -/
def normalize (p : Bytes) : Bytes :=
  let p1 := if p.isEmpty || p.head? != some Gen.normLead then Gen.normLeadStr ++ p else p
  match p1 with
  | [] => []
  | c :: t => (finalTrim (normLoop [c] (splitSep t))).reverse

/-! ## is_file_prefix, is_in_root, check_in_document_root -/

/-- `static bool is_file_prefix(std::string const &prefix,std::string const &full)` -/
def isFilePrefix (pfx full : Bytes) : Bool :=
  if Gen.pfxTooLong pfx.length full.length then false
  else if full.take pfx.length != pfx then false
  else if pfx.length == Gen.pfxEmptyLen || pfx[pfx.length - Gen.pfxLastOff]? == some Gen.sep then true
  else if Gen.pfxHasNext full.length pfx.length && full[pfx.length]? != some Gen.sep then false
  else true

/-- `file_server::is_in_root`: `some real` = returns true -/
def isInRoot (fs : Fs) (input root : Path) : Option Path :=
  match fs.realpath (cstr (root ++ Gen.inRootJoin ++ input)) with
  | none => none
  | some real => if isFilePrefix root real then some real else none

/-- the alias loop of `check_in_document_root`: (root, remaining path) -/
def pickRoot (cfg : Config) (normal : Path) : Path × Path :=
  match cfg.aliases.find? (fun a => isFilePrefix a.1 normal) with
  | some a =>
    let n := normal.drop a.1.length
    (a.2, if n.isEmpty then Gen.cidrEmptyRepl else n)
  | none => (cfg.docRoot, normal)

/-- `real.resize(real_size-1)` when the last byte is a separator -/
def trimSep (real : Bytes) : Bytes :=
  if real.getLast? == some Gen.sep then real.dropLast else real

/-- `file_server::check_in_document_root(normal,real)`: `some real` = returns true -/
def checkInDocumentRoot (fs : Fs) (cfg : Config) (fileName : Bytes) : Option Path :=
  let rn := pickRoot cfg (normalize fileName)
  let root := rn.1
  let normal := rn.2
  if normal.isEmpty then none
  else if normal.head? != some Gen.cidrLead then none
  else if cfg.checkSymlinks then isInRoot fs normal root
  else some (trimSep (root ++ normal))

/-! ## escape (util.cpp) -/

def escapeByte (c : UInt8) : Bytes :=
  match Gen.escapeTable.lookup c.toNat with
  | some e => e.map UInt8.ofNat
  | none => [c]

/-- `std::string util::escape(std::string const&)` -/
def escape (s : Bytes) : Bytes := s.flatMap escapeByte

/-! ## urlencode (util.cpp) -/

def urlUnreserved (c : UInt8) : Bool :=
  Gen.urlAlnum c.toNat || Gen.urlKeep.contains c.toNat

/-- one iteration of `urlencode_impl` -/
def urlencodeByte (c : UInt8) : Bytes :=
  if urlUnreserved c then [c]
  else [UInt8.ofNat (Gen.urlEsc0 c.toNat), UInt8.ofNat (Gen.urlEsc1 c.toNat), UInt8.ofNat (Gen.urlEsc2 c.toNat)]

/-- `std::string util::urlencode(std::string const&)` -/
def urlencode (s : Bytes) : Bytes := s.flatMap urlencodeByte

/-! ## list_dir and main -/

/-- one row of the listing: the entry name and what is appended (`"/"` for directories) -/
structure Row where
  name : Bytes
  add : Bytes
deriving Repr, DecidableEq

/-- the visible text of a row: `util::escape(d.name()) << add` -/
def Row.text (r : Row) : Bytes := escape r.name ++ r.add

/-- the link target of a row: `util::urlencode(d.name()) << add`, emitted inside single quotes -/
def Row.href (r : Row) : Bytes := urlencode r.name ++ r.add

/-- the anchor element as `list_dir` writes it:
`"<a href='" << util::urlencode(d.name()) << add << "'>" << util::escape(d.name()) << add << "</a>"` -/
def Row.anchor (r : Row) : Bytes :=
  [60,97,32,104,114,101,102,61,39] ++ r.href ++ [39,62] ++ r.text ++ [60,47,97,62]

inductive Outcome where
  /-- `show404()` -/
  | notFound
  /-- `set_redirect_header(loc)` -/
  | redirect (loc : Bytes)
  /-- `list_dir(url,path)` produced a page: `path` went to `opendir` -/
  | listing (url : Bytes) (path : Path) (rows : List Row)
  /-- the file `path` (as a `std::string`) was opened and `content` streamed -/
  | serve (path : Path) (content : Bytes)
deriving Repr, DecidableEq

/-- the path handed to `open` / `opendir` when something was served or listed -/
def Outcome.opened : Outcome → Option Path
  | .serve p _ => some p
  | .listing _ p _ => some p
  | _ => none

/-- `memcmp(d.name(),".",1) == 0` (d.name() is a C string: a missing byte compares as NUL) -/
def isDotFile (name : Bytes) : Bool :=
  (name ++ [0]).take Gen.listSkipLen == (Gen.listSkipStr ++ [0]).take Gen.listSkipLen

/-- loop body of `list_dir` for one directory entry -/
def listRow (fs : Fs) (path : Path) (name : Bytes) : Option Row :=
  if isDotFile name then none
  else
    let m := fs.mode (cstr (path ++ Gen.listJoin ++ name))
    if m = 0 then none                                  -- stat failed
    else if m &&& Gen.listDirMask != 0 then some ⟨name, Gen.listDirAdd⟩
    else if m &&& Gen.listRegMask != 0 then some ⟨name, []⟩
    else none

def listDir (fs : Fs) (url : Bytes) (path : Path) : Outcome :=
  match fs.readdir (cstr path) with
  | none => .notFound
  | some names => .listing url path (names.filterMap (listRow fs path))

/-- the tail of `main`: open `path.c_str()` and stream it (sync and async variants agree) -/
def serveFile (fs : Fs) (path : Path) : Outcome :=
  match fs.read (cstr path) with
  | none => .notFound
  | some c => .serve path c

/-- `have_index` / `path2` computation -/
def indexPath (fs : Fs) (cfg : Config) (fileName : Bytes) : Option Path :=
  match checkInDocumentRoot fs cfg (fileName ++ Gen.indexJoin ++ cfg.indexFile) with
  | none => none
  | some p2 => if fs.mode (cstr p2) &&& Gen.mainIndexMask != 0 then some p2 else none

/-- `file_server::main(std::string file_name)` -/
def main (fs : Fs) (cfg : Config) (fileName : Bytes) : Outcome :=
  match checkInDocumentRoot fs cfg fileName with
  | none => .notFound
  | some path =>
    let s := fs.mode (cstr path)
    if s &&& Gen.mainDirMask != 0 then
      let idx := indexPath fs cfg fileName
      if !fileName.isEmpty && fileName.getLast? != some Gen.redirEndCh && (idx.isSome || cfg.listing) then
        .redirect (fileName ++ Gen.redirSuffix)
      else
        match idx with
        | some p2 =>
          -- path=path2; s=mode_2; then the common `if(!(s & S_IFREG))` test
          if fs.mode (cstr p2) &&& Gen.mainRegMask == 0 then .notFound else serveFile fs p2
        | none => if cfg.listing then listDir fs fileName path else .notFound
    else if s &&& Gen.mainRegMask == 0 then .notFound
    else serveFile fs path

/-! ## HTTP glue (src/http_api.cpp): request target → PATH_INFO

`path` = target up to the first `?`; `PATH_INFO = pool_.add(util::urldecode(path))`, and
`string_pool::add(std::string)` copies up to the first NUL (the CGI environment holds C
strings).  Hand-written, tied by the end-to-end stream. -/

def hexVal (c : UInt8) : Option Nat :=
  let n := c.toNat
  if 48 ≤ n ∧ n ≤ 57 then some (n - 48)
  else if 97 ≤ n ∧ n ≤ 102 then some (n - 87)
  else if 65 ≤ n ∧ n ≤ 70 then some (n - 55)
  else none

/-- `util::urldecode`: `+` → space, `%XX` → byte, a `%` not followed by two hex digits is dropped -/
def urldecode : Bytes → Bytes
  | [] => []
  | c :: rest =>
    if c = Gen.urldecPlus then Gen.urldecSpace :: urldecode rest
    else if c = Gen.urldecPct then
      match rest with
      | a :: b :: rest' =>
        match hexVal a, hexVal b with
        | some x, some y => UInt8.ofNat (x * 16 + y) :: urldecode rest'
        | _, _ => urldecode (a :: b :: rest')
      | r => urldecode r
    else c :: urldecode rest
termination_by l => l.length
decreasing_by all_goals (simp; try omega)

def pathInfoOfTarget (target : Bytes) : Bytes :=
  cstr (urldecode (target.takeWhile (· != Gen.queryCh)))

end Cppcms.C13
