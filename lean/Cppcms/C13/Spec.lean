import Cppcms.Common
/-!
# C13 specification side (independent of the model and of the generated constants)

Paths are byte strings.  A path is *canonical* when it is absolute and none of its
components (the pieces between `/`) is empty, `.` or `..` — the shape POSIX `realpath`
returns and the shape the file server's lexical normalisation must produce.  "Inside"
is component-wise prefix, never string prefix (`/srv/www` is not a prefix of `/srv/wwwX`).
-/
namespace Cppcms.C13.Spec
open Cppcms

/-- split a byte string at every `/` (always at least one piece, pieces may be empty) -/
def splitSlash : Bytes → List Bytes
  | [] => [[]]
  | c :: rest =>
    if c = 47 then [] :: splitSlash rest
    else match splitSlash rest with
      | [] => [[c]]
      | h :: t => (c :: h) :: t

/-- a component that names a directory entry: not empty, not `.`, not `..`, no `/` inside -/
def goodComp (c : Bytes) : Bool :=
  c != [] && c != [46] && c != [46, 46] && !c.contains 47

/-- components of an absolute path: `/` ↦ `[]`, `/a/b` ↦ `[a,b]`, `/a/` ↦ `[a, ""]` -/
def comps : Bytes → List Bytes
  | [] => []
  | [_] => []
  | _ :: t => splitSlash t

/-- absolute, no empty / `.` / `..` component, no trailing slash (except the root itself) -/
def canonical (p : Bytes) : Bool :=
  p.head? == some 47 && (comps p).all goodComp

/-- component-wise prefix: `root` is an ancestor of (or equal to) `p` -/
def compPrefix (root p : Bytes) : Bool := (comps root).isPrefixOf (comps p)

/-- `real` lies inside `root` (both as `realpath` would return them) -/
def inside (root real : Bytes) : Bool := canonical root && canonical real && compPrefix root real

/-- no piece between slashes is `..` (what a purely lexical check can promise) -/
def noDotDot (p : Bytes) : Bool := (splitSlash p).all (· != [46, 46])

/-- the C string a `std::string` denotes when handed to libc via `c_str()` -/
def cString (p : Bytes) : Bytes := p.takeWhile (· != 0)

/-! ### file types (POSIX `st_mode`, Linux encoding `S_IFMT = 0170000`) -/

/-- the 4-bit file-type field of `st_mode` -/
def ftype (mode : Nat) : Nat := (mode / 4096) % 16
def ftReg : Nat := 8
def ftDir : Nat := 4
def ftLnk : Nat := 10
def ftSock : Nat := 12
/-- the values `stat(2)` can report in the type field (it follows links, so no `S_IFLNK`);
0 stands for "stat failed" -/
def statTypes : List Nat := [0, 1, 2, 4, 6, 8, 12]

/-! ### HTML (copied in spirit from C15's specification: what a browser un-escapes) -/

def unescape : Bytes → Bytes
  | 38 :: 108 :: 116 :: 59 :: rest => 60 :: unescape rest                 -- &lt;
  | 38 :: 103 :: 116 :: 59 :: rest => 62 :: unescape rest                 -- &gt;
  | 38 :: 97 :: 109 :: 112 :: 59 :: rest => 38 :: unescape rest           -- &amp;
  | 38 :: 113 :: 117 :: 111 :: 116 :: 59 :: rest => 34 :: unescape rest   -- &quot;
  | 38 :: 35 :: 51 :: 57 :: 59 :: rest => 39 :: unescape rest             -- &#39;
  | c :: rest => c :: unescape rest
  | [] => []

def entities : List Bytes :=
  [[38,108,116,59], [38,103,116,59], [38,97,109,112,59], [38,113,117,111,116,59], [38,35,51,57,59]]

/-- every `&` starts one of the five references -/
def ampsOk : Bytes → Bool
  | [] => true
  | c :: rest => (c != 38 || entities.any (fun e => e.isPrefixOf (c :: rest))) && ampsOk rest

/-- none of `< > " '` occurs -/
def noMarkup (s : Bytes) : Bool := s.all fun c => c != 60 && c != 62 && c != 34 && c != 39

/-- text that is safe inside element content and inside a quoted attribute and that a
browser turns back into `plain` -/
def escapedFor (plain text : Bytes) : Bool :=
  noMarkup text && ampsOk text && unescape text == plain

/-! ### attribute values

The listing puts the link target into a **single-quoted** attribute: `<a href='…'>`.  A value is
safe there when no byte can end the attribute (`'`), none can open or close markup or the other
quoting (`<`, `>`, `"`), and none starts a character reference (`&`). -/

def attrSafe (s : Bytes) : Bool := s.all fun c => c != 39 && c != 34 && c != 60 && c != 62 && c != 38

def anchorOpen : Bytes := [60,97,32,104,114,101,102,61,39]   -- <a href='
def anchorMid : Bytes := [39,62]                              -- '>
def anchorClose : Bytes := [60,47,97,62]                      -- </a>

/-- read an anchor the way an HTML parser does: the attribute value runs to the first `'`, which must
be followed by `>`; the text runs to the closing tag.  `some (href, text)` when it has that shape. -/
def parseAnchor (raw : Bytes) : Option (Bytes × Bytes) :=
  if anchorOpen.isPrefixOf raw then
    let r1 := raw.drop anchorOpen.length
    let h := r1.takeWhile (· != 39)
    let r2 := r1.drop h.length
    if anchorMid.isPrefixOf r2 then
      let r3 := r2.drop anchorMid.length
      if r3.length ≥ anchorClose.length && r3.drop (r3.length - anchorClose.length) == anchorClose then
        some (h, r3.take (r3.length - anchorClose.length))
      else none
    else none
  else none

/-- a listing row is well-formed for the directory entries `names`: it parses as one anchor, the
attribute value is safe, and the text is the escaped name (plus `/`) of an entry not starting with `.` -/
def rowOk (names : List Bytes) (raw : Bytes) : Bool :=
  match parseAnchor raw with
  | none => false
  | some (h, t) =>
    attrSafe h && names.any fun n => n.head? != some 46 && (escapedFor n t || escapedFor (n ++ [47]) t)

end Cppcms.C13.Spec
