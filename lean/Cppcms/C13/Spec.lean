import Cppcms.Common
/-!
# C13 specification side (independent of the model and of the generated constants)

Paths are byte strings.  A path is *canonical* when it is absolute and none of its
components (the pieces between `/`) is empty, `.` or `..` — the shape POSIX `realpath`
returns and the shape the file server's lexical normalisation must produce.  "Inside"
is component-wise prefix, never string prefix (`/srv/www` is not a prefix of `/srv/wwwX`).
-/
namespace Cppcms.C13.Spec
open Cppcms

/-- split a byte string at every `/` (always at least one piece, pieces may be empty) -/
def splitSlash : Bytes → List Bytes
  | [] => [[]]
  | c :: rest =>
    if c = 47 then [] :: splitSlash rest
    else match splitSlash rest with
      | [] => [[c]]
      | h :: t => (c :: h) :: t

/-- a component that names a directory entry: not empty, not `.`, not `..`, no `/` inside -/
def goodComp (c : Bytes) : Bool :=
  c != [] && c != [46] && c != [46, 46] && !c.contains 47

/-- components of an absolute path: `/` ↦ `[]`, `/a/b` ↦ `[a,b]`, `/a/` ↦ `[a, ""]` -/
def comps : Bytes → List Bytes
  | [] => []
  | [_] => []
  | _ :: t => splitSlash t

/-- absolute, no empty / `.` / `..` component, no trailing slash (except the root itself) -/
def canonical (p : Bytes) : Bool :=
  p.head? == some 47 && (comps p).all goodComp

/-- component-wise prefix: `root` is an ancestor of (or equal to) `p` -/
def compPrefix (root p : Bytes) : Bool := (comps root).isPrefixOf (comps p)

/-- `real` lies inside `root` (both as `realpath` would return them) -/
def inside (root real : Bytes) : Bool := canonical root && canonical real && compPrefix root real

/-- no piece between slashes is `..` (what a purely lexical check can promise) -/
def noDotDot (p : Bytes) : Bool := (splitSlash p).all (· != [46, 46])

/-- the C string a `std::string` denotes when handed to libc via `c_str()` -/
def cString (p : Bytes) : Bytes := p.takeWhile (· != 0)

/-! ### file types (POSIX `st_mode`, Linux encoding `S_IFMT = 0170000`) -/

/-- the 4-bit file-type field of `st_mode` -/
def ftype (mode : Nat) : Nat := (mode / 4096) % 16
def ftReg : Nat := 8
def ftDir : Nat := 4
def ftLnk : Nat := 10
def ftSock : Nat := 12
/-- the values `stat(2)` can report in the type field (it follows links, so no `S_IFLNK`);
0 stands for "stat failed" -/
def statTypes : List Nat := [0, 1, 2, 4, 6, 8, 12]

/-! ### HTML (copied in spirit from C15's specification: what a browser un-escapes) -/

def unescape : Bytes → Bytes
  | 38 :: 108 :: 116 :: 59 :: rest => 60 :: unescape rest                 -- &lt;
  | 38 :: 103 :: 116 :: 59 :: rest => 62 :: unescape rest                 -- &gt;
  | 38 :: 97 :: 109 :: 112 :: 59 :: rest => 38 :: unescape rest           -- &amp;
  | 38 :: 113 :: 117 :: 111 :: 116 :: 59 :: rest => 34 :: unescape rest   -- &quot;
  | 38 :: 35 :: 51 :: 57 :: 59 :: rest => 39 :: unescape rest             -- &#39;
  | c :: rest => c :: unescape rest
  | [] => []

def entities : List Bytes :=
  [[38,108,116,59], [38,103,116,59], [38,97,109,112,59], [38,113,117,111,116,59], [38,35,51,57,59]]

/-- every `&` starts one of the five references -/
def ampsOk : Bytes → Bool
  | [] => true
  | c :: rest => (c != 38 || entities.any (fun e => e.isPrefixOf (c :: rest))) && ampsOk rest

/-- none of `< > " '` occurs -/
def noMarkup (s : Bytes) : Bool := s.all fun c => c != 60 && c != 62 && c != 34 && c != 39

/-- text that is safe inside element content and inside a quoted attribute and that a
browser turns back into `plain` -/
def escapedFor (plain text : Bytes) : Bool :=
  noMarkup text && ampsOk text && unescape text == plain

end Cppcms.C13.Spec
