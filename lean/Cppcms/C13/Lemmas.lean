import Cppcms.C13.Model
import Cppcms.C13.Spec
/-! Helper lemmas for C13: splitting/joining at `/`, the invariant of the `normalize_path`
loop, the characterisation of `is_file_prefix`, per-byte facts about `escape`. -/
namespace Cppcms.C13
open Cppcms Spec

/-! ### generated constants, read back (a changed constant breaks these first) -/

theorem gen_norm :
    Gen.normLead = 47 ∧ Gen.normLeadStr = [47] ∧ Gen.normFind = 47 ∧ Gen.normSkipLen = 1 ∧ Gen.normSkipCh = 46 ∧
    Gen.normUpLen = 2 ∧ Gen.normUp0 = 46 ∧ Gen.normUp1 = 46 ∧ Gen.normBack = 47 ∧ Gen.normAppend = 47 ∧
    Gen.normTrim = 47 := by decide

/-! ### splitting and joining at `/` -/

/-- `/c1/c2/.../cn` (empty for no components) -/
def render (cs : List Bytes) : Bytes := cs.flatMap (fun c => 47 :: c)

@[simp] theorem render_nil : render [] = [] := rfl
@[simp] theorem render_cons (c : Bytes) (cs : List Bytes) : render (c :: cs) = 47 :: (c ++ render cs) := by
  simp [render]
theorem render_append (a b : List Bytes) : render (a ++ b) = render a ++ render b := by
  simp [render]

theorem splitSlash_ne_nil (t : Bytes) : splitSlash t ≠ [] := by
  cases t with
  | nil => simp [splitSlash]
  | cons c rest =>
    unfold splitSlash
    split
    · simp
    · split <;> simp

theorem splitSlash_cons_slash (r : Bytes) : splitSlash (47 :: r) = [] :: splitSlash r := by
  simp [splitSlash]

theorem splitSlash_cons_ne (c : UInt8) (r : Bytes) (h : c ≠ 47) :
    splitSlash (c :: r) = (c :: (splitSlash r).headD []) :: (splitSlash r).tail := by
  rw [splitSlash]
  simp only [h, if_false]
  have := splitSlash_ne_nil r
  cases hs : splitSlash r with
  | nil => exact absurd hs this
  | cons a b => simp

theorem splitSlash_slashFree (c : Bytes) (h : (47 : UInt8) ∉ c) : splitSlash c = [c] := by
  induction c with
  | nil => simp [splitSlash]
  | cons x c ih =>
    have hx : x ≠ 47 := fun e => h (by simp [e])
    have hc : (47 : UInt8) ∉ c := fun m => h (List.mem_cons_of_mem _ m)
    rw [splitSlash_cons_ne _ _ hx, ih hc]
    simp

theorem splitSlash_append_slash (c r : Bytes) (h : (47 : UInt8) ∉ c) :
    splitSlash (c ++ 47 :: r) = c :: splitSlash r := by
  induction c with
  | nil => simp [splitSlash_cons_slash]
  | cons x c ih =>
    have hx : x ≠ 47 := fun e => h (by simp [e])
    have hc : (47 : UInt8) ∉ c := fun m => h (List.mem_cons_of_mem _ m)
    rw [List.cons_append, splitSlash_cons_ne _ _ hx, ih hc]
    simp

theorem splitSlash_pieces_slashFree (t : Bytes) : ∀ c ∈ splitSlash t, (47 : UInt8) ∉ c := by
  induction t with
  | nil => simp [splitSlash]
  | cons x t ih =>
    by_cases hx : x = 47
    · subst hx
      rw [splitSlash_cons_slash]
      intro c hc
      rcases List.mem_cons.mp hc with rfl | hc
      · simp
      · exact ih c hc
    · rw [splitSlash_cons_ne _ _ hx]
      intro c hc
      have hne := splitSlash_ne_nil t
      cases hs : splitSlash t with
      | nil => exact absurd hs hne
      | cons a b =>
        rw [hs] at hc ih
        simp only [List.headD_cons, List.tail_cons, List.mem_cons] at hc
        rcases hc with rfl | hc
        · intro m
          rcases List.mem_cons.mp m with e | m
          · exact hx e.symm
          · exact ih a (by simp) m
        · exact ih c (by simp [hc])

theorem splitSlash_pieces_subset (t : Bytes) : ∀ c ∈ splitSlash t, ∀ b ∈ c, b ∈ t := by
  induction t with
  | nil => simp [splitSlash]
  | cons x t ih =>
    by_cases hx : x = 47
    · subst hx
      rw [splitSlash_cons_slash]
      intro c hc b hb
      rcases List.mem_cons.mp hc with rfl | hc
      · simp at hb
      · exact List.mem_cons_of_mem _ (ih c hc b hb)
    · rw [splitSlash_cons_ne _ _ hx]
      intro c hc b hb
      have hne := splitSlash_ne_nil t
      cases hs : splitSlash t with
      | nil => exact absurd hs hne
      | cons a r =>
        rw [hs] at hc ih
        simp only [List.headD_cons, List.tail_cons, List.mem_cons] at hc
        rcases hc with rfl | hc
        · rcases List.mem_cons.mp hb with e | m
          · simp [e]
          · exact List.mem_cons_of_mem _ (ih a (by simp) b m)
        · exact List.mem_cons_of_mem _ (ih c (by simp [hc]) b hb)

/-- joining the pieces with a `/` in front of each gives back `/` ++ the string -/
theorem render_splitSlash (t : Bytes) : render (splitSlash t) = 47 :: t := by
  induction t with
  | nil => simp [splitSlash]
  | cons x t ih =>
    by_cases hx : x = 47
    · subst hx
      rw [splitSlash_cons_slash, render_cons, ih]
      simp
    · rw [splitSlash_cons_ne _ _ hx]
      have hne := splitSlash_ne_nil t
      cases hs : splitSlash t with
      | nil => exact absurd hs hne
      | cons a r =>
        rw [hs] at ih
        simp only [render_cons, List.cons.injEq, true_and] at ih
        simp [ih]

theorem goodComp_iff (c : Bytes) :
    goodComp c = true ↔ c ≠ [] ∧ c ≠ [46] ∧ c ≠ [46, 46] ∧ (47 : UInt8) ∉ c := by
  simp [goodComp, and_assoc]

/-- for non-empty, slash-free first component the tail of the rendering splits back -/
theorem splitSlash_render (c : Bytes) (cs : List Bytes) (h : ∀ d ∈ c :: cs, (47 : UInt8) ∉ d) :
    splitSlash (c ++ render cs) = c :: cs := by
  induction cs generalizing c with
  | nil => simpa using splitSlash_slashFree c (h c (by simp))
  | cons d cs ih =>
    rw [render_cons, splitSlash_append_slash _ _ (h c (by simp))]
    rw [ih d (fun e he => h e (List.mem_cons_of_mem _ he))]

theorem comps_render (c : Bytes) (cs : List Bytes) (hc : c ≠ []) (h : ∀ d ∈ c :: cs, (47 : UInt8) ∉ d) :
    comps (render (c :: cs)) = c :: cs := by
  rw [render_cons]
  have : c ++ render cs ≠ [] := by simp [hc]
  cases hh : c ++ render cs with
  | nil => exact absurd hh this
  | cons a b =>
    simp only [comps]
    rw [← hh]
    exact splitSlash_render c cs h

theorem comps_slash : comps [47] = [] := rfl

theorem canonical_slash : canonical [47] = true := by decide

theorem canonical_render (c : Bytes) (cs : List Bytes) (h : ∀ d ∈ c :: cs, goodComp d = true) :
    canonical (render (c :: cs)) = true := by
  have hs : ∀ d ∈ c :: cs, (47 : UInt8) ∉ d := fun d hd => ((goodComp_iff d).mp (h d hd)).2.2.2
  have hc : c ≠ [] := ((goodComp_iff c).mp (h c (by simp))).1
  unfold canonical
  rw [comps_render c cs hc hs]
  simp only [render_cons, List.head?_cons, beq_self_eq_true, Bool.true_and, List.all_eq_true]
  exact h

/-- a canonical path is `/` or the rendering of its (good) components -/
theorem canonical_cases (p : Bytes) (h : canonical p = true) :
    (p = [47] ∧ comps p = []) ∨
    (∃ c cs, comps p = c :: cs ∧ p = render (c :: cs) ∧ ∀ d ∈ c :: cs, goodComp d = true) := by
  unfold canonical at h
  simp only [Bool.and_eq_true, beq_iff_eq, List.all_eq_true] at h
  obtain ⟨hh, hg⟩ := h
  match p, hh, hg with
  | [x], hh, _ =>
    left
    simp at hh
    simp [hh, comps]
  | x :: y :: t, hh, hg =>
    right
    simp at hh
    subst hh
    have hc : comps (47 :: y :: t) = splitSlash (y :: t) := rfl
    have hne := splitSlash_ne_nil (y :: t)
    cases hs : splitSlash (y :: t) with
    | nil => exact absurd hs hne
    | cons c cs =>
      refine ⟨c, cs, by rw [hc, hs], ?_, ?_⟩
      · rw [← hs, render_splitSlash]
      · rw [hc, hs] at hg
        exact hg

/-! ### `splitSep` (model) is `splitSlash` (spec) -/

theorem splitSep_eq (t : Bytes) : splitSep t = splitSlash t := by
  induction t with
  | nil => simp [splitSep, splitSlash]
  | cons x t ih =>
    rw [splitSep, splitSlash, ih, gen_norm.2.2.1]
    by_cases hx : x = 47
    · simp [hx]
    · simp only [hx, if_false]
      cases splitSlash t <;> rfl

/-! ### the `normalize_path` loop -/

/-- the output buffer (reversed) for a stack of components (head = last written) -/
def rr : List Bytes → Bytes
  | [] => []
  | d :: st => d.reverse ++ 47 :: rr st

theorem rr_reverse (st : List Bytes) : (rr st).reverse = render st.reverse := by
  induction st with
  | nil => simp [rr]
  | cons d st ih => simp [rr, ih, render_append]

/-- shape of the (reversed) output buffer: either it ends with a separator after a stack of good
components (`/`, `/a/`, `/a/b/`), or it ends inside/after the last component (`/a`, `/a/b`). -/
inductive Inv : Bytes → Prop
  | slash (st : List Bytes) (hg : ∀ c ∈ st, goodComp c = true) : Inv (47 :: rr st)
  | inside (d : Bytes) (st : List Bytes) (hg : ∀ c ∈ d :: st, goodComp c = true) : Inv (rr (d :: st))

theorem backScan_to_slash (l r : Bytes) (hl : (47 : UInt8) ∉ l) (hr : r ≠ []) :
    backScan (l ++ 47 :: r) = r := by
  induction l with
  | nil =>
    cases r with
    | nil => exact absurd rfl hr
    | cons a b => simp [backScan, gen_norm.2.2.2.2.2.2.2.2.1]
  | cons x l ih =>
    have hx : x ≠ 47 := fun e => hl (by simp [e])
    have hl' : (47 : UInt8) ∉ l := fun m => hl (List.mem_cons_of_mem _ m)
    cases hlr : l ++ 47 :: r with
    | nil => simp at hlr
    | cons a b =>
      rw [List.cons_append, hlr, backScan]
      · simp only [gen_norm.2.2.2.2.2.2.2.2.1, hx, if_false]
        rw [← hlr]
        exact ih hl'
      · simp

theorem backScan_to_first (l : Bytes) (x : UInt8) (hl : (47 : UInt8) ∉ l) :
    backScan (l ++ [x]) = [x] := by
  induction l with
  | nil => simp [backScan]
  | cons y l ih =>
    have hy : y ≠ 47 := fun e => hl (by simp [e])
    have hl' : (47 : UInt8) ∉ l := fun m => hl (List.mem_cons_of_mem _ m)
    cases hlr : l ++ [x] with
    | nil => simp at hlr
    | cons a b =>
      rw [List.cons_append, hlr, backScan]
      · simp only [gen_norm.2.2.2.2.2.2.2.2.1, hy, if_false]
        rw [← hlr]
        exact ih hl'
      · simp

theorem good_slashFree {c : Bytes} (h : goodComp c = true) : (47 : UInt8) ∉ c := ((goodComp_iff c).mp h).2.2.2
theorem good_ne_nil {c : Bytes} (h : goodComp c = true) : c ≠ [] := ((goodComp_iff c).mp h).1

/-- scanning back from inside/after the last component `l` (already shortened or not) of a
stack lands on the buffer of the stack below, or on the lone leading `/` -/
theorem backScan_stack (l : Bytes) (st : List Bytes) (hl : (47 : UInt8) ∉ l)
    (hg : ∀ c ∈ st, goodComp c = true) : Inv (backScan (l ++ 47 :: rr st)) := by
  cases st with
  | nil =>
    have : l ++ 47 :: rr [] = l ++ [47] := by simp [rr]
    rw [this, backScan_to_first l 47 hl]
    exact Inv.slash [] (by simp)
  | cons e st' =>
    have hne : rr (e :: st') ≠ [] := by simp [rr]
    rw [backScan_to_slash l _ hl hne]
    exact Inv.inside e st' hg

theorem dotdot_inv (b : Bytes) (h : Inv b) : Inv (dotdot b) := by
  cases h with
  | slash st hg =>
    cases st with
    | nil => simpa [rr, dotdot] using Inv.slash [] (by simp)
    | cons d st' =>
      have hd := good_slashFree (hg d (by simp))
      have : dotdot (47 :: rr (d :: st')) = backScan (d.reverse ++ 47 :: rr st') := by
        simp only [rr]
        cases hh : d.reverse ++ 47 :: rr st' with
        | nil => simp at hh
        | cons a b => simp [dotdot]
      rw [this]
      exact backScan_stack d.reverse st' (by simpa using hd) (fun c hc => hg c (List.mem_cons_of_mem _ hc))
  | inside d st hg =>
    have hd := good_slashFree (hg d (by simp))
    have hdn := good_ne_nil (hg d (by simp))
    cases hr : d.reverse with
    | nil => simp at hr; exact absurd hr hdn
    | cons x l =>
      have hl : (47 : UInt8) ∉ l := by
        intro m
        have : (47 : UInt8) ∈ d.reverse := by rw [hr]; exact List.mem_cons_of_mem _ m
        exact hd (by simpa using this)
      have : dotdot (rr (d :: st)) = backScan (l ++ 47 :: rr st) := by
        simp only [rr, hr, List.cons_append]
        cases hh : l ++ 47 :: rr st with
        | nil => simp at hh
        | cons a b => simp [dotdot]
      rw [this]
      exact backScan_stack l st hl (fun c hc => hg c (List.mem_cons_of_mem _ hc))

theorem isSkip_iff (c : Bytes) : isSkip c = true ↔ c = [] ∨ c = [46] := by
  obtain ⟨_, _, _, h1, h2, _⟩ := gen_norm
  unfold isSkip
  rw [h1, h2]
  match c with
  | [] => simp
  | [a] => simp
  | a :: b :: r => simp

theorem isUp_iff (c : Bytes) : isUp c = true ↔ c = [46, 46] := by
  obtain ⟨_, _, _, _, _, h1, h2, h3, _⟩ := gen_norm
  unfold isUp
  rw [h1, h2, h3]
  match c with
  | [] => simp
  | [a] => simp
  | [a, b] => simp
  | a :: b :: e :: r => simp

theorem good_of_not_skip_up (c : Bytes) (hs : isSkip c = false) (hu : isUp c = false) (hf : (47 : UInt8) ∉ c) :
    goodComp c = true := by
  rw [goodComp_iff]
  have h1 : ¬ (c = [] ∨ c = [46]) := by rw [← isSkip_iff]; simp [hs]
  have h2 : ¬ c = [46, 46] := by rw [← isUp_iff]; simp [hu]
  exact ⟨fun e => h1 (Or.inl e), fun e => h1 (Or.inr e), h2, hf⟩

/-- gluing a further good piece onto a good component keeps it good (the `/a/b/../c = /ac` quirk) -/
theorem good_append (d c : Bytes) (hd : goodComp d = true) (hc : goodComp c = true) : goodComp (d ++ c) = true := by
  rw [goodComp_iff] at *
  obtain ⟨d1, d2, d3, d4⟩ := hd
  obtain ⟨c1, c2, c3, c4⟩ := hc
  refine ⟨by simp [d1], ?_, ?_, by simp [d4, c4]⟩
  · intro e
    match d, c, d1, c1, e with
    | [x], [], _, c1, _ => exact c1 rfl
    | x :: y :: r, [], _, c1, _ => exact c1 rfl
    | [x], y :: r, _, _, e => simp at e
    | x :: y :: r, z :: w, _, _, e => simp at e
  · intro e
    match d, c, d1, c1, d2, e with
    | [x], [y], _, _, d2, e =>
      simp at e
      exact d2 (by rw [e.1])
    | [x], [], _, c1, _, _ => exact c1 rfl
    | [x], y :: z :: r, _, _, _, e => simp at e
    | x :: y :: r, [], _, c1, _, _ => exact c1 rfl
    | x :: y :: r, z :: w, _, _, _, e => simp at e

theorem stepComp_inv (b comp : Bytes) (last : Bool) (h : Inv b) (hf : (47 : UInt8) ∉ comp) :
    Inv (stepComp b comp last) := by
  unfold stepComp
  by_cases hs : isSkip comp = true
  · simp [hs, h]
  · by_cases hu : isUp comp = true
    · simp [hs, hu, dotdot_inv b h]
    · simp only [hs, hu, Bool.false_eq_true, if_false]
      have hgc := good_of_not_skip_up comp (by simpa using hs) (by simpa using hu) hf
      cases h with
      | slash st hg =>
        have hst : ∀ c ∈ comp :: st, goodComp c = true := by
          intro c hc
          rcases List.mem_cons.mp hc with rfl | hc
          · exact hgc
          · exact hg c hc
        cases last with
        | true => simpa [rr] using Inv.inside comp st hst
        | false => simpa [rr, gen_norm.2.2.2.2.2.2.2.2.2.1] using Inv.slash (comp :: st) hst
      | inside d st hg =>
        have hst : ∀ c ∈ (d ++ comp) :: st, goodComp c = true := by
          intro c hc
          rcases List.mem_cons.mp hc with rfl | hc
          · exact good_append d comp (hg d (by simp)) hgc
          · exact hg c (List.mem_cons_of_mem _ hc)
        cases last with
        | true => simpa [rr] using Inv.inside (d ++ comp) st hst
        | false => simpa [rr, gen_norm.2.2.2.2.2.2.2.2.2.1] using Inv.slash ((d ++ comp) :: st) hst

theorem normLoop_inv (cs : List Bytes) (b : Bytes) (h : Inv b) (hf : ∀ c ∈ cs, (47 : UInt8) ∉ c) :
    Inv (normLoop b cs) := by
  induction cs generalizing b with
  | nil => simpa [normLoop] using h
  | cons c cs ih =>
    cases cs with
    | nil => simpa [normLoop] using stepComp_inv b c true h (hf c (by simp))
    | cons c2 cs2 =>
      rw [normLoop]
      · exact ih _ (stepComp_inv b c false h (hf c (by simp))) (fun e he => hf e (List.mem_cons_of_mem _ he))
      · simp

theorem finalTrim_inv (b : Bytes) (h : Inv b) :
    finalTrim b = [47] ∨ ∃ d st, (∀ c ∈ d :: st, goodComp c = true) ∧ finalTrim b = rr (d :: st) := by
  cases h with
  | slash st hg =>
    cases st with
    | nil => left; simp [rr, finalTrim]
    | cons d st' =>
      right
      refine ⟨d, st', hg, ?_⟩
      cases hh : rr (d :: st') with
      | nil => simp [rr] at hh
      | cons a r => simp [finalTrim, gen_norm.2.2.2.2.2.2.2.2.2.2]
  | inside d st hg =>
    right
    refine ⟨d, st, hg, ?_⟩
    have hd := good_slashFree (hg d (by simp))
    have hdn := good_ne_nil (hg d (by simp))
    cases hr : d.reverse with
    | nil => simp at hr; exact absurd hr hdn
    | cons x l =>
      have hx : x ≠ 47 := by
        intro e
        have : (47 : UInt8) ∈ d.reverse := by rw [hr, e]; simp
        exact hd (by simpa using this)
      simp only [rr, hr, List.cons_append]
      cases hh : l ++ 47 :: rr st with
      | nil => simp at hh
      | cons a r => simp [finalTrim, gen_norm.2.2.2.2.2.2.2.2.2.2, hx]

/-- `normalize` starts from a buffer holding the leading `/` and the pieces of the rest -/
theorem normalize_eq (p : Bytes) :
    ∃ t, (t = p.tail ∨ t = p) ∧ normalize p = (finalTrim (normLoop [47] (splitSlash t))).reverse := by
  obtain ⟨h0, h1, _⟩ := gen_norm
  unfold normalize
  rw [h0, h1]
  match p with
  | [] => exact ⟨[], by simp, by simp [splitSep_eq]⟩
  | x :: t =>
    by_cases hx : x = 47
    · subst hx
      exact ⟨t, by simp, by simp [splitSep_eq]⟩
    · exact ⟨x :: t, by simp, by simp [hx, splitSep_eq]⟩

/-- the normalised path is `/` or the rendering of a non-empty list of good components -/
theorem normalize_shape (p : Bytes) :
    normalize p = [47] ∨ ∃ c cs, (∀ d ∈ c :: cs, goodComp d = true) ∧ normalize p = render (c :: cs) := by
  obtain ⟨t, _, ht⟩ := normalize_eq p
  have hinv : Inv (normLoop [47] (splitSlash t)) :=
    normLoop_inv _ _ (by simpa [rr] using Inv.slash [] (by simp)) (splitSlash_pieces_slashFree t)
  rcases finalTrim_inv _ hinv with h | ⟨d, st, hg, h⟩
  · left; rw [ht, h]; rfl
  · right
    rw [ht, h, rr_reverse]
    have hne : (d :: st).reverse ≠ [] := by simp
    cases hr : (d :: st).reverse with
    | nil => exact absurd hr hne
    | cons c cs =>
      refine ⟨c, cs, ?_, rfl⟩
      intro e he
      have : e ∈ (d :: st).reverse := by rw [hr]; exact he
      exact hg e (by simpa [or_comm] using this)

/-! ### `is_file_prefix` -/

theorem gen_pfx : Gen.sep = 47 ∧ Gen.pfxEmptyLen = 0 ∧ Gen.pfxLastOff = 1 ∧
    (∀ a b, Gen.pfxTooLong a b = decide (a > b)) ∧ (∀ a b, Gen.pfxHasNext a b = decide (a > b)) :=
  ⟨rfl, rfl, rfl, fun _ _ => rfl, fun _ _ => rfl⟩

/-- what `is_file_prefix` computes, for arbitrary byte strings -/
theorem isFilePrefix_spec (p f : Bytes) :
    isFilePrefix p f = true ↔
      ∃ rest, f = p ++ rest ∧ (p = [] ∨ p.getLast? = some 47 ∨ rest = [] ∨ rest.head? = some 47) := by
  obtain ⟨h1, h2, h3, h4, h5⟩ := gen_pfx
  unfold isFilePrefix
  rw [h1, h2, h3, h4, h5]
  constructor
  · intro h
    by_cases hlen : p.length > f.length
    · simp [hlen] at h
    · simp only [hlen, decide_false, Bool.false_eq_true, if_false] at h
      by_cases htake : f.take p.length = p
      · have hsplit : f = p ++ f.drop p.length := by
          have := List.take_append_drop p.length f
          rw [htake] at this
          exact this.symm
        refine ⟨f.drop p.length, hsplit, ?_⟩
        by_cases hp : p = []
        · left; exact hp
        · by_cases hl : p.getLast? = some 47
          · right; left; exact hl
          · right; right
            have hl2 : ¬ p[p.length - 1]? = some 47 := by rw [← List.getLast?_eq_getElem?]; exact hl
            have hp2 : ¬ p.length = 0 := fun e => hp (List.length_eq_zero_iff.mp e)
            by_cases hmore : f.length > p.length
            · right
              rw [List.head?_drop]
              by_cases hn : f[p.length]? = some 47
              · exact hn
              · simp [htake, hp2, hl2, hmore] at h
                exact absurd (by rw [List.getElem?_eq_getElem hmore, h]) hn
            · left
              simp
              omega
      · simp [htake] at h
  · rintro ⟨rest, rfl, h⟩
    have hlen : ¬ p.length > (p ++ rest).length := by simp
    simp only [hlen, decide_false, Bool.false_eq_true, if_false, List.take_left', bne_self_eq_false]
    by_cases hp : p = []
    · simp [hp]
    · by_cases hl : p.getLast? = some 47
      · have hl2 : p[p.length - 1]? = some 47 := by rw [← List.getLast?_eq_getElem?]; exact hl
        simp [hl2]
      · have hl2 : ¬ p[p.length - 1]? = some 47 := by rw [← List.getLast?_eq_getElem?]; exact hl
        have hp2 : ¬ p.length = 0 := fun e => hp (List.length_eq_zero_iff.mp e)
        rcases h with h | h | h | h
        · exact absurd h hp
        · exact absurd h hl
        · subst h; simp [hp2, hl2]
        · cases rest with
          | nil => simp at h
          | cons a r =>
            simp at h
            subst h
            simp [hp2, hl2]

/-- bytes-level uniqueness of the split point between a slash-free piece and what follows -/
theorem slashFree_append_inj (c d x y : Bytes) (hc : (47 : UInt8) ∉ c) (hd : (47 : UInt8) ∉ d)
    (hx : x = [] ∨ x.head? = some 47) (hy : y = [] ∨ y.head? = some 47) (h : c ++ x = d ++ y) :
    c = d ∧ x = y := by
  induction c generalizing d with
  | nil =>
    cases d with
    | nil => simpa using h
    | cons b d =>
      exfalso
      simp only [List.nil_append, List.cons_append] at h
      rcases hx with hx | hx
      · simp [hx] at h
      · rw [h] at hx
        simp at hx
        exact hd (by simp [hx])
  | cons a c ih =>
    cases d with
    | nil =>
      exfalso
      simp only [List.nil_append, List.cons_append] at h
      rcases hy with hy | hy
      · simp [hy] at h
      · rw [← h] at hy
        simp at hy
        exact hc (by simp [hy])
    | cons b d =>
      simp only [List.cons_append, List.cons.injEq] at h
      obtain ⟨hab, h⟩ := h
      have := ih d (fun m => hc (List.mem_cons_of_mem _ m)) (fun m => hd (List.mem_cons_of_mem _ m)) h
      exact ⟨by rw [hab, this.1], this.2⟩

theorem render_head (cs : List Bytes) : render cs = [] ∨ (render cs).head? = some 47 := by
  cases cs with
  | nil => left; rfl
  | cons c cs => right; simp

/-- rendering is injective "up to a remainder that starts at a component boundary" -/
theorem render_prefix (P F : List Bytes) (rest : Bytes)
    (hP : ∀ c ∈ P, (47 : UInt8) ∉ c) (hF : ∀ c ∈ F, (47 : UInt8) ∉ c)
    (hr : rest = [] ∨ rest.head? = some 47) (h : render P ++ rest = render F) :
    P <+: F := by
  induction P generalizing F with
  | nil => exact List.nil_prefix
  | cons c P ih =>
    cases F with
    | nil => simp at h
    | cons d F =>
      simp only [render_cons, List.cons_append, List.cons.injEq, true_and, List.append_assoc] at h
      have hx : (render P ++ rest) = [] ∨ (render P ++ rest).head? = some 47 := by
        rcases render_head P with e | e
        · rw [e]; simpa using hr
        · right
          cases hrp : render P with
          | nil => rw [hrp] at e; simp at e
          | cons a b => rw [hrp] at e; simpa using e
      have := slashFree_append_inj c d _ _ (hP c (by simp)) (hF d (by simp)) hx (render_head F) h
      obtain ⟨rfl, h2⟩ := this
      have := ih F (fun e he => hP e (List.mem_cons_of_mem _ he)) (fun e he => hF e (List.mem_cons_of_mem _ he)) h2
      exact (List.cons_prefix_cons).mpr ⟨rfl, this⟩

theorem render_getLast (c : Bytes) (cs : List Bytes) (h : ∀ d ∈ c :: cs, goodComp d = true) :
    (render (c :: cs)).getLast? ≠ some 47 := by
  induction cs generalizing c with
  | nil =>
    have hc := good_slashFree (h c (by simp))
    have hn := good_ne_nil (h c (by simp))
    simp only [render_cons, render_nil, List.append_nil]
    intro e
    have hm := List.mem_of_getLast? e
    rcases List.mem_cons.mp hm with hm | hm
    · cases c with
      | nil => exact hn rfl
      | cons a r =>
        rw [List.getLast?_cons_cons] at e
        exact hc (List.mem_of_getLast? e)
    · exact hc hm
  | cons d cs ih =>
    have := ih d (fun e he => h e (List.mem_cons_of_mem _ he))
    rw [render_cons]
    intro e
    apply this
    rw [← e]
    have hne : render (d :: cs) ≠ [] := by simp
    rw [show (47 :: (c ++ render (d :: cs))) = (47 :: c) ++ render (d :: cs) by simp]
    rw [List.getLast?_append]
    cases hgl : (render (d :: cs)).getLast? with
    | none => exact absurd (List.getLast?_eq_none_iff.mp hgl) hne
    | some v => simp

/-! ### mode bits -/

theorem and_two_pow_ne_zero (m i : Nat) (h : m &&& 2 ^ i ≠ 0) : m / 2 ^ i % 2 = 1 := by
  by_cases hb : m.testBit i = true
  · rw [Nat.testBit_eq_decide_div_mod_eq] at hb
    simpa using hb
  · exfalso
    apply h
    apply Nat.eq_of_testBit_eq
    intro j
    simp only [Nat.testBit_and, Nat.zero_testBit, Nat.testBit_two_pow]
    by_cases hij : i = j
    · subst hij; simp [hb]
    · simp [hij]

theorem and_two_pow_eq_zero (m i : Nat) (h : m &&& 2 ^ i = 0) : m / 2 ^ i % 2 = 0 := by
  have : (m &&& 2 ^ i).testBit i = false := by rw [h]; simp
  simp only [Nat.testBit_and, Nat.testBit_two_pow, decide_true, Bool.and_true] at this
  rw [Nat.testBit_eq_decide_div_mod_eq] at this
  have := of_decide_eq_false this
  omega

/-! ### the remainder after an alias is a canonical path -/

/-- a slash-free piece is not split by a cut that is followed by `/` -/
theorem cut_after_piece (c x rest y : Bytes) (hc : (47 : UInt8) ∉ c) (hr : rest.head? = some 47)
    (h : x ++ rest = c ++ y) : ∃ x', x = c ++ x' := by
  induction c generalizing x with
  | nil => exact ⟨x, rfl⟩
  | cons a c ih =>
    cases x with
    | nil =>
      exfalso
      simp only [List.nil_append, List.cons_append] at h
      rw [h] at hr
      simp at hr
      exact hc (by simp [hr])
    | cons b x =>
      simp only [List.cons_append, List.cons.injEq] at h
      obtain ⟨rfl, h⟩ := h
      obtain ⟨x', rfl⟩ := ih x (fun m => hc (List.mem_cons_of_mem _ m)) h
      exact ⟨x', rfl⟩

/-- cutting a rendered path in front of a `/` leaves the rendering of a suffix of its components -/
theorem render_cut (N : List Bytes) (x rest : Bytes) (hN : ∀ c ∈ N, (47 : UInt8) ∉ c)
    (hr : rest.head? = some 47) (h : x ++ rest = render N) : ∃ G, G <:+ N ∧ rest = render G := by
  induction N generalizing x with
  | nil =>
    simp at h
    rw [h.2] at hr
    simp at hr
  | cons c N ih =>
    cases x with
    | nil => exact ⟨c :: N, List.suffix_refl _, by simpa using h⟩
    | cons b x =>
      simp only [render_cons, List.cons_append, List.cons.injEq] at h
      obtain ⟨_, h⟩ := h
      obtain ⟨x', rfl⟩ := cut_after_piece c x rest (render N) (hN c (by simp)) hr h
      rw [List.append_assoc] at h
      have h' := List.append_cancel_left h
      obtain ⟨G, hG, e⟩ := ih x' (fun e he => hN e (List.mem_cons_of_mem _ he)) h'
      exact ⟨G, List.suffix_cons_iff.mpr (Or.inr hG), e⟩

theorem canonical_of_cut (n x rest : Bytes) (hn : canonical n = true) (hr : rest.head? = some 47)
    (h : n = x ++ rest) : canonical rest = true := by
  rcases canonical_cases n hn with ⟨rfl, _⟩ | ⟨c, cs, _, rfl, hg⟩
  · cases x with
    | nil => simp at h; rw [← h]; exact canonical_slash
    | cons a x =>
      simp at h
      rw [h.2.2] at hr
      simp at hr
  · obtain ⟨G, hG, e⟩ := render_cut (c :: cs) x rest (fun d hd => good_slashFree (hg d hd)) hr h.symm
    cases G with
    | nil => rw [e] at hr; simp at hr
    | cons g gs =>
      rw [e]
      exact canonical_render g gs (fun d hd => hg d (hG.subset hd))

theorem gen_cidr : Gen.cidrEmptyRepl = [47] ∧ Gen.cidrLead = 47 ∧ Gen.inRootJoin = [47] ∧ Gen.indexJoin = [47] ∧
    Gen.redirEndCh = 47 ∧ Gen.redirSuffix = [47] := by decide

/-- where `pickRoot` takes its root from -/
theorem pickRoot_root (cfg : Config) (n : Bytes) :
    (pickRoot cfg n).1 = cfg.docRoot ∨ ∃ a ∈ cfg.aliases, (pickRoot cfg n).1 = a.2 := by
  unfold pickRoot
  cases h : cfg.aliases.find? (fun a => isFilePrefix a.1 n) with
  | none => left; rfl
  | some a => right; exact ⟨a, List.mem_of_find?_eq_some h, rfl⟩

/-- the remainder `pickRoot` hands on, once it passed the "starts with `/`" test, is canonical -/
theorem pickRoot_rest_canonical (cfg : Config) (n : Bytes) (hn : canonical n = true)
    (hl : (pickRoot cfg n).2.head? = some 47) : canonical (pickRoot cfg n).2 = true := by
  unfold pickRoot at hl ⊢
  cases h : cfg.aliases.find? (fun a => isFilePrefix a.1 n) with
  | none => simpa [h] using hn
  | some a =>
    simp only [h] at hl ⊢
    have hp := List.find?_some h
    obtain ⟨rest, hsplit, _⟩ := (isFilePrefix_spec a.1 n).mp hp
    have hd : n.drop a.1.length = rest := by rw [hsplit]; simp
    rw [hd] at hl ⊢
    by_cases he : rest.isEmpty = true
    · simp only [he, if_true, gen_cidr.1]; exact canonical_slash
    · simp only [he, Bool.false_eq_true, if_false] at hl ⊢
      exact canonical_of_cut n a.1 rest hn hl hsplit

/-- every byte of the remainder is a byte of the normalised path or `/` -/
theorem pickRoot_rest_bytes (cfg : Config) (n : Bytes) : ∀ b ∈ (pickRoot cfg n).2, b ∈ n ∨ b = 47 := by
  unfold pickRoot
  cases h : cfg.aliases.find? (fun a => isFilePrefix a.1 n) with
  | none => intro b hb; exact Or.inl hb
  | some a =>
    simp only
    intro b hb
    by_cases he : (n.drop a.1.length).isEmpty = true
    · simp only [he, if_true, gen_cidr.1] at hb
      right; simpa using hb
    · simp only [he, Bool.false_eq_true, if_false] at hb
      left; exact List.mem_of_mem_drop hb

theorem trimSep_canonical (root rest : Bytes) (h : canonical rest = true) :
    trimSep (root ++ rest) = root ++ (if rest = [47] then [] else rest) := by
  unfold trimSep
  rw [gen_pfx.1]
  rcases canonical_cases rest h with ⟨rfl, _⟩ | ⟨c, cs, _, rfl, hg⟩
  · simp
  · have hne : render (c :: cs) ≠ [] := by simp
    have hl := render_getLast c cs hg
    have : (root ++ render (c :: cs)).getLast? = (render (c :: cs)).getLast? := by
      rw [List.getLast?_append]
      cases hgl : (render (c :: cs)).getLast? with
      | none => exact absurd (List.getLast?_eq_none_iff.mp hgl) hne
      | some v => simp
    have hne2 : render (c :: cs) ≠ [47] := by
      intro e
      rw [e] at hl
      simp at hl
    have hl' : ¬ ((render (c :: cs)).getLast? == some 47) = true := by simpa using hl
    rw [this, if_neg hl', if_neg hne2]

/-! ### check_in_document_root -/

theorem cidr_some (fs : Fs) (cfg : Config) (f : Bytes) (real : Path)
    (h : checkInDocumentRoot fs cfg f = some real) :
    canonical (pickRoot cfg (normalize f)).2 = true ∧
    (if cfg.checkSymlinks then
        fs.realpath (cstr ((pickRoot cfg (normalize f)).1 ++ [47] ++ (pickRoot cfg (normalize f)).2)) = some real ∧
        isFilePrefix (pickRoot cfg (normalize f)).1 real = true
     else real = (pickRoot cfg (normalize f)).1 ++
        (if (pickRoot cfg (normalize f)).2 = [47] then [] else (pickRoot cfg (normalize f)).2)) := by
  unfold checkInDocumentRoot at h
  simp only [gen_cidr.2.1] at h
  by_cases he : (pickRoot cfg (normalize f)).2.isEmpty = true
  · simp [he] at h
  · simp only [he, Bool.false_eq_true, if_false] at h
    by_cases hl : (pickRoot cfg (normalize f)).2.head? = some 47
    · have hcan := pickRoot_rest_canonical cfg (normalize f) (by
        rcases normalize_shape f with e | ⟨c, cs, hg, e⟩
        · rw [e]; exact canonical_slash
        · rw [e]; exact canonical_render c cs hg) hl
      refine ⟨hcan, ?_⟩
      simp only [hl, bne_self_eq_false, Bool.false_eq_true, if_false] at h
      by_cases hs : cfg.checkSymlinks = true
      · simp only [hs, if_true] at h ⊢
        unfold isInRoot at h
        rw [gen_cidr.2.2.1] at h
        cases hr : fs.realpath (cstr ((pickRoot cfg (normalize f)).1 ++ [47] ++ (pickRoot cfg (normalize f)).2)) with
        | none => rw [hr] at h; simp at h
        | some r =>
          rw [hr] at h
          simp only at h
          by_cases hp : isFilePrefix (pickRoot cfg (normalize f)).1 r = true
          · simp only [hp, if_true, Option.some.injEq] at h
            subst h
            exact ⟨rfl, hp⟩
          · simp [hp] at h
      · simp only [hs, Bool.false_eq_true, if_false, Option.some.injEq] at h ⊢
        rw [← h, trimSep_canonical _ _ hcan]
    · simp [hl] at h

/-! ### main -/

theorem listDir_opened (fs : Fs) (url : Bytes) (p path : Path) (h : (listDir fs url p).opened = some path) : p = path := by
  unfold listDir at h
  cases hr : fs.readdir (cstr p) with
  | none => simp [hr, Outcome.opened] at h
  | some names => simpa [hr, Outcome.opened] using h

theorem serveFile_opened (fs : Fs) (p path : Path) (h : (serveFile fs p).opened = some path) : p = path := by
  unfold serveFile at h
  cases hr : fs.read (cstr p) with
  | none => simp [hr, Outcome.opened] at h
  | some c => simpa [hr, Outcome.opened] using h

theorem indexPath_some (fs : Fs) (cfg : Config) (f : Bytes) (p2 : Path) (h : indexPath fs cfg f = some p2) :
    checkInDocumentRoot fs cfg (f ++ [47] ++ cfg.indexFile) = some p2 ∧ fs.mode (cstr p2) &&& Gen.mainIndexMask ≠ 0 := by
  unfold indexPath at h
  rw [gen_cidr.2.2.2.1] at h
  cases hc : checkInDocumentRoot fs cfg (f ++ [47] ++ cfg.indexFile) with
  | none => rw [hc] at h; simp at h
  | some q =>
    rw [hc] at h
    simp only at h
    by_cases hm : fs.mode (cstr q) &&& Gen.mainIndexMask != 0
    · simp only [hm, if_true, Option.some.injEq] at h
      subst h
      exact ⟨rfl, by simpa using hm⟩
    · simp [hm] at h

/-- whatever `main` opens was accepted by `check_in_document_root`, for the request itself or
for request + "/" + index file -/
theorem main_opened (fs : Fs) (cfg : Config) (f : Bytes) (path : Path)
    (h : (main fs cfg f).opened = some path) :
    checkInDocumentRoot fs cfg f = some path ∨ checkInDocumentRoot fs cfg (f ++ [47] ++ cfg.indexFile) = some path := by
  unfold main at h
  cases hc : checkInDocumentRoot fs cfg f with
  | none => simp [hc, Outcome.opened] at h
  | some p =>
    simp only [hc] at h
    split at h
    · split at h
      · simp [Outcome.opened] at h
      · split at h
        · rename_i p2 hidx
          right
          have := (indexPath_some fs cfg f p2 hidx).1
          split at h
          · simp [Outcome.opened] at h
          · rw [this, serveFile_opened fs p2 path h]
        · left
          split at h
          · rw [listDir_opened fs f p path h]
          · simp [Outcome.opened] at h
    · split at h
      · simp [Outcome.opened] at h
      · left; rw [serveFile_opened fs p path h]

/-! ### escape (same facts as C15 proves for its copy of the table) -/

theorem escape_cons (c : UInt8) (s : Bytes) : escape (c :: s) = escapeByte c ++ escape s := by
  simp [escape]

theorem escapeByte_cases : ∀ c : UInt8,
    (c = 60 ∧ escapeByte c = [38,108,116,59]) ∨ (c = 62 ∧ escapeByte c = [38,103,116,59]) ∨
    (c = 38 ∧ escapeByte c = [38,97,109,112,59]) ∨ (c = 34 ∧ escapeByte c = [38,113,117,111,116,59]) ∨
    (c = 39 ∧ escapeByte c = [38,35,51,57,59]) ∨
    (c ≠ 60 ∧ c ≠ 62 ∧ c ≠ 38 ∧ c ≠ 34 ∧ c ≠ 39 ∧ escapeByte c = [c]) := by
  apply forall_uint8
  decide +kernel

theorem unescape_cons_ne (c : UInt8) (rest : Bytes) (h : c ≠ 38) :
    unescape (c :: rest) = c :: unescape rest := by
  conv => lhs; unfold unescape
  split <;> simp_all

theorem unescape_escapeByte_append (c : UInt8) (rest : Bytes) :
    unescape (escapeByte c ++ rest) = c :: unescape rest := by
  rcases escapeByte_cases c with ⟨h, e⟩ | ⟨h, e⟩ | ⟨h, e⟩ | ⟨h, e⟩ | ⟨h, e⟩ | ⟨_, _, h, _, _, e⟩
  all_goals (rw [e]; subst_vars)
  all_goals first
    | (simp [unescape]; done)
    | exact unescape_cons_ne _ _ h

theorem ampsOk_cons_ne (c : UInt8) (rest : Bytes) (h : c ≠ 38) : ampsOk (c :: rest) = ampsOk rest := by
  simp [ampsOk, h]

theorem ampsOk_escapeByte_append (c : UInt8) (rest : Bytes) :
    ampsOk (escapeByte c ++ rest) = ampsOk rest := by
  rcases escapeByte_cases c with ⟨h, e⟩ | ⟨h, e⟩ | ⟨h, e⟩ | ⟨h, e⟩ | ⟨h, e⟩ | ⟨_, _, h, _, _, e⟩
  all_goals (rw [e]; subst_vars)
  all_goals first
    | (simp [ampsOk, entities, List.isPrefixOf]; done)
    | exact ampsOk_cons_ne _ _ h

theorem noMarkup_escapeByte : ∀ c : UInt8, noMarkup (escapeByte c) = true := by
  apply forall_uint8
  decide +kernel

theorem noMarkup_append (a b : Bytes) : noMarkup (a ++ b) = (noMarkup a && noMarkup b) := by
  simp [noMarkup, List.all_append]

/-- escaped text followed by a harmless tail (`""` or `"/"`) is safe and un-escapes to the plain text -/
theorem escapedFor_escape_append (s tail : Bytes) (ht : noMarkup tail = true) (ha : ampsOk tail = true)
    (hu : unescape tail = tail) : escapedFor (s ++ tail) (escape s ++ tail) = true := by
  have h1 : ∀ s : Bytes, noMarkup (escape s ++ tail) = true := by
    intro s
    induction s with
    | nil => simpa [escape] using ht
    | cons c s ih => rw [escape_cons, List.append_assoc, noMarkup_append, noMarkup_escapeByte, ih]; rfl
  have h2 : ∀ s : Bytes, ampsOk (escape s ++ tail) = true := by
    intro s
    induction s with
    | nil => simpa [escape] using ha
    | cons c s ih => rw [escape_cons, List.append_assoc, ampsOk_escapeByte_append, ih]
  have h3 : ∀ s : Bytes, unescape (escape s ++ tail) = s ++ tail := by
    intro s
    induction s with
    | nil => simpa [escape] using hu
    | cons c s ih => rw [escape_cons, List.append_assoc, unescape_escapeByte_append, ih]; rfl
  simp [escapedFor, h1 s, h2 s, h3 s]

/-! ### list_dir -/

theorem gen_list : Gen.listSkipStr = [46] ∧ Gen.listSkipLen = 1 ∧ Gen.listJoin = [47] ∧ Gen.listDirAdd = [47] := by decide

theorem isDotFile_iff (name : Bytes) : isDotFile name = true ↔ name.head? = some 46 := by
  unfold isDotFile
  rw [gen_list.1, gen_list.2.1]
  cases name with
  | nil => simp
  | cons a r => simp

theorem listRow_some (fs : Fs) (path : Path) (name : Bytes) (r : Row) (h : listRow fs path name = some r) :
    r.name = name ∧ name.head? ≠ some 46 ∧ (r.add = [] ∨ r.add = [47]) := by
  unfold listRow at h
  by_cases hd : isDotFile name = true
  · simp [hd] at h
  · have hd' : name.head? ≠ some 46 := fun e => hd ((isDotFile_iff name).mpr e)
    simp only [hd, Bool.false_eq_true, if_false] at h
    split at h
    · simp at h
    · split at h
      · simp only [Option.some.injEq] at h
        subst h
        exact ⟨rfl, hd', Or.inr gen_list.2.2.2⟩
      · split at h
        · simp only [Option.some.injEq] at h
          subst h
          exact ⟨rfl, hd', Or.inl rfl⟩
        · simp at h

/-! ### normalisation invents no bytes -/

theorem backScan_subset (b : Bytes) : ∀ x ∈ backScan b, x ∈ b := by
  induction b with
  | nil => simp [backScan]
  | cons c rest ih =>
    cases rest with
    | nil => simp [backScan]
    | cons d r =>
      intro x hx
      rw [backScan] at hx
      · split at hx
        · exact List.mem_cons_of_mem _ hx
        · exact List.mem_cons_of_mem _ (ih x hx)
      · simp

theorem dotdot_subset (b : Bytes) : ∀ x ∈ dotdot b, x ∈ b := by
  match b with
  | [] => simp [dotdot]
  | [c] => simp [dotdot]
  | c :: d :: r =>
    intro x hx
    simp only [dotdot] at hx
    exact List.mem_cons_of_mem _ (backScan_subset _ x hx)

theorem stepComp_subset (b comp : Bytes) (last : Bool) :
    ∀ x ∈ stepComp b comp last, x ∈ b ∨ x ∈ comp ∨ x = 47 := by
  intro x hx
  unfold stepComp at hx
  split at hx
  · exact Or.inl hx
  · split at hx
    · exact Or.inl (dotdot_subset b x hx)
    · simp only [List.append_assoc, List.mem_append, List.mem_reverse] at hx
      rcases hx with hx | hx | hx
      · right; right
        cases last <;> simp [gen_norm.2.2.2.2.2.2.2.2.2.1] at hx
        exact hx
      · exact Or.inr (Or.inl hx)
      · exact Or.inl hx

theorem normLoop_subset (cs : List Bytes) (b : Bytes) :
    ∀ x ∈ normLoop b cs, x ∈ b ∨ (∃ c ∈ cs, x ∈ c) ∨ x = 47 := by
  induction cs generalizing b with
  | nil => intro x hx; exact Or.inl (by simpa [normLoop] using hx)
  | cons c cs ih =>
    intro x hx
    cases cs with
    | nil =>
      simp only [normLoop] at hx
      rcases stepComp_subset b c true x hx with h | h | h
      · exact Or.inl h
      · exact Or.inr (Or.inl ⟨c, by simp, h⟩)
      · exact Or.inr (Or.inr h)
    | cons c2 cs2 =>
      rw [normLoop] at hx
      · rcases ih _ x hx with h | ⟨e, he, h⟩ | h
        · rcases stepComp_subset b c false x h with h | h | h
          · exact Or.inl h
          · exact Or.inr (Or.inl ⟨c, by simp, h⟩)
          · exact Or.inr (Or.inr h)
        · exact Or.inr (Or.inl ⟨e, List.mem_cons_of_mem _ he, h⟩)
        · exact Or.inr (Or.inr h)
      · simp

theorem finalTrim_subset (b : Bytes) : ∀ x ∈ finalTrim b, x ∈ b := by
  intro x hx
  unfold finalTrim at hx
  split at hx
  · split at hx
    · exact List.mem_cons_of_mem _ hx
    · exact hx
  · exact hx

theorem normalize_bytes (p : Bytes) : ∀ x ∈ normalize p, x ∈ p ∨ x = 47 := by
  intro x hx
  obtain ⟨t, ht, e⟩ := normalize_eq p
  rw [e, List.mem_reverse] at hx
  have ht' : ∀ y ∈ t, y ∈ p := by
    rcases ht with rfl | rfl
    · intro y hy; exact List.mem_of_mem_tail hy
    · intro y hy; exact hy
  rcases normLoop_subset _ _ x (finalTrim_subset _ x hx) with h | ⟨c, hc, h⟩ | h
  · right; simpa using h
  · left; exact ht' x (splitSlash_pieces_subset t c hc x h)
  · exact Or.inr h

theorem cstr_of_nul_free (p : Bytes) (h : (0 : UInt8) ∉ p) : cstr p = p := by
  unfold cstr
  induction p with
  | nil => rfl
  | cons a p ih =>
    have ha : a ≠ 0 := fun e => h (by simp [e])
    rw [List.takeWhile_cons_of_pos (by simpa using ha), ih (fun m => h (List.mem_cons_of_mem _ m))]

theorem cstr_nul_free (p : Bytes) : (0 : UInt8) ∉ cstr p := by
  unfold cstr
  intro h
  have hall := List.all_takeWhile (l := p) (p := fun x => x != 0)
  rw [List.all_eq_true] at hall
  have := hall 0 h
  simp at this

/-! ### outcomes of main -/

theorem gen_masks : Gen.mainDirMask = 2 ^ 14 ∧ Gen.mainIndexMask = 2 ^ 15 ∧ Gen.mainRegMask = 2 ^ 15 ∧
    Gen.listDirMask = 2 ^ 14 ∧ Gen.listRegMask = 2 ^ 15 := by decide

theorem serveFile_serve (fs : Fs) (p path : Path) (c : Bytes) (h : serveFile fs p = .serve path c) :
    p = path ∧ fs.read (cstr path) = some c := by
  unfold serveFile at h
  cases hr : fs.read (cstr p) with
  | none => simp [hr] at h
  | some d =>
    simp only [hr, Outcome.serve.injEq] at h
    obtain ⟨rfl, rfl⟩ := h
    exact ⟨rfl, hr⟩

theorem listDir_not_serve (fs : Fs) (u : Bytes) (p path : Path) (c : Bytes) : listDir fs u p ≠ .serve path c := by
  unfold listDir
  cases fs.readdir (cstr p) <;> simp

theorem serveFile_not_listing (fs : Fs) (p : Path) (u : Bytes) (q : Path) (rows : List Row) :
    serveFile fs p ≠ .listing u q rows := by
  unfold serveFile
  cases fs.read (cstr p) <;> simp

theorem serveFile_not_redirect (fs : Fs) (p : Path) (loc : Bytes) : serveFile fs p ≠ .redirect loc := by
  unfold serveFile
  cases fs.read (cstr p) <;> simp

theorem listDir_not_redirect (fs : Fs) (u : Bytes) (p : Path) (loc : Bytes) : listDir fs u p ≠ .redirect loc := by
  unfold listDir
  cases fs.readdir (cstr p) <;> simp

/-- a streamed file passed the `S_IFREG` bit test and is what reading it returned -/
theorem main_serve (fs : Fs) (cfg : Config) (f : Bytes) (path : Path) (c : Bytes)
    (h : main fs cfg f = .serve path c) :
    fs.mode (cstr path) &&& 2 ^ 15 ≠ 0 ∧ fs.read (cstr path) = some c := by
  obtain ⟨_, hi, hr, _⟩ := gen_masks
  unfold main at h
  cases hc : checkInDocumentRoot fs cfg f with
  | none => simp [hc] at h
  | some p =>
    simp only [hc] at h
    split at h
    · split at h
      · simp at h
      · split at h
        · rename_i p2 hidx
          split at h
          · simp at h
          · rename_i hm
            obtain ⟨rfl, hread⟩ := serveFile_serve fs p2 path c h
            rw [hr] at hm
            exact ⟨by simpa using hm, hread⟩
        · split at h
          · exact absurd h (listDir_not_serve fs f p path c)
          · simp at h
    · split at h
      · simp at h
      · rename_i hm
        obtain ⟨rfl, hread⟩ := serveFile_serve fs p path c h
        rw [hr] at hm
        exact ⟨by simpa using hm, hread⟩

theorem main_listing (fs : Fs) (cfg : Config) (f u : Bytes) (path : Path) (rows : List Row)
    (h : main fs cfg f = .listing u path rows) :
    cfg.listing = true ∧ u = f ∧
    ∃ names, fs.readdir (cstr path) = some names ∧ rows = names.filterMap (listRow fs path) := by
  unfold main at h
  cases hc : checkInDocumentRoot fs cfg f with
  | none => simp [hc] at h
  | some p =>
    simp only [hc] at h
    split at h
    · split at h
      · simp at h
      · split at h
        · split at h
          · simp at h
          · exact absurd h (serveFile_not_listing fs _ u path rows)
        · split at h
          · rename_i hl
            unfold listDir at h
            cases hr : fs.readdir (cstr p) with
            | none => simp [hr] at h
            | some names =>
              simp only [hr, Outcome.listing.injEq] at h
              obtain ⟨rfl, rfl, rfl⟩ := h
              exact ⟨hl, rfl, names, hr, rfl⟩
          · simp at h
    · split at h
      · simp at h
      · exact absurd h (serveFile_not_listing fs _ u path rows)

theorem main_redirect (fs : Fs) (cfg : Config) (f loc : Bytes) (h : main fs cfg f = .redirect loc) :
    loc = f ++ [47] ∧ f ≠ [] ∧ f.getLast? ≠ some 47 ∧
    (∃ p, checkInDocumentRoot fs cfg f = some p ∧ fs.mode (cstr p) &&& 2 ^ 14 ≠ 0) ∧
    ((indexPath fs cfg f).isSome = true ∨ cfg.listing = true) := by
  obtain ⟨hd, _⟩ := gen_masks
  obtain ⟨_, _, _, _, he, hsuf⟩ := gen_cidr
  unfold main at h
  cases hc : checkInDocumentRoot fs cfg f with
  | none => simp [hc] at h
  | some p =>
    simp only [hc] at h
    split at h
    · rename_i hdir
      split at h
      · rename_i hcond
        simp only [Outcome.redirect.injEq] at h
        rw [hsuf] at h
        rw [he] at hcond
        simp only [Bool.and_eq_true, Bool.not_eq_true', bne_iff_ne, ne_eq, Bool.or_eq_true] at hcond
        obtain ⟨⟨h1, h2⟩, h3⟩ := hcond
        rw [hd] at hdir
        exact ⟨h.symm, by simpa using h1, h2, ⟨p, rfl, by simpa using hdir⟩, h3⟩
      · split at h
        · split at h
          · simp at h
          · exact absurd h (serveFile_not_redirect fs _ loc)
        · split at h
          · exact absurd h (listDir_not_redirect fs f p loc)
          · simp at h
    · split at h
      · simp at h
      · exact absurd h (serveFile_not_redirect fs _ loc)

/-! ### canonical paths are fixed points of normalisation -/

theorem stepComp_good (b c : Bytes) (last : Bool) (hc : goodComp c = true) :
    stepComp b c last = (if last then [] else [47]) ++ c.reverse ++ b := by
  obtain ⟨h1, h2, h3, _⟩ := (goodComp_iff c).mp hc
  have hs : isSkip c = false := by
    cases h : isSkip c with
    | false => rfl
    | true => rcases (isSkip_iff c).mp h with e | e <;> contradiction
  have hu : isUp c = false := by
    cases h : isUp c with
    | false => rfl
    | true => exact absurd ((isUp_iff c).mp h) h3
  unfold stepComp
  simp [hs, hu, gen_norm.2.2.2.2.2.2.2.2.2.1]

theorem normLoop_good (cs : List Bytes) (c : Bytes) (st : List Bytes) (hg : ∀ d ∈ c :: cs, goodComp d = true) :
    normLoop (47 :: rr st) (c :: cs) = rr ((c :: cs).reverse ++ st) := by
  induction cs generalizing c st with
  | nil =>
    simp only [normLoop, List.reverse_cons, List.reverse_nil, List.nil_append, List.singleton_append]
    rw [stepComp_good _ _ _ (hg c (by simp))]
    simp [rr]
  | cons c2 cs ih =>
    rw [normLoop]
    · rw [stepComp_good _ _ _ (hg c (by simp))]
      have : ([] ++ [47] ++ c.reverse ++ 47 :: rr st : Bytes) = 47 :: rr (c :: st) := by simp [rr]
      simp only [Bool.false_eq_true, if_false]
      rw [show ([47] ++ c.reverse ++ 47 :: rr st : Bytes) = 47 :: rr (c :: st) by simp [rr]]
      rw [ih c2 (c :: st) (fun d hd => hg d (List.mem_cons_of_mem _ hd))]
      simp
    · simp

theorem finalTrim_inside (d : Bytes) (st : List Bytes) (hg : goodComp d = true) :
    finalTrim (rr (d :: st)) = rr (d :: st) := by
  have hd := good_slashFree hg
  have hdn := good_ne_nil hg
  cases hr : d.reverse with
  | nil => simp at hr; exact absurd hr hdn
  | cons x l =>
    have hx : x ≠ 47 := by
      intro e
      have : (47 : UInt8) ∈ d.reverse := by rw [hr, e]; simp
      exact hd (by simpa using this)
    simp only [rr, hr, List.cons_append]
    cases hh : l ++ 47 :: rr st with
    | nil => simp at hh
    | cons a r => simp [finalTrim, gen_norm.2.2.2.2.2.2.2.2.2.2, hx]

theorem normalize_render (c : Bytes) (cs : List Bytes) (hg : ∀ d ∈ c :: cs, goodComp d = true) :
    normalize (render (c :: cs)) = render (c :: cs) := by
  obtain ⟨h0, h1, _⟩ := gen_norm
  have hsf : ∀ d ∈ c :: cs, (47 : UInt8) ∉ d := fun d hd => good_slashFree (hg d hd)
  unfold normalize
  rw [h0, h1]
  simp only [render_cons, List.isEmpty_cons, List.head?_cons, bne_self_eq_false, Bool.or_self, Bool.false_eq_true, if_false]
  rw [splitSep_eq, splitSlash_render c cs hsf]
  have := normLoop_good cs c [] hg
  simp only [rr] at this
  rw [this]
  have hne : (c :: cs).reverse ++ [] ≠ [] := by simp
  cases hrev : (c :: cs).reverse ++ [] with
  | nil => exact absurd hrev hne
  | cons d st =>
    have hgd : goodComp d = true := by
      apply hg
      have : d ∈ (c :: cs).reverse ++ [] := by rw [hrev]; simp
      simpa [or_comm] using this
    rw [finalTrim_inside d st hgd, ← hrev, rr_reverse]
    simp

/-! ### requests without `..`: normalisation just drops empty and `.` pieces -/

def keepPiece (c : Bytes) : Bool := c != [] && c != [46]

theorem isSkip_eq_not_keep (c : Bytes) : isSkip c = !keepPiece c := by
  unfold keepPiece
  cases h : isSkip c with
  | true => rcases (isSkip_iff c).mp h with e | e <;> simp [e]
  | false =>
    have : ¬ (c = [] ∨ c = [46]) := by rw [← isSkip_iff]; simp [h]
    simp only [not_or] at this
    simp [this.1, this.2]

/-- the loop on pieces none of which is `..`, started after a separator -/
theorem normLoop_noUp (pieces : List Bytes) (st : List Bytes) (hne : pieces ≠ [])
    (hsf : ∀ c ∈ pieces, (47 : UInt8) ∉ c) (hnu : ∀ c ∈ pieces, c ≠ [46, 46]) :
    normLoop (47 :: rr st) pieces = 47 :: rr ((pieces.filter keepPiece).reverse ++ st) ∨
    (normLoop (47 :: rr st) pieces = rr ((pieces.filter keepPiece).reverse ++ st) ∧ pieces.filter keepPiece ≠ []) := by
  induction pieces generalizing st with
  | nil => exact absurd rfl hne
  | cons c rest ih =>
    have hup : isUp c = false := by
      cases h : isUp c with
      | false => rfl
      | true => exact absurd ((isUp_iff c).mp h) (hnu c (by simp))
    by_cases hk : keepPiece c = true
    · have hgood : goodComp c = true :=
        good_of_not_skip_up c (by rw [isSkip_eq_not_keep, hk]; rfl) hup (hsf c (by simp))
      cases rest with
      | nil =>
        right
        simp only [normLoop, List.filter_cons, hk, if_true, List.filter_nil, List.reverse_cons, List.reverse_nil,
          List.nil_append, List.singleton_append]
        rw [stepComp_good _ _ _ hgood]
        simp [rr]
      | cons c2 rest2 =>
        rw [normLoop]
        · rw [stepComp_good _ _ _ hgood]
          simp only [Bool.false_eq_true, if_false]
          rw [show ([47] ++ c.reverse ++ 47 :: rr st : Bytes) = 47 :: rr (c :: st) by simp [rr]]
          have := ih (c :: st) (by simp) (fun e he => hsf e (List.mem_cons_of_mem _ he)) (fun e he => hnu e (List.mem_cons_of_mem _ he))
          simp only [List.filter_cons (x := c), hk, if_true, List.reverse_cons, List.append_assoc, List.singleton_append]
          rcases this with h | ⟨h, _⟩
          · left; exact h
          · right; exact ⟨h, by simp⟩
        · simp
    · have hskip : isSkip c = true := by rw [isSkip_eq_not_keep]; simp [hk]
      have hstep : ∀ last, stepComp (47 :: rr st) c last = 47 :: rr st := by
        intro last; unfold stepComp; simp [hskip]
      cases rest with
      | nil =>
        left
        simp only [normLoop, hstep, List.filter_cons, hk, Bool.false_eq_true, if_false, List.filter_nil, List.reverse_nil, List.nil_append]
      | cons c2 rest2 =>
        rw [normLoop]
        · rw [hstep]
          have := ih st (by simp) (fun e he => hsf e (List.mem_cons_of_mem _ he)) (fun e he => hnu e (List.mem_cons_of_mem _ he))
          simp only [List.filter_cons (x := c), hk, Bool.false_eq_true, if_false]
          exact this
        · simp

theorem finalTrim_slash (st : List Bytes) (hg : ∀ c ∈ st, goodComp c = true) :
    finalTrim (47 :: rr st) = if st = [] then [47] else rr st := by
  cases st with
  | nil => simp [rr, finalTrim]
  | cons d st' =>
    cases hh : rr (d :: st') with
    | nil => simp [rr] at hh
    | cons a r => simp [finalTrim, gen_norm.2.2.2.2.2.2.2.2.2.2]

/-- the part of the request the loop walks over: everything after the leading `/` (added if missing) -/
def afterLead (p : Bytes) : Bytes :=
  match p with
  | 47 :: t => t
  | p => p

theorem normalize_eq' (p : Bytes) :
    normalize p = (finalTrim (normLoop [47] (splitSlash (afterLead p)))).reverse := by
  obtain ⟨h0, h1, _⟩ := gen_norm
  unfold normalize
  rw [h0, h1]
  match p with
  | [] => simp [splitSep_eq, afterLead]
  | x :: t =>
    by_cases hx : x = 47
    · subst hx; simp [splitSep_eq, afterLead]
    · have : afterLead (x :: t) = x :: t := by
        unfold afterLead
        split
        · rename_i heq; simp at heq; exact absurd heq.1 hx
        · rfl
      simp [hx, splitSep_eq, this]

theorem normalize_noUp (p : Bytes) (hnu : ∀ c ∈ splitSlash (afterLead p), c ≠ [46, 46]) :
    comps (normalize p) = (splitSlash (afterLead p)).filter keepPiece := by
  have hsf := splitSlash_pieces_slashFree (afterLead p)
  have hne := splitSlash_ne_nil (afterLead p)
  have hgood : ∀ c ∈ ((splitSlash (afterLead p)).filter keepPiece).reverse ++ [], goodComp c = true := by
    intro c hc
    simp only [List.append_nil, List.mem_reverse, List.mem_filter] at hc
    have hup : isUp c = false := by
      cases h : isUp c with
      | false => rfl
      | true => exact absurd ((isUp_iff c).mp h) (hnu c hc.1)
    exact good_of_not_skip_up c (by rw [isSkip_eq_not_keep, hc.2]; rfl) hup (hsf c hc.1)
  have hshape : finalTrim (normLoop [47] (splitSlash (afterLead p))) =
      if ((splitSlash (afterLead p)).filter keepPiece).reverse ++ [] = [] then [47]
      else rr (((splitSlash (afterLead p)).filter keepPiece).reverse ++ []) := by
    have h := normLoop_noUp (splitSlash (afterLead p)) [] hne hsf hnu
    simp only [rr] at h
    rcases h with h | ⟨h, hne2⟩
    · rw [h, finalTrim_slash _ hgood]
    · rw [h]
      have hne3 : ((splitSlash (afterLead p)).filter keepPiece).reverse ++ [] ≠ [] := by simpa using hne2
      rw [if_neg hne3]
      cases hrev : ((splitSlash (afterLead p)).filter keepPiece).reverse ++ [] with
      | nil => exact absurd hrev hne3
      | cons d st => exact finalTrim_inside d st (hgood d (by rw [hrev]; simp))
  rw [normalize_eq', hshape]
  cases hg : (splitSlash (afterLead p)).filter keepPiece with
  | nil => simp [comps]
  | cons c cs =>
    have hne3 : (c :: cs).reverse ++ [] ≠ [] := by simp
    rw [if_neg hne3, rr_reverse]
    simp only [List.append_nil, List.reverse_reverse]
    have hg2 : ∀ d ∈ c :: cs, goodComp d = true := by
      intro d hd
      apply hgood
      rw [hg]; simpa [or_comm] using hd
    exact comps_render c cs (good_ne_nil (hg2 c (by simp))) (fun d hd => good_slashFree (hg2 d hd))

/-! ### the href column: urlencode inside a single-quoted attribute -/

theorem urlencodeByte_attrSafe : ∀ c : UInt8, attrSafe (urlencodeByte c) = true := by
  apply forall_uint8
  decide +kernel

theorem attrSafe_append (a b : Bytes) : attrSafe (a ++ b) = (attrSafe a && attrSafe b) := by
  simp [attrSafe, List.all_append]

theorem attrSafe_urlencode (s : Bytes) : attrSafe (urlencode s) = true := by
  induction s with
  | nil => rfl
  | cons c s ih =>
    have : urlencode (c :: s) = urlencodeByte c ++ urlencode s := by simp [urlencode]
    rw [this, attrSafe_append, urlencodeByte_attrSafe, ih]; rfl

theorem attrSafe_no_quote (s : Bytes) (h : attrSafe s = true) : ∀ c ∈ s, (c != 39) = true := by
  intro c hc
  unfold attrSafe at h
  rw [List.all_eq_true] at h
  have := h c hc
  simp only [Bool.and_eq_true] at this
  exact this.1.1.1.1

theorem takeWhile_stop (h rest : Bytes) (hq : ∀ c ∈ h, (c != 39) = true) :
    (h ++ 39 :: rest).takeWhile (· != 39) = h := by
  induction h with
  | nil => simp
  | cons a h ih =>
    have ha := hq a (by simp)
    rw [List.cons_append, List.takeWhile_cons]
    simp only [ha, if_true]
    rw [ih (fun c hc => hq c (List.mem_cons_of_mem _ hc))]

/-- an anchor built the way `list_dir` builds it is read back as (href, text) by an HTML parser,
provided the href contains no `'` -/
theorem parseAnchor_build (href text : Bytes) (hq : ∀ c ∈ href, (c != 39) = true) :
    parseAnchor (anchorOpen ++ href ++ anchorMid ++ text ++ anchorClose) = some (href, text) := by
  unfold parseAnchor
  have h1 : anchorOpen.isPrefixOf (anchorOpen ++ href ++ anchorMid ++ text ++ anchorClose) = true := by
    rw [List.isPrefixOf_iff_prefix]
    exact ⟨href ++ anchorMid ++ text ++ anchorClose, by simp⟩
  have h2 : (anchorOpen ++ href ++ anchorMid ++ text ++ anchorClose).drop anchorOpen.length
      = href ++ 39 :: (62 :: (text ++ anchorClose)) := by
    simp [anchorMid]
  rw [if_pos h1]
  simp only [h2]
  rw [takeWhile_stop href _ hq]
  have h3 : (href ++ 39 :: 62 :: (text ++ anchorClose)).drop href.length = anchorMid ++ (text ++ anchorClose) := by
    simp [anchorMid]
  rw [h3]
  have h4 : anchorMid.isPrefixOf (anchorMid ++ (text ++ anchorClose)) = true := by
    rw [List.isPrefixOf_iff_prefix]; exact ⟨_, rfl⟩
  rw [if_pos h4]
  have h5 : (anchorMid ++ (text ++ anchorClose)).drop anchorMid.length = text ++ anchorClose := by simp
  simp only [h5]
  have h6 : (text ++ anchorClose).length - anchorClose.length = text.length := by simp
  rw [h6]
  simp

theorem Row.anchor_eq (r : Row) : r.anchor = anchorOpen ++ r.href ++ anchorMid ++ r.text ++ anchorClose := rfl

end Cppcms.C13
