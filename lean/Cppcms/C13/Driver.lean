import Cppcms.Common
import Cppcms.C13.Model
import Cppcms.C13.Spec
/-! Line-protocol driver for C13.  `norm`/`prefix`/`cfg`/`cidr`/`req` lines evaluate the model
(the file system is the table of libc answers recorded by the harness and shipped in the line);
`J` lines evaluate the property predicates of `Spec.lean` on outputs of the implementation. -/
open Cppcms Cppcms.C13

structure Table where
  r : List (Bytes × Option Bytes) := []
  s : List (Bytes × Nat) := []
  d : List (Bytes × Option (List Bytes)) := []
  f : List (Bytes × Option Bytes) := []

/-- The recorded answers as an `Fs`.  A query the harness did not record gets a default; `alt`
selects a second, contradictory set of defaults so that the driver can tell whether a missing
answer mattered (the two runs then differ and the line is answered `MISS`). -/
def Table.toFs (t : Table) (alt : Bool) : Fs where
  realpath q := match t.r.lookup q with
    | some v => v
    | none => if alt then some [47] else none
  mode q := match t.s.lookup q with
    | some v => v
    | none => if alt then 49152 else 0
  readdir q := match t.d.lookup q with
    | some v => v
    | none => if alt then some [] else none
  read q := match t.f.lookup q with
    | some v => v
    | none => if alt then some [77, 73, 83, 83] else none

def optHex (s : String) : Option (Option Bytes) :=
  if s == "!" then some none else (parseHex s).map some

def parseEntry (t : Table) (tok : String) : Option Table :=
  match tok.splitOn "=" with
  | [k, v] =>
    match k.splitOn ":" with
    | ["R", q] => do let q ← parseHex q; let v ← optHex v; pure { t with r := (q, v) :: t.r }
    | ["S", q] => do let q ← parseHex q; let v ← v.toNat?; pure { t with s := (q, v) :: t.s }
    | ["F", q] => do let q ← parseHex q; let v ← optHex v; pure { t with f := (q, v) :: t.f }
    | ["D", q] => do
      let q ← parseHex q
      if v == "!" then pure { t with d := (q, none) :: t.d }
      else if v == "." then pure { t with d := (q, some []) :: t.d }
      else
        let names ← (v.splitOn ",").mapM parseHex
        pure { t with d := (q, some names) :: t.d }
    | _ => none
  | _ => none

def parseTable (toks : List String) : Option Table :=
  toks.foldlM (fun t tok => if tok == "-" then some t else parseEntry t tok) {}

def parseAliases (s : String) : Option (List (Bytes × Bytes)) :=
  if s == "-" then some []
  else (s.splitOn ",").mapM fun item =>
    match item.splitOn ":" with
    | [u, t] => do let u ← parseHex u; let t ← parseHex t; pure (u, t)
    | _ => none

def showOutcome : Outcome → String
  | .notFound => "404"
  | .redirect loc => "redirect " ++ toHex loc
  | .serve _ c => "file " ++ toHex c
  | .listing url _ rows =>
    "list " ++ toHex (escape url) ++ (if url != [47] && !url.isEmpty then " P" else " N")
      ++ String.join (rows.map fun r => " " ++ toHex r.anchor)

def showCidr : Option Path → String
  | none => "none"
  | some p => "ok " ++ toHex p

/-- run `f` against both default sets; answer `MISS` when a missing table entry matters -/
def withTable (toks : List String) (f : Fs → String) : String :=
  match parseTable toks with
  | none => "bad-table"
  | some t =>
    let a := f (t.toFs false)
    let b := f (t.toFs true)
    if a == b then a else "MISS " ++ a ++ " | " ++ b

def splitHexList (s : String) : Option (List Bytes) :=
  if s == "-" then some [] else (s.splitOn ",").mapM parseHex

/-- state of the driver: no configuration yet / the constructor refused it / an instance -/
inductive St where
  | none | refused | some (c : Config)

def step (cfg : St) (line : String) : St × String :=
  match words line with
  | ["norm", h] => (cfg, match parseHex h with | some s => toHex (normalize s) | none => "bad-op")
  | ["prefix", p, f] => (cfg, match parseHex p, parseHex f with
      | some p, some f => boolStr (isFilePrefix p f) | _, _ => "bad-op")
  | ["pathinfo", t] => (cfg, match parseHex t with | some t => toHex (pathInfoOfTarget t) | none => "bad-op")
  | "cfg" :: sym :: list :: _async :: root :: al :: idx :: toks =>
    match parseHex root, parseAliases al, parseHex idx, parseTable toks with
    | some root, some al, some idx, some t =>
      -- the harness hands the constructor every alias url with a "/" appended (which the constructor strips)
      let raw : RawConfig := { docRoot := root, aliases := al.map (fun a => (a.1 ++ [47], a.2)),
                               checkSymlinks := sym == "1", listing := list == "1", indexFile := idx }
      let a := construct (t.toFs false) raw
      let b := construct (t.toFs true) raw
      match a, b with
      | some c, some c' => if c.docRoot == c'.docRoot && c.aliases == c'.aliases then (.some c, "ok") else (cfg, "MISS cfg")
      | none, none => (.refused, "refused")
      | _, _ => (cfg, "MISS cfg")
    | _, _, _, _ => (cfg, "bad-op")
  | "cidr" :: h :: toks =>
    match cfg, parseHex h with
    | .some c, some f => (cfg, withTable toks fun fs => showCidr (checkInDocumentRoot fs c f))
    | .refused, some _ => (cfg, "refused")
    | .none, _ => (cfg, "no-config")
    | _, _ => (cfg, "bad-op")
  | "req" :: h :: toks =>
    match cfg, parseHex h with
    | .some c, some t => (cfg, withTable toks fun fs => showOutcome (main fs c (pathInfoOfTarget t)))
    | .refused, some _ => (cfg, "closed")      -- no application instance: the connection is closed without a reply
    | .none, _ => (cfg, "no-config")
    | _, _ => (cfg, "bad-op")
  -- judges: property predicates (Spec) on what the implementation returned
  | ["J", "norm", o] => (cfg, match parseHex o with | some o => boolStr (Spec.canonical o) | none => "bad-op")
  | ["J", "prefix", p, f, r] => (cfg, match parseHex p, parseHex f with
      | some p, some f =>
        if Spec.canonical p && Spec.canonical f then boolStr ((r == "1") == Spec.compPrefix p f) else "1"
      | _, _ => "bad-op")
  | ["J", "inside", roots, real] => (cfg, match splitHexList roots, parseHex real with
      | some roots, some real => boolStr (roots.any fun root => Spec.inside root real)
      | _, _ => "bad-op")
  | ["J", "lexical", roots, real] => (cfg, match splitHexList roots, parseHex real with
      | some roots, some real =>
        boolStr (roots.any fun root =>
          let rest := real.drop root.length
          root.isPrefixOf real && (rest.isEmpty || rest.head? == some 47) && Spec.noDotDot rest)
      | _, _ => "bad-op")
  | ["J", "row", names, raw] => (cfg, match splitHexList names, parseHex raw with
      | some names, some raw => boolStr (Spec.rowOk names raw)
      | _, _ => "bad-op")
  | ["J", "escaped", plain, text] => (cfg, match parseHex plain, parseHex text with
      | some plain, some text => boolStr (Spec.escapedFor plain text)
      | _, _ => "bad-op")
  | _ => (cfg, "bad-op")

def main : IO Unit := lineLoop St.none step
