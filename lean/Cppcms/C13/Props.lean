import Cppcms.C13.Model
import Cppcms.C13.Spec
namespace Cppcms.C13.Props
end Cppcms.C13.Props
