import Cppcms.C13.Lemmas
/-!
# C13 — property theorems

"The built-in file server never serves anything outside its document roots."
The model (`Model.lean`) transcribes `src/internal_file_server.cpp` from `PATH_INFO` on, with
every constant it compares against regenerated from the source (`Gen.lean`); the file system
is the parameter `Fs`.  Statements are for all byte strings / all file systems obeying the
stated laws.
-/
namespace Cppcms.C13.Props
open Cppcms Cppcms.C13 Cppcms.C13.Spec

/-- **normalize_never_climbs.**  For every input byte string (including NUL, non-UTF-8, no
leading slash, empty) the lexically normalised path is absolute and none of its components is
empty, `.` or `..`: no `..` survives, so appending it to a root cannot climb above the root.
(The code's quirk `normalize "/a/b/../c" = "/ac"` is covered: glued components are still
proper names.) -/
theorem normalize_never_climbs (p : Bytes) : canonical (normalize p) = true := by
  rcases normalize_shape p with h | ⟨c, cs, hg, h⟩
  · rw [h]; exact canonical_slash
  · rw [h]; exact canonical_render c cs hg

/-- **normalize_fixes_canonical.**  The other half of "lexical normalisation is right": a request
that is already canonical is left untouched, so the safety above is not bought by mangling
well-formed paths (a `normalize` that always answered `/` would also "never climb"). -/
theorem normalize_fixes_canonical (p : Bytes) (h : canonical p = true) : normalize p = p := by
  rcases canonical_cases p h with ⟨rfl, _⟩ | ⟨c, cs, _, rfl, hg⟩
  · decide +kernel
  · exact normalize_render c cs hg

/-- **normalize_resolves_dots_and_slashes.**  For a request without a `..` piece, normalisation is
exactly "drop the empty pieces (repeated/trailing slashes) and the `.` pieces": the components of
the result are the remaining pieces, in order.  (With `..` the code glues the next piece onto the
component before the removed one — `/a/b/../c` ↦ `/ac` — which `normalize_never_climbs` covers.) -/
theorem normalize_resolves_dots_and_slashes (p : Bytes)
    (h : ∀ c ∈ splitSlash (afterLead p), c ≠ [46, 46]) :
    comps (normalize p) = (splitSlash (afterLead p)).filter (fun c => c != [] && c != [46]) :=
  normalize_noUp p h

/-- normalisation is idempotent -/
theorem normalize_idempotent (p : Bytes) : normalize (normalize p) = normalize p :=
  normalize_fixes_canonical _ (normalize_never_climbs p)

/-- **is_file_prefix_iff_component_prefix.**  On canonical paths the string test the code uses
is exactly the component-wise prefix relation: `/al` is a prefix of `/al` and `/al/x`, never of
`/alX`. -/
theorem is_file_prefix_iff_component_prefix (p f : Bytes) (hp : canonical p = true) (hf : canonical f = true) :
    isFilePrefix p f = compPrefix p f := by
  have key : isFilePrefix p f = true ↔ comps p <+: comps f := by
    rw [isFilePrefix_spec]
    rcases canonical_cases p hp with ⟨rfl, hP⟩ | ⟨c, cs, hP, rfl, hg⟩
    · rw [hP]
      constructor
      · intro _; exact List.nil_prefix
      · intro _
        have : f.head? = some 47 := by
          unfold canonical at hf
          simp only [Bool.and_eq_true, beq_iff_eq] at hf
          exact hf.1
        cases f with
        | nil => simp at this
        | cons a t =>
          simp at this
          subst this
          exact ⟨t, rfl, Or.inr (Or.inl rfl)⟩
    · rw [hP]
      have hsc : ∀ d ∈ c :: cs, (47 : UInt8) ∉ d := fun d hd => good_slashFree (hg d hd)
      rcases canonical_cases f hf with ⟨rfl, hF⟩ | ⟨d, ds, hF, rfl, hgf⟩
      · rw [hF]
        constructor
        · rintro ⟨rest, h, _⟩
          exfalso
          simp only [render_cons, List.cons_append, List.cons.injEq, true_and] at h
          have : c = [] := by
            have := congrArg List.length h
            simp at this
            exact List.length_eq_zero_iff.mp (by omega)
          exact good_ne_nil (hg c (by simp)) this
        · intro h
          simp at h
      · rw [hF]
        have hsf : ∀ e ∈ d :: ds, (47 : UInt8) ∉ e := fun e he => good_slashFree (hgf e he)
        constructor
        · rintro ⟨rest, h, hcase⟩
          have hr : rest = [] ∨ rest.head? = some 47 := by
            rcases hcase with h1 | h1 | h1 | h1
            · simp at h1
            · exact absurd h1 (render_getLast c cs hg)
            · exact Or.inl h1
            · exact Or.inr h1
          exact render_prefix (c :: cs) (d :: ds) rest hsc hsf hr h.symm
        · rintro ⟨G, hG⟩
          refine ⟨render G, by rw [← hG, render_append], ?_⟩
          rcases render_head G with e | e
          · exact Or.inr (Or.inr (Or.inl e))
          · exact Or.inr (Or.inr (Or.inr e))
  unfold compPrefix
  rw [Bool.eq_iff_iff, key, List.isPrefixOf_iff_prefix]

/-- **alias_choice_component_wise.**  For a canonical (normalised) request `n` and alias urls that
are canonical and not `/` (what a sane configuration gives the constructor), the alias loop picks
the *first alias whose url is a component-wise prefix of `n`*, hands on its target as root and a
canonical remainder whose components are exactly the rest of `n`'s; with no such alias it is the
document root and `n` itself. -/
theorem alias_choice_component_wise (cfg : Config) (n : Bytes) (hn : canonical n = true)
    (hal : ∀ a ∈ cfg.aliases, canonical a.1 = true ∧ a.1 ≠ [47]) :
    match cfg.aliases.find? (fun a => compPrefix a.1 n) with
    | some a => (pickRoot cfg n).1 = a.2 ∧ canonical (pickRoot cfg n).2 = true ∧
                comps n = comps a.1 ++ comps (pickRoot cfg n).2
    | none => pickRoot cfg n = (cfg.docRoot, n) := by
  have hfind : cfg.aliases.find? (fun a => isFilePrefix a.1 n) = cfg.aliases.find? (fun a => compPrefix a.1 n) := by
    have : ∀ l : List (Path × Path), (∀ a ∈ l, canonical a.1 = true) →
        l.find? (fun a => isFilePrefix a.1 n) = l.find? (fun a => compPrefix a.1 n) := by
      intro l hl
      induction l with
      | nil => rfl
      | cons a l ih =>
        simp only [List.find?_cons]
        rw [is_file_prefix_iff_component_prefix a.1 n (hl a (by simp)) hn, ih (fun b hb => hl b (List.mem_cons_of_mem _ hb))]
    exact this cfg.aliases (fun a ha => (hal a ha).1)
  cases hf : cfg.aliases.find? (fun a => compPrefix a.1 n) with
  | none =>
    simp only
    unfold pickRoot
    rw [hfind, hf]
  | some a =>
    simp only
    have ha := List.mem_of_find?_eq_some hf
    have hpa : compPrefix a.1 n = true := by
      have := List.find?_some hf
      exact this
    have hp : isFilePrefix a.1 n = true := by rw [is_file_prefix_iff_component_prefix a.1 n (hal a ha).1 hn]; exact hpa
    obtain ⟨rest, hsplit, _⟩ := (isFilePrefix_spec a.1 n).mp hp
    have hpick : pickRoot cfg n = (a.2, if (n.drop a.1.length).isEmpty then Gen.cidrEmptyRepl else n.drop a.1.length) := by
      unfold pickRoot
      rw [hfind, hf]
    have hd : n.drop a.1.length = rest := by rw [hsplit]; simp
    rw [hpick, hd, gen_cidr.1]
    simp only
    unfold compPrefix at hpa
    obtain ⟨G, hG⟩ := List.isPrefixOf_iff_prefix.mp hpa
    by_cases he : rest = []
    · subst he
      simp only [List.isEmpty_nil, if_true]
      refine ⟨trivial, canonical_slash, ?_⟩
      simp at hsplit
      rw [hsplit, comps_slash]; simp
    · have hie : rest.isEmpty = false := by simpa using he
      simp only [hie, Bool.false_eq_true, if_false, true_and]
      rcases canonical_cases a.1 (hal a ha).1 with ⟨ha1, _⟩ | ⟨c, cs, hA, ha1, hgA⟩
      · exact absurd ha1 (hal a ha).2
      · rw [hA] at hG
        rcases canonical_cases n hn with ⟨_, hN⟩ | ⟨d, ds, hN, hn1, hgN⟩
        · rw [hN] at hG; simp at hG
        · rw [hN] at hG
          have hr : rest = render G := by
            have : render (c :: cs) ++ rest = render (c :: cs) ++ render G := by
              rw [← render_append, hG, ← hn1, ← ha1]; exact hsplit.symm
            exact List.append_cancel_left this
          cases G with
          | nil => rw [hr] at he; simp at he
          | cons g gs =>
            have hgG : ∀ e ∈ g :: gs, goodComp e = true := by
              intro e hm
              apply hgN
              rw [← hG]
              exact List.mem_append_right _ hm
            rw [hr]
            refine ⟨canonical_render g gs hgG, ?_⟩
            rw [comps_render g gs (good_ne_nil (hgG g (by simp))) (fun e hm => good_slashFree (hgG e hm)), hN, hA, hG]

/-- what `main` handed to `open` (file streamed) or `opendir` (directory listed), if anything -/
abbrev openedPath (fs : Fs) (cfg : Config) (f : Bytes) : Option Path := (main fs cfg f).opened

/-- POSIX law for the external `realpath`: every answer is an absolute path without empty, `.`
or `..` components and without trailing slash, and (being a C string) contains no NUL -/
def RealpathLaw (fs : Fs) : Prop := ∀ q r, fs.realpath q = some r → canonical r = true ∧ (0 : UInt8) ∉ r

/-- the roots stored by the constructor are `realpath` answers -/
def RootsCanonical (cfg : Config) : Prop :=
  canonical cfg.docRoot = true ∧ ∀ a ∈ cfg.aliases, canonical a.2 = true

/-- **constructor_establishes_roots.**  If the constructor accepts a configuration, every root it
stores is a `realpath` answer: the hypotheses `RootsCanonical` and "roots are NUL-free" of the
theorems below are what the constructor guarantees, not extra assumptions about the configuration. -/
theorem constructor_establishes_roots (fs : Fs) (raw : RawConfig) (cfg : Config) (hfs : RealpathLaw fs)
    (h : construct fs raw = some cfg) :
    RootsCanonical cfg ∧ ((0 : UInt8) ∉ cfg.docRoot ∧ ∀ a ∈ cfg.aliases, (0 : UInt8) ∉ a.2) := by
  have hal : ∀ (l : List (Path × Path)) (al : List (Path × Path)), constructAliases fs l = some al →
      ∀ a ∈ al, canonical a.2 = true ∧ (0 : UInt8) ∉ a.2 := by
    intro l
    induction l with
    | nil => intro al h a ha; simp [constructAliases] at h; subst h; simp at ha
    | cons x rest ih =>
      intro al h a ha
      obtain ⟨url, p⟩ := x
      unfold constructAliases at h
      split at h
      · simp at h
      · split at h
        · simp at h
        · rename_i cp hcp
          split at h
          · simp at h
          · rename_i l' hl'
            simp only [Option.some.injEq] at h
            subst h
            rcases List.mem_cons.mp ha with rfl | ha
            · exact hfs _ _ hcp
            · exact ih l' hl' a ha
  unfold construct at h
  split at h
  · simp at h
  · rename_i root hroot
    split at h
    · simp at h
    · rename_i al hal'
      simp only [Option.some.injEq] at h
      subst h
      exact ⟨⟨(hfs _ _ hroot).1, fun a ha => (hal _ al hal' a ha).1⟩, (hfs _ _ hroot).2, fun a ha => (hal _ al hal' a ha).2⟩

/-- **constructor_refuses_unresolvable_alias.**  An alias whose target `realpath` cannot resolve (a
missing directory) makes the constructor throw: no instance exists, so nothing is served — in
particular the alias is never registered with an empty root (for which `is_file_prefix("",x)`
would hold for every `x`). -/
theorem constructor_refuses_unresolvable_alias (fs : Fs) (raw : RawConfig)
    (h : ∃ a ∈ raw.aliases, fs.realpath (cstr a.2) = none) : construct fs raw = none := by
  have hal : ∀ l : List (Path × Path), (∃ a ∈ l, fs.realpath (cstr a.2) = none) → constructAliases fs l = none := by
    intro l
    induction l with
    | nil => intro ⟨a, ha, _⟩; simp at ha
    | cons x rest ih =>
      intro ⟨a, ha, hnone⟩
      obtain ⟨url, p⟩ := x
      unfold constructAliases
      split
      · rfl
      · rcases List.mem_cons.mp ha with rfl | ha
        · simp only at hnone
          rw [hnone]
        · split
          · rfl
          · rw [ih ⟨a, ha, hnone⟩]
  unfold construct
  split
  · rfl
  · rw [hal raw.aliases h]

/-- **served_inside_root** (symlink checking on).  Whenever `main` streams a file or lists a
directory — for the request itself or for request + `/` + index file — the path it opens is the
answer `realpath` gave for `root ++ "/" ++ rest`, where `(root, rest)` is what the alias loop chose
for the normalised request (`alias_choice_component_wise` says which), `rest` is canonical, and
the opened path lies inside `root` component-wise (`Spec.inside`), i.e. after all symbolic
links were followed; it contains no NUL, so the kernel is handed exactly this path. -/
theorem served_inside_root_symlinks (fs : Fs) (cfg : Config) (f : Bytes) (path : Path)
    (hfs : RealpathLaw fs) (hroots : RootsCanonical cfg) (hs : cfg.checkSymlinks = true)
    (h : openedPath fs cfg f = some path) :
    ∃ req, (req = f ∨ req = f ++ [47] ++ cfg.indexFile) ∧
      canonical (pickRoot cfg (normalize req)).2 = true ∧
      fs.realpath (cstr ((pickRoot cfg (normalize req)).1 ++ [47] ++ (pickRoot cfg (normalize req)).2)) = some path ∧
      inside (pickRoot cfg (normalize req)).1 path = true ∧ cstr path = path := by
  have key : ∀ req, checkInDocumentRoot fs cfg req = some path →
      canonical (pickRoot cfg (normalize req)).2 = true ∧
      fs.realpath (cstr ((pickRoot cfg (normalize req)).1 ++ [47] ++ (pickRoot cfg (normalize req)).2)) = some path ∧
      inside (pickRoot cfg (normalize req)).1 path = true ∧ cstr path = path := by
    intro req hc
    obtain ⟨hcan, hrest⟩ := cidr_some fs cfg req path hc
    simp only [hs, if_true] at hrest
    obtain ⟨hreal, hpre⟩ := hrest
    refine ⟨hcan, hreal, ?_⟩
    show inside (pickRoot cfg (normalize req)).1 path = true ∧ cstr path = path
    have hrootc : canonical (pickRoot cfg (normalize req)).1 = true := by
      rcases pickRoot_root cfg (normalize req) with e | ⟨a, ha, e⟩
      · rw [e]; exact hroots.1
      · rw [e]; exact hroots.2 a ha
    have hpathc := (hfs _ _ hreal).1
    refine ⟨?_, cstr_of_nul_free path (hfs _ _ hreal).2⟩
    unfold inside
    rw [hrootc, hpathc, ← is_file_prefix_iff_component_prefix _ _ hrootc hpathc, hpre]
    rfl
  rcases main_opened fs cfg f path h with hc | hc
  · exact ⟨f, Or.inl rfl, key f hc⟩
  · exact ⟨_, Or.inr rfl, key _ hc⟩

/-- **served_inside_root** (symlink checking off): the check is purely lexical.  Whatever `main`
opens is, as a `std::string`, `root ++ rest` for the chosen root and a canonical `rest` (in
particular free of `..`; a lone `/` is dropped). -/
theorem served_lexical_no_symlink_check (fs : Fs) (cfg : Config) (f : Bytes) (path : Path)
    (hs : cfg.checkSymlinks = false) (h : openedPath fs cfg f = some path) :
    ∃ req, (req = f ∨ req = f ++ [47] ++ cfg.indexFile) ∧
      canonical (pickRoot cfg (normalize req)).2 = true ∧
      path = (pickRoot cfg (normalize req)).1 ++
        (if (pickRoot cfg (normalize req)).2 = [47] then [] else (pickRoot cfg (normalize req)).2) := by
  have key : ∀ req, checkInDocumentRoot fs cfg req = some path →
      canonical (pickRoot cfg (normalize req)).2 = true ∧
      path = (pickRoot cfg (normalize req)).1 ++
        (if (pickRoot cfg (normalize req)).2 = [47] then [] else (pickRoot cfg (normalize req)).2) := by
    intro req hc
    obtain ⟨hcan, hrest⟩ := cidr_some fs cfg req path hc
    simp only [hs, Bool.false_eq_true, if_false] at hrest
    exact ⟨hcan, hrest⟩
  rcases main_opened fs cfg f path h with hc | hc
  · exact ⟨f, Or.inl rfl, key f hc⟩
  · exact ⟨_, Or.inr rfl, key _ hc⟩

/-- **normalize_bytes_from_input.**  Normalisation invents no bytes: every byte of the result is a
byte of the input or `/`.  In particular a NUL-free request stays NUL-free. -/
theorem normalize_bytes_from_input (p : Bytes) : ∀ x ∈ normalize p, x ∈ p ∨ x = 47 :=
  normalize_bytes p

/-- **served_lexical_cstring.**  Symlink checking off, and `PATH_INFO`, the index file name and the
roots free of NUL (they are C strings in every deployment): the `std::string` that `main` opens
contains no NUL, so the C string the kernel receives is the whole `root ++ rest` of
`served_lexical_no_symlink_check`, not a truncation of it. -/
theorem served_lexical_cstring (fs : Fs) (cfg : Config) (f : Bytes) (path : Path)
    (hs : cfg.checkSymlinks = false) (h : openedPath fs cfg f = some path)
    (hf : (0 : UInt8) ∉ f) (hi : (0 : UInt8) ∉ cfg.indexFile)
    (hr : (0 : UInt8) ∉ cfg.docRoot ∧ ∀ a ∈ cfg.aliases, (0 : UInt8) ∉ a.2) :
    (0 : UInt8) ∉ path ∧ cstr path = path := by
  obtain ⟨req, hreq, _, hp⟩ := served_lexical_no_symlink_check fs cfg f path hs h
  have hreq0 : (0 : UInt8) ∉ req := by
    rcases hreq with rfl | rfl
    · exact hf
    · simp [hf, hi]
  have hroot0 : (0 : UInt8) ∉ (pickRoot cfg (normalize req)).1 := by
    rcases pickRoot_root cfg (normalize req) with e | ⟨a, ha, e⟩
    · rw [e]; exact hr.1
    · rw [e]; exact hr.2 a ha
  have hrest0 : (0 : UInt8) ∉ (pickRoot cfg (normalize req)).2 := by
    intro m
    rcases pickRoot_rest_bytes cfg (normalize req) 0 m with m | m
    · rcases normalize_bytes req 0 m with m | m
      · exact hreq0 m
      · simp at m
    · simp at m
  have h0 : (0 : UInt8) ∉ path := by
    rw [hp]
    intro m
    rcases List.mem_append.mp m with m | m
    · exact hroot0 m
    · split at m
      · simp at m
      · exact hrest0 m
  exact ⟨h0, cstr_of_nul_free path h0⟩

/-- **path_info_nul_free.**  Whatever the request target, the `PATH_INFO` the HTTP front end hands to
the file server contains no NUL (it is stored as a C string): the hypothesis of
`served_lexical_cstring` holds for every request that arrives over HTTP. -/
theorem path_info_nul_free (target : Bytes) : (0 : UInt8) ∉ pathInfoOfTarget target :=
  cstr_nul_free _

/-- **http_request_confined.**  The two confinement theorems composed with the HTTP glue, for every
request target (any bytes, any percent-encoding): with symlink checking on, what is opened is a
`realpath` answer inside the chosen root; with it off, the kernel is handed `root ++ rest` with
`rest` canonical — no NUL-freeness assumption on the request is left. -/
theorem http_request_confined (fs : Fs) (cfg : Config) (target : Bytes) (path : Path)
    (hfs : RealpathLaw fs) (hroots : RootsCanonical cfg)
    (hi : (0 : UInt8) ∉ cfg.indexFile) (hr : (0 : UInt8) ∉ cfg.docRoot ∧ ∀ a ∈ cfg.aliases, (0 : UInt8) ∉ a.2)
    (h : openedPath fs cfg (pathInfoOfTarget target) = some path) :
    cstr path = path ∧
    ∃ req, (req = pathInfoOfTarget target ∨ req = pathInfoOfTarget target ++ [47] ++ cfg.indexFile) ∧
      canonical (pickRoot cfg (normalize req)).2 = true ∧
      (if cfg.checkSymlinks then
         fs.realpath (cstr ((pickRoot cfg (normalize req)).1 ++ [47] ++ (pickRoot cfg (normalize req)).2)) = some path ∧
         inside (pickRoot cfg (normalize req)).1 path = true
       else
         path = (pickRoot cfg (normalize req)).1 ++
           (if (pickRoot cfg (normalize req)).2 = [47] then [] else (pickRoot cfg (normalize req)).2)) := by
  by_cases hs : cfg.checkSymlinks = true
  · obtain ⟨req, hreq, hc, hreal, hin, hcs⟩ := served_inside_root_symlinks fs cfg _ path hfs hroots hs h
    exact ⟨hcs, req, hreq, hc, by simp only [hs, if_true]; exact ⟨hreal, hin⟩⟩
  · have hs' : cfg.checkSymlinks = false := by simpa using hs
    obtain ⟨req, hreq, hc, hp⟩ := served_lexical_no_symlink_check fs cfg _ path hs' h
    have := served_lexical_cstring fs cfg _ path hs' h (path_info_nul_free target) hi hr
    exact ⟨this.2, req, hreq, hc, by simp only [hs', Bool.false_eq_true, if_false]; exact hp⟩

/-- the file system of the witness below: `/r` and `/r/..` are directories, `/r/..` holds `secret` -/
def witnessFs : Fs where
  realpath _ := none
  mode q := if q = [47, 114] ∨ q = [47, 114, 47, 46, 46] then 16877
            else if q = [47, 114, 47, 46, 46, 47, 115] then 33188 else 0
  readdir q := if q = [47, 114, 47, 46, 46] then some [[46], [46, 46], [115]] else none
  read _ := none

/-- **nul_truncation_needs_hypothesis.**  Why `served_lexical_cstring` assumes NUL-freeness: called
with `file_name = "/..\0"`, symlink checking off and listing on, `main` lists the directory
`"/r/..\0"`, which the kernel reads as `/r/..` — the parent of the document root.  This is a fact
about the function `main`, not about the server: no front end can deliver a NUL inside
`PATH_INFO` (`path_info_nul_free`). -/
theorem nul_truncation_needs_hypothesis :
    let cfg : Config := { docRoot := [47, 114], aliases := [], checkSymlinks := false, listing := true }
    main witnessFs cfg [47, 46, 46, 0, 47] = .listing [47, 46, 46, 0, 47] [47, 114, 47, 46, 46, 0] [⟨[115], [47]⟩] ∧
    noDotDot (cstr [47, 114, 47, 46, 46, 0]) = false := by
  decide +kernel

/-- **only_regular_files_streamed.**  If `main` streams `content` from `path` then `stat(path)` had
the `S_IFREG` bit (mask `0100000`) and `content` is what opening and reading `path` gave. -/
theorem only_regular_files_streamed (fs : Fs) (cfg : Config) (f : Bytes) (path : Path) (content : Bytes)
    (h : main fs cfg f = .serve path content) :
    fs.mode (cstr path) &&& 0o100000 ≠ 0 ∧ fs.read (cstr path) = some content :=
  main_serve fs cfg f path content h

/-- POSIX laws for the externals `stat` and `open`: the type field of `st_mode` is one of the seven
file types minus `S_IFLNK` (stat follows links; 0 = stat failed), and a socket cannot be opened -/
def StatLaw (fs : Fs) : Prop :=
  (∀ q, ftype (fs.mode q) ∈ statTypes) ∧ (∀ q, ftype (fs.mode q) = ftSock → fs.read q = none)

/-- **only_regular_files_streamed_posix.**  The code tests the file type with `&` (so a socket,
`0140000`, passes `& S_IFREG`); under the POSIX laws above what is actually streamed is still a
regular file. -/
theorem only_regular_files_streamed_posix (fs : Fs) (cfg : Config) (f : Bytes) (path : Path) (content : Bytes)
    (hlaw : StatLaw fs) (h : main fs cfg f = .serve path content) :
    ftype (fs.mode (cstr path)) = ftReg := by
  obtain ⟨hbit, hread⟩ := main_serve fs cfg f path content h
  have hb := and_two_pow_ne_zero _ 15 hbit
  have ht := hlaw.1 (cstr path)
  have hs := hlaw.2 (cstr path)
  unfold ftype ftReg ftSock statTypes at *
  simp only [List.mem_cons, List.not_mem_nil, or_false] at ht
  rcases ht with e | e | e | e | e | e | e
  all_goals first
    | omega
    | (exfalso; rw [hs e] at hread; simp at hread)

/-- **listing_only_when_enabled.** -/
theorem listing_only_when_enabled (fs : Fs) (cfg : Config) (f url : Bytes) (path : Path) (rows : List Row)
    (h : main fs cfg f = .listing url path rows) : cfg.listing = true :=
  (main_listing fs cfg f url path rows h).1

/-- **listing_skips_dotfiles_and_escapes.**  The page is titled with the HTML-escaped request path;
every row is an entry `readdir` returned for the directory opened, its name does not start with
`.`, and its visible text is safe markup-wise (`Spec.escapedFor`: no `< > " '`, every `&` starts a
character reference) and un-escapes to the name, plus `/` for directories. -/
theorem listing_skips_dotfiles_and_escapes (fs : Fs) (cfg : Config) (f url : Bytes) (path : Path) (rows : List Row)
    (h : main fs cfg f = .listing url path rows) :
    url = f ∧ escapedFor url (escape url) = true ∧
    ∃ names, fs.readdir (cstr path) = some names ∧
      ∀ r ∈ rows, r.name ∈ names ∧ r.name.head? ≠ some 46 ∧ (r.add = [] ∨ r.add = [47]) ∧
        escapedFor (r.name ++ r.add) r.text = true := by
  obtain ⟨_, hu, names, hrd, hrows⟩ := main_listing fs cfg f url path rows h
  refine ⟨hu, ?_, names, hrd, ?_⟩
  · simpa using escapedFor_escape_append url [] (by decide) (by decide) (by decide)
  · intro r hr
    rw [hrows, List.mem_filterMap] at hr
    obtain ⟨name, hn, hrow⟩ := hr
    obtain ⟨h1, h2, h3⟩ := listRow_some fs path name r hrow
    refine ⟨by rw [h1]; exact hn, by rw [h1]; exact h2, h3, ?_⟩
    unfold Row.text
    rcases h3 with e | e
    · rw [e]; exact escapedFor_escape_append r.name [] (by decide) (by decide) (by decide)
    · rw [e]; exact escapedFor_escape_append r.name [47] (by decide) (by decide) (by decide)

/-- **listing_href_attribute_safe.**  The link target of every row — `util::urlencode(name)` plus `/`
for directories, over the byte classes extracted from `urlencode_impl` — is safe inside the
single-quoted `href='…'` the code puts it in: it contains none of `' " < > &`, so no entry name can
end the attribute early or open markup.  Consequently the whole anchor the code writes is read back
by an HTML parser as exactly (href, text) (`Spec.parseAnchor`), and the row satisfies the judge's
predicate `Spec.rowOk` for the directory that was read. -/
theorem listing_href_attribute_safe (fs : Fs) (cfg : Config) (f url : Bytes) (path : Path) (rows : List Row)
    (h : main fs cfg f = .listing url path rows) :
    ∃ names, fs.readdir (cstr path) = some names ∧
      ∀ r ∈ rows, attrSafe r.href = true ∧ parseAnchor r.anchor = some (r.href, r.text) ∧
        rowOk names r.anchor = true := by
  obtain ⟨_, _, names, hrd, hrows⟩ := listing_skips_dotfiles_and_escapes fs cfg f url path rows h
  refine ⟨names, hrd, ?_⟩
  intro r hr
  obtain ⟨hmem, hdot, hadd, hesc⟩ := hrows r hr
  have hsafe : attrSafe r.href = true := by
    unfold Row.href
    rw [attrSafe_append, attrSafe_urlencode]
    rcases hadd with e | e <;> rw [e] <;> rfl
  have hparse : parseAnchor r.anchor = some (r.href, r.text) := by
    rw [Row.anchor_eq]
    exact parseAnchor_build r.href r.text (attrSafe_no_quote r.href hsafe)
  refine ⟨hsafe, hparse, ?_⟩
  unfold rowOk
  rw [hparse]
  simp only [hsafe, Bool.true_and, List.any_eq_true]
  refine ⟨r.name, hmem, ?_⟩
  have hd : (r.name.head? != some 46) = true := by simpa using hdot
  rcases hadd with e | e
  · rw [e] at hesc
    simp only [List.append_nil] at hesc
    simp [hd, hesc]
  · rw [e] at hesc
    simp [hd, hesc]

/-- **listing_rows_exact.**  Exactly which entries are omitted: a name is shown iff it does not start
with `.` and `stat(dir/name)` succeeded with the `S_IFDIR` or the `S_IFREG` bit (everything else —
dot-files, dangling links, FIFOs, devices — is left out); order is `readdir` order. -/
theorem listing_rows_exact (fs : Fs) (cfg : Config) (f url : Bytes) (path : Path) (rows : List Row)
    (h : main fs cfg f = .listing url path rows) :
    ∃ names, fs.readdir (cstr path) = some names ∧
      rows.map (·.name) = names.filter (fun n => n.head? != some 46 &&
        (fs.mode (cstr (path ++ [47] ++ n)) &&& 0o040000 != 0 || fs.mode (cstr (path ++ [47] ++ n)) &&& 0o100000 != 0)) := by
  obtain ⟨_, _, names, hrd, hrows⟩ := main_listing fs cfg f url path rows h
  refine ⟨names, hrd, ?_⟩
  rw [hrows]
  clear hrows hrd h
  induction names with
  | nil => rfl
  | cons n ns ih =>
    simp only [List.filterMap_cons, List.filter_cons]
    have hrow : (listRow fs path n).map (·.name) =
        if (n.head? != some 46 && (fs.mode (cstr (path ++ [47] ++ n)) &&& 0o040000 != 0 ||
            fs.mode (cstr (path ++ [47] ++ n)) &&& 0o100000 != 0)) = true then some n else none := by
      obtain ⟨hd, _, hr, _, _⟩ := gen_masks
      have hj := gen_list.2.2.1
      unfold listRow
      rw [hj]
      have hmd : Gen.listDirMask = 0o040000 := by decide
      have hmr : Gen.listRegMask = 0o100000 := by decide
      rw [hmd, hmr]
      generalize fs.mode (cstr (path ++ [47] ++ n)) = m
      by_cases hdot : isDotFile n = true
      · have : n.head? = some 46 := (isDotFile_iff n).mp hdot
        simp [hdot, this]
      · have hne : ¬ n.head? = some 46 := fun e => hdot ((isDotFile_iff n).mpr e)
        simp only [hdot, Bool.false_eq_true, if_false]
        by_cases h0 : m = 0
        · subst h0; simp
        · simp only [h0, if_false]
          by_cases h1 : m &&& 0o040000 != 0
          · simp [h1, hne]
          · by_cases h2 : m &&& 0o100000 != 0
            · simp [h1, h2, hne]
            · simp [h1, h2]
    cases hl : listRow fs path n with
    | none =>
      rw [hl] at hrow
      simp only [Option.map_none] at hrow
      split at hrow
      · simp at hrow
      · rename_i hc
        simp only [hc, Bool.false_eq_true, if_false]
        exact ih
    | some r =>
      rw [hl] at hrow
      simp only [Option.map_some] at hrow
      split at hrow
      · rename_i hc
        simp only [hc, if_true, List.map_cons]
        simp only [Option.some.injEq] at hrow
        rw [hrow, ih]
      · simp at hrow

/-- **redirect_target.**  The only redirect the file server issues goes to the request path plus a
trailing `/`, and only for a path that `check_in_document_root` accepted, whose `stat` has the
`S_IFDIR` bit, that does not already end in `/`, when an index file exists or listing is on. -/
theorem redirect_target (fs : Fs) (cfg : Config) (f loc : Bytes) (h : main fs cfg f = .redirect loc) :
    loc = f ++ [47] ∧ f ≠ [] ∧ f.getLast? ≠ some 47 ∧
    (∃ p, checkInDocumentRoot fs cfg f = some p ∧ fs.mode (cstr p) &&& 0o040000 ≠ 0) ∧
    ((indexPath fs cfg f).isSome = true ∨ cfg.listing = true) :=
  main_redirect fs cfg f loc h

/-- **defaults_are_safe.**  Out of the box (settings absent) symlink checking is on, listing is off
and the index file is `index.html` — the constructor's defaults as extracted from the source. -/
theorem defaults_are_safe :
    Gen.defaultCheckSymlink = true ∧ Gen.defaultListing = false ∧
    Gen.defaultIndex = [105, 110, 100, 101, 120, 46, 104, 116, 109, 108] := by decide

/-- "`path` is where the request may legitimately lead": the kernel is handed exactly `path`; it is
derived from the request (or request + `/` + index file) through the chosen root; with symlink
checking on it is a `realpath` answer inside that root, with it off it is `root ++ rest` with `rest`
canonical. -/
def Confined (fs : Fs) (cfg : Config) (f : Bytes) (path : Path) : Prop :=
  cstr path = path ∧
  ∃ req, (req = f ∨ req = f ++ [47] ++ cfg.indexFile) ∧
    canonical (pickRoot cfg (normalize req)).2 = true ∧
    (if cfg.checkSymlinks then
       fs.realpath (cstr ((pickRoot cfg (normalize req)).1 ++ [47] ++ (pickRoot cfg (normalize req)).2)) = some path ∧
       inside (pickRoot cfg (normalize req)).1 path = true
     else
       path = (pickRoot cfg (normalize req)).1 ++
         (if (pickRoot cfg (normalize req)).2 = [47] then [] else (pickRoot cfg (normalize req)).2))

/-- **file_server_property** — the statement of C13 in one piece, for every HTTP request target,
every configuration whose roots are `realpath` answers, and every file system obeying the POSIX
laws: the reply is a 404, a redirect to the request path plus `/`, a listing (only if enabled;
of a confined directory; rows = non-dot entries, escaped), or the content of a confined
**regular** file. -/
theorem file_server_property (fs : Fs) (cfg : Config) (target : Bytes)
    (hfs : RealpathLaw fs) (hst : StatLaw fs) (hroots : RootsCanonical cfg)
    (hi : (0 : UInt8) ∉ cfg.indexFile) (hr : (0 : UInt8) ∉ cfg.docRoot ∧ ∀ a ∈ cfg.aliases, (0 : UInt8) ∉ a.2) :
    match main fs cfg (pathInfoOfTarget target) with
    | .notFound => True
    | .redirect loc => loc = pathInfoOfTarget target ++ [47]
    | .listing url path rows =>
        cfg.listing = true ∧ Confined fs cfg (pathInfoOfTarget target) path ∧
        escapedFor (pathInfoOfTarget target) (escape url) = true ∧
        ∃ names, fs.readdir path = some names ∧
          ∀ r ∈ rows, r.name ∈ names ∧ r.name.head? ≠ some 46 ∧ escapedFor (r.name ++ r.add) r.text = true ∧
            attrSafe r.href = true ∧ rowOk names r.anchor = true
    | .serve path content =>
        Confined fs cfg (pathInfoOfTarget target) path ∧ ftype (fs.mode path) = ftReg ∧ fs.read path = some content := by
  cases hm : main fs cfg (pathInfoOfTarget target) with
  | notFound => trivial
  | redirect loc => exact (redirect_target fs cfg _ loc hm).1
  | listing url path rows =>
    have hop : openedPath fs cfg (pathInfoOfTarget target) = some path := by simp [openedPath, hm, Outcome.opened]
    have hc := http_request_confined fs cfg target path hfs hroots hi hr hop
    obtain ⟨hu, hesc, names, hrd, hrows⟩ := listing_skips_dotfiles_and_escapes fs cfg _ url path rows hm
    refine ⟨listing_only_when_enabled fs cfg _ url path rows hm, hc, ?_, names, ?_, ?_⟩
    · rw [← hu]; exact hesc
    · rw [← hc.1]; exact hrd
    · intro r hr'
      obtain ⟨h1, h2, _, h4⟩ := hrows r hr'
      obtain ⟨names2, hrd2, hrows2⟩ := listing_href_attribute_safe fs cfg _ url path rows hm
      have : names2 = names := by rw [hrd] at hrd2; exact (Option.some.inj hrd2).symm
      subst this
      exact ⟨h1, h2, h4, (hrows2 r hr').1, (hrows2 r hr').2.2⟩
  | serve path content =>
    have hop : openedPath fs cfg (pathInfoOfTarget target) = some path := by simp [openedPath, hm, Outcome.opened]
    have hc := http_request_confined fs cfg target path hfs hroots hi hr hop
    have h1 := only_regular_files_streamed_posix fs cfg _ path content hst hm
    have h2 := (only_regular_files_streamed fs cfg _ path content hm).2
    rw [hc.1] at h1 h2
    exact ⟨hc, h1, h2⟩

/-! ### Non-vacuity / sanity instances (tests of the statements' reading, not the theorems) -/

section Examples
/-- a small file system: `/r` (dir) holds `a.txt`, `.h`, `d/` (dir, no index), `l` → `/o/s.txt` (outside);
`/t` is an alias target with `index.html` -/
def exFs : Fs where
  realpath q :=
    if q = [47,114,47,47,97,46,116,120,116] then some [47,114,47,97,46,116,120,116]        -- /r//a.txt
    else if q = [47,114,47,47,100] then some [47,114,47,100]                               -- /r//d
    else if q = [47,114,47,47,108] then some [47,111,47,115,46,116,120,116]                -- /r//l -> /o/s.txt
    else if q = [47,116,47,47] then some [47,116]                                          -- /t//
    else if q = [47,116,47,47,105,110,100,101,120,46,104,116,109,108] then some [47,116,47,105,110,100,101,120,46,104,116,109,108]
    else none
  mode q :=
    if q = [47,114,47,100] ∨ q = [47,116] then 16877
    else if q = [47,114,47,97,46,116,120,116] ∨ q = [47,111,47,115,46,116,120,116] ∨ q = [47,116,47,105,110,100,101,120,46,104,116,109,108]
          ∨ q = [47,114,47,100,47,60,98,62] ∨ q = [47,114,47,108] then 33188
    else 0
  readdir q := if q = [47,114,47,100] then some [[46], [46,46], [46,104], [60,98,62]] else none
  read q :=
    if q = [47,114,47,97,46,116,120,116] then some [65]
    else if q = [47,111,47,115,46,116,120,116] ∨ q = [47,114,47,108] then some [83]
    else if q = [47,116,47,105,110,100,101,120,46,104,116,109,108] then some [73]
    else none

def exCfg : Config := { docRoot := [47,114], aliases := [([47,120], [47,116])], checkSymlinks := true, listing := true }

-- a file is served: hypotheses of served_inside_root_symlinks / only_regular_files_streamed are met non-trivially
example : main exFs exCfg [47,97,46,116,120,116] = .serve [47,114,47,97,46,116,120,116] [65] := by decide +kernel
-- the symlink to the outside is refused (404) although the target is a regular file
example : main exFs exCfg [47,108] = .notFound := by decide +kernel
-- alias `/x` → `/t` with an index file: `/x/` serves `/t/index.html`
example : main exFs exCfg [47,120,47] = .serve [47,116,47,105,110,100,101,120,46,104,116,109,108] [73] := by decide +kernel
-- `/xy` is not under alias `/x`
example : main exFs exCfg [47,120,121] = .notFound := by decide +kernel
-- directory without trailing slash: redirect; with it: listing that omits `.h` and escapes `<b>`
example : main exFs exCfg [47,100] = .redirect [47,100,47] := by decide +kernel
example : main exFs exCfg [47,100,47] = .listing [47,100,47] [47,114,47,100] [⟨[60,98,62], []⟩] := by decide +kernel
example : (Row.text ⟨[60,98,62], []⟩) = [38,108,116,59,98,38,103,116,59] := by decide +kernel
-- climbing is neutralised lexically, and the quirk of the real code is reproduced
example : normalize [47,46,46,47,46,46,47,97,46,116,120,116] = [47,97,46,116,120,116] := by decide +kernel
example : normalize [47,97,47,98,47,46,46,47,99] = [47,97,99] := by decide +kernel
-- is_file_prefix on canonical paths: `/al` vs `/alX`, `/al/x`, `/al`
example : isFilePrefix [47,97,108] [47,97,108,88] = false ∧ isFilePrefix [47,97,108] [47,97,108,47,120] = true ∧
    isFilePrefix [47,97,108] [47,97,108] = true := by decide +kernel
-- the laws assumed of the externals hold of the example file system where they are used
example : ∀ q ∈ [[47,114,47,47,97,46,116,120,116], [47,114,47,47,100], [47,114,47,47,108], [47,116,47,47]],
    ∀ r, exFs.realpath q = some r → canonical r = true ∧ (0 : UInt8) ∉ r := by decide +kernel
example : RootsCanonical exCfg := by
  refine ⟨by decide +kernel, ?_⟩
  intro a ha
  simp [exCfg] at ha
  subst ha
  decide +kernel
-- ... and as the universally quantified laws the headline theorem assumes
theorem exFs_realpathLaw : RealpathLaw exFs := by
  intro q r h
  simp only [exFs] at h
  repeat (split at h; (· simp only [Option.some.injEq] at h; subst h; decide +kernel))
  simp at h
theorem exFs_statLaw : StatLaw exFs := by
  constructor
  · intro q
    simp only [exFs]
    split
    · decide
    · split <;> decide
  · intro q h
    simp only [exFs] at h
    split at h
    · simp [ftype, ftSock] at h
    · split at h <;> simp [ftype, ftSock] at h
-- the headline theorem applies to the example (request `/x/`, alias with index file)
example : Confined exFs exCfg (pathInfoOfTarget [47,120,47]) [47,116,47,105,110,100,101,120,46,104,116,109,108] := by
  have h := file_server_property exFs exCfg [47,120,47] exFs_realpathLaw exFs_statLaw
    (by refine ⟨by decide +kernel, ?_⟩; intro a ha; simp [exCfg] at ha; subst ha; decide +kernel)
    (by decide +kernel) (by refine ⟨by decide +kernel, ?_⟩; intro a ha; simp [exCfg] at ha; subst ha; decide +kernel)
  have hm : main exFs exCfg (pathInfoOfTarget [47,120,47]) = .serve [47,116,47,105,110,100,101,120,46,104,116,109,108] [73] := by
    have : pathInfoOfTarget [47,120,47] = [47,120,47] := by
      simp [pathInfoOfTarget, urldecode, cstr, Gen.queryCh, Gen.urldecPlus, Gen.urldecPct]
    rw [this]; decide +kernel
  rw [hm] at h
  exact h.1
-- symlink checking off: the same request for `/l` is accepted lexically (root ++ rest) and the link is followed
example : main exFs { exCfg with checkSymlinks := false } [47,108] = .serve [47,114,47,108] [83] := by decide +kernel
example : checkInDocumentRoot exFs { exCfg with checkSymlinks := false } [47,46,46,47,108] = some [47,114,47,108] := by decide +kernel
-- PATH_INFO from a request target: `%2e%2e` decodes to `..`, `%00` cuts the string
example : pathInfoOfTarget [47,37,50,101,37,50,101,47,97,37,48,48,98,63,113] = [47,46,46,47,97] := by
  simp [pathInfoOfTarget, urldecode, hexVal, cstr, Gen.queryCh, Gen.urldecPlus, Gen.urldecPct]
end Examples

end Cppcms.C13.Props
