import Cppcms.C16.Model
/-! The compression functions assembled from the translated source (`md5Process`,
`sha1ProcessBlock`) equal the transcriptions of RFC 1321 §3.4 and FIPS 180-4 §6.1.2 in `Spec.lean`. -/
set_option linter.unusedSimpArgs false
namespace Cppcms.C16
open Cppcms Cppcms.C16.Spec

/-! ## MD5 -/

/-- operation `i` of RFC 1321 in the format of the translated SET table: which register is written
(the RFC cycles ABCD, DABC, CDAB, BCDA), `k`, `s`, `T[i+1]` -/
def md5SpecStep (i : Nat) : Nat × Nat × Nat × Nat × Nat × Nat × Nat × Nat :=
  (i / 16, (4 - i % 4) % 4, (5 - i % 4) % 4, (6 - i % 4) % 4, (7 - i % 4) % 4, md5K i,
   (md5S.getD (i / 16) []).getD (i % 4) 0, Spec.md5T.getD i 0)

/-- the 64 translated `SET(...)` lines are exactly the RFC's table of operations -/
theorem md5Steps_eq : Gen.md5Steps = (List.range 64).map md5SpecStep := by
  have : (Gen.md5Steps == (List.range 64).map md5SpecStep) = true := by decide
  exact eq_of_beq this

def md5ToL (i : Nat) (t : Nat × Nat × Nat × Nat) : List Nat :=
  match i % 4 with
  | 0 => [t.1, t.2.1, t.2.2.1, t.2.2.2]
  | 1 => [t.2.1, t.2.2.1, t.2.2.2, t.1]
  | 2 => [t.2.2.1, t.2.2.2, t.1, t.2.1]
  | _ => [t.2.2.2, t.1, t.2.1, t.2.2.1]

def md5Val (blk : Bytes) (i A B C D : Nat) : Nat :=
  let f := if i < 16 then md5F B C D else if i < 32 then md5G B C D else if i < 48 then md5H B C D else md5I B C D
  (B + rotl32 ((A + f + leWordAt blk (md5K i) + Spec.md5T.getD i 0) % M32) ((md5S.getD (i / 16) []).getD (i % 4) 0)) % M32

theorem md5Op_eq (blk : Bytes) (t : Nat × Nat × Nat × Nat) (i : Nat) :
    md5Op blk t i = (t.2.2.2, md5Val blk i t.1 t.2.1 t.2.2.1 t.2.2.2, t.2.1, t.2.2.1) := by
  obtain ⟨a, b, c, d⟩ := t
  rfl

theorem md5S_le (i : Nat) (h : i < 64) : (md5S.getD (i / 16) []).getD (i % 4) 0 ≤ 32 := by
  have : ∀ j : Fin 64, (md5S.getD (j.val / 16) []).getD (j.val % 4) 0 ≤ 32 := by decide
  exact this ⟨i, h⟩

theorem md5Fn_eq (i x y z : Nat) (h : i < 64) :
    md5Fn (i / 16) x y z =
      if i < 16 then md5F x y z else if i < 32 then md5G x y z else if i < 48 then md5H x y z else md5I x y z := by
  have : i / 16 = 0 ∨ i / 16 = 1 ∨ i / 16 = 2 ∨ i / 16 = 3 := by omega
  rcases this with h0 | h0 | h0 | h0
  · have : i < 16 := by omega
    simp [h0, this, md5Fn, Gen.md5F0, md5F, not32, M32]
  · have h1 : ¬ i < 16 := by omega
    have h2 : i < 32 := by omega
    simp [h0, h1, h2, md5Fn, Gen.md5F1, md5G, not32, M32]
  · have h1 : ¬ i < 16 := by omega
    have h2 : ¬ i < 32 := by omega
    have h3 : i < 48 := by omega
    simp [h0, h1, h2, h3, md5Fn, Gen.md5F2, md5H]
  · have h1 : ¬ i < 16 := by omega
    have h2 : ¬ i < 32 := by omega
    have h3 : ¬ i < 48 := by omega
    simp [h0, h1, h2, h3, md5Fn, Gen.md5F3, md5I, not32, M32]

theorem md5X_eq (blk : Bytes) (k : Nat) : md5X blk k = leWordAt blk k := by
  have b0 := (blk.getD (4 * k) 0).toNat_lt
  have b1 := (blk.getD (4 * k + 1) 0).toNat_lt
  have b2 := (blk.getD (4 * k + 2) 0).toNat_lt
  have b3 := (blk.getD (4 * k + 3) 0).toNat_lt
  simp only [md5X, Gen.md5Word, byteAt, leWordAt, Nat.shiftLeft_eq]
  omega

theorem md5RotL_eq (x s : Nat) (h : s ≤ 32) : Gen.md5RotL x s = rotl32 x s := by
  have : (32 + 4294967296 - s % 4294967296) % 4294967296 = 32 - s := by omega
  simp only [Gen.md5RotL, rotl32, M32, this]

theorem md5_val_eq (blk : Bytes) (i A B C D : Nat) (hi : i < 64) :
    Gen.md5SetA (Gen.md5SetT A (md5Fn (i / 16) B C D) (md5X blk (md5K i)) (Spec.md5T.getD i 0))
      ((md5S.getD (i / 16) []).getD (i % 4) 0) B = md5Val blk i A B C D := by
  rw [md5Fn_eq i B C D hi, md5X_eq]
  simp only [Gen.md5SetA, Gen.md5SetT, md5Val, md5RotL_eq _ _ (md5S_le i hi), M32]
  generalize (if i < 16 then md5F B C D else if i < 32 then md5G B C D else if i < 48 then md5H B C D else md5I B C D) = f
  have e : (((A + f) % 4294967296 + leWordAt blk (md5K i)) % 4294967296 + Spec.md5T.getD i 0) % 4294967296 =
      (A + f + leWordAt blk (md5K i) + Spec.md5T.getD i 0) % 4294967296 := by omega
  rw [e, Nat.add_comm]

theorem md5_sim (blk : Bytes) (i : Nat) (hi : i < 64) (t : Nat × Nat × Nat × Nat) :
    md5Step blk (md5ToL i t) (md5SpecStep i) = md5ToL (i + 1) (md5Op blk t i) := by
  obtain ⟨A, B, C, D⟩ := t
  have hv := md5_val_eq blk i
  rw [md5Op_eq]
  have : i % 4 = 0 ∨ i % 4 = 1 ∨ i % 4 = 2 ∨ i % 4 = 3 := by omega
  rcases this with h | h | h | h
  · have h' : (i + 1) % 4 = 1 := by omega
    have hv' := hv A B C D hi
    simp only [h] at hv'
    simp only [md5Step, md5SpecStep, md5ToL, h, h', Nat.reduceSub, Nat.reduceMod, List.getD_cons_zero,
      List.getD_cons_succ, List.set_cons_zero, List.set_cons_succ, hv']
  · have h' : (i + 1) % 4 = 2 := by omega
    have hv' := hv A B C D hi
    simp only [h] at hv'
    simp only [md5Step, md5SpecStep, md5ToL, h, h', Nat.reduceSub, Nat.reduceMod, List.getD_cons_zero,
      List.getD_cons_succ, List.set_cons_zero, List.set_cons_succ, hv']
  · have h' : (i + 1) % 4 = 3 := by omega
    have hv' := hv A B C D hi
    simp only [h] at hv'
    simp only [md5Step, md5SpecStep, md5ToL, h, h', Nat.reduceSub, Nat.reduceMod, List.getD_cons_zero,
      List.getD_cons_succ, List.set_cons_zero, List.set_cons_succ, hv']
  · have h' : (i + 1) % 4 = 0 := by omega
    have hv' := hv A B C D hi
    simp only [h] at hv'
    simp only [md5Step, md5SpecStep, md5ToL, h, h', Nat.reduceSub, Nat.reduceMod, List.getD_cons_zero,
      List.getD_cons_succ, List.set_cons_zero, List.set_cons_succ, hv']

theorem md5_sim_n (blk : Bytes) (t : Nat × Nat × Nat × Nat) : ∀ n, n ≤ 64 →
    (List.range n).foldl (fun r i => md5Step blk r (md5SpecStep i)) (md5ToL 0 t) =
      md5ToL n ((List.range n).foldl (md5Op blk) t)
  | 0, _ => rfl
  | n + 1, h => by
    rw [List.range_succ, List.foldl_append, List.foldl_append, md5_sim_n blk t n (by omega)]
    simp only [List.foldl_cons, List.foldl_nil]
    exact md5_sim blk n (by omega) _

/-- `md5_process` as translated = the compression function of RFC 1321 §3.4, for every chaining value
of four words and every block -/
theorem md5Process_eq (a b c d : Nat) (blk : Bytes) :
    md5Process [a, b, c, d] blk = md5Compress [a, b, c, d] blk := by
  unfold md5Process md5Compress
  rw [md5Steps_eq, List.foldl_map]
  have := md5_sim_n blk (a, b, c, d) 64 (Nat.le_refl _)
  simp only [md5ToL] at this
  simp only [List.getD_cons_zero, List.getD_cons_succ]
  rw [this]
  generalize (List.range 64).foldl (md5Op blk) (a, b, c, d) = r
  obtain ⟨a', b', c', d'⟩ := r
  simp [Gen.md5Acc, M32]

theorem absorb_congr {σ : Type} (P : σ → Prop) (f g : σ → Bytes → σ) (hfg : ∀ s b, P s → f s b = g s b)
    (hP : ∀ s b, P s → P (g s b)) (st : σ) (l : Bytes) (h : P st) : absorb f st l = absorb g st l := by
  unfold absorb
  generalize chunks 64 l = cs
  induction cs generalizing st with
  | nil => rfl
  | cons c cs ih =>
    simp only [List.foldl_cons]
    rw [hfg _ _ h]
    exact ih _ (hP _ _ h)

theorem absorb_inv {σ : Type} (P : σ → Prop) (g : σ → Bytes → σ) (hP : ∀ s b, P s → P (g s b))
    (st : σ) (l : Bytes) (h : P st) : P (absorb g st l) := by
  unfold absorb
  generalize chunks 64 l = cs
  induction cs generalizing st with
  | nil => exact h
  | cons c cs ih => exact ih _ (hP _ _ h)

theorem md5Process_eq' (st : List Nat) (blk : Bytes) (h : st.length = 4) :
    md5Process st blk = md5Compress st blk := by
  match st, h with
  | [a, b, c, d], _ => exact md5Process_eq a b c d blk

theorem md5Compress_length (st : List Nat) (blk : Bytes) : (md5Compress st blk).length = 4 := by
  unfold md5Compress
  dsimp only
  generalize (List.range 64).foldl (md5Op blk) (st.getD 0 0, st.getD 1 0, st.getD 2 0, st.getD 3 0) = r
  obtain ⟨a', b', c', d'⟩ := r
  rfl

theorem md5Out_eq (st : List Nat) (h : st.length = 4) : md5Out st = st.flatMap le32 := by
  match st, h with
  | [a, b, c, d], _ =>
    have hr : List.range 16 = [0, 1, 2, 3, 4, 5, 6, 7, 8, 9, 10, 11, 12, 13, 14, 15] := by decide
    have hr4 : List.range 4 = [0, 1, 2, 3] := by decide
    simp only [md5Out, hr, hr4, le32, List.map_cons, List.map_nil, Gen.md5DigestByte, List.flatMap_cons,
      List.flatMap_nil, List.cons_append, List.nil_append, List.append_nil, Nat.shiftRight_eq_div_pow,
      Nat.shiftLeft_eq]
    simp

/-- the hash the MD5 model computes is RFC 1321's MD5 -/
theorem md5Hash_eq_spec (m : Bytes) : md5Hash m = Spec.md5 m := by
  unfold md5Hash Spec.md5 mdHash
  have hiv : Gen.md5Init = md5IV := by decide
  rw [hiv]
  have e := absorb_congr (fun st : List Nat => st.length = 4) md5Process md5Compress
    md5Process_eq' (fun s b _ => md5Compress_length s b) md5IV (pad le64 m) rfl
  have l := absorb_inv (fun st : List Nat => st.length = 4) md5Compress
    (fun s b _ => md5Compress_length s b) md5IV (pad le64 m) rfl
  rw [e, md5Out_eq _ l]

end Cppcms.C16
