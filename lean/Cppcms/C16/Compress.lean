import Cppcms.C16.Model
/-! The compression functions assembled from the translated source (`md5Process`,
`sha1ProcessBlock`) equal the transcriptions of RFC 1321 §3.4 and FIPS 180-4 §6.1.2 in `Spec.lean`. -/
set_option linter.unusedSimpArgs false
namespace Cppcms.C16
open Cppcms Cppcms.C16.Spec

/-! ## MD5 -/

/-- operation `i` of RFC 1321 in the format of the translated SET table: which register is written
(the RFC cycles ABCD, DABC, CDAB, BCDA), `k`, `s`, `T[i+1]` -/
def md5SpecStep (i : Nat) : Nat × Nat × Nat × Nat × Nat × Nat × Nat × Nat :=
  (i / 16, (4 - i % 4) % 4, (5 - i % 4) % 4, (6 - i % 4) % 4, (7 - i % 4) % 4, md5K i,
   (md5S.getD (i / 16) []).getD (i % 4) 0, Spec.md5T.getD i 0)

/-- the 64 translated `SET(...)` lines are exactly the RFC's table of operations -/
theorem md5Steps_eq : Gen.md5Steps = (List.range 64).map md5SpecStep := by
  have : (Gen.md5Steps == (List.range 64).map md5SpecStep) = true := by decide
  exact eq_of_beq this

def md5ToL (i : Nat) (t : Nat × Nat × Nat × Nat) : List Nat :=
  match i % 4 with
  | 0 => [t.1, t.2.1, t.2.2.1, t.2.2.2]
  | 1 => [t.2.1, t.2.2.1, t.2.2.2, t.1]
  | 2 => [t.2.2.1, t.2.2.2, t.1, t.2.1]
  | _ => [t.2.2.2, t.1, t.2.1, t.2.2.1]

def md5Val (blk : Bytes) (i A B C D : Nat) : Nat :=
  let f := if i < 16 then md5F B C D else if i < 32 then md5G B C D else if i < 48 then md5H B C D else md5I B C D
  (B + rotl32 ((A + f + leWordAt blk (md5K i) + Spec.md5T.getD i 0) % M32) ((md5S.getD (i / 16) []).getD (i % 4) 0)) % M32

theorem md5Op_eq (blk : Bytes) (t : Nat × Nat × Nat × Nat) (i : Nat) :
    md5Op blk t i = (t.2.2.2, md5Val blk i t.1 t.2.1 t.2.2.1 t.2.2.2, t.2.1, t.2.2.1) := by
  obtain ⟨a, b, c, d⟩ := t
  rfl

theorem md5S_le (i : Nat) (h : i < 64) : (md5S.getD (i / 16) []).getD (i % 4) 0 ≤ 32 := by
  have : ∀ j : Fin 64, (md5S.getD (j.val / 16) []).getD (j.val % 4) 0 ≤ 32 := by decide
  exact this ⟨i, h⟩

theorem md5Fn_eq (i x y z : Nat) (h : i < 64) :
    md5Fn (i / 16) x y z =
      if i < 16 then md5F x y z else if i < 32 then md5G x y z else if i < 48 then md5H x y z else md5I x y z := by
  have : i / 16 = 0 ∨ i / 16 = 1 ∨ i / 16 = 2 ∨ i / 16 = 3 := by omega
  rcases this with h0 | h0 | h0 | h0
  · have : i < 16 := by omega
    simp [h0, this, md5Fn, Gen.md5F0, md5F, not32, M32]
  · have h1 : ¬ i < 16 := by omega
    have h2 : i < 32 := by omega
    simp [h0, h1, h2, md5Fn, Gen.md5F1, md5G, not32, M32]
  · have h1 : ¬ i < 16 := by omega
    have h2 : ¬ i < 32 := by omega
    have h3 : i < 48 := by omega
    simp [h0, h1, h2, h3, md5Fn, Gen.md5F2, md5H]
  · have h1 : ¬ i < 16 := by omega
    have h2 : ¬ i < 32 := by omega
    have h3 : ¬ i < 48 := by omega
    simp [h0, h1, h2, h3, md5Fn, Gen.md5F3, md5I, not32, M32]

theorem md5X_eq (blk : Bytes) (k : Nat) : md5X blk k = leWordAt blk k := by
  have b0 := (blk.getD (4 * k) 0).toNat_lt
  have b1 := (blk.getD (4 * k + 1) 0).toNat_lt
  have b2 := (blk.getD (4 * k + 2) 0).toNat_lt
  have b3 := (blk.getD (4 * k + 3) 0).toNat_lt
  simp only [md5X, Gen.md5Word, byteAt, leWordAt, Nat.shiftLeft_eq]
  omega

theorem md5RotL_eq (x s : Nat) (h : s ≤ 32) : Gen.md5RotL x s = rotl32 x s := by
  have : (32 + 4294967296 - s % 4294967296) % 4294967296 = 32 - s := by omega
  simp only [Gen.md5RotL, rotl32, M32, this]

theorem md5_val_eq (blk : Bytes) (i A B C D : Nat) (hi : i < 64) :
    Gen.md5SetA (Gen.md5SetT A (md5Fn (i / 16) B C D) (md5X blk (md5K i)) (Spec.md5T.getD i 0))
      ((md5S.getD (i / 16) []).getD (i % 4) 0) B = md5Val blk i A B C D := by
  rw [md5Fn_eq i B C D hi, md5X_eq]
  simp only [Gen.md5SetA, Gen.md5SetT, md5Val, md5RotL_eq _ _ (md5S_le i hi), M32]
  generalize (if i < 16 then md5F B C D else if i < 32 then md5G B C D else if i < 48 then md5H B C D else md5I B C D) = f
  have e : (((A + f) % 4294967296 + leWordAt blk (md5K i)) % 4294967296 + Spec.md5T.getD i 0) % 4294967296 =
      (A + f + leWordAt blk (md5K i) + Spec.md5T.getD i 0) % 4294967296 := by omega
  rw [e, Nat.add_comm]

theorem md5_sim (blk : Bytes) (i : Nat) (hi : i < 64) (t : Nat × Nat × Nat × Nat) :
    md5Step blk (md5ToL i t) (md5SpecStep i) = md5ToL (i + 1) (md5Op blk t i) := by
  obtain ⟨A, B, C, D⟩ := t
  have hv := md5_val_eq blk i
  rw [md5Op_eq]
  have : i % 4 = 0 ∨ i % 4 = 1 ∨ i % 4 = 2 ∨ i % 4 = 3 := by omega
  rcases this with h | h | h | h
  · have h' : (i + 1) % 4 = 1 := by omega
    have hv' := hv A B C D hi
    simp only [h] at hv'
    simp only [md5Step, md5SpecStep, md5ToL, h, h', Nat.reduceSub, Nat.reduceMod, List.getD_cons_zero,
      List.getD_cons_succ, List.set_cons_zero, List.set_cons_succ, hv']
  · have h' : (i + 1) % 4 = 2 := by omega
    have hv' := hv A B C D hi
    simp only [h] at hv'
    simp only [md5Step, md5SpecStep, md5ToL, h, h', Nat.reduceSub, Nat.reduceMod, List.getD_cons_zero,
      List.getD_cons_succ, List.set_cons_zero, List.set_cons_succ, hv']
  · have h' : (i + 1) % 4 = 3 := by omega
    have hv' := hv A B C D hi
    simp only [h] at hv'
    simp only [md5Step, md5SpecStep, md5ToL, h, h', Nat.reduceSub, Nat.reduceMod, List.getD_cons_zero,
      List.getD_cons_succ, List.set_cons_zero, List.set_cons_succ, hv']
  · have h' : (i + 1) % 4 = 0 := by omega
    have hv' := hv A B C D hi
    simp only [h] at hv'
    simp only [md5Step, md5SpecStep, md5ToL, h, h', Nat.reduceSub, Nat.reduceMod, List.getD_cons_zero,
      List.getD_cons_succ, List.set_cons_zero, List.set_cons_succ, hv']

theorem md5_sim_n (blk : Bytes) (t : Nat × Nat × Nat × Nat) : ∀ n, n ≤ 64 →
    (List.range n).foldl (fun r i => md5Step blk r (md5SpecStep i)) (md5ToL 0 t) =
      md5ToL n ((List.range n).foldl (md5Op blk) t)
  | 0, _ => rfl
  | n + 1, h => by
    rw [List.range_succ, List.foldl_append, List.foldl_append, md5_sim_n blk t n (by omega)]
    simp only [List.foldl_cons, List.foldl_nil]
    exact md5_sim blk n (by omega) _

/-- `md5_process` as translated = the compression function of RFC 1321 §3.4, for every chaining value
of four words and every block -/
theorem md5Process_eq (a b c d : Nat) (blk : Bytes) :
    md5Process [a, b, c, d] blk = md5Compress [a, b, c, d] blk := by
  unfold md5Process md5Compress
  rw [md5Steps_eq, List.foldl_map]
  have := md5_sim_n blk (a, b, c, d) 64 (Nat.le_refl _)
  simp only [md5ToL] at this
  simp only [List.getD_cons_zero, List.getD_cons_succ]
  rw [this]
  generalize (List.range 64).foldl (md5Op blk) (a, b, c, d) = r
  obtain ⟨a', b', c', d'⟩ := r
  simp [Gen.md5Acc, M32]

theorem absorb_congr {σ : Type} (P : σ → Prop) (f g : σ → Bytes → σ) (hfg : ∀ s b, P s → f s b = g s b)
    (hP : ∀ s b, P s → P (g s b)) (st : σ) (l : Bytes) (h : P st) : absorb f st l = absorb g st l := by
  unfold absorb
  generalize chunks 64 l = cs
  induction cs generalizing st with
  | nil => rfl
  | cons c cs ih =>
    simp only [List.foldl_cons]
    rw [hfg _ _ h]
    exact ih _ (hP _ _ h)

theorem absorb_inv {σ : Type} (P : σ → Prop) (g : σ → Bytes → σ) (hP : ∀ s b, P s → P (g s b))
    (st : σ) (l : Bytes) (h : P st) : P (absorb g st l) := by
  unfold absorb
  generalize chunks 64 l = cs
  induction cs generalizing st with
  | nil => exact h
  | cons c cs ih => exact ih _ (hP _ _ h)

theorem md5Process_eq' (st : List Nat) (blk : Bytes) (h : st.length = 4) :
    md5Process st blk = md5Compress st blk := by
  match st, h with
  | [a, b, c, d], _ => exact md5Process_eq a b c d blk

theorem md5Compress_length (st : List Nat) (blk : Bytes) : (md5Compress st blk).length = 4 := by
  unfold md5Compress
  dsimp only
  generalize (List.range 64).foldl (md5Op blk) (st.getD 0 0, st.getD 1 0, st.getD 2 0, st.getD 3 0) = r
  obtain ⟨a', b', c', d'⟩ := r
  rfl

theorem md5Out_eq (st : List Nat) (h : st.length = 4) : md5Out st = st.flatMap le32 := by
  match st, h with
  | [a, b, c, d], _ =>
    have hr : List.range 16 = [0, 1, 2, 3, 4, 5, 6, 7, 8, 9, 10, 11, 12, 13, 14, 15] := by decide
    have hr4 : List.range 4 = [0, 1, 2, 3] := by decide
    simp only [md5Out, hr, hr4, le32, List.map_cons, List.map_nil, Gen.md5DigestByte, List.flatMap_cons,
      List.flatMap_nil, List.cons_append, List.nil_append, List.append_nil, Nat.shiftRight_eq_div_pow,
      Nat.shiftLeft_eq]
    simp

/-- the hash the MD5 model computes is RFC 1321's MD5 -/
theorem md5Hash_eq_spec (m : Bytes) : md5Hash m = Spec.md5 m := by
  unfold md5Hash Spec.md5 mdHash
  have hiv : Gen.md5Init = md5IV := by decide
  rw [hiv]
  have e := absorb_congr (fun st : List Nat => st.length = 4) md5Process md5Compress
    md5Process_eq' (fun s b _ => md5Compress_length s b) md5IV (pad le64 m) rfl
  have l := absorb_inv (fun st : List Nat => st.length = 4) md5Compress
    (fun s b _ => md5Compress_length s b) md5IV (pad le64 m) rfl
  rw [e, md5Out_eq _ l]

/-! ## SHA-1

The source rotates with `^` instead of `|` and writes `Ch`/`Maj` with `|` where FIPS 180-4 has `⊕`;
these agree on 32-bit words only, so the equality is stated for chaining values of five words
below 2^32 (an invariant of the iteration: `Gen.sha1Init` has it and every addition is reduced). -/

theorem testBit_false_of_lt {x k i : Nat} (h : x < 2 ^ k) (hki : k ≤ i) : x.testBit i = false :=
  Nat.testBit_lt_two_pow (Nat.lt_of_lt_of_le h (Nat.pow_le_pow_right (by decide) hki))

theorem rot_xor_eq_or (x n : Nat) (hx : x < 2 ^ 32) (hn : n ≤ 32) :
    ((x <<< n) % 2 ^ 32) ^^^ (x >>> (32 - n)) = ((x <<< n) % 2 ^ 32) ||| (x >>> (32 - n)) := by
  apply Nat.eq_of_testBit_eq
  intro j
  simp only [Nat.testBit_xor, Nat.testBit_or, Nat.testBit_mod_two_pow, Nat.testBit_shiftLeft,
    Nat.testBit_shiftRight]
  by_cases hj : j ≥ n
  · have : x.testBit (32 - n + j) = false := testBit_false_of_lt hx (by omega)
    simp [this]
  · simp [hj]

theorem sha1RotL_eq (x n : Nat) (hx : x < 2 ^ 32) (hn : n ≤ 32) : Gen.sha1RotL x n = rotl32 x n := by
  have e : (32 + 4294967296 - n % 4294967296) % 4294967296 = 32 - n := by omega
  have := rot_xor_eq_or x n hx hn
  simp only [Gen.sha1RotL, rotl32, M32, e]
  exact this

theorem rotl32_lt (x n : Nat) (hx : x < 2 ^ 32) : rotl32 x n < 2 ^ 32 := by
  unfold rotl32 M32
  apply Nat.or_lt_two_pow
  · exact Nat.mod_lt _ (by decide)
  · exact Nat.lt_of_le_of_lt (Nat.shiftRight_le _ _) hx

theorem sha1Word_eq (b0 b1 b2 b3 : Nat) (h0 : b0 < 256) (h1 : b1 < 256) (h2 : b2 < 256) (h3 : b3 < 256) :
    Gen.sha1Word b0 b1 b2 b3 = 16777216 * b0 + 65536 * b1 + 256 * b2 + b3 := by
  unfold Gen.sha1Word
  have m0 : (b0 <<< 24) % 4294967296 = b0 <<< 24 := by rw [Nat.shiftLeft_eq]; omega
  have m1 : (b1 <<< 16) % 4294967296 = b1 <<< 16 := by rw [Nat.shiftLeft_eq]; omega
  have m2 : (b2 <<< 8) % 4294967296 = b2 <<< 8 := by rw [Nat.shiftLeft_eq]; omega
  rw [m0, m1, m2]
  have l1 : b1 <<< 16 < 2 ^ 24 := by rw [Nat.shiftLeft_eq]; omega
  rw [← Nat.shiftLeft_add_eq_or_of_lt l1]
  have e1 : b0 <<< 24 + b1 <<< 16 = (b0 * 256 + b1) <<< 16 := by simp only [Nat.shiftLeft_eq]; omega
  have l2 : b2 <<< 8 < 2 ^ 16 := by rw [Nat.shiftLeft_eq]; omega
  rw [e1, ← Nat.shiftLeft_add_eq_or_of_lt l2]
  have e2 : (b0 * 256 + b1) <<< 16 + b2 <<< 8 = (b0 * 65536 + b1 * 256 + b2) <<< 8 := by
    simp only [Nat.shiftLeft_eq]; omega
  have l3 : b3 < 2 ^ 8 := by omega
  rw [e2, ← Nat.shiftLeft_add_eq_or_of_lt l3]
  simp only [Nat.shiftLeft_eq]; omega

theorem beWordAt_lt (blk : Bytes) (k : Nat) : beWordAt blk k < 2 ^ 32 := by
  have b0 := (blk.getD (4 * k) 0).toNat_lt
  have b1 := (blk.getD (4 * k + 1) 0).toNat_lt
  have b2 := (blk.getD (4 * k + 2) 0).toNat_lt
  have b3 := (blk.getD (4 * k + 3) 0).toNat_lt
  unfold beWordAt; omega

theorem sha1Words16_eq (blk : Bytes) : sha1Words16 blk = (List.range 16).map (beWordAt blk) := by
  unfold sha1Words16
  have : Gen.sha1NFirst = 16 := rfl
  rw [this]
  apply List.map_congr_left
  intro i _
  have e : ∀ j, i * 4 + j = 4 * i + j := by intro j; omega
  simp only [byteAt, e, Nat.add_zero]
  exact sha1Word_eq _ _ _ _ (UInt8.toNat_lt _) (UInt8.toNat_lt _) (UInt8.toNat_lt _) (UInt8.toNat_lt _)

def AllW32 (l : List Nat) : Prop := ∀ x ∈ l, x < 2 ^ 32

theorem getD_lt (l : List Nat) (h : AllW32 l) (i : Nat) : l.getD i 0 < 2 ^ 32 := by
  rw [List.getD_eq_getElem?_getD]
  cases hi : l[i]? with
  | none => simp
  | some v => simpa using h v (List.mem_of_getElem? hi)

theorem sha1Extend_eq : ∀ (n : Nat) (w : List Nat), AllW32 w → sha1Extend n w = sha1Expand n w
  | 0, _, _ => rfl
  | n + 1, w, hw => by
    have hx : w.getD 2 0 ^^^ w.getD 7 0 ^^^ w.getD 13 0 ^^^ w.getD 15 0 < 2 ^ 32 :=
      Nat.xor_lt_two_pow (Nat.xor_lt_two_pow (Nat.xor_lt_two_pow (getD_lt w hw 2) (getD_lt w hw 7)) (getD_lt w hw 13))
        (getD_lt w hw 15)
    have e : Gen.sha1Sched (w.getD 2 0) (w.getD 7 0) (w.getD 13 0) (w.getD 15 0) =
        rotl32 (w.getD 2 0 ^^^ w.getD 7 0 ^^^ w.getD 13 0 ^^^ w.getD 15 0) 1 := by
      unfold Gen.sha1Sched
      exact sha1RotL_eq _ 1 hx (by decide)
    simp only [sha1Extend, sha1Expand, e]
    apply sha1Extend_eq n
    intro x hxm
    rcases List.mem_cons.mp hxm with rfl | h
    · exact rotl32_lt _ _ hx
    · exact hw x h

theorem sha1W_eq (blk : Bytes) : sha1W blk = Spec.sha1W blk := by
  unfold sha1W Spec.sha1W
  have : Gen.sha1NWords - Gen.sha1NFirst = 64 := rfl
  rw [this, sha1Words16_eq, sha1Extend_eq]
  intro x hx
  simp only [List.mem_reverse, List.mem_map] at hx
  obtain ⟨k, _, rfl⟩ := hx
  exact beWordAt_lt blk k

theorem not32_testBit (x j : Nat) (hx : x < 2 ^ 32) :
    (4294967295 - x % 4294967296).testBit j = (decide (j < 32) && !x.testBit j) := by
  have e : 4294967295 - x % 4294967296 = 2 ^ 32 - (x + 1) := by omega
  rw [e, Nat.testBit_two_pow_sub_succ hx]

theorem sha1F0_eq (b c d : Nat) (hb : b < 2 ^ 32) : Gen.sha1F0 b c d = sha1Ch b c d := by
  unfold Gen.sha1F0 sha1Ch not32 M32
  have e : 4294967296 - 1 - b % 4294967296 = 4294967295 - b % 4294967296 := by omega
  rw [e]
  apply Nat.eq_of_testBit_eq
  intro j
  simp only [Nat.testBit_or, Nat.testBit_xor, Nat.testBit_and, not32_testBit b j hb]
  cases b.testBit j <;> cases c.testBit j <;> cases d.testBit j <;> simp

theorem sha1F2_eq (b c d : Nat) : Gen.sha1F2 b c d = sha1Maj b c d := by
  unfold Gen.sha1F2 sha1Maj
  apply Nat.eq_of_testBit_eq
  intro j
  simp only [Nat.testBit_or, Nat.testBit_xor, Nat.testBit_and]
  cases b.testBit j <;> cases c.testBit j <;> cases d.testBit j <;> rfl

def W5 (r : Nat × Nat × Nat × Nat × Nat) : Prop :=
  r.1 < 2 ^ 32 ∧ r.2.1 < 2 ^ 32 ∧ r.2.2.1 < 2 ^ 32 ∧ r.2.2.2.1 < 2 ^ 32 ∧ r.2.2.2.2 < 2 ^ 32

theorem sha1Round_eq (r : Nat × Nat × Nat × Nat × Nat) (iw : Nat × Nat) (h : W5 r) :
    sha1Round r iw = sha1Step r iw := by
  obtain ⟨a, b, c, d, e⟩ := r
  obtain ⟨i, w⟩ := iw
  obtain ⟨ha, hb, _, _, _⟩ := h
  simp only at ha hb
  have hB : Gen.sha1Bounds = [20, 40, 60] := rfl
  simp only [sha1Round, sha1Step, hB, List.getD_cons_zero, List.getD_cons_succ, sha1F, sha1K]
  have hc : Gen.sha1NewC b = rotl32 b 30 := by unfold Gen.sha1NewC; exact sha1RotL_eq b 30 hb (by decide)
  have ht : ∀ f k, Gen.sha1Temp a f e k w = (rotl32 a 5 + f + e + k + w) % M32 := by
    intro f k
    unfold Gen.sha1Temp M32
    rw [sha1RotL_eq a 5 ha (by decide)]
    omega
  by_cases h1 : i < 20
  · simp only [h1, if_true, ht, hc, sha1F0_eq b c d hb]; rfl
  · by_cases h2 : i < 40
    · simp only [h1, h2, if_true, if_false, ht, hc]; rfl
    · by_cases h3 : i < 60
      · simp only [h1, h2, h3, if_true, if_false, ht, hc, sha1F2_eq]; rfl
      · simp only [h1, h2, h3, if_false, ht, hc]; rfl

theorem sha1Step_w5 (r : Nat × Nat × Nat × Nat × Nat) (iw : Nat × Nat) (h : W5 r) : W5 (sha1Step r iw) := by
  obtain ⟨a, b, c, d, e⟩ := r
  obtain ⟨i, w⟩ := iw
  obtain ⟨ha, hb, hc, hd, _⟩ := h
  simp only at ha hb hc hd
  exact ⟨Nat.mod_lt _ (by decide), ha, rotl32_lt b 30 hb, hc, hd⟩

theorem foldl_congr_inv {σ α : Type} (P : σ → Prop) (f g : σ → α → σ) (hfg : ∀ s x, P s → f s x = g s x)
    (hP : ∀ s x, P s → P (g s x)) : ∀ (l : List α) (s : σ), P s → l.foldl f s = l.foldl g s
  | [], _, _ => rfl
  | x :: l, s, h => by
    simp only [List.foldl_cons]
    rw [hfg _ _ h]
    exact foldl_congr_inv P f g hfg hP l _ (hP _ _ h)

/-- `sha1::process_block()` as translated = the compression function of FIPS 180-4 §6.1.2 on 32-bit words -/
theorem sha1ProcessBlock_eq (h0 h1 h2 h3 h4 : Nat) (blk : Bytes)
    (hw : h0 < 2 ^ 32 ∧ h1 < 2 ^ 32 ∧ h2 < 2 ^ 32 ∧ h3 < 2 ^ 32 ∧ h4 < 2 ^ 32) :
    sha1ProcessBlock [h0, h1, h2, h3, h4] blk = sha1Compress [h0, h1, h2, h3, h4] blk := by
  unfold sha1ProcessBlock sha1Compress
  have hn : Gen.sha1NWords = 80 := rfl
  simp only [List.getD_cons_zero, List.getD_cons_succ, hn, sha1W_eq]
  rw [foldl_congr_inv W5 sha1Round sha1Step sha1Round_eq sha1Step_w5 _ (h0, h1, h2, h3, h4) hw]
  generalize ((List.range 80).zip (Spec.sha1W blk)).foldl sha1Step (h0, h1, h2, h3, h4) = r
  obtain ⟨a, b, c, d, e⟩ := r
  simp [Gen.sha1Acc, M32]

def St5 (st : List Nat) : Prop := st.length = 5 ∧ AllW32 st

theorem sha1ProcessBlock_eq' (st : List Nat) (blk : Bytes) (h : St5 st) :
    sha1ProcessBlock st blk = sha1Compress st blk := by
  obtain ⟨hl, hw⟩ := h
  match st, hl with
  | [h0, h1, h2, h3, h4], _ =>
    exact sha1ProcessBlock_eq h0 h1 h2 h3 h4 blk
      ⟨hw h0 (by simp), hw h1 (by simp), hw h2 (by simp), hw h3 (by simp), hw h4 (by simp)⟩

theorem sha1Compress_st5 (st : List Nat) (blk : Bytes) : St5 (sha1Compress st blk) := by
  unfold sha1Compress
  dsimp only
  generalize ((List.range 80).zip (Spec.sha1W blk)).foldl sha1Step
    (st.getD 0 0, st.getD 1 0, st.getD 2 0, st.getD 3 0, st.getD 4 0) = r
  obtain ⟨a, b, c, d, e⟩ := r
  refine ⟨rfl, ?_⟩
  intro x hx
  simp only [List.mem_cons, List.not_mem_nil, or_false] at hx
  rcases hx with rfl | rfl | rfl | rfl | rfl <;> exact Nat.mod_lt _ (by decide)

theorem and255' (x : Nat) : x &&& 255 = x % 256 := Nat.and_two_pow_sub_one_eq_mod x 8

theorem sha1WordBytes_eq (w : Nat) : nats (Gen.sha1WordBytes w) = be32 w := by
  have hr4 : List.range 4 = [0, 1, 2, 3] := by decide
  simp only [Gen.sha1WordBytes, nats, be32, le32, hr4, List.map_cons, List.map_nil, List.reverse_cons,
    List.reverse_nil, List.nil_append, List.cons_append, and255', Nat.shiftRight_eq_div_pow]
  simp only [List.cons.injEq, and_true]
  refine ⟨?_, ?_, ?_, ?_⟩ <;> congr 1 <;> simp <;> omega

theorem sha1Out_eq (st : List Nat) : sha1Out st = st.flatMap be32 := by
  unfold sha1Out nats
  induction st with
  | nil => rfl
  | cons w st ih =>
    simp only [List.flatMap_cons, List.map_append, ih]
    congr 1
    exact sha1WordBytes_eq w

/-- the hash the SHA-1 model computes is FIPS 180-4's SHA-1 -/
theorem sha1Hash_eq_spec (m : Bytes) : sha1Hash m = Spec.sha1 m := by
  unfold sha1Hash Spec.sha1 mdHash
  have hiv : Gen.sha1Init = sha1IV := by decide
  have h0 : St5 sha1IV := ⟨rfl, by intro x hx; revert x; decide⟩
  rw [hiv]
  have e := absorb_congr St5 sha1ProcessBlock sha1Compress
    sha1ProcessBlock_eq' (fun s b _ => sha1Compress_st5 s b) sha1IV (pad be64 m) h0
  rw [e, sha1Out_eq]

end Cppcms.C16
