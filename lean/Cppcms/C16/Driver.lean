import Cppcms.Common
import Cppcms.C16.Model
import Cppcms.C16.Spec
/-! Line-protocol driver for C16.

Model lines (answered by the state machines of `Model.lean`):
* `dg md5|sha1 <chunk>* (/ <chunk>*)*` — one digest object, one message per `/`-separated group, each
  chunk one `append`; prints the read-outs.
* `hmac md5|sha1 <key> <chunk>* (/ <chunk>*)*` — same for one `hmac` object.
* `cbc <iv> <table> (e|d <blocks>)*` — one `cbc` object after `set_iv`; `<table>` lists the block
  function as `in:out` pairs recorded from libcrypto's raw AES (oracle answers for the external);
  every `e`/`d` group is one `encrypt`/`decrypt` call on whole 16-byte blocks.
* `cbcuse <bits> <key|none> <iv|none>` — `set_key`/`set_iv` (when given) then `encrypt`: which error, if any.
* `key <text>` — `key::set_hex`; `keyfile <content>` — `key::read_from_file`.
Judge lines (`J …`, answered by the definitions of `Spec.lean` only) evaluate the property predicate
on an output of the implementation. -/
open Cppcms Cppcms.C16

def zeros64 : Bytes := List.replicate 64 0

/-- split a word list at "/" -/
def groups : List String → List (List String)
  | [] => [[]]
  | w :: ws =>
    match groups ws with
    | [] => [[w]]
    | g :: gs => if w == "/" then [] :: g :: gs else (w :: g) :: gs

def parseAll (ws : List String) : Option (List Bytes) := ws.mapM parseHex

def parseSession (ws : List String) : Option (List (List Bytes)) := (groups ws).mapM parseAll

def joinHex (ds : List Bytes) : String := " ".intercalate (ds.map toHex)

def runSession {σ : Type} (H : HashObj σ) (ws : List String) : String :=
  match parseSession ws with
  | some msgs => joinHex (H.session H.fresh msgs)
  | none => "bad-op"

def keyStr : KeyResult → String
  | .ok k => "ok " ++ toHex k
  | .oddLength => "odd"
  | .invalidChar => "invalid"

def specKeyStr (s : Bytes) : String :=
  if s.length % 2 == 1 then "odd" else
  match Spec.fromHex s with
  | some k => "ok " ++ toHex k
  | none => "invalid"

def parseTable (s : String) : Option (List (Bytes × Bytes)) :=
  if s == "-" then some [] else
  (s.splitOn ",").mapM fun p =>
    match p.splitOn ":" with
    | [a, b] => match parseHex a, parseHex b with
      | some x, some y => some (x, y)
      | _, _ => none
    | _ => none

def lookup (t : List (Bytes × Bytes)) (x : Bytes) : Bytes :=
  match t.find? (fun p => p.1 == x) with
  | some p => p.2
  | none => []   -- a block the oracle was not asked about: shows up as a diff

def lookupInv (t : List (Bytes × Bytes)) (y : Bytes) : Bytes :=
  match t.find? (fun p => p.2 == y) with
  | some p => p.1
  | none => []

def cbcRunLine (t : List (Bytes × Bytes)) : CbcState Bytes → List String → Option (List String)
  | _, [] => some []
  | s, "e" :: h :: rest => do
    let d ← parseHex h
    let (o, s') := cbcEncryptCall (osslCbc xorBytes (lookup t) (lookupInv t)) s (Spec.chunks 16 d)
    let r ← cbcRunLine t s' rest
    pure (toHex o.flatten :: r)
  | s, "d" :: h :: rest => do
    let d ← parseHex h
    let (o, s') := cbcDecryptCall (osslCbc xorBytes (lookup t) (lookupInv t)) s (Spec.chunks 16 d)
    let r ← cbcRunLine t s' rest
    pure (toHex o.flatten :: r)
  | _, _ => none

def step (_ : Unit) (line : String) : Unit × String :=
  let r : String :=
    match words line with
    | "dg" :: "md5" :: ws | "dg2" :: "md5" :: ws => runSession (md5Obj zeros64) ws
    | "dg" :: "sha1" :: ws | "dg2" :: "sha1" :: ws => runSession (sha1Obj zeros64) ws
    | "hmac" :: "md5" :: k :: ws | "hmac2" :: "md5" :: k :: ws => match parseHex k with
      | some key => runSession (hmacObj (md5Obj zeros64) key) ws
      | none => "bad-op"
    | "hmac" :: "sha1" :: k :: ws | "hmac2" :: "sha1" :: k :: ws => match parseHex k with
      | some key => runSession (hmacObj (sha1Obj zeros64) key) ws
      | none => "bad-op"
    | "cbc" :: _bits :: _key :: iv :: tbl :: ws => match parseHex iv, parseTable tbl with
      | some iv, some t => (match cbcRunLine t (cbcSetIv ⟨List.replicate 16 0, List.replicate 16 0⟩ iv) ws with
        | some outs => " ".intercalate outs
        | none => "bad-op")
      | _, _ => "bad-op"
    | ["cbcuse", bits, k, iv] =>
      let opt (x : String) : Option (Option Bytes) := if x == "none" then some none else (parseHex x).map some
      (match bits.toNat?, opt k, opt iv with
      | some b, some k, some iv => (match cbcUse b k iv with
        | .ok => "ok" | .keySize => "err-key-size" | .ivSize => "err-iv-size" | .noKey => "err-no-key" | .noIv => "err-no-iv")
      | _, _, _ => "bad-op")
    | ["key", h] => match parseHex h with
      | some s => keyStr (setHex s)
      | none => "bad-op"
    | ["keyfile", h] => match parseHex h with
      | some s => (match readFromFile s with
        | .emptyFile => "empty-file"
        | .parsed r => keyStr r)
      | none => "bad-op"
    | ["sha1len", n] => match n.toNat? with
      | some k => toHex (nats (Gen.sha1LenBytes (Gen.sha1BitCount (k % 2 ^ 64))))
      | none => "bad-op"
    -- judges: `Spec` only
    | ["J", "md5", m, d] => match parseHex m, parseHex d with
      | some m, some d => boolStr (Spec.md5 m == d)
      | _, _ => "bad-op"
    | ["J", "sha1", m, d] => match parseHex m, parseHex d with
      | some m, some d => boolStr (Spec.sha1 m == d)
      | _, _ => "bad-op"
    | ["J", "hmac", "md5", k, m, d] => match parseHex k, parseHex m, parseHex d with
      | some k, some m, some d => boolStr (Spec.hmac Spec.md5 64 k m == d)
      | _, _, _ => "bad-op"
    | ["J", "hmac", "sha1", k, m, d] => match parseHex k, parseHex m, parseHex d with
      | some k, some m, some d => boolStr (Spec.hmac Spec.sha1 64 k m == d)
      | _, _, _ => "bad-op"
    | "J" :: "key" :: h :: res => match parseHex h with
      | some s => boolStr (specKeyStr s == " ".intercalate res)
      | none => "bad-op"
    | "J" :: "keyfile" :: h :: res => match parseHex h with
      | some s => boolStr ((if s.isEmpty then "empty-file" else specKeyStr (Spec.rstrip s)) == " ".intercalate res)
      | none => "bad-op"
    | ["J", "sha1len", n, d] => match n.toNat?, parseHex d with
      | some k, some d => boolStr (Spec.be64 (8 * k % 2 ^ 64) == d)
      | _, _ => "bad-op"
    | _ => "bad-op"
  ((), r)

def main : IO Unit := lineLoop () step
