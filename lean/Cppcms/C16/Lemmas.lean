import Cppcms.C16.Model
/-! Helper lemmas for C16: block splitting, the MD5 and SHA-1 state-machine invariants. -/
namespace Cppcms.C16
open Cppcms Cppcms.C16.Spec

/-! ## splitting into blocks -/

theorem chunksAux_append (n : Nat) : ∀ (j k : Nat) (a b : Bytes), a.length = n * j →
    chunksAux n (j + k) (a ++ b) = chunksAux n j a ++ chunksAux n k b
  | 0, k, a, b, h => by
    have : a = [] := List.eq_nil_of_length_eq_zero (by simpa using h)
    subst this; simp [chunksAux]
  | j + 1, k, a, b, h => by
    have hn : n ≤ a.length := by rw [h, Nat.mul_succ]; exact Nat.le_add_left _ _
    have h1 : (a ++ b).take n = a.take n := List.take_append_of_le_length hn
    have h2 : (a ++ b).drop n = a.drop n ++ b := List.drop_append_of_le_length hn
    have h3 : (a.drop n).length = n * j := by rw [List.length_drop, h, Nat.mul_succ]; omega
    have : j + 1 + k = (j + k) + 1 := by omega
    rw [this]
    simp only [chunksAux, h1, h2, List.cons_append]
    rw [chunksAux_append n j k _ _ h3]

theorem chunks_append (a b : Bytes) (h : a.length % 64 = 0) :
    chunks 64 (a ++ b) = chunks 64 a ++ chunks 64 b := by
  unfold chunks
  have ha : a.length = 64 * (a.length / 64) := by omega
  have : (a ++ b).length / 64 = a.length / 64 + b.length / 64 := by
    rw [List.length_append]; omega
  rw [this]
  exact chunksAux_append 64 _ _ a b ha

theorem absorb_short {σ : Type} (f : σ → Bytes → σ) (st : σ) (l : Bytes) (h : l.length < 64) :
    absorb f st l = st := by
  have : l.length / 64 = 0 := by omega
  simp [absorb, chunks, this, chunksAux]

theorem absorb_append {σ : Type} (f : σ → Bytes → σ) (st : σ) (a b : Bytes) (h : a.length % 64 = 0) :
    absorb f st (a ++ b) = absorb f (absorb f st a) b := by
  simp [absorb, chunks_append a b h, List.foldl_append]

theorem absorb_block {σ : Type} (f : σ → Bytes → σ) (st : σ) (blk : Bytes) (h : blk.length = 64) :
    absorb f st blk = f st blk := by
  have : blk.length / 64 = 1 := by omega
  simp [absorb, chunks, this, chunksAux, List.take_of_length_le (Nat.le_of_eq h)]

theorem absorb_cons_block {σ : Type} (f : σ → Bytes → σ) (st : σ) (blk rest : Bytes) (h : blk.length = 64) :
    absorb f st (blk ++ rest) = absorb f (f st blk) rest := by
  rw [absorb_append f st blk rest (by omega), absorb_block f st blk h]

/-- the bytes after the last complete block -/
def tailOf (l : Bytes) : Bytes := l.drop (l.length / 64 * 64)

theorem tailOf_length (l : Bytes) : (tailOf l).length = l.length % 64 := by
  simp [tailOf, List.length_drop]; omega

theorem take_append_tailOf (l : Bytes) : l.take (l.length / 64 * 64) ++ tailOf l = l := by
  simp [tailOf]

theorem tailOf_short (l : Bytes) (h : l.length < 64) : tailOf l = l := by
  have : l.length / 64 = 0 := by omega
  simp [tailOf, this]

theorem tailOf_block (l : Bytes) (h : l.length = 64) : tailOf l = [] := by
  simp [tailOf, h]

theorem tailOf_append_of_dvd (a b : Bytes) (h : a.length % 64 = 0) : tailOf (a ++ b) = tailOf b := by
  unfold tailOf
  have : (a ++ b).length / 64 * 64 = a.length + b.length / 64 * 64 := by
    rw [List.length_append]; omega
  rw [this, List.drop_append]
  simp

theorem absorb_eq_take {σ : Type} (f : σ → Bytes → σ) (st : σ) (l : Bytes) :
    absorb f st l = absorb f st (l.take (l.length / 64 * 64)) := by
  have hlen : (l.take (l.length / 64 * 64)).length % 64 = 0 := by
    rw [List.length_take]; omega
  conv => lhs; rw [← take_append_tailOf l]
  rw [absorb_append f st _ _ hlen, absorb_short f _ (tailOf l) (by rw [tailOf_length]; omega)]

/-- (D): absorbing `m ++ d` continues from the value after `m` with the pending tail of `m` -/
theorem absorb_append_tail {σ : Type} (f : σ → Bytes → σ) (st : σ) (m d : Bytes) :
    absorb f st (m ++ d) = absorb f (absorb f st m) (tailOf m ++ d) := by
  have hlen : (m.take (m.length / 64 * 64)).length % 64 = 0 := by
    rw [List.length_take]; omega
  conv => lhs; rw [← take_append_tailOf m, List.append_assoc]
  rw [absorb_append f st _ _ hlen, ← absorb_eq_take]

theorem tailOf_append (m d : Bytes) : tailOf (m ++ d) = tailOf (tailOf m ++ d) := by
  have hlen : (m.take (m.length / 64 * 64)).length % 64 = 0 := by
    rw [List.length_take]; omega
  conv => lhs; rw [← take_append_tailOf m, List.append_assoc]
  exact tailOf_append_of_dvd _ _ hlen

/-! ## MD5 -/

theorem md5BlockLen_eq : Gen.md5BlockLen = 64 := rfl

theorem md5Loop_spec : ∀ (fuel : Nat) (r : List Nat) (p : Bytes), p.length / 64 ≤ fuel →
    md5Loop fuel r p = (absorb md5Process r p, tailOf p)
  | 0, r, p, h => by
    have hp : p.length < 64 := by omega
    simp [md5Loop, absorb_short _ _ _ hp, tailOf_short _ hp]
  | f + 1, r, p, h => by
    unfold md5Loop
    rw [md5BlockLen_eq]
    by_cases hp : p.length ≥ 64
    · simp only [hp, if_true]
      have hlen : (p.take 64).length = 64 := by rw [List.length_take]; omega
      rw [md5Loop_spec f _ _ (by rw [List.length_drop]; omega)]
      have e1 : absorb md5Process r p = absorb md5Process (md5Process r (p.take 64)) (p.drop 64) := by
        conv => lhs; rw [← List.take_append_drop 64 p]
        exact absorb_cons_block _ _ _ _ hlen
      have e2 : tailOf p = tailOf (p.drop 64) := by
        conv => lhs; rw [← List.take_append_drop 64 p]
        exact tailOf_append_of_dvd _ _ (by omega)
      rw [e1, e2]
    · have hp' : p.length < 64 := by omega
      simp [hp, absorb_short _ _ _ hp', tailOf_short _ hp']

theorem memcpy_length (dst src : Bytes) (off : Nat) (h : off + src.length ≤ dst.length) :
    (memcpy dst off src).length = dst.length := by
  simp [memcpy, List.length_take, List.length_drop]; omega

theorem md5Tail_spec (s : Md5State) (p : Bytes) (hb : s.buf.length = 64) :
    (md5Tail s p).abcd = absorb md5Process s.abcd p ∧ (md5Tail s p).buf.length = 64 ∧
    (md5Tail s p).buf.take (p.length % 64) = tailOf p ∧
    (md5Tail s p).count0 = s.count0 ∧ (md5Tail s p).count1 = s.count1 := by
  unfold md5Tail
  rw [md5Loop_spec p.length s.abcd p (by omega)]
  have htl := tailOf_length p
  dsimp only
  by_cases h0 : (tailOf p).length ≠ 0
  · rw [if_pos h0]
    refine ⟨rfl, ?_, ?_, rfl, rfl⟩
    · rw [memcpy_length _ _ _ (by omega)]; exact hb
    · simp [memcpy, ← htl]
  · rw [if_neg h0]
    have : tailOf p = [] := List.eq_nil_of_length_eq_zero (by omega)
    refine ⟨rfl, hb, ?_, rfl, rfl⟩
    rw [this, ← htl, this]; simp

theorem md5Tail_spec' (c0 c1 : Nat) (abcd : List Nat) (buf p : Bytes) (hb : buf.length = 64) :
    (md5Tail ⟨c0, c1, abcd, buf⟩ p).abcd = absorb md5Process abcd p ∧
    (md5Tail ⟨c0, c1, abcd, buf⟩ p).buf.length = 64 ∧
    (md5Tail ⟨c0, c1, abcd, buf⟩ p).buf.take (p.length % 64) = tailOf p :=
  ⟨(md5Tail_spec ⟨c0, c1, abcd, buf⟩ p hb).1, (md5Tail_spec ⟨c0, c1, abcd, buf⟩ p hb).2.1,
   (md5Tail_spec ⟨c0, c1, abcd, buf⟩ p hb).2.2.1⟩

theorem and63 (x : Nat) : x &&& 63 = x % 64 := Nat.and_two_pow_sub_one_eq_mod x 6

theorem md5Offset_eq (L : Nat) : Gen.md5Offset (8 * L % 2 ^ 32) = L % 64 := by
  simp only [Gen.md5Offset, and63, Nat.shiftRight_eq_div_pow]; omega

theorem md5Nbits_eq (n : Nat) : Gen.md5Nbits n = 8 * n % 2 ^ 32 := by
  simp only [Gen.md5Nbits, Nat.shiftLeft_eq]; omega

theorem md5HiInc_eq (n : Nat) : Gen.md5HiInc n = n / 2 ^ 29 := by
  simp only [Gen.md5HiInc, Nat.shiftRight_eq_div_pow]

theorem md5Copy_eq (off n : Nat) (ho : off < 64) (_hn : n < 2 ^ 31) :
    Gen.md5Copy off n = if off + n > 64 then 64 - off else n := by
  simp only [Gen.md5Copy]
  have : (off + n) % 4294967296 = off + n := by omega
  rw [this]
  by_cases h : off + n > 64 <;> simp [h] <;> omega

theorem md5EarlyRet_eq (off c : Nat) (h : off + c ≤ 64) : Gen.md5EarlyRet off c = decide (off + c < 64) := by
  simp only [Gen.md5EarlyRet]
  have : (off + c) % 4294967296 = off + c := by omega
  rw [this]

/-- the two length words after an append of `n < 2^31` bytes -/
theorem md5_count_step (L n : Nat) :
    let c0 := 8 * L % 2 ^ 32
    let c1 := 8 * L / 2 ^ 32 % 2 ^ 32
    let nbits := 8 * n % 2 ^ 32
    let c1' := (c1 + n / 2 ^ 29) % 2 ^ 32
    let c0' := (c0 + nbits) % 2 ^ 32
    c0' = 8 * (L + n) % 2 ^ 32 ∧
    (if c0' < nbits then (c1' + 1) % 2 ^ 32 else c1') = 8 * (L + n) / 2 ^ 32 % 2 ^ 32 := by
  intro c0 c1 nbits c1' c0'
  refine ⟨by omega, ?_⟩
  by_cases h : c0' < nbits
  · simp only [h, if_true]; omega
  · simp only [h, if_false]; omega

/-- the buffer hand-over of `md5_append`, stated on the pending bytes `buf[0..off)` and the new data -/
theorem md5AppendCore_local (s : Md5State) (d : Bytes) (off : Nat) (hb : s.buf.length = 64)
    (hoff : Gen.md5Offset s.count0 = off) (ho : off < 64) (hn2 : d.length < 2 ^ 31) :
    (md5AppendCore s d).abcd = absorb md5Process s.abcd (s.buf.take off ++ d) ∧
    (md5AppendCore s d).buf.length = 64 ∧
    (md5AppendCore s d).buf.take ((off + d.length) % 64) = tailOf (s.buf.take off ++ d) := by
  unfold md5AppendCore
  simp only [hoff]
  by_cases h0 : off = 0
  · subst h0
    simp only [ne_eq, not_true_eq_false, if_false, List.take_zero, List.nil_append, Nat.zero_add]
    exact md5Tail_spec' _ _ _ _ d hb
  · rw [if_pos h0]
    rw [md5Copy_eq off d.length ho hn2]
    have hr : (s.buf.take off).length = off := by rw [List.length_take]; omega
    by_cases h1 : off + d.length > 64
    · -- the new data completes the pending block and goes on
      rw [if_pos h1]
      have hc : (d.take (64 - off)).length = 64 - off := by rw [List.length_take]; omega
      have hbuf1 : memcpy s.buf off (d.take (64 - off)) = s.buf.take off ++ d.take (64 - off) := by
        simp only [memcpy, hc]
        rw [List.drop_of_length_le (by omega)]; simp
      have hlen1 : (s.buf.take off ++ d.take (64 - off)).length = 64 := by
        rw [List.length_append, hr, hc]; omega
      rw [md5EarlyRet_eq off (64 - off) (by omega)]
      have : ¬ (off + (64 - off) < 64) := by omega
      simp only [this, decide_false, Bool.false_eq_true, if_false, hbuf1]
      obtain ⟨t1, t2, t3, _, _⟩ := md5Tail_spec
        ⟨_, _, md5Process s.abcd (s.buf.take off ++ d.take (64 - off)), s.buf.take off ++ d.take (64 - off)⟩
        (d.drop (64 - off)) hlen1
      have esplit : s.buf.take off ++ d = (s.buf.take off ++ d.take (64 - off)) ++ d.drop (64 - off) := by
        rw [List.append_assoc, List.take_append_drop]
      refine ⟨?_, t2, ?_⟩
      · rw [t1, esplit, absorb_cons_block _ _ _ _ hlen1]
      · rw [esplit, tailOf_append_of_dvd _ _ (by omega), ← t3]
        congr 1
        rw [List.length_drop]; omega
    · rw [if_neg h1]
      rw [List.take_of_length_le (Nat.le_refl _)]
      rw [md5EarlyRet_eq off d.length (by omega)]
      by_cases h2 : off + d.length < 64
      · -- still short of a block: early return
        simp only [h2, decide_true, if_true]
        have hl : (s.buf.take off ++ d).length < 64 := by rw [List.length_append, hr]; exact h2
        refine ⟨(absorb_short _ _ _ hl).symm, ?_, ?_⟩
        · rw [memcpy_length _ _ _ (by omega)]; exact hb
        · rw [tailOf_short _ hl, Nat.mod_eq_of_lt h2]
          simp only [memcpy]
          rw [List.take_append_of_le_length (by rw [List.length_append, hr]; exact Nat.le_refl _)]
          rw [List.take_of_length_le (by rw [List.length_append, hr]; exact Nat.le_refl _)]
      · -- exactly one block
        have h64 : off + d.length = 64 := by omega
        simp only [h2, decide_false, Bool.false_eq_true, if_false]
        have hbuf1 : memcpy s.buf off d = s.buf.take off ++ d := by
          simp only [memcpy]
          rw [List.drop_of_length_le (by omega)]; simp
        have hlen1 : (s.buf.take off ++ d).length = 64 := by rw [List.length_append, hr]; exact h64
        rw [hbuf1, List.drop_of_length_le (Nat.le_refl _)]
        obtain ⟨t1, t2, t3, _, _⟩ := md5Tail_spec
          ⟨_, _, md5Process s.abcd (s.buf.take off ++ d), s.buf.take off ++ d⟩ [] hlen1
        refine ⟨?_, t2, ?_⟩
        · rw [t1, absorb_short _ _ [] (by simp), absorb_block _ _ _ hlen1]
        · rw [h64]; simp [tailOf, hlen1]

structure Md5Inv (s : Md5State) (m : Bytes) : Prop where
  abcd : s.abcd = absorb md5Process Gen.md5Init m
  buflen : s.buf.length = 64
  buf : s.buf.take (m.length % 64) = tailOf m
  c0 : s.count0 = 8 * m.length % 2 ^ 32
  c1 : s.count1 = 8 * m.length / 2 ^ 32 % 2 ^ 32

theorem md5Init_inv (buf : Bytes) (h : buf.length = 64) : Md5Inv (md5Init buf) [] := by
  refine ⟨?_, h, ?_, rfl, rfl⟩
  · exact (absorb_short _ _ [] (by simp)).symm
  · simp [tailOf]

theorem md5Tail_counts (s : Md5State) (p : Bytes) :
    (md5Tail s p).count0 = s.count0 ∧ (md5Tail s p).count1 = s.count1 := by
  unfold md5Tail
  dsimp only
  split <;> exact ⟨rfl, rfl⟩

theorem md5AppendCore_counts (s : Md5State) (d : Bytes) :
    (md5AppendCore s d).count0 = (s.count0 + Gen.md5Nbits d.length) % 2 ^ 32 ∧
    (md5AppendCore s d).count1 =
      (if Gen.md5Carry ((s.count0 + Gen.md5Nbits d.length) % 2 ^ 32) (Gen.md5Nbits d.length)
        then ((s.count1 + Gen.md5HiInc d.length) % 2 ^ 32 + 1) % 2 ^ 32
        else (s.count1 + Gen.md5HiInc d.length) % 2 ^ 32) := by
  unfold md5AppendCore
  dsimp only
  split
  · split
    · exact ⟨rfl, rfl⟩
    · exact md5Tail_counts _ _
  · exact md5Tail_counts _ _

theorem md5AppendCore_inv (s : Md5State) (m d : Bytes) (hi : Md5Inv s m) (hd : d.length < 2 ^ 31) :
    Md5Inv (md5AppendCore s d) (m ++ d) := by
  have hoff : Gen.md5Offset s.count0 = m.length % 64 := by rw [hi.c0]; exact md5Offset_eq _
  obtain ⟨l1, l2, l3⟩ := md5AppendCore_local s d (m.length % 64) hi.buflen hoff (by omega) hd
  obtain ⟨k0, k1⟩ := md5AppendCore_counts s d
  have hstep := md5_count_step m.length d.length
  simp only at hstep
  refine ⟨?_, l2, ?_, ?_, ?_⟩
  · rw [l1, hi.abcd, hi.buf, ← absorb_append_tail]
  · rw [tailOf_append, ← hi.buf, ← l3]
    congr 1
    rw [List.length_append]; omega
  · rw [k0, md5Nbits_eq, hi.c0, List.length_append]; exact hstep.1
  · rw [k1, md5Nbits_eq, md5HiInc_eq, hi.c0, hi.c1, List.length_append]
    simp only [Gen.md5Carry, decide_eq_true_eq]
    exact hstep.2

theorem md5AppendN_inv (s : Md5State) (m data : Bytes) (n : Nat) (hi : Md5Inv s m) (hn : n < 2 ^ 31) :
    Md5Inv (md5AppendN s data n) (m ++ data.take n) := by
  unfold md5AppendN
  by_cases h : n = 0
  · subst h; simpa using hi
  · rw [if_neg h]
    exact md5AppendCore_inv s m _ hi (by rw [List.length_take]; omega)

theorem md5AppendInt_inv (s : Md5State) (m data : Bytes) (n : Nat) (hi : Md5Inv s m) (hn : n < 2 ^ 31) :
    Md5Inv (md5AppendInt s data n) (m ++ data.take n) := by
  unfold md5AppendInt
  have h1 : n % 2 ^ 32 = n := Nat.mod_eq_of_lt (by omega)
  simp only [h1]
  rw [if_neg (by omega)]
  exact md5AppendN_inv s m data n hi hn

theorem md5MaxChunk_eq : Gen.md5MaxChunk = 134217728 := by decide

theorem md5AppendLoop_inv : ∀ (fuel : Nat) (s : Md5State) (m d : Bytes), Md5Inv s m → d.length < fuel →
    Md5Inv (md5AppendLoop fuel s d) (m ++ d)
  | 0, _, _, _, _, hf => by omega
  | fuel + 1, s, m, d, hi, hf => by
    unfold md5AppendLoop
    rw [md5MaxChunk_eq]
    by_cases hl : d.length > 134217728
    · rw [if_pos hl]
      have h1 := md5AppendInt_inv s m d 134217728 hi (by omega)
      have h2 := md5AppendLoop_inv fuel _ _ (d.drop 134217728) h1 (by rw [List.length_drop]; omega)
      rwa [List.append_assoc, List.take_append_drop] at h2
    · rw [if_neg hl]
      have h1 := md5AppendInt_inv s m d d.length hi (by omega)
      rwa [List.take_of_length_le (Nat.le_refl _)] at h1

theorem md5Append_inv (s : Md5State) (m d : Bytes) (hi : Md5Inv s m) :
    Md5Inv (md5Append s d) (m ++ d) :=
  md5AppendLoop_inv _ s m d hi (Nat.lt_succ_self _)

theorem md5_foldl_inv : ∀ (chunks : List Bytes) (s : Md5State) (m : Bytes), Md5Inv s m →
    Md5Inv (chunks.foldl md5Append s) (m ++ chunks.flatten)
  | [], s, m, hi => by simpa using hi
  | c :: cs, s, m, hi => by
    have h1 := md5Append_inv s m c hi
    have h2 := md5_foldl_inv cs _ _ h1
    simpa [List.append_assoc] using h2

theorem md5Pad_eq : nats Gen.md5Pad = 0x80 :: List.replicate 63 0 := by decide

theorem md5PadLen_eq (L : Nat) : Gen.md5PadLen (8 * L % 2 ^ 32) = zeroPad L + 1 := by
  simp only [Gen.md5PadLen, and63, Nat.shiftRight_eq_div_pow, zeroPad]; omega

theorem md5LenBytes_eq (s : Md5State) (L : Nat) (h0 : s.count0 = 8 * L % 2 ^ 32)
    (h1 : s.count1 = 8 * L / 2 ^ 32 % 2 ^ 32) :
    ((List.range 8).map fun i => UInt8.ofNat (Gen.md5LenByte (md5Count s) i)) = le64 (8 * L % 2 ^ 64) := by
  have hr : List.range 8 = [0, 1, 2, 3, 4, 5, 6, 7] := by decide
  simp only [le64, hr, List.map_cons, List.map_nil, Gen.md5LenByte, md5Count, h0, h1,
    Nat.shiftRight_eq_div_pow, Nat.shiftLeft_eq]
  simp only [List.cons.injEq, and_true]
  refine ⟨?_, ?_, ?_, ?_, ?_, ?_, ?_, ?_⟩ <;> congr 1 <;> simp <;> omega

theorem take_pad (k : Nat) (hk : k ≤ 63) :
    (nats Gen.md5Pad).take (k + 1) = 0x80 :: List.replicate k 0 := by
  rw [md5Pad_eq, List.take_succ_cons, List.take_replicate, Nat.min_eq_left hk]

theorem zeroPad_le (L : Nat) : zeroPad L ≤ 63 := by unfold zeroPad; omega

theorem md5Finish_spec (s : Md5State) (m : Bytes) (hi : Md5Inv s m) :
    (md5Finish s).1 = md5Hash m ∧ (md5Finish s).2.buf.length = 64 := by
  unfold md5Finish
  dsimp only
  have e1 := md5AppendN_inv s m (nats Gen.md5Pad) (Gen.md5PadLen s.count0) hi
    (by rw [hi.c0, md5PadLen_eq]; have := zeroPad_le m.length; omega)
  rw [hi.c0, md5PadLen_eq, take_pad _ (zeroPad_le _)] at e1
  rw [md5LenBytes_eq s m.length hi.c0 hi.c1, hi.c0, md5PadLen_eq]
  have e2 := md5AppendN_inv _ _ (le64 (8 * m.length % 2 ^ 64)) 8 e1 (by omega)
  rw [List.take_of_length_le (by simp [le64])] at e2
  refine ⟨?_, e2.buflen⟩
  rw [e2.abcd]
  rfl

theorem md5Readout_spec (s : Md5State) (m : Bytes) (hi : Md5Inv s m) :
    (md5Readout s).1 = md5Hash m ∧ Md5Inv (md5Readout s).2 [] := by
  unfold md5Readout
  exact ⟨(md5Finish_spec s m hi).1, md5Init_inv _ (md5Finish_spec s m hi).2⟩

/-! ## SHA-1 -/

structure Sha1Inv (s : Sha1State) (m : Bytes) : Prop where
  h : s.h = absorb sha1ProcessBlock Gen.sha1Init m
  blocklen : s.block.length = 64
  idx : s.idx = m.length % 64
  block : s.block.take (m.length % 64) = tailOf m
  count : s.byteCount = m.length % 2 ^ 64

theorem sha1Reset_inv (block : Bytes) (h : block.length = 64) : Sha1Inv (sha1Reset block) [] := by
  refine ⟨?_, h, rfl, ?_, rfl⟩
  · exact (absorb_short _ _ [] (by simp)).symm
  · simp [tailOf]

theorem take_succ_set (l : Bytes) (i : Nat) (b : UInt8) (h : i < l.length) :
    (l.set i b).take (i + 1) = l.take i ++ [b] := by
  rw [List.set_eq_take_append_cons_drop, if_pos h]
  have hl : (l.take i).length = i := by rw [List.length_take]; omega
  rw [List.take_append, hl, List.take_of_length_le (by omega : (l.take i).length ≤ i + 1),
    Nat.add_sub_cancel_left]
  simp

theorem sha1ProcessByte_inv (s : Sha1State) (m : Bytes) (b : UInt8) (hi : Sha1Inv s m) :
    Sha1Inv (sha1ProcessByte s b) (m ++ [b]) := by
  have hidx : s.idx < 64 := by rw [hi.idx]; omega
  have htk : (s.block.set s.idx b).take (s.idx + 1) = tailOf m ++ [b] := by
    rw [take_succ_set _ _ _ (by rw [hi.blocklen]; exact hidx), hi.idx, hi.block]
  have hlen : (tailOf m ++ [b]).length = s.idx + 1 := by
    rw [List.length_append, tailOf_length, hi.idx]; rfl
  have hbl : (s.block.set s.idx b).length = 64 := by rw [List.length_set]; exact hi.blocklen
  have hcnt : (s.byteCount + 1) % 2 ^ 64 = (m ++ [b]).length % 2 ^ 64 := by
    rw [hi.count, List.length_append]; simp
  unfold sha1ProcessByte
  dsimp only
  have hB : Gen.sha1BlockLen = 64 := rfl
  rw [hB]
  by_cases h64 : s.idx + 1 = 64
  · rw [if_pos h64]
    have hfull : s.block.set s.idx b = tailOf m ++ [b] := by
      rw [← htk, h64, List.take_of_length_le (Nat.le_of_eq hbl)]
    have hmod : (m ++ [b]).length % 64 = 0 := by
      rw [List.length_append]; simp only [List.length_singleton]; rw [hi.idx] at h64; omega
    refine ⟨?_, hbl, hmod.symm, ?_, hcnt⟩
    · rw [absorb_append_tail, ← hi.h, hfull, absorb_block _ _ _ (by rw [hlen]; exact h64)]
    · rw [hmod, List.take_zero, tailOf_append, tailOf_block _ (by rw [hlen]; exact h64)]
  · rw [if_neg h64]
    have hmod : (m ++ [b]).length % 64 = s.idx + 1 := by
      rw [List.length_append]; simp only [List.length_singleton]; rw [hi.idx] at h64 ⊢; omega
    refine ⟨?_, hbl, hmod.symm, ?_, hcnt⟩
    · rw [absorb_append_tail, ← hi.h, absorb_short _ _ _ (by rw [hlen]; omega)]
    · rw [hmod, htk, tailOf_append, tailOf_short (tailOf m ++ [b]) (by rw [hlen]; omega)]

theorem sha1Append_inv : ∀ (d : Bytes) (s : Sha1State) (m : Bytes), Sha1Inv s m →
    Sha1Inv (sha1Append s d) (m ++ d)
  | [], s, m, hi => by simpa [sha1Append] using hi
  | b :: d, s, m, hi => by
    have h1 := sha1ProcessByte_inv s m b hi
    have h2 := sha1Append_inv d _ _ h1
    simpa [sha1Append, List.append_assoc] using h2

theorem sha1_foldl_inv : ∀ (chunks : List Bytes) (s : Sha1State) (m : Bytes), Sha1Inv s m →
    Sha1Inv (chunks.foldl sha1Append s) (m ++ chunks.flatten)
  | [], s, m, hi => by simpa using hi
  | c :: cs, s, m, hi => by
    have h2 := sha1_foldl_inv cs _ _ (sha1Append_inv c s m hi)
    simpa [List.append_assoc] using h2

theorem sha1FillToZero_inv : ∀ (fuel : Nat) (s : Sha1State) (x : Bytes), Sha1Inv s x →
    (64 - x.length % 64) % 64 ≤ fuel →
    Sha1Inv (sha1FillToZero fuel s) (x ++ List.replicate ((64 - x.length % 64) % 64) 0)
  | 0, s, x, hi, hf => by
    have : (64 - x.length % 64) % 64 = 0 := by omega
    simpa [sha1FillToZero, this] using hi
  | f + 1, s, x, hi, hf => by
    unfold sha1FillToZero
    by_cases h0 : s.idx ≠ 0
    · rw [if_pos h0]
      have hx : x.length % 64 ≠ 0 := by rw [← hi.idx]; exact h0
      have h1 := sha1ProcessByte_inv s x 0 hi
      have hl : (x ++ [(0 : UInt8)]).length = x.length + 1 := by simp
      have h2 := sha1FillToZero_inv f _ _ h1 (by rw [hl]; omega)
      have hk : (64 - x.length % 64) % 64 = (64 - (x.length + 1) % 64) % 64 + 1 := by omega
      rw [hl] at h2
      rw [hk, List.replicate_succ]
      simpa [List.append_assoc] using h2
    · rw [if_neg h0]
      have : (64 - x.length % 64) % 64 = 0 := by
        have : x.length % 64 = 0 := by rw [← hi.idx]; omega
        omega
      simpa [this] using hi

theorem sha1FillBelow_inv (lim : Nat) (hlim : lim ≤ 63) : ∀ (fuel : Nat) (s : Sha1State) (x : Bytes),
    Sha1Inv s x → lim - x.length % 64 ≤ fuel →
    Sha1Inv (sha1FillBelow lim fuel s) (x ++ List.replicate (lim - x.length % 64) 0)
  | 0, s, x, hi, hf => by
    have : lim - x.length % 64 = 0 := by omega
    simpa [sha1FillBelow, this] using hi
  | f + 1, s, x, hi, hf => by
    unfold sha1FillBelow
    by_cases h0 : s.idx < lim
    · rw [if_pos h0]
      have hx : x.length % 64 < lim := by rw [← hi.idx]; exact h0
      have h1 := sha1ProcessByte_inv s x 0 hi
      have hl : (x ++ [(0 : UInt8)]).length = x.length + 1 := by simp
      have h2 := sha1FillBelow_inv lim hlim f _ _ h1 (by rw [hl]; omega)
      have hk : lim - x.length % 64 = (lim - (x.length + 1) % 64) + 1 := by omega
      rw [hl] at h2
      rw [hk, List.replicate_succ]
      simpa [List.append_assoc] using h2
    · rw [if_neg h0]
      have : lim - x.length % 64 = 0 := by rw [← hi.idx]; omega
      simpa [this] using hi

/-- `get_digest` leaves the chaining value of the padded message, provided the eight length bytes
it appends are the big-endian 64-bit bit count (`hlen`; see `Props.sha1_len_bytes_eq_be64`) -/
theorem sha1GetDigest_spec (s : Sha1State) (m : Bytes) (hi : Sha1Inv s m)
    (hlen : nats (Gen.sha1LenBytes (Gen.sha1BitCount (m.length % 2 ^ 64))) = be64 (8 * m.length % 2 ^ 64)) :
    (sha1GetDigest s).h = absorb sha1ProcessBlock Gen.sha1Init (pad be64 m) ∧
    (sha1GetDigest s).block.length = 64 := by
  unfold sha1GetDigest
  dsimp only
  have h1 := sha1ProcessByte_inv s m (UInt8.ofNat Gen.sha1PadFirst) hi
  have hl1 : (m ++ [UInt8.ofNat Gen.sha1PadFirst]).length = m.length + 1 := by simp
  rw [hi.count, hlen]
  have c56 : Gen.sha1PadHigh = 56 := rfl
  have c56a : Gen.sha1PadFill1 = 56 := rfl
  have c56b : Gen.sha1PadFill2 = 56 := rfl
  rw [c56, c56a, c56b]
  have hfirst : UInt8.ofNat Gen.sha1PadFirst = 0x80 := by decide
  by_cases hgt : (sha1ProcessByte s (UInt8.ofNat Gen.sha1PadFirst)).idx > 56
  · rw [if_pos hgt]
    have hgt' : (m.length + 1) % 64 > 56 := by rw [← hl1, ← h1.idx]; exact hgt
    have h2 := sha1FillToZero_inv 64 _ _ h1 (by omega)
    rw [hl1] at h2
    have hl2 : (m ++ [UInt8.ofNat Gen.sha1PadFirst] ++ List.replicate ((64 - (m.length + 1) % 64) % 64) (0 : UInt8)).length % 64 = 0 := by
      simp only [List.length_append, List.length_replicate, List.length_singleton]; omega
    have h3 := sha1FillBelow_inv 56 (by omega) 64 _ _ h2 (by omega)
    rw [hl2] at h3
    have h4 := sha1Append_inv (be64 (8 * m.length % 2 ^ 64)) _ _ h3
    have hz : zeroPad m.length = (64 - (m.length + 1) % 64) % 64 + (56 - 0) := by unfold zeroPad; omega
    refine ⟨?_, h4.blocklen⟩
    rw [h4.h, pad, hz, ← List.replicate_append_replicate, hfirst]
    simp [List.append_assoc]
  · rw [if_neg hgt]
    have hle : (m.length + 1) % 64 ≤ 56 := by rw [← hl1, ← h1.idx]; omega
    have h3 := sha1FillBelow_inv 56 (by omega) 64 _ _ h1 (by omega)
    rw [hl1] at h3
    have h4 := sha1Append_inv (be64 (8 * m.length % 2 ^ 64)) _ _ h3
    have hz : zeroPad m.length = 56 - (m.length + 1) % 64 := by unfold zeroPad; omega
    refine ⟨?_, h4.blocklen⟩
    rw [h4.h, pad, hz, hfirst]
    simp [List.append_assoc]

theorem sha1Readout_spec (s : Sha1State) (m : Bytes) (hi : Sha1Inv s m)
    (hlen : nats (Gen.sha1LenBytes (Gen.sha1BitCount (m.length % 2 ^ 64))) = be64 (8 * m.length % 2 ^ 64)) :
    (sha1Readout s).1 = sha1Hash m ∧ Sha1Inv (sha1Readout s).2 [] := by
  unfold sha1Readout
  dsimp only
  obtain ⟨e1, e2⟩ := sha1GetDigest_spec s m hi hlen
  refine ⟨?_, sha1Reset_inv _ e2⟩
  rw [e1]; rfl

/-! ## laws of a streaming digest object, sessions, HMAC -/

/-- `H` implements the hash function `hash`: some relation `rep s m` ("`s` has absorbed `m` since it
was last fresh / read out") is established by construction, extended by `append` (for chunks whose
length satisfies `ok`) and turned into `hash m` plus a fresh state by `readout`. -/
structure HashLaws {σ : Type} (H : HashObj σ) (hash : Bytes → Bytes) (ok : Nat → Prop) where
  rep : σ → Bytes → Prop
  fresh : rep H.fresh []
  append : ∀ s m d, rep s m → ok d.length → rep (H.append s d) (m ++ d)
  readout : ∀ s m, rep s m → (H.readout s).1 = hash m ∧ rep (H.readout s).2 []
  digest_len : ∀ m, (hash m).length = H.digestSize
  digest_le_block : H.digestSize ≤ H.blockSize
  block_ok : ok H.blockSize
  ok_mono : ∀ a b, a ≤ b → ok b → ok a

theorem absorb_preserves {σ : Type} (P : σ → Prop) (f : σ → Bytes → σ) (hf : ∀ s b, P s → P (f s b))
    (st : σ) (l : Bytes) (h : P st) : P (absorb f st l) := by
  unfold absorb
  generalize chunks 64 l = cs
  induction cs generalizing st with
  | nil => exact h
  | cons c cs ih => exact ih _ (hf _ _ h)

theorem HashLaws.foldl {σ : Type} {H : HashObj σ} {hash : Bytes → Bytes} {mc : Nat → Prop} (L : HashLaws H hash mc) :
    ∀ (chunks : List Bytes) (s : σ) (m : Bytes), L.rep s m → (∀ c ∈ chunks, mc c.length) →
      L.rep (chunks.foldl H.append s) (m ++ chunks.flatten)
  | [], s, m, hi, _ => by simpa using hi
  | c :: cs, s, m, hi, hc => by
    have h1 := L.append s m c hi (hc c (by simp))
    have h2 := L.foldl cs _ _ h1 (fun x hx => hc x (by simp [hx]))
    simpa [List.append_assoc] using h2

theorem HashLaws.session {σ : Type} {H : HashObj σ} {hash : Bytes → Bytes} {mc : Nat → Prop} (L : HashLaws H hash mc) :
    ∀ (msgs : List (List Bytes)) (s : σ), L.rep s [] → (∀ cs ∈ msgs, ∀ c ∈ cs, mc c.length) →
      H.session s msgs = msgs.map fun cs => hash cs.flatten
  | [], _, _, _ => rfl
  | cs :: rest, s, hi, hc => by
    have h1 := L.foldl cs s [] hi (hc cs (by simp))
    rw [List.nil_append] at h1
    obtain ⟨r1, r2⟩ := L.readout _ _ h1
    have ih := L.session rest _ r2 (fun x hx => hc x (by simp [hx]))
    simp only [HashObj.session, List.map_cons, r1, ih]

theorem memcpy_zero_front (n : Nat) (src : Bytes) (_h : src.length ≤ n) :
    memcpy (List.replicate n 0) 0 src = src ++ List.replicate (n - src.length) 0 := by
  simp [memcpy]

/-- RFC 2104's block-sized key `K` -/
def hmacK (hash : Bytes → Bytes) (B : Nat) (key : Bytes) : Bytes :=
  let k0 := if key.length > B then hash key else key
  k0 ++ List.replicate (B - k0.length) 0

theorem hmacK_length (hash : Bytes → Bytes) (B ds : Nat) (key : Bytes) (hd : ∀ m, (hash m).length = ds)
    (hle : ds ≤ B) : (hmacK hash B key).length = B := by
  unfold hmacK
  by_cases h : key.length > B
  · simp only [h, if_true, List.length_append, List.length_replicate, hd]; omega
  · simp only [h, if_false, List.length_append, List.length_replicate]; omega

theorem hmac_eq_hmacK (hash : Bytes → Bytes) (B : Nat) (key text : Bytes) :
    Spec.hmac hash B key text =
      hash ((hmacK hash B key).map (· ^^^ 0x5c) ++ hash ((hmacK hash B key).map (· ^^^ 0x36) ++ text)) := rfl

theorem hmacInit_spec {σ : Type} {H : HashObj σ} {hash : Bytes → Bytes} {mc : Nat → Prop} (L : HashLaws H hash mc)
    (st : HmacState σ) (h1 : L.rep st.md []) (h2 : L.rep st.mdOpad []) (hk : mc st.key.length) :
    L.rep (hmacInit H st).md ((hmacK hash H.blockSize st.key).map (· ^^^ 0x36)) ∧
    L.rep (hmacInit H st).mdOpad ((hmacK hash H.blockSize st.key).map (· ^^^ 0x5c)) ∧
    (hmacInit H st).key = st.key := by
  have hlenK := hmacK_length hash H.blockSize H.digestSize st.key L.digest_len L.digest_le_block
  have hip : UInt8.ofNat Gen.hmacIpad = 0x36 := by decide
  have hop : UInt8.ofNat Gen.hmacOpad = 0x5c := by decide
  have hcond : Gen.hmacKeyHashed st.key.length H.blockSize = decide (st.key.length > H.blockSize) := rfl
  have zlen : (List.replicate H.blockSize (0 : UInt8)).length = H.blockSize := List.length_replicate
  have eI : (xorPad Gen.hmacIpad (hmacK hash H.blockSize st.key)).take H.blockSize =
      (hmacK hash H.blockSize st.key).map (· ^^^ 0x36) := by
    simp only [xorPad, hip]
    exact List.take_of_length_le (by rw [List.length_map, hlenK]; exact Nat.le_refl _)
  have eO : (xorPad Gen.hmacOpad (hmacK hash H.blockSize st.key)).take H.blockSize =
      (hmacK hash H.blockSize st.key).map (· ^^^ 0x5c) := by
    simp only [xorPad, hop]
    exact List.take_of_length_le (by rw [List.length_map, hlenK]; exact Nat.le_refl _)
  have hmapI : mc ((hmacK hash H.blockSize st.key).map (· ^^^ (0x36 : UInt8))).length := by
    rw [List.length_map, hlenK]; exact L.block_ok
  have hmapO : mc ((hmacK hash H.blockSize st.key).map (· ^^^ (0x5c : UInt8))).length := by
    rw [List.length_map, hlenK]; exact L.block_ok
  unfold hmacInit
  dsimp only
  rw [hcond]
  by_cases hlong : st.key.length > H.blockSize
  · -- the key is hashed first
    have ha := L.append st.md [] st.key h1 hk
    rw [List.nil_append] at ha
    obtain ⟨r1, r2⟩ := L.readout _ _ ha
    have hdl := L.digest_len st.key
    have hK : hmacK hash H.blockSize st.key = hash st.key ++ List.replicate (H.blockSize - H.digestSize) 0 := by
      simp [hmacK, hlong, hdl]
    have e1 : memcpy (List.replicate H.blockSize 0) 0 (hash st.key) = hmacK hash H.blockSize st.key := by
      rw [memcpy_zero_front _ _ (by rw [hdl]; exact L.digest_le_block), hdl, hK]
    have e2 : (hmacK hash H.blockSize st.key).take H.digestSize = hash st.key := by
      rw [hK, List.take_append_of_le_length (by rw [hdl]; exact Nat.le_refl _),
        List.take_of_length_le (by rw [hdl]; exact Nat.le_refl _)]
    simp only [hlong, decide_true, if_true, r1, e1, e2, eI, eO]
    have a1 := L.append _ [] _ r2 hmapI
    have a2 := L.append _ [] _ h2 hmapO
    rw [List.nil_append] at a1 a2
    exact ⟨a1, a2, trivial⟩
  · have hK : hmacK hash H.blockSize st.key = st.key ++ List.replicate (H.blockSize - st.key.length) 0 := by
      simp [hmacK, hlong]
    have e1 : memcpy (List.replicate H.blockSize 0) 0 st.key = hmacK hash H.blockSize st.key := by
      rw [memcpy_zero_front _ _ (by omega), hK]
    simp only [hlong, decide_false, Bool.false_eq_true, if_false, e1, eI, eO]
    have a1 := L.append _ [] _ h1 hmapI
    have a2 := L.append _ [] _ h2 hmapO
    rw [List.nil_append] at a1 a2
    exact ⟨a1, a2, trivial⟩

/-- the `hmac` object over a lawful digest is itself a lawful streaming object for RFC 2104's function -/
def hmacLaws {σ : Type} {H : HashObj σ} {hash : Bytes → Bytes} {mc : Nat → Prop} (L : HashLaws H hash mc)
    (key : Bytes) (hk : mc key.length) :
    HashLaws (hmacObj H key) (Spec.hmac hash H.blockSize key) mc where
  rep st m := L.rep st.md ((hmacK hash H.blockSize key).map (· ^^^ 0x36) ++ m) ∧
    L.rep st.mdOpad ((hmacK hash H.blockSize key).map (· ^^^ 0x5c)) ∧ st.key = key
  fresh := by
    obtain ⟨a, b, c⟩ := hmacInit_spec L ⟨H.fresh, H.fresh, key⟩ L.fresh L.fresh hk
    refine ⟨?_, b, c⟩
    rw [List.append_nil]; exact a
  append := by
    intro st m d ⟨a, b, c⟩ hd
    refine ⟨?_, b, c⟩
    have := L.append st.md _ d a hd
    rw [List.append_assoc] at this
    exact this
  readout := by
    intro st m ⟨a, b, c⟩
    obtain ⟨r1, r2⟩ := L.readout _ _ a
    have hdl := L.digest_len ((hmacK hash H.blockSize key).map (· ^^^ 0x36) ++ m)
    have hdig : (memcpy (List.replicate H.digestSize 0) 0
        (hash ((hmacK hash H.blockSize key).map (· ^^^ 0x36) ++ m))).take H.digestSize =
        hash ((hmacK hash H.blockSize key).map (· ^^^ 0x36) ++ m) := by
      rw [memcpy_zero_front _ _ (by rw [hdl]; exact Nat.le_refl _), hdl]
      simp [List.take_of_length_le (Nat.le_of_eq hdl)]
    have a2 := L.append st.mdOpad _ (hash ((hmacK hash H.blockSize key).map (· ^^^ 0x36) ++ m)) b
      (by rw [hdl]; exact L.ok_mono _ _ L.digest_le_block L.block_ok)
    obtain ⟨q1, q2⟩ := L.readout _ _ a2
    obtain ⟨i1, i2, i3⟩ := hmacInit_spec L
      ⟨(H.readout st.md).2, (H.readout (H.append st.mdOpad (hash ((hmacK hash H.blockSize key).map (· ^^^ 0x36) ++ m)))).2, st.key⟩
      r2 q2 (by rw [c]; exact hk)
    simp only [c] at i1 i2 i3
    have hro : hmacReadout H st =
        (Spec.hmac hash H.blockSize key m,
         hmacInit H ⟨(H.readout st.md).2,
           (H.readout (H.append st.mdOpad (hash ((hmacK hash H.blockSize key).map (· ^^^ 0x36) ++ m)))).2, key⟩) := by
      simp only [hmacReadout, r1, hdig, q1, hmac_eq_hmacK, c]
    show (hmacReadout H st).1 = _ ∧ (L.rep (hmacReadout H st).2.md _ ∧ L.rep (hmacReadout H st).2.mdOpad _ ∧ (hmacReadout H st).2.key = key)
    rw [hro]
    refine ⟨rfl, ?_, i2, i3⟩
    rw [List.append_nil]; exact i1
  digest_len := by
    intro m
    rw [hmac_eq_hmacK]
    exact L.digest_len _
  digest_le_block := L.digest_le_block
  block_ok := L.block_ok
  ok_mono := L.ok_mono

/-! ## CBC over an abstract block type

`W` singles out the well-formed blocks (16-byte strings in the instance); the block function and xor
only need to behave on those. -/

structure CbcLaws {β : Type} (W : β → Prop) (xor : β → β → β) (E D : β → β) : Prop where
  xor_cancel : ∀ a b, W a → W b → xor (xor a b) b = a
  xor_wf : ∀ a b, W a → W b → W (xor a b)
  enc_wf : ∀ x, W x → W (E x)
  dec_enc : ∀ x, W x → D (E x) = x

theorem cbcEncrypt_wf {β : Type} {W : β → Prop} {xor : β → β → β} {E D : β → β} (L : CbcLaws W xor E D) :
    ∀ (ps : List β) (iv : β), W iv → (∀ p ∈ ps, W p) → ∀ c ∈ cbcEncrypt xor E iv ps, W c
  | [], _, _, _ => by simp [cbcEncrypt]
  | p :: ps, iv, hiv, hps => by
    have hc : W (E (xor p iv)) := L.enc_wf _ (L.xor_wf _ _ (hps p (by simp)) hiv)
    intro c hcm
    simp only [cbcEncrypt, List.mem_cons] at hcm
    rcases hcm with rfl | h
    · exact hc
    · exact cbcEncrypt_wf L ps _ hc (fun q hq => hps q (by simp [hq])) c h

theorem cbcDecrypt_cbcEncrypt {β : Type} {W : β → Prop} {xor : β → β → β} {E D : β → β} (L : CbcLaws W xor E D) :
    ∀ (ps : List β) (iv : β), W iv → (∀ p ∈ ps, W p) → cbcDecrypt xor D iv (cbcEncrypt xor E iv ps) = ps
  | [], _, _, _ => rfl
  | p :: ps, iv, hiv, hps => by
    have hp : W p := hps p (by simp)
    have hx : W (xor p iv) := L.xor_wf _ _ hp hiv
    simp only [cbcEncrypt, cbcDecrypt, L.dec_enc _ hx, L.xor_cancel _ _ hp hiv]
    rw [cbcDecrypt_cbcEncrypt L ps _ (L.enc_wf _ hx) (fun q hq => hps q (by simp [hq]))]

theorem cbcEncrypt_append {β : Type} (xor : β → β → β) (E : β → β) :
    ∀ (a b : List β) (iv : β), cbcEncrypt xor E iv (a ++ b) =
      cbcEncrypt xor E iv a ++ cbcEncrypt xor E ((cbcEncrypt xor E iv a).getLastD iv) b
  | [], b, iv => rfl
  | p :: a, b, iv => by
    simp only [List.cons_append, cbcEncrypt]
    rw [cbcEncrypt_append xor E a b]
    cases h : cbcEncrypt xor E (E (xor p iv)) a <;> simp [List.getLastD]

theorem cbcDecrypt_append {β : Type} (xor : β → β → β) (D : β → β) :
    ∀ (a b : List β) (iv : β), cbcDecrypt xor D iv (a ++ b) =
      cbcDecrypt xor D iv a ++ cbcDecrypt xor D (a.getLastD iv) b
  | [], b, iv => rfl
  | c :: a, b, iv => by
    simp only [List.cons_append, cbcDecrypt]
    rw [cbcDecrypt_append xor D a b]
    cases a <;> simp [List.getLastD]

theorem getLastD_append {α : Type} (a b : List α) (d : α) : (a ++ b).getLastD d = b.getLastD (a.getLastD d) := by
  cases b with
  | nil => simp
  | cons x b => simp [List.getLastD_eq_getLast?, List.getLast?_append]

theorem cbcEncrypt_append' {β : Type} (xor : β → β → β) (E : β → β) (a b : List β) (iv : β) :
    cbcEncrypt xor E iv a ++ cbcEncrypt xor E ((cbcEncrypt xor E iv a).getLastD iv) b = cbcEncrypt xor E iv (a ++ b) :=
  (cbcEncrypt_append xor E a b iv).symm

theorem cbcEncrypt_last_append {β : Type} (xor : β → β → β) (E : β → β) (a b : List β) (iv : β) :
    (cbcEncrypt xor E ((cbcEncrypt xor E iv a).getLastD iv) b).getLastD ((cbcEncrypt xor E iv a).getLastD iv) =
      (cbcEncrypt xor E iv (a ++ b)).getLastD iv := by
  rw [cbcEncrypt_append, getLastD_append]

/-- with the translated slot assignment, `encrypt` chains on `iv_enc_` and leaves `iv_dec_` alone -/
theorem cbcEncryptCall_eq {β : Type} {X : CbcExt β} {xor : β → β → β} {E D : β → β} (hX : X.Standard xor E D)
    (s : CbcState β) (ps : List β) :
    cbcEncryptCall X s ps =
      (cbcEncrypt xor E s.ivEnc ps, ⟨(cbcEncrypt xor E s.ivEnc ps).getLastD s.ivEnc, s.ivDec⟩) := by
  have h0 : Gen.cbcEncIvec = 0 := rfl
  have h1 : Gen.cbcEncDir = true := rfl
  simp only [cbcEncryptCall, h0, h1, CbcState.get, CbcState.put, if_true, (hX _ _).1]

/-- `decrypt` chains on `iv_dec_` and leaves `iv_enc_` alone -/
theorem cbcDecryptCall_eq {β : Type} {X : CbcExt β} {xor : β → β → β} {E D : β → β} (hX : X.Standard xor E D)
    (s : CbcState β) (cs : List β) :
    cbcDecryptCall X s cs = (cbcDecrypt xor D s.ivDec cs, ⟨s.ivEnc, cs.getLastD s.ivDec⟩) := by
  have h0 : Gen.cbcDecIvec = 1 := rfl
  have h1 : Gen.cbcDecDir = false := rfl
  simp only [cbcDecryptCall, h0, h1, CbcState.get, CbcState.put, (hX _ _).2]
  simp

theorem cbcSetIv_eq {β : Type} (s : CbcState β) (iv : β) : cbcSetIv s iv = ⟨iv, iv⟩ := by
  have h : Gen.cbcSetIvTargets = [0, 1] := rfl
  simp [cbcSetIv, h, CbcState.put]

/-- any interleaving of calls: each direction sees one continuous CBC stream -/
theorem cbcRun_spec {β : Type} {X : CbcExt β} {xor : β → β → β} {E D : β → β} (hX : X.Standard xor E D) :
    ∀ (ops : List (CbcOp β)) (s : CbcState β),
      cbcRun X s ops =
        (cbcEncrypt xor E s.ivEnc (cbcInputsOf true ops), cbcDecrypt xor D s.ivDec (cbcInputsOf false ops),
         ⟨(cbcEncrypt xor E s.ivEnc (cbcInputsOf true ops)).getLastD s.ivEnc, (cbcInputsOf false ops).getLastD s.ivDec⟩)
  | [], s => by simp [cbcRun, cbcInputsOf, cbcEncrypt, cbcDecrypt]
  | .enc ps :: rest, s => by
    have ih := cbcRun_spec hX rest ⟨(cbcEncrypt xor E s.ivEnc ps).getLastD s.ivEnc, s.ivDec⟩
    have e1 : cbcInputsOf true (CbcOp.enc ps :: rest) = ps ++ cbcInputsOf true rest := by
      simp [cbcInputsOf, CbcOp.isEnc, CbcOp.data]
    have e2 : cbcInputsOf false (CbcOp.enc ps :: rest) = cbcInputsOf false rest := by
      simp [cbcInputsOf, CbcOp.isEnc]
    simp only [cbcRun, cbcEncryptCall_eq hX, ih, e1, e2, cbcEncrypt_append', cbcEncrypt_last_append]
  | .dec cs :: rest, s => by
    have ih := cbcRun_spec hX rest ⟨s.ivEnc, cs.getLastD s.ivDec⟩
    have e1 : cbcInputsOf false (CbcOp.dec cs :: rest) = cs ++ cbcInputsOf false rest := by
      simp [cbcInputsOf, CbcOp.isEnc, CbcOp.data]
    have e2 : cbcInputsOf true (CbcOp.dec cs :: rest) = cbcInputsOf true rest := by
      simp [cbcInputsOf, CbcOp.isEnc]
    simp only [cbcRun, cbcDecryptCall_eq hX, ih, e1, e2, cbcDecrypt_append, getLastD_append]

theorem cbcInputsOf_enc_cons {β : Type} (ps : List β) (rest : List (CbcOp β)) :
    cbcInputsOf true (CbcOp.enc ps :: rest) = ps ++ cbcInputsOf true rest ∧
    cbcInputsOf false (CbcOp.enc ps :: rest) = cbcInputsOf false rest := by
  constructor <;> simp [cbcInputsOf, CbcOp.isEnc, CbcOp.data]

theorem cbcInputsOf_dec_cons {β : Type} (cs : List β) (rest : List (CbcOp β)) :
    cbcInputsOf false (CbcOp.dec cs :: rest) = cs ++ cbcInputsOf false rest ∧
    cbcInputsOf true (CbcOp.dec cs :: rest) = cbcInputsOf true rest := by
  constructor <;> simp [cbcInputsOf, CbcOp.isEnc, CbcOp.data]

theorem cbcInputsOf_map_enc {β : Type} : ∀ (pss : List (List β)),
    cbcInputsOf true (pss.map CbcOp.enc) = pss.flatten ∧ cbcInputsOf false (pss.map CbcOp.enc) = []
  | [] => by simp [cbcInputsOf]
  | p :: pss => by
    obtain ⟨a, b⟩ := cbcInputsOf_map_enc pss
    rw [List.map_cons, (cbcInputsOf_enc_cons p _).1, (cbcInputsOf_enc_cons p _).2, a, b]
    simp

theorem cbcInputsOf_map_dec {β : Type} : ∀ (css : List (List β)),
    cbcInputsOf false (css.map CbcOp.dec) = css.flatten ∧ cbcInputsOf true (css.map CbcOp.dec) = []
  | [] => by simp [cbcInputsOf]
  | c :: css => by
    obtain ⟨a, b⟩ := cbcInputsOf_map_dec css
    rw [List.map_cons, (cbcInputsOf_dec_cons c _).1, (cbcInputsOf_dec_cons c _).2, a, b]
    simp

theorem xorBytes_length (a b : Bytes) (h : a.length = b.length) : (xorBytes a b).length = a.length := by
  simp [xorBytes, h]

theorem xorBytes_cancel : ∀ (a b : Bytes), a.length = b.length → xorBytes (xorBytes a b) b = a
  | [], [], _ => rfl
  | [], _ :: _, h => by simp at h
  | _ :: _, [], h => by simp at h
  | x :: a, y :: b, h => by
    have ih := xorBytes_cancel a b (by simpa using h)
    simp only [xorBytes] at ih ⊢
    simp only [List.zipWith_cons_cons, List.cons.injEq]
    exact ⟨by rw [UInt8.xor_assoc, UInt8.xor_self, UInt8.xor_zero], ih⟩

/-- the instance the correspondence run uses: 16-byte strings, bytewise xor, and any block function
that maps 16-byte strings to 16-byte strings and is undone by `D` (AES with a fixed key) -/
theorem cbcLaws_bytes16 (E D : Bytes → Bytes) (hE : ∀ x, x.length = 16 → (E x).length = 16)
    (hDE : ∀ x, x.length = 16 → D (E x) = x) : CbcLaws (fun b : Bytes => b.length = 16) xorBytes E D where
  xor_cancel := fun a b ha hb => xorBytes_cancel a b (by rw [ha, hb])
  xor_wf := fun a b ha hb => by rw [xorBytes_length a b (by rw [ha, hb]), ha]
  enc_wf := hE
  dec_enc := hDE

/-! ## `key::set_hex` -/

theorem hexChar_facts : ∀ c : UInt8,
    (Gen.hexCharOk c.toNat = (hexVal c).isSome) ∧
    (∀ h, hexVal c = some h → Gen.fromHex c.toNat = h ∧ h < 16) := by
  apply Cppcms.forall_uint8
  decide +kernel

theorem hexByte_eq (hi lo : UInt8) (h l : Nat) (e1 : hexVal hi = some h) (e2 : hexVal lo = some l) :
    Gen.hexByte hi.toNat lo.toNat = 16 * h + l := by
  obtain ⟨f1, b1⟩ := (hexChar_facts hi).2 h e1
  obtain ⟨f2, b2⟩ := (hexChar_facts lo).2 l e2
  simp only [Gen.hexByte, f1, f2, Nat.shiftLeft_eq]
  omega

theorem hexPairs_spec : ∀ s : Bytes, s.length % 2 = 0 →
    ((s.all fun c => Gen.hexCharOk c.toNat) = true → fromHex s = some (hexPairs s)) ∧
    ((s.all fun c => Gen.hexCharOk c.toNat) = false → fromHex s = none)
  | [], _ => by simp [fromHex, hexPairs]
  | [_], h => by simp at h
  | hi :: lo :: rest, h => by
    have hr : rest.length % 2 = 0 := by simp only [List.length_cons] at h; omega
    obtain ⟨ih1, ih2⟩ := hexPairs_spec rest hr
    have k1 := (hexChar_facts hi).1
    have k2 := (hexChar_facts lo).1
    simp only [List.all_cons, Bool.and_eq_true, Bool.and_eq_false_iff, k1, k2]
    cases e1 : hexVal hi with
    | none => simp [fromHex, e1]
    | some a =>
      cases e2 : hexVal lo with
      | none => simp [fromHex, e1, e2]
      | some b =>
        have hb := hexByte_eq hi lo a b e1 e2
        constructor
        · intro hall
          have hrest : (rest.all fun c => Gen.hexCharOk c.toNat) = true := by simpa using hall
          simp [fromHex, e1, e2, ih1 hrest, hexPairs, hb]
        · intro hall
          have hrest : (rest.all fun c => Gen.hexCharOk c.toNat) = false := by simpa using hall
          simp [fromHex, e1, e2, ih2 hrest]

/-! ## `key::read_from_file` -/

theorem keyFileWs_eq : ∀ c : UInt8, Gen.keyFileWs c.toNat = isWs c := by
  apply Cppcms.forall_uint8
  decide +kernel

theorem rstrip_append_ws : ∀ (s : Bytes), ∃ ws : Bytes, s = rstrip s ++ ws ∧ ws.all isWs = true
  | [] => ⟨[], rfl, rfl⟩
  | c :: rest => by
    obtain ⟨ws, h1, h2⟩ := rstrip_append_ws rest
    unfold rstrip
    cases hr : rstrip rest with
    | nil =>
      rw [hr, List.nil_append] at h1
      by_cases hc : isWs c = true
      · exact ⟨c :: rest, by simp [hc], by rw [h1]; simp [hc, h2]⟩
      · exact ⟨rest, by simp [hc], by rw [h1]; exact h2⟩
    | cons r0 r =>
      rw [hr] at h1
      exact ⟨ws, by rw [h1]; rfl, h2⟩

theorem rstrip_last_not_ws : ∀ (s : Bytes) (x : UInt8), (rstrip s).getLast? = some x → isWs x = false
  | [], x, h => by simp [rstrip] at h
  | c :: rest, x, h => by
    unfold rstrip at h
    cases hr : rstrip rest with
    | nil =>
      rw [hr] at h
      by_cases hc : isWs c = true
      · simp [hc] at h
      · simp only [hc] at h
        simp at h
        subst h
        simpa using hc
    | cons r0 r =>
      rw [hr] at h
      have : (r0 :: r).getLast? = some x := by simpa [List.getLast?_cons_cons] using h
      rw [← hr] at this
      exact rstrip_last_not_ws rest x this

theorem dropWhile_ws_reverse (s : Bytes) : (s.reverse.dropWhile isWs).reverse = rstrip s := by
  induction s with
  | nil => rfl
  | cons c rest ih =>
    rw [List.reverse_cons, List.dropWhile_append]
    unfold rstrip
    cases hr : rstrip rest with
    | nil =>
      have : rest.reverse.dropWhile isWs = [] := by
        have := congrArg List.reverse ih
        rw [hr] at this
        simpa using this
      simp only [this, List.isEmpty_nil, if_true]
      by_cases hc : isWs c = true <;> simp [List.dropWhile, hc]
    | cons r0 r =>
      have hne : (rest.reverse.dropWhile isWs).isEmpty = false := by
        cases h : rest.reverse.dropWhile isWs with
        | nil => rw [h] at ih; rw [hr] at ih; simp at ih
        | cons _ _ => rfl
      simp only [hne, Bool.false_eq_true, if_false, List.reverse_append, List.reverse_cons, List.reverse_nil,
        List.nil_append, List.singleton_append, ih, hr]

theorem stripTrailingWs_eq (s : Bytes) : stripTrailingWs s = rstrip s := by
  unfold stripTrailingWs
  have : (fun c : UInt8 => Gen.keyFileWs c.toNat) = isWs := funext keyFileWs_eq
  rw [this]
  exact dropWhile_ws_reverse s

end Cppcms.C16
